# sourced by setup.sh / check.sh: offline Go environment for the harness module.
# VERIF_ROOT is wherever this file lives (so a snapshot of /verif works on its own files).
export GOFLAGS=-mod=mod GOPROXY=off GOSUMDB=off GOTOOLCHAIN=local
export GO=${GO:-go1.26}
export VERIF_GOROOT=$($GO env GOROOT)
export VERIF_ROOT=$(cd "$(dirname "${BASH_SOURCE[0]}")" && pwd)
export VERIF_REPO=${VERIF_REPO:-/repo}
export VERIF_WORK=${VERIF_WORK:-$VERIF_ROOT/.work}
