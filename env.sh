# sourced by setup.sh / check.sh: offline Go environment for the harness module
export GOFLAGS=-mod=mod GOPROXY=off GOSUMDB=off GOTOOLCHAIN=local
export GO=${GO:-go1.26}
export VERIF_GOROOT=$($GO env GOROOT)
export VERIF_ROOT=/verif
export VERIF_REPO=${VERIF_REPO:-/repo}
export VERIF_WORK=${VERIF_WORK:-/verif/.work}
