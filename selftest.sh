#!/bin/bash
# Detection demo: apply each property-breaking patch under mutants/<ID>/ (or seeded/<name>/patch.diff)
# THROUGH THE BUILD OVERLAY (a patched copy of the touched files; /repo itself is not modified),
# run the property's check and require a VIOLATION.
# usage: selftest.sh [-t] [-T tier] [ID ...]     -t: also run the repository's tests of the touched packages
set -u
cd "$(dirname "$0")"
. ./env.sh
TESTS=0; TIER=quick
SEEDED=0; EQUIV=0
while getopts "tT:sq" o; do case $o in t) TESTS=1;; T) TIER=$OPTARG;; s) SEEDED=1;; q) SEEDED=1; EQUIV=1;; esac; done; shift $((OPTIND-1))
# -q: arguments are seeded_equiv/<name> directories holding a property-PRESERVING change: the check must stay quiet
# -s: arguments are seeded/<name> directories (patch.diff + meta.json with "property"); otherwise property ids
IDS=${*:-$(ls mutants 2>/dev/null)}
pass=0; fail=0; summary=""
for ARG in $IDS; do
  if [ $SEEDED = 1 ]; then
    ID=$(python3 -c "import json,sys;print(json.load(open(sys.argv[1]+'/meta.json'))['property'])" $ARG); PATCHES=$ARG/patch.diff
  else
    ID=$ARG; PATCHES=$(ls mutants/$ID/*.patch 2>/dev/null)
  fi
  for p in $PATCHES; do
    [ -f "$p" ] || continue
    name=$(basename $p .patch); [ $SEEDED = 1 ] && name=$(basename $ARG); [ $EQUIV = 1 ] && name=$name.equiv
    tmp=$(mktemp -d $VERIF_WORK/mut.XXXXXX); mkdir -p $tmp/repo
    for f in $(grep '^+++ b/' $p | sed 's,^+++ b/,,'); do mkdir -p $tmp/repo/$(dirname $f); cp $VERIF_REPO/$f $tmp/repo/$f; done
    if ! patch -s -p1 -d $tmp/repo < $p; then echo "MUTANT $ID/$name: patch does not apply"; fail=$((fail+1)); rm -rf $tmp; continue; fi
    tests="-"
    if [ $TESTS = 1 ]; then
      python3 mc/tools/mkoverlay.py $tmp/ov.json $tmp
      pk=$(grep '^+++ b/' $p | sed 's,^+++ b/,,' | xargs -n1 dirname | sort -u | sed 's,^,./,' | tr '\n' ' ')
      mkdir -p $tmp/mod; cp $VERIF_REPO/go.mod $VERIF_REPO/go.sum $tmp/mod/   # private modfile: /repo/go.sum stays untouched
      if ( cd $VERIF_REPO && env -u GOSUMDB -u GOPROXY GOTOOLCHAIN=auto GOFLAGS=-mod=mod go test -modfile=$tmp/mod/go.mod -overlay $tmp/ov.json -vet=off -count=1 $pk ) > $tmp/tests.log 2>&1; then tests="repo-tests-pass"; else tests="REPO-TESTS-FAIL"; fi
    fi
    out=$(VERIF_WORK=$tmp/work VERIF_EVIDENCE_DIR=$tmp/ev VERIF_EXTRA_OVERLAY=$tmp ./check.sh $ID $TIER 2>&1); rc=$?
    if [[ $name == *.equiv ]]; then
      # negative control: a behaviour change under which the property still HOLDS must not raise an alarm
      if [ $rc = 0 ]; then pass=$((pass+1)); res="QUIET(as required: property-preserving change)"; else fail=$((fail+1)); res="FALSE-ALARM(rc=$rc)"; fi
    elif [ $rc = 1 ] && echo "$out" | grep -q "^VIOLATION property=$ID"; then
      pass=$((pass+1)); res=CAUGHT
    else
      fail=$((fail+1)); res="MISSED(rc=$rc)"
    fi
    line="MUTANT $ID/$name: $res $tests $(echo "$out" | grep -m1 'violation in section' | cut -c1-160)"
    echo "$line"; summary="$summary$line\n"
    rm -rf $tmp
  done
done
echo "selftest: caught=$pass missed=$fail"
[ $fail = 0 ]
