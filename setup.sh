#!/bin/bash
# Offline setup: warm the Go build cache by building every check's harness once against /repo.
set -u
cd "$(dirname "$0")"
. ./env.sh
mkdir -p "$VERIF_WORK" evidence replays
cp -f $VERIF_REPO/go.sum mc/go.sum
rc=0
build_one() {
  d=$1; id=$(basename $d); ID=$(echo $id | tr a-z A-Z); W=$VERIF_WORK/$ID; mkdir -p $W
  GROUPS_=$(cat $d/OVERLAYS 2>/dev/null | tr '\n' ' ')
  EXTRA=""; if [ -x $d/pre.sh ]; then EXTRA=$($d/pre.sh "$W") || return 1; fi
  python3 mc/tools/mkoverlay.py $W/overlay.json $GROUPS_ ${EXTRA:-} || return 1
  ( cd mc && $GO build -overlay $W/overlay.json -o $W/$id.bin ./props/$id ) > $W/build.log 2>&1 || { echo "setup: build of $ID failed"; tail -20 $W/build.log; return 1; }
  if [ -x $d/build_extra.sh ]; then $d/build_extra.sh "$W" > $W/build_extra.log 2>&1 || { echo "setup: extra build of $ID failed"; tail -20 $W/build_extra.log; return 1; }; fi
  echo "setup: built $ID"
}
# first one serially (fills the cache with the tink packages), the rest in parallel
first=1
for d in mc/props/c*/; do
  d=${d%/}
  if [ $first = 1 ]; then build_one $d || rc=1; first=0; else build_one $d & fi
done
wait
[ -x mc/props/setup_extra.sh ] && mc/props/setup_extra.sh
echo "setup: done rc=$rc"
exit $rc
