#!/bin/bash
# usage: check.sh <ID> quick|thorough            run the check for property <ID>
#        check.sh <ID> replay <path>             re-execute one recorded violation
# Rebuilds the harness against /repo's current working tree (overlay adds shims; /repo untouched).
set -u
cd "$(dirname "$0")"
. ./env.sh
ID=${1:?property id}; MODE=${2:-quick}
id=$(echo "$ID" | tr A-Z a-z)
[ -d mc/props/$id ] || { echo "no check for $ID"; exit 2; }
W=$VERIF_WORK/$ID; EVD=${VERIF_EVIDENCE_DIR:-$VERIF_ROOT/evidence}; mkdir -p "$W" "$EVD"
cp -f $VERIF_REPO/go.sum mc/go.sum 2>/dev/null
GROUPS_=$(cat mc/props/$id/OVERLAYS 2>/dev/null | tr '\n' ' ')
if [ -x mc/props/$id/pre.sh ]; then
  # property-specific generation step (e.g. C18 source instrumentation); prints extra overlay groups
  EXTRA=$(mc/props/$id/pre.sh "$W") || { echo "[$ID] pre-build step failed"; exit 2; }
fi
# order matters (later groups win): static shims, then an externally supplied tree (selftest mutants), then generated trees
python3 mc/tools/mkoverlay.py "$W/overlay.json" $GROUPS_ ${VERIF_EXTRA_OVERLAY:-} ${EXTRA:-} || exit 2
build() { ( cd mc && $GO build -overlay "$W/overlay.json" -o "$W/$id.bin" ./props/$id ) > "$W/build.log" 2>&1; }
if ! build; then
  # The export shims reach into unexported names of tink; if a refactoring of tink renamed them, fall back to the
  # stubs (same exported API, no internals): the seam-level sections are skipped, everything else still runs.
  cp "$W/build.log" "$W/build-with-seams.log"
  VERIF_STUBS=1 python3 mc/tools/mkoverlay.py "$W/overlay.json" $GROUPS_ ${VERIF_EXTRA_OVERLAY:-} ${EXTRA:-} || exit 2
  if grep -q '\.stub"' "$W/overlay.json" && build; then
    echo "[$ID] NOTE: the internal seams could not be built against this tree (tink internals changed: $(grep -m1 -o 'zz_verif_export[^ ]*' "$W/build-with-seams.log")); seam-level sections are skipped, all API-level sections run"
    export VERIF_NOSEAMS=1
  else
    echo "[$ID] BUILD FAILED (harness could not be built against the current /repo tree)"; tail -30 "$W/build-with-seams.log"; exit 2
  fi
fi
if [ -x mc/props/$id/build_extra.sh ]; then
  mc/props/$id/build_extra.sh "$W" > "$W/build_extra.log" 2>&1 || { echo "[$ID] extra build step failed"; tail -20 "$W/build_extra.log"; exit 2; }
fi
case "$MODE" in
  quick|thorough)
    rm -f "$EVD/$ID.json"
    VERIF_TIER=$MODE exec "$W/$id.bin" -tier "$MODE" -evidence "$EVD/$ID.json" "${@:3}" ;;
  replay)
    exec "$W/$id.bin" -replay "${3:?replay file}" ;;
  *) echo "unknown mode $MODE"; exit 2 ;;
esac
