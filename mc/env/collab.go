package env

// Collaborators with enumerated "odd but legal" answers (engine E4): a key-encryption / KMS AEAD and a monitoring
// client. With Mode 0 they behave like the wrapped well-behaved object.

import (
	"context"
	"errors"
	"fmt"

	"github.com/tink-crypto/tink-go/v2/monitoring"
	"github.com/tink-crypto/tink-go/v2/tink"
)

// OddAEAD wraps a real AEAD. Its answers are always CORRECT ciphertexts / plaintexts of the wrapped AEAD (so a
// library that handles them properly round-trips), but they may share memory with the arguments, and chosen calls
// may fail.
type OddAEAD struct {
	A    tink.AEAD
	Mode int
	// FailEncryptAt / FailDecryptAt: 0-based call index that fails with ErrInjected (-1: never)
	FailEncryptAt, FailDecryptAt int
	encCalls, decCalls           int
	// last plaintext handed to Encrypt (the library's buffer, retained as a real remote client may do by accident)
	LastPlain []byte
	cache     map[string][]byte
}

const (
	AEADNormal        = iota // fresh slices
	AEADAliasEncrypt         // Encrypt returns a slice whose FIRST len(plaintext) bytes are the caller's plaintext buffer itself ("in-place"), the real ciphertext follows... see below
	AEADDecryptSub           // Decrypt returns a sub-slice of a buffer that also holds (a copy of) the ciphertext
	AEADCachedDecrypt        // Decrypt answers repeated ciphertexts from a cache and hands out the cached slice itself
	AEADModes
)

var AEADModeNames = []string{"fresh-slices", "encrypt-result-in-callers-buffer", "decrypt-result-is-subslice", "decrypt-result-from-cache"}

func NewOddAEAD(a tink.AEAD, mode int) *OddAEAD {
	return &OddAEAD{A: a, Mode: mode, FailEncryptAt: -1, FailDecryptAt: -1}
}

func (o *OddAEAD) Encrypt(pt, ad []byte) ([]byte, error) {
	c := o.encCalls
	o.encCalls++
	if c == o.FailEncryptAt {
		return nil, ErrInjected
	}
	ct, err := o.A.Encrypt(pt, ad)
	if err != nil {
		return nil, err
	}
	o.LastPlain = pt
	if o.Mode == AEADAliasEncrypt && cap(pt) >= len(ct) {
		// a KMS client that "encrypts in place": the answer lives in the caller's own buffer
		out := pt[:len(ct)]
		copy(out, ct)
		return out, nil
	}
	if o.Mode == AEADAliasEncrypt {
		// no room: at least overwrite the caller's buffer with the ciphertext prefix (in-place cipher semantics)
		copy(pt, ct)
	}
	return ct, nil
}

func (o *OddAEAD) Decrypt(ct, ad []byte) ([]byte, error) {
	c := o.decCalls
	o.decCalls++
	if c == o.FailDecryptAt {
		return nil, ErrInjected
	}
	pt, err := o.A.Decrypt(ct, ad)
	if err != nil {
		return nil, err
	}
	switch o.Mode {
	case AEADDecryptSub:
		buf := make([]byte, 0, len(ct)+len(pt)+8)
		buf = append(buf, ct...)
		buf = append(buf, pt...)
		return buf[len(ct):], nil // capacity continues behind the plaintext; the ciphertext copy sits in front of it
	case AEADCachedDecrypt:
		if o.cache == nil {
			o.cache = map[string][]byte{}
		}
		k := string(ct) + "|" + string(ad)
		if v, ok := o.cache[k]; ok {
			return v, nil
		}
		o.cache[k] = pt
		return pt, nil
	}
	return pt, nil
}

// OddAEADCtx is the tink.AEADWithContext view of an OddAEAD.
type OddAEADCtx struct{ O *OddAEAD }

func (o OddAEADCtx) EncryptWithContext(_ context.Context, pt, ad []byte) ([]byte, error) {
	return o.O.Encrypt(pt, ad)
}
func (o OddAEADCtx) DecryptWithContext(_ context.Context, ct, ad []byte) ([]byte, error) {
	return o.O.Decrypt(ct, ad)
}

// FlakyMonitor is a monitoring.Client whose NewLogger fails at the FailAt-th call (0-based; -1 never).
type FlakyMonitor struct {
	FailAt int
	Calls  int
	Events []string
}

type flakyLogger struct {
	m   *FlakyMonitor
	ctx string
}

func (l flakyLogger) Log(id uint32, n int) {
	l.m.Events = append(l.m.Events, fmt.Sprintf("%s:ok:%#x:%d", l.ctx, id, n))
}
func (l flakyLogger) LogFailure() { l.m.Events = append(l.m.Events, l.ctx+":failure") }
func (l flakyLogger) LogKeyExport(id uint32) {
	l.m.Events = append(l.m.Events, fmt.Sprintf("%s:export:%#x", l.ctx, id))
}

var ErrMonitor = errors.New("verif: injected monitoring client error")

func (m *FlakyMonitor) NewLogger(c *monitoring.Context) (monitoring.Logger, error) {
	i := m.Calls
	m.Calls++
	if i == m.FailAt {
		return nil, ErrMonitor
	}
	return flakyLogger{m, c.Primitive + "/" + c.APIFunction}, nil
}
