// Package env holds scripted io.Reader / io.Writer with enumerated fault answers (engine E4).
package env

import (
	"errors"
	"io"
)

var ErrInjected = errors.New("verif: injected persistent I/O error")

// ScriptReader serves Data through Read calls whose sizes are decided by Answer (called once per
// underlying Read with the number of bytes remaining and the caller's buffer size; returns how many
// bytes to hand out, >=1 when bytes remain). FailAt >= 0: from byte offset FailAt on, every Read fails
// with ErrInjected (bytes before FailAt are still delivered). EOFWithData: the final bytes are returned
// together with io.EOF.
type ScriptReader struct {
	Data        []byte
	Pos         int
	Answer      func(remaining, buf int) int
	FailAt      int
	FailErr     error // error served from FailAt on (nil: ErrInjected); e.g. io.ErrUnexpectedEOF of a truncated gzip source
	EOFWithData bool
	Calls       int
}

func (r *ScriptReader) failErr() error {
	if r.FailErr != nil {
		return r.FailErr
	}
	return ErrInjected
}

func NewScriptReader(data []byte) *ScriptReader { return &ScriptReader{Data: data, FailAt: -1} }

func (r *ScriptReader) Read(p []byte) (int, error) {
	r.Calls++
	if r.FailAt >= 0 && r.Pos >= r.FailAt {
		return 0, r.failErr()
	}
	if len(p) == 0 {
		return 0, nil
	}
	rem := len(r.Data) - r.Pos
	if r.FailAt >= 0 && r.FailAt-r.Pos < rem {
		rem = r.FailAt - r.Pos
	}
	if rem == 0 {
		if r.FailAt >= 0 {
			return 0, r.failErr()
		}
		return 0, io.EOF
	}
	n := rem
	if n > len(p) {
		n = len(p)
	}
	if r.Answer != nil {
		a := r.Answer(rem, len(p))
		if a >= 1 && a < n {
			n = a
		}
	}
	copy(p, r.Data[r.Pos:r.Pos+n])
	r.Pos += n
	if r.EOFWithData && r.Pos == len(r.Data) && r.FailAt < 0 {
		return n, io.EOF
	}
	return n, nil
}

// ScriptWriter collects written bytes; from the FailFrom-th Write call on (0-based; <0 never) every
// Write fails with ErrInjected and writes nothing.
type ScriptWriter struct {
	Buf      []byte
	FailFrom int
	Calls    int
	Failed   int
	// FullCount: a failing call reports len(p) bytes written TOGETHER with the error (nothing is stored): legal
	// for an io.Writer, and an error all the same
	FullCount bool
}

func NewScriptWriter() *ScriptWriter { return &ScriptWriter{FailFrom: -1} }

func (w *ScriptWriter) Write(p []byte) (int, error) {
	c := w.Calls
	w.Calls++
	if w.FailFrom >= 0 && c >= w.FailFrom {
		w.Failed++
		if w.FullCount {
			return len(p), ErrInjected
		}
		return 0, ErrInjected
	}
	w.Buf = append(w.Buf, p...)
	return len(p), nil
}
