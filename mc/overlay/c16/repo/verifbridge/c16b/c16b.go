// Package c16b exists only in the /verif build overlay (property C16): it hands the internal
// SLH-DSA package to the external harness module.
package c16b

import "github.com/tink-crypto/tink-go/v2/internal/signature/slhdsa"

type (
	P         = slhdsa.P
	SecretKey = slhdsa.SecretKey
	PublicKey = slhdsa.PublicKey
)

const (
	AFLayer        = slhdsa.AFLayer
	AFTree         = slhdsa.AFTree
	AFTypeAndClear = slhdsa.AFTypeAndClear
	AFKeyPair      = slhdsa.AFKeyPair
	AFChain        = slhdsa.AFChain
	AFTreeHeight   = slhdsa.AFTreeHeight
	AFHash         = slhdsa.AFHash
	AFTreeIndex    = slhdsa.AFTreeIndex
)

func Set(name string) *P                       { return slhdsa.VSet(name) }
func ToInt(x []byte, n uint32) uint64          { return slhdsa.VToInt(x, n) }
func ToByte(x, n uint32) []byte                { return slhdsa.VToByte(x, n) }
func Base2b(x []byte, b, out uint32) []uint32  { return slhdsa.VBase2b(x, b, out) }
func AddrSet(a *[32]byte, field int, v uint64) { slhdsa.VAddrSet(a, field, v) }
func AddrKeyPair(a *[32]byte) uint32           { return slhdsa.VAddrKeyPair(a) }
func AddrTreeIndex(a *[32]byte) uint32         { return slhdsa.VAddrTreeIndex(a) }
func AddrCompress(a *[32]byte) []byte          { return slhdsa.VAddrCompress(a) }
func AddrCopy(a *[32]byte) [32]byte            { return slhdsa.VAddrCopy(a) }
func NewAddress() [32]byte                     { return slhdsa.VNewAddress() }
