// Package c16b exists only in the /verif build overlay (property C16): it hands the internal
// SLH-DSA package to the external harness module.
package c16b

import "github.com/tink-crypto/tink-go/v2/internal/signature/slhdsa"

type (
	P         = slhdsa.P
	SecretKey = slhdsa.SecretKey
	PublicKey = slhdsa.PublicKey
)

const (
	AFLayer        = slhdsa.AFLayer
	AFTree         = slhdsa.AFTree
	AFTypeAndClear = slhdsa.AFTypeAndClear
	AFKeyPair      = slhdsa.AFKeyPair
	AFChain        = slhdsa.AFChain
	AFTreeHeight   = slhdsa.AFTreeHeight
	AFHash         = slhdsa.AFHash
	AFTreeIndex    = slhdsa.AFTreeIndex
)

// Set returns the parameter set under its (unexported) type, for the seam methods of the shim.
func Set(name string) *P                       { return slhdsa.VSet(name) }
func ToInt(x []byte, n uint32) uint64          { return slhdsa.VToInt(x, n) }
func ToByte(x, n uint32) []byte                { return slhdsa.VToByte(x, n) }
func Base2b(x []byte, b, out uint32) []uint32  { return slhdsa.VBase2b(x, b, out) }
func AddrSet(a *[32]byte, field int, v uint64) { slhdsa.VAddrSet(a, field, v) }
func AddrKeyPair(a *[32]byte) uint32           { return slhdsa.VAddrKeyPair(a) }
func AddrTreeIndex(a *[32]byte) uint32         { return slhdsa.VAddrTreeIndex(a) }
func AddrCompress(a *[32]byte) []byte          { return slhdsa.VAddrCompress(a) }
func AddrCopy(a *[32]byte) [32]byte            { return slhdsa.VAddrCopy(a) }
func NewAddress() [32]byte                     { return slhdsa.VNewAddress() }

// API is the EXPORTED method set of a parameter set (slhdsa.SLH_DSA_*) as far as the harness uses it. The parameter
// type itself is unexported; the interface lets the scheme level run without naming it, i.e. also when the export
// shim is replaced by its stub.
type API interface {
	KeyGen() (*slhdsa.SecretKey, *slhdsa.PublicKey)
	PublicKeyLength() int
	SecretKeyLength() int
	DecodePublicKey(pkEnc []byte) (*slhdsa.PublicKey, error)
	DecodeSecretKey(skEnc []byte) (*slhdsa.SecretKey, error)
}

// APISet returns the parameter set with the given FIPS 205 name through exported names only (nil if unknown).
func APISet(name string) API {
	switch name {
	case "SLH-DSA-SHA2-128s":
		return slhdsa.SLH_DSA_SHA2_128s
	case "SLH-DSA-SHAKE-128s":
		return slhdsa.SLH_DSA_SHAKE_128s
	case "SLH-DSA-SHA2-128f":
		return slhdsa.SLH_DSA_SHA2_128f
	case "SLH-DSA-SHAKE-128f":
		return slhdsa.SLH_DSA_SHAKE_128f
	case "SLH-DSA-SHA2-192s":
		return slhdsa.SLH_DSA_SHA2_192s
	case "SLH-DSA-SHAKE-192s":
		return slhdsa.SLH_DSA_SHAKE_192s
	case "SLH-DSA-SHA2-192f":
		return slhdsa.SLH_DSA_SHA2_192f
	case "SLH-DSA-SHAKE-192f":
		return slhdsa.SLH_DSA_SHAKE_192f
	case "SLH-DSA-SHA2-256s":
		return slhdsa.SLH_DSA_SHA2_256s
	case "SLH-DSA-SHAKE-256s":
		return slhdsa.SLH_DSA_SHAKE_256s
	case "SLH-DSA-SHA2-256f":
		return slhdsa.SLH_DSA_SHA2_256f
	case "SLH-DSA-SHAKE-256f":
		return slhdsa.SLH_DSA_SHAKE_256f
	}
	return nil
}
