package c16b

import (
	"github.com/tink-crypto/tink-go/v2/internal/keygenregistry"
	"github.com/tink-crypto/tink-go/v2/key"
)

// CreateKey is the key-generation registry (exported function of an internal package): the hook that
// keyset.Manager.Add / AddNewKeyFromParameters / keyset.NewHandle and the legacy key managers end in.
func CreateKey(p key.Parameters, idRequirement uint32) (key.Key, error) {
	return keygenregistry.CreateKey(p, idRequirement)
}
