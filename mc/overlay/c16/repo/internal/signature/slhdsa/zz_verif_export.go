// This file exists only in the /verif build overlay (property C16). It re-exports the unexported
// seams of the SLH-DSA implementation; it contains no logic of its own apart from the digest stub.
package slhdsa

// P names the unexported parameter-set type.
type P = params

// VSet returns the parameter set with the given FIPS 205 name (nil if unknown).
func VSet(name string) *P {
	switch name {
	case "SLH-DSA-SHA2-128s":
		return SLH_DSA_SHA2_128s
	case "SLH-DSA-SHAKE-128s":
		return SLH_DSA_SHAKE_128s
	case "SLH-DSA-SHA2-128f":
		return SLH_DSA_SHA2_128f
	case "SLH-DSA-SHAKE-128f":
		return SLH_DSA_SHAKE_128f
	case "SLH-DSA-SHA2-192s":
		return SLH_DSA_SHA2_192s
	case "SLH-DSA-SHAKE-192s":
		return SLH_DSA_SHAKE_192s
	case "SLH-DSA-SHA2-192f":
		return SLH_DSA_SHA2_192f
	case "SLH-DSA-SHAKE-192f":
		return SLH_DSA_SHAKE_192f
	case "SLH-DSA-SHA2-256s":
		return SLH_DSA_SHA2_256s
	case "SLH-DSA-SHAKE-256s":
		return SLH_DSA_SHAKE_256s
	case "SLH-DSA-SHA2-256f":
		return SLH_DSA_SHA2_256f
	case "SLH-DSA-SHAKE-256f":
		return SLH_DSA_SHAKE_256f
	}
	return nil
}

// VDims: n h d hp a k lgw m w len1 len2 len.
func (p *params) VDims() [12]uint32 {
	return [12]uint32{p.n, p.h, p.d, p.hp, p.a, p.k, p.lgw, p.m, p.w, p.len1, p.len2, p.len}
}

func VToInt(x []byte, n uint32) uint64                { return toInt(x, n) }
func VToByte(x uint32, n uint32) []byte               { return toByte(x, n) }
func VBase2b(x []byte, b uint32, out uint32) []uint32 { return base2b(x, b, out) }

// Address field selectors for VAddrSet.
const (
	AFLayer = iota
	AFTree
	AFTypeAndClear
	AFKeyPair
	AFChain
	AFTreeHeight
	AFHash
	AFTreeIndex
)

// VAddrSet applies one address setter to the 32-byte address a.
func VAddrSet(a *[32]byte, field int, v uint64) {
	ad := (*address)(a)
	switch field {
	case AFLayer:
		ad.setLayerAddress(uint32(v))
	case AFTree:
		ad.setTreeAddress(v)
	case AFTypeAndClear:
		ad.setTypeAndClear(addressType(v))
	case AFKeyPair:
		ad.setKeyPairAddress(uint32(v))
	case AFChain:
		ad.setChainAddress(uint32(v))
	case AFTreeHeight:
		ad.setTreeHeight(uint32(v))
	case AFHash:
		ad.setHashAddress(uint32(v))
	case AFTreeIndex:
		ad.setTreeIndex(uint32(v))
	}
}
func VAddrKeyPair(a *[32]byte) uint32   { return (*address)(a).keyPairAddress() }
func VAddrTreeIndex(a *[32]byte) uint32 { return (*address)(a).treeIndex() }
func VAddrCompress(a *[32]byte) []byte  { return (*address)(a).compress() }
func VAddrCopy(a *[32]byte) [32]byte    { return [32]byte(*(*address)(a).copy()) }
func VNewAddress() [32]byte             { return [32]byte(*newAddress()) }

// Tweakable hash functions of the parameter set.
func (p *params) VHMsg(r, pkSeed, pkRoot, msg []byte) []byte { return p.hHMsg(r, pkSeed, pkRoot, msg) }
func (p *params) VPrf(pkSeed, skSeed []byte, a *[32]byte) []byte {
	return p.hPrf(pkSeed, skSeed, (*address)(a))
}
func (p *params) VPrfMsg(skPrf, optRand, msg []byte) []byte { return p.hPrfMsg(skPrf, optRand, msg) }
func (p *params) VF(pkSeed []byte, a *[32]byte, m []byte) []byte {
	return p.hF(pkSeed, (*address)(a), m)
}
func (p *params) VH(pkSeed []byte, a *[32]byte, m []byte) []byte {
	return p.hH(pkSeed, (*address)(a), m)
}
func (p *params) VTl(pkSeed []byte, a *[32]byte, m []byte) []byte {
	return p.hTl(pkSeed, (*address)(a), m)
}

// WOTS+.
func (p *params) VChain(x []byte, i, s uint32, pkSeed []byte, a *[32]byte) []byte {
	return p.chain(x, i, s, pkSeed, (*address)(a))
}
func (p *params) VWotsChecksum(msg []byte) []uint32 { return p.wotsChecksum(msg) }
func (p *params) VWotsPkGen(skSeed, pkSeed []byte, a *[32]byte) []byte {
	return p.wotsPkGen(skSeed, pkSeed, (*address)(a))
}
func (p *params) VWotsSign(msg, skSeed, pkSeed []byte, a *[32]byte) []byte {
	return p.wotsSign(msg, skSeed, pkSeed, (*address)(a))
}
func (p *params) VWotsPkFromSig(sig, msg, pkSeed []byte, a *[32]byte) []byte {
	return p.wotsPkFromSig(sig, msg, pkSeed, (*address)(a))
}

// XMSS.
func (p *params) VXmssNode(skSeed []byte, i, z uint32, pkSeed []byte, a *[32]byte) []byte {
	return p.xmssNode(skSeed, i, z, pkSeed, (*address)(a))
}
func (p *params) VXmssSign(msg, skSeed []byte, idx uint32, pkSeed []byte, a *[32]byte) []byte {
	return p.xmssSign(msg, skSeed, idx, pkSeed, (*address)(a))
}
func (p *params) VXmssPkFromSig(idx uint32, sig, msg, pkSeed []byte, a *[32]byte) []byte {
	return p.xmssPkFromSig(idx, sig, msg, pkSeed, (*address)(a))
}

// Hypertree.
func (p *params) VHtSign(msg, skSeed, pkSeed []byte, idxTree uint64, idxLeaf uint32) []byte {
	return p.htSign(msg, skSeed, pkSeed, idxTree, idxLeaf)
}
func (p *params) VHtVerify(msg, sig, pkSeed []byte, idxTree uint64, idxLeaf uint32, pkRoot []byte) bool {
	return p.htVerify(msg, sig, pkSeed, idxTree, idxLeaf, pkRoot)
}

// FORS.
func (p *params) VForsSkGen(skSeed, pkSeed []byte, a *[32]byte, idx uint32) []byte {
	return p.forsSkGen(skSeed, pkSeed, (*address)(a), idx)
}
func (p *params) VForsNode(skSeed []byte, i, z uint32, pkSeed []byte, a *[32]byte) []byte {
	return p.forsNode(skSeed, i, z, pkSeed, (*address)(a))
}
func (p *params) VForsSign(md, skSeed, pkSeed []byte, a *[32]byte) []byte {
	return p.forsSign(md, skSeed, pkSeed, (*address)(a))
}
func (p *params) VForsPkFromSig(sig, md, pkSeed []byte, a *[32]byte) []byte {
	return p.forsPkFromSig(sig, md, pkSeed, (*address)(a))
}

// Internal key generation / signing / verification (FIPS 205 Algorithms 18-20).
func (p *params) VKeygenInternal(skSeed, skPrf, pkSeed []byte) (*SecretKey, *PublicKey) {
	return p.slhKeygenInternal(skSeed, skPrf, pkSeed)
}
func (sk *SecretKey) VSignInternal(msg, addrnd []byte) []byte { return sk.signInternal(msg, addrnd) }
func (pk *PublicKey) VVerifyInternal(msg, sig []byte) error   { return pk.verifyInternal(msg, sig) }

// VWithDigest returns a copy of the parameter set whose H_msg returns the given digest, so that the
// digest split of signInternal / verifyInternal is reached with chosen md / idxTree / idxLeaf bits.
func (p *params) VWithDigest(digest []byte) *P {
	q := *p
	q.pHMsg = func(r, pkSeed, pkRoot, msg []byte, m uint32) []byte {
		return append([]byte(nil), digest...)
	}
	return &q
}
