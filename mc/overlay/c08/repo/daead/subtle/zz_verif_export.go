package subtle

// Export shim added by the /verif build overlay (group c08): the CTR step of AES-SIV with a caller-chosen SIV.

// VerifCTR runs ctrCrypt(siv, in) and returns the output.
func (asc *AESSIV) VerifCTR(siv, in []byte) ([]byte, error) {
	out := make([]byte, len(in))
	err := asc.ctrCrypt(siv, in, out)
	return out, err
}
