// Package c08b exists only in the /verif build overlay (group c08): it exposes the internal AES-CMAC
// object of tink (internal/mac/aescmac) to the external harness module of property C08.
package c08b

import "github.com/tink-crypto/tink-go/v2/internal/mac/aescmac"

// CMAC wraps tink's internal CMAC object.
type CMAC struct{ c *aescmac.CMAC }

func New(key []byte) (*CMAC, error) {
	c, err := aescmac.New(key)
	if err != nil {
		return nil, err
	}
	return &CMAC{c}, nil
}

func (m *CMAC) Compute(data []byte) []byte { return m.c.Compute(data) }

func (m *CMAC) XOREndAndCompute(data, last []byte) ([]byte, error) {
	return m.c.XOREndAndCompute(data, last)
}
