// Package c03b exists only in the /verif build overlay (property C03): it hands the raw RSA signer /
// verifier constructors of internal/signature to the external harness module.
package c03b

import (
	"crypto/rsa"

	internal "github.com/tink-crypto/tink-go/v2/internal/signature"
	"github.com/tink-crypto/tink-go/v2/tink"
)

func PKCS1Signer(hashAlg string, k *rsa.PrivateKey) (tink.Signer, error) {
	s, err := internal.New_RSA_SSA_PKCS1_Signer(hashAlg, k)
	if err != nil {
		return nil, err
	}
	return s, nil
}

func PKCS1Verifier(hashAlg string, k *rsa.PublicKey) (tink.Verifier, error) {
	v, err := internal.New_RSA_SSA_PKCS1_Verifier(hashAlg, k)
	if err != nil {
		return nil, err
	}
	return v, nil
}

func PSSSigner(hashAlg string, saltLen int, k *rsa.PrivateKey) (tink.Signer, error) {
	s, err := internal.New_RSA_SSA_PSS_Signer(hashAlg, saltLen, k)
	if err != nil {
		return nil, err
	}
	return s, nil
}

func PSSVerifier(hashAlg string, saltLen int, k *rsa.PublicKey) (tink.Verifier, error) {
	v, err := internal.New_RSA_SSA_PSS_Verifier(hashAlg, saltLen, k)
	if err != nil {
		return nil, err
	}
	return v, nil
}
