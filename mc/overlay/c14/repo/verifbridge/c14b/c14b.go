// Package c14b exists only in the /verif build overlay (property C14).
package c14b

import "github.com/tink-crypto/tink-go/v2/internal/signature/slhdsa"

// SLHKeygen returns the encoded SLH-DSA secret key for fixed seeds ("f" parameter sets only).
func SLHKeygen(name string, skSeed, skPrf, pkSeed []byte) []byte {
	return slhdsa.VerifKeygenC14(name, skSeed, skPrf, pkSeed)
}
