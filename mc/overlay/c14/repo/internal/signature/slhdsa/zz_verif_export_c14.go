package slhdsa

// VerifKeygenC14 exposes FIPS 205 Algorithm 18 (slh_keygen_internal) so that the C14 harness can build
// valid SLH-DSA seed keys from fixed seeds. Returns the encoded secret key (skSeed||skPrf||pkSeed||pkRoot).
func VerifKeygenC14(name string, skSeed, skPrf, pkSeed []byte) []byte {
	var p *params
	switch name {
	case "SHA2-128f":
		p = SLH_DSA_SHA2_128f
	case "SHAKE-128f":
		p = SLH_DSA_SHAKE_128f
	case "SHA2-192f":
		p = SLH_DSA_SHA2_192f
	case "SHAKE-192f":
		p = SLH_DSA_SHAKE_192f
	case "SHA2-256f":
		p = SLH_DSA_SHA2_256f
	case "SHAKE-256f":
		p = SLH_DSA_SHAKE_256f
	default:
		return nil
	}
	sk, _ := p.slhKeygenInternal(skSeed, skPrf, pkSeed)
	return sk.Encode()
}
