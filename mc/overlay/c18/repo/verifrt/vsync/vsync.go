// Package vsync replaces "sync" in instrumented tink sources (overlay only). Inside a controlled
// execution Mutex / RWMutex are logical locks whose blocking is visible to the scheduler (a thread
// that cannot take a lock is parked and another enabled thread runs; "no enabled thread" is a
// deadlock). Outside an execution they delegate to the real sync types.
package vsync

import (
	"sync"

	"github.com/tink-crypto/tink-go/v2/verifrt/sched"
)

type (
	Map       = sync.Map
	Once      = sync.Once
	WaitGroup = sync.WaitGroup
	Pool      = sync.Pool
	Locker    = sync.Locker
)

type Mutex struct {
	real   sync.Mutex
	locked bool
}

func (m *Mutex) Lock() {
	if !sched.Active() {
		m.real.Lock()
		return
	}
	sched.Point()
	for m.locked {
		sched.Block(m)
	}
	m.locked = true
}

func (m *Mutex) Unlock() {
	if !sched.Active() {
		m.real.Unlock()
		return
	}
	if !m.locked {
		panic("vsync: unlock of unlocked Mutex")
	}
	m.locked = false
	sched.Unblock(m)
	sched.Point()
}

type RWMutex struct {
	real    sync.RWMutex
	writer  bool
	readers int
}

func (m *RWMutex) Lock() {
	if !sched.Active() {
		m.real.Lock()
		return
	}
	sched.Point()
	for m.writer || m.readers > 0 {
		sched.Block(m)
	}
	m.writer = true
}

func (m *RWMutex) Unlock() {
	if !sched.Active() {
		m.real.Unlock()
		return
	}
	if !m.writer {
		panic("vsync: Unlock of unlocked RWMutex")
	}
	m.writer = false
	sched.Unblock(m)
	sched.Point()
}

func (m *RWMutex) RLock() {
	if !sched.Active() {
		m.real.RLock()
		return
	}
	sched.Point()
	for m.writer {
		sched.Block(m)
	}
	m.readers++
}

func (m *RWMutex) RUnlock() {
	if !sched.Active() {
		m.real.RUnlock()
		return
	}
	if m.readers <= 0 {
		panic("vsync: RUnlock of unlocked RWMutex")
	}
	m.readers--
	sched.Unblock(m)
	sched.Point()
}
