// Package vsync replaces "sync" in instrumented tink sources (overlay only). Inside a controlled
// execution Mutex / RWMutex are logical locks whose blocking is visible to the scheduler (a thread
// that cannot take a lock is parked and another enabled thread runs; "no enabled thread" is a
// deadlock). Outside an execution they delegate to the real sync types.
package vsync

import (
	"sync"

	"github.com/tink-crypto/tink-go/v2/verifrt/sched"
)

type (
	Map       = sync.Map
	WaitGroup = sync.WaitGroup
	Locker    = sync.Locker
	Cond      = sync.Cond
)

func NewCond(l Locker) *Cond { return sync.NewCond(l) }

// Pool: the real sync.Pool hands items out per P and drops them at garbage collections — nondeterminism the explorer
// does not own. This Pool is a deterministic LIFO stack that is emptied at the start of every controlled execution:
// within one execution an item that was Put is handed to the very next Get of ANY thread (a legal sync.Pool
// behaviour, and the one under which a use-after-Put shows), and nothing carries over between executions.
type Pool struct {
	New   func() any
	items []any
	epoch any
}

func (p *Pool) sync() {
	if e := sched.Epoch(); e != p.epoch {
		p.epoch, p.items = e, nil
	}
}

func (p *Pool) Get() any {
	if sched.Active() {
		sched.Point()
	}
	p.sync()
	if n := len(p.items); n > 0 {
		x := p.items[n-1]
		p.items = p.items[:n-1]
		return x
	}
	if p.New != nil {
		return p.New()
	}
	return nil
}

func (p *Pool) Put(x any) {
	if x == nil {
		return
	}
	p.sync()
	p.items = append(p.items, x)
	if sched.Active() {
		sched.Point()
	}
}

// Once runs f under a lock, and f is instrumented code with scheduling points: a thread preempted inside f while
// another thread enters Do must be seen as BLOCKED by the scheduler (with the real sync.Once the second thread
// would block for real and the execution would deadlock). Hence a logical Once on top of the logical Mutex.
type Once struct {
	m    Mutex
	done bool
}

func (o *Once) Do(f func()) {
	if sched.Active() {
		sched.Point()
	}
	if o.done {
		return
	}
	o.m.Lock()
	defer o.m.Unlock()
	if !o.done {
		defer func() { o.done = true }()
		f()
	}
}

func OnceFunc(f func()) func() {
	var o Once
	return func() { o.Do(f) }
}

func OnceValue[T any](f func() T) func() T {
	var o Once
	var v T
	return func() T {
		o.Do(func() { v = f() })
		return v
	}
}

func OnceValues[T1, T2 any](f func() (T1, T2)) func() (T1, T2) {
	var o Once
	var v1 T1
	var v2 T2
	return func() (T1, T2) {
		o.Do(func() { v1, v2 = f() })
		return v1, v2
	}
}

type Mutex struct {
	real   sync.Mutex
	locked bool
}

func (m *Mutex) Lock() {
	if !sched.Active() {
		m.real.Lock()
		return
	}
	sched.Point()
	for m.locked {
		sched.Block(m)
	}
	m.locked = true
}

func (m *Mutex) Unlock() {
	if !sched.Active() {
		m.real.Unlock()
		return
	}
	if !m.locked {
		panic("vsync: unlock of unlocked Mutex")
	}
	m.locked = false
	sched.Unblock(m)
	sched.Point()
}

type RWMutex struct {
	real    sync.RWMutex
	writer  bool
	readers int
}

func (m *RWMutex) Lock() {
	if !sched.Active() {
		m.real.Lock()
		return
	}
	sched.Point()
	for m.writer || m.readers > 0 {
		sched.Block(m)
	}
	m.writer = true
}

func (m *RWMutex) Unlock() {
	if !sched.Active() {
		m.real.Unlock()
		return
	}
	if !m.writer {
		panic("vsync: Unlock of unlocked RWMutex")
	}
	m.writer = false
	sched.Unblock(m)
	sched.Point()
}

func (m *RWMutex) RLock() {
	if !sched.Active() {
		m.real.RLock()
		return
	}
	sched.Point()
	for m.writer {
		sched.Block(m)
	}
	m.readers++
}

func (m *RWMutex) RUnlock() {
	if !sched.Active() {
		m.real.RUnlock()
		return
	}
	if m.readers <= 0 {
		panic("vsync: RUnlock of unlocked RWMutex")
	}
	m.readers--
	sched.Unblock(m)
	sched.Point()
}
