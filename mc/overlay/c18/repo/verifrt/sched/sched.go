// Package sched is the runtime of engine E3 (controlled cooperative scheduler). It exists only in
// the /verif build overlay. Instrumented tink sources call Point() before every statement; the
// harness runs a scenario's threads as real goroutines of which exactly ONE runs at a time; at every
// point the scheduler asks the explorer's decision function which enabled thread runs next.
// Outside an execution (package init, scenario setup, sequential oracle runs) Point() is a no-op.
package sched

import (
	"fmt"
	"runtime/debug"
	"strings"
)

// Decision is asked at every scheduling point with more than one enabled thread. enabled is in
// canonical order: the running thread first if it is still enabled, then ascending thread ids.
// runningEnabled tells whether choosing a non-zero index is a preemption. It returns an index.
type Decision func(nEnabled int, runningEnabled bool) int

type thread struct {
	id      int
	wake    chan struct{}
	done    bool
	blocked any // resource the thread waits for (nil = enabled)
	started bool
	fn      func()
	panicV  string
}

// Exec is one controlled execution.
type Exec struct {
	threads  []*thread
	running  *thread
	decide   Decision
	Points   int // scheduling points passed (after striding)
	RawH     int // raw heavy points seen
	Switches int
	horizon  int
	stride   int
	hctr     int
	abort    bool
	Deadlock bool
	Horizon  bool
	finished chan struct{}
	Panics   []string
}

var cur *Exec

type abortSentinel struct{}

// Current returns the id of the running thread, or -1 outside an execution.
func Current() int {
	if cur == nil || cur.running == nil {
		return -1
	}
	return cur.running.id
}

// Active reports whether an execution is in progress.
func Active() bool { return cur != nil }

// Epoch identifies the current controlled execution (nil outside one); shims with per-execution state reset on change.
func Epoch() any {
	if cur == nil {
		return nil
	}
	return cur
}

// Point is a scheduling point (inserted before every statement of instrumented code).
func Point() {
	e := cur
	if e == nil {
		return
	}
	e.point()
}

// PointH is a scheduling point of a "heavy" numeric package: only every stride-th one is a real point.
func PointH() {
	e := cur
	if e == nil {
		return
	}
	e.RawH++
	e.hctr++
	if e.hctr < e.stride {
		return
	}
	e.hctr = 0
	e.point()
}

func (e *Exec) point() {
	if e.abort {
		panic(abortSentinel{})
	}
	e.Points++
	if e.Points > e.horizon {
		e.Horizon = true
		e.abort = true
		panic(abortSentinel{})
	}
	e.reschedule()
}

// enabledList returns the enabled threads in canonical order.
func (e *Exec) enabledList() ([]*thread, bool) {
	var out []*thread
	runningEnabled := e.running != nil && !e.running.done && e.running.blocked == nil
	if runningEnabled {
		out = append(out, e.running)
	}
	for _, t := range e.threads {
		if t != e.running && !t.done && t.blocked == nil {
			out = append(out, t)
		}
	}
	return out, runningEnabled
}

// reschedule is called by the running thread: it picks the next thread and, if that is another one,
// hands over and parks until woken again.
func (e *Exec) reschedule() {
	me := e.running
	en, runningEnabled := e.enabledList()
	if len(en) == 0 {
		// nobody can run: every unfinished thread is blocked
		e.Deadlock = true
		e.abort = true
		panic(abortSentinel{})
	}
	idx := 0
	if len(en) > 1 {
		idx = e.decide(len(en), runningEnabled)
		if idx < 0 || idx >= len(en) {
			panic(fmt.Sprintf("sched: decision %d out of range %d (replay divergence)", idx, len(en)))
		}
	}
	next := en[idx]
	if next == me {
		return
	}
	e.Switches++
	e.running = next
	next.wake <- struct{}{}
	<-me.wake
	if e.abort {
		panic(abortSentinel{})
	}
}

// Block parks the running thread until res is released (Unblock) — used by the sync shim.
// It returns after the thread has been rescheduled with the resource marked free for it to retry.
func Block(res any) {
	e := cur
	if e == nil {
		panic("sched.Block outside an execution")
	}
	me := e.running
	me.blocked = res
	e.reschedule()
}

// Unblock makes every thread waiting for res enabled again.
func Unblock(res any) {
	e := cur
	if e == nil {
		return
	}
	for _, t := range e.threads {
		if t.blocked == res {
			t.blocked = nil
		}
	}
}

func shortStack() string {
	var out []string
	for _, l := range strings.Split(string(debug.Stack()), "\n") {
		if strings.Contains(l, "tink-go") || strings.Contains(l, "/repo/") {
			out = append(out, strings.TrimSpace(l))
		}
		if len(out) >= 6 {
			break
		}
	}
	return strings.Join(out, " | ")
}

// threadMain is the goroutine body of a controlled thread.
func (e *Exec) threadMain(t *thread) {
	<-t.wake
	t.started = true
	if !e.abort {
		func() {
			defer func() {
				if r := recover(); r != nil {
					if _, ok := r.(abortSentinel); !ok {
						t.panicV = fmt.Sprintf("thread %d panicked: %v [%s]", t.id, r, shortStack())
						e.Panics = append(e.Panics, t.panicV)
					}
				}
			}()
			t.fn()
		}()
	}
	t.done = true
	if e.abort {
		// unwinding: pass the baton to any other thread still to be unwound, else finish
		for _, o := range e.threads {
			if !o.done {
				if !o.started {
					o.started = true
				}
				e.running = o
				o.wake <- struct{}{}
				return
			}
		}
		close(e.finished)
		return
	}
	// normal end of this thread: choose who runs next
	en, _ := e.enabledList()
	if len(en) == 0 {
		all := true
		for _, o := range e.threads {
			if !o.done {
				all = false
			}
		}
		if all {
			close(e.finished)
			return
		}
		e.Deadlock = true
		e.abort = true
		for _, o := range e.threads {
			if !o.done {
				e.running = o
				o.wake <- struct{}{}
				return
			}
		}
		close(e.finished)
		return
	}
	idx := 0
	if len(en) > 1 {
		idx = e.decide(len(en), false)
		if idx < 0 || idx >= len(en) {
			panic(fmt.Sprintf("sched: decision %d out of range %d (replay divergence)", idx, len(en)))
		}
	}
	e.running = en[idx]
	en[idx].wake <- struct{}{}
}

// Run executes the thread functions under the controlled scheduler. stride >= 1 thins heavy points.
func Run(fns []func(), decide Decision, horizon, stride int) *Exec {
	if cur != nil {
		panic("sched: nested execution")
	}
	if stride < 1 {
		stride = 1
	}
	e := &Exec{decide: decide, horizon: horizon, stride: stride, finished: make(chan struct{})}
	for i, fn := range fns {
		e.threads = append(e.threads, &thread{id: i, wake: make(chan struct{}, 1), fn: fn})
	}
	cur = e
	for _, t := range e.threads {
		go e.threadMain(t)
	}
	// initial decision: no running thread
	idx := 0
	if len(e.threads) > 1 {
		idx = decide(len(e.threads), false)
	}
	e.running = e.threads[idx]
	e.threads[idx].wake <- struct{}{}
	<-e.finished
	cur = nil
	return e
}
