// Package mldsab exists only in the /verif build overlay (property C10). It lives inside the tink
// module so that it may hand tink-go's internal ML-DSA implementation to the external harness.
package mldsab

import (
	"github.com/tink-crypto/tink-go/v2/internal/signature/mldsa"
)

type (
	Params    = mldsa.VerifParams
	PublicKey = mldsa.PublicKey
	SecretKey = mldsa.SecretKey
	Poly      = [256]uint32
)

const (
	Q      = mldsa.VerifQ
	D      = mldsa.VerifD
	Inv256 = mldsa.VerifInv256
)

// Par returns the parameter set 44 / 65 / 87 for the seam functions (its type is unexported in tink; the shim names it).
func Par(inst int) *Params { return mldsa.VerifPar(inst) }

// API is the EXPORTED method set of a parameter set (mldsa.MLDSA44 / 65 / 87) as far as the harness uses it. The
// parameter type itself is unexported; the interface lets the API-level sections run without naming it, i.e. also
// when the export shim is replaced by its stub.
type API interface {
	KeyGenFromSeed(seed [mldsa.SecretKeySeedSize]byte) (*mldsa.PublicKey, *mldsa.SecretKey)
	PublicKeyLength() int
	SecretKeyLength() int
	DecodePublicKey(pkEnc []byte) (*mldsa.PublicKey, error)
	DecodeSecretKey(skEnc []byte) (*mldsa.SecretKey, error)
}

// APIOf returns the parameter set 44 / 65 / 87 through exported names only.
func APIOf(inst int) API {
	switch inst {
	case 44:
		return mldsa.MLDSA44
	case 65:
		return mldsa.MLDSA65
	case 87:
		return mldsa.MLDSA87
	}
	panic("mldsab: unknown parameter set")
}

func ReduceOnce(a uint32) uint32                  { return mldsa.VerifReduceOnce(a) }
func Add(a, b uint32) uint32                      { return mldsa.VerifAdd(a, b) }
func Sub(a, b uint32) uint32                      { return mldsa.VerifSub(a, b) }
func Neg(a uint32) uint32                         { return mldsa.VerifNeg(a) }
func Mul(a, b uint32) uint32                      { return mldsa.VerifMul(a, b) }
func ScalePower2(a uint32) uint32                 { return mldsa.VerifScalePower2(a) }
func DivBy2Gamma2(a, gamma2 uint32) uint32        { return mldsa.VerifDivBy2Gamma2(a, gamma2) }
func HighBits(a, gamma2 uint32) uint32            { return mldsa.VerifHighBits(a, gamma2) }
func LowBits(a, gamma2 uint32) uint32             { return mldsa.VerifLowBits(a, gamma2) }
func MakeHint(z, gamma2, r uint32) uint32         { return mldsa.VerifMakeHint(z, gamma2, r) }
func UseHint(a, gamma2, h uint32) uint32          { return mldsa.VerifUseHint(a, gamma2, h) }
func CenteredAbs(a uint32) uint32                 { return mldsa.VerifCenteredAbs(a) }
func CenteredMax(a, b uint32) uint32              { return mldsa.VerifCenteredMax(a, b) }
func Power2Round(a uint32) (uint32, uint32)       { return mldsa.VerifPower2Round(a) }
func Decompose(a, gamma2 uint32) (uint32, uint32) { return mldsa.VerifDecompose(a, gamma2) }

var (
	Zetas              = mldsa.VerifZetas
	NTT                = mldsa.VerifNTT
	INTT               = mldsa.VerifINTT
	MulNTT             = mldsa.VerifMulNTT
	InfinityNorm       = mldsa.VerifInfinityNorm
	VectorInfinityNorm = mldsa.VerifVectorInfinityNorm
	SimpleBitPack      = mldsa.VerifSimpleBitPack
	BitPack            = mldsa.VerifBitPack
	SimpleBitPackNTT   = mldsa.VerifSimpleBitPackNTT
	BitPackNTT         = mldsa.VerifBitPackNTT
	SimpleBitUnpack    = mldsa.VerifSimpleBitUnpack
	BitUnpack          = mldsa.VerifBitUnpack
	SimpleBitUnpackNTT = mldsa.VerifSimpleBitUnpackNTT
	BitUnpackNTT       = mldsa.VerifBitUnpackNTT
	HintBitPack        = mldsa.VerifHintBitPack
	HintBitUnpack      = mldsa.VerifHintBitUnpack
	W1Encode           = mldsa.VerifW1Encode
	SigEncode          = mldsa.VerifSigEncode
	SigDecode          = mldsa.VerifSigDecode
	CoeffFromHalfByte  = mldsa.VerifCoeffFromHalfByte
	SampleInBall       = mldsa.VerifSampleInBall
	RejectNTTPoly      = mldsa.VerifRejectNTTPoly
	RejectBoundedPoly  = mldsa.VerifRejectBoundedPoly
	ExpandMask         = mldsa.VerifExpandMask
	SignInternal       = mldsa.VerifSignInternal
	SignInternalWithMu = mldsa.VerifSignInternalWithMu
)
