package mldsa

// Export shim added by the /verif build overlay (property C10): re-exports the unexported scalar,
// polynomial, packing and sampling functions with plain uint32 / byte types. No logic here.

// VerifParams is the unexported parameter type.
type VerifParams = params

// VerifPar returns the parameter set 44 / 65 / 87 under its (unexported) type, for the seam functions below.
func VerifPar(inst int) *VerifParams {
	switch inst {
	case 44:
		return MLDSA44
	case 65:
		return MLDSA65
	case 87:
		return MLDSA87
	}
	panic("verif: unknown ML-DSA parameter set")
}

const (
	VerifQ      = q
	VerifD      = d
	VerifInv256 = inv256
)

func (par *params) VerifK() int          { return par.k }
func (par *params) VerifL() int          { return par.l }
func (par *params) VerifOmega() int      { return par.omega }
func (par *params) VerifGamma2() uint32  { return par.gamma2 }
func (par *params) VerifEta() int        { return par.eta }
func (par *params) VerifEtaBits() int    { return par.etaBits }
func (par *params) VerifW1Bits() int     { return par.w1Bits }
func (par *params) VerifLog2Gamma1() int { return par.log2Gamma1 }
func (par *params) VerifTau() int        { return par.tau }
func (par *params) VerifLambda() int     { return par.lambda }

func VerifReduceOnce(a uint32) uint32           { return uint32(rZq(a).reduceOnce()) }
func VerifAdd(a, b uint32) uint32               { return uint32(rZq(a).add(rZq(b))) }
func VerifSub(a, b uint32) uint32               { return uint32(rZq(a).sub(rZq(b))) }
func VerifNeg(a uint32) uint32                  { return uint32(rZq(a).neg()) }
func VerifMul(a, b uint32) uint32               { return uint32(rZq(a).mul(rZq(b))) }
func VerifScalePower2(a uint32) uint32          { return uint32(rZq(a).scalePower2()) }
func VerifDivBy2Gamma2(a, gamma2 uint32) uint32 { return divBy2Gamma2(a, gamma2) }
func VerifHighBits(a, gamma2 uint32) uint32     { return uint32(rZq(a).highBits(gamma2)) }
func VerifLowBits(a, gamma2 uint32) uint32      { return uint32(rZq(a).lowBits(gamma2)) }
func VerifMakeHint(z, gamma2, r uint32) uint32  { return uint32(rZq(z).makeHint(gamma2, rZq(r))) }
func VerifUseHint(a, gamma2, h uint32) uint32   { return uint32(rZq(a).useHint(gamma2, rZq(h))) }
func VerifCenteredAbs(a uint32) uint32          { return rZq(a).centeredAbs() }
func VerifCenteredMax(a, b uint32) uint32       { return uint32(rZq(a).centeredMax(rZq(b))) }
func VerifPower2Round(a uint32) (uint32, uint32) {
	r1, r0 := rZq(a).power2Round()
	return uint32(r1), uint32(r0)
}
func VerifDecompose(a, gamma2 uint32) (uint32, uint32) {
	r1, r0 := rZq(a).decompose(gamma2)
	return uint32(r1), uint32(r0)
}

func VerifZetas() (z [degree]uint32) {
	for i := range zetas {
		z[i] = uint32(zetas[i])
	}
	return
}

func toPoly(p *[degree]uint32) *poly {
	r := &poly{}
	for i := range p {
		r[i] = rZq(p[i])
	}
	return r
}

func toPolyNTT(p *[degree]uint32) *polyNTT {
	r := &polyNTT{}
	for i := range p {
		r[i] = rZq(p[i])
	}
	return r
}

func fromPoly(p *poly) (r [degree]uint32) {
	for i := range p {
		r[i] = uint32(p[i])
	}
	return
}

func fromPolyNTT(p *polyNTT) (r [degree]uint32) {
	for i := range p {
		r[i] = uint32(p[i])
	}
	return
}

func toVector(v [][degree]uint32) vector {
	r := make(vector, len(v))
	for i := range v {
		r[i] = toPoly(&v[i])
	}
	return r
}

func fromVector(v vector) [][degree]uint32 {
	r := make([][degree]uint32, len(v))
	for i := range v {
		r[i] = fromPoly(v[i])
	}
	return r
}

func VerifNTT(p *[degree]uint32) [degree]uint32  { return fromPolyNTT(toPoly(p).ntt()) }
func VerifINTT(p *[degree]uint32) [degree]uint32 { return fromPoly(toPolyNTT(p).intt()) }
func VerifMulNTT(a, b *[degree]uint32) [degree]uint32 {
	return fromPolyNTT(toPolyNTT(a).mul(toPolyNTT(b)))
}
func VerifInfinityNorm(p *[degree]uint32) uint32        { return toPoly(p).infinityNorm() }
func VerifVectorInfinityNorm(v [][degree]uint32) uint32 { return toVector(v).infinityNorm() }

func VerifSimpleBitPack(p *[degree]uint32, bits int) []byte { return toPoly(p).simpleBitPack(bits) }
func VerifBitPack(p *[degree]uint32, a uint32, bits int) []byte {
	return toPoly(p).bitPack(rZq(a), bits)
}
func VerifSimpleBitPackNTT(p *[degree]uint32, bits int) []byte {
	return toPolyNTT(p).simpleBitPack(bits)
}
func VerifBitPackNTT(p *[degree]uint32, a uint32, bits int) []byte {
	return toPolyNTT(p).bitPack(rZq(a), bits)
}
func VerifSimpleBitUnpack(enc []byte, bits int) [degree]uint32 {
	return fromPoly(simpleBitUnpackPoly(enc, bits))
}
func VerifBitUnpack(enc []byte, a uint32, bits int) [degree]uint32 {
	return fromPoly(bitUnpackPoly(enc, rZq(a), bits))
}
func VerifSimpleBitUnpackNTT(enc []byte, bits int) [degree]uint32 {
	return fromPolyNTT(simpleBitUnpackPolyNTT(enc, bits))
}
func VerifBitUnpackNTT(enc []byte, a uint32, bits int) [degree]uint32 {
	return fromPolyNTT(bitUnpackPolyNTT(enc, rZq(a), bits))
}

func VerifHintBitPack(par *params, h [][degree]uint32) []byte { return toVector(h).hintBitPack(par) }
func VerifHintBitUnpack(par *params, enc []byte) ([][degree]uint32, error) {
	v, err := par.hintBitUnpackVector(enc)
	if err != nil {
		return nil, err
	}
	return fromVector(v), nil
}
func VerifW1Encode(par *params, w1 [][degree]uint32) []byte { return par.w1Encode(toVector(w1)) }
func VerifSigEncode(par *params, c []byte, z, h [][degree]uint32) []byte {
	return par.sigEncode(c, toVector(z), toVector(h))
}
func VerifSigDecode(par *params, sigma []byte) ([]byte, [][degree]uint32, [][degree]uint32, error) {
	c, z, h, err := par.sigDecode(sigma)
	if err != nil {
		return nil, nil, nil, err
	}
	return c, fromVector(z), fromVector(h), nil
}

func VerifCoeffFromHalfByte(par *params, b byte) (uint32, bool) {
	c, ok := par.coeffFromHalfByte(b)
	return uint32(c), ok
}
func VerifSampleInBall(par *params, rho []byte) [degree]uint32 {
	return fromPoly(par.sampleInBall(rho))
}
func VerifRejectNTTPoly(rho [34]byte) [degree]uint32 { return fromPolyNTT(rejectNTTPoly(rho)) }
func VerifRejectBoundedPoly(par *params, rho [66]byte) [degree]uint32 {
	return fromPoly(par.rejectBoundedPoly(rho))
}
func VerifExpandMask(par *params, rho [64]byte, mu int) [][degree]uint32 {
	return fromVector(par.expandMask(rho, mu))
}

// VerifSignInternal is Sign_internal(sk, M', rnd): the hedged signer with the randomness supplied.
func VerifSignInternal(sk *SecretKey, mp []byte, rnd [32]byte) []byte {
	return sk.signInternal(mp, rnd)
}

// VerifSignInternalWithMu is the external-mu signer with the randomness supplied.
func VerifSignInternalWithMu(sk *SecretKey, mu [64]byte, rnd [32]byte) []byte {
	return sk.signInternalWithMu(mu, rnd)
}
