package hpke

// Export shim added by the /verif build overlay (group c06): exposes the unexported HPKE context so
// that seal/open can be driven at chosen sequence numbers. Not part of tink-go.

import (
	"math/big"

	"github.com/tink-crypto/tink-go/v2/secretdata"
)

// VerifContext wraps the unexported context.
type VerifContext struct{ c *context }

// VerifNewSenderContext is SetupBaseS: returns the context and the encapsulated key.
func VerifNewSenderContext(pub []byte, kemID KEMID, kdfID KDFID, aeadID AEADID, info []byte) (*VerifContext, []byte, error) {
	k, d, a, err := newPrimitives(kemID, kdfID, aeadID)
	if err != nil {
		return nil, nil, err
	}
	c, err := newSenderContext(pub, k, d, a, info)
	if err != nil {
		return nil, nil, err
	}
	return &VerifContext{c}, c.encapsulatedKey, nil
}

// VerifNewRecipientContext is SetupBaseR.
func VerifNewRecipientContext(enc []byte, priv secretdata.Bytes, kemID KEMID, kdfID KDFID, aeadID AEADID, info []byte) (*VerifContext, error) {
	k, d, a, err := newPrimitives(kemID, kdfID, aeadID)
	if err != nil {
		return nil, err
	}
	c, err := newRecipientContext(enc, priv, k, d, a, info)
	if err != nil {
		return nil, err
	}
	return &VerifContext{c}, nil
}

// SetSeq sets the sequence number (big-endian bytes).
func (v *VerifContext) SetSeq(be []byte) { v.c.sequenceNumber = new(big.Int).SetBytes(be) }

// Seq returns the sequence number (big-endian, minimal).
func (v *VerifContext) Seq() []byte { return v.c.sequenceNumber.Bytes() }

func (v *VerifContext) Seal(pt, ad []byte) ([]byte, error) { return v.c.seal(pt, ad) }
func (v *VerifContext) Open(ct, ad []byte) ([]byte, error) { return v.c.open(ct, ad) }
