// Package verifc06 exists only in the /verif build overlay (group c06). It lives under hybrid/ so that it
// may import hybrid/internal/hpke and hand its export shim to the external harness module.
package verifc06

import (
	internalhpke "github.com/tink-crypto/tink-go/v2/hybrid/internal/hpke"
	"github.com/tink-crypto/tink-go/v2/insecuresecretdataaccess"
	"github.com/tink-crypto/tink-go/v2/secretdata"
	"github.com/tink-crypto/tink-go/v2/tink"
)

// Context is the wrapped HPKE context (SetSeq, Seq, Seal, Open).
type Context = internalhpke.VerifContext

func NewSenderContext(pub []byte, kem, kdf, aead uint16, info []byte) (*Context, []byte, error) {
	return internalhpke.VerifNewSenderContext(pub, internalhpke.KEMID(kem), internalhpke.KDFID(kdf), internalhpke.AEADID(aead), info)
}

func NewRecipientContext(enc, priv []byte, kem, kdf, aead uint16, info []byte) (*Context, error) {
	return internalhpke.VerifNewRecipientContext(enc, secretdata.NewBytesFromData(priv, insecuresecretdataaccess.Token{}),
		internalhpke.KEMID(kem), internalhpke.KDFID(kdf), internalhpke.AEADID(aead), info)
}

// NewEncrypt / NewDecrypt are the raw (prefix-less) internal single-shot primitives.
func NewEncrypt(pub []byte, kem, kdf, aead uint16) (tink.HybridEncrypt, error) {
	return internalhpke.NewEncrypt(pub, internalhpke.KEMID(kem), internalhpke.KDFID(kdf), internalhpke.AEADID(aead))
}

func NewDecrypt(priv []byte, kem, kdf, aead uint16) (tink.HybridDecrypt, error) {
	return internalhpke.NewDecrypt(secretdata.NewBytesFromData(priv, insecuresecretdataaccess.Token{}),
		internalhpke.KEMID(kem), internalhpke.KDFID(kdf), internalhpke.AEADID(aead))
}
