package aead

// Export shim added by the /verif build overlay (group c01): narrow seams of AES-GCM-SIV for C01.

func VerifPolyvalDot(alo, ahi, blo, bhi uint64) (uint64, uint64) {
	r := polyvalDot(fieldElement{lo: alo, hi: ahi}, fieldElement{lo: blo, hi: bhi})
	return r.lo, r.hi
}

func VerifAESCTR(key, tag, in, out []byte) error { return aesCTR(key, tag, in, out) }

func VerifDeriveKeys(a *AESGCMSIV, nonce, authKey, encKey []byte) error {
	return a.deriveKeys(nonce, authKey, encKey)
}
