package xaesgcm

import (
	"fmt"

	"github.com/tink-crypto/tink-go/v2/tink"
)

// VerifDerivePerMessageKey is an export shim added by the /verif build overlay (group c01).
func VerifDerivePerMessageKey(a tink.AEAD, salt []byte) ([]byte, error) {
	x, ok := a.(*aead)
	if !ok {
		return nil, fmt.Errorf("not an xaesgcm primitive: %T", a)
	}
	return x.derivePerMessageKey(salt)
}
