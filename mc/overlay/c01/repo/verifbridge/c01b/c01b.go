// Package c01b exists only in the /verif build overlay (group c01). It lives inside the tink module
// so that it may reach internal packages on behalf of the external harness module.
package c01b

import (
	"fmt"

	internalaead "github.com/tink-crypto/tink-go/v2/internal/aead"
	"github.com/tink-crypto/tink-go/v2/internal/primitiveregistry"
	"github.com/tink-crypto/tink-go/v2/key"
	"github.com/tink-crypto/tink-go/v2/tink"
)

// Primitive calls the per-key-type primitive constructor (the unexported newAEAD of each AEAD key type).
func Primitive(k key.Key) (tink.AEAD, error) {
	p, err := primitiveregistry.Primitive(k)
	if err != nil {
		return nil, err
	}
	a, ok := p.(tink.AEAD)
	if !ok {
		return nil, fmt.Errorf("primitive of %T is %T, not tink.AEAD", k, p)
	}
	return a, nil
}

func PolyvalDot(alo, ahi, blo, bhi uint64) (uint64, uint64) {
	return internalaead.VerifPolyvalDot(alo, ahi, blo, bhi)
}

// Polyval runs internal/aead POLYVAL with one Update call per chunk.
func Polyval(key []byte, chunks ...[]byte) ([16]byte, error) {
	p, err := internalaead.NewPolyval(key)
	if err != nil {
		return [16]byte{}, err
	}
	for _, c := range chunks {
		p.Update(c)
	}
	return p.Finish(), nil
}

func GCMSIVCTR(key, tag, in []byte) ([]byte, error) {
	out := make([]byte, len(in))
	if err := internalaead.VerifAESCTR(key, tag, in, out); err != nil {
		return nil, err
	}
	return out, nil
}

func GCMSIVDeriveKeys(key, nonce []byte) (authKey, encKey []byte, err error) {
	a, err := internalaead.NewAESGCMSIV(key)
	if err != nil {
		return nil, nil, err
	}
	authKey = make([]byte, 16)
	encKey = make([]byte, len(key))
	if err := internalaead.VerifDeriveKeys(a, nonce, authKey, encKey); err != nil {
		return nil, nil, err
	}
	return authKey, encKey, nil
}
