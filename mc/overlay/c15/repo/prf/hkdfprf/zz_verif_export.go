package hkdfprf

import "github.com/tink-crypto/tink-go/v2/key"

// Export shim added by the /verif build overlay (group c15): the per-key-type primitive constructor.

// VerifPrimitive calls the package's primitiveConstructor.
func VerifPrimitive(k key.Key) (any, error) { return primitiveConstructor(k) }
