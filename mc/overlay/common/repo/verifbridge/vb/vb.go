// Package vb exists only in the /verif build overlay. It lives inside the tink module so
// that it may hand values of internal types to the external harness module.
package vb

import (
	"github.com/tink-crypto/tink-go/v2/internal/internalapi"
	"github.com/tink-crypto/tink-go/v2/internal/internalregistry"
	"github.com/tink-crypto/tink-go/v2/monitoring"
	"github.com/tink-crypto/tink-go/v2/internal/protoserialization"
	"github.com/tink-crypto/tink-go/v2/key"
	tinkpb "github.com/tink-crypto/tink-go/v2/proto/tink_go_proto"
)

// Tok returns the internal API token required by per-key-type primitive constructors.
func Tok() internalapi.Token { return internalapi.Token{} }

// SerializeKey returns the proto form of a key: KeyData, prefix type, id requirement.
func SerializeKey(k key.Key) (*tinkpb.KeyData, tinkpb.OutputPrefixType, uint32, bool, error) {
	s, err := protoserialization.SerializeKey(k)
	if err != nil {
		return nil, 0, 0, false, err
	}
	id, req := s.IDRequirement()
	return s.KeyData(), s.OutputPrefixType(), id, req, nil
}

// ParseKey parses a proto key.
func ParseKey(kd *tinkpb.KeyData, pt tinkpb.OutputPrefixType, id uint32) (key.Key, error) {
	s, err := protoserialization.NewKeySerialization(kd, pt, id)
	if err != nil {
		return nil, err
	}
	return protoserialization.ParseKey(s)
}

func SerializeParameters(p key.Parameters) (*tinkpb.KeyTemplate, error) {
	return protoserialization.SerializeParameters(p)
}

func ParseParameters(t *tinkpb.KeyTemplate) (key.Parameters, error) {
	return protoserialization.ParseParameters(t)
}

// RegisterMonitoringClient installs the process-global monitoring client (fails if one is registered).
func RegisterMonitoringClient(c monitoring.Client) error {
	return internalregistry.RegisterMonitoringClient(c)
}

// ClearMonitoringClient removes the global monitoring client.
func ClearMonitoringClient() { internalregistry.ClearMonitoringClient() }
