// Package dump renders the COMPLETE private state of a live Go object (all exported and
// unexported fields, through pointers, slices, maps and interfaces) as a canonical string.
// Engine E2 uses it as the state key of explicit-state search: two histories whose dumps are
// equal have identical futures (deterministic code, position-determined inputs), and a code
// change that adds hidden state only refines the key.
package dump

import (
	"fmt"
	"reflect"
	"sort"
	"strings"
	"unsafe"
)

// Opts customises the dump. Label, when it returns ok, replaces the dump of a value (used to
// abstract key material inside key.Key objects by a creation label).
type Opts struct {
	Label    func(v reflect.Value) (string, bool)
	MaxDepth int
	// SkipTypes: fully qualified type names (pkgpath.Name) rendered as "<T>" (e.g. sync.Mutex).
	SkipTypes map[string]bool
}

type dumper struct {
	o    Opts
	ptrs map[unsafe.Pointer]int
	sb   strings.Builder
}

// String returns the canonical dump of v.
func String(v any, o Opts) string {
	d := &dumper{o: o, ptrs: map[unsafe.Pointer]int{}}
	if d.o.MaxDepth == 0 {
		d.o.MaxDepth = 64
	}
	d.walk(reflect.ValueOf(v), 0)
	return d.sb.String()
}

func (d *dumper) walk(v reflect.Value, depth int) {
	if !v.IsValid() {
		d.sb.WriteString("nil")
		return
	}
	if depth > d.o.MaxDepth {
		d.sb.WriteString("<deep>")
		return
	}
	if d.o.Label != nil {
		if s, ok := d.o.Label(v); ok {
			d.sb.WriteString(s)
			return
		}
	}
	t := v.Type()
	if d.o.SkipTypes != nil && t.PkgPath() != "" && d.o.SkipTypes[t.PkgPath()+"."+t.Name()] {
		d.sb.WriteString("<" + t.Name() + ">")
		return
	}
	switch v.Kind() {
	case reflect.Bool:
		fmt.Fprintf(&d.sb, "%v", v.Bool())
	case reflect.Int, reflect.Int8, reflect.Int16, reflect.Int32, reflect.Int64:
		fmt.Fprintf(&d.sb, "%d", v.Int())
	case reflect.Uint, reflect.Uint8, reflect.Uint16, reflect.Uint32, reflect.Uint64, reflect.Uintptr:
		fmt.Fprintf(&d.sb, "%d", v.Uint())
	case reflect.Float32, reflect.Float64:
		fmt.Fprintf(&d.sb, "%v", v.Float())
	case reflect.Complex64, reflect.Complex128:
		fmt.Fprintf(&d.sb, "%v", v.Complex())
	case reflect.String:
		fmt.Fprintf(&d.sb, "%q", v.String())
	case reflect.Func:
		if v.IsNil() {
			d.sb.WriteString("func(nil)")
		} else {
			d.sb.WriteString("func")
		}
	case reflect.Chan:
		d.sb.WriteString("chan")
	case reflect.UnsafePointer:
		d.sb.WriteString("uptr")
	case reflect.Ptr:
		if v.IsNil() {
			d.sb.WriteString("nil")
			return
		}
		p := unsafe.Pointer(v.Pointer())
		if id, ok := d.ptrs[p]; ok {
			fmt.Fprintf(&d.sb, "&#%d", id)
			return
		}
		id := len(d.ptrs)
		d.ptrs[p] = id
		fmt.Fprintf(&d.sb, "&#%d=", id)
		d.walk(v.Elem(), depth+1)
	case reflect.Interface:
		if v.IsNil() {
			d.sb.WriteString("nil")
			return
		}
		e := v.Elem()
		fmt.Fprintf(&d.sb, "(%s)", e.Type().String())
		if e.Kind() != reflect.Ptr && e.Kind() != reflect.Map && e.Kind() != reflect.Slice {
			// make addressable copy so that unexported fields can be read
			c := reflect.New(e.Type()).Elem()
			c.Set(e)
			e = c
		}
		d.walk(e, depth+1)
	case reflect.Slice:
		if v.IsNil() {
			d.sb.WriteString("nil[]")
			return
		}
		fallthrough
	case reflect.Array:
		if t.Elem().Kind() == reflect.Uint8 {
			n := v.Len()
			b := make([]byte, n)
			for i := 0; i < n; i++ {
				b[i] = byte(v.Index(i).Uint())
			}
			fmt.Fprintf(&d.sb, "x%x", b)
			if v.Kind() == reflect.Slice {
				fmt.Fprintf(&d.sb, "/c%d", v.Cap()-v.Len())
			}
			return
		}
		d.sb.WriteString("[")
		for i := 0; i < v.Len(); i++ {
			if i > 0 {
				d.sb.WriteString(",")
			}
			d.walk(v.Index(i), depth+1)
		}
		d.sb.WriteString("]")
	case reflect.Map:
		if v.IsNil() {
			d.sb.WriteString("nilmap")
			return
		}
		type kv struct{ k, v string }
		var kvs []kv
		it := v.MapRange()
		for it.Next() {
			kd := &dumper{o: d.o, ptrs: d.ptrs}
			kd.walk(it.Key(), depth+1)
			vd := &dumper{o: d.o, ptrs: d.ptrs}
			ev := it.Value()
			c := reflect.New(ev.Type()).Elem()
			func() {
				defer func() {
					if recover() != nil {
						c = ev
					}
				}()
				c.Set(ev)
			}()
			vd.walk(c, depth+1)
			kvs = append(kvs, kv{kd.sb.String(), vd.sb.String()})
		}
		sort.Slice(kvs, func(i, j int) bool { return kvs[i].k < kvs[j].k })
		d.sb.WriteString("map{")
		for _, e := range kvs {
			d.sb.WriteString(e.k + ":" + e.v + ";")
		}
		d.sb.WriteString("}")
	case reflect.Struct:
		d.sb.WriteString(t.Name() + "{")
		if !v.CanAddr() {
			c := reflect.New(t).Elem()
			func() {
				defer func() { recover() }()
				c.Set(v)
				v = c
			}()
		}
		for i := 0; i < v.NumField(); i++ {
			f := v.Field(i)
			if f.CanAddr() {
				f = reflect.NewAt(f.Type(), unsafe.Pointer(f.UnsafeAddr())).Elem()
			}
			d.sb.WriteString(t.Field(i).Name + ":")
			d.walk(f, depth+1)
			d.sb.WriteString(";")
		}
		d.sb.WriteString("}")
	default:
		fmt.Fprintf(&d.sb, "<%s>", v.Kind())
	}
}

// Field returns the (possibly unexported) field `name` of struct pointer p as an addressable, readable Value.
func Field(p any, name string) reflect.Value {
	v := reflect.ValueOf(p)
	for v.Kind() == reflect.Ptr || v.Kind() == reflect.Interface {
		v = v.Elem()
	}
	f := v.FieldByName(name)
	if !f.IsValid() {
		return f
	}
	return reflect.NewAt(f.Type(), unsafe.Pointer(f.UnsafeAddr())).Elem()
}
