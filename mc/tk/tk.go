// Package tk: small helpers around the tink API shared by the property harnesses.
package tk

import (
	"fmt"

	"github.com/tink-crypto/tink-go/v2/key"
	"github.com/tink-crypto/tink-go/v2/keyset"
	tinkpb "github.com/tink-crypto/tink-go/v2/proto/tink_go_proto"
	"github.com/tink-crypto/tink-go/v2/testkeyset"
	"github.com/tink-crypto/tink-go/v2/verifbridge/vb"
)

// Entry describes one key of a keyset to be built.
type Entry struct {
	Key     key.Key
	ID      uint32 // used for keys without ID requirement
	Status  tinkpb.KeyStatusType
	Primary bool
}

// ProtoKeyset builds the proto keyset for the given entries (exact IDs, order, statuses).
func ProtoKeyset(es []Entry) (*tinkpb.Keyset, error) {
	ks := &tinkpb.Keyset{}
	for _, e := range es {
		kd, pt, id, req, err := vb.SerializeKey(e.Key)
		if err != nil {
			return nil, err
		}
		if !req {
			id = e.ID
		}
		st := e.Status
		if st == tinkpb.KeyStatusType_UNKNOWN_STATUS {
			st = tinkpb.KeyStatusType_ENABLED
		}
		ks.Key = append(ks.Key, &tinkpb.Keyset_Key{KeyData: kd, Status: st, KeyId: id, OutputPrefixType: pt})
		if e.Primary {
			ks.PrimaryKeyId = id
		}
	}
	return ks, nil
}

// Handle builds a handle with exactly the given entries through the proto path.
func Handle(es []Entry) (*keyset.Handle, error) {
	ks, err := ProtoKeyset(es)
	if err != nil {
		return nil, err
	}
	return testkeyset.NewHandle(ks)
}

// Single builds a one-key handle (primary, enabled) through keyset.Manager.
func Single(k key.Key) (*keyset.Handle, error) {
	m := keyset.NewManager()
	id, err := m.AddKey(k)
	if err != nil {
		return nil, fmt.Errorf("AddKey: %v", err)
	}
	if err := m.SetPrimary(id); err != nil {
		return nil, err
	}
	return m.Handle()
}

var IDs = []uint32{0x01020304, 0, 1, 0x7FFFFFFF, 0x80000000, 0xFFFFFFFF}

func Hex(b []byte) string {
	if len(b) > 48 {
		return fmt.Sprintf("%x…(%d bytes)", b[:48], len(b))
	}
	return fmt.Sprintf("%x", b)
}
