// Package tape: deterministic entropy tape under crypto/rand (engine E4). Needs overlay group "rand".
package tape

import (
	"crypto/verifrand"
	"runtime"
	"sync"
	"sync/atomic"
	"syscall"
)

// Draw records one read from the entropy source.
type Draw struct {
	Off, N int
}

// Tape is a deterministic entropy source. Byte at absolute offset i is Src(i) unless overridden by
// a scripted answer for a particular draw (see Answer). The tape is process-global once installed;
// sections that use it must be Serial.
type Tape struct {
	mu      sync.Mutex
	Src     func(off int) byte
	off     int
	Draws   []Draw
	answers map[int][]byte // draw index -> bytes served for that draw (instead of Src)
}

// CounterSrc serves byte(off*k+1)-like position-determined bytes that never repeat within 4-byte windows.
func CounterSrc(off int) byte {
	// bytes of a 32-bit counter of the 4-byte word index, mixed so that all byte positions vary
	w := uint32(off/4)*2654435761 + 0x9e3779b9
	return byte(w >> (8 * uint(3-off%4)))
}

func NewTape(src func(off int) byte) *Tape {
	if src == nil {
		src = CounterSrc
	}
	return &Tape{Src: src, answers: map[int][]byte{}}
}

func (t *Tape) Read(p []byte) (int, error) {
	t.mu.Lock()
	defer t.mu.Unlock()
	idx := len(t.Draws)
	if a, ok := t.answers[idx]; ok && len(a) >= len(p) {
		copy(p, a)
	} else {
		for i := range p {
			p[i] = t.Src(t.off + i)
		}
	}
	t.Draws = append(t.Draws, Draw{t.off, len(p)})
	t.off += len(p)
	return len(p), nil
}

// Answer scripts the bytes served for the idx-th draw after the last Rewind.
func (t *Tape) Answer(idx int, b []byte) { t.mu.Lock(); t.answers[idx] = b; t.mu.Unlock() }

// Rewind resets offset, draw log and scripted answers.
func (t *Tape) Rewind() {
	t.mu.Lock()
	t.off = 0
	t.Draws = nil
	t.answers = map[int][]byte{}
	t.mu.Unlock()
}

// Mark returns the number of draws so far (to slice Draws per call).
func (t *Tape) Mark() int   { t.mu.Lock(); defer t.mu.Unlock(); return len(t.Draws) }
func (t *Tape) Offset() int { t.mu.Lock(); defer t.mu.Unlock(); return t.off }

// Bytes returns what the tape serves at [off, off+n) (by Src; scripted answers are not reflected).
func (t *Tape) Bytes(off, n int) []byte {
	b := make([]byte, n)
	for i := range b {
		b[i] = t.Src(off + i)
	}
	return b
}

// Since returns the draws made after mark.
func (t *Tape) Since(mark int) []Draw {
	t.mu.Lock()
	defer t.mu.Unlock()
	return append([]Draw{}, t.Draws[mark:]...)
}

// Install puts the tape underneath crypto/rand for the whole process.
func (t *Tape) Install() { verifrand.Set(t) }

// Uninstall restores the system entropy source.
func Uninstall() { verifrand.Set(nil) }

// ---- per-thread multiplexing ----------------------------------------------------------------
// The std hook is process-global. Mux dispatches each draw to the tape bound to the calling
// goroutine, so that several workers can each own a deterministic tape. A bound goroutine is locked
// to its OS thread and identified by its thread id (one cheap syscall per draw). Draws from threads
// without a bound tape are served from a fallback generator (they are never part of an oracle).

type slot struct {
	tid  int
	tape *Tape
}

type mux struct {
	slots [1024]atomic.Pointer[slot]
	mu    sync.Mutex
	fb    uint64
}

var theMux = &mux{fb: 0x9e3779b97f4a7c15}

func (m *mux) find(tid int) *Tape {
	for i := 0; i < len(m.slots); i++ {
		s := m.slots[(tid+i)%len(m.slots)].Load()
		if s == nil {
			return nil
		}
		if s.tid == tid {
			return s.tape
		}
	}
	return nil
}

func (m *mux) Read(p []byte) (int, error) {
	if t := m.find(syscall.Gettid()); t != nil {
		return t.Read(p)
	}
	m.mu.Lock()
	for i := range p {
		m.fb ^= m.fb << 13
		m.fb ^= m.fb >> 7
		m.fb ^= m.fb << 17
		p[i] = byte(m.fb >> 24)
	}
	m.mu.Unlock()
	return len(p), nil
}

var muxOnce sync.Once

// InstallMux installs the dispatcher (idempotent).
func InstallMux() { muxOnce.Do(func() { verifrand.Set(theMux) }) }

// Bind locks the calling goroutine to its OS thread and makes t its entropy source. Unbind undoes it.
// (Slots are never freed, only re-pointed: a thread id keeps its slot; tape nil = unbound.)
func Bind(t *Tape) {
	InstallMux()
	runtime.LockOSThread()
	tid := syscall.Gettid()
	theMux.mu.Lock()
	defer theMux.mu.Unlock()
	for i := 0; i < len(theMux.slots); i++ {
		sp := &theMux.slots[(tid+i)%len(theMux.slots)]
		s := sp.Load()
		if s == nil || s.tid == tid {
			sp.Store(&slot{tid, t})
			return
		}
	}
	panic("tape: no free slot")
}

func Unbind() {
	tid := syscall.Gettid()
	theMux.mu.Lock()
	for i := 0; i < len(theMux.slots); i++ {
		sp := &theMux.slots[(tid+i)%len(theMux.slots)]
		s := sp.Load()
		if s == nil {
			break
		}
		if s.tid == tid {
			sp.Store(&slot{tid, nil})
			break
		}
	}
	theMux.mu.Unlock()
	runtime.UnlockOSThread()
}
