package ref

// Reference model of Tink's streaming AEAD wire format (both schemes), written from the documented
// format: header = len || salt || nonce_prefix(7); per-segment nonce = prefix || be32(i) || last;
// AES-GCM-HKDF: key = HKDF(hash, ikm=mainKey, salt, info=aad, keySize), segment = AES-GCM(nonce12), no AD;
// AES-CTR-HMAC: HKDF output keySize+32 = aesKey || hmacKey, segment = AES-CTR(iv = nonce12 || 00000000)
// || HMAC(tagAlg, hmacKey, nonce16 || ct)[:tagSize]. First ciphertext segment is shortened by
// (firstSegmentOffset + header length).

import (
	"crypto/aes"
	"crypto/cipher"
	"errors"
)

type StreamCfg struct {
	Scheme      string // "GCMHKDF" | "CTRHMAC"
	MainKey     []byte
	HKDFHash    string // SHA1 | SHA256 | SHA512
	KeySize     int    // derived AES key size 16 | 32
	TagAlg      string // CTRHMAC only
	TagSize     int    // 16 for GCMHKDF
	SegmentSize int    // ciphertext segment size
	FirstOffset int
}

func (c StreamCfg) HeaderLen() int { return 1 + c.KeySize + 7 }
func (c StreamCfg) Tag() int {
	if c.Scheme == "GCMHKDF" {
		return 16
	}
	return c.TagSize
}

// FirstPlain / OtherPlain: plaintext bytes carried by the first / any other full segment.
func (c StreamCfg) FirstPlain() int { return c.SegmentSize - c.FirstOffset - c.HeaderLen() - c.Tag() }
func (c StreamCfg) OtherPlain() int { return c.SegmentSize - c.Tag() }

func (c StreamCfg) nonce(prefix []byte, i uint32, last bool) []byte {
	n := make([]byte, 12, 16)
	copy(n, prefix)
	n[7], n[8], n[9], n[10] = byte(i>>24), byte(i>>16), byte(i>>8), byte(i)
	if last {
		n[11] = 1
	}
	if c.Scheme == "CTRHMAC" {
		n = append(n, 0, 0, 0, 0)
	}
	return n
}

type streamKeys struct {
	aead    cipher.AEAD
	block   cipher.Block
	hmacKey []byte
}

func (c StreamCfg) derive(salt, aad []byte) streamKeys {
	if c.Scheme == "GCMHKDF" {
		k := HKDF(c.HKDFHash, c.MainKey, salt, aad, c.KeySize)
		b, err := aes.NewCipher(k)
		if err != nil {
			panic(err)
		}
		g, err := cipher.NewGCM(b)
		if err != nil {
			panic(err)
		}
		return streamKeys{aead: g}
	}
	km := HKDF(c.HKDFHash, c.MainKey, salt, aad, c.KeySize+32)
	b, err := aes.NewCipher(km[:c.KeySize])
	if err != nil {
		panic(err)
	}
	return streamKeys{block: b, hmacKey: km[c.KeySize:]}
}

func ctrXor(b cipher.Block, iv, in []byte) []byte {
	out := make([]byte, len(in))
	ctr := append([]byte{}, iv...)
	ks := make([]byte, 16)
	for off := 0; off < len(in); off += 16 {
		b.Encrypt(ks, ctr)
		for j := 0; j < 16 && off+j < len(in); j++ {
			out[off+j] = in[off+j] ^ ks[j]
		}
		for k := 15; k >= 0; k-- {
			ctr[k]++
			if ctr[k] != 0 {
				break
			}
		}
	}
	return out
}

func (c StreamCfg) sealSeg(k streamKeys, nonce, pt []byte) []byte {
	if c.Scheme == "GCMHKDF" {
		return k.aead.Seal(nil, nonce, pt, nil)
	}
	ct := ctrXor(k.block, nonce, pt)
	tag := HMAC(c.TagAlg, k.hmacKey, append(append([]byte{}, nonce...), ct...))[:c.TagSize]
	return append(ct, tag...)
}

func (c StreamCfg) openSeg(k streamKeys, nonce, seg []byte) ([]byte, error) {
	if c.Scheme == "GCMHKDF" {
		return k.aead.Open(nil, nonce, seg, nil)
	}
	if len(seg) < c.TagSize {
		return nil, errors.New("segment too short")
	}
	ct, tag := seg[:len(seg)-c.TagSize], seg[len(seg)-c.TagSize:]
	want := HMAC(c.TagAlg, k.hmacKey, append(append([]byte{}, nonce...), ct...))[:c.TagSize]
	diff := byte(0)
	for i := range tag {
		diff |= tag[i] ^ want[i]
	}
	if diff != 0 {
		return nil, errors.New("tag mismatch")
	}
	return ctrXor(k.block, nonce, ct), nil
}

// StreamEncrypt returns header || segments for the given salt and nonce prefix.
func (c StreamCfg) StreamEncrypt(salt, prefix, aad, pt []byte) []byte {
	k := c.derive(salt, aad)
	out := []byte{byte(c.HeaderLen())}
	out = append(out, salt...)
	out = append(out, prefix...)
	lim := c.FirstPlain()
	var i uint32
	for {
		if len(pt) <= lim {
			out = append(out, c.sealSeg(k, c.nonce(prefix, i, true), pt)...)
			return out
		}
		out = append(out, c.sealSeg(k, c.nonce(prefix, i, false), pt[:lim])...)
		pt = pt[lim:]
		lim = c.OtherPlain()
		i++
	}
}

// StreamSegments returns the byte ranges [start,end) of the ciphertext segments of a stream of n plaintext bytes.
func (c StreamCfg) StreamSegments(n int) [][2]int {
	var segs [][2]int
	pos := c.HeaderLen()
	lim := c.FirstPlain()
	for {
		if n <= lim {
			segs = append(segs, [2]int{pos, pos + n + c.Tag()})
			return segs
		}
		segs = append(segs, [2]int{pos, pos + lim + c.Tag()})
		pos += lim + c.Tag()
		n -= lim
		lim = c.OtherPlain()
	}
}

// StreamDecrypt decodes a complete ciphertext; any deviation from the format is an error.
func (c StreamCfg) StreamDecrypt(aad, ct []byte) ([]byte, error) {
	h := c.HeaderLen()
	if len(ct) < h || int(ct[0]) != h {
		return nil, errors.New("bad header")
	}
	salt, prefix := ct[1:1+c.KeySize], ct[1+c.KeySize:h]
	k := c.derive(salt, aad)
	body := ct[h:]
	segLen := c.FirstPlain() + c.Tag()
	var pt []byte
	var i uint32
	for {
		if len(body) <= segLen {
			p, err := c.openSeg(k, c.nonce(prefix, i, true), body)
			if err != nil {
				return nil, err
			}
			return append(pt, p...), nil
		}
		p, err := c.openSeg(k, c.nonce(prefix, i, false), body[:segLen])
		if err != nil {
			return nil, err
		}
		pt = append(pt, p...)
		body = body[segLen:]
		segLen = c.SegmentSize
		i++
	}
}
