package ref

import (
	"bytes"
	"math/big"
)

// PSSRecoverSalt inverts RSASSA-PSS far enough to expose the salt a signer used (RFC 8017 8.1.2 / 9.1.2):
// EM = sig^e mod n, DB = maskedDB xor MGF1(H), DB = PS || 0x01 || salt. It returns the salt and whether the
// encoded message is a well-formed EMSA-PSS encoding of msg with that salt (H = Hash(0^8 || mHash || salt)).
// Written for C20 (the salt field must be the bytes drawn from the entropy source); independent of tink.
func PSSRecoverSalt(n *big.Int, e int, hashName, mgfHashName string, msg, sig []byte) (salt []byte, ok bool) {
	s := new(big.Int).SetBytes(sig)
	if s.Cmp(n) >= 0 {
		return nil, false
	}
	m := s.Exp(s, big.NewInt(int64(e)), n)
	emBits := n.BitLen() - 1
	emLen := (emBits + 7) / 8
	if m.BitLen() > 8*emLen {
		return nil, false
	}
	em := make([]byte, emLen)
	m.FillBytes(em)
	mHash := HashSum(hashName, msg)
	hLen := len(mHash)
	if emLen < hLen+2 || em[emLen-1] != 0xbc {
		return nil, false
	}
	maskedDB := em[:emLen-hLen-1]
	hh := em[emLen-hLen-1 : emLen-1]
	topMask := byte(0xff >> uint(8*emLen-emBits))
	if maskedDB[0]&^topMask != 0 {
		return nil, false
	}
	mask := MGF1(mgfHashName, hh, len(maskedDB))
	db := make([]byte, len(maskedDB))
	for i := range db {
		db[i] = maskedDB[i] ^ mask[i]
	}
	db[0] &= topMask
	i := 0
	for i < len(db) && db[i] == 0 {
		i++
	}
	if i == len(db) || db[i] != 0x01 {
		return nil, false
	}
	salt = db[i+1:]
	want := HashSum(hashName, make([]byte, 8), mHash, salt)
	return salt, bytes.Equal(want, hh)
}
