// SLH-DSA reference model written from FIPS 205 (August 2024) on bare stdlib hash primitives.
// Algorithm / section numbers in the comments are those of FIPS 205. Nothing here calls tink code.
//
// Byte strings: SK = SK.seed || SK.prf || PK.seed || PK.root (4n), PK = PK.seed || PK.root (2n),
// SIG = R || SIG_FORS || SIG_HT ((1 + k(1+a) + h + d*len) * n bytes).
package ref

import (
	"crypto/hmac"
	"crypto/sha256"
	"crypto/sha3"
	"crypto/sha512"
	"hash"
	"math/big"
)

// SLHParams is one row of FIPS 205 Table 2 plus the derived WOTS+ values of section 5.
type SLHParams struct {
	Name                   string
	SHA2                   bool // SHA2 instantiation (section 11.2) instead of SHAKE (11.1)
	N, H, D, Hp, A, K, Lgw int
	M                      int
	W, Len1, Len2, Len     int
}

func slhNew(name string, sha2 bool, n, h, d, hp, a, k, lgw, m int) *SLHParams {
	p := &SLHParams{Name: name, SHA2: sha2, N: n, H: h, D: d, Hp: hp, A: a, K: k, Lgw: lgw, M: m}
	p.W = 1 << lgw                      // (5.1)
	p.Len1 = (8*n + lgw - 1) / lgw      // (5.2) ceil(8n / lg w)
	// (5.3) len2 = floor(log2(len1 (w-1)) / lg w) + 1 : largest e with w^e <= len1 (w-1), plus one
	e, pw := 0, 1
	for pw*p.W <= p.Len1*(p.W-1) {
		pw *= p.W
		e++
	}
	p.Len2 = e + 1
	p.Len = p.Len1 + p.Len2 // (5.4)
	return p
}

// Table 2.
var slhSets = []*SLHParams{
	slhNew("SLH-DSA-SHA2-128s", true, 16, 63, 7, 9, 12, 14, 4, 30),
	slhNew("SLH-DSA-SHAKE-128s", false, 16, 63, 7, 9, 12, 14, 4, 30),
	slhNew("SLH-DSA-SHA2-128f", true, 16, 66, 22, 3, 6, 33, 4, 34),
	slhNew("SLH-DSA-SHAKE-128f", false, 16, 66, 22, 3, 6, 33, 4, 34),
	slhNew("SLH-DSA-SHA2-192s", true, 24, 63, 7, 9, 14, 17, 4, 39),
	slhNew("SLH-DSA-SHAKE-192s", false, 24, 63, 7, 9, 14, 17, 4, 39),
	slhNew("SLH-DSA-SHA2-192f", true, 24, 66, 22, 3, 8, 33, 4, 42),
	slhNew("SLH-DSA-SHAKE-192f", false, 24, 66, 22, 3, 8, 33, 4, 42),
	slhNew("SLH-DSA-SHA2-256s", true, 32, 64, 8, 8, 14, 22, 4, 47),
	slhNew("SLH-DSA-SHAKE-256s", false, 32, 64, 8, 8, 14, 22, 4, 47),
	slhNew("SLH-DSA-SHA2-256f", true, 32, 68, 17, 4, 9, 35, 4, 49),
	slhNew("SLH-DSA-SHAKE-256f", false, 32, 68, 17, 4, 9, 35, 4, 49),
}

// SLHParamSets returns the twelve approved parameter sets.
func SLHParamSets() []*SLHParams { return slhSets }

// SLHByName looks a parameter set up by its FIPS name.
func SLHByName(name string) *SLHParams {
	for _, p := range slhSets {
		if p.Name == name {
			return p
		}
	}
	return nil
}

func (p *SLHParams) String() string { return p.Name }

// Small reports whether this is an "s" parameter set.
func (p *SLHParams) Small() bool { return p.Name[len(p.Name)-1] == 's' }

func (p *SLHParams) SigLen() int     { return (1 + p.K*(1+p.A) + p.H + p.D*p.Len) * p.N }
func (p *SLHParams) ForsSigLen() int { return p.K * (1 + p.A) * p.N }
func (p *SLHParams) XmssSigLen() int { return (p.Len + p.Hp) * p.N }
func (p *SLHParams) HtSigLen() int   { return (p.H + p.D*p.Len) * p.N }
func (p *SLHParams) PKLen() int      { return 2 * p.N }
func (p *SLHParams) SKLen() int      { return 4 * p.N }

// ---------------------------------------------------------------------------------------------
// Section 4.4: integer / byte-string conversions.

// SLHToInt is Algorithm 2 (x must have at least n bytes, n <= 8).
func SLHToInt(x []byte, n int) uint64 {
	var total uint64
	for i := 0; i < n; i++ {
		total = 256*total + uint64(x[i])
	}
	return total
}

// SLHToByte is Algorithm 3.
func SLHToByte(x uint64, n int) []byte {
	total := x
	s := make([]byte, n)
	for i := 0; i < n; i++ {
		s[n-1-i] = byte(total % 256)
		total >>= 8
	}
	return s
}

// SLHBase2b is Algorithm 4: the first outLen b-bit digits of x (big-endian bit order).
func SLHBase2b(x []byte, b, outLen int) []int {
	in, bits := 0, 0
	var total uint64
	out := make([]int, outLen)
	for o := 0; o < outLen; o++ {
		for bits < b {
			total = (total << 8) + uint64(x[in])
			in++
			bits += 8
		}
		bits -= b
		out[o] = int((total >> uint(bits)) % (1 << uint(b)))
		total &= (1 << uint(bits)) - 1 // the consumed high bits are never used again
	}
	return out
}

// ---------------------------------------------------------------------------------------------
// Section 4.2 / 4.3: addresses.

// SLHAdrs is the 32-byte ADRS: layer(4) | tree(12) | type(4) | word1(4) | word2(4) | word3(4).
type SLHAdrs [32]byte

const (
	SLHWotsHash  = 0
	SLHWotsPk    = 1
	SLHTree      = 2
	SLHForsTree  = 3
	SLHForsRoots = 4
	SLHWotsPrf   = 5
	SLHForsPrf   = 6
)

func (a *SLHAdrs) put(off, n int, v uint64) { copy(a[off:off+n], SLHToByte(v, n)) }

func (a *SLHAdrs) SetLayerAddress(l uint32)   { a.put(0, 4, uint64(l)) }
func (a *SLHAdrs) SetTreeAddress(t uint64)    { a.put(4, 12, t) } // toByte(t, 12)
func (a *SLHAdrs) SetTypeAndClear(y uint32)   { a.put(16, 4, uint64(y)); a.put(20, 12, 0) }
func (a *SLHAdrs) SetKeyPairAddress(i uint32) { a.put(20, 4, uint64(i)) }
func (a *SLHAdrs) SetChainAddress(i uint32)   { a.put(24, 4, uint64(i)) }
func (a *SLHAdrs) SetTreeHeight(i uint32)     { a.put(24, 4, uint64(i)) }
func (a *SLHAdrs) SetHashAddress(i uint32)    { a.put(28, 4, uint64(i)) }
func (a *SLHAdrs) SetTreeIndex(i uint32)      { a.put(28, 4, uint64(i)) }
func (a *SLHAdrs) KeyPairAddress() uint32     { return uint32(SLHToInt(a[20:24], 4)) }
func (a *SLHAdrs) TreeIndex() uint32          { return uint32(SLHToInt(a[28:32], 4)) }

// Compress is the 22-byte ADRSc of section 11.2: ADRS[3] || ADRS[8:16] || ADRS[19] || ADRS[20:32].
func (a *SLHAdrs) Compress() []byte {
	c := make([]byte, 0, 22)
	c = append(c, a[3])
	c = append(c, a[8:16]...)
	c = append(c, a[19])
	c = append(c, a[20:32]...)
	return c
}

// ---------------------------------------------------------------------------------------------
// Section 11: hash function instantiations.

func slhShake(n int, parts ...[]byte) []byte {
	h := sha3.NewSHAKE256()
	for _, q := range parts {
		h.Write(q)
	}
	out := make([]byte, n)
	h.Read(out)
	return out
}

func slhSum(newH func() hash.Hash, parts ...[]byte) []byte {
	h := newH()
	for _, q := range parts {
		h.Write(q)
	}
	return h.Sum(nil)
}

// slhMGF1 is MGF1 of RFC 8017 B.2.1 (NIST SP 800-56B rev 2, 7.2.2.2).
func slhMGF1(newH func() hash.Hash, seed []byte, n int) []byte {
	var t []byte
	for c := uint64(0); len(t) < n; c++ {
		t = append(t, slhSum(newH, seed, SLHToByte(c, 4))...)
	}
	return t[:n]
}

// bigHash: the SHA-2 sets of security category 3 and 5 use SHA-512 in H_msg, PRF_msg, H and T_l.
func (p *SLHParams) bigHash() bool { return p.N > 16 }

// Hmsg is H_msg(R, PK.seed, PK.root, M) -> m bytes.
func (p *SLHParams) Hmsg(r, pkSeed, pkRoot, msg []byte) []byte {
	if !p.SHA2 {
		return slhShake(p.M, r, pkSeed, pkRoot, msg)
	}
	nh := sha256.New
	if p.bigHash() {
		nh = sha512.New
	}
	inner := slhSum(nh, r, pkSeed, pkRoot, msg)
	seed := append(append(append([]byte{}, r...), pkSeed...), inner...)
	return slhMGF1(nh, seed, p.M)
}

// PRFmsg is PRF_msg(SK.prf, opt_rand, M) -> n bytes.
func (p *SLHParams) PRFmsg(skPrf, optRand, msg []byte) []byte {
	if !p.SHA2 {
		return slhShake(p.N, skPrf, optRand, msg)
	}
	nh := sha256.New
	if p.bigHash() {
		nh = sha512.New
	}
	mac := hmac.New(nh, skPrf)
	mac.Write(optRand)
	mac.Write(msg)
	return mac.Sum(nil)[:p.N]
}

// sha2t: Trunc_n(SHA-x(PK.seed || toByte(0, blocklen - n) || ADRSc || M)).
func (p *SLHParams) sha2t(use512 bool, pkSeed []byte, adrs *SLHAdrs, m []byte) []byte {
	var stack [320]byte
	buf := stack[:0]
	block := 64
	if use512 {
		block = 128
	}
	buf = append(buf, pkSeed...)
	for i := p.N; i < block; i++ {
		buf = append(buf, 0)
	}
	buf = append(buf, adrs[3])
	buf = append(buf, adrs[8:16]...)
	buf = append(buf, adrs[19])
	buf = append(buf, adrs[20:32]...)
	buf = append(buf, m...)
	out := make([]byte, p.N)
	if use512 {
		d := sha512.Sum512(buf)
		copy(out, d[:])
	} else {
		d := sha256.Sum256(buf)
		copy(out, d[:])
	}
	return out
}

func (p *SLHParams) shaket(pkSeed []byte, adrs *SLHAdrs, m []byte) []byte {
	var stack [200]byte
	buf := stack[:0]
	buf = append(buf, pkSeed...)
	buf = append(buf, adrs[:]...)
	buf = append(buf, m...)
	return sha3.SumSHAKE256(buf, p.N)
}

// PRF(PK.seed, SK.seed, ADRS): SHAKE256(PK.seed||ADRS||SK.seed) / SHA-256 in every SHA2 set.
func (p *SLHParams) PRF(pkSeed, skSeed []byte, adrs *SLHAdrs) []byte {
	if !p.SHA2 {
		return p.shaket(pkSeed, adrs, skSeed)
	}
	return p.sha2t(false, pkSeed, adrs, skSeed)
}

// F(PK.seed, ADRS, M1): SHA-256 in every SHA2 set.
func (p *SLHParams) F(pkSeed []byte, adrs *SLHAdrs, m1 []byte) []byte {
	if !p.SHA2 {
		return p.shaket(pkSeed, adrs, m1)
	}
	return p.sha2t(false, pkSeed, adrs, m1)
}

// Hh is H(PK.seed, ADRS, M2): SHA-256 for n = 16, SHA-512 for n = 24, 32.
func (p *SLHParams) Hh(pkSeed []byte, adrs *SLHAdrs, m2 []byte) []byte {
	if !p.SHA2 {
		return p.shaket(pkSeed, adrs, m2)
	}
	return p.sha2t(p.bigHash(), pkSeed, adrs, m2)
}

// Tl is T_l(PK.seed, ADRS, M_l): SHA-256 for n = 16, SHA-512 for n = 24, 32.
func (p *SLHParams) Tl(pkSeed []byte, adrs *SLHAdrs, ml []byte) []byte {
	if !p.SHA2 {
		return slhShake(p.N, pkSeed, adrs[:], ml)
	}
	nh := sha256.New
	block := 64
	if p.bigHash() {
		nh, block = sha512.New, 128
	}
	return slhSum(nh, pkSeed, make([]byte, block-p.N), adrs.Compress(), ml)[:p.N]
}

// ---------------------------------------------------------------------------------------------
// Section 5: WOTS+.

// Chain is Algorithm 5.
func (p *SLHParams) Chain(x []byte, i, s int, pkSeed []byte, adrs *SLHAdrs) []byte {
	tmp := x
	for j := i; j < i+s; j++ {
		adrs.SetHashAddress(uint32(j))
		tmp = p.F(pkSeed, adrs, tmp)
	}
	return tmp
}

// WotsPkGen is Algorithm 6.
func (p *SLHParams) WotsPkGen(skSeed, pkSeed []byte, adrs *SLHAdrs) []byte {
	skAdrs := *adrs
	skAdrs.SetTypeAndClear(SLHWotsPrf)
	skAdrs.SetKeyPairAddress(adrs.KeyPairAddress())
	tmp := make([]byte, 0, p.Len*p.N)
	for i := 0; i < p.Len; i++ {
		skAdrs.SetChainAddress(uint32(i))
		sk := p.PRF(pkSeed, skSeed, &skAdrs)
		adrs.SetChainAddress(uint32(i))
		tmp = append(tmp, p.Chain(sk, 0, p.W-1, pkSeed, adrs)...)
	}
	pkAdrs := *adrs
	pkAdrs.SetTypeAndClear(SLHWotsPk)
	pkAdrs.SetKeyPairAddress(adrs.KeyPairAddress())
	return p.Tl(pkSeed, &pkAdrs, tmp)
}

// WotsDigits is lines 1-7 of Algorithm 7 / 8: the len base-w digits (message digits, then checksum digits).
func (p *SLHParams) WotsDigits(m []byte) []int {
	csum := 0
	msg := SLHBase2b(m, p.Lgw, p.Len1)
	for i := 0; i < p.Len1; i++ {
		csum += p.W - 1 - msg[i]
	}
	csum <<= uint((8 - ((p.Len2 * p.Lgw) % 8)) % 8)
	return append(msg, SLHBase2b(SLHToByte(uint64(csum), (p.Len2*p.Lgw+7)/8), p.Lgw, p.Len2)...)
}

// WotsSign is Algorithm 7.
func (p *SLHParams) WotsSign(m, skSeed, pkSeed []byte, adrs *SLHAdrs) []byte {
	msg := p.WotsDigits(m)
	skAdrs := *adrs
	skAdrs.SetTypeAndClear(SLHWotsPrf)
	skAdrs.SetKeyPairAddress(adrs.KeyPairAddress())
	sig := make([]byte, 0, p.Len*p.N)
	for i := 0; i < p.Len; i++ {
		skAdrs.SetChainAddress(uint32(i))
		sk := p.PRF(pkSeed, skSeed, &skAdrs)
		adrs.SetChainAddress(uint32(i))
		sig = append(sig, p.Chain(sk, 0, msg[i], pkSeed, adrs)...)
	}
	return sig
}

// WotsPkFromSig is Algorithm 8.
func (p *SLHParams) WotsPkFromSig(sig, m, pkSeed []byte, adrs *SLHAdrs) []byte {
	msg := p.WotsDigits(m)
	tmp := make([]byte, 0, p.Len*p.N)
	for i := 0; i < p.Len; i++ {
		adrs.SetChainAddress(uint32(i))
		tmp = append(tmp, p.Chain(sig[i*p.N:(i+1)*p.N], msg[i], p.W-1-msg[i], pkSeed, adrs)...)
	}
	pkAdrs := *adrs
	pkAdrs.SetTypeAndClear(SLHWotsPk)
	pkAdrs.SetKeyPairAddress(adrs.KeyPairAddress())
	return p.Tl(pkSeed, &pkAdrs, tmp)
}

// ---------------------------------------------------------------------------------------------
// Section 6: XMSS.

func slhCat(a, b []byte) []byte { return append(append(make([]byte, 0, len(a)+len(b)), a...), b...) }

// XmssNode is Algorithm 9.
func (p *SLHParams) XmssNode(skSeed []byte, i uint32, z int, pkSeed []byte, adrs *SLHAdrs) []byte {
	if z == 0 {
		adrs.SetTypeAndClear(SLHWotsHash)
		adrs.SetKeyPairAddress(i)
		return p.WotsPkGen(skSeed, pkSeed, adrs)
	}
	l := p.XmssNode(skSeed, 2*i, z-1, pkSeed, adrs)
	r := p.XmssNode(skSeed, 2*i+1, z-1, pkSeed, adrs)
	adrs.SetTypeAndClear(SLHTree)
	adrs.SetTreeHeight(uint32(z))
	adrs.SetTreeIndex(i)
	return p.Hh(pkSeed, adrs, slhCat(l, r))
}

// XmssSign is Algorithm 10: WOTS+ signature || AUTH.
func (p *SLHParams) XmssSign(m, skSeed []byte, idx uint32, pkSeed []byte, adrs *SLHAdrs) []byte {
	var auth []byte
	for j := 0; j < p.Hp; j++ {
		k := (idx >> uint(j)) ^ 1
		auth = append(auth, p.XmssNode(skSeed, k, j, pkSeed, adrs)...)
	}
	adrs.SetTypeAndClear(SLHWotsHash)
	adrs.SetKeyPairAddress(idx)
	sig := p.WotsSign(m, skSeed, pkSeed, adrs)
	return append(sig, auth...)
}

// XmssPkFromSig is Algorithm 11.
func (p *SLHParams) XmssPkFromSig(idx uint32, sigXmss, m, pkSeed []byte, adrs *SLHAdrs) []byte {
	adrs.SetTypeAndClear(SLHWotsHash)
	adrs.SetKeyPairAddress(idx)
	sig := sigXmss[:p.Len*p.N]
	auth := sigXmss[p.Len*p.N:]
	node := p.WotsPkFromSig(sig, m, pkSeed, adrs)
	adrs.SetTypeAndClear(SLHTree)
	adrs.SetTreeIndex(idx)
	for k := 0; k < p.Hp; k++ {
		adrs.SetTreeHeight(uint32(k + 1))
		ak := auth[k*p.N : (k+1)*p.N]
		if (idx>>uint(k))%2 == 0 {
			adrs.SetTreeIndex(adrs.TreeIndex() / 2)
			node = p.Hh(pkSeed, adrs, slhCat(node, ak))
		} else {
			adrs.SetTreeIndex((adrs.TreeIndex() - 1) / 2)
			node = p.Hh(pkSeed, adrs, slhCat(ak, node))
		}
	}
	return node
}

// ---------------------------------------------------------------------------------------------
// Section 7: hypertree. idxTree < 2^(h-h') <= 2^64, idxLeaf < 2^h'.

// HtSign is Algorithm 12.
func (p *SLHParams) HtSign(m, skSeed, pkSeed []byte, idxTree uint64, idxLeaf uint32) []byte {
	var adrs SLHAdrs
	adrs.SetTreeAddress(idxTree)
	sigTmp := p.XmssSign(m, skSeed, idxLeaf, pkSeed, &adrs)
	sigHT := append([]byte{}, sigTmp...)
	root := p.XmssPkFromSig(idxLeaf, sigTmp, m, pkSeed, &adrs)
	for j := 1; j < p.D; j++ {
		idxLeaf = uint32(idxTree % (1 << uint(p.Hp)))
		idxTree >>= uint(p.Hp)
		adrs.SetLayerAddress(uint32(j))
		adrs.SetTreeAddress(idxTree)
		sigTmp = p.XmssSign(root, skSeed, idxLeaf, pkSeed, &adrs)
		sigHT = append(sigHT, sigTmp...)
		if j < p.D-1 {
			root = p.XmssPkFromSig(idxLeaf, sigTmp, root, pkSeed, &adrs)
		}
	}
	return sigHT
}

// HtRootFromSig is lines 1-11 of Algorithm 13: the top-layer root implied by SIG_HT.
func (p *SLHParams) HtRootFromSig(m, sigHT, pkSeed []byte, idxTree uint64, idxLeaf uint32) []byte {
	var adrs SLHAdrs
	adrs.SetTreeAddress(idxTree)
	xl := p.XmssSigLen()
	node := p.XmssPkFromSig(idxLeaf, sigHT[:xl], m, pkSeed, &adrs)
	for j := 1; j < p.D; j++ {
		idxLeaf = uint32(idxTree % (1 << uint(p.Hp)))
		idxTree >>= uint(p.Hp)
		adrs.SetLayerAddress(uint32(j))
		adrs.SetTreeAddress(idxTree)
		node = p.XmssPkFromSig(idxLeaf, sigHT[j*xl:(j+1)*xl], node, pkSeed, &adrs)
	}
	return node
}

// HtVerify is Algorithm 13.
func (p *SLHParams) HtVerify(m, sigHT, pkSeed []byte, idxTree uint64, idxLeaf uint32, pkRoot []byte) bool {
	if len(sigHT) != p.HtSigLen() {
		return false
	}
	return string(p.HtRootFromSig(m, sigHT, pkSeed, idxTree, idxLeaf)) == string(pkRoot)
}

// ---------------------------------------------------------------------------------------------
// Section 8: FORS.

// ForsSkGen is Algorithm 14.
func (p *SLHParams) ForsSkGen(skSeed, pkSeed []byte, adrs *SLHAdrs, idx uint32) []byte {
	skAdrs := *adrs
	skAdrs.SetTypeAndClear(SLHForsPrf)
	skAdrs.SetKeyPairAddress(adrs.KeyPairAddress())
	skAdrs.SetTreeIndex(idx)
	return p.PRF(pkSeed, skSeed, &skAdrs)
}

// ForsNode is Algorithm 15.
func (p *SLHParams) ForsNode(skSeed []byte, i uint32, z int, pkSeed []byte, adrs *SLHAdrs) []byte {
	if z == 0 {
		sk := p.ForsSkGen(skSeed, pkSeed, adrs, i)
		adrs.SetTreeHeight(0)
		adrs.SetTreeIndex(i)
		return p.F(pkSeed, adrs, sk)
	}
	l := p.ForsNode(skSeed, 2*i, z-1, pkSeed, adrs)
	r := p.ForsNode(skSeed, 2*i+1, z-1, pkSeed, adrs)
	adrs.SetTreeHeight(uint32(z))
	adrs.SetTreeIndex(i)
	return p.Hh(pkSeed, adrs, slhCat(l, r))
}

// ForsSign is Algorithm 16.
func (p *SLHParams) ForsSign(md, skSeed, pkSeed []byte, adrs *SLHAdrs) []byte {
	var sig []byte
	indices := SLHBase2b(md, p.A, p.K)
	for i := 0; i < p.K; i++ {
		sig = append(sig, p.ForsSkGen(skSeed, pkSeed, adrs, uint32(i<<uint(p.A)+indices[i]))...)
		for j := 0; j < p.A; j++ {
			s := (indices[i] >> uint(j)) ^ 1
			sig = append(sig, p.ForsNode(skSeed, uint32(i<<uint(p.A-j)+s), j, pkSeed, adrs)...)
		}
	}
	return sig
}

// ForsPkFromSig is Algorithm 17.
func (p *SLHParams) ForsPkFromSig(sigFors, md, pkSeed []byte, adrs *SLHAdrs) []byte {
	indices := SLHBase2b(md, p.A, p.K)
	var root []byte
	for i := 0; i < p.K; i++ {
		blk := sigFors[i*(p.A+1)*p.N : (i+1)*(p.A+1)*p.N]
		sk := blk[:p.N]
		adrs.SetTreeHeight(0)
		adrs.SetTreeIndex(uint32(i<<uint(p.A) + indices[i]))
		node := p.F(pkSeed, adrs, sk)
		auth := blk[p.N:]
		for j := 0; j < p.A; j++ {
			adrs.SetTreeHeight(uint32(j + 1))
			aj := auth[j*p.N : (j+1)*p.N]
			if (indices[i]>>uint(j))%2 == 0 {
				adrs.SetTreeIndex(adrs.TreeIndex() / 2)
				node = p.Hh(pkSeed, adrs, slhCat(node, aj))
			} else {
				adrs.SetTreeIndex((adrs.TreeIndex() - 1) / 2)
				node = p.Hh(pkSeed, adrs, slhCat(aj, node))
			}
		}
		root = append(root, node...)
	}
	pkAdrs := *adrs
	pkAdrs.SetTypeAndClear(SLHForsRoots)
	pkAdrs.SetKeyPairAddress(adrs.KeyPairAddress())
	return p.Tl(pkSeed, &pkAdrs, root)
}

// ---------------------------------------------------------------------------------------------
// Section 9: SLH-DSA internal functions.

// DigestLens returns ceil(k a / 8), ceil((h - h/d) / 8), ceil(h / 8d).
func (p *SLHParams) DigestLens() (int, int, int) {
	return (p.K*p.A + 7) / 8, (p.H - p.Hp + 7) / 8, (p.Hp + 7) / 8
}

// SplitDigest is lines 6-10 of Algorithm 19 (= lines 8-12 of Algorithm 20). The reductions
// mod 2^(h-h/d) and mod 2^(h/d) are done on arbitrary-precision integers.
func (p *SLHParams) SplitDigest(digest []byte) (md []byte, idxTree uint64, idxLeaf uint32) {
	r, s, t := p.DigestLens()
	md = digest[:r]
	one := big.NewInt(1)
	it := new(big.Int).SetBytes(digest[r : r+s])
	it.Mod(it, new(big.Int).Lsh(one, uint(p.H-p.Hp)))
	il := new(big.Int).SetBytes(digest[r+s : r+s+t])
	il.Mod(il, new(big.Int).Lsh(one, uint(p.Hp)))
	return md, it.Uint64(), uint32(il.Uint64())
}

// KeygenInternal is Algorithm 18: returns SK (4n bytes) and PK (2n bytes).
func (p *SLHParams) KeygenInternal(skSeed, skPrf, pkSeed []byte) (sk, pk []byte) {
	var adrs SLHAdrs
	adrs.SetLayerAddress(uint32(p.D - 1))
	root := p.XmssNode(skSeed, 0, p.Hp, pkSeed, &adrs)
	sk = append(append(append(append([]byte{}, skSeed...), skPrf...), pkSeed...), root...)
	pk = append(append([]byte{}, pkSeed...), root...)
	return
}

// SignDigest is lines 6-17 of Algorithm 19 for a given randomizer R and message digest: R || SIG_FORS || SIG_HT.
func (p *SLHParams) SignDigest(r, digest, sk []byte) []byte {
	n := p.N
	skSeed, pkSeed := sk[:n], sk[2*n:3*n]
	md, idxTree, idxLeaf := p.SplitDigest(digest)
	var adrs SLHAdrs
	adrs.SetTreeAddress(idxTree)
	adrs.SetTypeAndClear(SLHForsTree)
	adrs.SetKeyPairAddress(idxLeaf)
	sigFors := p.ForsSign(md, skSeed, pkSeed, &adrs)
	sig := append(append([]byte{}, r...), sigFors...)
	pkFors := p.ForsPkFromSig(sigFors, md, pkSeed, &adrs)
	return append(sig, p.HtSign(pkFors, skSeed, pkSeed, idxTree, idxLeaf)...)
}

// SignInternal is Algorithm 19. addrnd == nil selects the deterministic variant (opt_rand = PK.seed).
func (p *SLHParams) SignInternal(m, sk, addrnd []byte) []byte {
	n := p.N
	skPrf, pkSeed, pkRoot := sk[n:2*n], sk[2*n:3*n], sk[3*n:4*n]
	optRand := pkSeed
	if addrnd != nil {
		optRand = addrnd
	}
	r := p.PRFmsg(skPrf, optRand, m)
	digest := p.Hmsg(r, pkSeed, pkRoot, m)
	return p.SignDigest(r, digest, sk)
}

// RootFromSigDigest is lines 5-17 of Algorithm 20 up to (not including) the final comparison: the
// hypertree root implied by a full-length signature under the given message digest.
func (p *SLHParams) RootFromSigDigest(digest, sig, pkSeed []byte) []byte {
	n := p.N
	sigFors := sig[n : n+p.ForsSigLen()]
	sigHT := sig[n+p.ForsSigLen():]
	md, idxTree, idxLeaf := p.SplitDigest(digest)
	var adrs SLHAdrs
	adrs.SetTreeAddress(idxTree)
	adrs.SetTypeAndClear(SLHForsTree)
	adrs.SetKeyPairAddress(idxLeaf)
	pkFors := p.ForsPkFromSig(sigFors, md, pkSeed, &adrs)
	return p.HtRootFromSig(pkFors, sigHT, pkSeed, idxTree, idxLeaf)
}

// VerifyInternal is Algorithm 20.
func (p *SLHParams) VerifyInternal(m, sig, pk []byte) bool {
	if len(pk) != 2*p.N || len(sig) != p.SigLen() {
		return false
	}
	pkSeed, pkRoot := pk[:p.N], pk[p.N:]
	digest := p.Hmsg(sig[:p.N], pkSeed, pkRoot, m)
	return string(p.RootFromSigDigest(digest, sig, pkSeed)) == string(pkRoot)
}

// ---------------------------------------------------------------------------------------------
// Section 10: pure SLH-DSA (M' = toByte(0,1) || toByte(|ctx|,1) || ctx || M).

func SLHPureMsg(m, ctx []byte) []byte {
	mp := append([]byte{}, SLHToByte(0, 1)...)
	mp = append(mp, SLHToByte(uint64(len(ctx)), 1)...)
	mp = append(mp, ctx...)
	return append(mp, m...)
}

// Sign is Algorithm 22 with the randomness made explicit (addrnd == nil: deterministic variant).
func (p *SLHParams) Sign(m, ctx, sk, addrnd []byte) ([]byte, bool) {
	if len(ctx) > 255 {
		return nil, false
	}
	return p.SignInternal(SLHPureMsg(m, ctx), sk, addrnd), true
}

// Verify is Algorithm 24.
func (p *SLHParams) Verify(m, sig, ctx, pk []byte) bool {
	if len(ctx) > 255 {
		return false
	}
	return p.VerifyInternal(SLHPureMsg(m, ctx), sig, pk)
}
