package ref

// JWT reference decision procedure for property C09, written from the property statement and
// RFC 7515 (JWS compact serialization), RFC 7518 (algorithms), RFC 7519 (claims), RFC 7517 (JWK).
// It shares no code with tink: own compact-token splitter, own strict base64url decoder, the
// standard library's encoding/json for JSON, ref.HMAC for HS*, and crypto/ecdsa / crypto/rsa of the
// standard library as the trusted signature oracle for ES*/RS*/PS* (other algorithms, e.g. ML-DSA,
// are plugged in by the harness through JWTKey.Other).

import (
	"bytes"
	"crypto"
	"crypto/ecdsa"
	"crypto/elliptic"
	"crypto/rsa"
	"crypto/subtle"
	"encoding/json"
	"errors"
	"fmt"
	"io"
	"math/big"
	"sort"
	"strings"
	"time"
	"unicode/utf8"
)

// JWTKidMode is the kid rule attached to a key.
type JWTKidMode int

const (
	JWTKidTink    JWTKidMode = iota // header kid required and equal to base64url(be32(key id))
	JWTKidCustom                    // header kid, when present, must be a string equal to the key's kid
	JWTKidIgnored                   // header kid not looked at
)

func (m JWTKidMode) String() string { return [...]string{"tink-kid", "custom-kid", "no-kid"}[m] }

// JWTKey is one enabled verification key of a keyset.
type JWTKey struct {
	Alg     string // exact "alg" header value of the key
	KidMode JWTKidMode
	Kid     string // expected kid (tink and custom modes)
	HMACKey []byte
	EC      *ecdsa.PublicKey
	RSA     *rsa.PublicKey
	Other   func(msg, sig []byte) bool // signature oracle for algorithms outside RFC 7518
}

// JWTTinkKid is base64url(big-endian 32-bit key id).
func JWTTinkKid(id uint32) string {
	return JWTB64Encode([]byte{byte(id >> 24), byte(id >> 16), byte(id >> 8), byte(id)})
}

// JWTValidator mirrors the validator options named by the property.
type JWTValidator struct {
	ExpectedTyp, ExpectedIss, ExpectedAud *string
	IgnoreTyp, IgnoreIss, IgnoreAud       bool
	AllowMissingExp                       bool
	ExpectIatInPast                       bool
	Skew                                  time.Duration
}

// JWTMaxSkew is the largest admissible clock skew.
const JWTMaxSkew = 10 * time.Minute

// Constructible says whether a validator with these options may exist at all.
func (v JWTValidator) Constructible() bool {
	if v.ExpectedTyp != nil && v.IgnoreTyp {
		return false
	}
	if v.ExpectedIss != nil && v.IgnoreIss {
		return false
	}
	if v.ExpectedAud != nil && v.IgnoreAud {
		return false
	}
	return v.Skew <= JWTMaxSkew
}

// JWTVerdict is the reference decision for one (token, keyset, validator, now).
type JWTVerdict struct {
	Accept   bool
	DontCare bool   // verdict not judged: duplicate member names or non-canonical base64 trailing bits on an otherwise acceptable token
	Why      string // first violated rule (of the last key tried)
	Typ      *string
	Header   map[string]any
	Payload  map[string]any // string, json.Number, bool, nil, []any, map[string]any
}

const jwtB64Alphabet = "ABCDEFGHIJKLMNOPQRSTUVWXYZabcdefghijklmnopqrstuvwxyz0123456789-_"

// JWTB64Encode is base64url without padding (RFC 7515 section 2, appendix C).
func JWTB64Encode(b []byte) string {
	var sb strings.Builder
	for i := 0; i < len(b); i += 3 {
		n := len(b) - i
		var v uint32
		v = uint32(b[i]) << 16
		if n > 1 {
			v |= uint32(b[i+1]) << 8
		}
		if n > 2 {
			v |= uint32(b[i+2])
		}
		sb.WriteByte(jwtB64Alphabet[v>>18&63])
		sb.WriteByte(jwtB64Alphabet[v>>12&63])
		if n > 1 {
			sb.WriteByte(jwtB64Alphabet[v>>6&63])
		}
		if n > 2 {
			sb.WriteByte(jwtB64Alphabet[v&63])
		}
	}
	return sb.String()
}

// JWTB64Decode decodes base64url without padding. ok is false when a character outside the
// 64-character URL-safe alphabet occurs (that includes '=', '+', '/', whitespace, non-ASCII) or the
// length is 1 mod 4. canonical is false when the unused low bits of the last character are not zero.
func JWTB64Decode(s string) (out []byte, canonical, ok bool) {
	if len(s)%4 == 1 {
		return nil, false, false
	}
	var acc uint32
	nb := 0
	out = make([]byte, 0, len(s)*3/4)
	for i := 0; i < len(s); i++ {
		c := s[i]
		var v int
		switch {
		case c >= 'A' && c <= 'Z':
			v = int(c - 'A')
		case c >= 'a' && c <= 'z':
			v = int(c-'a') + 26
		case c >= '0' && c <= '9':
			v = int(c-'0') + 52
		case c == '-':
			v = 62
		case c == '_':
			v = 63
		default:
			return nil, false, false
		}
		acc = acc<<6 | uint32(v)
		nb += 6
		if nb >= 8 {
			nb -= 8
			out = append(out, byte(acc>>uint(nb)))
			acc &= 1<<uint(nb) - 1
		}
	}
	return out, acc == 0, true
}

// jwtParseJSON parses a complete JSON text (RFC 8259: UTF-8, a single value, nothing after it).
// dup reports an object with duplicate member names anywhere in the text.
func jwtParseJSON(raw []byte) (v any, dup bool, err error) {
	if !utf8.Valid(raw) {
		return nil, false, errors.New("JSON text is not valid UTF-8")
	}
	if !json.Valid(raw) {
		return nil, false, errors.New("not a JSON text")
	}
	dec := json.NewDecoder(bytes.NewReader(raw))
	dec.UseNumber()
	v, err = jwtParseValue(dec, &dup)
	if err != nil {
		return nil, false, err
	}
	if _, e := dec.Token(); e != io.EOF {
		return nil, false, errors.New("data after JSON value")
	}
	return v, dup, nil
}

func jwtParseValue(dec *json.Decoder, dup *bool) (any, error) {
	t, err := dec.Token()
	if err != nil {
		return nil, err
	}
	d, isDelim := t.(json.Delim)
	if !isDelim {
		return t, nil // string, json.Number, bool, nil
	}
	switch d {
	case '{':
		m := map[string]any{}
		for dec.More() {
			kt, err := dec.Token()
			if err != nil {
				return nil, err
			}
			k, ok := kt.(string)
			if !ok {
				return nil, errors.New("object member name is not a string")
			}
			val, err := jwtParseValue(dec, dup)
			if err != nil {
				return nil, err
			}
			if _, exists := m[k]; exists {
				*dup = true
			}
			m[k] = val
		}
		if _, err := dec.Token(); err != nil {
			return nil, err
		}
		return m, nil
	case '[':
		a := []any{}
		for dec.More() {
			val, err := jwtParseValue(dec, dup)
			if err != nil {
				return nil, err
			}
			a = append(a, val)
		}
		if _, err := dec.Token(); err != nil {
			return nil, err
		}
		return a, nil
	}
	return nil, errors.New("unexpected delimiter")
}

func jwtParseObject(raw []byte) (map[string]any, bool, error) {
	v, dup, err := jwtParseJSON(raw)
	if err != nil {
		return nil, false, err
	}
	m, ok := v.(map[string]any)
	if !ok {
		return nil, false, errors.New("JSON value is not an object")
	}
	return m, dup, nil
}

// JWTParseObject exposes the reference JSON object parser (for comparing returned claims).
func JWTParseObject(raw []byte) (map[string]any, error) {
	m, _, err := jwtParseObject(raw)
	return m, err
}

func jwtAlgHash(alg string) (crypto.Hash, string, bool) {
	if len(alg) != 5 {
		return 0, "", false
	}
	switch alg[2:] {
	case "256":
		return crypto.SHA256, "SHA256", true
	case "384":
		return crypto.SHA384, "SHA384", true
	case "512":
		return crypto.SHA512, "SHA512", true
	}
	return 0, "", false
}

func jwtDigest(h crypto.Hash, msg []byte) []byte {
	hh := h.New()
	hh.Write(msg)
	return hh.Sum(nil)
}

func jwtCurve(alg string) (elliptic.Curve, int) {
	switch alg {
	case "ES256":
		return elliptic.P256(), 32
	case "ES384":
		return elliptic.P384(), 48
	case "ES512":
		return elliptic.P521(), 66
	}
	return nil, 0
}

// JWTSignatureValid decides whether sig is a valid signature / MAC of msg under the key, by the
// key's own algorithm (RFC 7518 sections 3.2 - 3.5).
func JWTSignatureValid(k *JWTKey, msg, sig []byte) bool {
	switch {
	case strings.HasPrefix(k.Alg, "HS") && k.HMACKey != nil:
		_, hn, ok := jwtAlgHash(k.Alg)
		if !ok {
			return false
		}
		want := HMAC(hn, k.HMACKey, msg)
		return len(sig) == len(want) && subtle.ConstantTimeCompare(sig, want) == 1
	case strings.HasPrefix(k.Alg, "ES") && k.EC != nil:
		h, _, ok := jwtAlgHash(k.Alg)
		curve, n := jwtCurve(k.Alg)
		if !ok || curve == nil || k.EC.Curve != curve || len(sig) != 2*n {
			return false
		}
		r := new(big.Int).SetBytes(sig[:n])
		s := new(big.Int).SetBytes(sig[n:])
		return ecdsa.Verify(k.EC, jwtDigest(h, msg), r, s)
	case strings.HasPrefix(k.Alg, "RS") && k.RSA != nil:
		h, _, ok := jwtAlgHash(k.Alg)
		if !ok {
			return false
		}
		return rsa.VerifyPKCS1v15(k.RSA, h, jwtDigest(h, msg), sig) == nil
	case strings.HasPrefix(k.Alg, "PS") && k.RSA != nil:
		h, _, ok := jwtAlgHash(k.Alg)
		if !ok {
			return false
		}
		return rsa.VerifyPSS(k.RSA, h, jwtDigest(h, msg), sig, &rsa.PSSOptions{SaltLength: h.Size(), Hash: h}) == nil
	case k.Other != nil:
		return k.Other(msg, sig)
	}
	return false
}

var (
	jwtTSMin = big.NewRat(0, 1)
	jwtTSMax = big.NewRat(253402300799, 1) // 9999-12-31T23:59:59Z
)

func jwtNumber(v any) (*big.Rat, bool) {
	n, ok := v.(json.Number)
	if !ok {
		return nil, false
	}
	r, ok := new(big.Rat).SetString(string(n))
	return r, ok
}

func jwtCheckPayload(p map[string]any) error {
	for _, c := range []string{"iss", "sub", "jti"} {
		if v, ok := p[c]; ok {
			if _, isStr := v.(string); !isStr {
				return fmt.Errorf("claim %s is not a string", c)
			}
		}
	}
	if v, ok := p["aud"]; ok {
		switch a := v.(type) {
		case string:
		case []any:
			if len(a) == 0 {
				return errors.New("aud is an empty array")
			}
			for _, e := range a {
				if _, isStr := e.(string); !isStr {
					return errors.New("aud array element is not a string")
				}
			}
		default:
			return errors.New("aud is neither a string nor an array")
		}
	}
	for _, c := range []string{"exp", "nbf", "iat"} {
		if v, ok := p[c]; ok {
			r, isNum := jwtNumber(v)
			if !isNum {
				return fmt.Errorf("claim %s is not a number", c)
			}
			if r.Cmp(jwtTSMin) < 0 || r.Cmp(jwtTSMax) > 0 {
				return fmt.Errorf("claim %s out of range", c)
			}
		}
	}
	return nil
}

// JWTAudiences returns the aud claim as a list (nil when absent); the payload must have passed jwtCheckPayload.
func JWTAudiences(p map[string]any) []string {
	switch a := p["aud"].(type) {
	case string:
		return []string{a}
	case []any:
		var out []string
		for _, e := range a {
			s, _ := e.(string)
			out = append(out, s)
		}
		return out
	}
	return nil
}

func jwtPresence(what string, ignore bool, present bool, expected *string) (skip bool, err error) {
	switch {
	case ignore:
		return true, nil
	case expected == nil && !present:
		return true, nil
	case expected == nil && present:
		return false, fmt.Errorf("%s present but the validator expects none", what)
	case expected != nil && !present:
		return false, fmt.Errorf("%s expected but absent", what)
	}
	return false, nil
}

func jwtValidate(typ *string, p map[string]any, v JWTValidator, now time.Time) error {
	nowR := new(big.Rat).Add(new(big.Rat).SetInt64(now.Unix()), big.NewRat(int64(now.Nanosecond()), 1_000_000_000))
	skew := big.NewRat(int64(v.Skew), 1_000_000_000)
	lo := new(big.Rat).Sub(nowR, skew)
	hi := new(big.Rat).Add(nowR, skew)
	if e, ok := p["exp"]; ok {
		r, _ := jwtNumber(e)
		if !(r.Cmp(lo) > 0) { // exp > now - skew
			return errors.New("expired")
		}
	} else if !v.AllowMissingExp {
		return errors.New("exp missing")
	}
	if e, ok := p["nbf"]; ok {
		r, _ := jwtNumber(e)
		if !(r.Cmp(hi) <= 0) { // nbf <= now + skew
			return errors.New("not yet valid")
		}
	}
	if v.ExpectIatInPast {
		e, ok := p["iat"]
		if !ok {
			return errors.New("iat required by the validator but absent")
		}
		r, _ := jwtNumber(e)
		if !(r.Cmp(hi) <= 0) { // iat <= now + skew
			return errors.New("issued in the future")
		}
	}
	if skip, err := jwtPresence("typ", v.IgnoreTyp, typ != nil, v.ExpectedTyp); err != nil {
		return err
	} else if !skip && *typ != *v.ExpectedTyp {
		return errors.New("wrong typ")
	}
	_, hasAud := p["aud"]
	if skip, err := jwtPresence("aud", v.IgnoreAud, hasAud, v.ExpectedAud); err != nil {
		return err
	} else if !skip {
		found := false
		for _, a := range JWTAudiences(p) {
			if a == *v.ExpectedAud {
				found = true
			}
		}
		if !found {
			return errors.New("expected audience not among aud")
		}
	}
	iss, hasIss := p["iss"]
	if skip, err := jwtPresence("iss", v.IgnoreIss, hasIss, v.ExpectedIss); err != nil {
		return err
	} else if !skip && iss.(string) != *v.ExpectedIss {
		return errors.New("wrong iss")
	}
	return nil
}

// JWTSplit splits a JWS compact serialization: exactly three '.'-separated parts.
func JWTSplit(token string) (h, p, s string, ok bool) {
	var parts []string
	start := 0
	for i := 0; i < len(token); i++ {
		if token[i] == '.' {
			parts = append(parts, token[start:i])
			start = i + 1
		}
	}
	parts = append(parts, token[start:])
	if len(parts) != 3 {
		return "", "", "", false
	}
	return parts[0], parts[1], parts[2], true
}

type jwtDecision int

const (
	jwtReject jwtDecision = iota
	jwtDontCare
	jwtAccept
)

// JWTAccept is the reference decision procedure accept(token, keys, validator, now): the token is
// accepted iff some key of the (enabled) key list accepts it.
func JWTAccept(token string, keys []JWTKey, v JWTValidator, now time.Time) JWTVerdict {
	res := JWTVerdict{Why: "no key"}
	hs, ps, ss, ok := JWTSplit(token)
	if !ok {
		res.Why = "not exactly three dot-separated parts"
		return res
	}
	hb, hcanon, ok1 := JWTB64Decode(hs)
	pb, pcanon, ok2 := JWTB64Decode(ps)
	sb, scanon, ok3 := JWTB64Decode(ss)
	if !ok1 || !ok2 || !ok3 {
		res.Why = "a part is not base64url without padding"
		return res
	}
	signingInput := []byte(token[:len(hs)+1+len(ps)])
	best := jwtReject
	for i := range keys {
		k := &keys[i]
		d, why, out := jwtAcceptKey(k, signingInput, hb, pb, sb, v, now)
		if d != jwtReject && !(hcanon && pcanon && scanon) {
			d, why = jwtDontCare, "non-canonical base64 trailing bits"
		}
		if d == jwtAccept {
			res.Accept = true
			res.Typ, res.Header, res.Payload = out.Typ, out.Header, out.Payload
			res.Why = ""
			return res
		}
		if d >= best {
			best, res.Why = d, why
		}
	}
	res.DontCare = best == jwtDontCare
	return res
}

func jwtAcceptKey(k *JWTKey, signingInput, hb, pb, sb []byte, v JWTValidator, now time.Time) (jwtDecision, string, JWTVerdict) {
	var out JWTVerdict
	if !JWTSignatureValid(k, signingInput, sb) {
		return jwtReject, "signature / MAC invalid", out
	}
	header, hdup, err := jwtParseObject(hb)
	if err != nil {
		return jwtReject, "header: " + err.Error(), out
	}
	payload, pdup, err := jwtParseObject(pb)
	if err != nil {
		return jwtReject, "payload: " + err.Error(), out
	}
	if hdup || pdup {
		return jwtDontCare, "duplicate member names", out
	}
	if jwtHasHugeNumber(header) || jwtHasHugeNumber(payload) {
		// RFC 8259 section 6 lets a JSON reader limit the range of numbers: a number that is not a finite
		// IEEE 754 double may be refused; the verdict is only judged when it is a rejection anyway.
		d, why, o := jwtAcceptParsed(k, header, payload, v, now)
		if d == jwtAccept {
			return jwtDontCare, "number beyond the float64 range", out
		}
		return d, why, o
	}
	return jwtAcceptParsed(k, header, payload, v, now)
}

func jwtHasHugeNumber(v any) bool {
	switch t := v.(type) {
	case json.Number:
		_, err := t.Float64()
		return err != nil
	case []any:
		for _, e := range t {
			if jwtHasHugeNumber(e) {
				return true
			}
		}
	case map[string]any:
		for _, e := range t {
			if jwtHasHugeNumber(e) {
				return true
			}
		}
	}
	return false
}

func jwtAcceptParsed(k *JWTKey, header, payload map[string]any, v JWTValidator, now time.Time) (jwtDecision, string, JWTVerdict) {
	var out JWTVerdict
	alg, isStr := header["alg"].(string)
	if !isStr {
		return jwtReject, "alg missing or not a string", out
	}
	if alg != k.Alg {
		return jwtReject, "alg differs from the key's algorithm", out
	}
	if _, has := header["crit"]; has {
		return jwtReject, "crit present", out
	}
	kidV, hasKid := header["kid"]
	switch k.KidMode {
	case JWTKidTink:
		if !hasKid {
			return jwtReject, "kid required", out
		}
		if s, ok := kidV.(string); !ok || s != k.Kid {
			return jwtReject, "kid differs from the key id", out
		}
	case JWTKidCustom:
		if hasKid {
			if s, ok := kidV.(string); !ok || s != k.Kid {
				return jwtReject, "kid differs from the custom kid", out
			}
		}
	}
	if t, has := header["typ"]; has {
		s, ok := t.(string)
		if !ok {
			return jwtReject, "typ not a string", out
		}
		out.Typ = &s
	}
	if err := jwtCheckPayload(payload); err != nil {
		return jwtReject, "payload: " + err.Error(), out
	}
	if err := jwtValidate(out.Typ, payload, v, now); err != nil {
		return jwtReject, "validator: " + err.Error(), out
	}
	out.Header, out.Payload = header, payload
	return jwtAccept, "", out
}

// JWTSign produces the signature part's bytes over signingInput with a private key:
// []byte (HMAC key), *ecdsa.PrivateKey (RFC 6979 deterministic, R||S fixed width), *rsa.PrivateKey.
func JWTSign(alg string, priv any, signingInput []byte) ([]byte, error) {
	h, hn, ok := jwtAlgHash(alg)
	if !ok {
		return nil, fmt.Errorf("ref: cannot sign with alg %q", alg)
	}
	switch k := priv.(type) {
	case []byte:
		return HMAC(hn, k, signingInput), nil
	case *ecdsa.PrivateKey:
		_, n := jwtCurve(alg)
		if n == 0 {
			return nil, fmt.Errorf("ref: alg %q is not ECDSA", alg)
		}
		r, s, err := jwtECDSASign(k, h, jwtDigest(h, signingInput))
		if err != nil {
			return nil, err
		}
		out := make([]byte, 2*n)
		r.FillBytes(out[:n])
		s.FillBytes(out[n:])
		return out, nil
	case *rsa.PrivateKey:
		if strings.HasPrefix(alg, "RS") {
			return rsa.SignPKCS1v15(nil, k, h, jwtDigest(h, signingInput))
		}
		return rsa.SignPSS(jwtRand{}, k, h, jwtDigest(h, signingInput), &rsa.PSSOptions{SaltLength: h.Size(), Hash: h})
	}
	return nil, fmt.Errorf("ref: unsupported private key %T", priv)
}

// JWTSignPSSSalt signs RSASSA-PSS with an explicit salt length (for wrong-salt-length probes).
func JWTSignPSSSalt(alg string, k *rsa.PrivateKey, signingInput []byte, saltLen int) ([]byte, error) {
	h, _, ok := jwtAlgHash(alg)
	if !ok {
		return nil, fmt.Errorf("ref: cannot sign with alg %q", alg)
	}
	return rsa.SignPSS(jwtRand{}, k, h, jwtDigest(h, signingInput), &rsa.PSSOptions{SaltLength: saltLen, Hash: h})
}

// jwtRand is a fixed byte source (PSS salts need not be unpredictable here; the standard library may
// ignore it and use its own DRBG, which is equally fine: verdicts do not depend on the salt).
type jwtRand struct{}

func (jwtRand) Read(p []byte) (int, error) {
	for i := range p {
		p[i] = byte(0x5a + i)
	}
	return len(p), nil
}

func jwtECDSASign(k *ecdsa.PrivateKey, h crypto.Hash, digest []byte) (r, s *big.Int, err error) {
	der, err := k.Sign(nil, digest, h) // rand == nil: deterministic (RFC 6979)
	if err != nil {
		return nil, nil, err
	}
	// minimal DER reader: SEQUENCE { INTEGER r, INTEGER s }
	rd := func(b []byte) (val, rest []byte, ok bool) {
		if len(b) < 2 {
			return nil, nil, false
		}
		l := int(b[1])
		off := 2
		if l&0x80 != 0 {
			nb := l & 0x7f
			if nb == 0 || nb > 2 || len(b) < 2+nb {
				return nil, nil, false
			}
			l = 0
			for i := 0; i < nb; i++ {
				l = l<<8 | int(b[2+i])
			}
			off = 2 + nb
		}
		if len(b) < off+l {
			return nil, nil, false
		}
		return b[off : off+l], b[off+l:], true
	}
	if len(der) == 0 || der[0] != 0x30 {
		return nil, nil, errors.New("ref: bad ECDSA DER")
	}
	seq, _, ok := rd(der)
	if !ok || len(seq) == 0 || seq[0] != 0x02 {
		return nil, nil, errors.New("ref: bad ECDSA DER")
	}
	rb, rest, ok := rd(seq)
	if !ok || len(rest) == 0 || rest[0] != 0x02 {
		return nil, nil, errors.New("ref: bad ECDSA DER")
	}
	sbb, _, ok := rd(rest)
	if !ok {
		return nil, nil, errors.New("ref: bad ECDSA DER")
	}
	return new(big.Int).SetBytes(rb), new(big.Int).SetBytes(sbb), nil
}

// JWTNumberFloat converts a reference JSON number to float64 (nearest).
func JWTNumberFloat(n json.Number) float64 {
	f, _ := n.Float64()
	return f
}

// JWTEqualJSON compares a reference JSON value (json.Number numbers) with a value decoded by
// encoding/json without UseNumber (float64 numbers) or with UseNumber; numbers compare as float64.
func JWTEqualJSON(a, b any) bool {
	num := func(v any) (float64, bool) {
		switch n := v.(type) {
		case json.Number:
			return JWTNumberFloat(n), true
		case float64:
			return n, true
		case int:
			return float64(n), true
		case int64:
			return float64(n), true
		}
		return 0, false
	}
	if fa, ok := num(a); ok {
		fb, ok2 := num(b)
		return ok2 && fa == fb
	}
	switch va := a.(type) {
	case nil:
		return b == nil
	case bool:
		vb, ok := b.(bool)
		return ok && va == vb
	case string:
		vb, ok := b.(string)
		return ok && va == vb
	case []any:
		vb, ok := b.([]any)
		if !ok || len(va) != len(vb) {
			return false
		}
		for i := range va {
			if !JWTEqualJSON(va[i], vb[i]) {
				return false
			}
		}
		return true
	case map[string]any:
		vb, ok := b.(map[string]any)
		if !ok || len(va) != len(vb) {
			return false
		}
		for k, x := range va {
			y, has := vb[k]
			if !has || !JWTEqualJSON(x, y) {
				return false
			}
		}
		return true
	}
	return false
}

// JWTSortedKeys returns the member names of an object in sorted order.
func JWTSortedKeys(m map[string]any) []string {
	ks := make([]string, 0, len(m))
	for k := range m {
		ks = append(ks, k)
	}
	sort.Strings(ks)
	return ks
}

// JWKParseSet reads a JWK set (RFC 7517 section 5) of public EC / RSA signature keys (RFC 7518
// section 6.2.1, 6.3.1) into reference keys: "alg" is required, a "kid" member makes the key a
// custom-kid key, otherwise the kid header is ignored.
func JWKParseSet(raw []byte) ([]JWTKey, error) {
	set, _, err := jwtParseObject(raw)
	if err != nil {
		return nil, err
	}
	list, ok := set["keys"].([]any)
	if !ok {
		return nil, errors.New("jwk: no keys array")
	}
	var out []JWTKey
	for _, e := range list {
		m, ok := e.(map[string]any)
		if !ok {
			return nil, errors.New("jwk: key is not an object")
		}
		str := func(name string) (string, bool) { s, ok := m[name].(string); return s, ok }
		bin := func(name string) ([]byte, bool) {
			s, ok := str(name)
			if !ok {
				return nil, false
			}
			b, _, ok := JWTB64Decode(s)
			return b, ok
		}
		for _, private := range []string{"d", "p", "q", "dp", "dq", "qi", "k"} {
			if _, has := m[private]; has {
				return nil, errors.New("jwk: private or symmetric key material present")
			}
		}
		alg, ok := str("alg")
		if !ok {
			return nil, errors.New("jwk: alg missing")
		}
		k := JWTKey{Alg: alg, KidMode: JWTKidIgnored}
		if kid, has := m["kid"]; has {
			s, ok := kid.(string)
			if !ok {
				return nil, errors.New("jwk: kid not a string")
			}
			k.KidMode, k.Kid = JWTKidCustom, s
		}
		kty, _ := str("kty")
		switch kty {
		case "EC":
			curve, n := jwtCurve(alg)
			crv, _ := str("crv")
			if curve == nil || crv != map[string]string{"ES256": "P-256", "ES384": "P-384", "ES512": "P-521"}[alg] {
				return nil, errors.New("jwk: alg / crv mismatch")
			}
			x, okx := bin("x")
			y, oky := bin("y")
			if !okx || !oky || len(x) != n || len(y) != n {
				return nil, errors.New("jwk: bad EC coordinates")
			}
			pub, err := ecdsa.ParseUncompressedPublicKey(curve, append(append([]byte{4}, x...), y...))
			if err != nil {
				return nil, err
			}
			k.EC = pub
		case "RSA":
			if !strings.HasPrefix(alg, "RS") && !strings.HasPrefix(alg, "PS") {
				return nil, errors.New("jwk: alg is not an RSA algorithm")
			}
			n, okn := bin("n")
			e, oke := bin("e")
			if !okn || !oke {
				return nil, errors.New("jwk: bad RSA parameters")
			}
			ee := new(big.Int).SetBytes(e)
			if !ee.IsInt64() || ee.Int64() > 1<<31-1 {
				return nil, errors.New("jwk: exponent too large")
			}
			k.RSA = &rsa.PublicKey{N: new(big.Int).SetBytes(n), E: int(ee.Int64())}
		default:
			return nil, fmt.Errorf("jwk: unsupported kty %q", kty)
		}
		out = append(out, k)
	}
	return out, nil
}
