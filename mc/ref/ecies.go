// ECIES-AEAD-HKDF reference sender / recipient, written from Tink's documented construction
// (https://developers.google.com/tink/wire-format, ECIES-AEAD-HKDF):
//
//	kem_bytes  = encoding of the ephemeral public point in the key's point format
//	             UNCOMPRESSED 04||X||Y, COMPRESSED (02|03 by parity of Y)||X, DO_NOT_USE_CRUNCHY_UNCOMPRESSED X||Y
//	             (X, Y fixed-length big-endian field elements)
//	shared     = x-coordinate of ECDH(ephemeral, recipient), fixed-length big-endian field element
//	dem_key    = HKDF(hash, ikm = kem_bytes || shared, salt, info = contextInfo, L = DEM key size)
//	ciphertext = kem_bytes || DEM(dem_key).Encrypt(plaintext, associated data = "")
//
// DEMs: AES-GCM (IV 12 || ct || tag 16), AES-CTR-HMAC-SHA256 (IV 16 || AES-CTR ct || HMAC(hmac key,
// ad || IV || ct || be64(8*len(ad)))[:tag], key material = AES key || HMAC key (32), tag 16 for AES128 and 32
// for AES256), AES256-SIV (RFC 5297 with one associated-data string, 64-byte key). Built on crypto/ecdh
// (group operation), math/big (point decompression), ref.HKDF / ref.HMAC / ref.CMAC and the AES block cipher.
package ref

import (
	"bytes"
	"crypto/aes"
	"crypto/cipher"
	"crypto/ecdh"
	"crypto/elliptic"
	"errors"
	"math/big"
)

// ECIESParams is one ECIES-AEAD-HKDF parameter set.
type ECIESParams struct {
	Curve  string // "P256" | "P384" | "P521"
	Hash   string // ref.Hash name
	Format string // "UNCOMPRESSED" | "COMPRESSED" | "DO_NOT_USE_CRUNCHY_UNCOMPRESSED"
	DEM    string // "AES128_GCM" | "AES256_GCM" | "AES128_CTR_HMAC_SHA256" | "AES256_CTR_HMAC_SHA256" | "AES256_SIV"
	Salt   []byte
}

type eciesCurve struct {
	ecdh ecdh.Curve
	p, b *big.Int
	size int
}

func eciesCurveOf(name string) eciesCurve {
	switch name {
	case "P256":
		pr := elliptic.P256().Params()
		return eciesCurve{ecdh.P256(), pr.P, pr.B, 32}
	case "P384":
		pr := elliptic.P384().Params()
		return eciesCurve{ecdh.P384(), pr.P, pr.B, 48}
	case "P521":
		pr := elliptic.P521().Params()
		return eciesCurve{ecdh.P521(), pr.P, pr.B, 66}
	}
	panic("ref: unknown curve " + name)
}

// ECIESFieldSize is the byte length of a field element.
func ECIESFieldSize(curve string) int { return eciesCurveOf(curve).size }

// ECIESEncodingSize is the length of kem_bytes.
func ECIESEncodingSize(curve, format string) int {
	n := eciesCurveOf(curve).size
	switch format {
	case "UNCOMPRESSED":
		return 2*n + 1
	case "COMPRESSED":
		return n + 1
	case "DO_NOT_USE_CRUNCHY_UNCOMPRESSED":
		return 2 * n
	}
	panic("ref: unknown point format " + format)
}

// ECIESPublicFromScalar returns the SEC1 uncompressed encoding 04||X||Y of k*G (k big-endian, fixed length).
func ECIESPublicFromScalar(curve string, k []byte) ([]byte, error) {
	c := eciesCurveOf(curve)
	sk, err := c.ecdh.NewPrivateKey(k)
	if err != nil {
		return nil, err
	}
	return sk.PublicKey().Bytes(), nil
}

// ECIESEncodePoint re-encodes a valid SEC1 uncompressed point into the given format.
func ECIESEncodePoint(curve, format string, uncompressed []byte) []byte {
	n := eciesCurveOf(curve).size
	if len(uncompressed) != 2*n+1 || uncompressed[0] != 4 {
		panic("ref: ECIESEncodePoint wants an uncompressed point")
	}
	x, y := uncompressed[1:1+n], uncompressed[1+n:]
	switch format {
	case "UNCOMPRESSED":
		return bytes.Clone(uncompressed)
	case "DO_NOT_USE_CRUNCHY_UNCOMPRESSED":
		return bytes.Clone(uncompressed[1:])
	case "COMPRESSED":
		return append([]byte{2 + (y[n-1] & 1)}, x...)
	}
	panic("ref: unknown point format " + format)
}

// ECIESDecodePoint validates an encoded point (length, tag byte, coordinates < p, on the curve, not
// the point at infinity) and returns its SEC1 uncompressed encoding.
func ECIESDecodePoint(curve, format string, enc []byte) ([]byte, error) {
	c := eciesCurveOf(curve)
	n := c.size
	if len(enc) != ECIESEncodingSize(curve, format) {
		return nil, errors.New("ref: wrong point encoding length")
	}
	var unc []byte
	switch format {
	case "UNCOMPRESSED":
		if enc[0] != 4 {
			return nil, errors.New("ref: bad tag byte")
		}
		unc = bytes.Clone(enc)
	case "DO_NOT_USE_CRUNCHY_UNCOMPRESSED":
		unc = append([]byte{4}, enc...)
	case "COMPRESSED":
		if enc[0] != 2 && enc[0] != 3 {
			return nil, errors.New("ref: bad tag byte")
		}
		x := new(big.Int).SetBytes(enc[1:])
		if x.Cmp(c.p) >= 0 {
			return nil, errors.New("ref: x >= p")
		}
		// y^2 = x^3 - 3x + b; p = 3 (mod 4) for all three curves, so sqrt(a) = a^((p+1)/4) when it exists.
		rhs := new(big.Int).Mul(x, x)
		rhs.Mul(rhs, x)
		rhs.Sub(rhs, new(big.Int).Mul(big.NewInt(3), x))
		rhs.Add(rhs, c.b)
		rhs.Mod(rhs, c.p)
		e := new(big.Int).Add(c.p, big.NewInt(1))
		e.Rsh(e, 2)
		y := new(big.Int).Exp(rhs, e, c.p)
		if new(big.Int).Mod(new(big.Int).Mul(y, y), c.p).Cmp(rhs) != 0 {
			return nil, errors.New("ref: x is not the abscissa of a curve point")
		}
		if y.Bit(0) != uint(enc[0]&1) {
			y.Sub(c.p, y)
			if y.Cmp(c.p) == 0 { // y was 0: only one root, parity bit 1 is not encodable
				return nil, errors.New("ref: parity bit set for y = 0")
			}
		}
		unc = make([]byte, 1+2*n)
		unc[0] = 4
		copy(unc[1:1+n], enc[1:])
		y.FillBytes(unc[1+n:])
	default:
		panic("ref: unknown point format " + format)
	}
	// range, on-curve and non-infinity validation by the stdlib group implementation
	if _, err := c.ecdh.NewPublicKey(unc); err != nil {
		return nil, err
	}
	return unc, nil
}

// ECIESNegate returns the uncompressed encoding of -P.
func ECIESNegate(curve string, uncompressed []byte) []byte {
	c := eciesCurveOf(curve)
	out := bytes.Clone(uncompressed)
	y := new(big.Int).SetBytes(uncompressed[1+c.size:])
	y.Sub(c.p, y).Mod(y, c.p)
	y.FillBytes(out[1+c.size:])
	return out
}

// ECIESSharedX is the ECDH shared x-coordinate (fixed length).
func ECIESSharedX(curve string, scalar, peerUncompressed []byte) ([]byte, error) {
	c := eciesCurveOf(curve)
	sk, err := c.ecdh.NewPrivateKey(scalar)
	if err != nil {
		return nil, err
	}
	pk, err := c.ecdh.NewPublicKey(peerUncompressed)
	if err != nil {
		return nil, err
	}
	return sk.ECDH(pk)
}

// ECIESDEMKeySize is the number of key-material bytes the DEM takes.
func ECIESDEMKeySize(dem string) int {
	switch dem {
	case "AES128_GCM":
		return 16
	case "AES256_GCM":
		return 32
	case "AES128_CTR_HMAC_SHA256":
		return 48
	case "AES256_CTR_HMAC_SHA256", "AES256_SIV":
		return 64
	}
	panic("ref: unknown DEM " + dem)
}

// ECIESDEMIVSize is the number of random IV bytes the DEM's encryption consumes (0 for AES-SIV).
func ECIESDEMIVSize(dem string) int {
	switch dem {
	case "AES128_GCM", "AES256_GCM":
		return 12
	case "AES128_CTR_HMAC_SHA256", "AES256_CTR_HMAC_SHA256":
		return 16
	}
	return 0
}

func eciesAESCTR(key, iv, in []byte) []byte {
	blk, err := aes.NewCipher(key)
	if err != nil {
		panic(err)
	}
	ctr := bytes.Clone(iv)
	out := make([]byte, len(in))
	var ks [16]byte
	for off := 0; off < len(in); off += 16 {
		blk.Encrypt(ks[:], ctr)
		for i := 0; i < 16 && off+i < len(in); i++ {
			out[off+i] = in[off+i] ^ ks[i]
		}
		for i := 15; i >= 0; i-- { // 128-bit big-endian increment (SP 800-38A)
			ctr[i]++
			if ctr[i] != 0 {
				break
			}
		}
	}
	return out
}

func eciesCtrHmacSplit(dem string, key []byte) (aesKey, macKey []byte, tag int) {
	if dem == "AES128_CTR_HMAC_SHA256" {
		return key[:16], key[16:], 16
	}
	return key[:32], key[32:], 32
}

func eciesXor(a, b []byte) []byte {
	out := make([]byte, len(a))
	for i := range a {
		out[i] = a[i] ^ b[i]
	}
	return out
}

// eciesS2V is S2V(K1, AD = [ad], plaintext) of RFC 5297 section 2.4 (exactly one associated-data string).
func eciesS2V(k1, ad, pt []byte) []byte {
	d := CMAC(k1, make([]byte, 16))
	d = eciesXor(dbl(d), CMAC(k1, ad))
	if len(pt) >= 16 {
		t := bytes.Clone(pt)
		tail := t[len(t)-16:]
		copy(tail, eciesXor(tail, d))
		return CMAC(k1, t)
	}
	padded := make([]byte, 16)
	copy(padded, pt)
	padded[len(pt)] = 0x80
	return CMAC(k1, eciesXor(dbl(d), padded))
}

func eciesSIVCtr(k2, v, in []byte) []byte {
	q := bytes.Clone(v)
	q[8] &= 0x7f
	q[12] &= 0x7f
	return eciesAESCTR(k2, q, in)
}

// ECIESDEMEncrypt encrypts with associated data "" under the given key material and IV.
func ECIESDEMEncrypt(dem string, key, iv, pt []byte) []byte {
	if len(key) != ECIESDEMKeySize(dem) || len(iv) != ECIESDEMIVSize(dem) {
		panic("ref: DEM key/IV size")
	}
	switch dem {
	case "AES128_GCM", "AES256_GCM":
		blk, _ := aes.NewCipher(key)
		g, _ := cipher.NewGCM(blk)
		return g.Seal(bytes.Clone(iv), iv, pt, nil)
	case "AES128_CTR_HMAC_SHA256", "AES256_CTR_HMAC_SHA256":
		ak, mk, tag := eciesCtrHmacSplit(dem, key)
		body := append(bytes.Clone(iv), eciesAESCTR(ak, iv, pt)...)
		mac := HMAC("SHA256", mk, append(bytes.Clone(body), make([]byte, 8)...)) // ad="" => be64(0)
		return append(body, mac[:tag]...)
	case "AES256_SIV":
		v := eciesS2V(key[:32], nil, pt)
		return append(v, eciesSIVCtr(key[32:], v, pt)...)
	}
	panic("ref: unknown DEM " + dem)
}

// ECIESDEMDecrypt is the inverse; any authentication failure is an error.
func ECIESDEMDecrypt(dem string, key, ct []byte) ([]byte, error) {
	bad := errors.New("ref: DEM decryption failed")
	switch dem {
	case "AES128_GCM", "AES256_GCM":
		if len(ct) < 12+16 {
			return nil, bad
		}
		blk, _ := aes.NewCipher(key)
		g, _ := cipher.NewGCM(blk)
		pt, err := g.Open(nil, ct[:12], ct[12:], nil)
		if err != nil {
			return nil, bad
		}
		return append([]byte{}, pt...), nil
	case "AES128_CTR_HMAC_SHA256", "AES256_CTR_HMAC_SHA256":
		ak, mk, tag := eciesCtrHmacSplit(dem, key)
		if len(ct) < 16+tag {
			return nil, bad
		}
		body, t := ct[:len(ct)-tag], ct[len(ct)-tag:]
		mac := HMAC("SHA256", mk, append(bytes.Clone(body), make([]byte, 8)...))
		if !bytes.Equal(mac[:tag], t) {
			return nil, bad
		}
		return eciesAESCTR(ak, body[:16], body[16:]), nil
	case "AES256_SIV":
		if len(ct) < 16 {
			return nil, bad
		}
		pt := eciesSIVCtr(key[32:], ct[:16], ct[16:])
		if !bytes.Equal(eciesS2V(key[:32], nil, pt), ct[:16]) {
			return nil, bad
		}
		return pt, nil
	}
	panic("ref: unknown DEM " + dem)
}

// ECIESDeriveKey is HKDF(hash, kem_bytes || shared, salt, info, DEM key size).
func ECIESDeriveKey(p ECIESParams, kemBytes, shared, info []byte) []byte {
	ikm := append(bytes.Clone(kemBytes), shared...)
	return HKDF(p.Hash, ikm, p.Salt, info, ECIESDEMKeySize(p.DEM))
}

// ECIESEncrypt is the reference sender, derandomised: ephemeral scalar and DEM IV are inputs.
// recipientPub is the SEC1 uncompressed recipient point. Output: kem_bytes || DEM ciphertext (no Tink prefix).
func ECIESEncrypt(p ECIESParams, recipientPub, ephScalar, iv, pt, info []byte) ([]byte, error) {
	eph, err := ECIESPublicFromScalar(p.Curve, ephScalar)
	if err != nil {
		return nil, err
	}
	shared, err := ECIESSharedX(p.Curve, ephScalar, recipientPub)
	if err != nil {
		return nil, err
	}
	kem := ECIESEncodePoint(p.Curve, p.Format, eph)
	key := ECIESDeriveKey(p, kem, shared, info)
	return append(kem, ECIESDEMEncrypt(p.DEM, key, iv, pt)...), nil
}

// ECIESDecrypt is the reference recipient (ciphertext without Tink prefix).
func ECIESDecrypt(p ECIESParams, privScalar, ct, info []byte) ([]byte, error) {
	n := ECIESEncodingSize(p.Curve, p.Format)
	if len(ct) < n {
		return nil, errors.New("ref: ciphertext shorter than the point encoding")
	}
	kem := ct[:n]
	pt, err := ECIESDecodePoint(p.Curve, p.Format, kem)
	if err != nil {
		return nil, err
	}
	shared, err := ECIESSharedX(p.Curve, privScalar, pt)
	if err != nil {
		return nil, err
	}
	key := ECIESDeriveKey(p, kem, shared, info)
	return ECIESDEMDecrypt(p.DEM, key, ct[n:])
}
