// Reference models for classical signature schemes (property C03), written from the standards on
// math/big and the stdlib hash functions only:
//   - strict DER decoder for ECDSA-Sig-Value (X.690 8.1.2-8.1.3, 8.3, 10.1) and IEEE P1363 fixed-size decoder
//   - ECDSA verification / signing (FIPS 186-4 6.4, SEC 1 4.1.3/4.1.4) on own Jacobian arithmetic
//     (crypto/elliptic is used ONLY as the source of the domain-parameter constants)
//   - RSASSA-PKCS1-v1_5 and RSASSA-PSS (RFC 8017 8.1, 8.2, 9.1, 9.2, B.2.1) on textbook modular exponentiation
//
// Nothing here calls tink code, crypto/ecdsa or crypto/rsa.
package ref

import (
	"bytes"
	"crypto/elliptic"
	"crypto/sha512"
	"math/big"
)

// ---------------------------------------------------------------------------------------------
// DER / P1363

// derTLV splits one definite-length, minimally encoded TLV off b (DER: X.690 10.1 + 8.1.3).
func derTLV(b []byte) (tag byte, content, rest []byte, ok bool) {
	if len(b) < 2 {
		return
	}
	tag = b[0]
	if tag&0x1f == 0x1f { // high-tag-number form: never valid for the universal types used here
		return
	}
	l := int(b[1])
	hdr := 2
	if l >= 0x80 {
		nb := l & 0x7f
		if nb == 0 || nb > 4 { // indefinite length (BER only) / absurdly long length
			return
		}
		if len(b) < 2+nb {
			return
		}
		if b[2] == 0 { // length octets not minimal
			return
		}
		l = 0
		for i := 0; i < nb; i++ {
			l = l<<8 | int(b[2+i])
		}
		if l < 0x80 { // must have used the short form
			return
		}
		hdr = 2 + nb
	}
	if l > len(b)-hdr {
		return
	}
	return tag, b[hdr : hdr+l], b[hdr+l:], true
}

// derInt decodes the contents octets of a DER INTEGER (two's complement, minimal: X.690 8.3.2).
func derInt(c []byte) (*big.Int, bool) {
	if len(c) == 0 {
		return nil, false
	}
	if len(c) > 1 {
		if c[0] == 0x00 && c[1]&0x80 == 0 {
			return nil, false
		}
		if c[0] == 0xff && c[1]&0x80 != 0 {
			return nil, false
		}
	}
	v := new(big.Int).SetBytes(c)
	if c[0]&0x80 != 0 {
		v.Sub(v, new(big.Int).Lsh(big.NewInt(1), uint(8*len(c))))
	}
	return v, true
}

// DERDecodeSig decodes SEQUENCE { r INTEGER, s INTEGER } strictly: exactly one canonical encoding per
// value pair, no trailing data inside or outside the SEQUENCE. Integers may be negative (they are valid
// DER); range checking is the verifier's business.
func DERDecodeSig(b []byte) (r, s *big.Int, ok bool) {
	tag, seq, rest, ok1 := derTLV(b)
	if !ok1 || tag != 0x30 || len(rest) != 0 {
		return nil, nil, false
	}
	t1, c1, rest1, ok1 := derTLV(seq)
	if !ok1 || t1 != 0x02 {
		return nil, nil, false
	}
	t2, c2, rest2, ok2 := derTLV(rest1)
	if !ok2 || t2 != 0x02 || len(rest2) != 0 {
		return nil, nil, false
	}
	r, okr := derInt(c1)
	s, oks := derInt(c2)
	if !okr || !oks {
		return nil, nil, false
	}
	return r, s, true
}

// DERLen returns the DER length octets for n.
func DERLen(n int) []byte {
	switch {
	case n < 0x80:
		return []byte{byte(n)}
	case n < 0x100:
		return []byte{0x81, byte(n)}
	default:
		return []byte{0x82, byte(n >> 8), byte(n)}
	}
}

// DERIntContent returns the minimal two's complement contents octets of v.
func DERIntContent(v *big.Int) []byte {
	if v.Sign() >= 0 {
		b := v.Bytes()
		if len(b) == 0 {
			return []byte{0}
		}
		if b[0]&0x80 != 0 {
			b = append([]byte{0}, b...)
		}
		return b
	}
	// negative: smallest n with -2^(8n-1) <= v
	n := 1
	for {
		lim := new(big.Int).Lsh(big.NewInt(1), uint(8*n-1))
		if new(big.Int).Neg(lim).Cmp(v) <= 0 {
			break
		}
		n++
	}
	t := new(big.Int).Add(v, new(big.Int).Lsh(big.NewInt(1), uint(8*n)))
	out := make([]byte, n)
	t.FillBytes(out)
	return out
}

// DERWrap builds tag || DER length || content.
func DERWrap(tag byte, content []byte) []byte {
	out := append([]byte{tag}, DERLen(len(content))...)
	return append(out, content...)
}

// DEREncodeSig is the canonical DER encoding of (r, s).
func DEREncodeSig(r, s *big.Int) []byte {
	body := append(DERWrap(0x02, DERIntContent(r)), DERWrap(0x02, DERIntContent(s))...)
	return DERWrap(0x30, body)
}

// P1363DecodeSig: r || s, both exactly size octets, big endian.
func P1363DecodeSig(b []byte, size int) (r, s *big.Int, ok bool) {
	if len(b) != 2*size {
		return nil, nil, false
	}
	return new(big.Int).SetBytes(b[:size]), new(big.Int).SetBytes(b[size:]), true
}

// P1363EncodeSig returns nil if a value does not fit.
func P1363EncodeSig(r, s *big.Int, size int) []byte {
	if r.Sign() < 0 || s.Sign() < 0 || r.BitLen() > 8*size || s.BitLen() > 8*size {
		return nil
	}
	out := make([]byte, 2*size)
	r.FillBytes(out[:size])
	s.FillBytes(out[size:])
	return out
}

// ---------------------------------------------------------------------------------------------
// Short Weierstrass curves y^2 = x^3 - 3x + b over GF(p), Jacobian coordinates.

type ECCurve struct {
	Name          string
	P, N, B       *big.Int
	Gx, Gy        *big.Int
	Size          int // octets of a field element / scalar
	three, nMinus *big.Int
}

func newCurve(name string, c elliptic.Curve) *ECCurve {
	p := c.Params()
	return &ECCurve{Name: name, P: p.P, N: p.N, B: p.B, Gx: p.Gx, Gy: p.Gy, Size: (p.BitSize + 7) / 8}
}

var (
	P256 = newCurve("P-256", elliptic.P256())
	P384 = newCurve("P-384", elliptic.P384())
	P521 = newCurve("P-521", elliptic.P521())
)

type jac struct{ x, y, z *big.Int } // z == 0: point at infinity

func (c *ECCurve) mod(v *big.Int) *big.Int { return v.Mod(v, c.P) }

func (c *ECCurve) inf() *jac { return &jac{big.NewInt(1), big.NewInt(1), big.NewInt(0)} }

// OnCurve reports whether the affine point satisfies the curve equation with coordinates in [0,p).
func (c *ECCurve) OnCurve(x, y *big.Int) bool {
	if x.Sign() < 0 || y.Sign() < 0 || x.Cmp(c.P) >= 0 || y.Cmp(c.P) >= 0 {
		return false
	}
	l := new(big.Int).Mul(y, y)
	c.mod(l)
	r := new(big.Int).Mul(x, x)
	r.Mul(r, x)
	r.Sub(r, new(big.Int).Mul(big.NewInt(3), x))
	r.Add(r, c.B)
	c.mod(r)
	return l.Cmp(r) == 0
}

func (c *ECCurve) dbl(p *jac) *jac {
	if p.z.Sign() == 0 || p.y.Sign() == 0 {
		return c.inf()
	}
	delta := c.mod(new(big.Int).Mul(p.z, p.z))
	gamma := c.mod(new(big.Int).Mul(p.y, p.y))
	beta := c.mod(new(big.Int).Mul(p.x, gamma))
	t1 := new(big.Int).Sub(p.x, delta)
	t2 := new(big.Int).Add(p.x, delta)
	alpha := new(big.Int).Mul(t1, t2)
	alpha.Mul(alpha, big.NewInt(3))
	c.mod(alpha)
	x3 := new(big.Int).Mul(alpha, alpha)
	x3.Sub(x3, new(big.Int).Lsh(beta, 3))
	c.mod(x3)
	z3 := new(big.Int).Add(p.y, p.z)
	z3.Mul(z3, z3)
	z3.Sub(z3, gamma)
	z3.Sub(z3, delta)
	c.mod(z3)
	y3 := new(big.Int).Lsh(beta, 2)
	y3.Sub(y3, x3)
	y3.Mul(y3, alpha)
	g2 := new(big.Int).Mul(gamma, gamma)
	y3.Sub(y3, g2.Lsh(g2, 3))
	c.mod(y3)
	return &jac{x3, y3, z3}
}

func (c *ECCurve) add(p, q *jac) *jac {
	if p.z.Sign() == 0 {
		return q
	}
	if q.z.Sign() == 0 {
		return p
	}
	z1z1 := c.mod(new(big.Int).Mul(p.z, p.z))
	z2z2 := c.mod(new(big.Int).Mul(q.z, q.z))
	u1 := c.mod(new(big.Int).Mul(p.x, z2z2))
	u2 := c.mod(new(big.Int).Mul(q.x, z1z1))
	s1 := new(big.Int).Mul(p.y, q.z)
	s1.Mul(c.mod(s1), z2z2)
	c.mod(s1)
	s2 := new(big.Int).Mul(q.y, p.z)
	s2.Mul(c.mod(s2), z1z1)
	c.mod(s2)
	hh := c.mod(new(big.Int).Sub(u2, u1))
	rr := c.mod(new(big.Int).Sub(s2, s1))
	if hh.Sign() == 0 {
		if rr.Sign() == 0 {
			return c.dbl(p)
		}
		return c.inf()
	}
	h2 := c.mod(new(big.Int).Mul(hh, hh))
	h3 := c.mod(new(big.Int).Mul(h2, hh))
	v := c.mod(new(big.Int).Mul(u1, h2))
	x3 := new(big.Int).Mul(rr, rr)
	x3.Sub(x3, h3)
	x3.Sub(x3, new(big.Int).Lsh(v, 1))
	c.mod(x3)
	y3 := new(big.Int).Sub(v, x3)
	y3.Mul(y3, rr)
	y3.Sub(y3, new(big.Int).Mul(s1, h3))
	c.mod(y3)
	z3 := new(big.Int).Mul(p.z, q.z)
	z3.Mul(c.mod(z3), hh)
	c.mod(z3)
	return &jac{x3, y3, z3}
}

func (c *ECCurve) affine(p *jac) (x, y *big.Int, ok bool) {
	if p.z.Sign() == 0 {
		return nil, nil, false
	}
	zi := new(big.Int).ModInverse(p.z, c.P)
	zi2 := c.mod(new(big.Int).Mul(zi, zi))
	x = c.mod(new(big.Int).Mul(p.x, zi2))
	y = new(big.Int).Mul(p.y, zi2)
	y.Mul(c.mod(y), zi)
	c.mod(y)
	return x, y, true
}

// mulAdd computes u1*G + u2*Q (Q affine; Q may be nil when u2 is nil) by simultaneous double-and-add.
func (c *ECCurve) mulAdd(u1 *big.Int, qx, qy, u2 *big.Int) *jac {
	g := &jac{c.Gx, c.Gy, big.NewInt(1)}
	var q, gq *jac
	n := u1.BitLen()
	if u2 != nil {
		q = &jac{qx, qy, big.NewInt(1)}
		gq = c.add(g, q)
		if u2.BitLen() > n {
			n = u2.BitLen()
		}
	}
	acc := c.inf()
	for i := n - 1; i >= 0; i-- {
		acc = c.dbl(acc)
		b1 := u1.Bit(i)
		b2 := uint(0)
		if u2 != nil {
			b2 = u2.Bit(i)
		}
		switch {
		case b1 == 1 && b2 == 1:
			acc = c.add(acc, gq)
		case b1 == 1:
			acc = c.add(acc, g)
		case b2 == 1:
			acc = c.add(acc, q)
		}
	}
	return acc
}

// BaseMult returns d*G in affine coordinates (ok=false for the point at infinity).
func (c *ECCurve) BaseMult(d *big.Int) (x, y *big.Int, ok bool) {
	return c.affine(c.mulAdd(new(big.Int).Mod(d, c.N), nil, nil, nil))
}

// hashToInt: the leftmost min(8*len(h), bitlen(n)) bits of the hash as an integer (FIPS 186-4 6.4).
func (c *ECCurve) hashToInt(h []byte) *big.Int {
	z := new(big.Int).SetBytes(h)
	if ex := 8*len(h) - c.N.BitLen(); ex > 0 {
		z.Rsh(z, uint(ex))
	}
	return z
}

// ECDSAVerify is the plain verification equation on integers r, s and the message digest.
func ECDSAVerify(c *ECCurve, qx, qy *big.Int, digest []byte, r, s *big.Int) bool {
	if r == nil || s == nil || r.Sign() <= 0 || s.Sign() <= 0 || r.Cmp(c.N) >= 0 || s.Cmp(c.N) >= 0 {
		return false
	}
	if !c.OnCurve(qx, qy) {
		return false
	}
	z := c.hashToInt(digest)
	w := new(big.Int).ModInverse(s, c.N)
	u1 := new(big.Int).Mul(z, w)
	u1.Mod(u1, c.N)
	u2 := new(big.Int).Mul(r, w)
	u2.Mod(u2, c.N)
	x, _, ok := c.affine(c.mulAdd(u1, qx, qy, u2))
	if !ok {
		return false
	}
	x.Mod(x, c.N)
	return x.Cmp(r) == 0
}

// ECDSANonce derives a position-determined nonce in [1, n-1] from (d, digest, ctr); it only has to be
// reproducible (test signatures), not secret.
func ECDSANonce(c *ECCurve, d *big.Int, digest []byte, ctr int) *big.Int {
	var buf []byte
	for i := 0; len(buf) < c.Size+16; i++ {
		h := sha512.New()
		h.Write([]byte{byte(ctr >> 24), byte(ctr >> 16), byte(ctr >> 8), byte(ctr), byte(i)})
		h.Write(d.Bytes())
		h.Write(digest)
		buf = h.Sum(buf)
	}
	k := new(big.Int).SetBytes(buf[:c.Size+16])
	k.Mod(k, new(big.Int).Sub(c.N, big.NewInt(1)))
	return k.Add(k, big.NewInt(1))
}

// ECDSASignWithNonce: textbook signing with the given nonce; ok=false if r or s would be 0.
func ECDSASignWithNonce(c *ECCurve, d *big.Int, digest []byte, k *big.Int) (r, s *big.Int, ok bool) {
	x, _, ok1 := c.BaseMult(k)
	if !ok1 {
		return nil, nil, false
	}
	r = x.Mod(x, c.N)
	if r.Sign() == 0 {
		return nil, nil, false
	}
	ki := new(big.Int).ModInverse(k, c.N)
	s = new(big.Int).Mul(r, d)
	s.Add(s, c.hashToInt(digest))
	s.Mul(s, ki)
	s.Mod(s, c.N)
	if s.Sign() == 0 {
		return nil, nil, false
	}
	return r, s, true
}

// ECDSASignWalk produces textbook signatures with the nonces k0, k0+1, k0+2, ... (the nonce point is
// advanced by one addition of G per step) and hands each (r, s) to visit until visit returns false or
// max nonces were tried. It only generates test inputs of particular shapes cheaply.
func ECDSASignWalk(c *ECCurve, d *big.Int, digest []byte, k0 *big.Int, max int, visit func(r, s *big.Int) bool) {
	k := new(big.Int).Mod(k0, c.N)
	g := &jac{c.Gx, c.Gy, big.NewInt(1)}
	pt := c.mulAdd(k, nil, nil, nil)
	z := c.hashToInt(digest)
	for i := 0; i < max; i++ {
		if x, y, ok := c.affine(pt); ok && k.Sign() != 0 {
			r := new(big.Int).Mod(x, c.N)
			ki := new(big.Int).ModInverse(k, c.N)
			s := new(big.Int).Mul(r, d)
			s.Add(s, z)
			s.Mul(s, ki)
			s.Mod(s, c.N)
			if r.Sign() != 0 && s.Sign() != 0 {
				if !visit(r, s) {
					return
				}
			}
			pt = &jac{x, y, big.NewInt(1)}
		}
		pt = c.add(pt, g)
		k.Add(k, big.NewInt(1))
		k.Mod(k, c.N)
	}
}

// ---------------------------------------------------------------------------------------------
// RSA (RFC 8017)

var digestInfoPrefix = map[string][]byte{
	"SHA256": {0x30, 0x31, 0x30, 0x0d, 0x06, 0x09, 0x60, 0x86, 0x48, 0x01, 0x65, 0x03, 0x04, 0x02, 0x01, 0x05, 0x00, 0x04, 0x20},
	"SHA384": {0x30, 0x41, 0x30, 0x0d, 0x06, 0x09, 0x60, 0x86, 0x48, 0x01, 0x65, 0x03, 0x04, 0x02, 0x02, 0x05, 0x00, 0x04, 0x30},
	"SHA512": {0x30, 0x51, 0x30, 0x0d, 0x06, 0x09, 0x60, 0x86, 0x48, 0x01, 0x65, 0x03, 0x04, 0x02, 0x03, 0x05, 0x00, 0x04, 0x40},
}

// HashSum hashes msg with the named hash.
func HashSum(hashName string, parts ...[]byte) []byte {
	newH, _ := Hash(hashName)
	h := newH()
	for _, p := range parts {
		h.Write(p)
	}
	return h.Sum(nil)
}

// EMSAPKCS1v15 is EMSA-PKCS1-v1_5-ENCODE (RFC 8017 9.2); nil if emLen is too short.
func EMSAPKCS1v15(hashName string, msg []byte, emLen int) []byte {
	t := append(bytes.Clone(digestInfoPrefix[hashName]), HashSum(hashName, msg)...)
	if emLen < len(t)+11 {
		return nil
	}
	em := make([]byte, 0, emLen)
	em = append(em, 0x00, 0x01)
	em = append(em, bytes.Repeat([]byte{0xff}, emLen-len(t)-3)...)
	em = append(em, 0x00)
	return append(em, t...)
}

// MGF1 (RFC 8017 B.2.1).
func MGF1(hashName string, seed []byte, n int) []byte {
	var out []byte
	for ctr := uint32(0); len(out) < n; ctr++ {
		out = append(out, HashSum(hashName, seed, []byte{byte(ctr >> 24), byte(ctr >> 16), byte(ctr >> 8), byte(ctr)})...)
	}
	return out[:n]
}

// EMSAPSSEncode (RFC 8017 9.1.1) with the given salt; nil on "encoding error".
func EMSAPSSEncode(hashName string, msg, salt []byte, emBits int) []byte {
	mHash := HashSum(hashName, msg)
	hLen := len(mHash)
	emLen := (emBits + 7) / 8
	if emLen < hLen+len(salt)+2 {
		return nil
	}
	hh := HashSum(hashName, make([]byte, 8), mHash, salt)
	db := make([]byte, emLen-hLen-1)
	db[len(db)-len(salt)-1] = 0x01
	copy(db[len(db)-len(salt):], salt)
	mask := MGF1(hashName, hh, len(db))
	for i := range db {
		db[i] ^= mask[i]
	}
	db[0] &= 0xff >> uint(8*emLen-emBits)
	return append(append(db, hh...), 0xbc)
}

// EMSAPSSVerify (RFC 8017 9.1.2) with an EXPLICIT salt length. sLen < 0 means "any salt length"
// (the 0x01 separator is searched), which is NOT what a key with a fixed salt length specifies; it is
// used only to classify findings.
func EMSAPSSVerify(hashName string, msg, em []byte, emBits, sLen int) bool {
	mHash := HashSum(hashName, msg)
	hLen := len(mHash)
	emLen := (emBits + 7) / 8
	if len(em) != emLen {
		return false
	}
	minSalt := sLen
	if sLen < 0 {
		minSalt = 0
	}
	if emLen < hLen+minSalt+2 {
		return false
	}
	if em[emLen-1] != 0xbc {
		return false
	}
	maskedDB := em[:emLen-hLen-1]
	hh := em[emLen-hLen-1 : emLen-1]
	topMask := byte(0xff >> uint(8*emLen-emBits))
	if maskedDB[0]&^topMask != 0 {
		return false
	}
	mask := MGF1(hashName, hh, len(maskedDB))
	db := make([]byte, len(maskedDB))
	for i := range db {
		db[i] = maskedDB[i] ^ mask[i]
	}
	db[0] &= topMask
	if sLen < 0 {
		i := 0
		for i < len(db) && db[i] == 0 {
			i++
		}
		if i == len(db) || db[i] != 0x01 {
			return false
		}
		sLen = len(db) - i - 1
	}
	ps := emLen - hLen - sLen - 2
	for i := 0; i < ps; i++ {
		if db[i] != 0 {
			return false
		}
	}
	if db[ps] != 0x01 {
		return false
	}
	salt := db[len(db)-sLen:]
	return bytes.Equal(hh, HashSum(hashName, make([]byte, 8), mHash, salt))
}

// RSAPub is an RSA public key; RSAPriv adds the private exponent.
type RSAPub struct {
	N *big.Int
	E int
}

func (k *RSAPub) Size() int { return (k.N.BitLen() + 7) / 8 }

// rsavp1 (RFC 8017 5.2.2) incl. the length and range checks of 8.1.2/8.2.2 step 1-2.
func (k *RSAPub) rsavp1(sig []byte) (*big.Int, bool) {
	if len(sig) != k.Size() {
		return nil, false
	}
	s := new(big.Int).SetBytes(sig)
	if s.Cmp(k.N) >= 0 {
		return nil, false
	}
	return s.Exp(s, big.NewInt(int64(k.E)), k.N), true
}

func i2osp(v *big.Int, n int) []byte {
	if v.BitLen() > 8*n {
		return nil
	}
	out := make([]byte, n)
	v.FillBytes(out)
	return out
}

// RSAVerifyPKCS1 is RSASSA-PKCS1-V1_5-VERIFY (RFC 8017 8.2.2).
func RSAVerifyPKCS1(k *RSAPub, hashName string, msg, sig []byte) bool {
	m, ok := k.rsavp1(sig)
	if !ok {
		return false
	}
	em := i2osp(m, k.Size())
	want := EMSAPKCS1v15(hashName, msg, k.Size())
	return em != nil && want != nil && bytes.Equal(em, want)
}

// RSAVerifyPSS is RSASSA-PSS-VERIFY (RFC 8017 8.1.2), MGF1 with the same hash, explicit salt length
// (sLen < 0: any, see EMSAPSSVerify).
func RSAVerifyPSS(k *RSAPub, hashName string, sLen int, msg, sig []byte) bool {
	m, ok := k.rsavp1(sig)
	if !ok {
		return false
	}
	emBits := k.N.BitLen() - 1
	em := i2osp(m, (emBits+7)/8)
	if em == nil {
		return false
	}
	return EMSAPSSVerify(hashName, msg, em, emBits, sLen)
}

// RSASignEM is RSASP1 on an encoded message (textbook s = m^d mod n), output k octets.
func RSASignEM(k *RSAPub, d *big.Int, em []byte) []byte {
	m := new(big.Int).SetBytes(em)
	if m.Cmp(k.N) >= 0 {
		return nil
	}
	return i2osp(m.Exp(m, d, k.N), k.Size())
}

// RSASignEMCRT is RSASP1 with the Chinese remainder theorem (RFC 8017 5.1.2, second form) from p, q, d;
// the result is checked with the public operation (s^e mod n == m) before it is returned. Only faster than
// RSASignEM; used for shape searches that need hundreds of signatures.
func RSASignEMCRT(k *RSAPub, d, p, q *big.Int, em []byte) []byte {
	m := new(big.Int).SetBytes(em)
	if m.Cmp(k.N) >= 0 {
		return nil
	}
	one := big.NewInt(1)
	dp := new(big.Int).Mod(d, new(big.Int).Sub(p, one))
	dq := new(big.Int).Mod(d, new(big.Int).Sub(q, one))
	qinv := new(big.Int).ModInverse(q, p)
	s1 := new(big.Int).Exp(new(big.Int).Mod(m, p), dp, p)
	s2 := new(big.Int).Exp(new(big.Int).Mod(m, q), dq, q)
	hh := new(big.Int).Sub(s1, s2)
	hh.Mul(hh, qinv)
	hh.Mod(hh, p)
	s := hh.Mul(hh, q)
	s.Add(s, s2)
	if new(big.Int).Exp(s, big.NewInt(int64(k.E)), k.N).Cmp(m) != 0 {
		return nil
	}
	return i2osp(s, k.Size())
}

// RSASignPKCS1 is the (deterministic) RSASSA-PKCS1-v1_5 signature.
func RSASignPKCS1(k *RSAPub, d *big.Int, hashName string, msg []byte) []byte {
	em := EMSAPKCS1v15(hashName, msg, k.Size())
	if em == nil {
		return nil
	}
	return RSASignEM(k, d, em)
}

// RSASignPSS signs with the given salt.
func RSASignPSS(k *RSAPub, d *big.Int, hashName string, msg, salt []byte) []byte {
	em := EMSAPSSEncode(hashName, msg, salt, k.N.BitLen()-1)
	if em == nil {
		return nil
	}
	return RSASignEM(k, d, em)
}
