// Reference models for the AEAD properties (C01/C02). Written from the specifications:
//   - AES-GCM (NIST SP 800-38D) and (X)ChaCha20-Poly1305 (RFC 8439, draft-irtf-cfrg-xchacha): the
//     stdlib / x/crypto primitives are TRUSTED components; what is decided here is the framing.
//   - AES-CTR + HMAC encrypt-then-MAC: CTR hand-rolled on the AES block function (NIST SP 800-38A,
//     128-bit big-endian counter), HMAC from ref.HMAC (RFC 2104).
//   - AES-GCM-SIV: RFC 8452, with a bit-by-bit GF(2^128) POLYVAL.
//   - XAES-256-GCM: C2SP XAES-256-GCM key derivation (one-block CMAC per SP 800-108r1 KDF in counter mode).
//   - KMS envelope framing: be32(len(encDEK)) || encDEK || payload.
// No tink code is used.
package ref

import (
	"crypto/aes"
	"crypto/cipher"
	"crypto/subtle"

	"golang.org/x/crypto/chacha20poly1305"
)

// ---------- AES-GCM (trusted stdlib) ----------

// AeadGCMSeal returns ciphertext||tag of AES-GCM (12-byte IV, 16-byte tag).
func AeadGCMSeal(key, iv, pt, ad []byte) []byte {
	c, err := aes.NewCipher(key)
	if err != nil {
		panic(err)
	}
	g, err := cipher.NewGCM(c)
	if err != nil {
		panic(err)
	}
	return g.Seal(nil, iv, pt, ad)
}

// AeadGCMOpen is the inverse of AeadGCMSeal.
func AeadGCMOpen(key, iv, body, ad []byte) ([]byte, bool) {
	c, err := aes.NewCipher(key)
	if err != nil {
		panic(err)
	}
	g, err := cipher.NewGCM(c)
	if err != nil {
		panic(err)
	}
	pt, err := g.Open(nil, iv, body, ad)
	if err != nil {
		return nil, false
	}
	return pt, true
}

// ---------- (X)ChaCha20-Poly1305 (trusted x/crypto) ----------

func aeadChaCha(key, nonce []byte) cipher.AEAD {
	var a cipher.AEAD
	var err error
	switch len(nonce) {
	case 12:
		a, err = chacha20poly1305.New(key)
	case 24:
		a, err = chacha20poly1305.NewX(key)
	default:
		panic("ref: bad chacha nonce size")
	}
	if err != nil {
		panic(err)
	}
	return a
}

// AeadChaChaSeal: nonce of 12 bytes selects ChaCha20-Poly1305, 24 bytes XChaCha20-Poly1305.
func AeadChaChaSeal(key, nonce, pt, ad []byte) []byte {
	return aeadChaCha(key, nonce).Seal(nil, nonce, pt, ad)
}

func AeadChaChaOpen(key, nonce, body, ad []byte) ([]byte, bool) {
	pt, err := aeadChaCha(key, nonce).Open(nil, nonce, body, ad)
	if err != nil {
		return nil, false
	}
	return pt, true
}

// ---------- AES-CTR + HMAC ----------

// AeadCTR is AES-CTR (SP 800-38A) with the initial counter block iv||0… (IV of 12..16 bytes padded
// on the right with zero bytes) and the standard incrementing function over all 128 bits, big endian.
func AeadCTR(key, iv, in []byte) []byte {
	c, err := aes.NewCipher(key)
	if err != nil {
		panic(err)
	}
	if len(iv) > 16 {
		panic("ref: CTR IV too long")
	}
	var ctr, ks [16]byte
	copy(ctr[:], iv)
	out := make([]byte, len(in))
	for off := 0; off < len(in); off += 16 {
		c.Encrypt(ks[:], ctr[:])
		for j := 0; j < 16 && off+j < len(in); j++ {
			out[off+j] = in[off+j] ^ ks[j]
		}
		for j := 15; j >= 0; j-- {
			ctr[j]++
			if ctr[j] != 0 {
				break
			}
		}
	}
	return out
}

func aeadBE64(n uint64) []byte {
	return []byte{byte(n >> 56), byte(n >> 48), byte(n >> 40), byte(n >> 32), byte(n >> 24), byte(n >> 16), byte(n >> 8), byte(n)}
}

// AeadCTRHMACTag = HMAC(ad || iv || ct || be64(bitlen(ad))) truncated to tagSize.
func AeadCTRHMACTag(hmacKey []byte, hash string, tagSize int, ad, ivAndCT []byte) []byte {
	m := make([]byte, 0, len(ad)+len(ivAndCT)+8)
	m = append(m, ad...)
	m = append(m, ivAndCT...)
	m = append(m, aeadBE64(uint64(len(ad))*8)...)
	return HMAC(hash, hmacKey, m)[:tagSize]
}

// AeadCTRHMACSeal returns ct||tag (the IV is not included in the result but is authenticated).
func AeadCTRHMACSeal(aesKey, hmacKey []byte, hash string, tagSize int, iv, pt, ad []byte) []byte {
	ct := AeadCTR(aesKey, iv, pt)
	ivct := append(append([]byte{}, iv...), ct...)
	return append(ct, AeadCTRHMACTag(hmacKey, hash, tagSize, ad, ivct)...)
}

// AeadCTRHMACOpen takes iv and ct||tag.
func AeadCTRHMACOpen(aesKey, hmacKey []byte, hash string, tagSize int, iv, body, ad []byte) ([]byte, bool) {
	if len(body) < tagSize {
		return nil, false
	}
	ct, tag := body[:len(body)-tagSize], body[len(body)-tagSize:]
	ivct := append(append([]byte{}, iv...), ct...)
	if subtle.ConstantTimeCompare(tag, AeadCTRHMACTag(hmacKey, hash, tagSize, ad, ivct)) != 1 {
		return nil, false
	}
	return AeadCTR(aesKey, iv, ct), true
}

// ---------- POLYVAL / AES-GCM-SIV (RFC 8452) ----------

// AeadFE is an element of GF(2^128) = GF(2)[x]/(x^128+x^127+x^126+x^121+1); bit i of Lo is the
// coefficient of x^i, bit i of Hi the coefficient of x^(64+i) (RFC 8452 section 3: the first byte holds
// x^0..x^7 with x^0 in the least significant bit).
type AeadFE struct{ Lo, Hi uint64 }

func AeadFEFromBytes(b []byte) AeadFE {
	var e AeadFE
	for i := 0; i < 8; i++ {
		e.Lo |= uint64(b[i]) << (8 * i)
		e.Hi |= uint64(b[8+i]) << (8 * i)
	}
	return e
}

func (e AeadFE) Bytes() [16]byte {
	var b [16]byte
	for i := 0; i < 8; i++ {
		b[i] = byte(e.Lo >> (8 * i))
		b[8+i] = byte(e.Hi >> (8 * i))
	}
	return b
}

// AeadPolyvalDot computes dot(a,b) = a*b*x^-128 bit by bit:
// acc <- (acc + b_i*a) * x^-1 for i = 0..127, which yields sum_i b_i*a*x^(i-128).
// Multiplication by x^-1: if the constant term is set add the field polynomial (clearing it and
// setting x^128, x^127, x^126, x^121), then divide by x.
func AeadPolyvalDot(a, b AeadFE) AeadFE {
	var acc AeadFE
	for i := 0; i < 128; i++ {
		var bit uint64
		if i < 64 {
			bit = (b.Lo >> i) & 1
		} else {
			bit = (b.Hi >> (i - 64)) & 1
		}
		if bit == 1 {
			acc.Lo ^= a.Lo
			acc.Hi ^= a.Hi
		}
		lsb := acc.Lo & 1
		acc.Lo = acc.Lo>>1 | acc.Hi<<63
		acc.Hi >>= 1
		if lsb == 1 {
			// (x^128 + x^127 + x^126 + x^121) / x = x^127 + x^126 + x^125 + x^120
			acc.Hi ^= 1<<63 | 1<<62 | 1<<61 | 1<<56
		}
	}
	return acc
}

// AeadPolyval is POLYVAL(H, X_1..X_n) where data is split into 16-byte blocks, the last one
// zero-padded: S_0 = 0, S_j = dot(S_{j-1} + X_j, H).
func AeadPolyval(h []byte, data []byte) [16]byte {
	hk := AeadFEFromBytes(h)
	var s AeadFE
	for off := 0; off < len(data); off += 16 {
		var blk [16]byte
		copy(blk[:], data[off:])
		x := AeadFEFromBytes(blk[:])
		s.Lo ^= x.Lo
		s.Hi ^= x.Hi
		s = AeadPolyvalDot(s, hk)
	}
	return s.Bytes()
}

func aeadLE32(n uint32) []byte { return []byte{byte(n), byte(n >> 8), byte(n >> 16), byte(n >> 24)} }
func aeadLE64(n uint64) []byte {
	return []byte{byte(n), byte(n >> 8), byte(n >> 16), byte(n >> 24), byte(n >> 32), byte(n >> 40), byte(n >> 48), byte(n >> 56)}
}

// AeadGCMSIVDeriveKeys is derive_keys of RFC 8452 section 4.
func AeadGCMSIVDeriveKeys(key, nonce []byte) (authKey, encKey []byte) {
	c, err := aes.NewCipher(key)
	if err != nil {
		panic(err)
	}
	if len(nonce) != 12 {
		panic("ref: GCM-SIV nonce must be 12 bytes")
	}
	blk := func(i uint32) []byte {
		in := append(aeadLE32(i), nonce...)
		out := make([]byte, 16)
		c.Encrypt(out, in)
		return out[:8]
	}
	authKey = append(append([]byte{}, blk(0)...), blk(1)...)
	encKey = append(append([]byte{}, blk(2)...), blk(3)...)
	if len(key) == 32 {
		encKey = append(append(encKey, blk(4)...), blk(5)...)
	}
	return
}

// AeadGCMSIVCTR is AES-CTR of RFC 8452: initial counter block = tag with the msb of the last byte
// set; the first 32 bits are a little-endian counter incremented modulo 2^32.
func AeadGCMSIVCTR(encKey, tag, in []byte) []byte {
	c, err := aes.NewCipher(encKey)
	if err != nil {
		panic(err)
	}
	var ctr, ks [16]byte
	copy(ctr[:], tag)
	ctr[15] |= 0x80
	out := make([]byte, len(in))
	for off := 0; off < len(in); off += 16 {
		c.Encrypt(ks[:], ctr[:])
		for j := 0; j < 16 && off+j < len(in); j++ {
			out[off+j] = in[off+j] ^ ks[j]
		}
		n := uint32(ctr[0]) | uint32(ctr[1])<<8 | uint32(ctr[2])<<16 | uint32(ctr[3])<<24
		n++
		copy(ctr[:4], aeadLE32(n))
	}
	return out
}

func aeadPad16(b []byte) []byte {
	out := append([]byte{}, b...)
	for len(out)%16 != 0 {
		out = append(out, 0)
	}
	return out
}

func aeadGCMSIVTag(authKey, encKey, nonce, pt, ad []byte) []byte {
	in := aeadPad16(ad)
	in = append(in, aeadPad16(pt)...)
	in = append(in, aeadLE64(uint64(len(ad))*8)...)
	in = append(in, aeadLE64(uint64(len(pt))*8)...)
	s := AeadPolyval(authKey, in)
	for i := 0; i < 12; i++ {
		s[i] ^= nonce[i]
	}
	s[15] &= 0x7f
	c, err := aes.NewCipher(encKey)
	if err != nil {
		panic(err)
	}
	tag := make([]byte, 16)
	c.Encrypt(tag, s[:])
	return tag
}

// AeadGCMSIVSeal returns ct||tag (RFC 8452 section 4).
func AeadGCMSIVSeal(key, nonce, pt, ad []byte) []byte {
	authKey, encKey := AeadGCMSIVDeriveKeys(key, nonce)
	tag := aeadGCMSIVTag(authKey, encKey, nonce, pt, ad)
	return append(AeadGCMSIVCTR(encKey, tag, pt), tag...)
}

// AeadGCMSIVOpen (RFC 8452 section 5).
func AeadGCMSIVOpen(key, nonce, body, ad []byte) ([]byte, bool) {
	if len(body) < 16 {
		return nil, false
	}
	authKey, encKey := AeadGCMSIVDeriveKeys(key, nonce)
	ct, tag := body[:len(body)-16], body[len(body)-16:]
	pt := AeadGCMSIVCTR(encKey, tag, ct)
	if subtle.ConstantTimeCompare(tag, aeadGCMSIVTag(authKey, encKey, nonce, pt, ad)) != 1 {
		return nil, false
	}
	return pt, true
}

// ---------- XAES-256-GCM (C2SP) ----------

// AeadXAESDeriveKey: L = AES_K(0^128); K1 = L<<1 (xor 0x87 into the last byte if msb(L)=1);
// M1 = 00 01 58 00 || N[:12], M2 = 00 02 58 00 || N[:12]; Kx = AES_K(M1^K1) || AES_K(M2^K1).
// Tink admits salts of 8..12 bytes, zero-padded on the right to 12 bytes.
func AeadXAESDeriveKey(key, salt []byte) []byte {
	if len(key) != 32 || len(salt) > 12 {
		panic("ref: XAES key/salt size")
	}
	c, err := aes.NewCipher(key)
	if err != nil {
		panic(err)
	}
	var l, k1 [16]byte
	c.Encrypt(l[:], l[:])
	var carry byte
	for i := 15; i >= 0; i-- {
		k1[i] = l[i]<<1 | carry
		carry = l[i] >> 7
	}
	if carry == 1 {
		k1[15] ^= 0x87
	}
	var out []byte
	for _, ctr := range []byte{1, 2} {
		m := [16]byte{0, ctr, 'X', 0}
		copy(m[4:], salt)
		for i := range m {
			m[i] ^= k1[i]
		}
		var o [16]byte
		c.Encrypt(o[:], m[:])
		out = append(out, o[:]...)
	}
	return out
}

// AeadXAESSeal returns ct||tag of AES-256-GCM under the derived key with the 12-byte iv.
func AeadXAESSeal(key, salt, iv, pt, ad []byte) []byte {
	return AeadGCMSeal(AeadXAESDeriveKey(key, salt), iv, pt, ad)
}

func AeadXAESOpen(key, salt, iv, body, ad []byte) ([]byte, bool) {
	return AeadGCMOpen(AeadXAESDeriveKey(key, salt), iv, body, ad)
}

// ---------- KMS envelope framing ----------

// AeadEnvelopeFrame = be32(len(encDEK)) || encDEK || payload.
func AeadEnvelopeFrame(encDEK, payload []byte) []byte {
	n := uint32(len(encDEK))
	out := []byte{byte(n >> 24), byte(n >> 16), byte(n >> 8), byte(n)}
	out = append(out, encDEK...)
	return append(out, payload...)
}

// AeadEnvelopeParse splits a framed envelope; ok=false if the length field exceeds the data.
func AeadEnvelopeParse(ct []byte) (encDEK, payload []byte, ok bool) {
	if len(ct) < 4 {
		return nil, nil, false
	}
	n := uint64(ct[0])<<24 | uint64(ct[1])<<16 | uint64(ct[2])<<8 | uint64(ct[3])
	if n > uint64(len(ct)-4) {
		return nil, nil, false
	}
	return ct[4 : 4+n], ct[4+n:], true
}
