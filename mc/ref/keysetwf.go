// Reference model for property C14 (untrusted keyset input). Written from the property statement, the
// protobuf wire-format specification and tink's .proto field numbers; it never calls tink code and does not
// use the generated proto packages: everything is read from the wire bytes with protowire.
//
//   - KSView / KeysetWellFormed: the structural rule of the statement (>=1 key, distinct IDs, exactly one
//     primary which is ENABLED, only known statuses / prefix types).
//   - ParseKeysetWire: an independent decoder of the Keyset wire format (tink.proto) into a KSView.
//   - WeakKeyReason: the "below minimum strength" predicate of the statement for a serialized key.
package ref

import (
	"fmt"
	"math/big"
	"unicode/utf8"

	"google.golang.org/protobuf/encoding/protowire"
)

// KSKey is the structural view of one Keyset.Key entry.
type KSKey struct {
	ID         uint32
	Status     int32 // 0 UNKNOWN_STATUS, 1 ENABLED, 2 DISABLED, 3 DESTROYED
	Prefix     int32 // 0 UNKNOWN_PREFIX, 1 TINK, 2 LEGACY, 3 RAW, 4 CRUNCHY, (5 WITH_ID_REQUIREMENT: not a storable prefix type)
	HasKeyData bool
	TypeURL    string
	Value      []byte
	Material   int32
}

// KSView is the structural view of a Keyset.
type KSView struct {
	Primary uint32
	Keys    []KSKey
}

func KnownStatus(s int32) bool { return s == 1 || s == 2 || s == 3 }
func KnownPrefix(p int32) bool { return p == 1 || p == 2 || p == 3 || p == 4 }

// KeysetWellFormed returns "" when the keyset satisfies the structural rule of the C14 statement, and
// otherwise the (stable) name of the first rule it breaks. Keysets with a non-empty answer must be rejected
// by every handle constructor.
func KeysetWellFormed(v *KSView) string {
	if v == nil || len(v.Keys) == 0 {
		return "empty"
	}
	seen := map[uint32]bool{}
	primaries := 0
	for _, k := range v.Keys {
		if !KnownStatus(k.Status) {
			return "unknown-status"
		}
		if !KnownPrefix(k.Prefix) {
			return "unknown-prefix"
		}
		if seen[k.ID] {
			return "duplicate-id"
		}
		seen[k.ID] = true
		if k.ID == v.Primary {
			if k.Status != 1 {
				return "primary-not-enabled"
			}
			primaries++
		}
	}
	if primaries != 1 {
		return "no-primary"
	}
	return ""
}

// MinKeysetWireLen: a well-formed keyset has at least one Key entry with a non-default status and a
// non-default prefix type: tag(2,LEN)+len + [status: 2 bytes] + [output_prefix_type: 2 bytes] = 6 bytes even
// without key data. No shorter byte string can be accepted.
const MinKeysetWireLen = 6

// ---- generic wire access -------------------------------------------------------------------------------

type wireField struct {
	num protowire.Number
	typ protowire.Type
	v   uint64 // varint / fixed
	b   []byte // LEN payload
}

// wireFields splits a message into its top-level fields. ok=false: malformed (what every conforming decoder
// rejects). undecided=true: contains a construct this small reference does not model (groups).
func wireFields(b []byte) (fs []wireField, ok bool, undecided bool) {
	for len(b) > 0 {
		num, typ, n := protowire.ConsumeTag(b)
		if n < 0 {
			return nil, false, false
		}
		if num < 1 || num > protowire.MaxValidNumber {
			return nil, false, false
		}
		b = b[n:]
		f := wireField{num: num, typ: typ}
		switch typ {
		case protowire.VarintType:
			v, m := protowire.ConsumeVarint(b)
			if m < 0 {
				return nil, false, false
			}
			f.v = v
			b = b[m:]
		case protowire.Fixed32Type:
			v, m := protowire.ConsumeFixed32(b)
			if m < 0 {
				return nil, false, false
			}
			f.v = uint64(v)
			b = b[m:]
		case protowire.Fixed64Type:
			v, m := protowire.ConsumeFixed64(b)
			if m < 0 {
				return nil, false, false
			}
			f.v = v
			b = b[m:]
		case protowire.BytesType:
			v, m := protowire.ConsumeBytes(b)
			if m < 0 {
				return nil, false, false
			}
			f.b = v
			b = b[m:]
		case protowire.StartGroupType, protowire.EndGroupType:
			return nil, true, true
		default:
			return nil, false, false
		}
		fs = append(fs, f)
	}
	return fs, true, false
}

// msgView is a decoded message: last-one-wins scalars, concatenated (= merged) embedded messages.
type msgView struct {
	varint map[protowire.Number]uint64
	bytes  map[protowire.Number][]byte   // last occurrence (bytes / string fields)
	merged map[protowire.Number][]byte   // concatenation of all occurrences (embedded message fields)
	all    map[protowire.Number][][]byte // every occurrence (repeated message fields)
}

func decodeMsg(b []byte) (*msgView, bool, bool) {
	fs, ok, und := wireFields(b)
	if !ok || und {
		return nil, ok, und
	}
	m := &msgView{varint: map[protowire.Number]uint64{}, bytes: map[protowire.Number][]byte{}, merged: map[protowire.Number][]byte{}, all: map[protowire.Number][][]byte{}}
	for _, f := range fs {
		switch f.typ {
		case protowire.VarintType:
			m.varint[f.num] = f.v
		case protowire.BytesType:
			m.bytes[f.num] = f.b
			m.merged[f.num] = append(append([]byte{}, m.merged[f.num]...), f.b...)
			m.all[f.num] = append(m.all[f.num], f.b)
		}
	}
	return m, true, false
}

func (m *msgView) has(n protowire.Number) bool { _, ok := m.bytes[n]; return ok }

// ParseKeysetWire decodes the wire form of google.crypto.tink.Keyset.
// malformed: no conforming proto3 decoder accepts the bytes. undecided: the reference does not judge.
func ParseKeysetWire(b []byte) (v *KSView, malformed bool, undecided bool) {
	top, ok, und := decodeMsg(b)
	if !ok {
		return nil, true, false
	}
	if und {
		return nil, false, true
	}
	v = &KSView{Primary: uint32(top.varint[1])}
	for _, kb := range top.all[2] {
		km, ok, und := decodeMsg(kb)
		if !ok {
			return nil, true, false
		}
		if und {
			return nil, false, true
		}
		k := KSKey{Status: int32(km.varint[2]), ID: uint32(km.varint[3]), Prefix: int32(km.varint[4])}
		if km.has(1) {
			k.HasKeyData = true
			dm, ok, und := decodeMsg(km.merged[1])
			if !ok {
				return nil, true, false
			}
			if und {
				return nil, false, true
			}
			// every occurrence must itself be well-formed, and type_url must be valid UTF-8 in proto3
			for _, occ := range km.all[1] {
				om, ok, und := decodeMsg(occ)
				if !ok {
					return nil, true, false
				}
				if und {
					return nil, false, true
				}
				for _, s := range om.all[1] {
					if !utf8.Valid(s) {
						return nil, true, false
					}
				}
			}
			k.TypeURL = string(dm.bytes[1])
			k.Value = dm.bytes[2]
			k.Material = int32(dm.varint[3])
		}
		v.Keys = append(v.Keys, k)
	}
	return v, false, false
}

// ---- weak-parameter predicate --------------------------------------------------------------------------

const tinkTypePrefix = "type.googleapis.com/google.crypto.tink."

func sub(b []byte, path ...protowire.Number) (*msgView, bool) {
	m, ok, und := decodeMsg(b)
	if !ok || und {
		return nil, false
	}
	for _, p := range path {
		m, ok, und = decodeMsg(m.merged[p])
		if !ok || und {
			return nil, false
		}
	}
	return m, true
}

func aesKeyWeak(n int) bool { return n != 16 && n != 32 }

// hash enum of common.proto: 1 SHA1, 2 SHA384, 3 SHA256, 4 SHA512, 5 SHA224 -> security bits (0: unknown)
func hashBits(h uint64) int {
	switch h {
	case 1:
		return 160
	case 5:
		return 224
	case 3:
		return 256
	case 2:
		return 384
	case 4:
		return 512
	}
	return 0
}

func rsaWeak(pub *msgView) string {
	n := new(big.Int).SetBytes(pub.bytes[3])
	e := new(big.Int).SetBytes(pub.bytes[4])
	if n.BitLen() < 2048 {
		return fmt.Sprintf("rsa-modulus-%d-bits", n.BitLen())
	}
	if e.Cmp(big.NewInt(65537)) != 0 {
		return "rsa-exponent-not-65537"
	}
	return ""
}

// WeakKeyReason returns a non-empty reason when the serialized key (type URL + value) is below one of the
// minimum strengths listed in the C14 statement: HMAC key < 16 bytes or tag < 10, AES key other than 16 / 32
// bytes, RSA modulus < 2048 bits or exponent != 65537, ECDSA hash weaker than its curve, HKDF-PRF key < 32
// bytes. Unparsable values and unknown types give "" (the predicate does not apply).
func WeakKeyReason(typeURL string, value []byte) string {
	if len(typeURL) <= len(tinkTypePrefix) || typeURL[:len(tinkTypePrefix)] != tinkTypePrefix {
		return ""
	}
	m, ok := sub(value)
	if !ok {
		return ""
	}
	hmacWeak := func(h *msgView, params protowire.Number) string {
		if len(h.bytes[3]) < 16 {
			return fmt.Sprintf("hmac-key-%d", len(h.bytes[3]))
		}
		if p, ok := sub(h.merged[params]); ok && p.varint[2] < 10 {
			return fmt.Sprintf("hmac-tag-%d", p.varint[2])
		}
		return ""
	}
	switch typeURL[len(tinkTypePrefix):] {
	case "AesGcmKey", "AesGcmSivKey", "XAesGcmKey":
		if aesKeyWeak(len(m.bytes[3])) {
			return fmt.Sprintf("aes-key-%d", len(m.bytes[3]))
		}
	case "AesCmacKey", "AesCmacPrfKey":
		if aesKeyWeak(len(m.bytes[2])) {
			return fmt.Sprintf("aes-key-%d", len(m.bytes[2]))
		}
	case "AesSivKey": // two AES keys of half the size
		n := len(m.bytes[2])
		if n%2 != 0 || aesKeyWeak(n/2) {
			return fmt.Sprintf("aes-siv-key-%d", n)
		}
	case "AesCtrHmacAeadKey":
		if c, ok := sub(m.merged[2]); ok && aesKeyWeak(len(c.bytes[3])) {
			return fmt.Sprintf("aes-key-%d", len(c.bytes[3]))
		}
		if h, ok := sub(m.merged[3]); ok {
			return hmacWeak(h, 2)
		}
	case "HmacKey":
		return hmacWeak(m, 2)
	case "HmacPrfKey", "JwtHmacKey":
		if len(m.bytes[3]) < 16 {
			return fmt.Sprintf("hmac-key-%d", len(m.bytes[3]))
		}
	case "HkdfPrfKey":
		if len(m.bytes[3]) < 32 {
			return fmt.Sprintf("hkdf-prf-key-%d", len(m.bytes[3]))
		}
	case "AesGcmHkdfStreamingKey":
		if p, ok := sub(m.merged[2]); ok && aesKeyWeak(int(uint32(p.varint[2]))) {
			return fmt.Sprintf("aes-key-%d", uint32(p.varint[2]))
		}
	case "AesCtrHmacStreamingKey":
		if p, ok := sub(m.merged[2]); ok {
			if aesKeyWeak(int(uint32(p.varint[2]))) {
				return fmt.Sprintf("aes-key-%d", uint32(p.varint[2]))
			}
			if hp, ok := sub(p.merged[4]); ok && uint32(hp.varint[2]) < 10 {
				return fmt.Sprintf("hmac-tag-%d", uint32(hp.varint[2]))
			}
		}
	case "RsaSsaPkcs1PublicKey", "RsaSsaPssPublicKey", "JwtRsaSsaPkcs1PublicKey", "JwtRsaSsaPssPublicKey":
		return rsaWeak(m)
	case "RsaSsaPkcs1PrivateKey", "RsaSsaPssPrivateKey", "JwtRsaSsaPkcs1PrivateKey", "JwtRsaSsaPssPrivateKey":
		if p, ok := sub(m.merged[2]); ok {
			return rsaWeak(p)
		}
	case "EcdsaPublicKey", "EcdsaPrivateKey":
		pub := m
		if typeURL[len(tinkTypePrefix):] == "EcdsaPrivateKey" {
			var ok bool
			if pub, ok = sub(m.merged[2]); !ok {
				return ""
			}
		}
		p, ok := sub(pub.merged[2])
		if !ok {
			return ""
		}
		need := map[uint64]int{2: 256, 3: 384, 4: 512}[p.varint[2]] // NIST_P256, NIST_P384, NIST_P521
		hb := hashBits(p.varint[1])
		if need != 0 && hb != 0 && hb < need {
			return fmt.Sprintf("ecdsa-curve%d-hash%d", need, hb)
		}
	case "CompositeMlDsaPublicKey", "CompositeMlDsaPrivateKey": // nested KeyData: ml_dsa = 2, classical = 3
		if kd, ok := sub(m.merged[3]); ok {
			return WeakKeyReason(string(kd.bytes[1]), kd.bytes[2])
		}
	case "PrfBasedDeriverKey": // nested KeyData prf_key = 2
		if kd, ok := sub(m.merged[2]); ok {
			return WeakKeyReason(string(kd.bytes[1]), kd.bytes[2])
		}
	}
	return ""
}

// WireLastBytesField returns the payload of the last LEN-typed occurrence of field num in message b.
// malformed: not a valid wire message; undecided: contains groups.
func WireLastBytesField(b []byte, num int) (val []byte, present, malformed, undecided bool) {
	m, ok, und := decodeMsg(b)
	if !ok {
		return nil, false, true, false
	}
	if und {
		return nil, false, false, true
	}
	v, has := m.bytes[protowire.Number(num)]
	return v, has, false, false
}
