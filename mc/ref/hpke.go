// HPKE base mode (RFC 9180 sections 4, 4.1, 5.1, 5.2, 7) written from the RFC text on ref.HMAC /
// ref.HKDFExpand, crypto/ecdh (the DH group operation), crypto/mlkem (ML-KEM.Decaps) and the stdlib
// AEADs. ML-KEM KEMs per draft-ietf-hpke-pq (shared secret = ML-KEM shared secret, enc = ciphertext,
// private key = 64-byte seed d||z); X-Wing per draft-connolly-cfrg-xwing-kem. No tink code.
package ref

import (
	"crypto/aes"
	"crypto/cipher"
	"crypto/ecdh"
	"crypto/mlkem"
	"crypto/sha3"
	"errors"
	"fmt"

	"golang.org/x/crypto/chacha20poly1305"
)

// HPKE algorithm identifiers (RFC 9180 section 7, IANA HPKE registry).
const (
	HPKEKemP256     uint16 = 0x0010
	HPKEKemP384     uint16 = 0x0011
	HPKEKemP521     uint16 = 0x0012
	HPKEKemX25519   uint16 = 0x0020
	HPKEKemMLKEM768 uint16 = 0x0041
	HPKEKemMLKEM1K  uint16 = 0x0042
	HPKEKemXWing    uint16 = 0x647a

	HPKEKdfSHA256 uint16 = 1
	HPKEKdfSHA384 uint16 = 2
	HPKEKdfSHA512 uint16 = 3

	HPKEAeadAES128GCM uint16 = 1
	HPKEAeadAES256GCM uint16 = 2
	HPKEAeadChaCha    uint16 = 3
)

// HPKESuite is a ciphersuite triple.
type HPKESuite struct{ KEM, KDF, AEAD uint16 }

func (s HPKESuite) String() string { return fmt.Sprintf("kem=%#04x/kdf=%d/aead=%d", s.KEM, s.KDF, s.AEAD) }

func hpkeI2OSP2(v uint16) []byte { return []byte{byte(v >> 8), byte(v)} }

func hpkeKdfHash(kdf uint16) string {
	switch kdf {
	case HPKEKdfSHA256:
		return "SHA256"
	case HPKEKdfSHA384:
		return "SHA384"
	case HPKEKdfSHA512:
		return "SHA512"
	}
	panic("ref: unknown HPKE KDF")
}

// HPKENenc is Nenc, the length of the encapsulated key.
func HPKENenc(kem uint16) int {
	switch kem {
	case HPKEKemP256:
		return 65
	case HPKEKemP384:
		return 97
	case HPKEKemP521:
		return 133
	case HPKEKemX25519:
		return 32
	case HPKEKemMLKEM768:
		return 1088
	case HPKEKemMLKEM1K:
		return 1568
	case HPKEKemXWing:
		return 1120
	}
	panic("ref: unknown HPKE KEM")
}

// HPKEAeadSizes returns Nk, Nn.
func HPKEAeadSizes(aead uint16) (int, int) {
	switch aead {
	case HPKEAeadAES128GCM:
		return 16, 12
	case HPKEAeadAES256GCM, HPKEAeadChaCha:
		return 32, 12
	}
	panic("ref: unknown HPKE AEAD")
}

// hpkeLabeledExtract: Extract(salt, "HPKE-v1" || suite_id || label || ikm)  (RFC 9180 section 4).
func hpkeLabeledExtract(hash string, suiteID, salt []byte, label string, ikm []byte) []byte {
	in := append([]byte("HPKE-v1"), suiteID...)
	in = append(in, label...)
	in = append(in, ikm...)
	if len(salt) == 0 {
		newH, _ := Hash(hash)
		salt = make([]byte, newH().Size())
	}
	return HMAC(hash, salt, in)
}

// hpkeLabeledExpand: Expand(prk, I2OSP(L,2) || "HPKE-v1" || suite_id || label || info, L).
func hpkeLabeledExpand(hash string, suiteID, prk []byte, label string, info []byte, l int) []byte {
	in := append(hpkeI2OSP2(uint16(l)), "HPKE-v1"...)
	in = append(in, suiteID...)
	in = append(in, label...)
	in = append(in, info...)
	return HKDFExpand(hash, prk, in, l)
}

type hpkeDH struct {
	curve   ecdh.Curve
	hash    string
	nsecret int
}

func hpkeDHKEM(kem uint16) (hpkeDH, bool) {
	switch kem {
	case HPKEKemP256:
		return hpkeDH{ecdh.P256(), "SHA256", 32}, true
	case HPKEKemP384:
		return hpkeDH{ecdh.P384(), "SHA384", 48}, true
	case HPKEKemP521:
		return hpkeDH{ecdh.P521(), "SHA512", 64}, true
	case HPKEKemX25519:
		return hpkeDH{ecdh.X25519(), "SHA256", 32}, true
	}
	return hpkeDH{}, false
}

// hpkeDHExtractAndExpand (RFC 9180 section 4.1): eae_prk = LabeledExtract("", "eae_prk", dh);
// shared_secret = LabeledExpand(eae_prk, "shared_secret", kem_context, Nsecret), suite_id = "KEM"||kem_id.
func hpkeDHExtractAndExpand(kem uint16, d hpkeDH, dh, kemContext []byte) []byte {
	suite := append([]byte("KEM"), hpkeI2OSP2(kem)...)
	prk := hpkeLabeledExtract(d.hash, suite, nil, "eae_prk", dh)
	return hpkeLabeledExpand(d.hash, suite, prk, "shared_secret", kemContext, d.nsecret)
}

// HPKEPublicFromPrivate returns the serialized public key pkRm for a private key in tink's /
// the RFC's serialization (NIST: big-endian scalar; X25519: 32 bytes; ML-KEM: 64-byte seed; X-Wing: 32-byte seed).
func HPKEPublicFromPrivate(kem uint16, sk []byte) ([]byte, error) {
	if d, ok := hpkeDHKEM(kem); ok {
		k, err := d.curve.NewPrivateKey(sk)
		if err != nil {
			return nil, err
		}
		return k.PublicKey().Bytes(), nil
	}
	switch kem {
	case HPKEKemMLKEM768:
		dk, err := mlkem.NewDecapsulationKey768(sk)
		if err != nil {
			return nil, err
		}
		return dk.EncapsulationKey().Bytes(), nil
	case HPKEKemMLKEM1K:
		dk, err := mlkem.NewDecapsulationKey1024(sk)
		if err != nil {
			return nil, err
		}
		return dk.EncapsulationKey().Bytes(), nil
	case HPKEKemXWing:
		seedM, skX, err := hpkeXWingExpand(sk)
		if err != nil {
			return nil, err
		}
		dk, err := mlkem.NewDecapsulationKey768(seedM)
		if err != nil {
			return nil, err
		}
		kx, err := ecdh.X25519().NewPrivateKey(skX)
		if err != nil {
			return nil, err
		}
		return append(dk.EncapsulationKey().Bytes(), kx.PublicKey().Bytes()...), nil
	}
	return nil, errors.New("ref: unknown KEM")
}

// hpkeXWingExpand: expanded = SHAKE256(sk, 96); (d||z, sk_X) = expanded[0:64], expanded[64:96].
func hpkeXWingExpand(sk []byte) (seedM, skX []byte, err error) {
	if len(sk) != 32 {
		return nil, nil, errors.New("ref: X-Wing secret key must be 32 bytes")
	}
	out := sha3.SumSHAKE256(sk, 96)
	return out[:64], out[64:], nil
}

// hpkeXWingCombine: SHA3-256(ss_M || ss_X || ct_X || pk_X || XWingLabel), XWingLabel = 5c2e2f2f5e5c.
func hpkeXWingCombine(ssM, ssX, ctX, pkX []byte) []byte {
	h := sha3.New256()
	h.Write(ssM)
	h.Write(ssX)
	h.Write(ctX)
	h.Write(pkX)
	h.Write([]byte{0x5c, 0x2e, 0x2f, 0x2f, 0x5e, 0x5c})
	return h.Sum(nil)
}

// HPKEDHSharedFromDH is ExtractAndExpand(dh, enc || pkRm) of a DHKEM for a DH value given directly
// (used to build the ciphertext an attacker can compute for a small-order X25519 enc, dh = 0).
func HPKEDHSharedFromDH(kem uint16, dh, enc, pkR []byte) []byte {
	d, ok := hpkeDHKEM(kem)
	if !ok {
		panic("ref: not a DHKEM")
	}
	return hpkeDHExtractAndExpand(kem, d, dh, append(append([]byte{}, enc...), pkR...))
}

// HPKEDecap is Decap(enc, skR): the KEM shared secret.
func HPKEDecap(kem uint16, enc, skR []byte) ([]byte, error) {
	if len(enc) != HPKENenc(kem) {
		return nil, errors.New("ref: wrong enc length")
	}
	if d, ok := hpkeDHKEM(kem); ok {
		k, err := d.curve.NewPrivateKey(skR)
		if err != nil {
			return nil, err
		}
		pkE, err := d.curve.NewPublicKey(enc)
		if err != nil {
			return nil, err
		}
		dh, err := k.ECDH(pkE)
		if err != nil {
			return nil, err
		}
		ctx := append(append([]byte{}, enc...), k.PublicKey().Bytes()...)
		return hpkeDHExtractAndExpand(kem, d, dh, ctx), nil
	}
	switch kem {
	case HPKEKemMLKEM768:
		dk, err := mlkem.NewDecapsulationKey768(skR)
		if err != nil {
			return nil, err
		}
		return dk.Decapsulate(enc)
	case HPKEKemMLKEM1K:
		dk, err := mlkem.NewDecapsulationKey1024(skR)
		if err != nil {
			return nil, err
		}
		return dk.Decapsulate(enc)
	case HPKEKemXWing:
		seedM, skX, err := hpkeXWingExpand(skR)
		if err != nil {
			return nil, err
		}
		dk, err := mlkem.NewDecapsulationKey768(seedM)
		if err != nil {
			return nil, err
		}
		ctM, ctX := enc[:1088], enc[1088:]
		ssM, err := dk.Decapsulate(ctM)
		if err != nil {
			return nil, err
		}
		kx, err := ecdh.X25519().NewPrivateKey(skX)
		if err != nil {
			return nil, err
		}
		pe, err := ecdh.X25519().NewPublicKey(ctX)
		if err != nil {
			return nil, err
		}
		ssX, err := kx.ECDH(pe)
		if err != nil {
			return nil, err
		}
		return hpkeXWingCombine(ssM, ssX, ctX, kx.PublicKey().Bytes()), nil
	}
	return nil, errors.New("ref: unknown KEM")
}

// HPKEDHEncap is the derandomised Encap(pkR) of a DHKEM with the ephemeral private key skE given.
func HPKEDHEncap(kem uint16, pkR, skE []byte) (ss, enc []byte, err error) {
	d, ok := hpkeDHKEM(kem)
	if !ok {
		return nil, nil, errors.New("ref: not a DHKEM")
	}
	e, err := d.curve.NewPrivateKey(skE)
	if err != nil {
		return nil, nil, err
	}
	pr, err := d.curve.NewPublicKey(pkR)
	if err != nil {
		return nil, nil, err
	}
	dh, err := e.ECDH(pr)
	if err != nil {
		return nil, nil, err
	}
	enc = e.PublicKey().Bytes()
	ctx := append(append([]byte{}, enc...), pkR...)
	return hpkeDHExtractAndExpand(kem, d, dh, ctx), enc, nil
}

// HPKEKeySchedule is KeySchedule(mode_base, shared_secret, info, "", "") -> key, base_nonce (RFC 9180 section 5.1).
func HPKEKeySchedule(s HPKESuite, sharedSecret, info []byte) (key, baseNonce []byte) {
	hash := hpkeKdfHash(s.KDF)
	suite := append([]byte("HPKE"), hpkeI2OSP2(s.KEM)...)
	suite = append(suite, hpkeI2OSP2(s.KDF)...)
	suite = append(suite, hpkeI2OSP2(s.AEAD)...)
	pskIDHash := hpkeLabeledExtract(hash, suite, nil, "psk_id_hash", nil)
	infoHash := hpkeLabeledExtract(hash, suite, nil, "info_hash", info)
	ksc := append([]byte{0x00}, pskIDHash...)
	ksc = append(ksc, infoHash...)
	secret := hpkeLabeledExtract(hash, suite, sharedSecret, "secret", nil)
	nk, nn := HPKEAeadSizes(s.AEAD)
	key = hpkeLabeledExpand(hash, suite, secret, "key", ksc, nk)
	baseNonce = hpkeLabeledExpand(hash, suite, secret, "base_nonce", ksc, nn)
	return
}

// HPKENonce is ComputeNonce(seq) = base_nonce xor I2OSP(seq, Nn); seq is given big-endian (any length <= Nn).
func HPKENonce(baseNonce, seqBE []byte) []byte {
	n := append([]byte{}, baseNonce...)
	for i := 0; i < len(seqBE); i++ {
		n[len(n)-1-i] ^= seqBE[len(seqBE)-1-i]
	}
	return n
}

func hpkeAEAD(aead uint16, key []byte) cipher.AEAD {
	switch aead {
	case HPKEAeadAES128GCM, HPKEAeadAES256GCM:
		b, err := aes.NewCipher(key)
		if err != nil {
			panic(err)
		}
		g, err := cipher.NewGCM(b)
		if err != nil {
			panic(err)
		}
		return g
	case HPKEAeadChaCha:
		c, err := chacha20poly1305.New(key)
		if err != nil {
			panic(err)
		}
		return c
	}
	panic("ref: unknown HPKE AEAD")
}

func HPKEAeadSeal(aead uint16, key, nonce, pt, aad []byte) []byte {
	return hpkeAEAD(aead, key).Seal(nil, nonce, pt, aad)
}

func HPKEAeadOpen(aead uint16, key, nonce, ct, aad []byte) ([]byte, error) {
	return hpkeAEAD(aead, key).Open(nil, nonce, ct, aad)
}

// HPKEOpen is the single-shot base-mode Open of enc||ct with empty aad at sequence number 0.
func HPKEOpen(s HPKESuite, skR, encCt, info []byte) ([]byte, error) {
	ne := HPKENenc(s.KEM)
	if len(encCt) < ne {
		return nil, errors.New("ref: ciphertext shorter than Nenc")
	}
	ss, err := HPKEDecap(s.KEM, encCt[:ne], skR)
	if err != nil {
		return nil, err
	}
	key, bn := HPKEKeySchedule(s, ss, info)
	pt, err := HPKEAeadOpen(s.AEAD, key, bn, encCt[ne:], nil)
	if err != nil {
		return nil, err
	}
	if pt == nil {
		pt = []byte{}
	}
	return pt, nil
}

// HPKESealDH is the single-shot base-mode Seal for a DHKEM suite with the ephemeral key given: enc||ct.
func HPKESealDH(s HPKESuite, pkR, skE, info, pt []byte) ([]byte, error) {
	ss, enc, err := HPKEDHEncap(s.KEM, pkR, skE)
	if err != nil {
		return nil, err
	}
	key, bn := HPKEKeySchedule(s, ss, info)
	return append(enc, HPKEAeadSeal(s.AEAD, key, bn, pt, nil)...), nil
}
