// Guard-buffer model of "a caller-provided byte slice" (property C19). Pure Go on unsafe/stdlib; no tink code.
//
// A caller argument of length n is modelled as a window into a larger backing array:
//
//	| GUARD (GuardLen bytes) | argument (n bytes) | spare capacity (cap-len canary bytes) | GUARD |
//
// The slice handed to the callee is backing[GuardLen : GuardLen+n : GuardLen+n+spare]: a callee that
// appends to it writes into the canary, one that indexes before/after it (through a re-slice to
// capacity) hits canary or guard. Two-argument calls can additionally be laid out ADJACENT in a single
// backing array (first then second, no gap): the spare capacity of the first argument then IS the
// second argument, which is the aliasing situation `append(data, 0)` corrupts.
//
// Memory model used by the oracles: a slice occupies the address range [SliceData, SliceData+cap);
// two slices share memory iff their ranges intersect. Zero-capacity slices occupy nothing.
package ref

import (
	"fmt"
	"unsafe"
)

const GuardLen = 24

// GuardLayout selects how the arguments of one call are placed.
type GuardLayout struct {
	Spare    int // cap-len of every argument (adjacent: of the last one in the array)
	Adjacent int // 0: each argument in its own array; 1: args[0] then args[1] in one array; 2: args[1] then args[0]
}

func (l GuardLayout) String() string {
	return fmt.Sprintf("spare=%d/%s", l.Spare, [...]string{"separate", "adjacent(0,1)", "adjacent(1,0)"}[l.Adjacent])
}

// GuardSpares is the cap-len domain of the property.
var GuardSpares = []int{0, 1, 64}

// GuardLens is the argument length domain of the property.
var GuardLens = []int{0, 1, 16, 33}

// GuardLayouts returns the layouts for a call with nargs byte-slice arguments (1 or 2; for more
// arguments only the first two can be adjacent).
func GuardLayouts(nargs int) []GuardLayout {
	var out []GuardLayout
	for _, s := range GuardSpares {
		out = append(out, GuardLayout{s, 0})
	}
	if nargs >= 2 {
		for _, s := range GuardSpares {
			out = append(out, GuardLayout{s, 1}, GuardLayout{s, 2})
		}
	}
	return out
}

// MemRange is an address range [Lo, Hi).
type MemRange struct{ Lo, Hi uintptr }

// RangeOf is the range a slice occupies over its FULL capacity.
func RangeOf(b []byte) MemRange {
	if cap(b) == 0 {
		return MemRange{}
	}
	p := uintptr(unsafe.Pointer(unsafe.SliceData(b)))
	return MemRange{p, p + uintptr(cap(b))}
}

func (r MemRange) Empty() bool { return r.Hi <= r.Lo }

// Intersects reports whether two ranges share at least one byte.
func (r MemRange) Intersects(o MemRange) bool {
	return !r.Empty() && !o.Empty() && r.Lo < o.Hi && o.Lo < r.Hi
}

// SharesMemory reports whether the two slices (full capacity) share at least one byte.
func SharesMemory(a, b []byte) bool { return RangeOf(a).Intersects(RangeOf(b)) }

type guardRegion struct {
	name   string
	lo, hi int
}

type guardArena struct {
	backing []byte
	snap    []byte
	regions []guardRegion
}

// GuardSet is the placement of the arguments of one call.
type GuardSet struct {
	Layout GuardLayout
	Args   [][]byte // what the callee receives
	arenas []*guardArena
}

func guardByte(i int) byte  { return 0xC1 ^ (byte(i*7) & 0x1e) } // never 0x00, never 0xFF
func canaryByte(i int) byte { return 0x81 | (byte(i*5) & 0x3e) } // never 0x00

func newArena(order []int, contents [][]byte, spare int, args [][]byte) *guardArena {
	n := GuardLen
	for _, i := range order {
		n += len(contents[i])
	}
	n += spare + GuardLen
	a := &guardArena{backing: make([]byte, n)}
	for i := 0; i < GuardLen; i++ {
		a.backing[i] = guardByte(i)
	}
	a.regions = append(a.regions, guardRegion{"guard-before", 0, GuardLen})
	pos := GuardLen
	starts := make([]int, len(order))
	for k, i := range order {
		starts[k] = pos
		copy(a.backing[pos:], contents[i])
		a.regions = append(a.regions, guardRegion{fmt.Sprintf("arg%d", i), pos, pos + len(contents[i])})
		pos += len(contents[i])
	}
	for i := 0; i < spare; i++ {
		a.backing[pos+i] = canaryByte(i)
	}
	a.regions = append(a.regions, guardRegion{"spare-capacity", pos, pos + spare})
	capEnd := pos + spare
	for i := 0; i < GuardLen; i++ {
		a.backing[capEnd+i] = guardByte(i + 3)
	}
	a.regions = append(a.regions, guardRegion{"guard-after", capEnd, capEnd + GuardLen})
	for k, i := range order {
		// the capacity of every argument extends to the end of the spare area (over later arguments)
		args[i] = a.backing[starts[k] : starts[k]+len(contents[i]) : capEnd]
	}
	a.snap = append([]byte(nil), a.backing...)
	return a
}

// PlaceArgs copies the contents into fresh guarded arrays according to the layout.
func PlaceArgs(l GuardLayout, contents ...[]byte) *GuardSet {
	g := &GuardSet{Layout: l, Args: make([][]byte, len(contents))}
	rest := 0
	if l.Adjacent != 0 && len(contents) >= 2 {
		order := []int{0, 1}
		if l.Adjacent == 2 {
			order = []int{1, 0}
		}
		g.arenas = append(g.arenas, newArena(order, contents, l.Spare, g.Args))
		rest = 2
	}
	for i := rest; i < len(contents); i++ {
		g.arenas = append(g.arenas, newArena([]int{i}, contents, l.Spare, g.Args))
	}
	return g
}

// Resnap makes the current contents the reference for the next comparison.
func (g *GuardSet) Resnap() {
	for _, a := range g.arenas {
		copy(a.snap, a.backing)
	}
}

// ChangedOutside is Changed restricted to the bytes that do NOT belong to the contents of argument
// idx (an output buffer such as the destination of io.Reader.Read may be written within its length only).
func (g *GuardSet) ChangedOutside(idx int) string { return g.changed(fmt.Sprintf("arg%d", idx)) }

// Changed compares every byte of every backing array (guards, arguments, spare capacity) with the
// snapshot taken at placement (or at the last Flip); "" = unchanged.
func (g *GuardSet) Changed() string { return g.changed("") }

func (g *GuardSet) changed(except string) string {
	for _, a := range g.arenas {
		for i := range a.backing {
			if a.backing[i] != a.snap[i] {
				where, name := "?", ""
				for _, r := range a.regions {
					if i >= r.lo && i < r.hi {
						where, name = fmt.Sprintf("%s[%d]", r.name, i-r.lo), r.name
					}
				}
				if except != "" && name == except {
					continue
				}
				return fmt.Sprintf("%s: %#02x -> %#02x (layout %v)", where, a.snap[i], a.backing[i], g.Layout)
			}
		}
	}
	return ""
}

// Ranges returns the full backing arrays.
func (g *GuardSet) Ranges() []MemRange {
	out := make([]MemRange, len(g.arenas))
	for i, a := range g.arenas {
		out[i] = RangeOf(a.backing)
	}
	return out
}

// Shares reports whether b (full capacity) shares memory with any backing array of the set.
func (g *GuardSet) Shares(b []byte) bool {
	r := RangeOf(b)
	for _, a := range g.arenas {
		if r.Intersects(RangeOf(a.backing)) {
			return true
		}
	}
	return false
}

// Flip overwrites every byte of every backing array with its complement ("the caller reuses its
// buffers") and re-snapshots.
func (g *GuardSet) Flip() {
	for _, a := range g.arenas {
		FlipBytes(a.backing)
		copy(a.snap, a.backing)
	}
}

// FlipBytes complements every byte of b over its full capacity.
func FlipBytes(b []byte) {
	b = b[:cap(b)]
	for i := range b {
		b[i] ^= 0xff
	}
}

// GuardText returns n printable non-zero bytes (distinct streams per tag).
func GuardText(tag byte, n int) []byte {
	out := make([]byte, n)
	for i := range out {
		out[i] = 0x21 + (tag*13+byte(i)*3)%0x5d
	}
	return out
}
