package ref

// Key SELECTION model of keyset-backed primitives (property C05). Plain Go, no tink code:
// a keyset is a list of entries; the model says which key PRODUCES an output (the primary), which
// outputs a keyset ACCEPTS (those made by a key that equals some ENABLED entry in key type, key
// material and output framing) and which key id a monitoring event must name.
//
// "Material" is an abstract index: two keys have the same material iff (Type, Mat) are equal.
// Whether an output is cryptographically valid under a key is NOT modelled here (other properties
// verify the primitives); the model only relates makers of outputs to keyset entries.

import (
	"encoding/base64"
	"encoding/binary"
)

const (
	SelEnabled   = 1
	SelDisabled  = 2
	SelDestroyed = 3
)

// SelRule is the framing discipline of a primitive class.
type SelRule int

const (
	// SelPrefixRule: output = prefix(variant,id) || raw output; LEGACY == CRUNCHY (AEAD, DAEAD, hybrid).
	SelPrefixRule SelRule = iota
	// SelPrefixLegacyRule: as above, and LEGACY keys authenticate message||0x00 (MAC, signatures).
	SelPrefixLegacyRule
	// SelKidRule: JWT; the `kid` header plays the role of the prefix.
	SelKidRule
	// SelNoFramingRule: no framing at all, every enabled key is tried (streaming AEAD).
	SelNoFramingRule
)

// JWT kid modes of a key.
const (
	SelKidNone   = 0 // not a JWT key
	SelKidTink   = 1 // kid = base64url(be32(id)), required on verification
	SelKidCustom = 2 // kid = CustomKid written; on verification compared only if the token has a kid
	SelKidIgnore = 3 // no kid written; kid ignored on verification
)

// SelKey is a key seen as a maker / checker of outputs.
type SelKey struct {
	Type      string  // key type (algorithm + parameters); keys of different types never interoperate
	Variant   Variant // TINK / CRUNCHY / LEGACY / RAW
	ID        uint32  // key id (of the keyset entry; irrelevant for the framing of RAW keys)
	Mat       int     // abstract key material index
	KidMode   int
	CustomKid string
}

// SelEntry is a keyset entry.
type SelEntry struct {
	SelKey
	Status  int
	Primary bool
}

// SelPrimary returns the entry flagged primary (a well-formed keyset has exactly one, ENABLED).
func SelPrimary(ks []SelEntry) (SelEntry, bool) {
	for _, e := range ks {
		if e.Primary {
			return e, e.Status == SelEnabled
		}
	}
	return SelEntry{}, false
}

// SelPrefix is the byte prefix outputs of k carry under the prefix rules.
func SelPrefix(k SelKey) []byte { return Prefix(k.Variant, k.ID) }

// SelTokenKid is the kid header a JWT made by k carries.
func SelTokenKid(k SelKey) (string, bool) {
	switch k.KidMode {
	case SelKidTink:
		var b [4]byte
		binary.BigEndian.PutUint32(b[:], k.ID)
		return base64.RawURLEncoding.EncodeToString(b[:]), true
	case SelKidCustom:
		return k.CustomKid, true
	}
	return "", false
}

func sameBytes(a, b []byte) bool {
	if len(a) != len(b) {
		return false
	}
	for i := range a {
		if a[i] != b[i] {
			return false
		}
	}
	return true
}

// SelMatches: does a (hypothetically enabled) entry key e accept an output made by key k?
func SelMatches(rule SelRule, e, k SelKey) bool {
	if e.Type != k.Type || e.Mat != k.Mat {
		return false
	}
	switch rule {
	case SelNoFramingRule:
		return true
	case SelPrefixRule:
		return sameBytes(SelPrefix(e), SelPrefix(k))
	case SelPrefixLegacyRule:
		return sameBytes(SelPrefix(e), SelPrefix(k)) && (e.Variant == Legacy) == (k.Variant == Legacy)
	case SelKidRule:
		kid, has := SelTokenKid(k)
		switch e.KidMode {
		case SelKidTink:
			want, _ := SelTokenKid(e)
			return has && kid == want
		case SelKidCustom:
			return !has || kid == e.CustomKid
		case SelKidIgnore:
			return true
		}
	}
	return false
}

// SelAcceptors returns the ids of the ENABLED entries that accept an output made by k, in the
// keyset's order. The keyset accepts the output iff the list is non-empty, and a monitoring
// success event must name one of these ids.
func SelAcceptors(rule SelRule, ks []SelEntry, k SelKey) []uint32 {
	var ids []uint32
	for _, e := range ks {
		if e.Status == SelEnabled && SelMatches(rule, e.SelKey, k) {
			ids = append(ids, e.ID)
		}
	}
	return ids
}

// SelPRFSet: the PRF set of a keyset is keyed by the ids of exactly the ENABLED entries.
func SelPRFSet(ks []SelEntry) (primary uint32, ids []uint32) {
	for _, e := range ks {
		if e.Status == SelEnabled {
			ids = append(ids, e.ID)
		}
		if e.Primary {
			primary = e.ID
		}
	}
	return
}
