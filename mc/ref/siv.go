package ref

// AES-SIV-CMAC per RFC 5297, written from the RFC text on the bare AES block function and
// ref.CMAC (RFC 4493). No tink code. Used by C08.
//
//	S2V(K, S1..Sn)   section 2.4
//	SIV-ENCRYPT / SIV-DECRYPT   sections 2.6 / 2.7
//
// Tink's DeterministicAEAD passes exactly ONE associated-data component (possibly empty) followed by
// the plaintext, and its keys are 64 bytes (K1 = first 32 bytes for S2V, K2 = last 32 for CTR).

import (
	"bytes"
	"crypto/aes"
	"encoding/hex"
	"fmt"
)

// SIVS2V is S2V(K, S1, ..., Sn) of RFC 5297 section 2.4. comps are S1..Sn (n may be 0).
func SIVS2V(macKey []byte, comps [][]byte) []byte {
	if len(comps) == 0 {
		one := make([]byte, 16)
		one[15] = 1
		return CMAC(macKey, one)
	}
	d := CMAC(macKey, make([]byte, 16))
	for i := 0; i < len(comps)-1; i++ {
		d = sivXor(dbl(d), CMAC(macKey, comps[i]))
	}
	sn := comps[len(comps)-1]
	var t []byte
	if len(sn) >= 16 {
		// T = Sn xorend D : the rightmost 16 bytes of Sn are xored with D
		t = bytes.Clone(sn)
		off := len(sn) - 16
		for i := 0; i < 16; i++ {
			t[off+i] ^= d[i]
		}
	} else {
		// T = dbl(D) xor pad(Sn) ; pad = Sn || 0x80 || 00..
		p := make([]byte, 16)
		copy(p, sn)
		p[len(sn)] = 0x80
		t = sivXor(dbl(d), p)
	}
	return CMAC(macKey, t)
}

func sivXor(a, b []byte) []byte {
	out := make([]byte, 16)
	for i := range out {
		out[i] = a[i] ^ b[i]
	}
	return out
}

// sivCTR is CTR mode (SP 800-38A) with the 128-bit big-endian counter starting at q.
func sivCTR(encKey []byte, q []byte, in []byte) []byte {
	c, err := aes.NewCipher(encKey)
	if err != nil {
		panic(err)
	}
	ctr := bytes.Clone(q)
	out := make([]byte, len(in))
	ks := make([]byte, 16)
	for off := 0; off < len(in); off += 16 {
		c.Encrypt(ks, ctr)
		for i := 0; i < 16 && off+i < len(in); i++ {
			out[off+i] = in[off+i] ^ ks[i]
		}
		for i := 15; i >= 0; i-- {
			ctr[i]++
			if ctr[i] != 0 {
				break
			}
		}
	}
	return out
}

func sivSplit(key []byte) (k1, k2 []byte) {
	if len(key) != 32 && len(key) != 48 && len(key) != 64 {
		panic(fmt.Sprintf("ref: AES-SIV key of %d bytes", len(key)))
	}
	return key[:len(key)/2], key[len(key)/2:]
}

func sivQ(v []byte) []byte {
	// Q = V bitand (1^64 || 0^1 || 1^31 || 0^1 || 1^31)
	q := bytes.Clone(v)
	q[8] &= 0x7f
	q[12] &= 0x7f
	return q
}

// SIVEncrypt is SIV-ENCRYPT(K, P, AD1..ADn) = V || C (RFC 5297 section 2.6).
func SIVEncrypt(key, pt []byte, ads ...[]byte) []byte {
	k1, k2 := sivSplit(key)
	comps := append(append([][]byte{}, ads...), pt)
	v := SIVS2V(k1, comps)
	return append(bytes.Clone(v), sivCTR(k2, sivQ(v), pt)...)
}

// SIVDecrypt is SIV-DECRYPT (section 2.7); ok=false is FAIL.
func SIVDecrypt(key, ct []byte, ads ...[]byte) (pt []byte, ok bool) {
	if len(ct) < 16 {
		return nil, false
	}
	k1, k2 := sivSplit(key)
	v := ct[:16]
	p := sivCTR(k2, sivQ(v), ct[16:])
	comps := append(append([][]byte{}, ads...), p)
	t := SIVS2V(k1, comps)
	if !bytes.Equal(t, v) {
		return nil, false
	}
	return p, true
}

func mustHex(s string) []byte {
	b, err := hex.DecodeString(s)
	if err != nil {
		panic(err)
	}
	return b
}

// SIVSelfTest checks the reference against the two test vectors of RFC 5297 appendix A.
func SIVSelfTest() error {
	// A.1 deterministic authenticated encryption
	k := mustHex("fffefdfcfbfaf9f8f7f6f5f4f3f2f1f0f0f1f2f3f4f5f6f7f8f9fafbfcfdfeff")
	ad := mustHex("101112131415161718191a1b1c1d1e1f2021222324252627")
	pt := mustHex("112233445566778899aabbccddee")
	want := mustHex("85632d07c6e8f37f950acd320a2ecc9340c02b9690c4dc04daef7f6afe5c")
	if got := SIVEncrypt(k, pt, ad); !bytes.Equal(got, want) {
		return fmt.Errorf("ref SIV: RFC 5297 A.1 mismatch: %x", got)
	}
	if p, ok := SIVDecrypt(k, want, ad); !ok || !bytes.Equal(p, pt) {
		return fmt.Errorf("ref SIV: RFC 5297 A.1 decrypt failed")
	}
	// A.2 nonce-based authenticated encryption (three components, plaintext > 16 bytes: xorend branch)
	k = mustHex("7f7e7d7c7b7a79787776757473727170404142434445464748494a4b4c4d4e4f")
	ad1 := mustHex("00112233445566778899aabbccddeeffdeaddadadeaddadaffeeddccbbaa99887766554433221100")
	ad2 := mustHex("102030405060708090a0")
	nonce := mustHex("09f911029d74e35bd84156c5635688c0")
	pt = mustHex("7468697320697320736f6d6520706c61696e7465787420746f20656e6372797074207573696e67205349562d414553")
	want = mustHex("7bdb6e3b432667eb06f4d14bff2fbd0fcb900f2fddbe404326601965c889bf17dba77ceb094fa663b7a3f748ba8af829ea64ad544a272e9c485b62a3fd5c0d")
	if got := SIVEncrypt(k, pt, ad1, ad2, nonce); !bytes.Equal(got, want) {
		return fmt.Errorf("ref SIV: RFC 5297 A.2 mismatch: %x", got)
	}
	if p, ok := SIVDecrypt(k, want, ad1, ad2, nonce); !ok || !bytes.Equal(p, pt) {
		return fmt.Errorf("ref SIV: RFC 5297 A.2 decrypt failed")
	}
	want[20] ^= 1
	if _, ok := SIVDecrypt(k, want, ad1, ad2, nonce); ok {
		return fmt.Errorf("ref SIV: modified ciphertext accepted")
	}
	return nil
}

// SIVCTR is the CTR step of SIV-ENCRYPT for a given V: Q = V with bits 31 and 63 cleared, then CTR(K2, Q, in).
func SIVCTR(encKey, v, in []byte) []byte { return sivCTR(encKey, sivQ(v), in) }
