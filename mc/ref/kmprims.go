package ref

// RAW (prefix-less) primitives a CUSTOM KEY MANAGER may hand to tink's factories (sections keymanager-answers of
// C05 and C14). Written on the Go standard library only; the method sets match tink's primitive interfaces
// structurally (no tink import). Every method works on a NIL RECEIVER and then returns ErrKMNilPrimitive: a typed
// nil pointer of one of these types is an odd-but-legal answer of a key manager - a primitive that is present as
// far as the interface value is concerned and refuses every operation without panicking by itself.
//
// The primitives only read their inputs and return fresh slices.

import (
	"bytes"
	"crypto/aes"
	"crypto/cipher"
	"crypto/ecdh"
	"crypto/ed25519"
	"crypto/hkdf"
	"crypto/hmac"
	"crypto/rand"
	"crypto/sha256"
	"crypto/subtle"
	"errors"
	"io"
)

// ErrKMNilPrimitive is what the methods of a typed nil primitive return.
var ErrKMNilPrimitive = errors.New("custom key manager primitive: nil receiver")

var errKMInvalid = errors.New("custom key manager primitive: invalid input")

func kmMAC(k []byte, parts ...[]byte) []byte {
	m := hmac.New(sha256.New, k)
	for _, p := range parts {
		l := len(p)
		m.Write([]byte{byte(l >> 24), byte(l >> 16), byte(l >> 8), byte(l)})
		m.Write(p)
	}
	return m.Sum(nil)
}

func kmGCM(k []byte) cipher.AEAD {
	b, err := aes.NewCipher(kmMAC(k, []byte("gcm-key"))[:16])
	if err != nil {
		panic(err)
	}
	g, err := cipher.NewGCM(b)
	if err != nil {
		panic(err)
	}
	return g
}

func kmSeal(g cipher.AEAD, pt, ad []byte) ([]byte, error) {
	nonce := make([]byte, 12)
	if _, err := rand.Read(nonce); err != nil {
		return nil, err
	}
	return g.Seal(bytes.Clone(nonce), nonce, pt, ad), nil
}

func kmOpen(g cipher.AEAD, ct, ad []byte) ([]byte, error) {
	if len(ct) < 28 {
		return nil, errKMInvalid
	}
	pt, err := g.Open(nil, ct[:12], ct[12:], ad)
	if err != nil {
		return nil, errKMInvalid
	}
	if pt == nil {
		pt = []byte{}
	}
	return pt, nil
}

// ---- MAC -------------------------------------------------------------------------------------------------

type KMMac struct{ K []byte }

func (r *KMMac) ComputeMAC(data []byte) ([]byte, error) {
	if r == nil {
		return nil, ErrKMNilPrimitive
	}
	return kmMAC(r.K, []byte("mac"), data)[:16], nil
}

func (r *KMMac) VerifyMAC(mac, data []byte) error {
	if r == nil {
		return ErrKMNilPrimitive
	}
	if subtle.ConstantTimeCompare(mac, kmMAC(r.K, []byte("mac"), data)[:16]) != 1 {
		return errKMInvalid
	}
	return nil
}

// ---- PRF -------------------------------------------------------------------------------------------------

type KMPrf struct{ K []byte }

func (r *KMPrf) ComputePRF(input []byte, n uint32) ([]byte, error) {
	if r == nil {
		return nil, ErrKMNilPrimitive
	}
	if n > 32 {
		return nil, errKMInvalid
	}
	return kmMAC(r.K, []byte("prf"), input)[:n], nil
}

// ---- AEAD ------------------------------------------------------------------------------------------------

type KMAead struct{ K []byte }

func (r *KMAead) Encrypt(pt, ad []byte) ([]byte, error) {
	if r == nil {
		return nil, ErrKMNilPrimitive
	}
	return kmSeal(kmGCM(r.K), pt, ad)
}

func (r *KMAead) Decrypt(ct, ad []byte) ([]byte, error) {
	if r == nil {
		return nil, ErrKMNilPrimitive
	}
	return kmOpen(kmGCM(r.K), ct, ad)
}

// ---- deterministic AEAD (SIV-shaped: tag = MAC(ad, pt), body = pt XOR stream(tag)) --------------------------

type KMDaead struct{ K []byte }

func (r *KMDaead) stream(tag []byte, n int) []byte {
	out := make([]byte, 0, n+32)
	for c := 0; len(out) < n; c++ {
		out = append(out, kmMAC(r.K, []byte("daead-stream"), tag, []byte{byte(c >> 8), byte(c)})...)
	}
	return out[:n]
}

func (r *KMDaead) EncryptDeterministically(pt, ad []byte) ([]byte, error) {
	if r == nil {
		return nil, ErrKMNilPrimitive
	}
	tag := kmMAC(r.K, []byte("daead-tag"), ad, pt)[:16]
	s := r.stream(tag, len(pt))
	out := make([]byte, 16+len(pt))
	copy(out, tag)
	for i := range pt {
		out[16+i] = pt[i] ^ s[i]
	}
	return out, nil
}

func (r *KMDaead) DecryptDeterministically(ct, ad []byte) ([]byte, error) {
	if r == nil {
		return nil, ErrKMNilPrimitive
	}
	if len(ct) < 16 {
		return nil, errKMInvalid
	}
	tag, body := ct[:16], ct[16:]
	s := r.stream(tag, len(body))
	pt := make([]byte, len(body))
	for i := range body {
		pt[i] = body[i] ^ s[i]
	}
	if subtle.ConstantTimeCompare(tag, kmMAC(r.K, []byte("daead-tag"), ad, pt)[:16]) != 1 {
		return nil, errKMInvalid
	}
	return pt, nil
}

// ---- signatures (Ed25519, seed = first 32 bytes of MAC(K)) ---------------------------------------------------

func kmEdKey(k []byte) ed25519.PrivateKey {
	return ed25519.NewKeyFromSeed(kmMAC(k, []byte("ed25519-seed"))[:32])
}

type KMSigner struct{ K []byte }

func (r *KMSigner) Sign(data []byte) ([]byte, error) {
	if r == nil {
		return nil, ErrKMNilPrimitive
	}
	return ed25519.Sign(kmEdKey(r.K), data), nil
}

type KMVerifier struct{ K []byte }

func (r *KMVerifier) Verify(sig, data []byte) error {
	if r == nil {
		return ErrKMNilPrimitive
	}
	if !ed25519.Verify(kmEdKey(r.K).Public().(ed25519.PublicKey), data, sig) {
		return errKMInvalid
	}
	return nil
}

// ---- hybrid encryption (X25519 ephemeral-static, HKDF-SHA256 over the shared secret with the context info,
// AES-GCM): ciphertext = ephemeral public key (32) || nonce (12) || AES-GCM ------------------------------------

func kmXKey(k []byte) *ecdh.PrivateKey {
	p, err := ecdh.X25519().NewPrivateKey(kmMAC(k, []byte("x25519-key"))[:32])
	if err != nil {
		panic(err)
	}
	return p
}

func kmHybridGCM(shared, eph, info []byte) (cipher.AEAD, error) {
	key, err := hkdf.Key(sha256.New, shared, eph, string(info), 16)
	if err != nil {
		return nil, err
	}
	b, err := aes.NewCipher(key)
	if err != nil {
		return nil, err
	}
	return cipher.NewGCM(b)
}

type KMHybridEncrypt struct{ K []byte }

func (r *KMHybridEncrypt) Encrypt(pt, info []byte) ([]byte, error) {
	if r == nil {
		return nil, ErrKMNilPrimitive
	}
	eph, err := ecdh.X25519().GenerateKey(rand.Reader)
	if err != nil {
		return nil, err
	}
	shared, err := eph.ECDH(kmXKey(r.K).PublicKey())
	if err != nil {
		return nil, err
	}
	g, err := kmHybridGCM(shared, eph.PublicKey().Bytes(), info)
	if err != nil {
		return nil, err
	}
	body, err := kmSeal(g, pt, nil)
	if err != nil {
		return nil, err
	}
	return append(eph.PublicKey().Bytes(), body...), nil
}

type KMHybridDecrypt struct{ K []byte }

func (r *KMHybridDecrypt) Decrypt(ct, info []byte) ([]byte, error) {
	if r == nil {
		return nil, ErrKMNilPrimitive
	}
	if len(ct) < 32+28 {
		return nil, errKMInvalid
	}
	pub, err := ecdh.X25519().NewPublicKey(ct[:32])
	if err != nil {
		return nil, errKMInvalid
	}
	shared, err := kmXKey(r.K).ECDH(pub)
	if err != nil {
		return nil, errKMInvalid
	}
	g, err := kmHybridGCM(shared, ct[:32], info)
	if err != nil {
		return nil, errKMInvalid
	}
	return kmOpen(g, ct[32:], nil)
}

// ---- streaming AEAD (one-shot: the writer buffers and emits magic || nonce || AES-GCM on Close; the reader
// decrypts everything on its first Read, also an empty one) --------------------------------------------------------

var kmStreamMagic = []byte("KMS1")

type KMStream struct{ K []byte }

type kmStreamWriter struct {
	g      cipher.AEAD
	w      io.Writer
	ad     []byte
	buf    []byte
	closed bool
}

func (w *kmStreamWriter) Write(p []byte) (int, error) {
	if w.closed {
		return 0, errors.New("custom key manager stream: write after close")
	}
	w.buf = append(w.buf, p...)
	return len(p), nil
}

func (w *kmStreamWriter) Close() error {
	if w.closed {
		return nil
	}
	w.closed = true
	body, err := kmSeal(w.g, w.buf, w.ad)
	if err != nil {
		return err
	}
	_, err = w.w.Write(append(bytes.Clone(kmStreamMagic), body...))
	return err
}

type kmStreamReader struct {
	g    cipher.AEAD
	r    io.Reader
	ad   []byte
	pt   []byte
	done bool
	err  error
}

func (r *kmStreamReader) Read(p []byte) (int, error) {
	if !r.done {
		r.done = true
		all, err := io.ReadAll(r.r)
		if err != nil {
			r.err = err
		} else if !bytes.HasPrefix(all, kmStreamMagic) {
			r.err = errKMInvalid
		} else {
			r.pt, r.err = kmOpen(r.g, all[len(kmStreamMagic):], r.ad)
		}
	}
	if r.err != nil {
		return 0, r.err
	}
	if len(p) == 0 {
		return 0, nil
	}
	if len(r.pt) == 0 {
		return 0, io.EOF
	}
	n := copy(p, r.pt)
	r.pt = r.pt[n:]
	return n, nil
}

func (r *KMStream) NewEncryptingWriter(w io.Writer, ad []byte) (io.WriteCloser, error) {
	if r == nil {
		return nil, ErrKMNilPrimitive
	}
	return &kmStreamWriter{g: kmGCM(r.K), w: w, ad: bytes.Clone(ad)}, nil
}

func (r *KMStream) NewDecryptingReader(rd io.Reader, ad []byte) (io.Reader, error) {
	if r == nil {
		return nil, ErrKMNilPrimitive
	}
	return &kmStreamReader{g: kmGCM(r.K), r: rd, ad: bytes.Clone(ad)}, nil
}
