// Package ref holds the reference models (oracles). They are written from the RFCs / FIPS
// documents on bare block-cipher / hash primitives of the Go standard library and share no
// code with tink-go.
package ref

import (
	"crypto/aes"
	"crypto/sha1"
	"crypto/sha256"
	"crypto/sha512"
	"hash"
)

// Variant of a Tink key: how outputs are prefixed.
type Variant int

const (
	Tink Variant = iota
	Crunchy
	Legacy
	Raw
)

func (v Variant) String() string { return [...]string{"TINK", "CRUNCHY", "LEGACY", "RAW"}[v] }

// Prefix is the Tink output prefix: TINK 0x01||be32(id); CRUNCHY and LEGACY 0x00||be32(id); RAW empty.
func Prefix(v Variant, id uint32) []byte {
	switch v {
	case Tink:
		return []byte{1, byte(id >> 24), byte(id >> 16), byte(id >> 8), byte(id)}
	case Crunchy, Legacy:
		return []byte{0, byte(id >> 24), byte(id >> 16), byte(id >> 8), byte(id)}
	}
	return []byte{}
}

// Pattern returns n position-determined bytes. kind: 0 all-00, 1 all-FF, 2 counter, 3 0xA5^i.
func Pattern(kind, n int) []byte {
	b := make([]byte, n)
	for i := range b {
		switch kind {
		case 0:
		case 1:
			b[i] = 0xff
		case 2:
			b[i] = byte(i)
		default:
			b[i] = byte(0xa5 ^ i ^ (i >> 8 * 7))
		}
	}
	return b
}

// KeyBytes returns deterministic pseudo-random key material for (label, n): SHA-256 in counter mode.
func KeyBytes(label string, n int) []byte {
	var out []byte
	for ctr := 0; len(out) < n; ctr++ {
		h := sha256.Sum256([]byte(label + "#" + string(rune('A'+ctr%26)) + string(rune('a'+ctr/26))))
		out = append(out, h[:]...)
	}
	return out[:n]
}

// Hash returns the named hash constructor and its block size.
func Hash(name string) (func() hash.Hash, int) {
	switch name {
	case "SHA1":
		return sha1.New, 64
	case "SHA224":
		return sha256.New224, 64
	case "SHA256":
		return sha256.New, 64
	case "SHA384":
		return sha512.New384, 128
	case "SHA512":
		return sha512.New, 128
	}
	panic("ref: unknown hash " + name)
}

// HMAC per RFC 2104, from the bare hash function.
func HMAC(hashName string, key, msg []byte) []byte {
	newH, bs := Hash(hashName)
	k := make([]byte, bs)
	if len(key) > bs {
		h := newH()
		h.Write(key)
		copy(k, h.Sum(nil))
	} else {
		copy(k, key)
	}
	ipad := make([]byte, bs)
	opad := make([]byte, bs)
	for i := range k {
		ipad[i] = k[i] ^ 0x36
		opad[i] = k[i] ^ 0x5c
	}
	h := newH()
	h.Write(ipad)
	h.Write(msg)
	inner := h.Sum(nil)
	h = newH()
	h.Write(opad)
	h.Write(inner)
	return h.Sum(nil)
}

// HKDF per RFC 5869 (extract-then-expand) on ref.HMAC. Returns nil if n > 255*hLen.
func HKDF(hashName string, ikm, salt, info []byte, n int) []byte {
	newH, _ := Hash(hashName)
	hl := newH().Size()
	if n > 255*hl {
		return nil
	}
	if len(salt) == 0 {
		salt = make([]byte, hl)
	}
	prk := HMAC(hashName, salt, ikm)
	return HKDFExpand(hashName, prk, info, n)
}

func HKDFExpand(hashName string, prk, info []byte, n int) []byte {
	var t, okm []byte
	for i := 1; len(okm) < n; i++ {
		in := append(append(append([]byte{}, t...), info...), byte(i))
		t = HMAC(hashName, prk, in)
		okm = append(okm, t...)
	}
	return okm[:n]
}

func dbl(b []byte) []byte {
	out := make([]byte, 16)
	var carry byte
	for i := 15; i >= 0; i-- {
		out[i] = b[i]<<1 | carry
		carry = b[i] >> 7
	}
	if carry == 1 {
		out[15] ^= 0x87
	}
	return out
}

// CMAC per RFC 4493 (AES-128/192/256).
func CMAC(key, msg []byte) []byte {
	c, err := aes.NewCipher(key)
	if err != nil {
		panic(err)
	}
	l := make([]byte, 16)
	c.Encrypt(l, l)
	k1 := dbl(l)
	k2 := dbl(k1)
	n := (len(msg) + 15) / 16
	complete := n > 0 && len(msg)%16 == 0
	if n == 0 {
		n = 1
	}
	last := make([]byte, 16)
	if complete {
		copy(last, msg[16*(n-1):])
		for i := range last {
			last[i] ^= k1[i]
		}
	} else {
		rem := msg[16*(n-1):]
		copy(last, rem)
		last[len(rem)] = 0x80
		for i := range last {
			last[i] ^= k2[i]
		}
	}
	x := make([]byte, 16)
	for i := 0; i < n-1; i++ {
		for j := 0; j < 16; j++ {
			x[j] ^= msg[16*i+j]
		}
		c.Encrypt(x, x)
	}
	for j := 0; j < 16; j++ {
		x[j] ^= last[j]
	}
	c.Encrypt(x, x)
	return x
}

// CMACSubkeyMSBs reports msb(L) and msb(K1) for an AES key (branch coverage of the doubling).
func CMACSubkeyMSBs(key []byte) (bool, bool) {
	c, _ := aes.NewCipher(key)
	l := make([]byte, 16)
	c.Encrypt(l, l)
	k1 := dbl(l)
	return l[0]&0x80 != 0, k1[0]&0x80 != 0
}

// LongLengths returns length classes beyond the dense range: a window of +-w around every power of two from
// 2^10 to 2^maxPow, plus a few lengths that are not close to any power of two. Batched / chunked processing
// bugs select such classes (e.g. "wrong for inputs of 2049 bytes or more"), so every check whose subject loops
// over blocks adds these to its dense 0..N sweep.
func LongLengths(maxPow, w int) []int {
	var out []int
	for p := 10; p <= maxPow; p++ {
		for d := -w; d <= w; d++ {
			out = append(out, (1<<p)+d)
		}
	}
	for _, n := range []int{1500, 3000, 5000, 10007, 33333, 70001} {
		if n < 1<<(maxPow+1) {
			out = append(out, n)
		}
	}
	return out
}
