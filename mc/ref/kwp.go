package ref

// AES key wrap with padding (KWP) per RFC 5649 / NIST SP 800-38F, written from the RFC text on the
// bare AES block function (the wrapping process W is that of RFC 3394 section 2.2.1 with the
// alternative initial value of RFC 5649 section 3). No tink code. Used by C08.
//
// Besides Wrap / Unwrap the file exposes W itself (KWPApplyW) so that a harness can CRAFT wrappings
// of malformed inner blocks (wrong AIV constant, wrong length field, non-zero padding).

import (
	"bytes"
	"crypto/aes"
	"crypto/cipher"
	"encoding/binary"
	"fmt"
)

// KWPAIVPrefix is the constant upper half of the alternative initial value (RFC 5649 section 3).
var KWPAIVPrefix = [4]byte{0xA6, 0x59, 0x59, 0xA6}

func kwpCipher(kek []byte) cipher.Block {
	c, err := aes.NewCipher(kek)
	if err != nil {
		panic(err)
	}
	return c
}

// KWPInner builds AIV || P || zero padding for a payload: A65959A6 || be32(len(p)) || p || 0*.
func KWPInner(p []byte) []byte {
	padded := (len(p) + 7) / 8 * 8
	if len(p) == 0 {
		padded = 8 // not reachable through Wrap (RFC: 1 <= m); keeps the helper total
	}
	s := make([]byte, 8+padded)
	copy(s, KWPAIVPrefix[:])
	binary.BigEndian.PutUint32(s[4:], uint32(len(p)))
	copy(s[8:], p)
	return s
}

// KWPApplyW applies the wrapping permutation to s = A || R1..Rn (len multiple of 8, >= 16):
// n = 1: one AES encryption of the 16-byte block (RFC 5649 section 4.1);
// n >= 2: the RFC 3394 index-based wrapping process with A as initial value.
func KWPApplyW(kek, s []byte) []byte {
	if len(s)%8 != 0 || len(s) < 16 {
		panic(fmt.Sprintf("ref: KWP W on %d bytes", len(s)))
	}
	c := kwpCipher(kek)
	n := len(s)/8 - 1
	if n == 1 {
		out := make([]byte, 16)
		c.Encrypt(out, s)
		return out
	}
	a := binary.BigEndian.Uint64(s[:8])
	r := bytes.Clone(s[8:])
	b := make([]byte, 16)
	for j := 0; j <= 5; j++ {
		for i := 1; i <= n; i++ {
			binary.BigEndian.PutUint64(b[:8], a)
			copy(b[8:], r[8*(i-1):8*i])
			c.Encrypt(b, b)
			t := uint64(n*j + i)
			a = binary.BigEndian.Uint64(b[:8]) ^ t
			copy(r[8*(i-1):8*i], b[8:])
		}
	}
	out := make([]byte, 8, len(s))
	binary.BigEndian.PutUint64(out, a)
	return append(out, r...)
}

// KWPInvertW is the inverse of KWPApplyW.
func KWPInvertW(kek, w []byte) []byte {
	if len(w)%8 != 0 || len(w) < 16 {
		panic(fmt.Sprintf("ref: KWP W^-1 on %d bytes", len(w)))
	}
	c := kwpCipher(kek)
	n := len(w)/8 - 1
	if n == 1 {
		out := make([]byte, 16)
		c.Decrypt(out, w)
		return out
	}
	a := binary.BigEndian.Uint64(w[:8])
	r := bytes.Clone(w[8:])
	b := make([]byte, 16)
	for j := 5; j >= 0; j-- {
		for i := n; i >= 1; i-- {
			t := uint64(n*j + i)
			binary.BigEndian.PutUint64(b[:8], a^t)
			copy(b[8:], r[8*(i-1):8*i])
			c.Decrypt(b, b)
			a = binary.BigEndian.Uint64(b[:8])
			copy(r[8*(i-1):8*i], b[8:])
		}
	}
	out := make([]byte, 8, len(w))
	binary.BigEndian.PutUint64(out, a)
	return append(out, r...)
}

// KWPWrap is the RFC 5649 section 4.1 extended key wrapping process (1 <= len(p) < 2^32).
func KWPWrap(kek, p []byte) []byte {
	if len(p) == 0 {
		panic("ref: KWP of empty payload")
	}
	return KWPApplyW(kek, KWPInner(p))
}

// KWPUnwrap is the RFC 5649 section 4.2 unwrapping process; ok=false means the integrity check failed
// (or the input is not a whole number >= 2 of 64-bit blocks).
func KWPUnwrap(kek, w []byte) (p []byte, ok bool) {
	if len(w)%8 != 0 || len(w) < 16 {
		return nil, false
	}
	s := KWPInvertW(kek, w)
	n := len(s)/8 - 1
	if !bytes.Equal(s[:4], KWPAIVPrefix[:]) {
		return nil, false
	}
	mli := uint64(binary.BigEndian.Uint32(s[4:8]))
	if !(uint64(8*(n-1)) < mli && mli <= uint64(8*n)) {
		return nil, false
	}
	for _, x := range s[8+mli:] {
		if x != 0 {
			return nil, false
		}
	}
	return s[8 : 8+mli], true
}

// KWPSelfTest checks the reference against the two examples of RFC 5649 section 6 and W/W^-1 inversion.
func KWPSelfTest() error {
	kek := mustHex("5840df6e29b02af1ab493b705bf16ea1ae8338f4dcc176a8")
	key20 := mustHex("c37b7e6492584340bed12207808941155068f738")
	want20 := mustHex("138bdeaa9b8fa7fc61f97742e72248ee5ae6ae5360d1ae6a5f54f373fa543b6a")
	if got := KWPWrap(kek, key20); !bytes.Equal(got, want20) {
		return fmt.Errorf("ref KWP: RFC 5649 example 1 mismatch: %x", got)
	}
	if p, ok := KWPUnwrap(kek, want20); !ok || !bytes.Equal(p, key20) {
		return fmt.Errorf("ref KWP: RFC 5649 example 1 unwrap failed")
	}
	key7 := mustHex("466f7250617369")
	want7 := mustHex("afbeb0f07dfbf5419200f2ccb50bb24f")
	if got := KWPWrap(kek, key7); !bytes.Equal(got, want7) {
		return fmt.Errorf("ref KWP: RFC 5649 example 2 mismatch: %x", got)
	}
	if p, ok := KWPUnwrap(kek, want7); !ok || !bytes.Equal(p, key7) {
		return fmt.Errorf("ref KWP: RFC 5649 example 2 unwrap failed")
	}
	for _, n := range []int{16, 24, 32, 136} {
		s := Pattern(3, n)
		if !bytes.Equal(KWPInvertW(kek, KWPApplyW(kek, s)), s) {
			return fmt.Errorf("ref KWP: W^-1(W(s)) != s for %d bytes", n)
		}
	}
	bad := bytes.Clone(want20)
	bad[9] ^= 0x40
	if _, ok := KWPUnwrap(kek, bad); ok {
		return fmt.Errorf("ref KWP: modified wrapping accepted")
	}
	return nil
}
