package ref

import (
	"fmt"
	"math/big"
)

// ECPointWalk visits (d, x, y) with (x, y) = d*G for d = d0, d0+1, d0+2, ... (one point addition per step)
// until visit returns false or max scalars were tried. It only produces test keys of particular coordinate
// shapes cheaply (the caller re-derives the chosen point with BaseMult).
func ECPointWalk(c *ECCurve, d0 *big.Int, max int, visit func(d, x, y *big.Int) bool) {
	d := new(big.Int).Mod(d0, c.N)
	g := &jac{c.Gx, c.Gy, big.NewInt(1)}
	pt := c.mulAdd(d, nil, nil, nil)
	for i := 0; i < max; i++ {
		if x, y, ok := c.affine(pt); ok && d.Sign() != 0 {
			if !visit(new(big.Int).Set(d), x, y) {
				return
			}
			pt = &jac{x, y, big.NewInt(1)}
		}
		pt = c.add(pt, g)
		d.Add(d, big.NewInt(1))
		d.Mod(d, c.N)
	}
}

// RSAKeyConsistent checks a complete RSA private key the way RFC 8017 3.2 describes it: p, q (probable) primes,
// n = p*q, e*d = 1 mod lcm(p-1, q-1), dP = d mod (p-1), dQ = d mod (q-1), qInv*q = 1 mod p. It returns "" or the
// first inconsistency.
func RSAKeyConsistent(n *big.Int, e int, d, p, q, dp, dq, qinv *big.Int) string {
	one := big.NewInt(1)
	if p.Sign() <= 0 || q.Sign() <= 0 || d.Sign() <= 0 {
		return "non-positive component"
	}
	if !p.ProbablyPrime(20) {
		return "p is not prime"
	}
	if !q.ProbablyPrime(20) {
		return "q is not prime"
	}
	if p.Cmp(q) == 0 {
		return "p = q"
	}
	if new(big.Int).Mul(p, q).Cmp(n) != 0 {
		return fmt.Sprintf("n != p*q (n has %d bits, p*q has %d bits)", n.BitLen(), new(big.Int).Mul(p, q).BitLen())
	}
	pm, qm := new(big.Int).Sub(p, one), new(big.Int).Sub(q, one)
	g := new(big.Int).GCD(nil, nil, pm, qm)
	lcm := new(big.Int).Mul(pm, qm)
	lcm.Div(lcm, g)
	ed := new(big.Int).Mul(big.NewInt(int64(e)), d)
	if ed.Mod(ed, lcm).Cmp(one) != 0 {
		return fmt.Sprintf("e*d != 1 mod lcm(p-1,q-1) for e=%d", e)
	}
	if dp != nil && new(big.Int).Mod(d, pm).Cmp(dp) != 0 {
		return "dP != d mod (p-1)"
	}
	if dq != nil && new(big.Int).Mod(d, qm).Cmp(dq) != 0 {
		return "dQ != d mod (q-1)"
	}
	if qinv != nil {
		t := new(big.Int).Mul(qinv, q)
		if t.Mod(t, p).Cmp(one) != 0 || qinv.Cmp(p) >= 0 {
			return "qInv*q != 1 mod p"
		}
	}
	return ""
}
