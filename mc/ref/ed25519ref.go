// Ed25519 (RFC 8032 section 5.1) on math/big: key expansion, signing and verification. Independent of
// crypto/ed25519 (which the harness uses only as a cross-check of this file).
package ref

import (
	"crypto/sha512"
	"math/big"
)

var (
	edP, edL, edD, ed2D, edSqrtM1 *big.Int
	edB                           *edPoint
)

type edPoint struct{ x, y, z, t *big.Int }

func init() {
	edP = new(big.Int).Lsh(big.NewInt(1), 255)
	edP.Sub(edP, big.NewInt(19))
	edL, _ = new(big.Int).SetString("27742317777372353535851937790883648493", 10)
	edL.Add(edL, new(big.Int).Lsh(big.NewInt(1), 252))
	// d = -121665/121666
	edD = new(big.Int).ModInverse(big.NewInt(121666), edP)
	edD.Mul(edD, big.NewInt(-121665))
	edD.Mod(edD, edP)
	ed2D = new(big.Int).Lsh(edD, 1)
	ed2D.Mod(ed2D, edP)
	// sqrt(-1) = 2^((p-1)/4)
	e := new(big.Int).Sub(edP, big.NewInt(1))
	e.Rsh(e, 2)
	edSqrtM1 = new(big.Int).Exp(big.NewInt(2), e, edP)
	// base point: y = 4/5, x even ("positive")
	y := new(big.Int).ModInverse(big.NewInt(5), edP)
	y.Mul(y, big.NewInt(4))
	y.Mod(y, edP)
	x, ok := edRecoverX(y, 0)
	if !ok {
		panic("ref: ed25519 base point")
	}
	edB = &edPoint{x, y, big.NewInt(1), edMul(x, y)}
}

func edMul(a, b *big.Int) *big.Int {
	v := new(big.Int).Mul(a, b)
	return v.Mod(v, edP)
}

// edRecoverX: RFC 8032 5.1.3 steps 2-4.
func edRecoverX(y *big.Int, sign uint) (*big.Int, bool) {
	if y.Cmp(edP) >= 0 {
		return nil, false
	}
	y2 := edMul(y, y)
	u := new(big.Int).Sub(y2, big.NewInt(1))
	u.Mod(u, edP)
	v := edMul(edD, y2)
	v.Add(v, big.NewInt(1))
	v.Mod(v, edP)
	// x = u v^3 (u v^7)^((p-5)/8)
	v3 := edMul(edMul(v, v), v)
	v7 := edMul(edMul(v3, v3), v)
	e := new(big.Int).Sub(edP, big.NewInt(5))
	e.Rsh(e, 3)
	x := new(big.Int).Exp(edMul(u, v7), e, edP)
	x = edMul(edMul(u, v3), x)
	vx2 := edMul(v, edMul(x, x))
	negU := new(big.Int).Sub(edP, u)
	negU.Mod(negU, edP)
	switch {
	case vx2.Cmp(u) == 0:
	case vx2.Cmp(negU) == 0:
		x = edMul(x, edSqrtM1)
	default:
		return nil, false
	}
	if x.Sign() == 0 && sign == 1 {
		return nil, false
	}
	if x.Bit(0) != sign {
		x.Sub(edP, x)
	}
	return x, true
}

func edAdd(p, q *edPoint) *edPoint {
	a := edMul(new(big.Int).Sub(p.y, p.x), new(big.Int).Sub(q.y, q.x))
	b := edMul(new(big.Int).Add(p.y, p.x), new(big.Int).Add(q.y, q.x))
	c := edMul(edMul(p.t, ed2D), q.t)
	d := edMul(new(big.Int).Lsh(p.z, 1), q.z)
	e := new(big.Int).Sub(b, a)
	f := new(big.Int).Sub(d, c)
	g := new(big.Int).Add(d, c)
	h := new(big.Int).Add(b, a)
	return &edPoint{edMul(e, f), edMul(g, h), edMul(f, g), edMul(e, h)}
}

func edScalarMult(k *big.Int, p *edPoint) *edPoint {
	acc := &edPoint{big.NewInt(0), big.NewInt(1), big.NewInt(1), big.NewInt(0)}
	for i := k.BitLen() - 1; i >= 0; i-- {
		acc = edAdd(acc, acc)
		if k.Bit(i) == 1 {
			acc = edAdd(acc, p)
		}
	}
	return acc
}

// edDoubleScalarMult computes [a]P + [b]Q by simultaneous double-and-add.
func edDoubleScalarMult(a *big.Int, p *edPoint, b *big.Int, q *edPoint) *edPoint {
	acc := &edPoint{big.NewInt(0), big.NewInt(1), big.NewInt(1), big.NewInt(0)}
	pq := edAdd(p, q)
	n := a.BitLen()
	if b.BitLen() > n {
		n = b.BitLen()
	}
	for i := n - 1; i >= 0; i-- {
		acc = edAdd(acc, acc)
		switch {
		case a.Bit(i) == 1 && b.Bit(i) == 1:
			acc = edAdd(acc, pq)
		case a.Bit(i) == 1:
			acc = edAdd(acc, p)
		case b.Bit(i) == 1:
			acc = edAdd(acc, q)
		}
	}
	return acc
}

func leInt(b []byte) *big.Int {
	r := make([]byte, len(b))
	for i := range b {
		r[len(b)-1-i] = b[i]
	}
	return new(big.Int).SetBytes(r)
}

func leBytes(v *big.Int, n int) []byte {
	be := make([]byte, n)
	v.FillBytes(be)
	for i, j := 0, n-1; i < j; i, j = i+1, j-1 {
		be[i], be[j] = be[j], be[i]
	}
	return be
}

func edEncode(p *edPoint) []byte {
	zi := new(big.Int).ModInverse(p.z, edP)
	x := edMul(p.x, zi)
	y := edMul(p.y, zi)
	out := leBytes(y, 32)
	out[31] |= byte(x.Bit(0)) << 7
	return out
}

func edDecode(b []byte) (*edPoint, bool) {
	if len(b) != 32 {
		return nil, false
	}
	c := append([]byte{}, b...)
	sign := uint(c[31] >> 7)
	c[31] &= 0x7f
	y := leInt(c)
	x, ok := edRecoverX(y, sign)
	if !ok {
		return nil, false
	}
	return &edPoint{x, y, big.NewInt(1), edMul(x, y)}, true
}

func edExpand(seed []byte) (a *big.Int, prefix []byte) {
	h := sha512.Sum512(seed)
	h[0] &= 248
	h[31] &= 127
	h[31] |= 64
	return leInt(h[:32]), h[32:]
}

// Ed25519Public returns the 32-byte public key of a 32-byte seed.
func Ed25519Public(seed []byte) []byte {
	a, _ := edExpand(seed)
	return edEncode(edScalarMult(a, edB))
}

// Ed25519Sign is the deterministic RFC 8032 signature (64 bytes).
func Ed25519Sign(seed, msg []byte) []byte {
	a, prefix := edExpand(seed)
	pub := edEncode(edScalarMult(a, edB))
	h := sha512.New()
	h.Write(prefix)
	h.Write(msg)
	r := leInt(h.Sum(nil))
	r.Mod(r, edL)
	rEnc := edEncode(edScalarMult(r, edB))
	h.Reset()
	h.Write(rEnc)
	h.Write(pub)
	h.Write(msg)
	k := leInt(h.Sum(nil))
	k.Mod(k, edL)
	s := k.Mul(k, a)
	s.Add(s, r)
	s.Mod(s, edL)
	return append(rEnc, leBytes(s, 32)...)
}

// Ed25519Verify: RFC 8032 5.1.7 in its strict form: 64 bytes, A decodes, S < L, and the encoding of
// [S]B - [k]A equals the R octets (which also forces a canonical R).
func Ed25519Verify(pub, msg, sig []byte) bool {
	if len(sig) != 64 || len(pub) != 32 {
		return false
	}
	a, ok := edDecode(pub)
	if !ok {
		return false
	}
	s := leInt(sig[32:])
	if s.Cmp(edL) >= 0 {
		return false
	}
	h := sha512.New()
	h.Write(sig[:32])
	h.Write(pub)
	h.Write(msg)
	k := leInt(h.Sum(nil))
	k.Mod(k, edL)
	negA := &edPoint{new(big.Int).Sub(edP, a.x), a.y, a.z, new(big.Int).Sub(edP, a.t)}
	rp := edDoubleScalarMult(s, edB, k, negA)
	enc := edEncode(rp)
	for i := range enc {
		if enc[i] != sig[i] {
			return false
		}
	}
	return true
}

// Ed25519Order returns the group order L (for building non-canonical S mutations).
func Ed25519Order() *big.Int { return new(big.Int).Set(edL) }
