// Reference tables and helpers for C12 (serialisation round trips) and C13 (no secret leaves through
// a no-secrets / metadata path). Written from tink.proto (the wire-format specification of keysets)
// and the Tink wire-format document; shares no code with tink-go. Exported names carry the prefix KS.
package ref

import (
	"crypto/ecdh"
	"crypto/ed25519"
	"crypto/mlkem"
	"crypto/sha3"
	"encoding/base64"
	"encoding/hex"
	"errors"
	"math/big"
	"strconv"
	"strings"
)

// KSVariant extends Variant by the fifth output-prefix type of tink.proto (WITH_ID_REQUIREMENT: no
// prefix on outputs, but the key still carries an ID requirement).
type KSVariant int

const (
	KSTink KSVariant = iota
	KSCrunchy
	KSLegacy
	KSRaw
	KSRawWithID
)

func (v KSVariant) String() string {
	return [...]string{"TINK", "CRUNCHY", "LEGACY", "RAW", "WITH_ID_REQUIREMENT"}[v]
}

// KSPrefixTypeNumber is the OutputPrefixType enum number of tink.proto for a variant:
// UNKNOWN_PREFIX=0, TINK=1, LEGACY=2, RAW=3, CRUNCHY=4, WITH_ID_REQUIREMENT=5.
func KSPrefixTypeNumber(v KSVariant) int32 {
	switch v {
	case KSTink:
		return 1
	case KSLegacy:
		return 2
	case KSRaw:
		return 3
	case KSCrunchy:
		return 4
	case KSRawWithID:
		return 5
	}
	return 0
}

// KSHasIDRequirement: every variant but RAW binds the key to its keyset key ID.
func KSHasIDRequirement(v KSVariant) bool { return v != KSRaw }

// KSPrefix is the output prefix of a key: TINK 01||be32(id); CRUNCHY/LEGACY 00||be32(id); none otherwise.
func KSPrefix(v KSVariant, id uint32) []byte {
	switch v {
	case KSTink:
		return Prefix(Tink, id)
	case KSCrunchy:
		return Prefix(Crunchy, id)
	case KSLegacy:
		return Prefix(Legacy, id)
	}
	return []byte{}
}

// KeyMaterialType numbers of tink.proto.
const (
	KSLabelUnknown   int32 = 0
	KSLabelSymmetric int32 = 1
	KSLabelPrivate   int32 = 2
	KSLabelPublic    int32 = 3
	KSLabelRemote    int32 = 4
)

// KSLabelIsSecret is the classification the property demands of the no-secrets APIs: symmetric,
// private and unknown-type material (UNKNOWN_KEYMATERIAL and any number outside the enum) is secret;
// only ASYMMETRIC_PUBLIC and REMOTE are not.
func KSLabelIsSecret(label int32) bool {
	return !(label == KSLabelPublic || label == KSLabelRemote)
}

// KSKeyStatus numbers of tink.proto: UNKNOWN_STATUS=0 ENABLED=1 DISABLED=2 DESTROYED=3.
const (
	KSEnabled   int32 = 1
	KSDisabled  int32 = 2
	KSDestroyed int32 = 3
)

// ---- independent public-key derivation (stdlib only) --------------------------------------------

func ksCurve(name string) ecdh.Curve {
	switch name {
	case "P256":
		return ecdh.P256()
	case "P384":
		return ecdh.P384()
	case "P521":
		return ecdh.P521()
	case "X25519":
		return ecdh.X25519()
	}
	panic("ref: unknown curve " + name)
}

// KSCoordSize is the byte length of a field element / scalar of the curve.
func KSCoordSize(curve string) int {
	return map[string]int{"P256": 32, "P384": 48, "P521": 66, "X25519": 32}[curve]
}

// KSECPublic returns the public key for a big-endian fixed-length scalar: SEC1 uncompressed point
// 04||X||Y for the NIST curves, the 32-byte u coordinate for X25519.
func KSECPublic(curve string, scalar []byte) ([]byte, error) {
	k, err := ksCurve(curve).NewPrivateKey(scalar)
	if err != nil {
		return nil, err
	}
	return k.PublicKey().Bytes(), nil
}

// KSEd25519Public is the RFC 8032 public key of a 32-byte seed.
func KSEd25519Public(seed []byte) []byte {
	return []byte(ed25519.NewKeyFromSeed(seed).Public().(ed25519.PublicKey))
}

// KSMLKEMPublic is the FIPS 203 encapsulation key of a 64-byte (d||z) seed.
func KSMLKEMPublic(bits int, seed []byte) ([]byte, error) {
	switch bits {
	case 768:
		dk, err := mlkem.NewDecapsulationKey768(seed)
		if err != nil {
			return nil, err
		}
		return dk.EncapsulationKey().Bytes(), nil
	case 1024:
		dk, err := mlkem.NewDecapsulationKey1024(seed)
		if err != nil {
			return nil, err
		}
		return dk.EncapsulationKey().Bytes(), nil
	}
	return nil, errors.New("ref: unknown ML-KEM size")
}

// KSXWingPublic (draft-connolly-cfrg-xwing-kem): expanded = SHAKE256(sk, 96); ML-KEM-768 key pair from
// expanded[0:64], X25519 secret expanded[64:96]; pk = pk_M || pk_X.
func KSXWingPublic(sk []byte) ([]byte, error) {
	if len(sk) != 32 {
		return nil, errors.New("ref: X-Wing secret must be 32 bytes")
	}
	exp := sha3.SumSHAKE256(sk, 96)
	pkM, err := KSMLKEMPublic(768, exp[:64])
	if err != nil {
		return nil, err
	}
	pkX, err := KSECPublic("X25519", exp[64:])
	if err != nil {
		return nil, err
	}
	return append(pkM, pkX...), nil
}

// KSRSA holds one RSA key as big-endian minimal byte strings.
type KSRSA struct {
	Bits           int
	E              int
	N, D, P, Q     []byte
	DP, DQ, QInv   []byte
	nI, dI, pI, qI *big.Int
}

func ksHexInt(s string) *big.Int {
	v, ok := new(big.Int).SetString(s, 16)
	if !ok {
		panic("ref: bad hex integer")
	}
	return v
}

// KSRSAFixed returns fixed test key idx (0/1) of the given size from RSATestKeyHex with e = 65537,
// the CRT values computed here (RFC 8017 section 3.2: dP = d mod (p-1), dQ = d mod (q-1), qInv = q^-1 mod p).
func KSRSAFixed(bits, idx int) *KSRSA {
	if o, ok := KSRSAOddKeyHex[bits]; ok {
		return ksRSAFrom(bits, 65537, ksHexInt(o[0]), ksHexInt(o[1]), ksHexInt(o[2]), ksHexInt(o[3]))
	}
	hx := RSATestKeyHex[bits][idx]
	return ksRSAFrom(bits, 65537, ksHexInt(hx[0]), ksHexInt(hx[1]), ksHexInt(hx[2]), ksHexInt(hx[3]))
}

func ksRSAFrom(bits, e int, n, d, p, q *big.Int) *KSRSA {
	one := big.NewInt(1)
	pm, qm := new(big.Int).Sub(p, one), new(big.Int).Sub(q, one)
	k := &KSRSA{Bits: bits, E: e, nI: n, dI: d, pI: p, qI: q}
	k.N, k.D, k.P, k.Q = n.Bytes(), d.Bytes(), p.Bytes(), q.Bytes()
	k.DP = new(big.Int).Mod(d, pm).Bytes()
	k.DQ = new(big.Int).Mod(d, qm).Bytes()
	k.QInv = new(big.Int).ModInverse(q, p).Bytes()
	return k
}

// KSRSACraftedModulus returns a bits-bit odd number 2^(bits-1) + pattern (NOT a product of two primes):
// material for PUBLIC keys of arbitrary modulus size; public-key constructors only look at the bit length.
func KSRSACraftedModulus(bits int) []byte {
	n := new(big.Int).Lsh(big.NewInt(1), uint(bits-1))
	pat := new(big.Int).SetBytes(KeyBytes("crafted-modulus", (bits-2)/8))
	n.Or(n, pat)
	n.SetBit(n, 0, 1)
	return n.Bytes()
}

// KSRSAPublicOnly wraps a modulus without private part.
func KSRSAPublicOnly(bits, e int, n []byte) *KSRSA { return &KSRSA{Bits: bits, E: e, N: n} }

// KSRSAWithExponent re-keys the fixed primes for another public exponent e (odd, coprime to
// lcm(p-1,q-1)): d = e^-1 mod lcm(p-1,q-1). ok=false if e is not invertible.
func KSRSAWithExponent(base *KSRSA, e int) (*KSRSA, bool) {
	one := big.NewInt(1)
	pm, qm := new(big.Int).Sub(base.pI, one), new(big.Int).Sub(base.qI, one)
	g := new(big.Int).GCD(nil, nil, pm, qm)
	lcm := new(big.Int).Div(new(big.Int).Mul(pm, qm), g)
	d := new(big.Int).ModInverse(big.NewInt(int64(e)), lcm)
	if d == nil {
		return nil, false
	}
	return ksRSAFrom(base.Bits, e, base.nI, d, base.pI, base.qI), true
}

// KSRSAShortD searches the odd exponents e >= from for one whose private exponent is at least one byte
// shorter than the modulus (a big integer with a "leading zero byte" in fixed-width encodings).
func KSRSAShortD(base *KSRSA, from, tries int) (*KSRSA, bool) {
	for e := from | 1; tries > 0; e, tries = e+2, tries-1 {
		k, ok := KSRSAWithExponent(base, e)
		if ok && len(k.D) < len(k.N) {
			return k, true
		}
	}
	return nil, false
}

// ---- secret-window scanning ------------------------------------------------------------------

// KSWindowSet is the set of all w-byte windows of a collection of secret byte strings together with
// the textual forms in which such a window would show up inside base64 (any alignment, std or URL
// alphabet), hex (either case) and Go/proto text escapes.
type KSWindowSet struct {
	W    int
	raw  map[string]string // window -> name of the secret
	b64  map[string]string // 10-char base64 windows (normalised to the std alphabet)
	hexw map[string]string // 2W lowercase hex chars
}

const ksB64Win = 10 // 10 base64 chars = 60 bits, fully determined by 8 source bytes at any alignment

func KSNewWindowSet(w int) *KSWindowSet {
	return &KSWindowSet{W: w, raw: map[string]string{}, b64: map[string]string{}, hexw: map[string]string{}}
}

// Add registers a secret (shorter than W bytes: ignored, it has no W-byte window).
func (s *KSWindowSet) Add(name string, secret []byte) {
	if len(secret) < s.W {
		return
	}
	for i := 0; i+s.W <= len(secret); i++ {
		s.raw[string(secret[i:i+s.W])] = name
		s.hexw[hex.EncodeToString(secret[i:i+s.W])] = name
	}
	// base64: a string embedded at blob offset p shows base64(secret[a:]) (minus the trailing partial
	// group) for the a with (p+a)%3 == 0.
	for a := 0; a < 3 && a < len(secret); a++ {
		e := base64.RawStdEncoding.EncodeToString(secret[a:])
		e = e[:len(secret[a:])/3*4] // drop the last partial group: it depends on the following bytes
		for i := 0; i+ksB64Win <= len(e); i++ {
			s.b64[e[i:i+ksB64Win]] = name
		}
	}
}

func (s *KSWindowSet) Len() int { return len(s.raw) }

// Find reports the first secret window present in hay in raw, base64 or hex form ("" if none).
func (s *KSWindowSet) Find(hay []byte) (name, form string) {
	for i := 0; i+s.W <= len(hay); i++ {
		if n, ok := s.raw[string(hay[i:i+s.W])]; ok {
			return n, "raw"
		}
	}
	norm := make([]byte, len(hay))
	low := make([]byte, len(hay))
	for i, c := range hay {
		switch c {
		case '-':
			c = '+'
		case '_':
			c = '/'
		}
		norm[i] = c
		if c >= 'A' && c <= 'F' {
			low[i] = hay[i] + 32
		} else {
			low[i] = hay[i]
		}
	}
	for i := 0; i+ksB64Win <= len(norm); i++ {
		if n, ok := s.b64[string(norm[i:i+ksB64Win])]; ok {
			return n, "base64"
		}
	}
	for i := 0; i+2*s.W <= len(low); i++ {
		if n, ok := s.hexw[string(low[i:i+2*s.W])]; ok {
			return n, "hex"
		}
	}
	return "", ""
}

// KSUnescapeText undoes C/proto-text escapes (\ooo, \xHH, \n, \r, \t, \", \', \\) so that raw windows can
// be searched in text-format output.
func KSUnescapeText(s string) []byte {
	out := make([]byte, 0, len(s))
	for i := 0; i < len(s); i++ {
		c := s[i]
		if c != '\\' || i+1 >= len(s) {
			out = append(out, c)
			continue
		}
		i++
		switch d := s[i]; {
		case d >= '0' && d <= '7':
			v, n := 0, 0
			for n < 3 && i < len(s) && s[i] >= '0' && s[i] <= '7' {
				v = v*8 + int(s[i]-'0')
				i++
				n++
			}
			i--
			out = append(out, byte(v))
		case d == 'x' || d == 'X':
			v, n := 0, 0
			i++
			for n < 2 && i < len(s) {
				h := strings.IndexByte("0123456789abcdef", s[i]|0x20)
				if h < 0 || (s[i] < 'A' && s[i] > '9') {
					break
				}
				v = v*16 + h
				i++
				n++
			}
			i--
			out = append(out, byte(v))
		case d == 'n':
			out = append(out, '\n')
		case d == 'r':
			out = append(out, '\r')
		case d == 't':
			out = append(out, '\t')
		default:
			out = append(out, d)
		}
	}
	return out
}

// KSRSAUnbalanced returns a deterministic RSA key (e = 65537) of exactly `bits` modulus bits whose two primes have
// DIFFERENT byte lengths (bits/2+64 and bits/2-64 bits): pLonger chooses which of p, q is the long one. Encoders that
// size one CRT value by the other prime's length only show on such keys; generated keys never have this shape.
func KSRSAUnbalanced(bits int, pLonger bool) *KSRSA {
	e := big.NewInt(65537)
	one := big.NewInt(1)
	next := func(label string, b int) *big.Int {
		v := new(big.Int).SetBytes(KeyBytes(label, (b+7)/8))
		v.SetBit(v, b-1, 1)
		v.SetBit(v, b-2, 1) // both top bits set: the product of a (b1)-bit and a (b2)-bit prime has b1+b2 bits
		for i := v.BitLen() - 1; i >= b; i-- {
			v.SetBit(v, i, 0)
		}
		v.SetBit(v, 0, 1)
		for {
			if v.ProbablyPrime(20) && new(big.Int).GCD(nil, nil, e, new(big.Int).Sub(v, one)).Cmp(one) == 0 {
				return v
			}
			v.Add(v, big.NewInt(2))
		}
	}
	long, short := next("rsa-unbalanced-long-"+strconv.Itoa(bits), bits/2+64), next("rsa-unbalanced-short-"+strconv.Itoa(bits), bits/2-64)
	p, q := long, short
	if !pLonger {
		p, q = short, long
	}
	n := new(big.Int).Mul(p, q)
	if n.BitLen() != bits {
		panic("ref: unbalanced RSA modulus has the wrong size")
	}
	pm, qm := new(big.Int).Sub(p, one), new(big.Int).Sub(q, one)
	g := new(big.Int).GCD(nil, nil, pm, qm)
	lcm := new(big.Int).Div(new(big.Int).Mul(pm, qm), g)
	d := new(big.Int).ModInverse(e, lcm)
	return ksRSAFrom(bits, 65537, n, d, p, q)
}
