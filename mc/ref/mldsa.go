// FIPS 204 (ML-DSA) reference model for property C10. Written from the text of FIPS 204 with plain
// signed 64-bit `%` arithmetic and literal bit strings; uses only the standard library's SHAKE.
// It never calls tink code and shares no code with crypto/internal/fips140/mldsa.
//
// Ring elements are [256]int64 with canonical coefficients in [0,q) unless stated otherwise;
// "signed" polynomials hold the mod± representatives.
package ref

import (
	"bytes"
	"crypto/sha3"
	"math/bits"
)

const (
	MldsaQ    = 8380417
	MldsaD    = 13
	mldsaZeta = 1753
	MldsaN    = 256
)

// MldsaParams is one row of FIPS 204 Table 1.
type MldsaParams struct {
	Name   string
	Inst   int
	K, L   int
	Eta    int64
	Tau    int
	Lambda int
	Omega  int
	Gamma1 int64
	Gamma2 int64
	Beta   int64
}

var MldsaSets = []*MldsaParams{
	{Name: "ML-DSA-44", Inst: 44, K: 4, L: 4, Eta: 2, Tau: 39, Lambda: 128, Omega: 80, Gamma1: 1 << 17, Gamma2: (MldsaQ - 1) / 88, Beta: 78},
	{Name: "ML-DSA-65", Inst: 65, K: 6, L: 5, Eta: 4, Tau: 49, Lambda: 192, Omega: 55, Gamma1: 1 << 19, Gamma2: (MldsaQ - 1) / 32, Beta: 196},
	{Name: "ML-DSA-87", Inst: 87, K: 8, L: 7, Eta: 2, Tau: 60, Lambda: 256, Omega: 75, Gamma1: 1 << 19, Gamma2: (MldsaQ - 1) / 32, Beta: 120},
}

func MldsaSet(inst int) *MldsaParams {
	for _, p := range MldsaSets {
		if p.Inst == inst {
			return p
		}
	}
	panic("ref: unknown ML-DSA parameter set")
}

func mldsaBitlen(x int64) int { return bits.Len64(uint64(x)) }

func (p *MldsaParams) PKLen() int { return 32 + 32*p.K*(mldsaBitlen(MldsaQ-1)-MldsaD) }
func (p *MldsaParams) SKLen() int {
	return 32 + 32 + 64 + 32*((p.K+p.L)*mldsaBitlen(2*p.Eta)+MldsaD*p.K)
}
func (p *MldsaParams) ZBits() int  { return 1 + mldsaBitlen(p.Gamma1-1) }
func (p *MldsaParams) SigLen() int { return p.Lambda/4 + p.L*32*p.ZBits() + p.Omega + p.K }
func (p *MldsaParams) W1Bits() int { return mldsaBitlen((MldsaQ-1)/(2*p.Gamma2) - 1) }

type MldsaPoly = [MldsaN]int64

// ---- §2.3 modular arithmetic ------------------------------------------------------------

// MldsaMod is the non-negative remainder x mod m.
func MldsaMod(x, m int64) int64 {
	r := x % m
	if r < 0 {
		r += m
	}
	return r
}

// MldsaModPM is x mod± alpha: the representative r with -ceil(alpha/2) < r <= floor(alpha/2).
func MldsaModPM(x, alpha int64) int64 {
	r := MldsaMod(x, alpha)
	if r > alpha/2 {
		r -= alpha
	}
	return r
}

// MldsaAbsQ is |x mod± q|, the contribution of a coefficient to the infinity norm.
func MldsaAbsQ(x int64) int64 {
	r := MldsaModPM(x, MldsaQ)
	if r < 0 {
		return -r
	}
	return r
}

func MldsaNorm(w *MldsaPoly) int64 {
	var m int64
	for _, c := range w {
		if a := MldsaAbsQ(c); a > m {
			m = a
		}
	}
	return m
}

func MldsaVecNorm(v []MldsaPoly) int64 {
	var m int64
	for i := range v {
		if a := MldsaNorm(&v[i]); a > m {
			m = a
		}
	}
	return m
}

// ---- §7.4 high-order / low-order bits and hints ---------------------------------------

// MldsaPower2Round is Algorithm 35; r0 is the signed representative.
func MldsaPower2Round(r int64) (r1, r0 int64) {
	rp := MldsaMod(r, MldsaQ)
	r0 = MldsaModPM(rp, 1<<MldsaD)
	return (rp - r0) / (1 << MldsaD), r0
}

// MldsaDecompose is Algorithm 36; r0 is the signed representative.
func MldsaDecompose(r, gamma2 int64) (r1, r0 int64) {
	rp := MldsaMod(r, MldsaQ)
	r0 = MldsaModPM(rp, 2*gamma2)
	if rp-r0 == MldsaQ-1 {
		r1 = 0
		r0 = r0 - 1
	} else {
		r1 = (rp - r0) / (2 * gamma2)
	}
	return
}

func MldsaHighBits(r, gamma2 int64) int64 { r1, _ := MldsaDecompose(r, gamma2); return r1 }
func MldsaLowBits(r, gamma2 int64) int64  { _, r0 := MldsaDecompose(r, gamma2); return r0 }

// MldsaMakeHint is Algorithm 39.
func MldsaMakeHint(z, r, gamma2 int64) int64 {
	if MldsaHighBits(r, gamma2) != MldsaHighBits(r+z, gamma2) {
		return 1
	}
	return 0
}

// MldsaUseHint is Algorithm 40.
func MldsaUseHint(h, r, gamma2 int64) int64 {
	m := (MldsaQ - 1) / (2 * gamma2)
	r1, r0 := MldsaDecompose(r, gamma2)
	if h == 1 && r0 > 0 {
		return MldsaMod(r1+1, m)
	}
	if h == 1 && r0 <= 0 {
		return MldsaMod(r1-1, m)
	}
	return r1
}

// ---- §7.5 NTT ---------------------------------------------------------------------------

func MldsaBitRev8(x int) int { return int(bits.Reverse8(uint8(x))) }

func MldsaPowMod(b, e, m int64) int64 {
	r := int64(1)
	b = MldsaMod(b, m)
	for ; e > 0; e >>= 1 {
		if e&1 == 1 {
			r = r * b % m
		}
		b = b * b % m
	}
	return r
}

// MldsaZetaBrv is zetas[k] = zeta^BitRev8(k) mod q (Appendix B), computed, not tabulated.
func MldsaZetaBrv(k int) int64 { return MldsaPowMod(mldsaZeta, int64(MldsaBitRev8(k)), MldsaQ) }

var mldsaZetas = func() (z [MldsaN]int64) {
	for k := range z {
		z[k] = MldsaZetaBrv(k)
	}
	return
}()

// MldsaNTT is Algorithm 41.
func MldsaNTT(w *MldsaPoly) MldsaPoly {
	wh := *w
	for j := range wh {
		wh[j] = MldsaMod(wh[j], MldsaQ)
	}
	m := 0
	for ln := 128; ln >= 1; ln /= 2 {
		for start := 0; start < MldsaN; start += 2 * ln {
			m++
			z := mldsaZetas[m]
			for j := start; j < start+ln; j++ {
				t := z * wh[j+ln] % MldsaQ
				wh[j+ln] = MldsaMod(wh[j]-t, MldsaQ)
				wh[j] = MldsaMod(wh[j]+t, MldsaQ)
			}
		}
	}
	return wh
}

// MldsaINTT is Algorithm 42.
func MldsaINTT(wh *MldsaPoly) MldsaPoly {
	w := *wh
	m := MldsaN
	for ln := 1; ln < MldsaN; ln *= 2 {
		for start := 0; start < MldsaN; start += 2 * ln {
			m--
			z := -mldsaZetas[m]
			for j := start; j < start+ln; j++ {
				t := w[j]
				w[j] = MldsaMod(t+w[j+ln], MldsaQ)
				w[j+ln] = MldsaMod(z*MldsaMod(t-w[j+ln], MldsaQ), MldsaQ)
			}
		}
	}
	const f = 8347681 // 256^-1 mod q
	for j := range w {
		w[j] = f * w[j] % MldsaQ
	}
	return w
}

// MldsaNTTDirect evaluates w at the 256 roots directly (§7.5): ŵ[2i] = w(ζ_i), ŵ[2i+1] = w(-ζ_i)
// with ζ_i = ζ^BitRev8(128+i). O(n^2), no butterflies, no table.
func MldsaNTTDirect(w *MldsaPoly) MldsaPoly {
	var out MldsaPoly
	for i := 0; i < 128; i++ {
		zi := MldsaPowMod(mldsaZeta, int64(MldsaBitRev8(128+i)), MldsaQ)
		for s, root := range []int64{zi, MldsaQ - zi} {
			var acc int64
			for j := MldsaN - 1; j >= 0; j-- { // Horner
				acc = (acc*root + MldsaMod(w[j], MldsaQ)) % MldsaQ
			}
			out[2*i+s] = acc
		}
	}
	return out
}

// MldsaNegacyclicMul is the schoolbook product in Z_q[X]/(X^256+1).
func MldsaNegacyclicMul(a, b *MldsaPoly) MldsaPoly {
	var out MldsaPoly
	for i := 0; i < MldsaN; i++ {
		if a[i] == 0 {
			continue
		}
		for j := 0; j < MldsaN; j++ {
			p := MldsaMod(a[i], MldsaQ) * MldsaMod(b[j], MldsaQ) % MldsaQ
			if i+j < MldsaN {
				out[i+j] = (out[i+j] + p) % MldsaQ
			} else {
				out[i+j-MldsaN] = MldsaMod(out[i+j-MldsaN]-p, MldsaQ)
			}
		}
	}
	return out
}

func mldsaMulNTT(a, b *MldsaPoly) (c MldsaPoly) {
	for i := range c {
		c[i] = a[i] * b[i] % MldsaQ
	}
	return
}
func mldsaAdd(a, b *MldsaPoly) (c MldsaPoly) {
	for i := range c {
		c[i] = MldsaMod(a[i]+b[i], MldsaQ)
	}
	return
}
func mldsaSub(a, b *MldsaPoly) (c MldsaPoly) {
	for i := range c {
		c[i] = MldsaMod(a[i]-b[i], MldsaQ)
	}
	return
}

// ---- §7.1 bit strings and packing -------------------------------------------------------

func mldsaIntegerToBits(x int64, alpha int) []byte {
	y := make([]byte, alpha)
	for i := 0; i < alpha; i++ {
		y[i] = byte(x % 2)
		x /= 2
	}
	return y
}

func mldsaBitsToInteger(y []byte) int64 {
	var x int64
	for i := len(y) - 1; i >= 0; i-- {
		x = 2*x + int64(y[i])
	}
	return x
}

func mldsaBitsToBytes(y []byte) []byte {
	z := make([]byte, (len(y)+7)/8)
	for i, b := range y {
		z[i/8] += b << (i % 8)
	}
	return z
}

func mldsaBytesToBits(z []byte) []byte {
	y := make([]byte, 8*len(z))
	for i, b := range z {
		for j := 0; j < 8; j++ {
			y[8*i+j] = b % 2
			b /= 2
		}
	}
	return y
}

// MldsaSimpleBitPack is Algorithm 16 (coefficients in [0,b]).
func MldsaSimpleBitPack(w *MldsaPoly, b int64) []byte {
	var z []byte
	for i := 0; i < MldsaN; i++ {
		z = append(z, mldsaIntegerToBits(w[i], mldsaBitlen(b))...)
	}
	return mldsaBitsToBytes(z)
}

// MldsaBitPack is Algorithm 17 (signed coefficients in [-a,b]).
func MldsaBitPack(w *MldsaPoly, a, b int64) []byte {
	var z []byte
	for i := 0; i < MldsaN; i++ {
		z = append(z, mldsaIntegerToBits(b-w[i], mldsaBitlen(a+b))...)
	}
	return mldsaBitsToBytes(z)
}

// MldsaSimpleBitUnpack is Algorithm 18.
func MldsaSimpleBitUnpack(v []byte, b int64) (w MldsaPoly) {
	c := mldsaBitlen(b)
	z := mldsaBytesToBits(v)
	for i := 0; i < MldsaN; i++ {
		w[i] = mldsaBitsToInteger(z[i*c : i*c+c])
	}
	return
}

// MldsaBitUnpack is Algorithm 19 (result signed, possibly outside [-a,b]).
func MldsaBitUnpack(v []byte, a, b int64) (w MldsaPoly) {
	c := mldsaBitlen(a + b)
	z := mldsaBytesToBits(v)
	for i := 0; i < MldsaN; i++ {
		w[i] = b - mldsaBitsToInteger(z[i*c:i*c+c])
	}
	return
}

// MldsaHintBitPack is Algorithm 20.
func MldsaHintBitPack(p *MldsaParams, h []MldsaPoly) []byte {
	y := make([]byte, p.Omega+p.K)
	index := 0
	for i := 0; i < p.K; i++ {
		for j := 0; j < MldsaN; j++ {
			if h[i][j] != 0 {
				y[index] = byte(j)
				index++
			}
		}
		y[p.Omega+i] = byte(index)
	}
	return y
}

// MldsaHintBitUnpack decides Algorithm 21 declaratively: y is a well-formed hint encoding iff the
// k counters are non-decreasing and at most omega, the index bytes of every polynomial are strictly
// increasing, and all bytes after the last counter are zero. ok=false is the spec's ⊥.
func MldsaHintBitUnpack(p *MldsaParams, y []byte) (h []MldsaPoly, ok bool) {
	if !MldsaHintWellFormed(p, y) {
		return nil, false
	}
	h = make([]MldsaPoly, p.K)
	prev := 0
	for i := 0; i < p.K; i++ {
		end := int(y[p.Omega+i])
		for _, j := range y[prev:end] {
			h[i][j] = 1
		}
		prev = end
	}
	return h, true
}

// MldsaHintWellFormed is the verdict part of MldsaHintBitUnpack.
func MldsaHintWellFormed(p *MldsaParams, y []byte) bool {
	if len(y) != p.Omega+p.K {
		return false
	}
	prev := 0
	for i := 0; i < p.K; i++ {
		end := int(y[p.Omega+i])
		if end < prev || end > p.Omega {
			return false
		}
		seg := y[prev:end]
		for j := 1; j < len(seg); j++ {
			if !(seg[j-1] < seg[j]) {
				return false
			}
		}
		prev = end
	}
	for _, b := range y[prev:p.Omega] {
		if b != 0 {
			return false
		}
	}
	return true
}

// ---- §7.3 sampling ----------------------------------------------------------------------

// MldsaCoeffFromThreeBytes is Algorithm 14 (ok=false is ⊥).
func MldsaCoeffFromThreeBytes(b0, b1, b2 byte) (int64, bool) {
	b2p := int64(b2)
	if b2p > 127 {
		b2p -= 128
	}
	z := 65536*b2p + 256*int64(b1) + int64(b0)
	if z < MldsaQ {
		return z, true
	}
	return 0, false
}

// MldsaCoeffFromHalfByte is Algorithm 15 (signed result).
func MldsaCoeffFromHalfByte(eta int64, b byte) (int64, bool) {
	if eta == 2 && b < 15 {
		return 2 - int64(b%5), true
	}
	if eta == 4 && b < 9 {
		return 4 - int64(b), true
	}
	return 0, false
}

func mldsaH(n int, parts ...[]byte) []byte {
	h := sha3.NewSHAKE256()
	for _, p := range parts {
		h.Write(p)
	}
	out := make([]byte, n)
	h.Read(out)
	return out
}

// MldsaSampleInBall is Algorithm 29 (coefficients in {0, 1, q-1}).
func MldsaSampleInBall(p *MldsaParams, rho []byte) (c MldsaPoly) {
	ctx := sha3.NewSHAKE256()
	ctx.Write(rho)
	s := make([]byte, 8)
	ctx.Read(s)
	h := mldsaBytesToBits(s)
	one := make([]byte, 1)
	for i := MldsaN - p.Tau; i < MldsaN; i++ {
		ctx.Read(one)
		for int(one[0]) > i {
			ctx.Read(one)
		}
		j := int(one[0])
		c[i] = c[j]
		if h[i+p.Tau-MldsaN] == 0 {
			c[j] = 1
		} else {
			c[j] = MldsaQ - 1
		}
	}
	return
}

// MldsaRejNTTPoly is Algorithm 30.
func MldsaRejNTTPoly(rho []byte) (a MldsaPoly) {
	g := sha3.NewSHAKE128()
	g.Write(rho)
	s := make([]byte, 3)
	for j := 0; j < MldsaN; {
		g.Read(s)
		if c, ok := MldsaCoeffFromThreeBytes(s[0], s[1], s[2]); ok {
			a[j] = c
			j++
		}
	}
	return
}

// MldsaRejBoundedPoly is Algorithm 31 (canonical coefficients).
func MldsaRejBoundedPoly(p *MldsaParams, rho []byte) (a MldsaPoly) {
	h := sha3.NewSHAKE256()
	h.Write(rho)
	z := make([]byte, 1)
	for j := 0; j < MldsaN; {
		h.Read(z)
		z0, ok0 := MldsaCoeffFromHalfByte(p.Eta, z[0]%16)
		z1, ok1 := MldsaCoeffFromHalfByte(p.Eta, z[0]/16)
		if ok0 {
			a[j] = MldsaMod(z0, MldsaQ)
			j++
		}
		if ok1 && j < MldsaN {
			a[j] = MldsaMod(z1, MldsaQ)
			j++
		}
	}
	return
}

// MldsaExpandA is Algorithm 32: A[r][s] in the NTT domain.
func MldsaExpandA(p *MldsaParams, rho []byte) [][]MldsaPoly {
	A := make([][]MldsaPoly, p.K)
	for r := 0; r < p.K; r++ {
		A[r] = make([]MldsaPoly, p.L)
		for s := 0; s < p.L; s++ {
			A[r][s] = MldsaRejNTTPoly(append(bytes.Clone(rho), byte(s), byte(r)))
		}
	}
	return A
}

// MldsaExpandS is Algorithm 33.
func MldsaExpandS(p *MldsaParams, rho []byte) (s1, s2 []MldsaPoly) {
	for r := 0; r < p.L; r++ {
		s1 = append(s1, MldsaRejBoundedPoly(p, append(bytes.Clone(rho), byte(r), byte(r>>8))))
	}
	for r := 0; r < p.K; r++ {
		s2 = append(s2, MldsaRejBoundedPoly(p, append(bytes.Clone(rho), byte(r+p.L), byte((r+p.L)>>8))))
	}
	return
}

// MldsaExpandMask is Algorithm 34 (canonical coefficients).
func MldsaExpandMask(p *MldsaParams, rho []byte, mu int) []MldsaPoly {
	c := 1 + mldsaBitlen(p.Gamma1-1)
	y := make([]MldsaPoly, p.L)
	for r := 0; r < p.L; r++ {
		v := mldsaH(32*c, rho, []byte{byte(mu + r), byte((mu + r) >> 8)})
		w := MldsaBitUnpack(v, p.Gamma1-1, p.Gamma1)
		for i := range w {
			y[r][i] = MldsaMod(w[i], MldsaQ)
		}
	}
	return y
}

// ---- §7.2 encodings of keys and signatures ---------------------------------------------

func mldsaSigned(w *MldsaPoly) (s MldsaPoly) {
	for i := range w {
		s[i] = MldsaModPM(w[i], MldsaQ)
	}
	return
}

func mldsaPKEncode(p *MldsaParams, rho []byte, t1 []MldsaPoly) []byte {
	pk := bytes.Clone(rho)
	for i := range t1 {
		pk = append(pk, MldsaSimpleBitPack(&t1[i], 1<<(mldsaBitlen(MldsaQ-1)-MldsaD)-1)...)
	}
	return pk
}

func mldsaPKDecode(p *MldsaParams, pk []byte) (rho []byte, t1 []MldsaPoly) {
	rho = pk[:32]
	n := 32 * (mldsaBitlen(MldsaQ-1) - MldsaD)
	for i := 0; i < p.K; i++ {
		t1 = append(t1, MldsaSimpleBitUnpack(pk[32+i*n:32+(i+1)*n], 1<<(mldsaBitlen(MldsaQ-1)-MldsaD)-1))
	}
	return
}

func mldsaSKEncode(p *MldsaParams, rho, K, tr []byte, s1, s2, t0 []MldsaPoly) []byte {
	sk := append(append(bytes.Clone(rho), K...), tr...)
	for i := range s1 {
		s := mldsaSigned(&s1[i])
		sk = append(sk, MldsaBitPack(&s, p.Eta, p.Eta)...)
	}
	for i := range s2 {
		s := mldsaSigned(&s2[i])
		sk = append(sk, MldsaBitPack(&s, p.Eta, p.Eta)...)
	}
	for i := range t0 {
		s := mldsaSigned(&t0[i])
		sk = append(sk, MldsaBitPack(&s, 1<<(MldsaD-1)-1, 1<<(MldsaD-1))...)
	}
	return sk
}

type mldsaSK struct {
	rho, K, tr []byte
	s1, s2, t0 []MldsaPoly // canonical
}

func mldsaSKDecode(p *MldsaParams, sk []byte) *mldsaSK {
	r := &mldsaSK{rho: sk[:32], K: sk[32:64], tr: sk[64:128]}
	pos := 128
	eb := 32 * mldsaBitlen(2*p.Eta)
	canon := func(w MldsaPoly) MldsaPoly {
		for i := range w {
			w[i] = MldsaMod(w[i], MldsaQ)
		}
		return w
	}
	for i := 0; i < p.L; i++ {
		r.s1 = append(r.s1, canon(MldsaBitUnpack(sk[pos:pos+eb], p.Eta, p.Eta)))
		pos += eb
	}
	for i := 0; i < p.K; i++ {
		r.s2 = append(r.s2, canon(MldsaBitUnpack(sk[pos:pos+eb], p.Eta, p.Eta)))
		pos += eb
	}
	for i := 0; i < p.K; i++ {
		r.t0 = append(r.t0, canon(MldsaBitUnpack(sk[pos:pos+32*MldsaD], 1<<(MldsaD-1)-1, 1<<(MldsaD-1))))
		pos += 32 * MldsaD
	}
	return r
}

// MldsaSigEncode is Algorithm 26 (z canonical, h in {0,1}).
func MldsaSigEncode(p *MldsaParams, ct []byte, z, h []MldsaPoly) []byte {
	sig := bytes.Clone(ct)
	for i := range z {
		s := mldsaSigned(&z[i])
		sig = append(sig, MldsaBitPack(&s, p.Gamma1-1, p.Gamma1)...)
	}
	return append(sig, MldsaHintBitPack(p, h)...)
}

// MldsaSigDecode is Algorithm 27 (z canonical); ok=false covers wrong length and h = ⊥.
func MldsaSigDecode(p *MldsaParams, sig []byte) (ct []byte, z, h []MldsaPoly, ok bool) {
	if len(sig) != p.SigLen() {
		return nil, nil, nil, false
	}
	ct = sig[:p.Lambda/4]
	n := 32 * p.ZBits()
	for i := 0; i < p.L; i++ {
		w := MldsaBitUnpack(sig[p.Lambda/4+i*n:p.Lambda/4+(i+1)*n], p.Gamma1-1, p.Gamma1)
		for j := range w {
			w[j] = MldsaMod(w[j], MldsaQ)
		}
		z = append(z, w)
	}
	h, ok = MldsaHintBitUnpack(p, sig[p.Lambda/4+p.L*n:])
	return
}

// MldsaW1Encode is Algorithm 28.
func MldsaW1Encode(p *MldsaParams, w1 []MldsaPoly) []byte {
	var out []byte
	for i := range w1 {
		out = append(out, MldsaSimpleBitPack(&w1[i], (MldsaQ-1)/(2*p.Gamma2)-1)...)
	}
	return out
}

// ---- §6 internal algorithms -------------------------------------------------------------

// MldsaKeyGen is Algorithm 6 (ML-DSA.KeyGen_internal): encoded public and private key.
func MldsaKeyGen(p *MldsaParams, xi []byte) (pk, sk []byte) {
	hh := mldsaH(128, xi, []byte{byte(p.K), byte(p.L)})
	rho, rhop, K := hh[:32], hh[32:96], hh[96:128]
	A := MldsaExpandA(p, rho)
	s1, s2 := MldsaExpandS(p, rhop)
	s1h := make([]MldsaPoly, p.L)
	for i := range s1 {
		s1h[i] = MldsaNTT(&s1[i])
	}
	t1 := make([]MldsaPoly, p.K)
	t0 := make([]MldsaPoly, p.K)
	for r := 0; r < p.K; r++ {
		var acc MldsaPoly
		for s := 0; s < p.L; s++ {
			m := mldsaMulNTT(&A[r][s], &s1h[s])
			acc = mldsaAdd(&acc, &m)
		}
		t := MldsaINTT(&acc)
		t = mldsaAdd(&t, &s2[r])
		for j := range t {
			a, b := MldsaPower2Round(t[j])
			t1[r][j] = a
			t0[r][j] = MldsaMod(b, MldsaQ)
		}
	}
	pk = mldsaPKEncode(p, rho, t1)
	tr := mldsaH(64, pk)
	sk = mldsaSKEncode(p, rho, K, tr, s1, s2, t0)
	return
}

// MldsaMu is mu = H(tr || M', 64) with M' = 0 || |ctx| || ctx || M (Algorithms 2/3 and 7/8).
func MldsaMu(tr, msg, ctx []byte) []byte {
	return mldsaH(64, tr, []byte{0, byte(len(ctx))}, ctx, msg)
}

// MldsaTr is tr = H(pk, 64).
func MldsaTr(pk []byte) []byte { return mldsaH(64, pk) }

// MldsaAttempt describes one iteration of the rejection loop of Algorithm 7.
type MldsaAttempt struct {
	Kappa   int
	ZNorm   int64 // ||z||inf
	R0Norm  int64 // ||LowBits(w - cs2)||inf
	Ct0Norm int64 // ||ct0||inf
	Hints   int   // number of ones in h
	ZOK     bool  // ZNorm < gamma1 - beta
	R0OK    bool  // R0Norm < gamma2 - beta
	Ct0OK   bool  // Ct0Norm < gamma2
	HintsOK bool  // Hints <= omega
}

func (a *MldsaAttempt) AllOK() bool { return a.ZOK && a.R0OK && a.Ct0OK && a.HintsOK }

// MldsaSignMu is Algorithm 7 (ML-DSA.Sign_internal) starting from mu. keep decides per attempt
// whether the attempt is emitted; keep == nil is the standard rule (AllOK). A keep function that
// returns true for a violating attempt yields a crafted signature that breaks exactly the rules
// that attempt violates (nil if it cannot be encoded because it has more than omega hints).
// maxAttempts bounds the loop (0 = 100000); it returns nil when exhausted.
func MldsaSignMu(p *MldsaParams, skEnc, mu, rnd []byte, keep func(*MldsaAttempt) bool, maxAttempts int) ([]byte, *MldsaAttempt) {
	sk := mldsaSKDecode(p, skEnc)
	ntts := func(v []MldsaPoly) []MldsaPoly {
		o := make([]MldsaPoly, len(v))
		for i := range v {
			o[i] = MldsaNTT(&v[i])
		}
		return o
	}
	s1h, s2h, t0h := ntts(sk.s1), ntts(sk.s2), ntts(sk.t0)
	A := MldsaExpandA(p, sk.rho)
	rhopp := mldsaH(64, sk.K, rnd, mu)
	if maxAttempts == 0 {
		maxAttempts = 100000
	}
	for n, kappa := 0, 0; n < maxAttempts; n, kappa = n+1, kappa+p.L {
		y := MldsaExpandMask(p, rhopp, kappa)
		yh := ntts(y)
		w := make([]MldsaPoly, p.K)
		w1 := make([]MldsaPoly, p.K)
		for r := 0; r < p.K; r++ {
			var acc MldsaPoly
			for s := 0; s < p.L; s++ {
				m := mldsaMulNTT(&A[r][s], &yh[s])
				acc = mldsaAdd(&acc, &m)
			}
			w[r] = MldsaINTT(&acc)
			for j := range w[r] {
				w1[r][j] = MldsaHighBits(w[r][j], p.Gamma2)
			}
		}
		ct := mldsaH(p.Lambda/4, mu, MldsaW1Encode(p, w1))
		c := MldsaSampleInBall(p, ct)
		ch := MldsaNTT(&c)
		z := make([]MldsaPoly, p.L)
		for i := 0; i < p.L; i++ {
			m := mldsaMulNTT(&ch, &s1h[i])
			cs1 := MldsaINTT(&m)
			z[i] = mldsaAdd(&y[i], &cs1)
		}
		att := &MldsaAttempt{Kappa: kappa}
		wcs2 := make([]MldsaPoly, p.K)
		r0 := make([]MldsaPoly, p.K)
		for i := 0; i < p.K; i++ {
			m := mldsaMulNTT(&ch, &s2h[i])
			cs2 := MldsaINTT(&m)
			wcs2[i] = mldsaSub(&w[i], &cs2)
			for j := range r0[i] {
				r0[i][j] = MldsaLowBits(wcs2[i][j], p.Gamma2)
			}
		}
		att.ZNorm, att.R0Norm = MldsaVecNorm(z), MldsaVecNorm(r0)
		att.ZOK, att.R0OK = att.ZNorm < p.Gamma1-p.Beta, att.R0Norm < p.Gamma2-p.Beta
		h := make([]MldsaPoly, p.K)
		ct0 := make([]MldsaPoly, p.K)
		for i := 0; i < p.K; i++ {
			m := mldsaMulNTT(&ch, &t0h[i])
			ct0[i] = MldsaINTT(&m)
			for j := range h[i] {
				h[i][j] = MldsaMakeHint(-MldsaModPM(ct0[i][j], MldsaQ), wcs2[i][j]+ct0[i][j], p.Gamma2)
				att.Hints += int(h[i][j])
			}
		}
		att.Ct0Norm = MldsaVecNorm(ct0)
		att.Ct0OK, att.HintsOK = att.Ct0Norm < p.Gamma2, att.Hints <= p.Omega
		emit := att.AllOK()
		if keep != nil {
			emit = keep(att)
		}
		if emit {
			if !att.HintsOK {
				return nil, att
			}
			return MldsaSigEncode(p, ct, z, h), att
		}
	}
	return nil, nil
}

// MldsaSign is ML-DSA.Sign (Algorithm 2) with explicit rnd (0^32 = deterministic variant).
func MldsaSign(p *MldsaParams, skEnc, msg, ctx, rnd []byte) []byte {
	if len(ctx) > 255 {
		return nil
	}
	sig, _ := MldsaSignMu(p, skEnc, MldsaMu(skEnc[64:128], msg, ctx), rnd, nil, 0)
	return sig
}

// MldsaVerifyMu is Algorithm 8 (ML-DSA.Verify_internal) starting from mu.
func MldsaVerifyMu(p *MldsaParams, pk, mu, sig []byte) bool {
	if len(pk) != p.PKLen() {
		return false
	}
	rho, t1 := mldsaPKDecode(p, pk)
	ct, z, h, ok := MldsaSigDecode(p, sig)
	if !ok {
		return false
	}
	A := MldsaExpandA(p, rho)
	c := MldsaSampleInBall(p, ct)
	ch := MldsaNTT(&c)
	zh := make([]MldsaPoly, p.L)
	for i := range z {
		zh[i] = MldsaNTT(&z[i])
	}
	w1 := make([]MldsaPoly, p.K)
	for r := 0; r < p.K; r++ {
		var acc MldsaPoly
		for s := 0; s < p.L; s++ {
			m := mldsaMulNTT(&A[r][s], &zh[s])
			acc = mldsaAdd(&acc, &m)
		}
		var t MldsaPoly
		for j := range t {
			t[j] = t1[r][j] * (1 << MldsaD) % MldsaQ
		}
		th := MldsaNTT(&t)
		m := mldsaMulNTT(&ch, &th)
		acc = mldsaSub(&acc, &m)
		wp := MldsaINTT(&acc)
		for j := range wp {
			w1[r][j] = MldsaUseHint(h[r][j], wp[j], p.Gamma2)
		}
	}
	ctp := mldsaH(p.Lambda/4, mu, MldsaW1Encode(p, w1))
	return MldsaVecNorm(z) < p.Gamma1-p.Beta && bytes.Equal(ct, ctp)
}

// MldsaVerify is ML-DSA.Verify (Algorithm 3).
func MldsaVerify(p *MldsaParams, pk, msg, sig, ctx []byte) bool {
	if len(ctx) > 255 || len(pk) != p.PKLen() {
		return false
	}
	return MldsaVerifyMu(p, pk, MldsaMu(MldsaTr(pk), msg, ctx), sig)
}
