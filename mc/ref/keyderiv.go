package ref

// Reference model of Tink's PRF-based key derivation (C17), written from the published rule
// (developers.google.com/tink/wire-format / "PRF-based key derivation"): the pseudorandom stream is
//
//	HKDF(hash, ikm = PRF key, salt = PRF-key salt parameter, info = caller's salt)      (RFC 5869)
//
// and a derived key of a given type consumes a fixed number of LEADING bytes of that stream:
//
//	AES-GCM                  key_size bytes                       -> AES key
//	XChaCha20-Poly1305       32 bytes                             -> key
//	AES-SIV                  key_size bytes (64)                  -> key (MAC half || CTR half)
//	HMAC                     key_size bytes                       -> key
//	HKDF-PRF                 key_size bytes                       -> key
//	HMAC-PRF                 key_size bytes                       -> key
//	Ed25519                  32 bytes                             -> RFC 8032 seed (private key); public key = scalar mult from the seed
//	AES-GCM-HKDF-Streaming   key_size bytes                       -> ikm of the streaming key
//
// Nothing here calls tink code; HKDF/HMAC come from basic.go (bare hash functions).

// KeyDerivKinds lists the derivable key types in the order of this table.
var KeyDerivKinds = []string{"AES-GCM", "XCHACHA20-POLY1305", "AES-SIV", "HMAC", "HKDF-PRF", "HMAC-PRF", "ED25519", "AES-GCM-HKDF-STREAMING"}

// KeyDerivLen is the number of stream bytes a derived key of the kind consumes; keySize is the
// key_size parameter of the derived key's template (ignored for fixed-size kinds). -1 for unknown kinds.
func KeyDerivLen(kind string, keySize int) int {
	switch kind {
	case "AES-GCM", "AES-SIV", "HMAC", "HKDF-PRF", "HMAC-PRF", "AES-GCM-HKDF-STREAMING":
		return keySize
	case "XCHACHA20-POLY1305", "ED25519":
		return 32
	}
	return -1
}

// KeyDerivStream returns the first n bytes of the derivation stream.
func KeyDerivStream(hash string, prfKey, prfSalt, callerSalt []byte, n int) []byte {
	return HKDF(hash, prfKey, prfSalt, callerSalt, n)
}

// KeyDerivMaterial returns the secret key material of the derived key (for ED25519: the 32-byte seed).
func KeyDerivMaterial(kind string, keySize int, hash string, prfKey, prfSalt, callerSalt []byte) []byte {
	n := KeyDerivLen(kind, keySize)
	if n < 0 {
		return nil
	}
	return KeyDerivStream(hash, prfKey, prfSalt, callerSalt, n)
}
