// Command inst is the source instrumenter of engine E3. For every non-test Go file of the given
// package directories of the tink tree it writes an instrumented copy (same relative path under the
// output root) in which a call to the scheduler runtime is inserted before EVERY statement of every
// function body and function literal, and `import "sync"` is redirected to the scheduler-aware shim.
// The copies are handed to `go build -overlay` as replacements, so /repo itself is never touched and
// the instrumentation always reflects /repo's CURRENT sources.
//
// usage: inst -repo /repo -out DIR [-heavy pkg,pkg] pkgdir...
package main

import (
	"bytes"
	"flag"
	"fmt"
	"go/ast"
	"go/format"
	"go/parser"
	"go/token"
	"os"
	"path/filepath"
	"strconv"
	"strings"
)

const rtPath = "github.com/tink-crypto/tink-go/v2/verifrt/sched"
const syncShim = "github.com/tink-crypto/tink-go/v2/verifrt/vsync"

var points int

func pointStmt(heavy bool) ast.Stmt {
	points++
	fn := "Point"
	if heavy {
		fn = "PointH"
	}
	return &ast.ExprStmt{X: &ast.CallExpr{Fun: &ast.SelectorExpr{X: ast.NewIdent("verifrt_sched"), Sel: ast.NewIdent(fn)}}}
}

type instr struct{ heavy bool }

func (in *instr) list(stmts []ast.Stmt) []ast.Stmt {
	var out []ast.Stmt
	for _, s := range stmts {
		in.stmt(s)
		out = append(out, pointStmt(in.heavy), s)
	}
	return out
}

func (in *instr) block(b *ast.BlockStmt) {
	if b != nil {
		b.List = in.list(b.List)
	}
}

// stmt instruments the nested bodies of s (the point BEFORE s is added by the caller).
func (in *instr) stmt(s ast.Stmt) {
	switch v := s.(type) {
	case *ast.BlockStmt:
		in.block(v)
	case *ast.IfStmt:
		in.block(v.Body)
		if v.Else != nil {
			in.stmt(v.Else)
		}
	case *ast.ForStmt:
		in.block(v.Body)
	case *ast.RangeStmt:
		in.block(v.Body)
	case *ast.SwitchStmt:
		in.clauses(v.Body)
	case *ast.TypeSwitchStmt:
		in.clauses(v.Body)
	case *ast.SelectStmt:
		in.clauses(v.Body)
	case *ast.LabeledStmt:
		in.stmt(v.Stmt)
	}
}

func (in *instr) clauses(b *ast.BlockStmt) {
	for _, c := range b.List {
		switch cc := c.(type) {
		case *ast.CaseClause:
			cc.Body = in.list(cc.Body)
		case *ast.CommClause:
			cc.Body = in.list(cc.Body)
		}
	}
}

func processFile(src, dst string, heavy bool) error {
	data, err := os.ReadFile(src)
	if err != nil {
		return err
	}
	if bytes.Contains(data, []byte("//go:")) || bytes.Contains(data, []byte("// +build")) || bytes.Contains(data, []byte("import \"C\"")) {
		// directives could be displaced by re-printing: leave such files uninstrumented (none in the pinned tree)
		return nil
	}
	fset := token.NewFileSet()
	f, err := parser.ParseFile(fset, src, data, parser.SkipObjectResolution) // comments dropped on purpose
	if err != nil {
		return err
	}
	in := &instr{heavy: heavy}
	before := points
	// function literals first (their bodies are not reached through the statement walk of expressions)
	ast.Inspect(f, func(n ast.Node) bool {
		if fl, ok := n.(*ast.FuncLit); ok {
			// instrument only the top level of the literal here; nested statements via in.list recursion
			fl.Body.List = in.listShallowThenDeep(fl.Body.List)
		}
		return true
	})
	for _, d := range f.Decls {
		fd, ok := d.(*ast.FuncDecl)
		if !ok || fd.Body == nil || (fd.Recv == nil && fd.Name.Name == "init") {
			continue
		}
		fd.Body.List = in.listShallowThenDeep(fd.Body.List)
	}
	usesSync := false
	for _, im := range f.Imports {
		if p, _ := strconv.Unquote(im.Path.Value); p == "sync" {
			im.Path.Value = strconv.Quote(syncShim)
			if im.Name == nil {
				im.Name = ast.NewIdent("sync")
			}
			usesSync = true
		}
	}
	_ = usesSync
	if points == before {
		return nil // nothing to instrument (constants, types only)
	}
	// add the runtime import
	imp := &ast.ImportSpec{Name: ast.NewIdent("verifrt_sched"), Path: &ast.BasicLit{Kind: token.STRING, Value: strconv.Quote(rtPath)}}
	gd := &ast.GenDecl{Tok: token.IMPORT, Specs: []ast.Spec{imp}}
	f.Decls = append([]ast.Decl{gd}, f.Decls...)
	f.Imports = append(f.Imports, imp)
	var buf bytes.Buffer
	if err := format.Node(&buf, token.NewFileSet(), f); err != nil {
		return fmt.Errorf("%s: %v", src, err)
	}
	if err := os.MkdirAll(filepath.Dir(dst), 0o755); err != nil {
		return err
	}
	return os.WriteFile(dst, buf.Bytes(), 0o644)
}

// marks statements already processed (FuncLit bodies are visited by Inspect AND possibly again through
// an enclosing function's walk; the walk only descends into statement bodies, never into expressions,
// so each statement list is instrumented exactly once).
func (in *instr) listShallowThenDeep(stmts []ast.Stmt) []ast.Stmt { return in.list(stmts) }

func fileExists(p string) bool { _, err := os.Stat(p); return err == nil }

func main() {
	repo := flag.String("repo", "/repo", "tink tree")
	out := flag.String("out", "", "output root (files are written to <out>/repo/<relpath>)")
	heavyList := flag.String("heavy", "", "comma separated package dirs whose points are strided (PointH)")
	alt := flag.String("alt", "", "optional overlay group directory: <alt>/repo/<path> replaces the source of <repo>/<path> (selftest mutants)")
	flag.Parse()
	heavy := map[string]bool{}
	for _, h := range strings.Split(*heavyList, ",") {
		if h != "" {
			heavy[h] = true
		}
	}
	files := 0
	for _, pkg := range flag.Args() {
		dir := filepath.Join(*repo, pkg)
		ents, err := os.ReadDir(dir)
		if err != nil {
			fmt.Fprintln(os.Stderr, "inst:", err)
			os.Exit(1)
		}
		for _, e := range ents {
			n := e.Name()
			if e.IsDir() || !strings.HasSuffix(n, ".go") || strings.HasSuffix(n, "_test.go") {
				continue
			}
			before := points
			src := filepath.Join(dir, n)
			if *alt != "" {
				if a := filepath.Join(*alt, "repo", pkg, n); fileExists(a) {
					src = a
				}
			}
			if err := processFile(src, filepath.Join(*out, "repo", pkg, n), heavy[pkg]); err != nil {
				fmt.Fprintln(os.Stderr, "inst:", err)
				os.Exit(1)
			}
			if points > before {
				files++
			}
		}
	}
	fmt.Fprintf(os.Stderr, "inst: %d files, %d points\n", files, points)
}
