#!/usr/bin/env python3
"""Regenerate /verif/MANIFEST.json from mc/props/*/META.json (one per implemented check)."""
import json, os, glob
root = os.path.abspath(os.path.join(os.path.dirname(os.path.abspath(__file__)), "..", ".."))
props = [json.loads(l) for l in open(os.path.join(root, "properties.jsonl"))]
checks, claimed = [], set()
for p in props:
    pid = p["id"]
    meta = os.path.join(root, "mc", "props", pid.lower(), "META.json")
    if not os.path.exists(meta):
        continue
    m = json.load(open(meta))
    claimed.add(pid)
    checks.append({
        "property_id": pid,
        "quick_cmd": f"./check.sh {pid} quick",
        "thorough_cmd": f"./check.sh {pid} thorough",
        "evidence_file": f"/verif/evidence/{pid}.json",
        "replay_cmd_template": f"./check.sh {pid} replay {{path}}",
        "engine": m["engine"],
        "level_claimed": {"category": m["level"], "text": m["text"], "design_ref": m.get("design_ref", "DESIGN.md section 3, " + pid)},
        "level_note": m["note"],
        "technique": m["technique"],
    })
na = []
na_file = os.path.join(root, "mc", "props", "NOT_APPLICABLE.json")
reasons = json.load(open(na_file)) if os.path.exists(na_file) else {}
for p in props:
    if p["id"] not in claimed:
        na.append({"property_id": p["id"], "reason": reasons.get(p["id"], "check not built yet in this tree (work in progress); bounded-exhaustive formulation is described in DESIGN.md section 3")})
man = {
    "version": 1,
    "setup_cmd": "./setup.sh",
    "hooks": {
        "guard": "go build -overlay (files ADDED at build time from /verif/mc/overlay; no tagged sources are committed to /repo)",
        "enable": "check.sh generates overlay.json (export shims zz_verif_export.go, bridge packages verifbridge/*, std shims crypto/mldsaref + crypto/verifrand, C18: instrumented copies of /repo's current sources) and builds with `go1.26 build -overlay`",
        "baseline_off_cmd": 'for m in $(cat /w/out/gomods.txt); do MF=$(cd /repo/$m && . /w/out/goenv.sh && gomodflag); (cd /repo/$m && go test $MF -json -vet=off -count=1 -timeout 25m ./...); done',
        "source_commits": [],
        "add_only": True,
    },
    "engines": [
        {"name": "E1-enum", "path": "mc/h", "serves_properties": sorted(claimed), "kind_free_text": "exhaustive choice-tree enumeration by re-execution (product mode and deviation-bounded mode), reference-model comparison per execution"},
        {"name": "E2-space", "path": "mc/space", "serves_properties": ["C05", "C07", "C11"], "kind_free_text": "explicit-state BFS to fixpoint over real objects: successor = replay shortest history on a fresh instance + 1 op; canonical key = reflective dump of private state; conformance with a reference model on every transition"},
        {"name": "E3-sched", "path": "mc/sched", "serves_properties": ["C18"], "kind_free_text": "statement-level source instrumentation + cooperative controlled scheduler + iterative preemption-bounded DFS over all interleavings"},
        {"name": "E4-env", "path": "mc/env", "serves_properties": ["C07", "C11", "C20"], "kind_free_text": "environment seams: deterministic entropy tape under crypto/rand, scripted io.Reader/io.Writer with fault answers"},
    ],
    "checks": checks,
    "not_applicable": na,
    "notes": "All checks are bounded-exhaustive enumerations over the real code (model-checking family); see DESIGN.md. known_findings.txt lists recorded genuine defects.",
}
json.dump(man, open(os.path.join(root, "MANIFEST.json"), "w"), indent=1)
print("MANIFEST.json:", len(checks), "checks,", len(na), "not_applicable")
