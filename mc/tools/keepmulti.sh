#!/bin/bash
# usage: keepmulti.sh <tag> <ID>   for a multi-seed worktree /tmp/seed-<tag> with out/1..4: confirms each bug in its own
# scratch worktree /tmp/seed-<tag><i> (patch applied, out/ copied) through keepseed.sh, stores it as seeded/<tag><i>
set -u
tag=$1; ID=$2
for i in 1 2 3 4; do
  o=/tmp/seed-$tag/out/$i
  [ -f $o/patch.diff ] || { echo "$tag$i: no patch"; continue; }
  wt=/tmp/seed-$tag$i
  git -C /repo worktree remove --force $wt 2>/dev/null
  git -C /repo worktree add -q --detach $wt HEAD || continue
  ( cd $wt && git apply $o/patch.diff ) || { echo "$tag$i: patch does not apply"; continue; }
  mkdir -p $wt/out; cp $o/* $wt/out/
  f=$(jq -r .demo_file $o/meta.json); t=$(jq -r .demo_target $o/meta.json); r=$(jq -r .demo_run $o/meta.json)
  echo "== $tag$i: $f -> $t -run $r"
  /verif/mc/tools/keepseed.sh $tag$i $ID "cp out/$f $t && go test -vet=off -count=1 -run '$r' ./\$(dirname $t)/; rc=\$?; rm -f $t; exit \$rc" 2>&1 | grep -E "rc_with|confirmed"
done
