#!/bin/bash
# usage: keepequiv.sh <tag> <ID>    stores a property-preserving change from /tmp/seed-<tag> under /verif/seeded_equiv/<tag>/
set -u
tag=$1; ID=$2
wt=/tmp/seed-$tag; out=/verif/seeded_equiv/$tag
[ -d $wt/out ] || { echo "no $wt/out"; exit 2; }
mkdir -p $out
cd $wt
git diff -- . ':(exclude)out' ':(exclude)go.sum' > $out/patch.diff
[ -s $out/patch.diff ] || cp out/patch.diff $out/patch.diff
python3 - "$out" "$ID" "$tag" <<'PY'
import json,sys
out,ID,tag=sys.argv[1:4]
m=json.load(open(f"/tmp/seed-{tag}/out/meta.json"))
m["property_text"]=m.get("property"); m["property"]=ID; m["kind"]="property-preserving change (negative control)"
json.dump(m,open(out+"/meta.json","w"),indent=1)
PY
wc -l $out/patch.diff
