#!/usr/bin/env python3
"""Generate a `go build -overlay` file.

usage: mkoverlay.py <out.json> <group>...   (env: VERIF_REPO, VERIF_GOROOT)
Each group is a directory /verif/mc/overlay/<group>/ with sub-trees
  repo/<path>    -> added at  $VERIF_REPO/<path>         (export shims, bridge packages)
  goroot/<path>  -> added at  $VERIF_GOROOT/src/<path>   (virtual std packages)
An extra group given as an absolute path is used as is (generated trees, e.g. C18
instrumented sources, mutants for the selftest).
Only ADDS files unless the group is an absolute path (generated replacement trees).

Seam stubs: a shim X.go that reaches into UNEXPORTED names of tink may have a sibling X.go.stub with the same
exported API and no reference to tink internals. Normally the stub is ignored; with VERIF_STUBS=1 (set by check.sh
after the normal build failed) the stub takes the place of X.go, so that a refactoring of tink internals costs the
seam-level sections only, not the whole check.
"""
import json, os, sys
out = sys.argv[1]
repo = os.environ.get("VERIF_REPO", "/repo")
goroot = os.environ["VERIF_GOROOT"]
base = os.path.join(os.path.dirname(os.path.abspath(__file__)), "..", "overlay")
rep = {}
for g in sys.argv[2:]:
    gdir = g if os.path.isabs(g) else os.path.join(base, g)
    if not os.path.isdir(gdir):
        sys.exit("mkoverlay: no such group " + gdir)
    for sub, root in (("repo", repo), ("goroot", os.path.join(goroot, "src"))):
        top = os.path.join(gdir, sub)
        for d, _, files in os.walk(top):
            for f in sorted(files):
                src = os.path.join(d, f)
                if f.endswith(".stub"):
                    if os.environ.get("VERIF_STUBS") != "1":
                        continue
                    rep[os.path.join(root, os.path.relpath(src[:-5], top))] = os.path.abspath(src)
                    continue
                if os.environ.get("VERIF_STUBS") == "1" and os.path.exists(src + ".stub"):
                    continue
                rel = os.path.relpath(src, top)
                dst = os.path.join(root, rel)
                if not os.path.isabs(g) and os.path.exists(dst):
                    sys.exit("mkoverlay: refusing to replace existing file " + dst)
                rep[dst] = os.path.abspath(src)
json.dump({"Replace": rep}, open(out, "w"), indent=1)
