// mutgen: a small syntactic mutation generator used to AUDIT the checks (not part of any check): it enumerates
// single-token / single-statement edits of one Go source file. The driver (mc/tools/automut.py) keeps the mutants
// that still compile and still pass the repository's own tests of the package, and runs the property's check on
// them; survivors are triaged by hand (equivalent mutant, or a gap in the check).
//
//	mutgen -file F            prints the number of mutants and one line per mutant
//	mutgen -file F -n I -out G   writes mutant I to G
package main

import (
	"flag"
	"fmt"
	"go/ast"
	"go/parser"
	"go/token"
	"os"
	"sort"
	"strconv"
	"strings"
)

type edit struct {
	off, end int
	repl     string
	desc     string
	line     int
}

func main() {
	file := flag.String("file", "", "source file")
	n := flag.Int("n", -1, "mutant index")
	out := flag.String("out", "", "output file")
	flag.Parse()
	src, err := os.ReadFile(*file)
	if err != nil {
		panic(err)
	}
	fset := token.NewFileSet()
	f, err := parser.ParseFile(fset, *file, src, parser.ParseComments)
	if err != nil {
		panic(err)
	}
	var edits []edit
	pos := func(p token.Pos) int { return fset.Position(p).Offset }
	line := func(p token.Pos) int { return fset.Position(p).Line }
	add := func(p, e token.Pos, repl, desc string) {
		edits = append(edits, edit{pos(p), pos(e), repl, desc, line(p)})
	}
	swap := map[token.Token][]string{
		token.LSS: {"<="}, token.LEQ: {"<"}, token.GTR: {">="}, token.GEQ: {">"},
		token.EQL: {"!="}, token.NEQ: {"=="}, token.LAND: {"||"}, token.LOR: {"&&"},
		token.ADD: {"-"}, token.SUB: {"+"}, token.REM: {"/"}, token.SHL: {">>"}, token.SHR: {"<<"},
		token.AND: {"|"}, token.OR: {"&"}, token.XOR: {"&"},
	}
	var inFunc bool
	var forPost = map[ast.Stmt]bool{}
	ast.Inspect(f, func(nd ast.Node) bool {
		switch v := nd.(type) {
		case *ast.FuncDecl:
			inFunc = v.Body != nil
			if v.Name.Name == "init" || v.Name.Name == "String" {
				return false
			}
		case *ast.GenDecl:
			if v.Tok == token.IMPORT {
				return false
			}
		case *ast.ForStmt:
			if v.Post != nil {
				forPost[v.Post] = true
			}
		case *ast.BinaryExpr:
			if !inFunc {
				return true
			}
			for _, r := range swap[v.Op] {
				add(v.OpPos, v.OpPos+token.Pos(len(v.Op.String())), r, fmt.Sprintf("%s -> %s", v.Op, r))
			}
		case *ast.BasicLit:
			if v.Kind == token.INT {
				if k, err := strconv.ParseInt(v.Value, 0, 64); err == nil && k < 1<<31 {
					add(v.Pos(), v.End(), strconv.FormatInt(k+1, 10), fmt.Sprintf("%s -> %d", v.Value, k+1))
					if k > 0 {
						add(v.Pos(), v.End(), strconv.FormatInt(k-1, 10), fmt.Sprintf("%s -> %d", v.Value, k-1))
					}
				}
			}
		case *ast.IfStmt:
			if _, isBin := v.Cond.(*ast.BinaryExpr); !isBin || true {
				add(v.Cond.Pos(), v.Cond.End(), "!("+string(src[pos(v.Cond.Pos()):pos(v.Cond.End())])+")", "negate if-condition")
			}
			add(v.Cond.Pos(), v.Cond.End(), "false && ("+string(src[pos(v.Cond.Pos()):pos(v.Cond.End())])+")", "if-condition forced false")
		case *ast.UnaryExpr:
			if v.Op == token.NOT {
				add(v.OpPos, v.OpPos+1, "", "drop !")
			}
		case *ast.ExprStmt:
			if c, ok := v.X.(*ast.CallExpr); ok && inFunc {
				name := string(src[pos(c.Fun.Pos()):pos(c.Fun.End())])
				if !strings.Contains(name, "Fatal") && !strings.Contains(name, "panic") {
					add(v.Pos(), v.End(), "", "delete call statement "+name)
				}
			}
		case *ast.AssignStmt:
			if forPost[v] {
				return true
			}
			switch v.Tok {
			case token.ADD_ASSIGN:
				add(v.TokPos, v.TokPos+2, "-=", "+= -> -=")
			case token.SUB_ASSIGN:
				add(v.TokPos, v.TokPos+2, "+=", "-= -> +=")
			case token.XOR_ASSIGN:
				add(v.TokPos, v.TokPos+2, "|=", "^= -> |=")
			}
		case *ast.SliceExpr:
			if v.High != nil && inFunc {
				h := string(src[pos(v.High.Pos()):pos(v.High.End())])
				add(v.High.Pos(), v.High.End(), "("+h+")-1", "slice high bound -1")
			}
			if v.Low != nil && inFunc {
				l := string(src[pos(v.Low.Pos()):pos(v.Low.End())])
				add(v.Low.Pos(), v.Low.End(), "("+l+")+1", "slice low bound +1")
			}
		}
		return true
	})
	sort.SliceStable(edits, func(i, j int) bool { return edits[i].off < edits[j].off })
	if *n < 0 {
		fmt.Println(len(edits))
		for i, e := range edits {
			fmt.Printf("%d\tline %d\t%s\n", i, e.line, e.desc)
		}
		return
	}
	e := edits[*n]
	mut := string(src[:e.off]) + e.repl + string(src[e.end:])
	if err := os.WriteFile(*out, []byte(mut), 0o644); err != nil {
		panic(err)
	}
	fmt.Printf("line %d: %s\n", e.line, e.desc)
}
