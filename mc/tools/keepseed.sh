#!/bin/bash
# usage: keepseed.sh <tag> <ID> '<demo command run inside the worktree; must FAIL with the change and PASS without>'
# Confirms a seeded change in its scratch worktree /tmp/seed-<tag>, stores it under /verif/seeded/<tag>/ and removes the worktree.
set -u
tag=$1; ID=$2; demo=$3
wt=/tmp/seed-$tag; out=/verif/seeded/$tag
[ -d $wt/out ] || { echo "no $wt/out"; exit 2; }
mkdir -p $out
cd $wt
git diff -- . ':(exclude)out' > /tmp/seed-$tag.cur.diff
[ -s /tmp/seed-$tag.cur.diff ] || git apply out/patch.diff
git diff -- . ':(exclude)out' > $out/patch.diff
export GOFLAGS=-mod=mod
echo "--- demo WITH the change (must fail)"; ( eval "$demo" ) > $out/demo_with.log 2>&1; rc_with=$?
git checkout -q -- . 
echo "--- demo WITHOUT the change (must pass)"; ( eval "$demo" ) > $out/demo_without.log 2>&1; rc_without=$?
git apply $out/patch.diff
git checkout -q go.sum 2>/dev/null
echo "rc_with=$rc_with rc_without=$rc_without"
cp out/*demo* $out/ 2>/dev/null
python3 - "$out" "$ID" "$rc_with" "$rc_without" "$demo" <<'PY'
import json,sys,os
out,ID,rw,rwo,demo=sys.argv[1:6]
m=json.load(open(f"/tmp/seed-{os.path.basename(out)}/out/meta.json"))
m["property_text"]=m.get("property"); m["property"]=ID
m["confirmed_by_lead"]={"demo_command":demo,"exit_with_change":int(rw),"exit_without_change":int(rwo),"ok":int(rw)!=0 and int(rwo)==0}
json.dump(m,open(out+"/meta.json","w"),indent=1)
print("confirmed:", m["confirmed_by_lead"]["ok"])
PY
tail -3 $out/demo_with.log | cut -c1-200
