#!/bin/bash
# usage: cover.sh <ID> [tier] [extra harness args]
# Coverage audit: which functions of the files anchored by property <ID> does its check execute?
# Builds the harness INSIDE a scratch copy of the tink module (shims materialised, harness packages copied to
# verifharness/ with rewritten import paths) with `-cover -coverpkg=./...`, runs it and lists anchored functions
# with low statement coverage. (go's cover tool neither reads overlay-only files nor instruments packages of a
# replaced module, hence the copy.)
set -u
cd "$(dirname "$0")/../.."
. ./env.sh
ID=$1; TIER=${2:-quick}; id=$(echo $ID | tr A-Z a-z)
W=$VERIF_WORK/cover/$ID; rm -rf $W; mkdir -p $W/cov $W/gr
rsync -a --exclude .git $VERIF_REPO/ $W/repo/
for g in $(cat mc/props/$id/OVERLAYS); do
  [ -d mc/overlay/$g/repo ] && rsync -a mc/overlay/$g/repo/ $W/repo/
  [ -d mc/overlay/$g/goroot ] && mkdir -p $W/gr/$g && rsync -a mc/overlay/$g/goroot $W/gr/$g/
done
mkdir -p $W/repo/verifharness
for d in h ref tk env tape dump space props/$id props/aeadcfg props/keycat; do
  [ -d mc/$d ] && mkdir -p $W/repo/verifharness/$d && cp mc/$d/*.go mc/$d/*.json $W/repo/verifharness/$d/ 2>/dev/null
done
grep -rl '"verif/' $W/repo/verifharness | xargs sed -i 's,"verif/,"github.com/tink-crypto/tink-go/v2/verifharness/,'
echo 'godebug cryptocustomrand=0' >> $W/repo/go.mod
python3 mc/tools/mkoverlay.py $W/overlay.json $(ls -d $W/gr/* 2>/dev/null)
( cd $W/repo && $GO build -cover -coverpkg=./... -overlay $W/overlay.json -o $W/$id.bin ./verifharness/props/$id ) 2>&1 | grep -v "^warning: no packages" || true
[ -x $W/$id.bin ] || { echo "build failed"; exit 2; }
VERIF_COVERDIR=$W/cov GOCOVERDIR=$W/cov $W/$id.bin -tier $TIER -evidence $W/ev.json "${@:3}" > $W/run.log 2>&1; echo "run rc=$?"
$GO tool covdata textfmt -i=$W/cov -o $W/cover.txt
( cd $W/repo && $GO tool cover -func=$W/cover.txt > $W/func.txt )
python3 - "$ID" "$W/func.txt" <<'PY'
import json,sys,fnmatch,re
pid,ff=sys.argv[1:3]
p=[json.loads(l) for l in open('/verif/properties.jsonl') if json.loads(l)['id']==pid][0]
pats=p['anchors']['files']
rows=[]
for l in open(ff):
    m=re.match(r'github.com/tink-crypto/tink-go/v2/(\S+?):(\d+):\s+(\S+)\s+([\d.]+)%',l)
    if not m: continue
    f,line,fn,pct=m.group(1),int(m.group(2)),m.group(3),float(m.group(4))
    if any(fnmatch.fnmatch(f,pt) for pt in pats) and 'zz_verif' not in f and not f.startswith('verif'):
        rows.append((pct,f,fn,line))
rows.sort()
low=[r for r in rows if r[0]<70]
print(f"{pid}: {len(rows)} functions in anchored files; {sum(1 for r in rows if r[0]==0)} with 0%, {len(low)} below 70%")
for pct,f,fn,line in low[:150]:
    print(f"  {pct:5.1f}%  {f}:{line} {fn}")
PY
rm -rf $W/repo
