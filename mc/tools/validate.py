#!/usr/bin/env python3
"""Validate MANIFEST.json and evidence/*.json against the schemas in /root/.vp."""
import json, sys, glob, os
try:
    import jsonschema
except ImportError:
    sys.path.insert(0, "/opt/veriftools/pyvenv/lib/python3.11/site-packages")
    import jsonschema
root = os.path.join(os.path.dirname(os.path.abspath(__file__)), "..", "..")
ok = True
def check(path, schema):
    global ok
    try:
        jsonschema.validate(json.load(open(path)), json.load(open(schema)))
        print("ok  ", os.path.relpath(path, root))
    except Exception as e:
        ok = False
        print("FAIL", path, str(e)[:300])
check(os.path.join(root, "MANIFEST.json"), "/root/.vp/MANIFEST.schema.json")
for f in sorted(glob.glob(os.path.join(root, "evidence", "*.json"))):
    check(f, "/root/.vp/EVIDENCE.schema.json")
sys.exit(0 if ok else 1)
