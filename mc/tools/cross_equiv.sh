#!/bin/bash
# Cross-property false-alarm run: apply a property-preserving change stored for one property to the checks of OTHER
# properties that exercise the same code. usage: cross_equiv.sh "<tag> <ID> <ID> ..." ...
cd "$(dirname "$0")/../.."; . ./env.sh
mkdir -p $VERIF_WORK/xq
for spec in "$@"; do
  set -- $spec; tag=$1; shift
  for ID in "$@"; do
    d=$VERIF_WORK/xq/$tag-$ID; mkdir -p $d
    cp seeded_equiv/$tag/patch.diff $d/; echo "{\"property\": \"$ID\"}" > $d/meta.json
    ./selftest.sh -q $d 2>&1 | grep "^MUTANT" | cut -c1-220
    rm -rf $d
  done
done
