#!/usr/bin/env python3
"""Audit driver (not a check): syntactic mutants of the files a property is anchored in.
usage: automut.py <ID> [N]      N = number of mutants to try (default 30), spread evenly over the anchored files
For every chosen mutant: (1) the repository's own tests of the package must still pass (otherwise the mutant is
uninteresting: 'killed-by-repo-tests' / 'nocompile'); (2) the property's quick check runs on it through the overlay.
Results go to .work/automut/<ID>.log; patches of survivors (tests pass, check quiet) to .work/automut/<ID>/ for triage
(equivalent mutant, or a gap in the check)."""
import json, os, subprocess, sys, glob, shutil, hashlib
ROOT = os.path.dirname(os.path.dirname(os.path.dirname(os.path.abspath(__file__))))
REPO = os.environ.get("VERIF_REPO", "/repo")
ID = sys.argv[1]; N = int(sys.argv[2]) if len(sys.argv) > 2 else 30
OFFSET = float(os.environ.get("AUTOMUT_PHASE", "0.5"))
work = os.path.join(ROOT, ".work", "automut"); os.makedirs(os.path.join(work, ID), exist_ok=True)
mutgen = os.path.join(ROOT, ".work", "mutgen.bin")
if not os.path.exists(mutgen):
    subprocess.check_call(["go1.26", "build", "-o", mutgen, "./tools/mutgen"], cwd=os.path.join(ROOT, "mc"))
prop = [json.loads(l) for l in open(os.path.join(ROOT, "properties.jsonl")) if json.loads(l)["id"] == ID][0]
files = []
for pat in prop["anchors"]["files"]:
    for f in sorted(glob.glob(os.path.join(REPO, pat))):
        if f.endswith(".go") and not f.endswith("_test.go") and f not in files:
            files.append(f)
counts = {}
for f in files:
    out = subprocess.run([mutgen, "-file", f], capture_output=True, text=True).stdout.split("\n")
    counts[f] = int(out[0]) if out and out[0].isdigit() else 0
total = sum(counts.values())
chosen = []
for f in files:
    m = counts[f]
    if m == 0: continue
    k = max(1, round(N * m / total))
    for j in range(k):
        chosen.append((f, min(m - 1, int((j + OFFSET) * m / k))))
log = open(os.path.join(work, ID + ".log"), "a")
def say(s):
    print(s, flush=True); log.write(s + "\n"); log.flush()
say(f"# {ID}: {len(files)} anchored files, {total} mutants possible, trying {len(chosen)} (phase {OFFSET})")
env = dict(os.environ); 
for (f, i) in chosen:
    rel = os.path.relpath(f, REPO); tag = rel.replace("/", "_")[:-3] + f"-{i}"
    tmp = os.path.join(work, ID, "tmp-" + tag); shutil.rmtree(tmp, ignore_errors=True)
    os.makedirs(os.path.join(tmp, "repo", os.path.dirname(rel)))
    mf = os.path.join(tmp, "repo", rel)
    desc = subprocess.run([mutgen, "-file", f, "-n", str(i), "-out", mf], capture_output=True, text=True).stdout.strip()
    # (1) repo tests of the package
    ov = os.path.join(tmp, "ov.json"); json.dump({"Replace": {f: mf}}, open(ov, "w"))
    os.makedirs(os.path.join(tmp, "mod")); shutil.copy(os.path.join(REPO, "go.mod"), tmp + "/mod/"); shutil.copy(os.path.join(REPO, "go.sum"), tmp + "/mod/")
    tenv = {k: v for k, v in os.environ.items() if k not in ("GOSUMDB", "GOPROXY")}; tenv.update(GOTOOLCHAIN="auto", GOFLAGS="-mod=mod")
    try:
        r = subprocess.run(["go", "test", "-modfile=" + tmp + "/mod/go.mod", "-overlay", ov, "-vet=off", "-count=1", "-timeout", "300s", "./" + os.path.dirname(rel)],
                           cwd=REPO, env=tenv, capture_output=True, text=True, timeout=400)
        trc = r.returncode; tout = r.stdout + r.stderr
    except subprocess.TimeoutExpired:
        trc = 99; tout = "timeout"
    if trc != 0:
        kind = "nocompile" if ("[build failed]" in tout or "[setup failed]" in tout) else "killed-by-repo-tests"
        say(f"{ID}\t{rel}#{i}\t{desc}\t{kind}")
        shutil.rmtree(tmp, ignore_errors=True); continue
    # (2) the check
    cenv = dict(os.environ); cenv.update(VERIF_WORK=os.path.join(tmp, "work"), VERIF_EVIDENCE_DIR=os.path.join(tmp, "ev"), VERIF_EXTRA_OVERLAY=tmp)
    try:
        r = subprocess.run([os.path.join(ROOT, "check.sh"), ID, "quick"], cwd=ROOT, env=cenv, capture_output=True, text=True, timeout=1500)
        rc = r.returncode; out = r.stdout + r.stderr
    except subprocess.TimeoutExpired:
        rc = 98; out = "timeout"
    if rc == 1 and ("VIOLATION property=" + ID) in out:
        sec = [l for l in out.split("\n") if "violation in section" in l][:1]
        say(f"{ID}\t{rel}#{i}\t{desc}\tCAUGHT\t{(sec[0][:140] if sec else '')}")
    else:
        say(f"{ID}\t{rel}#{i}\t{desc}\tSURVIVED(rc={rc})")
        d = subprocess.run(["diff", "-u", "--label", "a/" + rel, "--label", "b/" + rel, f, mf], capture_output=True, text=True).stdout
        open(os.path.join(work, ID, tag + ".patch"), "w").write(d)
        if rc not in (0, 1):
            open(os.path.join(work, ID, tag + ".out"), "w").write(out[-4000:])
    shutil.rmtree(tmp, ignore_errors=True)
say(f"# {ID}: done")
