// Package space is engine E2: explicit-state breadth-first search over REAL objects.
// Live Go objects cannot be cloned, so a state is represented by the shortest operation history
// that reaches it; a successor is computed by building a fresh instance, replaying the history
// and applying one more operation. The caller's step function checks the reference model and the
// invariants on the last transition and returns the canonical key of the reached state.
package space

import (
	"crypto/sha256"
	"runtime"
	"sync"
	"sync/atomic"
	"time"
)

type Config struct {
	// NumOps is the size of the operation alphabet at a state reached by hist.
	NumOps func(hist []int) int
	// MaxDepth bounds the history length (0 = until fixpoint).
	MaxDepth int
	Workers  int
	// MaxStates caps the search (0 = none); hitting it is reported in Stats.Capped.
	MaxStates int
	Deadline  time.Time
	Progress  func(depth, states, transitions, frontier int)
	// Stop is polled between states; returning true ends the search (e.g. enough violations found).
	Stop func() bool
}

type Stats struct {
	States      int64 // distinct canonical keys
	Transitions int64 // successor computations (each validated against the model by run)
	Pruned      int64 // transitions whose op was not applicable
	Depth       int   // depth of the last non-empty frontier
	Fixpoint    bool  // true iff the frontier became empty (closed state graph)
	Capped      string
	Sample      [][]int
}

// Explore runs BFS from the empty history. run(hist) must replay hist on a fresh instance, judge
// the LAST transition (report violations itself) and return the canonical key of the state reached;
// ok=false prunes (operation not applicable / not enabled in that state); stop=true means the
// state is terminal (not expanded).
func Explore(cfg Config, run func(hist []int) (key string, ok bool, terminal bool)) Stats {
	if cfg.Workers <= 0 {
		cfg.Workers = runtime.NumCPU()
	}
	var st Stats
	var stopped atomic.Bool
	seen := map[[16]byte]struct{}{}
	hk := func(k string) [16]byte {
		d := sha256.Sum256([]byte(k))
		var o [16]byte
		copy(o[:], d[:16])
		return o
	}
	var mu sync.Mutex
	k0, _, _ := run(nil)
	seen[hk(k0)] = struct{}{}
	st.States = 1
	frontier := [][]int{{}}
	depth := 0
	for len(frontier) > 0 {
		if cfg.MaxDepth > 0 && depth >= cfg.MaxDepth {
			st.Capped = "max depth reached with non-empty frontier"
			break
		}
		if !cfg.Deadline.IsZero() && time.Now().After(cfg.Deadline) {
			st.Capped = "deadline"
			break
		}
		if cfg.MaxStates > 0 && int(st.States) >= cfg.MaxStates {
			st.Capped = "max states"
			break
		}
		var next [][]int
		var idx int64 = -1
		var wg sync.WaitGroup
		for w := 0; w < cfg.Workers; w++ {
			wg.Add(1)
			go func() {
				defer wg.Done()
				for {
					i := int(atomic.AddInt64(&idx, 1))
					if i >= len(frontier) {
						return
					}
					if cfg.Stop != nil && cfg.Stop() {
						stopped.Store(true)
						return
					}
					hist := frontier[i]
					n := cfg.NumOps(hist)
					for op := 0; op < n; op++ {
						nh := make([]int, len(hist)+1)
						copy(nh, hist)
						nh[len(hist)] = op
						key, ok, term := run(nh)
						atomic.AddInt64(&st.Transitions, 1)
						if !ok {
							atomic.AddInt64(&st.Pruned, 1)
							continue
						}
						kh := hk(key)
						mu.Lock()
						if _, dup := seen[kh]; !dup {
							seen[kh] = struct{}{}
							st.States++
							if !term {
								next = append(next, nh)
							}
							if len(st.Sample) < 4 || (len(nh) > len(st.Sample[len(st.Sample)-1]) && len(st.Sample) < 8) {
								st.Sample = append(st.Sample, nh)
							}
						}
						mu.Unlock()
					}
				}
			}()
		}
		wg.Wait()
		if stopped.Load() {
			st.Capped = "stopped by caller (violations found)"
			break
		}
		if cfg.Progress != nil {
			cfg.Progress(depth+1, int(st.States), int(st.Transitions), len(next))
		}
		frontier = next
		if len(next) > 0 {
			depth++
		}
	}
	st.Depth = depth
	st.Fixpoint = len(frontier) == 0
	return st
}
