// Package h is the shared harness runtime of the /verif model-checking machinery:
// engine E1 (exhaustive choice-tree enumeration by re-execution, product and
// deviation-bounded modes), violation / replay / known-finding handling and the
// evidence writer. Every check under verif/props/cNN is a main program built on it.
package h

import (
	"encoding/json"
	"flag"
	"fmt"
	"hash/fnv"
	"os"
	"path/filepath"
	"runtime"
	"runtime/coverage"
	"runtime/debug"
	"runtime/pprof"
	"sort"
	"strings"
	"sync"
	"sync/atomic"
	"time"
)

// Section is one enumerated space: Body is run to completion once for every
// choice vector. Bound < 0: full product. Bound >= 0: Deviate() points default
// to 0 and every non-default answer costs one unit; all executions with at most
// Bound units are explored (bounds 0..Bound, iteratively).
type Section struct {
	Name   string
	Body   func(x *X)
	Bound  int    // deviation bound, -1 = none
	Serial bool   // run with a single worker (global entropy tape etc.)
	Tiers  string // "" = both, "quick" or "thorough" = only that tier
	// Seam: the section needs an export shim into UNEXPORTED tink names. When the shims could not be built against
	// the tree (tink internals refactored; check.sh then builds the stubs and sets VERIF_NOSEAMS) it is skipped.
	Seam bool
}

type point struct {
	n   int
	dev bool
}

// X is the context of one execution of a section body.
type X struct {
	run     *Run
	sec     *secState
	prefix  []int
	choices []int
	points  []point
	names   []string
	labels  []string
	nontriv bool
	failed  []Violation
	replay  bool
	log     []string
}

type Violation struct {
	Property string   `json:"property"`
	Section  string   `json:"section"`
	Key      string   `json:"finding_key"`
	Msg      string   `json:"message"`
	Choices  []int    `json:"choices"`
	Names    []string `json:"names,omitempty"`
	Labels   []string `json:"labels,omitempty"`
	Tier     string   `json:"tier"`
}

type secState struct {
	sec       *Section
	leaves    int64
	evals     int64
	nontriv   int64
	mu        sync.Mutex
	outcomes  map[string]int64
	samples   []any
	seen      map[uint64]struct{}
	completed int // deviation bound completed
	capped    bool
	stopped   bool // exploration ended early (deadline, violation limit): the current bound was NOT completed
	maxDepth  int
	extra     map[string]int64
}

type Run struct {
	Prop          string
	Level         string
	Tier          string
	Seed          int64
	Workers       int
	start         time.Time
	deadline      time.Time
	secs          []*secState
	mu            sync.Mutex
	violations    []Violation
	known         map[string]string // finding key -> description
	knownHit      map[string]int64
	Assumptions   []string
	Rule          string
	Extra         map[string]any
	States        int64
	Transitions   int64
	Traces        int64
	mcSamples     []any
	notExh        []string
	evidence      string
	onlySec       string
	replaying     bool
	extReplayHits int
}

var theRun *Run

func (x *X) Tier() string    { return x.run.Tier }
func (x *X) Thorough() bool  { return x.run.Tier == "thorough" }
func (x *X) Replaying() bool { return x.replay }

// ReplayVector returns the raw choice vector of the replay file (used by sections whose
// violations come from engines E2/E3 and carry an operation history or a schedule).
func (x *X) ReplayVector() []int { return x.prefix }

// Choose returns a value in [0,n); every value is explored.
func (x *X) Choose(name string, n int) int { return x.choose(name, n, false) }

// Deviate is like Choose but non-zero answers count against the deviation bound.
func (x *X) Deviate(name string, n int) int { return x.choose(name, n, true) }

func (x *X) choose(name string, n int, dev bool) int {
	if n <= 0 {
		panic(fmt.Sprintf("h: choice %q with empty domain", name))
	}
	i := len(x.choices)
	c := 0
	if i < len(x.prefix) {
		c = x.prefix[i]
		if c >= n {
			panic(fmt.Sprintf("h: replay divergence at point %d (%s): choice %d out of range %d", i, name, c, n))
		}
	}
	x.choices = append(x.choices, c)
	x.points = append(x.points, point{n, dev})
	x.names = append(x.names, name)
	x.labels = append(x.labels, "")
	return c
}

// Pick chooses one element of dom (all are explored) and records its printed form.
func Pick[T any](x *X, name string, dom []T) T {
	c := x.Choose(name, len(dom))
	x.labels[len(x.labels)-1] = fmt.Sprint(dom[c])
	return dom[c]
}

// PickDev is Pick with deviation cost for non-default elements.
func PickDev[T any](x *X, name string, dom []T) T {
	c := x.Deviate(name, len(dom))
	x.labels[len(x.labels)-1] = fmt.Sprint(dom[c])
	return dom[c]
}

// Label overrides the printed form of the last choice.
func (x *X) Label(s string) {
	if len(x.labels) > 0 {
		x.labels[len(x.labels)-1] = s
	}
}

// Eval counts n oracle evaluations performed inside this execution.
func (x *X) Eval(n int) { atomic.AddInt64(&x.sec.evals, int64(n)) }

// NonTrivial marks this execution as non-trivial by the section's rule.
func (x *X) NonTrivial() { x.nontriv = true }

// Outcome tallies an outcome class (exposes vacuity in the evidence).
// NotExhaustive marks the section as not exhaustively covered (reported as capped / exhaustive:false, exit code
// unaffected): the body met something it cannot enumerate soundly on this tree.
func (x *X) NotExhaustive() { x.sec.capped = true }

func (x *X) Outcome(class string) { x.OutcomeN(class, 1) }
func (x *X) OutcomeN(class string, n int) {
	x.sec.mu.Lock()
	x.sec.outcomes[class] += int64(n)
	x.sec.mu.Unlock()
}

// Count adds to a named per-section counter reported in the evidence.
func (x *X) Count(name string, n int) {
	x.sec.mu.Lock()
	x.sec.extra[name] += int64(n)
	x.sec.mu.Unlock()
}

func (x *X) Logf(format string, a ...any) {
	if x.replay {
		x.log = append(x.log, fmt.Sprintf(format, a...))
	}
}

// Fail records a violation of the property in this execution. key is the stable
// finding key (matched against known_findings.txt).
func (x *X) Fail(key, format string, a ...any) {
	v := Violation{Property: x.run.Prop, Section: x.sec.sec.Name, Key: key, Msg: fmt.Sprintf(format, a...), Tier: x.run.Tier}
	x.failed = append(x.failed, v)
}

// Check is Fail unless ok.
func (x *X) Check(ok bool, key, format string, a ...any) bool {
	if !ok {
		x.Fail(key, format, a...)
	}
	return ok
}

// Try runs f and reports whether it panicked (with the panic text).
func Try(f func()) (panicked bool, msg string) {
	defer func() {
		if r := recover(); r != nil {
			panicked = true
			msg = fmt.Sprintf("%v\n%s", r, shortStack())
		}
	}()
	f()
	return
}

func shortStack() string {
	s := string(debug.Stack())
	lines := strings.Split(s, "\n")
	var out []string
	for _, l := range lines {
		if strings.Contains(l, "tink-go") || strings.Contains(l, "/repo/") {
			out = append(out, strings.TrimSpace(l))
		}
		if len(out) >= 8 {
			break
		}
	}
	return strings.Join(out, " | ")
}

func (r *Run) execute(ss *secState, prefix []int, replay bool) *X {
	x := &X{run: r, sec: ss, prefix: prefix, replay: replay}
	func() {
		defer func() {
			if rec := recover(); rec != nil {
				msg := fmt.Sprintf("%v", rec)
				if strings.HasPrefix(msg, "h: ") {
					panic(rec)
				}
				x.Fail("panic", "panic escaped from section body: %v [%s]", rec, shortStack())
			}
		}()
		ss.sec.Body(x)
	}()
	return x
}

func (x *X) sample() any {
	m := map[string]any{"section": x.sec.sec.Name}
	ch := make([]string, len(x.choices))
	for i := range x.choices {
		l := x.labels[i]
		if l == "" {
			l = fmt.Sprint(x.choices[i])
		}
		ch[i] = x.names[i] + "=" + l
	}
	m["choices"] = ch
	return m
}

func (r *Run) finish(ss *secState, x *X) {
	atomic.AddInt64(&ss.leaves, 1)
	h := fnv.New64a()
	for _, c := range x.choices {
		var b [4]byte
		b[0], b[1], b[2], b[3] = byte(c), byte(c>>8), byte(c>>16), byte(c>>24)
		h.Write(b[:])
	}
	key := h.Sum64()
	ss.mu.Lock()
	if x.nontriv {
		if _, ok := ss.seen[key]; !ok {
			ss.seen[key] = struct{}{}
			ss.nontriv++
		}
	}
	if len(x.choices) > ss.maxDepth {
		ss.maxDepth = len(x.choices)
	}
	if len(ss.samples) < 3 || (x.nontriv && len(ss.samples) < 5 && ss.leaves%97 == 0) {
		ss.samples = append(ss.samples, x.sample())
	}
	ss.mu.Unlock()
	if len(x.failed) > 0 {
		r.mu.Lock()
		for _, v := range x.failed {
			v.Choices = append([]int{}, x.choices...)
			v.Names = append([]string{}, x.names...)
			v.Labels = append([]string{}, x.labels...)
			if d, ok := r.known[v.Key]; ok {
				_ = d
				r.knownHit[v.Key]++
				continue
			}
			if len(r.violations) < 2000 {
				r.violations = append(r.violations, v)
			}
		}
		r.mu.Unlock()
	}
}

// explore runs the section exhaustively (within bound) using `workers` goroutines.
func (r *Run) explore(ss *secState, bound int) {
	workers := r.Workers
	if ss.sec.Serial {
		workers = 1
	}
	type item struct {
		prefix []int
		cost   int
	}
	var mu sync.Mutex
	cond := sync.NewCond(&mu)
	stack := []item{{nil, 0}}
	active := 0
	stop := false
	var wg sync.WaitGroup
	for w := 0; w < workers; w++ {
		wg.Add(1)
		go func() {
			defer wg.Done()
			for {
				mu.Lock()
				for len(stack) == 0 && active > 0 && !stop {
					cond.Wait()
				}
				if stop || (len(stack) == 0 && active == 0) {
					mu.Unlock()
					cond.Broadcast()
					return
				}
				it := stack[len(stack)-1]
				stack = stack[:len(stack)-1]
				active++
				mu.Unlock()

				x := r.execute(ss, it.prefix, false)
				r.finish(ss, x)
				var next []item
				// alternatives, deepest position last so that LIFO order is depth-first
				cost := it.cost
				costs := make([]int, len(x.choices)+1)
				c := 0
				for i := range x.choices {
					costs[i] = c
					if x.points[i].dev && x.choices[i] != 0 {
						c++
					}
				}
				_ = cost
				for i := len(x.choices) - 1; i >= len(it.prefix); i-- {
					p := x.points[i]
					extra := 0
					if p.dev {
						extra = 1
					}
					if bound >= 0 && costs[i]+extra > bound {
						continue
					}
					for alt := p.n - 1; alt >= 1; alt-- {
						np := make([]int, i+1)
						copy(np, x.choices[:i])
						np[i] = alt
						next = append(next, item{np, costs[i] + extra})
					}
				}
				mu.Lock()
				// push so that the smallest alternative of the deepest point is on top
				for j := len(next) - 1; j >= 0; j-- {
					stack = append(stack, next[j])
				}
				active--
				if !r.deadline.IsZero() && time.Now().After(r.deadline) {
					stop = true
					ss.capped = true
					ss.stopped = true
				}
				r.mu.Lock()
				if len(r.violations) >= 200 {
					stop = true
					ss.capped = true
					ss.stopped = true
				}
				r.mu.Unlock()
				mu.Unlock()
				cond.Broadcast()
			}
		}()
	}
	wg.Wait()
}

// AddMC accumulates model-checking counters (states, transitions, traces validated).
func AddMC(states, transitions, traces int64) {
	atomic.AddInt64(&theRun.States, states)
	atomic.AddInt64(&theRun.Transitions, transitions)
	atomic.AddInt64(&theRun.Traces, traces)
}

// MCSample stores an example trace for the evidence file (first few kept).
func MCSample(v any) {
	theRun.mu.Lock()
	if len(theRun.mcSamples) < 6 {
		theRun.mcSamples = append(theRun.mcSamples, v)
	}
	theRun.mu.Unlock()
}

// NotExhaustive records that some cap was hit.
func NotExhaustive(why string) {
	theRun.mu.Lock()
	theRun.notExh = append(theRun.notExh, why)
	theRun.mu.Unlock()
}

// SetExtra stores an extra key in the evidence coverage object.
func SetExtra(k string, v any) {
	theRun.mu.Lock()
	theRun.Extra[k] = v
	theRun.mu.Unlock()
}

func Assume(s string) {
	theRun.mu.Lock()
	theRun.Assumptions = append(theRun.Assumptions, s)
	theRun.mu.Unlock()
}

func TierIs(t string) bool { return theRun.Tier == t }
func IsThorough() bool     { return theRun.Tier == "thorough" }
func Seed() int64          { return theRun.Seed }

func loadKnown(prop string) map[string]string {
	m := map[string]string{}
	root := os.Getenv("VERIF_ROOT")
	if root == "" {
		root = "/verif"
	}
	b, err := os.ReadFile(filepath.Join(root, "known_findings.txt"))
	if err != nil {
		return m
	}
	for _, line := range strings.Split(string(b), "\n") {
		line = strings.TrimSpace(line)
		if !strings.HasPrefix(line, "finding:") {
			continue
		}
		// finding: property=C03 key=<key> :: description
		rest := strings.TrimSpace(strings.TrimPrefix(line, "finding:"))
		parts := strings.SplitN(rest, "::", 2)
		fields := strings.Fields(parts[0])
		var p, k string
		for _, f := range fields {
			if strings.HasPrefix(f, "property=") {
				p = strings.TrimPrefix(f, "property=")
			}
			if strings.HasPrefix(f, "key=") {
				k = strings.TrimPrefix(f, "key=")
			}
		}
		if p == prop && k != "" {
			d := k
			if len(parts) == 2 {
				d = k + " " + strings.TrimSpace(parts[1])
			}
			m[k] = d
		}
	}
	return m
}

// Main runs a check: parses flags, explores every section, writes evidence,
// prints KNOWN-FINDING / VIOLATION lines and exits 0 / 1.
// Seams reports whether the export shims into unexported tink names were built (see Section.Seam). Bodies that use
// a seam inside an otherwise API-level section guard that part with it.
func Seams() bool { return os.Getenv("VERIF_NOSEAMS") == "" }

func Main(prop, level, rule string, sections []Section) {
	tier := flag.String("tier", "quick", "quick|thorough")
	replay := flag.String("replay", "", "replay file")
	evidence := flag.String("evidence", "", "evidence file to write")
	workers := flag.Int("workers", runtime.NumCPU(), "worker goroutines")
	only := flag.String("section", "", "only run sections with this prefix")
	maxmin := flag.Float64("deadline-min", 0, "internal deadline in minutes (0 = tier default)")
	cpuprof := flag.String("cpuprofile", "", "write CPU profile")
	flag.Parse()
	if *cpuprof != "" {
		f, _ := os.Create(*cpuprof)
		pprof.StartCPUProfile(f)
		stopProfile = func() { pprof.StopCPUProfile(); f.Close() }
	}
	r := &Run{Prop: prop, Level: level, Tier: *tier, Workers: *workers, start: time.Now(), Rule: rule,
		known: loadKnown(prop), knownHit: map[string]int64{}, Extra: map[string]any{}, evidence: *evidence, onlySec: *only}
	if s := os.Getenv("VERIF_SEED"); s != "" {
		fmt.Sscan(s, &r.Seed)
	}
	theRun = r
	if !Seams() {
		r.Assumptions = append(r.Assumptions, "internal seams unavailable on this tree (tink internals refactored): seam-level sections skipped, API-level sections ran")
	}
	dl := *maxmin
	if dl == 0 {
		if r.Tier == "quick" {
			dl = 12
		} else {
			dl = 90
		}
	}
	r.deadline = r.start.Add(time.Duration(dl * float64(time.Minute)))
	for i := range sections {
		s := &sections[i]
		r.secs = append(r.secs, &secState{sec: s, outcomes: map[string]int64{}, seen: map[uint64]struct{}{}, extra: map[string]int64{}})
	}
	if *replay != "" {
		os.Exit(r.doReplay(*replay))
	}
	for _, ss := range r.secs {
		if r.onlySec != "" && !strings.HasPrefix(ss.sec.Name, r.onlySec) {
			continue
		}
		if ss.sec.Tiers != "" && ss.sec.Tiers != r.Tier {
			continue
		}
		if ss.sec.Seam && !Seams() {
			fmt.Printf("[%s] section %-28s SKIPPED: internal seam unavailable on this tree\n", prop, ss.sec.Name)
			continue
		}
		t0 := time.Now()
		if ss.sec.Bound < 0 {
			r.explore(ss, -1)
		} else {
			// Iterative bounding: every smaller bound first (cheap next to the last one: the exploration at bound B
			// contains all executions of the smaller bounds), into scratch statistics. The first counterexample then
			// has the fewest deviations, and a run that hits its deadline inside the last bound still reports the bound
			// it COMPLETED (-1: not even the default execution).
			ss.completed = -1
			nviol := func() int { r.mu.Lock(); defer r.mu.Unlock(); return len(r.violations) }
			v0, done := nviol(), false
			adopt := func(sc *secState) {
				ss.leaves, ss.evals, ss.nontriv, ss.outcomes, ss.samples, ss.seen = sc.leaves, sc.evals, sc.nontriv, sc.outcomes, sc.samples, sc.seen
				ss.capped, ss.stopped, ss.maxDepth, ss.extra = sc.capped, sc.stopped, sc.maxDepth, sc.extra
			}
			for b := 0; b < ss.sec.Bound && !done; b++ {
				sc := &secState{sec: ss.sec, outcomes: map[string]int64{}, seen: map[uint64]struct{}{}, extra: map[string]int64{}}
				r.explore(sc, b)
				if !sc.stopped {
					ss.completed = b
				}
				if sc.stopped || nviol() > v0 {
					adopt(sc) // out of time, or the minimal counterexample is in hand: the larger bounds are not run
					if !sc.stopped {
						ss.capped = true
					}
					done = true
				}
			}
			if !done {
				r.explore(ss, ss.sec.Bound)
				if !ss.stopped {
					ss.completed = ss.sec.Bound
				}
			}
		}
		fmt.Printf("[%s] section %-28s leaves=%d evals=%d nontrivial=%d outcomes=%d %.1fs%s\n", prop, ss.sec.Name,
			ss.leaves, ss.evals, ss.nontriv, len(ss.outcomes), time.Since(t0).Seconds(), map[bool]string{true: " CAPPED", false: ""}[ss.capped])
	}
	os.Exit(r.report())
}

var stopProfile = func() {}

func (r *Run) report() int {
	stopProfile()
	if d := os.Getenv("VERIF_COVERDIR"); d != "" { // coverage audit builds (mc/tools/cover.sh)
		if err := coverage.WriteMetaDir(d); err != nil {
			fmt.Println("coverage:", err)
		}
		coverage.WriteCountersDir(d)
	}
	// confirm violations by re-execution (determinism), keep the smallest per key
	sort.Slice(r.violations, func(i, j int) bool {
		a, b := r.violations[i], r.violations[j]
		if a.Section != b.Section {
			return a.Section < b.Section
		}
		if len(a.Choices) != len(b.Choices) {
			return len(a.Choices) < len(b.Choices)
		}
		for k := range a.Choices {
			if a.Choices[k] != b.Choices[k] {
				return a.Choices[k] < b.Choices[k]
			}
		}
		return a.Key < b.Key
	})
	seenKey := map[string]bool{}
	var confirmed []Violation
	flaky := 0
	for _, v := range r.violations {
		k := v.Section + "|" + v.Key
		if seenKey[k] {
			continue
		}
		seenKey[k] = true
		if len(confirmed) >= 10 {
			break
		}
		ss := r.section(v.Section)
		ok := true
		if ss != nil && !strings.HasPrefix(v.Section, "@") {
			for i := 0; i < 5; i++ {
				x := r.execute(ss, v.Choices, true)
				found := false
				for _, f := range x.failed {
					if f.Key == v.Key {
						found = true
					}
				}
				if !found {
					ok = false
					break
				}
			}
		}
		if ok {
			confirmed = append(confirmed, v)
		} else {
			flaky++
			fmt.Printf("[%s] NOTE: a reported failure (%s / %s) did not reproduce in 5 re-executions: %s\n", r.Prop, v.Section, v.Key, v.Msg)
			confirmed = append(confirmed, v) // a non-reproducing failure of a deterministic body is still a failure of the property (hidden state)
		}
	}
	var known []string
	for k := range r.knownHit {
		known = append(known, k)
	}
	sort.Strings(known)
	for _, k := range known {
		fmt.Printf("KNOWN-FINDING: property=%s %s (met %d times)\n", r.Prop, r.known[k], r.knownHit[k])
	}
	root := os.Getenv("VERIF_ROOT")
	if root == "" {
		root = "/verif"
	}
	for i, v := range confirmed {
		dir := filepath.Join(root, "replays")
		os.MkdirAll(dir, 0o755)
		p := filepath.Join(dir, fmt.Sprintf("%s%s-%d.json", r.Prop, os.Getenv("VERIF_REPLAY_TAG"), i+1))
		b, _ := json.MarshalIndent(v, "", " ")
		os.WriteFile(p, b, 0o644)
		fmt.Printf("[%s] violation in section %s key=%s: %s\n", r.Prop, v.Section, v.Key, trunc(v.Msg, 1200))
		fmt.Printf("VIOLATION property=%s replay=%s\n", r.Prop, p)
	}
	r.writeEvidence(len(confirmed), known)
	if len(confirmed) > 0 {
		return 1
	}
	fmt.Printf("[%s] OK tier=%s wall=%.1fs\n", r.Prop, r.Tier, time.Since(r.start).Seconds())
	return 0
}

func trunc(s string, n int) string {
	if len(s) > n {
		return s[:n] + "…"
	}
	return s
}

func (r *Run) section(name string) *secState {
	for _, ss := range r.secs {
		if ss.sec.Name == name {
			return ss
		}
	}
	return nil
}

// ReportExternal records a violation found by machinery outside the choice-tree
// engine (BFS / scheduler); replay data is stored verbatim in the replay file.
func ReportExternal(section, key, msg string, choices []int, labels []string) {
	r := theRun
	r.mu.Lock()
	defer r.mu.Unlock()
	if _, ok := r.known[key]; ok {
		r.knownHit[key]++
		return
	}
	if r.replaying {
		fmt.Printf("[%s] %s: %s\n", r.Prop, key, msg)
		r.extReplayHits++
		return
	}
	if len(r.violations) < 2000 {
		r.violations = append(r.violations, Violation{Property: r.Prop, Section: "@" + section, Key: key, Msg: msg, Choices: choices, Labels: labels, Tier: r.Tier})
	}
}

func (r *Run) doReplay(path string) int {
	b, err := os.ReadFile(path)
	if err != nil {
		fmt.Println("replay:", err)
		return 2
	}
	var v Violation
	if err := json.Unmarshal(b, &v); err != nil {
		fmt.Println("replay:", err)
		return 2
	}
	r.Tier = v.Tier
	name := strings.TrimPrefix(v.Section, "@")
	ss := r.section(name)
	if ss == nil {
		fmt.Println("replay: unknown section", v.Section)
		return 2
	}
	r.replaying = true
	x := r.execute(ss, v.Choices, true)
	if r.extReplayHits > 0 {
		fmt.Printf("VIOLATION property=%s replay=%s\n", r.Prop, path)
		return 1
	}
	for i := range x.choices {
		fmt.Printf("  choice %-24s = %d %s\n", x.names[i], x.choices[i], x.labels[i])
	}
	for _, l := range x.log {
		fmt.Println("  log:", l)
	}
	if len(x.failed) == 0 {
		fmt.Printf("[%s] replay: no violation in this execution\n", r.Prop)
		return 0
	}
	rc := 0
	for _, f := range x.failed {
		if _, ok := r.known[f.Key]; ok {
			fmt.Printf("KNOWN-FINDING: property=%s %s\n", r.Prop, r.known[f.Key])
			continue
		}
		fmt.Printf("[%s] %s: %s\n", r.Prop, f.Key, f.Msg)
		fmt.Printf("VIOLATION property=%s replay=%s\n", r.Prop, path)
		rc = 1
	}
	return rc
}

func (r *Run) writeEvidence(nviol int, known []string) {
	if r.evidence == "" {
		return
	}
	var evals, nontriv, leaves int64
	secs := map[string]any{}
	var samples []any
	exhaustive := true
	for _, ss := range r.secs {
		if ss.leaves == 0 {
			continue
		}
		evals += ss.evals
		if ss.evals < ss.leaves {
			evals += ss.leaves - ss.evals
		}
		nontriv += ss.nontriv
		leaves += ss.leaves
		if ss.capped {
			exhaustive = false
		}
		m := map[string]any{"executions": ss.leaves, "oracle_evaluations": ss.evals, "distinct_nontrivial_executions": ss.nontriv,
			"outcome_classes": ss.outcomes, "max_choice_depth": ss.maxDepth, "capped": ss.capped}
		if ss.sec.Bound >= 0 {
			m["deviation_bound_completed"] = ss.completed
		}
		if len(ss.extra) > 0 {
			m["counters"] = ss.extra
		}
		secs[ss.sec.Name] = m
		for i, s := range ss.samples {
			if i < 2 {
				samples = append(samples, s)
			}
		}
	}
	if len(r.notExh) > 0 {
		exhaustive = false
	}
	samples = append(samples, r.mcSamples...)
	if len(samples) > 40 {
		samples = samples[:40]
	}
	cov := map[string]any{
		"evaluations":         evals,
		"distinct_nontrivial": nontriv,
		"rule":                r.Rule,
		"samples":             samples,
		"exhaustive":          exhaustive,
		"executions":          leaves,
		"sections":            secs,
		"known_findings_met":  known,
	}
	if len(r.notExh) > 0 {
		cov["caps_hit"] = r.notExh
	}
	if r.Level == "model_checking" {
		cov["states"] = r.States
		cov["transitions"] = r.Transitions
		cov["traces_validated_against_impl"] = r.Traces
	}
	for k, v := range r.Extra {
		cov[k] = v
	}
	ev := map[string]any{
		"property_id": r.Prop,
		"tier":        r.Tier,
		"seed":        r.Seed,
		"level":       r.Level,
		"coverage":    cov,
		"assumptions": r.Assumptions,
		"wall_s":      time.Since(r.start).Seconds(),
		"violations":  nviol,
	}
	if r.Assumptions == nil {
		ev["assumptions"] = []string{}
	}
	b, _ := json.MarshalIndent(ev, "", " ")
	os.MkdirAll(filepath.Dir(r.evidence), 0o755)
	if err := os.WriteFile(r.evidence, b, 0o644); err != nil {
		fmt.Println("evidence:", err)
	}
}

// Deadline is the internal deadline of this run (exceeding it ends exploration with exhaustive:false).
func Deadline() time.Time { return theRun.deadline }

// ViolationCount returns the number of (unsuppressed) violations recorded so far.
func ViolationCount() int {
	theRun.mu.Lock()
	defer theRun.mu.Unlock()
	return len(theRun.violations)
}
