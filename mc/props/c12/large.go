package main

// Section keysets-large: keysets whose SERIALISED SIZE sits around the powers of two where hand-written read loops,
// size limits and buffer growth live (4 KiB, 64 KiB, 1 MiB; thorough: also 16 MiB): the binary form of the keyset is
// steered to exactly 2^k-1, 2^k and 2^k+1 bytes (and a little beyond) by the length of one HMAC key, a second
// key FOLLOWS the long one (so that a truncated read that happens to end at a record boundary still loses a key),
// and the handle read back through every route must equal the handle written.

import (
	"fmt"

	"google.golang.org/protobuf/proto"

	"github.com/tink-crypto/tink-go/v2/aead/aesgcm"
	"github.com/tink-crypto/tink-go/v2/insecurecleartextkeyset"
	"github.com/tink-crypto/tink-go/v2/insecuresecretdataaccess"
	"github.com/tink-crypto/tink-go/v2/key"
	"github.com/tink-crypto/tink-go/v2/keyset"
	"github.com/tink-crypto/tink-go/v2/mac/hmac"
	"github.com/tink-crypto/tink-go/v2/secretdata"
	"verif/h"
	"verif/props/keycat"
	"verif/ref"
)

func largeHandle(hmacLen int) (*keyset.Handle, error) {
	hp, err := hmac.NewParameters(hmac.ParametersOpts{KeySizeInBytes: hmacLen, TagSizeInBytes: 16, HashType: hmac.SHA256, Variant: hmac.VariantTink})
	if err != nil {
		return nil, err
	}
	hk, err := hmac.NewKey(secretdata.NewBytesFromData(ref.KeyBytes("c12-large-hmac", hmacLen), insecuresecretdataaccess.Token{}), hp, 0x0a0b0c0d)
	if err != nil {
		return nil, err
	}
	gp, err := aesgcm.NewParameters(aesgcm.ParametersOpts{KeySizeInBytes: 16, IVSizeInBytes: 12, TagSizeInBytes: 16, Variant: aesgcm.VariantTink})
	if err != nil {
		return nil, err
	}
	mk := func(label string, id uint32) (key.Key, error) {
		return aesgcm.NewKey(secretdata.NewBytesFromData(ref.KeyBytes(label, 16), insecuresecretdataaccess.Token{}), id, gp)
	}
	first, err := mk("c12-large-first", 0x01020304)
	if err != nil {
		return nil, err
	}
	last, err := mk("c12-large-last", 0x7ffffffe)
	if err != nil {
		return nil, err
	}
	m := keyset.NewManager()
	id, err := m.AddKey(first)
	if err != nil {
		return nil, err
	}
	if err := m.SetPrimary(id); err != nil {
		return nil, err
	}
	if _, err := m.AddKey(hk); err != nil {
		return nil, err
	}
	if _, err := m.AddKey(last); err != nil {
		return nil, err
	}
	return m.Handle()
}

func binarySize(hd *keyset.Handle) int {
	b, _ := proto.Marshal(insecurecleartextkeyset.KeysetMaterial(hd))
	return len(b)
}

func largeSection(x *h.X) {
	pows := []int{12, 16, 20}
	if x.Thorough() {
		pows = []int{12, 15, 16, 17, 20, 24}
	}
	k := h.Pick(x, "2^k", pows)
	delta := h.Pick(x, "delta", []int{-1, 0, 1, 4097})
	ios := keycat.IOs()
	// one route of every (kind, format) pair in quick, all of them in thorough
	var sel []keycat.IO
	seen := map[string]bool{}
	for _, io := range ios {
		kk := io.Kind + "/" + io.Format
		if io.Kind == "nosecrets" {
			continue // the keyset holds secret keys
		}
		if x.Thorough() || !seen[kk] {
			sel = append(sel, io)
		}
		seen[kk] = true
	}
	io := sel[x.Choose("route", len(sel))]
	x.Label(io.Name)
	target := 1<<k + delta
	// steer: the size is affine in the HMAC key length up to the width of two varint length prefixes
	n := target - 200
	var hd *keyset.Handle
	var err error
	for try := 0; try < 8; try++ {
		if n < 16 {
			n = 16
		}
		hd, err = largeHandle(n)
		if err != nil {
			x.Fail("construct", "large keyset (HMAC key of %d bytes): %v", n, err)
			return
		}
		sz := binarySize(hd)
		if sz == target {
			break
		}
		n += target - sz
	}
	if got := binarySize(hd); got != target {
		x.Outcome(fmt.Sprintf("size-not-steerable:2^%d%+d (got %d)", k, delta, got))
		return
	}
	x.NonTrivial()
	cfg := fmt.Sprintf("keyset of 3 keys, binary form exactly 2^%d%+d = %d bytes (HMAC key of %d bytes in the middle) via %s", k, delta, target, n, io.Name)
	blob, err := io.Write(hd)
	x.Eval(1)
	if err != nil {
		x.Fail("keyset-write-error", "%s: write: %v", cfg, err)
		return
	}
	back, err := io.Read(blob)
	x.Eval(1)
	if err != nil {
		x.Fail("keyset-read-error", "%s: the keyset just written cannot be read back: %v", cfg, err)
		return
	}
	if back.Len() != hd.Len() {
		x.Fail("keyset-roundtrip", "%s: %d keys written, %d keys read back", cfg, hd.Len(), back.Len())
		return
	}
	if !proto.Equal(insecurecleartextkeyset.KeysetMaterial(hd), insecurecleartextkeyset.KeysetMaterial(back)) {
		x.Fail("keyset-roundtrip", "%s: the keyset read back differs from the keyset written", cfg)
		return
	}
	for i := 0; i < hd.Len(); i++ {
		a, _ := hd.Entry(i)
		b, _ := back.Entry(i)
		if !a.Key().Equal(b.Key()) || a.KeyID() != b.KeyID() || a.IsPrimary() != b.IsPrimary() || a.KeyStatus() != b.KeyStatus() {
			x.Fail("keyset-roundtrip", "%s: entry %d differs after the round trip", cfg, i)
			return
		}
	}
	x.Outcome(fmt.Sprintf("large/%s/%s", io.Kind, io.Format))
}
