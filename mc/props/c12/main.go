// C12: keys, parameters and keysets survive serialization unchanged.
//
// Bounded-exhaustive enumeration (engine E1) over the key catalogue verif/props/keycat:
//
//	parameters  every family x the full over-large parameter product ("valid" = NewParameters accepts)
//	keys        every valid parameter point of the key domain x key IDs x material shapes (private and public half)
//	templates   every function of */*_key_templates.go
//	keysets     keysets of size 1..3 over one representative per type URL x statuses x primary x every writer/reader pair
//	odd-io      keysets read back through scripted io.Readers (short reads, data+EOF, persistent faults) and odd-but-legal
//	            key-encryption AEADs (see oddio.go)
//	foreign     proto encodings of big integers with stripped / extra leading zeros
//	catalogue   completeness of the catalogue against the type URLs and template functions in the source tree
//
// Oracles: Parse(Serialize(v)).Equal(v) in both directions, second serialisation proto-equal and
// deterministic-marshal byte-identical, type URL / key material type / OutputPrefixType / ID requirement /
// OutputPrefix per the independent tables in verif/ref (KSPrefixTypeNumber, KSPrefix), key material present
// in the wire form, Equal consistent with the wire form (Equal <=> same serialisation), public keys equal
// to independently derived ones (stdlib / FIPS reference derivations), keyset entries / KeysetInfo equal to
// an independently built expectation, primitives of original and copy interoperate.
//
// Don't-care cells: parameter points containing an integer that is not a declared constant of the enum
// type (NewParameters of several types only rejects the zero value): the serializer may refuse them with an
// error; if it accepts them the round trip is judged. CustomKID values that are not valid UTF-8. Keysets of
// mixed primitive classes have no primitive (interoperability not judged). RSA / SLH-DSA "s" key material is
// restricted to the embedded keys (key domain subset documented in keycat).
package main

import (
	"bytes"
	"fmt"
	"os"
	"path/filepath"
	"reflect"
	"regexp"
	"sort"
	"strings"

	"google.golang.org/protobuf/proto"
	"google.golang.org/protobuf/reflect/protoreflect"
	"google.golang.org/protobuf/reflect/protoregistry"

	"github.com/tink-crypto/tink-go/v2/key"
	"github.com/tink-crypto/tink-go/v2/keyset"
	tinkpb "github.com/tink-crypto/tink-go/v2/proto/tink_go_proto"
	"github.com/tink-crypto/tink-go/v2/verifbridge/vb"
	"verif/h"
	"verif/props/keycat"
	"verif/ref"
	"verif/tk"
)

const nShards = 8

// survey mode (development aid): tally failures as outcome classes instead of stopping at the violation cap
var survey = os.Getenv("VERIF_C12_SURVEY") != ""

func failf(x *h.X, key, format string, a ...any) {
	if survey {
		x.Outcome("SURVEY-FAIL " + key + " e.g. " + fmt.Sprintf(format, a...))
		return
	}
	x.Fail(key, format, a...)
}

var detMarshal = proto.MarshalOptions{Deterministic: true}

func det(m proto.Message) []byte {
	b, err := detMarshal.Marshal(m)
	if err != nil {
		panic(err)
	}
	return b
}

func famNames() []string {
	var out []string
	for _, f := range keycat.Families() {
		out = append(out, f.Name)
	}
	return out
}

func ids(x *h.X) []uint32 {
	if x.Thorough() {
		return tk.IDs
	}
	return tk.IDs[:2]
}

// ---- parameters --------------------------------------------------------------------------------

type pcheck struct {
	tmpl *tinkpb.KeyTemplate
	ok   bool
}

// checkParams judges one valid parameter object. declared=false: serializer may refuse.
func checkParams(x *h.X, f *keycat.Family, desc string, declared bool, v ref.KSVariant, p key.Parameters) pcheck {
	cfg := f.Name + " " + desc
	x.Eval(1)
	// finding-key qualifier: the JWT CustomKID strategy (also as derived-key parameters of a deriver)
	q := f.Name
	if strings.Contains(desc, "kid=3") || (f.Name == "PrfBasedDeriver" && strings.Contains(desc, "derived=Jwt") && strings.Contains(desc, "#2(")) {
		q += ":CustomKID"
	}
	if strings.HasPrefix(f.Name, "JwtRsaSsa") && !strings.Contains(desc, " e=65537 ") {
		q += ":exponent-not-F4"
	}
	if f.Name == "AesGcm" && !strings.Contains(desc, " iv=12 tag=16 ") {
		q += ":iv-tag-not-12-16"
	}
	fail := func(key, format string, a ...any) {
		if !declared {
			// an integer that is not a constant of the enum type: not a "valid parameter combination"
			x.Outcome("params/undeclared-enum-accepted-by-NewParameters:" + key)
			return
		}
		failf(x, key+":"+q, format, a...)
	}
	t, err := vb.SerializeParameters(p)
	if err != nil {
		fail("params-serialize-error", "%s: NewParameters accepted but SerializeParameters fails: %v", cfg, err)
		return pcheck{}
	}
	if t.GetTypeUrl() != f.URL {
		fail("params-type-url", "%s: template type URL %q, want %q", cfg, t.GetTypeUrl(), f.URL)
	}
	if declared {
		if int32(t.GetOutputPrefixType()) != ref.KSPrefixTypeNumber(v) {
			fail("params-prefix-type", "%s: template OutputPrefixType %v, reference table says %v (%d)", cfg, t.GetOutputPrefixType(), v, ref.KSPrefixTypeNumber(v))
		}
		if p.HasIDRequirement() != ref.KSHasIDRequirement(v) {
			fail("params-id-requirement", "%s: HasIDRequirement=%v, reference says %v", cfg, p.HasIDRequirement(), ref.KSHasIDRequirement(v))
		}
	}
	p2, err := vb.ParseParameters(t)
	if err != nil {
		fail("params-parse-error", "%s: ParseParameters(SerializeParameters(p)) fails: %v", cfg, err)
		return pcheck{}
	}
	if !p2.Equal(p) || !p.Equal(p2) {
		fail("params-not-equal", "%s: ParseParameters(SerializeParameters(p)) is not Equal to p (parsed %v, original %v)", cfg, p2, p)
		return pcheck{}
	}
	if p2.HasIDRequirement() != p.HasIDRequirement() {
		fail("params-id-requirement", "%s: HasIDRequirement changed by the round trip", cfg)
	}
	t2, err := vb.SerializeParameters(p2)
	if err != nil {
		fail("params-reserialize-error", "%s: second serialisation fails: %v", cfg, err)
		return pcheck{}
	}
	if !proto.Equal(t, t2) || !bytes.Equal(det(t), det(t2)) || !bytes.Equal(t.GetValue(), t2.GetValue()) {
		fail("params-reserialize-differs", "%s: second serialisation differs: %x vs %x", cfg, det(t), det(t2))
	}
	if declared {
		x.Outcome("params/round-trip-ok")
	} else {
		x.Outcome("params/undeclared-enum-round-trips")
	}
	return pcheck{t, true}
}

func paramsSection(x *h.X) {
	f := keycat.ByName(h.Pick(x, "family", famNames()))
	if f.Enum == nil {
		x.Outcome("params/type-has-no-parameters-class")
		return
	}
	sh := &keycat.Shard{I: x.Choose("shard", nShards), N: nShards}
	var prev key.Parameters
	var prevT *tinkpb.KeyTemplate
	var prevDesc string
	nvalid, nrej := 0, 0
	f.Enum(x.Thorough(), sh, func(desc string, declared bool, v ref.KSVariant, p key.Parameters, err error) {
		if !sh.Mine() {
			return
		}
		if err != nil {
			nrej++
			return
		}
		nvalid++
		r := checkParams(x, f, desc, declared, v, p)
		if !r.ok {
			return
		}
		// Equal must be consistent with the wire form: Equal <=> identical template.
		if prev != nil {
			eq, same := p.Equal(prev) && prev.Equal(p), proto.Equal(r.tmpl, prevT)
			if eq != same {
				failf(x, "params-equal-inconsistent:"+f.Name, "%s: [%s] vs [%s]: Equal=%v but templates identical=%v", f.Name, desc, prevDesc, eq, same)
			}
			x.Eval(1)
		}
		prev, prevT, prevDesc = p, r.tmpl, desc
	})
	x.OutcomeN("params/rejected-by-NewParameters", nrej)
	x.Count("valid_parameter_points", nvalid)
	x.Count("candidate_parameter_points", nvalid+nrej)
	if nvalid > 0 {
		x.NonTrivial()
	}
}

// ---- keys --------------------------------------------------------------------------------------

// bytesFields collects every bytes field of the wire form of a key (recursing into sub-messages and
// into nested KeyData values).
type bfield struct {
	name string
	b    []byte
}

func bytesFields(url string, value []byte, out *[]bfield) error {
	name := protoreflect.FullName(strings.TrimPrefix(url, "type.googleapis.com/"))
	mt, err := protoregistry.GlobalTypes.FindMessageByName(name)
	if err != nil {
		*out = append(*out, bfield{"value", value})
		return nil
	}
	m := mt.New().Interface()
	if err := (proto.UnmarshalOptions{DiscardUnknown: false}).Unmarshal(value, m); err != nil {
		return fmt.Errorf("value does not parse as %s: %v", name, err)
	}
	return walk(m.ProtoReflect(), out)
}

func walk(m protoreflect.Message, out *[]bfield) error {
	if len(m.GetUnknown()) > 0 {
		return fmt.Errorf("%s carries unknown fields %x", m.Descriptor().FullName(), m.GetUnknown())
	}
	if m.Descriptor().FullName() == "google.crypto.tink.KeyData" {
		kd := m.Interface().(*tinkpb.KeyData)
		return bytesFields(kd.GetTypeUrl(), kd.GetValue(), out)
	}
	var err error
	m.Range(func(fd protoreflect.FieldDescriptor, v protoreflect.Value) bool {
		switch {
		case fd.IsList():
			return true
		case fd.Kind() == protoreflect.BytesKind:
			*out = append(*out, bfield{string(fd.Name()), v.Bytes()})
		case fd.Kind() == protoreflect.MessageKind:
			if e := walk(v.Message(), out); e != nil {
				err = e
				return false
			}
		}
		return true
	})
	return err
}

func trimZeros(b []byte) []byte {
	for len(b) > 0 && b[0] == 0 {
		b = b[1:]
	}
	return b
}

func hasField(fields []bfield, m keycat.Mat) bool {
	for _, f := range fields {
		if m.Field != "" && f.name != m.Field {
			continue
		}
		if bytes.Equal(f.b, m.B) || (m.BigInt && bytes.Equal(trimZeros(f.b), trimZeros(m.B))) {
			return true
		}
	}
	return false
}

// materialPresent: every secret byte string (and the public material in one of its representations)
// is a bytes field of the wire form.
func materialPresent(url string, kd *tinkpb.KeyData, mats []keycat.Mat, public bool) error {
	var fields []bfield
	if err := bytesFields(url, kd.GetValue(), &fields); err != nil {
		return err
	}
	byName := map[string]keycat.Mat{}
	for _, m := range mats {
		byName[m.Name] = m
	}
	for _, m := range mats {
		if m.Name == "whole-value" {
			if !bytes.Equal(kd.GetValue(), m.B) {
				return fmt.Errorf("KeyData.value differs from the value the key was built from")
			}
			continue
		}
		if m.Secret && public {
			for _, f := range fields {
				if len(m.B) >= 8 && bytes.Contains(f.b, m.B) {
					return fmt.Errorf("public key serialisation contains secret %s", m.Name)
				}
			}
			continue
		}
		if m.Name == "sk.seed||sk.prf" || m.Name == "dp" || m.Name == "dq" || m.Name == "qinv" {
			// derived / partial views: present in private keys (checked below for RSA CRT values)
			if public || m.Name == "sk.seed||sk.prf" {
				continue
			}
		}
		if !m.Secret && m.Name == "public" && len(m.B) > 0 && m.B[0] == 4 && (len(m.B) == 65 || len(m.B) == 97 || len(m.B) == 133) {
			n := (len(m.B) - 1) / 2
			xy := hasField(fields, keycat.Mat{B: m.B[1 : 1+n], BigInt: true, Field: "x"}) && hasField(fields, keycat.Mat{B: m.B[1+n:], BigInt: true, Field: "y"})
			if !xy && !hasField(fields, m) {
				return fmt.Errorf("public point not found in the wire form (neither as point nor as x, y)")
			}
			continue
		}
		if !hasField(fields, m) {
			return fmt.Errorf("material %q (%s) is not a bytes field of the wire form", m.Name, tk.Hex(m.B))
		}
	}
	return nil
}

type prefixer interface{ OutputPrefix() []byte }

// isCustomKID reports whether parameters (or the derived-key parameters of a deriver) use the JWT
// CustomKID strategy.
func isCustomKID(p key.Parameters) bool {
	v := reflect.ValueOf(p)
	if m := v.MethodByName("DerivedKeyParameters"); m.IsValid() {
		return isCustomKID(m.Call(nil)[0].Interface().(key.Parameters))
	}
	if m := v.MethodByName("KIDStrategy"); m.IsValid() {
		return m.Call(nil)[0].Int() == 3
	}
	return false
}

// keyQualifier narrows finding keys to the configurations of the known findings.
func keyQualifier(kc *keycat.KeyCase) string {
	q := ""
	switch kc.Fam.Name {
	case "AesGcm":
		if !strings.Contains(kc.Desc, " iv=12 tag=16 ") {
			q = ":iv-tag-not-12-16"
		}
	case "PrfBasedDeriver":
		if isCustomKID(kc.P) {
			q = ":CustomKID"
		}
	case "RsaSsaPss":
		if strings.Contains(kc.Desc, " salt=0 ") {
			q = ":salt0"
		}
	}
	return q
}

// checkKey judges one key object (private/symmetric or public half).
func checkKey(x *h.X, kc *keycat.KeyCase, public bool) (kd *tinkpb.KeyData, ok bool) {
	q := keyQualifier(kc)
	f := kc.Fam
	k, url, label := kc.Key, f.URL, f.Label
	if public {
		k, url, label = kc.Pub, f.PubURL, tinkpb.KeyData_ASYMMETRIC_PUBLIC
	}
	cfg := kc.Desc
	if public {
		cfg += " [public half]"
	}
	x.Eval(1)
	kd, pt, id, req, err := vb.SerializeKey(k)
	if err != nil {
		failf(x, "key-serialize-error:"+f.Name+q, "%s: SerializeKey fails: %v", cfg, err)
		return nil, false
	}
	// independent expectations
	if kd.GetTypeUrl() != url {
		failf(x, "key-type-url:"+f.Name, "%s: type URL %q, want %q", cfg, kd.GetTypeUrl(), url)
	}
	if kd.GetKeyMaterialType() != label {
		failf(x, "key-material-type:"+f.Name, "%s: KeyMaterialType %v, want %v", cfg, kd.GetKeyMaterialType(), label)
	}
	if int32(pt) != ref.KSPrefixTypeNumber(kc.Variant) {
		failf(x, "key-prefix-type:"+f.Name, "%s: OutputPrefixType %v, reference table says %v (%d)", cfg, pt, kc.Variant, ref.KSPrefixTypeNumber(kc.Variant))
	}
	if req != ref.KSHasIDRequirement(kc.Variant) || id != kc.ID {
		failf(x, "key-id-requirement:"+f.Name, "%s: serialised ID requirement (%#x,%v), want (%#x,%v)", cfg, id, req, kc.ID, ref.KSHasIDRequirement(kc.Variant))
	}
	if kid, kreq := k.IDRequirement(); kid != kc.ID || kreq != ref.KSHasIDRequirement(kc.Variant) {
		failf(x, "key-id-requirement:"+f.Name, "%s: IDRequirement() = (%#x,%v), want (%#x,%v)", cfg, kid, kreq, kc.ID, ref.KSHasIDRequirement(kc.Variant))
	}
	if pk, isP := k.(prefixer); isP {
		if !bytes.Equal(pk.OutputPrefix(), ref.KSPrefix(kc.Variant, kc.ID)) {
			failf(x, "key-output-prefix:"+f.Name, "%s: OutputPrefix %x, reference %x", cfg, pk.OutputPrefix(), ref.KSPrefix(kc.Variant, kc.ID))
		}
	} else if !f.NoPrefix {
		failf(x, "key-output-prefix:"+f.Name, "%s: key type has no OutputPrefix()", cfg)
	}
	if !k.Parameters().Equal(kc.P) {
		failf(x, "key-parameters:"+f.Name, "%s: Parameters() of the key is not Equal to the parameters it was built from", cfg)
	}
	if err := materialPresent(url, kd, kc.Mat, public); err != nil {
		failf(x, "key-wire-material:"+f.Name, "%s: %v", cfg, err)
	}
	// round trip
	k2, err := vb.ParseKey(kd, pt, id)
	if err != nil {
		failf(x, "key-parse-error:"+f.Name, "%s: ParseKey(SerializeKey(k)) fails: %v", cfg, err)
		return nil, false
	}
	if !k2.Equal(k) || !k.Equal(k2) {
		failf(x, "key-not-equal:"+f.Name+q, "%s: ParseKey(SerializeKey(k)) is not Equal to k", cfg)
		return nil, false
	}
	if !k2.Parameters().Equal(kc.P) || !kc.P.Equal(k2.Parameters()) {
		failf(x, "key-parameters:"+f.Name, "%s: parameters of the parsed key are not Equal to the original's", cfg)
	}
	if i2, r2 := k2.IDRequirement(); i2 != kc.ID || r2 != req {
		failf(x, "key-id-requirement:"+f.Name, "%s: parsed key IDRequirement (%#x,%v), want (%#x,%v)", cfg, i2, r2, kc.ID, req)
	}
	if pk, isP := k2.(prefixer); isP && !bytes.Equal(pk.OutputPrefix(), ref.KSPrefix(kc.Variant, kc.ID)) {
		failf(x, "key-output-prefix:"+f.Name, "%s: parsed key OutputPrefix %x, reference %x", cfg, pk.OutputPrefix(), ref.KSPrefix(kc.Variant, kc.ID))
	}
	kd2, pt2, id2, req2, err := vb.SerializeKey(k2)
	if err != nil {
		failf(x, "key-reserialize-error:"+f.Name, "%s: second serialisation fails: %v", cfg, err)
		return nil, false
	}
	if !proto.Equal(kd, kd2) || pt != pt2 || id != id2 || req != req2 || !bytes.Equal(det(kd), det(kd2)) || !bytes.Equal(kd.GetValue(), kd2.GetValue()) {
		failf(x, "key-reserialize-differs:"+f.Name, "%s: second serialisation differs: %x (prefix %v id %#x) vs %x (prefix %v id %#x)", cfg, det(kd), pt, id, det(kd2), pt2, id2)
	}
	// a second serialisation of the ORIGINAL is also identical (serializer is a function of the key)
	kd3, _, _, _, err := vb.SerializeKey(k)
	if err != nil || !bytes.Equal(det(kd), det(kd3)) {
		failf(x, "key-serialize-nondeterministic:"+f.Name, "%s: two serialisations of the same key differ (%v)", cfg, err)
	}
	return kd, true
}

type privateKey interface{ PublicKey() (key.Key, error) }

func keysSection(x *h.X) {
	f := keycat.ByName(h.Pick(x, "family", famNames()))
	shard := x.Choose("shard", nShards)
	th := x.Thorough()
	nkeys := 0
	type done struct {
		kc      *keycat.KeyCase
		kd, pkd *tinkpb.KeyData
	}
	// consistent: Equal <=> identical wire form, ID requirement and prefix type
	consistent := func(a, b done) {
		if a.kc.Desc == b.kc.Desc {
			return
		}
		x.Eval(1)
		eq := a.kc.Key.Equal(b.kc.Key) && b.kc.Key.Equal(a.kc.Key)
		same := proto.Equal(a.kd, b.kd) && a.kc.ID == b.kc.ID && a.kc.Variant == b.kc.Variant
		if eq != same {
			failf(x, "key-equal-inconsistent:"+f.Name, "[%s] vs [%s]: Equal=%v but wire forms identical=%v", a.kc.Desc, b.kc.Desc, eq, same)
		}
		if a.kc.Pub != nil && b.kc.Pub != nil && a.pkd != nil && b.pkd != nil {
			eq := a.kc.Pub.Equal(b.kc.Pub) && b.kc.Pub.Equal(a.kc.Pub)
			same := proto.Equal(a.pkd, b.pkd) && a.kc.ID == b.kc.ID && a.kc.Variant == b.kc.Variant
			if eq != same {
				failf(x, "key-equal-inconsistent:"+f.Name, "[%s] vs [%s] (public halves): Equal=%v but wire forms identical=%v", a.kc.Desc, b.kc.Desc, eq, same)
			}
		}
	}
	doCases := func(cases []*keycat.KeyCase) []done {
		var out []done
		for _, kc := range cases {
			nkeys++
			if kc.Key == nil {
				// public-only case (no private key object constructible for these parameters)
				checkKey(x, kc, true)
				continue
			}
			kd, ok := checkKey(x, kc, false)
			var pkd *tinkpb.KeyData
			if ok && kc.Pub != nil {
				pk, isPriv := kc.Key.(privateKey)
				if !isPriv {
					failf(x, "key-no-public:"+f.Name, "%s: private key type has no PublicKey()", kc.Desc)
				} else {
					pub, err := pk.PublicKey()
					if err != nil || !pub.Equal(kc.Pub) || !kc.Pub.Equal(pub) {
						failf(x, "public-key-mismatch:"+f.Name, "%s: PublicKey() of the private key is not Equal to the independently derived public key (%v)", kc.Desc, err)
					}
					x.Eval(1)
				}
				var pok bool
				pkd, pok = checkKey(x, kc, true)
				ok = ok && pok
			}
			if !ok {
				continue
			}
			d := done{kc, kd, pkd}
			// neighbours within the same ID: differ in material only
			if len(out) > 0 {
				consistent(out[len(out)-1], d)
			}
			out = append(out, d)
		}
		return out
	}
	// across key IDs: same parameters and material, different ID requirement
	across := func(prev, cur []done) {
		for i := range cur {
			if i < len(prev) {
				consistent(prev[i], cur[i])
			}
		}
	}
	if f.KeysOnly != nil {
		if shard != 0 {
			return
		}
		var prev []done
		for _, id := range ids(x) {
			cases, err := f.KeysOnly(id, th)
			if err != nil {
				failf(x, "key-construct:"+f.Name, "%s id=%#x: %v", f.Name, id, err)
				return
			}
			cur := doCases(cases)
			across(prev, cur)
			prev = cur
		}
	} else {
		sh := &keycat.Shard{I: shard, N: nShards}
		f.Enum(th, sh, func(desc string, declared bool, v ref.KSVariant, p key.Parameters, err error) {
			if err != nil || !sh.Mine() {
				return
			}
			if !declared {
				x.Outcome("keys/undeclared-enum-point-skipped")
				return
			}
			idl := ids(x)
			if !ref.KSHasIDRequirement(v) {
				idl = idl[:1]
			}
			var prev []done
			for _, id := range idl {
				cases, err := f.Keys(p, v, id, th)
				if err != nil {
					failf(x, "key-construct:"+f.Name, "%s %s id=%#x: catalogue could not build a key for valid parameters: %v", f.Name, desc, id, err)
					return
				}
				if cases == nil {
					x.Outcome("keys/parameter-point-outside-key-domain")
					return
				}
				cur := doCases(cases)
				across(prev, cur)
				prev = cur
			}
		})
	}
	x.Count("keys_round_tripped", nkeys)
	x.OutcomeN("keys/round-trip-checked", nkeys)
	if nkeys > 0 {
		x.NonTrivial()
	}
}

// ---- templates ---------------------------------------------------------------------------------

func templatesSection(x *h.X) {
	names := make([]string, 0, len(templates))
	for n := range templates {
		names = append(names, n)
	}
	sort.Strings(names)
	name := h.Pick(x, "template", names)
	t := templates[name]()
	x.Eval(1)
	if t == nil {
		failf(x, "template-nil", "%s returns nil", name)
		return
	}
	p, err := vb.ParseParameters(t)
	if err != nil {
		if strings.HasSuffix(t.GetTypeUrl(), "KmsEnvelopeAeadKey") {
			x.Outcome("templates/no-parameters-class(kms-envelope)")
			return
		}
		failf(x, "template-parse-error", "%s: ParseParameters fails: %v", name, err)
		return
	}
	t2, err := vb.SerializeParameters(p)
	if err != nil {
		failf(x, "template-serialize-error", "%s: SerializeParameters(ParseParameters(t)) fails: %v", name, err)
		return
	}
	if t2.GetTypeUrl() != t.GetTypeUrl() || t2.GetOutputPrefixType() != t.GetOutputPrefixType() {
		failf(x, "template-differs", "%s: re-serialised template has type URL %q prefix %v, original %q %v", name, t2.GetTypeUrl(), t2.GetOutputPrefixType(), t.GetTypeUrl(), t.GetOutputPrefixType())
	}
	if err := sameMessage(t.GetTypeUrl(), t.GetValue(), t2.GetValue()); err != nil {
		failf(x, "template-differs", "%s: re-serialised key format differs: %v (%x vs %x)", name, err, t.GetValue(), t2.GetValue())
	}
	if bytes.Equal(det(t), det(t2)) {
		x.Outcome("templates/byte-identical")
	} else {
		x.Outcome("templates/proto-equal-not-byte-identical")
	}
	p2, err := vb.ParseParameters(t2)
	if err != nil || !p2.Equal(p) || !p.Equal(p2) {
		failf(x, "template-not-equal", "%s: parameters of the re-serialised template are not Equal (%v)", name, err)
	}
	t3, err := vb.SerializeParameters(p2)
	if err != nil || !bytes.Equal(det(t2), det(t3)) {
		failf(x, "template-reserialize-differs", "%s: third serialisation differs (%v)", name, err)
	}
	// the parameters must also be reachable through the catalogue's judgement of prefix types
	if p.HasIDRequirement() != (t.GetOutputPrefixType() != tinkpb.OutputPrefixType_RAW) {
		failf(x, "template-id-requirement", "%s: HasIDRequirement=%v for prefix type %v", name, p.HasIDRequirement(), t.GetOutputPrefixType())
	}
	x.NonTrivial()
}

// sameMessage compares two serialised key formats semantically (as messages of the format type).
func sameMessage(url string, a, b []byte) error {
	if bytes.Equal(a, b) {
		return nil
	}
	base := strings.TrimPrefix(url, "type.googleapis.com/")
	for _, cand := range []string{strings.TrimSuffix(base, "PrivateKey") + "KeyFormat", strings.TrimSuffix(base, "Key") + "KeyFormat", base + "Format"} {
		mt, err := protoregistry.GlobalTypes.FindMessageByName(protoreflect.FullName(cand))
		if err != nil {
			continue
		}
		ma, mb := mt.New().Interface(), mt.New().Interface()
		if err := proto.Unmarshal(a, ma); err != nil {
			return err
		}
		if err := proto.Unmarshal(b, mb); err != nil {
			return err
		}
		if !proto.Equal(ma, mb) {
			return fmt.Errorf("messages of type %s differ", cand)
		}
		return nil
	}
	return fmt.Errorf("no format message type known for %s and bytes differ", url)
}

// ---- keysets -----------------------------------------------------------------------------------

var posIDs = []uint32{0x01020304, 0xFFFFFFFF, 0}

var statuses = []tinkpb.KeyStatusType{tinkpb.KeyStatusType_ENABLED, tinkpb.KeyStatusType_DISABLED, tinkpb.KeyStatusType_DESTROYED}

func unitNames() []string {
	var out []string
	for _, u := range keycat.Units() {
		out = append(out, u.Name())
	}
	return out
}

// expectedInfo builds the KeysetInfo the property allows, from the catalogue's own knowledge.
func expectedInfo(items []keycat.Item) *tinkpb.KeysetInfo {
	ki := &tinkpb.KeysetInfo{}
	for _, it := range items {
		ki.KeyInfo = append(ki.KeyInfo, &tinkpb.KeysetInfo_KeyInfo{TypeUrl: it.URL(), Status: it.Status, KeyId: it.ID,
			OutputPrefixType: tinkpb.OutputPrefixType(ref.KSPrefixTypeNumber(it.KC.Variant))})
		if it.Primary {
			ki.PrimaryKeyId = it.ID
		}
	}
	return ki
}

func describe(items []keycat.Item) string {
	var s []string
	for _, it := range items {
		p := ""
		if it.Primary {
			p = "*"
		}
		s = append(s, fmt.Sprintf("%s%s(%v,%v,id=%#x)", p, strings.TrimPrefix(it.URL(), keycat.URLPrefix), it.KC.Variant, it.Status, it.ID))
	}
	return "[" + strings.Join(s, " ") + "]"
}

// sameHandle compares a handle with the items it must contain.
func sameHandle(hd *keyset.Handle, items []keycat.Item, usePub bool) error {
	if hd.Len() != len(items) {
		return fmt.Errorf("has %d entries, want %d", hd.Len(), len(items))
	}
	for i, it := range items {
		e, err := hd.Entry(i)
		if err != nil {
			return err
		}
		want := it.Key()
		if usePub {
			want = it.KC.Pub
		}
		if e.KeyID() != it.ID {
			return fmt.Errorf("entry %d: key ID %#x, want %#x", i, e.KeyID(), it.ID)
		}
		if e.KeyStatus().String() != map[tinkpb.KeyStatusType]string{tinkpb.KeyStatusType_ENABLED: "Enabled", tinkpb.KeyStatusType_DISABLED: "Disabled", tinkpb.KeyStatusType_DESTROYED: "Destroyed"}[it.Status] {
			return fmt.Errorf("entry %d: status %v, want %v", i, e.KeyStatus(), it.Status)
		}
		if e.IsPrimary() != it.Primary {
			return fmt.Errorf("entry %d: primary=%v, want %v", i, e.IsPrimary(), it.Primary)
		}
		if !e.Key().Equal(want) || !want.Equal(e.Key()) {
			return fmt.Errorf("entry %d: key is not Equal to the original key", i)
		}
	}
	pe, err := hd.Primary()
	if err != nil {
		return err
	}
	for _, it := range items {
		if it.Primary && pe.KeyID() != it.ID {
			return fmt.Errorf("primary entry has ID %#x, want %#x", pe.KeyID(), it.ID)
		}
	}
	return nil
}

func keysetSection(x *h.X) {
	units := keycat.Units()
	n := 1 + x.Choose("size-1", 3)
	th := x.Thorough()
	var idx []int
	u1 := x.Choose("unit1", len(units))
	x.Label(units[u1].Name())
	idx = append(idx, u1)
	switch n {
	case 2:
		u2 := x.Choose("unit2", len(units))
		x.Label(units[u2].Name())
		idx = append(idx, u2)
	case 3:
		if th {
			u2 := x.Choose("unit2", len(units))
			x.Label(units[u2].Name())
			idx = append(idx, u2, (u1+u2+1)%len(units))
		} else {
			// quick: the two cyclic neighbours, and the same type three times
			alt := x.Choose("triple", 2)
			if alt == 0 {
				idx = append(idx, (u1+1)%len(units), (u1+2)%len(units))
			} else {
				idx = append(idx, u1, u1)
			}
		}
	}
	// representative variant per position: rotate so that all variants of a type appear
	rep := 0
	if n == 1 {
		rep = x.Choose("variant-rep", units[u1].Fam.NumReps())
	}
	// pattern: primary position x statuses of the others
	prim := x.Choose("primary", n)
	st := make([]tinkpb.KeyStatusType, n)
	for i := 0; i < n; i++ {
		if i == prim {
			st[i] = tinkpb.KeyStatusType_ENABLED
			continue
		}
		st[i] = statuses[x.Choose(fmt.Sprintf("status%d", i), 3)]
	}
	var items []keycat.Item
	for i, ui := range idx {
		it, err := keycat.RepItem(units[ui], rep+i+u1, posIDs[i])
		if err != nil {
			failf(x, "keyset-construct", "representative of %s: %v", units[ui].Name(), err)
			return
		}
		it.Status, it.Primary = st[i], i == prim
		items = append(items, it)
	}
	ios := keycat.IOs()
	// which writer/reader pairs: size 1 -> all; larger: a rotating selection (thorough: more)
	var sel []int
	switch {
	case n == 1:
		for i := range ios {
			sel = append(sel, i)
		}
	default:
		k := 2
		if th {
			k = 3
			if n == 2 {
				k = 9
			}
		}
		base := (u1*7 + idx[1]*13 + prim*5 + int(st[0])*3 + int(st[n-1])) % len(ios)
		for j := 0; j < k; j++ {
			sel = append(sel, (base+j*(len(ios)/k+1))%len(ios))
		}
	}
	judgeKeyset(x, items, sel)
}

// judgeKeyset builds the original handle from key objects, sends it through the selected writer/reader
// pairs and compares the copy (entries, KeysetInfo, Public(), primitives) with the original.
func judgeKeyset(x *h.X, items []keycat.Item, sel []int) {
	ios := keycat.IOs()
	n := len(items)
	cfg := describe(items)
	orig, err := keycat.BuildHandle(items)
	if err != nil {
		failf(x, "keyset-construct", "%s: building the original handle from key objects fails: %v", cfg, err)
		return
	}
	if err := sameHandle(orig, items, false); err != nil {
		failf(x, "keyset-construct", "%s: original handle: %v", cfg, err)
		return
	}
	want := expectedInfo(items)
	if !proto.Equal(orig.KeysetInfo(), want) {
		failf(x, "keysetinfo-differs", "%s: KeysetInfo of the original handle %v, expected %v", cfg, orig.KeysetInfo(), want)
	}
	anySecret, allPrivAsym, sameClass := false, true, true
	for _, it := range items {
		anySecret = anySecret || it.Secret()
		allPrivAsym = allPrivAsym && !it.Public && it.KC.Pub != nil
		sameClass = sameClass && it.Class() == items[0].Class()
	}
	// private twin for public keysets (signing / decrypting side of the interoperability probe)
	var twin *keyset.Handle
	allPub := true
	for _, it := range items {
		allPub = allPub && it.Public
	}
	if allPub && sameClass {
		tw := append([]keycat.Item{}, items...)
		for i := range tw {
			tw[i].Public = false
		}
		twin, _ = keycat.BuildHandle(tw)
	}
	// Public()
	if allPrivAsym {
		x.Eval(1)
		pub, err := orig.Public()
		if err != nil {
			failf(x, "public-error", "%s: Public() fails: %v", cfg, err)
		} else if err := sameHandle(pub, items, true); err != nil {
			failf(x, "public-mismatch", "%s: Public(): %v (keys must equal the independently derived public keys, same IDs/status/primary/order)", cfg, err)
		}
	}
	interopDone := false
	for _, ii := range sel {
		io := ios[ii]
		if io.Kind == "nosecrets" && anySecret {
			continue // C13's subject
		}
		x.Eval(1)
		blob, err := io.Write(orig)
		if err != nil {
			failf(x, "keyset-write-error", "%s via %s: write fails: %v", cfg, io.Name, err)
			continue
		}
		cp, err := io.Read(blob)
		if err != nil {
			key := "keyset-read-error"
			for _, it := range items {
				if it.KC.Variant == ref.KSRawWithID {
					key = "keyset-read-error:prefix-WITH_ID_REQUIREMENT"
				}
			}
			failf(x, key, "%s via %s: reading back what was written fails: %v", cfg, io.Name, err)
			continue
		}
		if err := sameHandle(cp, items, false); err != nil {
			failf(x, "keyset-differs", "%s via %s: copy: %v", cfg, io.Name, err)
			continue
		}
		if !proto.Equal(cp.KeysetInfo(), want) {
			failf(x, "keysetinfo-differs", "%s via %s: KeysetInfo of the copy %v, expected %v", cfg, io.Name, cp.KeysetInfo(), want)
		}
		x.Outcome("keysets/" + io.Kind + "/" + io.Format + "/same")
		if allPrivAsym {
			pub, err := cp.Public()
			if err != nil {
				failf(x, "public-error", "%s via %s: Public() of the copy fails: %v", cfg, io.Name, err)
			} else if err := sameHandle(pub, items, true); err != nil {
				failf(x, "public-mismatch", "%s via %s: Public() of the copy: %v", cfg, io.Name, err)
			}
		}
		// primitives interoperate (once per keyset for multi-key keysets; every pair for single keys of cheap classes)
		if sameClass && items[0].Class() != keycat.ClassNone && !(allPub && twin == nil) && (!interopDone || (n == 1 && cheap(items[0]))) {
			interopDone = true
			err := keycat.Interop(items[0].Class(), orig, cp, twin)
			switch {
			case err == nil:
				x.Outcome("keysets/interop/" + items[0].Class().String() + "/ok")
			case strings.Contains(err.Error(), keycat.ErrNoPrimitive.Error()):
				x.Outcome("keysets/interop/original-has-no-primitive")
				x.Logf("no primitive: %v", err)
			default:
				failf(x, "interop", "%s via %s: primitives of original and copy do not interoperate: %v", cfg, io.Name, err)
			}
		}
	}
	x.NonTrivial()
}

// rsaOddSection: RSA public keys (all four RSA key types) whose modulus size is not a multiple of 8 or sits at a
// byte boundary, as keysets through every writer/reader pair; plus the embedded real 2049/2055-bit keys as
// private keysets (Public(), primitives).
func rsaOddSection(x *h.X) {
	fam := keycat.ByName(h.Pick(x, "family", []string{"RsaSsaPkcs1", "RsaSsaPss", "JwtRsaSsaPkcs1", "JwtRsaSsaPss"}))
	bitsDom := []int{2049, 2055}
	if x.Thorough() {
		bitsDom = []int{2049, 2050, 2055, 2056, 2057}
	}
	bits := h.Pick(x, "modulus-bits", bitsDom)
	rep := x.Choose("variant-rep", fam.NumReps())
	half := h.Pick(x, "keyset", []string{"public", "private"})
	p, v, err := keycat.RSAParams(fam, bits, rep)
	if err != nil {
		failf(x, "key-construct:"+fam.Name, "%s %d bits: NewParameters: %v", fam.Name, bits, err)
		return
	}
	cases, err := fam.Keys(p, v, 0x01020304, true)
	if err != nil || len(cases) == 0 {
		failf(x, "key-construct:"+fam.Name, "%s %d bits: %v", fam.Name, bits, err)
		return
	}
	var items []keycat.Item
	for i, kc := range cases {
		if half == "private" && kc.Key == nil {
			continue
		}
		it := keycat.Item{KC: kc, Public: half == "public", Status: tinkpb.KeyStatusType_ENABLED, ID: kc.ID, Primary: len(items) == 0}
		if !ref.KSHasIDRequirement(kc.Variant) {
			it.ID = posIDs[0] + uint32(i)
		}
		// one-key keyset of every case
		one := it
		one.Primary = true
		sel := []int{0, 1, 3, 9, 10, 20, 40, 60, 71} // private keysets: RSA key validation on every read is slow
		if half == "public" {
			sel = make([]int, len(keycat.IOs()))
			for j := range sel {
				sel[j] = j
			}
		}
		judgeKeyset(x, []keycat.Item{one}, sel)
		if len(items) == 0 || ref.KSHasIDRequirement(kc.Variant) == false {
			items = append(items, it)
		}
	}
	if len(items) == 0 {
		x.Outcome("rsa-odd/no-private-key-of-this-size")
		return
	}
	if len(items) > 1 {
		judgeKeyset(x, items, []int{0, 1, 3, 6, 7, 9, 20, 40, 60})
	}
}

func cheap(it keycat.Item) bool {
	switch it.KC.Fam.Name {
	case "SlhDsa", "RsaSsaPkcs1", "RsaSsaPss", "JwtRsaSsaPkcs1", "JwtRsaSsaPss", "CompositeMlDsa":
		return false
	}
	return true
}

// ---- foreign encodings -------------------------------------------------------------------------

// mutateBigInts returns copies of the key value with every bytes field that equals (modulo leading
// zeros) a big-integer material re-encoded by enc.
func reencode(url string, value []byte, mats []keycat.Mat, enc func([]byte) []byte) ([]byte, int, error) {
	name := protoreflect.FullName(strings.TrimPrefix(url, "type.googleapis.com/"))
	mt, err := protoregistry.GlobalTypes.FindMessageByName(name)
	if err != nil {
		return nil, 0, err
	}
	m := mt.New().Interface()
	if err := proto.Unmarshal(value, m); err != nil {
		return nil, 0, err
	}
	n := 0
	var rec func(m protoreflect.Message) error
	rec = func(m protoreflect.Message) error {
		if m.Descriptor().FullName() == "google.crypto.tink.KeyData" {
			kd := m.Interface().(*tinkpb.KeyData)
			nv, k, err := reencode(kd.GetTypeUrl(), kd.GetValue(), mats, enc)
			if err != nil {
				return err
			}
			n += k
			kd.Value = nv
			return nil
		}
		var err error
		m.Range(func(fd protoreflect.FieldDescriptor, v protoreflect.Value) bool {
			switch {
			case fd.IsList():
			case fd.Kind() == protoreflect.BytesKind:
				for _, mat := range mats {
					pub := mat
					cands := [][]byte{mat.B}
					if !mat.BigInt && mat.Name == "public" && len(mat.B) > 0 && mat.B[0] == 4 && len(mat.B)%2 == 1 {
						h := (len(mat.B) - 1) / 2
						cands = [][]byte{mat.B[1 : 1+h], mat.B[1+h:]}
						pub.BigInt = true
					}
					if !pub.BigInt {
						continue
					}
					for _, c := range cands {
						if len(trimZeros(c)) > 0 && bytes.Equal(trimZeros(v.Bytes()), trimZeros(c)) {
							m.Set(fd, protoreflect.ValueOfBytes(enc(v.Bytes())))
							n++
							return true
						}
					}
				}
			case fd.Kind() == protoreflect.MessageKind:
				if e := rec(v.Message()); e != nil {
					err = e
					return false
				}
			}
			return true
		})
		return err
	}
	if err := rec(m.ProtoReflect()); err != nil {
		return nil, 0, err
	}
	out, err := proto.Marshal(m)
	return out, n, err
}

var encodings = []struct {
	name string
	f    func([]byte) []byte
}{
	{"minimal(stripped leading zeros)", func(b []byte) []byte { return append([]byte{}, trimZeros(b)...) }},
	{"one extra leading zero", func(b []byte) []byte { return append([]byte{0}, trimZeros(b)...) }},
	{"+1 zero on top of the emitted form", func(b []byte) []byte { return append([]byte{0}, b...) }},
	{"+4 zeros on top of the emitted form", func(b []byte) []byte { return append(make([]byte, 4), b...) }},
}

func foreignSection(x *h.X) {
	var fams []string
	for _, f := range keycat.Families() {
		switch f.Name {
		case "Ecdsa", "EciesAeadHkdf", "Hpke", "JwtEcdsa", "RsaSsaPkcs1", "RsaSsaPss", "JwtRsaSsaPkcs1", "JwtRsaSsaPss", "CompositeMlDsa":
			fams = append(fams, f.Name)
		}
	}
	f := keycat.ByName(h.Pick(x, "family", fams))
	rep := x.Choose("variant-rep", f.NumReps())
	enc := encodings[x.Choose("encoding", len(encodings))]
	x.Label(enc.name)
	public := x.Choose("half", 2) == 1
	p, v := f.Rep(rep)
	cases, err := f.Keys(p, v, 0x01020304, x.Thorough())
	if err != nil || len(cases) == 0 {
		failf(x, "key-construct:"+f.Name, "%s: %v", f.Name, err)
		return
	}
	for _, kc := range cases {
		k, url := kc.Key, f.URL
		if public {
			k, url = kc.Pub, f.PubURL
		}
		kd, pt, id, _, err := vb.SerializeKey(k)
		if err != nil {
			failf(x, "key-serialize-error:"+f.Name, "%s: %v", kc.Desc, err)
			continue
		}
		nv, n, err := reencode(url, kd.GetValue(), kc.Mat, enc.f)
		if err != nil {
			failf(x, "harness-reencode", "%s: %v", kc.Desc, err)
			continue
		}
		if n == 0 || bytes.Equal(nv, kd.GetValue()) {
			x.Outcome("foreign/encoding-identical-to-emitted")
			continue
		}
		x.Eval(1)
		fk, err := vb.ParseKey(&tinkpb.KeyData{TypeUrl: kd.GetTypeUrl(), Value: nv, KeyMaterialType: kd.GetKeyMaterialType()}, pt, id)
		if err != nil {
			x.Outcome("foreign/rejected-by-parser")
			continue
		}
		x.NonTrivial()
		if fk.Equal(k) && k.Equal(fk) {
			x.Outcome("foreign/accepted-equal-to-canonical")
		} else {
			x.Outcome(fmt.Sprintf("foreign/accepted-NOT-equal-to-canonical:%s:public=%v:%s", f.Name, public, enc.name))
		}
		// the key object obtained from the foreign encoding must itself satisfy the property
		cfg := fmt.Sprintf("%s [parsed from wire form with %s, public=%v]", kc.Desc, enc.name, public)
		kd1, pt1, id1, _, err := vb.SerializeKey(fk)
		if err != nil {
			failf(x, "foreign-serialize-error:"+f.Name, "%s: SerializeKey fails: %v", cfg, err)
			continue
		}
		fk2, err := vb.ParseKey(kd1, pt1, id1)
		if err != nil {
			failf(x, "foreign-parse-error:"+f.Name, "%s: re-parse fails: %v", cfg, err)
			continue
		}
		if !fk2.Equal(fk) || !fk.Equal(fk2) {
			failf(x, "foreign-not-equal:"+f.Name, "%s: ParseKey(SerializeKey(k)) is not Equal to k", cfg)
		}
		kd2, _, _, _, err := vb.SerializeKey(fk2)
		if err != nil || !bytes.Equal(det(kd1), det(kd2)) {
			failf(x, "foreign-reserialize-differs:"+f.Name, "%s: second serialisation differs (%v): %x vs %x", cfg, err, det(kd1), det(kd2))
		}
	}
}

// ---- catalogue completeness --------------------------------------------------------------------

var urlRE = regexp.MustCompile(`"type\.googleapis\.com/google\.crypto\.tink\.([A-Za-z0-9]+)"`)
var tmplRE = regexp.MustCompile(`(?m)^func ([A-Z][A-Za-z0-9_]*)\(\) \*tinkpb\.KeyTemplate`)

// notKeyTypes: type URLs in non-test sources that are not key types with a serialisation in the tree.
var notKeyTypes = map[string]string{
	"AesCtrKey":  "inner message of AesCtrHmacAeadKey, no parser/manager of its own",
	"AesEaxKey":  "constant in testutil only; no implementation in tink-go",
	"KmsAeadKey": "constant only",
}

func catalogueSection(x *h.X) {
	root := os.Getenv("VERIF_REPO")
	if root == "" {
		root = "/repo"
	}
	have := map[string]bool{}
	for _, u := range keycat.Units() {
		have[u.Name()] = true
	}
	found := map[string]string{}
	tfound := map[string]bool{}
	filepath.Walk(root, func(p string, info os.FileInfo, err error) error {
		if err != nil {
			return nil
		}
		if info.IsDir() {
			switch info.Name() {
			case ".git", "testutil", "testing", "testdata", "internal", "verifbridge", "kokoro", "docs":
				if p != root && info.Name() != "internal" {
					return filepath.SkipDir
				}
			}
			return nil
		}
		if !strings.HasSuffix(p, ".go") || strings.HasSuffix(p, "_test.go") || strings.HasSuffix(p, ".pb.go") {
			return nil
		}
		b, err := os.ReadFile(p)
		if err != nil {
			return nil
		}
		rel, _ := filepath.Rel(root, p)
		if strings.Contains(rel, "internal/") && (strings.Contains(rel, "test") || strings.Contains(rel, "stub")) {
			return nil
		}
		for _, m := range urlRE.FindAllSubmatch(b, -1) {
			found[string(m[1])] = rel
		}
		if strings.HasSuffix(p, "_key_templates.go") {
			for _, m := range tmplRE.FindAllSubmatch(b, -1) {
				tfound[string(m[1])] = true
			}
		}
		return nil
	})
	x.Eval(len(found) + len(tfound))
	if len(found) < 30 {
		h.NotExhaustive("catalogue completeness: source tree not readable at " + root)
		return
	}
	var names []string
	for n := range found {
		names = append(names, n)
	}
	sort.Strings(names)
	for _, n := range names {
		if have[n] {
			x.Outcome("catalogue/type-url-covered")
			continue
		}
		if _, ok := notKeyTypes[n]; ok {
			x.Outcome("catalogue/not-a-key-type")
			continue
		}
		// a type URL that does not parse through a registered parser is test scaffolding
		k, err := vb.ParseKey(&tinkpb.KeyData{TypeUrl: keycat.URLPrefix + n, Value: []byte{}, KeyMaterialType: tinkpb.KeyData_SYMMETRIC}, tinkpb.OutputPrefixType_RAW, 0)
		if err == nil && strings.Contains(fmt.Sprintf("%T", k), "Fallback") {
			x.Outcome("catalogue/unregistered-url-in-source(" + n + ")")
			continue
		}
		h.NotExhaustive("type URL " + n + " (" + found[n] + ") has a registered parser but is not in the key catalogue")
	}
	var tn []string
	for n := range tfound {
		tn = append(tn, n)
	}
	sort.Strings(tn)
	for _, n := range tn {
		if _, ok := templates[n]; !ok {
			h.NotExhaustive("key template function " + n + " is not in the template table")
		} else {
			x.Outcome("catalogue/template-covered")
		}
	}
	h.SetExtra("type_urls_in_catalogue", len(have))
	h.SetExtra("template_functions", len(templates))
	x.NonTrivial()
}

func main() {
	keycat.RegisterFakeKMS()
	h.Main("C12", "exploration",
		"every key family x full over-large parameter product (valid = NewParameters accepts) x key IDs x material shapes (incl. leading-zero big integers, zero-padded constructor inputs); every key template; keysets of size 1..3 over one representative per type URL (all variants for size 1) x primary position x statuses x writer/reader pairs (72: cleartext, no-secrets, encrypted under 3 KEK types x AD {nil, empty, 5 bytes} x Write/WithAssociatedData/WithContext x binary/JSON/mem). keysets-odd-io: 5 key types x keyset shapes x every API x binary/JSON(/mem) with at most 2 non-default environment answers (reader delivery policy, data+EOF, Len(), persistent reader fault x every/selected byte offsets, KEK answer modes on write/read, failing KEK call, associated data). A case is non-trivial when at least one valid object was round-tripped; distinct = distinct choice vectors.",
		[]h.Section{
			{Name: "parameters", Body: paramsSection, Bound: -1},
			{Name: "keys", Body: keysSection, Bound: -1},
			{Name: "templates", Body: templatesSection, Bound: -1},
			{Name: "keysets", Body: keysetSection, Bound: -1},
			{Name: "rsa-odd-modulus-keysets", Body: rsaOddSection, Bound: -1},
			{Name: "keysets-odd-io", Body: oddIOSection, Bound: oddIOBound()},
			{Name: "keysets-large", Body: largeSection, Bound: -1},
			{Name: "keymanager-only-private-keys", Body: kmOnlySection, Bound: -1, Serial: true},
			{Name: "foreign-encodings", Body: foreignSection, Bound: -1},
			{Name: "catalogue", Body: catalogueSection, Bound: -1},
		})
}
