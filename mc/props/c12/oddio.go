// C12, section keysets-odd-io: what is read back equals what was written also when the ENVIRONMENT of the keyset
// readers / writers gives "odd but legal" answers (engine E4, deviation-bounded: every combination of at most
// Section.Bound non-default answers is explored on top of the full outer product).
//
// Outer product (Choose): key type (serialized sizes from ~50 bytes to > 4096 bytes, so that 512-byte-growing and
// 4096-byte-chunked read loops iterate) x keyset shape (single key | three keys [DISABLED, PRIMARY, ENABLED] | the
// same three as a public keyset) x every read/write API of keycat.IOs() (insecurecleartextkeyset, testkeyset,
// WriteWithNoSecrets/ReadWithNoSecrets, Write/Read, ...WithAssociatedData, ...WithContext) x format (binary, JSON;
// MemReaderWriter for the encrypted APIs, KEK answers only).
//
// Environment answers (Deviate; default = the well-behaved answer):
//
//	associated data        5 bytes | nil | empty
//	KEK answer on write    env.OddAEAD modes (fresh slices | answer in the caller's buffer | ...)
//	KEK answer on read     env.OddAEAD modes (fresh | sub-slice of a bigger buffer | served from a cache, same slice twice)
//	KEK failure            none | Encrypt call #0 fails | Decrypt call #0 fails
//	io.Reader fault        none | PERSISTENT error from byte offset k on (inner loop over k), error value
//	                       env.ErrInjected | io.ErrUnexpectedEOF (truncated gzip / HTTP body) | io.ErrClosedPipe
//	io.Reader delivery     all at once | 1 byte per Read | 7 bytes | half | buffer-1 | mixed 1/7/half-of-rest | two pieces
//	                       split at a structural boundary of the serialization (inner loop over the boundaries)
//	last Read              (0, io.EOF) on a separate call | n>0 TOGETHER WITH io.EOF (iotest.DataErrReader)
//	reader has Len()       no | yes (like bytes.Reader / bytes.Buffer: size-hint code paths)
//
// Judged (statement: "a keyset handle written with any writer and read back has the same keys, IDs, statuses, primary
// and order"; nothing else):
//
//	(1) no fault: the read succeeds and the handle equals the catalogue's expectation (sameHandle + KeysetInfo), under
//	    every delivery; it is the same as through bytes.Reader.
//	(2) reader fault at offset k <= len: a read that does not report an error returned a handle for a source that
//	    failed; that handle is compared with what was written: it differs (fewer keys) -> violation. A panic is a
//	    violation. Don't care: which error; a handle EQUAL to what was written (only possible for k = len, when all
//	    bytes had been delivered before the source failed).
//	(3) KEK modes: round trip gives the same handle (cache mode: the same source read twice with the same KEK object,
//	    both handles right, the first still right after the second read); the original handle, the associated-data
//	    buffer and the bytes of the source are unchanged. KEK Encrypt failing: the write reports an error, and the same
//	    handle written again (healthy KEK call, fresh writer) reads back right. KEK Decrypt failing: a read that yields
//	    a handle although nothing could be decrypted is compared with what was written (a MemReaderWriter that stored
//	    ANOTHER keyset in clear earlier must not leak that one); the same source read again (healthy call) is right.
//	(4) NOT modelled: underlying io.Writers that take the data in short writes. io.Writer's contract: "Write must
//	    return a non-nil error if it returns n < len(p)"; BinaryWriter / JSONWriter call w.Write once and return its
//	    error (no loop to get wrong), failing writers are keycat's pre-used writers (keysets section).
//
// encrypt-result-in-callers-buffer: a KEK that answers in the buffer it was given is only a legal collaborator if it
// does not change the plaintext the library still holds there. The wrapped KEK of that mode is therefore the
// content-preserving textbook fake KMS (idKEK, as in C01 kms-envelope-odd-kek): the returned "ciphertext" IS the
// library's own serialized-keyset buffer. The other modes wrap the catalogue's real KEKs.
package main

import (
	"bytes"
	"context"
	"errors"
	"fmt"
	"io"
	"os"
	"sort"
	"sync"

	"google.golang.org/protobuf/encoding/protowire"
	"google.golang.org/protobuf/proto"

	"github.com/tink-crypto/tink-go/v2/aead/aesgcm"
	"github.com/tink-crypto/tink-go/v2/insecurecleartextkeyset"
	"github.com/tink-crypto/tink-go/v2/key"
	"github.com/tink-crypto/tink-go/v2/keyset"
	tinkpb "github.com/tink-crypto/tink-go/v2/proto/tink_go_proto"
	"github.com/tink-crypto/tink-go/v2/signature/compositemldsa"
	"github.com/tink-crypto/tink-go/v2/signature/ecdsa"
	"github.com/tink-crypto/tink-go/v2/signature/mldsa"
	"github.com/tink-crypto/tink-go/v2/signature/rsassapkcs1"
	"github.com/tink-crypto/tink-go/v2/testkeyset"
	"github.com/tink-crypto/tink-go/v2/tink"
	"verif/env"
	"verif/h"
	"verif/props/keycat"
	"verif/ref"
)

// ---- key types and keyset shapes ------------------------------------------------------------------

type oddKT struct {
	name   string
	fam    string
	sym    bool
	slow   bool // reading a private key is expensive (RSA key self-check): quick = public keyset only, thorough + single private key
	params func(raw bool) (key.Parameters, error)
}

var oddKTs = []oddKT{
	{name: "AES256-GCM (~50 B per key)", fam: "AesGcm", sym: true, params: func(raw bool) (key.Parameters, error) {
		v := aesgcm.VariantTink
		if raw {
			v = aesgcm.VariantNoPrefix
		}
		return aesgcm.NewParameters(aesgcm.ParametersOpts{KeySizeInBytes: 32, IVSizeInBytes: 12, TagSizeInBytes: 16, Variant: v})
	}},
	{name: "ECDSA-P256 (~150 B)", fam: "Ecdsa", params: func(raw bool) (key.Parameters, error) {
		v := ecdsa.VariantTink
		if raw {
			v = ecdsa.VariantNoPrefix
		}
		return ecdsa.NewParameters(ecdsa.NistP256, ecdsa.SHA256, ecdsa.DER, v)
	}},
	{name: "ML-DSA-87 (~2.7 KB; three keys ~8 KB)", fam: "MlDsa", params: func(raw bool) (key.Parameters, error) {
		v := mldsa.VariantTink
		if raw {
			v = mldsa.VariantNoPrefix
		}
		return mldsa.NewParameters(mldsa.MLDSA87, v)
	}},
	{name: "RSA-SSA-PKCS1-4096 (private ~2.4 KB, public ~0.5 KB)", fam: "RsaSsaPkcs1", slow: true, params: func(raw bool) (key.Parameters, error) {
		v := rsassapkcs1.VariantTink
		if raw {
			v = rsassapkcs1.VariantNoPrefix
		}
		return rsassapkcs1.NewParameters(4096, rsassapkcs1.SHA384, 65537, v)
	}},
	{name: "Composite ML-DSA-87 + RSA-4096-PSS (one private key > 4096 B)", fam: "CompositeMlDsa", slow: true, params: func(raw bool) (key.Parameters, error) {
		v := compositemldsa.VariantTink
		if raw {
			v = compositemldsa.VariantNoPrefix
		}
		return compositemldsa.NewParameters(compositemldsa.RSA4096PSS, compositemldsa.MLDSA87, v)
	}},
}

const (
	shapeSingle = "single key"
	shapeThree  = "three keys [DISABLED, PRIMARY, ENABLED]"
	shapePublic = "public keyset of three keys [DISABLED, PRIMARY, ENABLED]"
)

func oddShapes(kt oddKT, th bool) []string {
	switch {
	case kt.sym:
		return []string{shapeSingle, shapeThree}
	case kt.slow && !th:
		// every read of an RSA private key runs tink's key self-check (a 4096-bit signature): public keyset only
		return []string{shapePublic}
	case kt.slow:
		return []string{shapeSingle, shapePublic}
	}
	return []string{shapeSingle, shapeThree, shapePublic}
}

type oddSet struct {
	items []keycat.Item
	orig  *keyset.Handle
	err   error
}

var oddSets sync.Map

// oddKeyset builds (once) the items and the original handle of a key type x shape. Position i: key ID posIDs[i],
// material shape i of the catalogue, TINK variant (position 2: no prefix).
func oddKeyset(kt oddKT, shape string) *oddSet {
	k := kt.name + "/" + shape
	if v, ok := oddSets.Load(k); ok {
		return v.(*oddSet)
	}
	s := &oddSet{}
	build := func() error {
		fam := keycat.ByName(kt.fam)
		if fam == nil {
			return fmt.Errorf("family %s not in the catalogue", kt.fam)
		}
		n := 3
		st := []tinkpb.KeyStatusType{tinkpb.KeyStatusType_DISABLED, tinkpb.KeyStatusType_ENABLED, tinkpb.KeyStatusType_ENABLED}
		prim := 1
		if shape == shapeSingle {
			n, prim, st = 1, 0, []tinkpb.KeyStatusType{tinkpb.KeyStatusType_ENABLED}
		}
		for i := 0; i < n; i++ {
			raw := i == 2
			p, err := kt.params(raw)
			if err != nil {
				return err
			}
			v := ref.KSTink
			if raw {
				v = ref.KSRaw
			}
			cases, err := fam.Keys(p, v, posIDs[i], false)
			if err != nil {
				return err
			}
			var usable []*keycat.KeyCase
			for _, c := range cases {
				if c.Key != nil && !(c.Pub == nil && !kt.sym) {
					usable = append(usable, c)
				}
			}
			if len(usable) == 0 {
				return fmt.Errorf("catalogue has no key for %s", kt.name)
			}
			kc := usable[i%len(usable)]
			s.items = append(s.items, keycat.Item{KC: kc, Public: shape == shapePublic, Status: st[i], Primary: i == prim, ID: posIDs[i]})
		}
		var err error
		s.orig, err = keycat.BuildHandle(s.items)
		return err
	}
	s.err = build()
	v, _ := oddSets.LoadOrStore(k, s)
	return v.(*oddSet)
}

// ---- APIs -----------------------------------------------------------------------------------------

type oddAPI struct {
	name      string
	kind      string
	hasAD     bool
	encrypted bool
}

// oddAPIs: the distinct APIs of keycat.IOs(), in order.
func oddAPIs() []oddAPI {
	var out []oddAPI
	seen := map[string]bool{}
	for _, io := range keycat.IOs() {
		if seen[io.API] {
			continue
		}
		seen[io.API] = true
		out = append(out, oddAPI{io.API, io.Kind, io.HasAD, io.Kind == "encrypted"})
	}
	return out
}

// idKEK: the key-less fake KMS (wrapping = identity); see the header.
type idKEK struct{}

func (idKEK) Encrypt(pt, _ []byte) ([]byte, error) { return bytes.Clone(pt), nil }
func (idKEK) Decrypt(ct, _ []byte) ([]byte, error) { return bytes.Clone(ct), nil }

type oddBlob struct {
	data []byte
	mem  *keyset.MemReaderWriter
}

var (
	decoyOnce   sync.Once
	decoyHandle *keyset.Handle
)

// decoy: ANOTHER keyset (one AES-GCM key, id 0x7E57) that was stored in the same MemReaderWriter earlier.
func decoy() *keyset.Handle {
	decoyOnce.Do(func() {
		p, err := oddKTs[0].params(false)
		if err != nil {
			panic(err)
		}
		cases, err := keycat.ByName("AesGcm").Keys(p, ref.KSTink, 0x7E57, false)
		if err != nil {
			panic(err)
		}
		decoyHandle, err = keycat.BuildHandle([]keycat.Item{{KC: cases[len(cases)-1], Status: tinkpb.KeyStatusType_ENABLED, Primary: true, ID: 0x7E57}})
		if err != nil {
			panic(err)
		}
	})
	return decoyHandle
}

// usedMem is a MemReaderWriter with a history: another keyset was stored in it, in clear and encrypted.
func usedMem(healthy tink.AEAD) *keyset.MemReaderWriter {
	m := &keyset.MemReaderWriter{}
	if err := insecurecleartextkeyset.Write(decoy(), m); err != nil {
		panic(err)
	}
	if err := decoy().Write(m, healthy); err != nil {
		panic(err)
	}
	return m
}

func oddWrite(api, format string, hd *keyset.Handle, kek *env.OddAEAD, healthy tink.AEAD, ad []byte) (*oddBlob, error) {
	b := &oddBlob{}
	var buf bytes.Buffer
	var w keyset.Writer
	switch format {
	case "binary":
		w = keyset.NewBinaryWriter(&buf)
	case "json":
		w = keyset.NewJSONWriter(&buf)
	case "mem":
		b.mem = usedMem(healthy)
		w = b.mem
	default:
		panic("oddio: format " + format)
	}
	var err error
	switch api {
	case "insecurecleartextkeyset":
		err = insecurecleartextkeyset.Write(hd, w)
	case "testkeyset":
		err = testkeyset.Write(hd, w)
	case "nosecrets":
		err = hd.WriteWithNoSecrets(w)
	case "Write":
		err = hd.Write(w, kek)
	case "WithAssociatedData":
		err = hd.WriteWithAssociatedData(w, kek, ad)
	case "WithContext":
		err = hd.WriteWithContext(context.Background(), w, env.OddAEADCtx{O: kek}, ad)
	default:
		panic("oddio: keycat.IOs() has an API this section does not know: " + api)
	}
	b.data = buf.Bytes()
	return b, err
}

func oddRead(api, format string, r io.Reader, mem *keyset.MemReaderWriter, kek tink.AEAD, ad []byte) (*keyset.Handle, error) {
	var kr keyset.Reader
	switch format {
	case "binary":
		kr = keyset.NewBinaryReader(r)
	case "json":
		kr = keyset.NewJSONReader(r)
	default:
		kr = mem
	}
	switch api {
	case "insecurecleartextkeyset":
		return insecurecleartextkeyset.Read(kr)
	case "testkeyset":
		return testkeyset.Read(kr)
	case "nosecrets":
		return keyset.ReadWithNoSecrets(kr)
	case "Write":
		return keyset.Read(kr, kek)
	case "WithAssociatedData":
		return keyset.ReadWithAssociatedData(kr, kek, ad)
	case "WithContext":
		o, ok := kek.(*env.OddAEAD)
		if !ok {
			o = env.NewOddAEAD(kek, env.AEADNormal)
		}
		return keyset.ReadWithContext(context.Background(), kr, env.OddAEADCtx{O: o}, ad)
	}
	panic("oddio: API " + api)
}

// ---- environment: delivery policies, faults ---------------------------------------------------------

var oddPolicies = []string{"all-at-once", "1-byte-per-Read", "7-bytes-per-Read", "half-then-rest", "buffer-minus-1", "mixed-1/7/half-of-rest", "two-pieces-split-at-structural-boundary"}

const polSplit = 6

// oddAnswer: the Answer function of a policy. total = number of bytes the reader will deliver.
func oddAnswer(pol, total, split int) func(rem, buf int) int {
	n := 0
	switch pol {
	case 1:
		return func(int, int) int { return 1 }
	case 2:
		return func(int, int) int { return 7 }
	case 3:
		return func(rem, _ int) int {
			if rem == total && total >= 2 {
				return total / 2
			}
			return rem
		}
	case 4:
		return func(_, buf int) int {
			if buf > 1 {
				return buf - 1
			}
			return 1
		}
	case 5:
		return func(rem, _ int) int {
			n++
			switch n % 3 {
			case 1:
				return 1
			case 2:
				return 7
			}
			return (rem + 1) / 2
		}
	case polSplit:
		return func(rem, _ int) int {
			if pos := total - rem; pos < split {
				return split - pos
			}
			return rem
		}
	}
	return nil
}

// lenReader: a reader that also tells how much is left (bytes.Reader, bytes.Buffer, strings.Reader have Len()).
type lenReader struct{ r *env.ScriptReader }

func (l lenReader) Read(p []byte) (int, error) { return l.r.Read(p) }
func (l lenReader) Len() int                   { return len(l.r.Data) - l.r.Pos }

var oddFaults = []struct {
	name string
	err  error
}{{"none", nil}, {"env.ErrInjected", env.ErrInjected}, {"io.ErrUnexpectedEOF", io.ErrUnexpectedEOF}, {"io.ErrClosedPipe", io.ErrClosedPipe}}

// oddBoundaries: structural boundaries of the serialization, computed from the bytes alone: binary = starts of the
// top-level fields (Keyset: primary_key_id, then one record per key) and of the fields of every key record; JSON =
// positions behind every '}' ']' and ','.
func oddBoundaries(format string, b []byte) []int {
	set := map[int]bool{}
	if format == "binary" {
		for off := 0; off < len(b); {
			num, typ, n := protowire.ConsumeField(b[off:])
			if n <= 0 {
				break
			}
			set[off] = true
			if typ == protowire.BytesType && num == 2 {
				// fields of the key record (for an EncryptedKeyset this walks into ciphertext: harmless extra offsets)
				_, _, tn := protowire.ConsumeTag(b[off:])
				_, ln := protowire.ConsumeVarint(b[off+tn:])
				in := b[off+tn+ln : off+n]
				for o2, cnt := 0, 0; o2 < len(in) && cnt < 8; cnt++ {
					_, _, n2 := protowire.ConsumeField(in[o2:])
					if n2 <= 0 {
						break
					}
					set[off+tn+ln+o2] = true
					o2 += n2
				}
			}
			off += n
		}
	} else {
		for i, c := range b {
			if c == '}' || c == ']' || c == ',' {
				set[i+1] = true
			}
		}
	}
	var out []int
	for o := range set {
		if o > 0 && o < len(b) {
			out = append(out, o)
		}
	}
	sort.Ints(out)
	return out
}

func dedupe(v []int, lo, hi int) []int {
	sort.Ints(v)
	var out []int
	for _, k := range v {
		if k < lo || k > hi || (len(out) > 0 && out[len(out)-1] == k) {
			continue
		}
		out = append(out, k)
	}
	return out
}

// oddOffsets: fault offsets. thorough: every k in [0, n]; quick: every k <= 64, a lattice, every structural boundary
// -1/0/+1, the last 8 offsets and n itself.
func oddOffsets(n int, bnd []int, th bool) []int {
	var ks []int
	if th {
		for k := 0; k <= n; k++ {
			ks = append(ks, k)
		}
		return ks
	}
	for k := 0; k <= 64; k++ {
		ks = append(ks, k)
	}
	for k, step := 64, n/48+1; k < n; k += step {
		ks = append(ks, k)
	}
	for _, b := range bnd {
		ks = append(ks, b-1, b, b+1)
	}
	for k := n - 8; k <= n; k++ {
		ks = append(ks, k)
	}
	ks = append(ks, 511, 512, 513, 4095, 4096, 4097)
	return dedupe(ks, 0, n)
}

// oddSplits: split points of the two-piece delivery.
func oddSplits(n int, bnd []int, th bool) []int {
	ks := append([]int{1, n / 2, n - 1}, bnd...)
	if th && n <= 700 {
		for k := 1; k < n; k++ {
			ks = append(ks, k)
		}
	}
	return dedupe(ks, 1, n-1)
}

func handleDiff(hd *keyset.Handle, set *oddSet) error {
	if hd == nil {
		return errors.New("nil handle")
	}
	if err := sameHandle(hd, set.items, false); err != nil {
		return err
	}
	if want := expectedInfo(set.items); !proto.Equal(hd.KeysetInfo(), want) {
		return fmt.Errorf("KeysetInfo %v, expected %v", hd.KeysetInfo(), want)
	}
	return nil
}

// ---- the section ------------------------------------------------------------------------------------

func oddIOSection(x *h.X) {
	th := x.Thorough()
	var ktNames []string
	for _, k := range oddKTs {
		ktNames = append(ktNames, k.name)
	}
	ki := x.Choose("key-type", len(oddKTs))
	x.Label(ktNames[ki])
	kt := oddKTs[ki]
	shapes := oddShapes(kt, th)
	si := x.Choose("keyset", len(shapes))
	x.Label(shapes[si])
	shape := shapes[si]
	var apis []oddAPI
	for _, a := range oddAPIs() {
		if a.kind == "nosecrets" && shape != shapePublic {
			continue // exporting secret material without encryption is refused: C13's subject
		}
		apis = append(apis, a)
	}
	ai := x.Choose("api", len(apis))
	x.Label(apis[ai].name)
	api := apis[ai]
	formats := []string{"binary", "json"}
	if api.encrypted {
		formats = append(formats, "mem")
	}
	format := h.Pick(x, "format", formats)
	stream := format != "mem"

	// ---- environment answers
	adDom := []string{"5 bytes", "nil", "empty"}
	adi := 0
	if api.hasAD {
		adi = x.Deviate("associated-data", len(adDom))
		x.Label(adDom[adi])
	}
	wmode, rmode, kfail := 0, 0, 0
	if api.encrypted {
		wmode = x.Deviate("kek-answer-on-write", env.AEADModes)
		x.Label(env.AEADModeNames[wmode])
		rmode = x.Deviate("kek-answer-on-read", env.AEADModes)
		x.Label(env.AEADModeNames[rmode])
		kfail = x.Deviate("kek-failure", 3)
		x.Label([]string{"none", "KEK Encrypt call #0 fails", "KEK Decrypt call #0 fails"}[kfail])
	}
	fault, pol, eofData, hasLen := 0, 0, 0, 0
	if stream {
		fault = x.Deviate("reader-fault", len(oddFaults))
		x.Label(oddFaults[fault].name)
		pol = x.Deviate("delivery", len(oddPolicies))
		x.Label(oddPolicies[pol])
		if fault == 0 {
			eofData = x.Deviate("last-Read", 2)
			x.Label([]string{"(0, io.EOF) on a separate call", "n>0 together with io.EOF"}[eofData])
		}
		hasLen = x.Deviate("reader-has-Len", 2)
	}

	set := oddKeyset(kt, shape)
	if set.err != nil {
		failf(x, "keyset-construct", "%s / %s: %v", kt.name, shape, set.err)
		return
	}
	cfg := fmt.Sprintf("%s via %s/%s", describe(set.items), api.name, format)
	x.NonTrivial()

	// the key-encryption key
	var healthy tink.AEAD
	if api.encrypted {
		healthy = keycat.KEKs(false)[(ki+si+ai)%3].A
		if wmode == env.AEADAliasEncrypt {
			healthy = idKEK{}
		}
	}
	// associated data: a slice of a bigger caller-owned buffer
	adBuf := bytes.Repeat([]byte{0xA5}, 16)
	copy(adBuf, "ad-5b")
	var ad []byte
	switch adi {
	case 0:
		ad = adBuf[:5]
	case 2:
		ad = adBuf[:0]
	}
	adSnap := bytes.Clone(adBuf)
	callerBuffers := func(when string) {
		if !bytes.Equal(adBuf, adSnap) {
			failf(x, "oddio-caller-buffer-modified", "%s: %s: the caller's associated-data buffer was modified: %x, was %x", cfg, when, adBuf, adSnap)
		}
		if err := handleDiff(set.orig, set); err != nil {
			failf(x, "oddio-original-handle-modified", "%s: %s: the ORIGINAL handle changed: %v", cfg, when, err)
		}
	}

	// ---- write
	var wk *env.OddAEAD
	if api.encrypted {
		wk = env.NewOddAEAD(healthy, wmode)
		if kfail == 1 {
			wk.FailEncryptAt = 0
		}
	}
	x.Eval(1)
	var blob *oddBlob
	var werr error
	if p, msg := h.Try(func() { blob, werr = oddWrite(api.name, format, set.orig, wk, healthy, ad) }); p {
		failf(x, "oddio-panic", "%s: write panics: %s", cfg, msg)
		return
	}
	if kfail == 1 {
		if werr == nil {
			// the write "succeeded" without the KEK: whatever was written, it is judged by reading it back below
			x.Outcome("odd-io/kek-encrypt-fails/write-reports-success(judged by read-back)")
		} else {
			x.Outcome("odd-io/kek-encrypt-fails/write-error,retry-judged")
			// the same handle can be written again (healthy KEK call #1 of the same KEK object, fresh writer)
			x.Eval(1)
			if p, msg := h.Try(func() { blob, werr = oddWrite(api.name, format, set.orig, wk, healthy, ad) }); p {
				failf(x, "oddio-panic", "%s: second write (after a failed KEK Encrypt) panics: %s", cfg, msg)
				return
			}
		}
	}
	if werr != nil {
		failf(x, "oddio-write-error", "%s [kek-write=%s kek-failure=%d]: write fails: %v", cfg, env.AEADModeNames[wmode], kfail, werr)
		return
	}
	callerBuffers("after the write")
	var memSnap *tinkpb.EncryptedKeyset
	if !stream {
		memSnap = proto.Clone(blob.mem.EncryptedKeyset).(*tinkpb.EncryptedKeyset)
	}
	if stream {
		noteSize(x, format, len(blob.data))
	}

	// ---- reference read: bytes.Reader, well-behaved KEK
	x.Eval(1)
	refH, err := oddRead(api.name, format, bytes.NewReader(blob.data), blob.mem, healthy, ad)
	if err != nil {
		key := "oddio-read-error"
		if kfail == 1 || wmode != 0 {
			key = "oddio-read-error-after-odd-kek-write"
		}
		failf(x, key, "%s [kek-write=%s kek-failure=%d]: reading back through bytes.Reader fails: %v", cfg, env.AEADModeNames[wmode], kfail, err)
		return
	}
	if err := handleDiff(refH, set); err != nil {
		failf(x, "oddio-differs", "%s [kek-write=%s kek-failure=%d]: copy read through bytes.Reader: %v", cfg, env.AEADModeNames[wmode], kfail, err)
		return
	}

	// ---- the read under test
	newKEK := func() *env.OddAEAD {
		if !api.encrypted {
			return nil
		}
		rk := env.NewOddAEAD(healthy, rmode)
		if kfail == 2 {
			rk.FailDecryptAt = 0
		}
		return rk
	}
	total := len(blob.data)
	var bnd []int
	if stream {
		bnd = oddBoundaries(format, blob.data)
	}
	// source builds the io.Reader: failAt < 0 = no fault
	source := func(failAt, split int) (io.Reader, *env.ScriptReader) {
		if !stream {
			return nil, nil
		}
		sr := env.NewScriptReader(bytes.Clone(blob.data))
		deliver := total
		if failAt >= 0 {
			sr.FailAt, sr.FailErr = failAt, oddFaults[fault].err
			deliver = failAt
		}
		sr.Answer = oddAnswer(pol, deliver, split)
		sr.EOFWithData = eofData == 1
		if hasLen == 1 {
			return lenReader{sr}, sr
		}
		return sr, sr
	}
	env1 := fmt.Sprintf("[delivery=%s last-Read=%d has-Len=%d kek-write=%s kek-read=%s kek-failure=%d ad=%s]", oddPolicies[pol], eofData, hasLen, env.AEADModeNames[wmode], env.AEADModeNames[rmode], kfail, adDom[adi])
	sourceIntact := func(sr *env.ScriptReader, when string) {
		if sr != nil && !bytes.Equal(sr.Data, blob.data) {
			failf(x, "oddio-caller-buffer-modified", "%s %s: %s: the bytes of the source were modified", cfg, env1, when)
		}
		if memSnap != nil && !proto.Equal(memSnap, blob.mem.EncryptedKeyset) {
			failf(x, "oddio-caller-buffer-modified", "%s %s: %s: the EncryptedKeyset held by the MemReaderWriter was modified", cfg, env1, when)
		}
	}
	var kekArg = func(rk *env.OddAEAD) tink.AEAD {
		if rk == nil {
			return nil
		}
		return rk
	}

	if fault != 0 {
		// (2) persistent reader fault at offset k
		nErr, nDC := 0, 0
		for _, k := range oddOffsets(total, bnd, th) {
			split := 0
			for _, b := range bnd {
				if b < k {
					split = b
				}
			}
			rd, sr := source(k, split)
			rk := newKEK()
			var hd *keyset.Handle
			var err error
			x.Eval(1)
			if p, msg := h.Try(func() { hd, err = oddRead(api.name, format, rd, nil, kekArg(rk), ad) }); p {
				failf(x, "oddio-panic", "%s %s: source fails with %s from offset %d of %d on: read panics: %s", cfg, env1, oddFaults[fault].name, k, total, msg)
				return
			}
			sourceIntact(sr, "after a failed read")
			if err != nil {
				nErr++
				continue
			}
			d := handleDiff(hd, set)
			if d == nil {
				// all bytes had been delivered (k = len): the handle equals what was written; not judged
				nDC++
				continue
			}
			failf(x, "oddio-handle-after-reader-fault", "%s %s: the source delivers %d of %d bytes and then fails persistently with %s (Read calls: %d); the read reports NO error and returns a handle that differs from what was written: %v", cfg, env1, k, total, oddFaults[fault].name, sr.Calls, d)
			return
		}
		x.OutcomeN("odd-io/reader-fault/"+oddFaults[fault].name+"/error-reported", nErr)
		if nDC > 0 {
			x.OutcomeN("odd-io/reader-fault/complete-handle-despite-late-fault(not judged)", nDC)
		}
		callerBuffers("after the failed reads")
		return
	}

	splits := []int{0}
	if pol == polSplit && stream {
		splits = oddSplits(total, bnd, th)
	}
	for _, split := range splits {
		rd, sr := source(-1, split)
		rk := newKEK()
		var hd *keyset.Handle
		var err error
		x.Eval(1)
		if p, msg := h.Try(func() { hd, err = oddRead(api.name, format, rd, blob.mem, kekArg(rk), ad) }); p {
			failf(x, "oddio-panic", "%s %s split=%d: read panics: %s", cfg, env1, split, msg)
			return
		}
		sourceIntact(sr, "after the read")
		if kfail == 2 {
			// (3) the KEK could not decrypt
			if err == nil {
				if d := handleDiff(hd, set); d != nil {
					failf(x, "oddio-handle-despite-kek-failure", "%s %s: the KEK's Decrypt failed, yet the read reports no error and returns a handle that is not what was written: %v", cfg, env1, d)
					return
				}
				x.Outcome("odd-io/kek-decrypt-fails/right-handle-anyway(not judged)")
			} else {
				x.Outcome("odd-io/kek-decrypt-fails/read-error,retry-judged")
			}
			// the same source can be read again with the same KEK object (healthy call #1)
			rd, sr = source(-1, split)
			x.Eval(1)
			if p, msg := h.Try(func() { hd, err = oddRead(api.name, format, rd, blob.mem, kekArg(rk), ad) }); p {
				failf(x, "oddio-panic", "%s %s split=%d: second read (after a failed KEK Decrypt) panics: %s", cfg, env1, split, msg)
				return
			}
			sourceIntact(sr, "after the second read")
		}
		if err != nil {
			calls := 0
			if sr != nil {
				calls = sr.Calls
			}
			failf(x, "oddio-read-error", "%s %s split=%d (%d bytes, %d Read calls): reading back what was written fails: %v", cfg, env1, split, total, calls, err)
			return
		}
		if d := handleDiff(hd, set); d != nil {
			failf(x, "oddio-differs", "%s %s split=%d (%d bytes): the copy differs from what was written: %v", cfg, env1, split, total, d)
			return
		}
		if api.encrypted && (rmode == env.AEADCachedDecrypt || rmode == env.AEADDecryptSub) {
			// the same source once more with the same KEK object (cache mode: the KEK hands out the same slice again)
			rd2, sr2 := source(-1, split)
			var hd2 *keyset.Handle
			x.Eval(1)
			if p, msg := h.Try(func() { hd2, err = oddRead(api.name, format, rd2, blob.mem, kekArg(rk), ad) }); p {
				failf(x, "oddio-panic", "%s %s: repeated read panics: %s", cfg, env1, msg)
				return
			}
			sourceIntact(sr2, "after the repeated read")
			if err != nil {
				failf(x, "oddio-read-error", "%s %s: reading the same source a second time with the same KEK object fails: %v", cfg, env1, err)
				return
			}
			if d := handleDiff(hd2, set); d != nil {
				failf(x, "oddio-differs", "%s %s: second read of the same source with the same KEK object: %v", cfg, env1, d)
				return
			}
			if d := handleDiff(hd, set); d != nil {
				failf(x, "oddio-differs", "%s %s: the FIRST copy changed when the source was read a second time: %v", cfg, env1, d)
				return
			}
		}
	}
	callerBuffers("after the reads")
	kind := api.kind
	if api.hasAD {
		kind += "+ad"
	}
	x.OutcomeN("odd-io/"+kind+"/"+format+"/same", len(splits))
	if stream && (pol != 0 || eofData != 0 || hasLen != 0) {
		x.OutcomeN(fmt.Sprintf("odd-io/same/delivery=%s,data+EOF=%d,Len=%d", oddPolicies[pol], eofData, hasLen), len(splits))
	}
	if wmode != 0 || rmode != 0 {
		x.Outcome(fmt.Sprintf("odd-io/same/kek-write=%s,kek-read=%s", env.AEADModeNames[wmode], env.AEADModeNames[rmode]))
	}
}

var (
	sizeMu  sync.Mutex
	sizeMin = map[string]int{}
	sizeMax = map[string]int{}
)

func noteSize(x *h.X, format string, n int) {
	sizeMu.Lock()
	defer sizeMu.Unlock()
	if v, ok := sizeMin[format]; !ok || n < v {
		sizeMin[format] = n
		h.SetExtra("odd_io_serialized_bytes_min_"+format, n)
	}
	if n > sizeMax[format] {
		sizeMax[format] = n
		h.SetExtra("odd_io_serialized_bytes_max_"+format, n)
	}
}

// oddIOBound: deviation bound of the section (pairs of non-default environment answers).
func oddIOBound() int {
	if os.Getenv("VERIF_C12_ODDIO_BOUND") == "3" {
		return 3
	}
	return 2
}
