// Standalone reproduction of the C12 findings on the unchanged tree (public tink API only, plus the
// vb bridge for Serialize/ParseParameters). Run:  cd /verif/mc && $GO run -overlay ../.work/C12/overlay.json ./props/c12/repro
package main

import (
	"bytes"
	"fmt"

	"github.com/tink-crypto/tink-go/v2/aead/aesgcm"
	"github.com/tink-crypto/tink-go/v2/insecurecleartextkeyset"
	"github.com/tink-crypto/tink-go/v2/insecuresecretdataaccess"
	"github.com/tink-crypto/tink-go/v2/jwt/jwthmac"
	"github.com/tink-crypto/tink-go/v2/jwt/jwtrsassapkcs1"
	"github.com/tink-crypto/tink-go/v2/key"
	"github.com/tink-crypto/tink-go/v2/keyset"
	"github.com/tink-crypto/tink-go/v2/secretdata"
	"github.com/tink-crypto/tink-go/v2/signature/mldsa"
	"github.com/tink-crypto/tink-go/v2/signature/rsassapss"
	"github.com/tink-crypto/tink-go/v2/verifbridge/vb"
	"verif/ref"
)

func roundTrip(k key.Key) (*keyset.Handle, error) {
	m := keyset.NewManager()
	id, err := m.AddKey(k)
	if err != nil {
		return nil, fmt.Errorf("AddKey: %v", err)
	}
	m.SetPrimary(id)
	h, err := m.Handle()
	if err != nil {
		return nil, err
	}
	var buf bytes.Buffer
	if err := insecurecleartextkeyset.Write(h, keyset.NewBinaryWriter(&buf)); err != nil {
		return nil, fmt.Errorf("Write: %v", err)
	}
	return insecurecleartextkeyset.Read(keyset.NewBinaryReader(&buf))
}

func main() {
	tok := insecuresecretdataaccess.Token{}
	// 1. AES-GCM with a 12-byte tag
	p, _ := aesgcm.NewParameters(aesgcm.ParametersOpts{KeySizeInBytes: 16, IVSizeInBytes: 12, TagSizeInBytes: 12, Variant: aesgcm.VariantNoPrefix})
	k, _ := aesgcm.NewKey(secretdata.NewBytesFromData(make([]byte, 16), tok), 0, p)
	h, err := roundTrip(k)
	e, _ := h.Entry(0)
	fmt.Printf("1. AES-GCM tag=12: err=%v; tag size after write/read = %d; Equal=%v\n", err, e.Key().Parameters().(*aesgcm.Parameters).TagSizeInBytes(), e.Key().Equal(k))
	// 2. JWT RSA exponent
	jp, _ := jwtrsassapkcs1.NewParameters(jwtrsassapkcs1.ParametersOpts{ModulusSizeInBits: 2048, PublicExponent: 65539, Algorithm: jwtrsassapkcs1.RS256, KidStrategy: jwtrsassapkcs1.IgnoredKID})
	t, _ := vb.SerializeParameters(jp)
	jp2, err := vb.ParseParameters(t)
	fmt.Printf("2. JWT RSA e=65539: err=%v; exponent after round trip = %d; Equal=%v\n", err, jp2.(*jwtrsassapkcs1.Parameters).PublicExponent(), jp2.Equal(jp))
	// 3. JWT CustomKID
	hp, _ := jwthmac.NewParameters(32, jwthmac.CustomKID, jwthmac.HS256)
	t, _ = vb.SerializeParameters(hp)
	hp2, err := vb.ParseParameters(t)
	fmt.Printf("3. JWT HMAC CustomKID: err=%v; strategy after round trip = %v; Equal=%v\n", err, hp2.(*jwthmac.Parameters).KIDStrategy(), hp2.Equal(hp))
	// 4. RSA-SSA-PSS salt 0
	r := ref.KSRSAFixed(2048, 0)
	pp, _ := rsassapss.NewParameters(rsassapss.ParametersValues{ModulusSizeBits: 2048, SigHashType: rsassapss.SHA256, MGF1HashType: rsassapss.SHA256, PublicExponent: 65537, SaltLengthBytes: 0}, rsassapss.VariantNoPrefix)
	pub, _ := rsassapss.NewPublicKey(r.N, 0, pp)
	_, err = roundTrip(pub)
	fmt.Printf("4. RSA-SSA-PSS salt=0 public key: %v\n", err)
	// 5. ML-DSA VariantNoPrefixWithPrehashID
	mp, _ := mldsa.NewParameters(mldsa.MLDSA44, mldsa.VariantNoPrefixWithPrehashID)
	mk, _ := mldsa.NewPrivateKey(secretdata.NewBytesFromData(make([]byte, 32), tok), 7, mp)
	_, err = roundTrip(mk)
	fmt.Printf("5. ML-DSA VariantNoPrefixWithPrehashID keyset: %v\n", err)
}
