// Section keymanager-only-private-keys: private keys of a type that only a registry.KeyManager serves (no proto
// parser registered: tink represents them by its fallback key objects). Public() of such a keyset must yield the
// MATCHING public keys: the key manager's public key data under the same key id, status, primary flag, order and
// OUTPUT PREFIX TYPE (a LEGACY private key has a LEGACY public key), also after a binary / JSON round trip.
package main

import (
	"bytes"
	"errors"
	"fmt"

	"google.golang.org/protobuf/proto"

	"github.com/tink-crypto/tink-go/v2/core/registry"
	"github.com/tink-crypto/tink-go/v2/insecurecleartextkeyset"
	"github.com/tink-crypto/tink-go/v2/keyset"
	tinkpb "github.com/tink-crypto/tink-go/v2/proto/tink_go_proto"
	"verif/h"
)

const (
	kmOnlyPrivURL = "type.googleapis.com/verif.c12.KMOnlyPrivateKey"
	kmOnlyPubURL  = "type.googleapis.com/verif.c12.KMOnlyPublicKey"
)

type kmOnlyPriv struct{}

func (kmOnlyPriv) Primitive([]byte) (any, error)        { return nil, errors.New("no primitive") }
func (kmOnlyPriv) NewKey([]byte) (proto.Message, error) { return nil, errors.New("unsupported") }
func (kmOnlyPriv) DoesSupport(u string) bool            { return u == kmOnlyPrivURL }
func (kmOnlyPriv) TypeURL() string                      { return kmOnlyPrivURL }
func (kmOnlyPriv) NewKeyData([]byte) (*tinkpb.KeyData, error) {
	return nil, errors.New("unsupported")
}
func (kmOnlyPriv) PublicKeyData(v []byte) (*tinkpb.KeyData, error) {
	return &tinkpb.KeyData{TypeUrl: kmOnlyPubURL, Value: kmOnlyPublicOf(v), KeyMaterialType: tinkpb.KeyData_ASYMMETRIC_PUBLIC}, nil
}

func kmOnlyPublicOf(v []byte) []byte { return append([]byte("public-of:"), v...) }

var kmOnlyRegistered = false

func kmOnlySection(x *h.X) {
	if !kmOnlyRegistered {
		if err := registry.RegisterKeyManager(kmOnlyPriv{}); err != nil {
			failf(x, "harness-construct", "%v", err)
			return
		}
		kmOnlyRegistered = true
	}
	pts := []tinkpb.OutputPrefixType{tinkpb.OutputPrefixType_TINK, tinkpb.OutputPrefixType_CRUNCHY, tinkpb.OutputPrefixType_LEGACY, tinkpb.OutputPrefixType_RAW}
	pt := pts[x.Choose("prefix-of-primary", len(pts))]
	pt2 := pts[x.Choose("prefix-of-second", len(pts))]
	st2 := []tinkpb.KeyStatusType{tinkpb.KeyStatusType_ENABLED, tinkpb.KeyStatusType_DISABLED}[x.Choose("status-of-second", 2)]
	order := x.Choose("primary-first", 2)
	route := h.Pick(x, "route", []string{"handle", "binary-roundtrip", "json-roundtrip"})
	k1 := &tinkpb.Keyset_Key{KeyData: &tinkpb.KeyData{TypeUrl: kmOnlyPrivURL, Value: []byte("private-material-1"), KeyMaterialType: tinkpb.KeyData_ASYMMETRIC_PRIVATE}, Status: tinkpb.KeyStatusType_ENABLED, KeyId: 0x01020304, OutputPrefixType: pt}
	k2 := &tinkpb.Keyset_Key{KeyData: &tinkpb.KeyData{TypeUrl: kmOnlyPrivURL, Value: []byte("private-material-2"), KeyMaterialType: tinkpb.KeyData_ASYMMETRIC_PRIVATE}, Status: st2, KeyId: 0x0000beef, OutputPrefixType: pt2}
	ks := &tinkpb.Keyset{PrimaryKeyId: k1.KeyId, Key: []*tinkpb.Keyset_Key{k1, k2}}
	if order == 1 {
		ks.Key = []*tinkpb.Keyset_Key{k2, k1}
	}
	cfg := fmt.Sprintf("keyset of two key-manager-only private keys (primary %v, second %v %v, primary-first=%v) via %s", pt, pt2, st2, order == 0, route)
	hd, err := insecurecleartextkeyset.Read(&keyset.MemReaderWriter{Keyset: proto.Clone(ks).(*tinkpb.Keyset)})
	if err != nil {
		failf(x, "read-error", "%s: %v", cfg, err)
		return
	}
	if route != "handle" {
		var buf bytes.Buffer
		var w keyset.Writer = keyset.NewBinaryWriter(&buf)
		if route == "json-roundtrip" {
			w = keyset.NewJSONWriter(&buf)
		}
		if err := insecurecleartextkeyset.Write(hd, w); err != nil {
			failf(x, "write-error", "%s: %v", cfg, err)
			return
		}
		var r keyset.Reader = keyset.NewBinaryReader(&buf)
		if route == "json-roundtrip" {
			r = keyset.NewJSONReader(&buf)
		}
		if hd, err = insecurecleartextkeyset.Read(r); err != nil {
			failf(x, "read-error", "%s: %v", cfg, err)
			return
		}
	}
	x.NonTrivial()
	x.Eval(1)
	pub, err := hd.Public()
	if err != nil {
		failf(x, "public-error", "%s: Public() fails: %v", cfg, err)
		return
	}
	var out bytes.Buffer
	if err := pub.WriteWithNoSecrets(keyset.NewBinaryWriter(&out)); err != nil {
		failf(x, "public-error", "%s: Public() keyset cannot be written without secrets: %v", cfg, err)
		return
	}
	got := &tinkpb.Keyset{}
	if err := proto.Unmarshal(out.Bytes(), got); err != nil {
		failf(x, "public-error", "%s: %v", cfg, err)
		return
	}
	if got.PrimaryKeyId != ks.PrimaryKeyId || len(got.Key) != len(ks.Key) {
		failf(x, "public-mismatch", "%s: Public() has primary %#x and %d keys, the private keyset primary %#x and %d keys", cfg, got.PrimaryKeyId, len(got.Key), ks.PrimaryKeyId, len(ks.Key))
		return
	}
	for i, pk := range ks.Key {
		g := got.Key[i]
		if g.KeyId != pk.KeyId || g.Status != pk.Status || g.OutputPrefixType != pk.OutputPrefixType || g.GetKeyData().GetTypeUrl() != kmOnlyPubURL ||
			!bytes.Equal(g.GetKeyData().GetValue(), kmOnlyPublicOf(pk.KeyData.Value)) || g.GetKeyData().GetKeyMaterialType() != tinkpb.KeyData_ASYMMETRIC_PUBLIC {
			failf(x, "public-mismatch", "%s: Public() entry %d is {id %#x, %v, %v, %s, %q}; the matching public key of private entry %d is {id %#x, %v, %v, %s, %q}", cfg, i,
				g.KeyId, g.Status, g.OutputPrefixType, g.GetKeyData().GetTypeUrl(), g.GetKeyData().GetValue(), i, pk.KeyId, pk.Status, pk.OutputPrefixType, kmOnlyPubURL, kmOnlyPublicOf(pk.KeyData.Value))
			return
		}
	}
	x.Outcome("public keys match")
}
