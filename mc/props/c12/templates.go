package main

import (
	"github.com/tink-crypto/tink-go/v2/aead"
	"github.com/tink-crypto/tink-go/v2/daead"
	"github.com/tink-crypto/tink-go/v2/hybrid"
	"github.com/tink-crypto/tink-go/v2/jwt"
	"github.com/tink-crypto/tink-go/v2/keyderivation"
	"github.com/tink-crypto/tink-go/v2/mac"
	"github.com/tink-crypto/tink-go/v2/prf"
	tinkpb "github.com/tink-crypto/tink-go/v2/proto/tink_go_proto"
	"github.com/tink-crypto/tink-go/v2/signature"
	"github.com/tink-crypto/tink-go/v2/streamingaead"
	"verif/props/keycat"
)

func derivT(p, d *tinkpb.KeyTemplate) func() *tinkpb.KeyTemplate {
	return func() *tinkpb.KeyTemplate {
		t, err := keyderivation.CreatePRFBasedKeyTemplate(p, d)
		if err != nil {
			panic(err)
		}
		return t
	}
}

// templates: every function of */*_key_templates.go (the catalogue section checks completeness against the source).
var templates = map[string]func() *tinkpb.KeyTemplate{
	"AES128GCMKeyTemplate":                                                    aead.AES128GCMKeyTemplate,
	"AES256GCMKeyTemplate":                                                    aead.AES256GCMKeyTemplate,
	"AES256GCMNoPrefixKeyTemplate":                                            aead.AES256GCMNoPrefixKeyTemplate,
	"XAES256GCM192BitNonceKeyTemplate":                                        aead.XAES256GCM192BitNonceKeyTemplate,
	"XAES256GCM192BitNonceNoPrefixKeyTemplate":                                aead.XAES256GCM192BitNonceNoPrefixKeyTemplate,
	"XAES256GCM160BitNonceKeyTemplate":                                        aead.XAES256GCM160BitNonceKeyTemplate,
	"XAES256GCM160BitNonceNoPrefixKeyTemplate":                                aead.XAES256GCM160BitNonceNoPrefixKeyTemplate,
	"AES128GCMSIVKeyTemplate":                                                 aead.AES128GCMSIVKeyTemplate,
	"AES256GCMSIVKeyTemplate":                                                 aead.AES256GCMSIVKeyTemplate,
	"AES256GCMSIVNoPrefixKeyTemplate":                                         aead.AES256GCMSIVNoPrefixKeyTemplate,
	"AES128CTRHMACSHA256KeyTemplate":                                          aead.AES128CTRHMACSHA256KeyTemplate,
	"AES256CTRHMACSHA256KeyTemplate":                                          aead.AES256CTRHMACSHA256KeyTemplate,
	"ChaCha20Poly1305KeyTemplate":                                             aead.ChaCha20Poly1305KeyTemplate,
	"XChaCha20Poly1305KeyTemplate":                                            aead.XChaCha20Poly1305KeyTemplate,
	"AESSIVKeyTemplate":                                                       daead.AESSIVKeyTemplate,
	"DHKEM_P256_HKDF_SHA256_HKDF_SHA256_AES_128_GCM_Key_Template":             hybrid.DHKEM_P256_HKDF_SHA256_HKDF_SHA256_AES_128_GCM_Key_Template,
	"DHKEM_P256_HKDF_SHA256_HKDF_SHA256_AES_128_GCM_Raw_Key_Template":         hybrid.DHKEM_P256_HKDF_SHA256_HKDF_SHA256_AES_128_GCM_Raw_Key_Template,
	"DHKEM_P256_HKDF_SHA256_HKDF_SHA256_AES_256_GCM_Key_Template":             hybrid.DHKEM_P256_HKDF_SHA256_HKDF_SHA256_AES_256_GCM_Key_Template,
	"DHKEM_P256_HKDF_SHA256_HKDF_SHA256_AES_256_GCM_Raw_Key_Template":         hybrid.DHKEM_P256_HKDF_SHA256_HKDF_SHA256_AES_256_GCM_Raw_Key_Template,
	"DHKEM_X25519_HKDF_SHA256_HKDF_SHA256_AES_128_GCM_Key_Template":           hybrid.DHKEM_X25519_HKDF_SHA256_HKDF_SHA256_AES_128_GCM_Key_Template,
	"DHKEM_X25519_HKDF_SHA256_HKDF_SHA256_AES_128_GCM_Raw_Key_Template":       hybrid.DHKEM_X25519_HKDF_SHA256_HKDF_SHA256_AES_128_GCM_Raw_Key_Template,
	"DHKEM_X25519_HKDF_SHA256_HKDF_SHA256_AES_256_GCM_Key_Template":           hybrid.DHKEM_X25519_HKDF_SHA256_HKDF_SHA256_AES_256_GCM_Key_Template,
	"DHKEM_X25519_HKDF_SHA256_HKDF_SHA256_AES_256_GCM_Raw_Key_Template":       hybrid.DHKEM_X25519_HKDF_SHA256_HKDF_SHA256_AES_256_GCM_Raw_Key_Template,
	"DHKEM_X25519_HKDF_SHA256_HKDF_SHA256_CHACHA20_POLY1305_Key_Template":     hybrid.DHKEM_X25519_HKDF_SHA256_HKDF_SHA256_CHACHA20_POLY1305_Key_Template,
	"DHKEM_X25519_HKDF_SHA256_HKDF_SHA256_CHACHA20_POLY1305_Raw_Key_Template": hybrid.DHKEM_X25519_HKDF_SHA256_HKDF_SHA256_CHACHA20_POLY1305_Raw_Key_Template,
	"ECIESHKDFAES128GCMKeyTemplate":                                           hybrid.ECIESHKDFAES128GCMKeyTemplate,
	"ECIESHKDFAES128CTRHMACSHA256KeyTemplate":                                 hybrid.ECIESHKDFAES128CTRHMACSHA256KeyTemplate,
	"HS256Template":                                  jwt.HS256Template,
	"RawHS256Template":                               jwt.RawHS256Template,
	"HS384Template":                                  jwt.HS384Template,
	"RawHS384Template":                               jwt.RawHS384Template,
	"HS512Template":                                  jwt.HS512Template,
	"RawHS512Template":                               jwt.RawHS512Template,
	"ES256Template":                                  jwt.ES256Template,
	"RawES256Template":                               jwt.RawES256Template,
	"ES384Template":                                  jwt.ES384Template,
	"RawES384Template":                               jwt.RawES384Template,
	"ES512Template":                                  jwt.ES512Template,
	"RawES512Template":                               jwt.RawES512Template,
	"RS256_2048_F4_Key_Template":                     jwt.RS256_2048_F4_Key_Template,
	"RawRS256_2048_F4_Key_Template":                  jwt.RawRS256_2048_F4_Key_Template,
	"RS256_3072_F4_Key_Template":                     jwt.RS256_3072_F4_Key_Template,
	"RawRS256_3072_F4_Key_Template":                  jwt.RawRS256_3072_F4_Key_Template,
	"RS384_3072_F4_Key_Template":                     jwt.RS384_3072_F4_Key_Template,
	"RawRS384_3072_F4_Key_Template":                  jwt.RawRS384_3072_F4_Key_Template,
	"RS512_4096_F4_Key_Template":                     jwt.RS512_4096_F4_Key_Template,
	"RawRS512_4096_F4_Key_Template":                  jwt.RawRS512_4096_F4_Key_Template,
	"PS256_2048_F4_Key_Template":                     jwt.PS256_2048_F4_Key_Template,
	"RawPS256_2048_F4_Key_Template":                  jwt.RawPS256_2048_F4_Key_Template,
	"PS256_3072_F4_Key_Template":                     jwt.PS256_3072_F4_Key_Template,
	"RawPS256_3072_F4_Key_Template":                  jwt.RawPS256_3072_F4_Key_Template,
	"PS384_3072_F4_Key_Template":                     jwt.PS384_3072_F4_Key_Template,
	"RawPS384_3072_F4_Key_Template":                  jwt.RawPS384_3072_F4_Key_Template,
	"PS512_4096_F4_Key_Template":                     jwt.PS512_4096_F4_Key_Template,
	"RawPS512_4096_F4_Key_Template":                  jwt.RawPS512_4096_F4_Key_Template,
	"HMACSHA256Tag128KeyTemplate":                    mac.HMACSHA256Tag128KeyTemplate,
	"HMACSHA256Tag256KeyTemplate":                    mac.HMACSHA256Tag256KeyTemplate,
	"HMACSHA512Tag256KeyTemplate":                    mac.HMACSHA512Tag256KeyTemplate,
	"HMACSHA512Tag512KeyTemplate":                    mac.HMACSHA512Tag512KeyTemplate,
	"AESCMACTag128KeyTemplate":                       mac.AESCMACTag128KeyTemplate,
	"HMACSHA256PRFKeyTemplate":                       prf.HMACSHA256PRFKeyTemplate,
	"HMACSHA512PRFKeyTemplate":                       prf.HMACSHA512PRFKeyTemplate,
	"HKDFSHA256PRFKeyTemplate":                       prf.HKDFSHA256PRFKeyTemplate,
	"AESCMACPRFKeyTemplate":                          prf.AESCMACPRFKeyTemplate,
	"ECDSAP256KeyTemplate":                           signature.ECDSAP256KeyTemplate,
	"ECDSAP256KeyWithoutPrefixTemplate":              signature.ECDSAP256KeyWithoutPrefixTemplate,
	"ECDSAP256RawKeyTemplate":                        signature.ECDSAP256RawKeyTemplate,
	"ECDSAP384SHA384KeyTemplate":                     signature.ECDSAP384SHA384KeyTemplate,
	"ECDSAP384SHA384KeyWithoutPrefixTemplate":        signature.ECDSAP384SHA384KeyWithoutPrefixTemplate,
	"ECDSAP384SHA512KeyTemplate":                     signature.ECDSAP384SHA512KeyTemplate,
	"ECDSAP384KeyWithoutPrefixTemplate":              signature.ECDSAP384KeyWithoutPrefixTemplate,
	"ECDSAP521KeyTemplate":                           signature.ECDSAP521KeyTemplate,
	"ECDSAP521KeyWithoutPrefixTemplate":              signature.ECDSAP521KeyWithoutPrefixTemplate,
	"ED25519KeyTemplate":                             signature.ED25519KeyTemplate,
	"ED25519KeyWithoutPrefixTemplate":                signature.ED25519KeyWithoutPrefixTemplate,
	"RSA_SSA_PKCS1_3072_SHA256_F4_Key_Template":      signature.RSA_SSA_PKCS1_3072_SHA256_F4_Key_Template,
	"RSA_SSA_PKCS1_3072_SHA256_F4_RAW_Key_Template":  signature.RSA_SSA_PKCS1_3072_SHA256_F4_RAW_Key_Template,
	"RSA_SSA_PKCS1_4096_SHA512_F4_Key_Template":      signature.RSA_SSA_PKCS1_4096_SHA512_F4_Key_Template,
	"RSA_SSA_PKCS1_4096_SHA512_F4_RAW_Key_Template":  signature.RSA_SSA_PKCS1_4096_SHA512_F4_RAW_Key_Template,
	"RSA_SSA_PSS_3072_SHA256_32_F4_Key_Template":     signature.RSA_SSA_PSS_3072_SHA256_32_F4_Key_Template,
	"RSA_SSA_PSS_3072_SHA256_32_F4_Raw_Key_Template": signature.RSA_SSA_PSS_3072_SHA256_32_F4_Raw_Key_Template,
	"RSA_SSA_PSS_4096_SHA512_64_F4_Key_Template":     signature.RSA_SSA_PSS_4096_SHA512_64_F4_Key_Template,
	"RSA_SSA_PSS_4096_SHA512_64_F4_Raw_Key_Template": signature.RSA_SSA_PSS_4096_SHA512_64_F4_Raw_Key_Template,
	"AES128GCMHKDF4KBKeyTemplate":                    streamingaead.AES128GCMHKDF4KBKeyTemplate,
	"AES128GCMHKDF1MBKeyTemplate":                    streamingaead.AES128GCMHKDF1MBKeyTemplate,
	"AES256GCMHKDF4KBKeyTemplate":                    streamingaead.AES256GCMHKDF4KBKeyTemplate,
	"AES256GCMHKDF1MBKeyTemplate":                    streamingaead.AES256GCMHKDF1MBKeyTemplate,
	"AES128CTRHMACSHA256Segment4KBKeyTemplate":       streamingaead.AES128CTRHMACSHA256Segment4KBKeyTemplate,
	"AES128CTRHMACSHA256Segment1MBKeyTemplate":       streamingaead.AES128CTRHMACSHA256Segment1MBKeyTemplate,
	"AES256CTRHMACSHA256Segment4KBKeyTemplate":       streamingaead.AES256CTRHMACSHA256Segment4KBKeyTemplate,
	"AES256CTRHMACSHA256Segment1MBKeyTemplate":       streamingaead.AES256CTRHMACSHA256Segment1MBKeyTemplate,
	"KMSEnvelopeAEADKeyTemplate(AES128GCM)": func() *tinkpb.KeyTemplate {
		return aead.KMSEnvelopeAEADKeyTemplate(keycat.FakeKMSURI, aead.AES128GCMKeyTemplate())
	},
	"CreatePRFBasedKeyTemplate(HKDF-SHA256,AES128GCM)":     derivT(prf.HKDFSHA256PRFKeyTemplate(), aead.AES128GCMKeyTemplate()),
	"CreatePRFBasedKeyTemplate(HKDF-SHA256,AES256GCM-RAW)": derivT(prf.HKDFSHA256PRFKeyTemplate(), aead.AES256GCMNoPrefixKeyTemplate()),
	"CreatePRFBasedKeyTemplate(HKDF-SHA256,HMAC-SHA256)":   derivT(prf.HKDFSHA256PRFKeyTemplate(), mac.HMACSHA256Tag128KeyTemplate()),
	"CreatePRFBasedKeyTemplate(HKDF-SHA256,ED25519)":       derivT(prf.HKDFSHA256PRFKeyTemplate(), signature.ED25519KeyTemplate()),
}
