// C15: PRFs (HMAC-PRF, HKDF-PRF, AES-CMAC-PRF), PRF sets and the library-wide subtle.ComputeHKDF helper.
//
// Bounded-exhaustive enumeration (engine E1):
//   - each PRF type x hashes x key sizes x salts x construction paths (prf.NewPRFSet over a Manager handle and a
//     proto handle, the per-type primitive constructor, prf/subtle) x EVERY input length 0..80 x EVERY output
//     length 0..max (HMAC: digest size, CMAC: 16, HKDF: 255*hLen): the output must be the n-byte prefix of the
//     maximum-length value computed ONCE by the reference (ref.HMAC / ref.HKDF / ref.CMAC from RFC 2104 / 5869 /
//     4493) - this is at once "equals the standard value" and the prefix law; two calls agree; requests beyond
//     the maximum fail. For HKDF the every-output-length sweep runs on selected inputs and a lattice of output
//     lengths (all hash-block boundaries) on every input length;
//   - subtle.ComputeHKDF over hashes x key lengths x salts {nil, empty, 1, hLen, 200} x infos x EVERY tag size
//     0..255*hLen+1: whenever it returns output, the output is RFC 5869 for (hash, salt or hLen zeros, info, size);
//     refusal is not judged, output for a size beyond 255*hLen is a violation;
//   - PRF sets over keysets of 1..3 keys (types, statuses, every admissible primary, IDs incl. extremes, shared
//     key material): PrimaryID and the key set of PRFs mirror the enabled keys; each PRFs[id] and
//     ComputePrimaryPRF equal that key's reference PRF.
//
// Don't-care cells: which sizes ComputeHKDF refuses (it has a 10-byte minimum); the error values; key sizes the
// key-level API refuses (HKDF-PRF keys < 32 bytes, AES-CMAC-PRF keys != 32 bytes at primitive creation).
package main

import (
	"bytes"
	"errors"
	"fmt"
	"sort"

	"github.com/tink-crypto/tink-go/v2/insecuresecretdataaccess"
	"github.com/tink-crypto/tink-go/v2/key"
	"github.com/tink-crypto/tink-go/v2/mac/aescmac"
	"github.com/tink-crypto/tink-go/v2/mac/hmac"
	"github.com/tink-crypto/tink-go/v2/prf"
	"github.com/tink-crypto/tink-go/v2/prf/aescmacprf"
	"github.com/tink-crypto/tink-go/v2/prf/hkdfprf"
	"github.com/tink-crypto/tink-go/v2/prf/hmacprf"
	prfsubtle "github.com/tink-crypto/tink-go/v2/prf/subtle"
	tinkpb "github.com/tink-crypto/tink-go/v2/proto/tink_go_proto"
	"github.com/tink-crypto/tink-go/v2/secretdata"
	"github.com/tink-crypto/tink-go/v2/subtle"
	"verif/h"
	"verif/ref"
	"verif/tk"
)

var hashes = []string{"SHA1", "SHA224", "SHA256", "SHA384", "SHA512"}
var digest = map[string]int{"SHA1": 20, "SHA224": 28, "SHA256": 32, "SHA384": 48, "SHA512": 64}
var blockSize = map[string]int{"SHA1": 64, "SHA224": 64, "SHA256": 64, "SHA384": 128, "SHA512": 128}
var hmacHash = map[string]hmacprf.HashType{"SHA1": hmacprf.SHA1, "SHA224": hmacprf.SHA224, "SHA256": hmacprf.SHA256, "SHA384": hmacprf.SHA384, "SHA512": hmacprf.SHA512}
var hkdfHash = map[string]hkdfprf.HashType{"SHA1": hkdfprf.SHA1, "SHA224": hkdfprf.SHA224, "SHA256": hkdfprf.SHA256, "SHA384": hkdfprf.SHA384, "SHA512": hkdfprf.SHA512}

const (
	pathSet    = "prf.NewPRFSet(handle)"
	pathProto  = "prf.NewPRFSet(proto-handle)"
	pathType   = "type constructor"
	pathSubtle = "prf/subtle"
)

var paths = []string{pathSet, pathProto, pathType, pathSubtle}

func sd(b []byte) secretdata.Bytes {
	return secretdata.NewBytesFromData(bytes.Clone(b), insecuresecretdataaccess.Token{})
}

var errNoSeam = errors.New("type constructor seam unavailable on this tree")

// noSeam reports (and tallies) that the chosen path needs the export shim and the shim could not be built.
func noSeam(x *h.X, err error) bool {
	if err == errNoSeam {
		x.Outcome("type-constructor-seam-unavailable")
		return true
	}
	return false
}

// fromKey builds a PRF for a key object through the chosen (non-subtle) path.
func fromKey(k key.Key, path string, construct func(key.Key) (any, error)) (prf.PRF, error) {
	switch path {
	case pathType:
		if !h.Seams() {
			return nil, errNoSeam // export shim unavailable (tink internals refactored, see check.sh): path skipped
		}
		p, err := construct(k)
		if err != nil {
			return nil, err
		}
		pp, ok := p.(prf.PRF)
		if !ok {
			return nil, fmt.Errorf("primitive constructor returned %T, not a prf.PRF", p)
		}
		return pp, nil
	case pathSet, pathProto:
		const id = 0x7FFFFFFF
		if path == pathSet {
			h0, err := tk.Single(k)
			if err != nil {
				return nil, err
			}
			s, err := prf.NewPRFSet(h0)
			if err != nil {
				return nil, err
			}
			return primaryOf(s)
		}
		h0, err := tk.Handle([]tk.Entry{{Key: k, ID: id, Primary: true}})
		if err != nil {
			return nil, err
		}
		s, err := prf.NewPRFSet(h0)
		if err != nil {
			return nil, err
		}
		if s.PrimaryID != id {
			return nil, fmt.Errorf("PrimaryID = %#x, want %#x", s.PrimaryID, id)
		}
		return primaryOf(s)
	}
	return nil, fmt.Errorf("unknown path %s", path)
}

// setPrimary adapts Set.ComputePrimaryPRF to the PRF interface.
type setPrimary struct{ s *prf.Set }

func (p setPrimary) ComputePRF(in []byte, n uint32) ([]byte, error) {
	return p.s.ComputePrimaryPRF(in, n)
}

func primaryOf(s *prf.Set) (prf.PRF, error) {
	if len(s.PRFs) != 1 {
		return nil, fmt.Errorf("one-key keyset gave a set with %d PRFs", len(s.PRFs))
	}
	if _, ok := s.PRFs[s.PrimaryID]; !ok {
		return nil, fmt.Errorf("PrimaryID %#x is not a key of PRFs", s.PrimaryID)
	}
	return setPrimary{s}, nil
}

type prfCase struct {
	x     *h.X
	p     prf.PRF
	full  func(in []byte) []byte        // reference output of maximum length
	fullN func(in []byte, n int) []byte // reference output of length n (HKDF: avoids computing all 255 blocks)
	max   int
	cfg   string
	big   bool // requests far beyond max are safe (no allocation of the requested size)
	hLen  int
	// scribble (optional) is run once after the third evaluation: the caller overwrites slices it obtained from the
	// key's ACCESSORS (copies by contract). A PRF whose later outputs change has handed out its own state.
	scribble func()
	nOne     int
	scratch  []byte
}

func (c *prfCase) inputs(n int) [][]byte {
	if c.x.Thorough() {
		return [][]byte{ref.Pattern(2, n), ref.Pattern(3, n), ref.Pattern(0, n), ref.Pattern(1, n)}
	}
	return [][]byte{ref.Pattern(2, n), ref.Pattern(3, n)}
}

// one checks ComputePRF(in, n) against want[:n]; returns false after a failure.
func (c *prfCase) one(in, want []byte, n int) bool {
	c.x.Eval(1)
	if c.nOne++; c.nOne == 4 && c.scribble != nil {
		c.scribble()
	}
	var out []byte
	var err error
	// the input travels in a buffer the caller reuses for every call (same slice, new contents)
	if cap(c.scratch) < len(in) {
		c.scratch = make([]byte, len(in)+1024)
	}
	buf := c.scratch[:len(in):len(in)]
	copy(buf, in)
	if in == nil {
		buf = nil
	}
	if p, msg := h.Try(func() { out, err = c.p.ComputePRF(buf, uint32(n)) }); p {
		c.x.Fail("panic", "%s: ComputePRF(input %d bytes, %d) panicked: %s", c.cfg, len(in), n, msg)
		return false
	}
	if !bytes.Equal(buf, in) {
		c.x.Fail("input-modified", "%s: ComputePRF modified its input", c.cfg)
		return false
	}
	if n > c.max {
		if err == nil {
			c.x.Fail("overlong-accepted", "%s: ComputePRF(input %d bytes, outputLength %d) returned %d bytes although the maximum output length is %d", c.cfg, len(in), n, len(out), c.max)
			return false
		}
		return true
	}
	if err != nil {
		c.x.Fail("compute-error", "%s: ComputePRF(input %d bytes, outputLength %d) failed (max %d): %v", c.cfg, len(in), n, c.max, err)
		return false
	}
	if !bytes.Equal(out, want[:n]) {
		c.x.Fail("wrong-output", "%s: ComputePRF(input %d bytes %s, outputLength %d) = %s (len %d); reference (prefix of the max-length output) %s", c.cfg, len(in), tk.Hex(in), n, tk.Hex(out), len(out), tk.Hex(want[:n]))
		return false
	}
	return true
}

func (c *prfCase) beyond() []int {
	b := []int{c.max + 1, c.max + 2, c.max + c.hLen, 2 * c.max, 2*c.max + 1, 1 << 16, 1 << 20}
	if c.big {
		b = append(b, 1<<31-1, 1<<31, 1<<32-1)
	}
	return b
}

// allLengths: every input length x every output length 0..max, plus the beyond-max requests.
func (c *prfCase) allLengths(inLens []int) {
	for _, l := range inLens {
		for _, in := range c.inputs(l) {
			want := c.full(in)
			for n := 0; n <= c.max; n++ {
				if !c.one(in, want, n) {
					return
				}
			}
			for _, n := range c.beyond() {
				if !c.one(in, want, n) {
					return
				}
			}
			// determinism
			a, e1 := c.p.ComputePRF(in, uint32(c.max))
			b, e2 := c.p.ComputePRF(in, uint32(c.max))
			if e1 != nil || e2 != nil || !bytes.Equal(a, b) {
				c.x.Fail("nondeterministic", "%s: two ComputePRF calls (input %d bytes) differ: %s / %s (%v, %v)", c.cfg, l, tk.Hex(a), tk.Hex(b), e1, e2)
				return
			}
		}
	}
	// nil input = empty input
	want := c.full(nil)
	c.one(nil, want, c.max)
	c.one([]byte{}, want, c.max)
}

// lattice: every input length x a lattice of output lengths containing every hash-block boundary class.
// The small output lengths run on every input; the large ones (each costs up to 255 HMAC calls) and the
// beyond-max requests on every input in the thorough tier and on the inputs of `bigOn` in the quick tier.
func (c *prfCase) lattice(inLens []int) {
	hl := c.hLen
	small := []int{0, 1, 2, hl - 1, hl, hl + 1, 2*hl - 1, 2 * hl, 2*hl + 1, 3 * hl, 10*hl + 7}
	large := []int{128 * hl, 254*hl - 1, 254 * hl, 254*hl + 1, c.max - 1, c.max}
	bigOn := map[int]bool{0: true, 1: true, 16: true, 55: true, 64: true, 80: true}
	for _, l := range inLens {
		for pi, in := range c.inputs(l) {
			big := c.x.Thorough() || (bigOn[l] && pi == 0)
			ns := small
			if big {
				ns = append(append([]int{}, small...), large...)
			}
			want := c.fullN(in, ns[len(ns)-1])
			for _, n := range ns {
				if !c.one(in, want, n) {
					return
				}
			}
			if big {
				for _, n := range c.beyond() {
					if !c.one(in, want, n) {
						return
					}
				}
			} else if !c.one(in, want, c.max+1) {
				return
			}
			a, e1 := c.p.ComputePRF(in, uint32(3*hl+1))
			b, e2 := c.p.ComputePRF(in, uint32(3*hl+1))
			if e1 != nil || e2 != nil || !bytes.Equal(a, b) {
				c.x.Fail("nondeterministic", "%s: two ComputePRF calls (input %d bytes) differ", c.cfg, l)
				return
			}
		}
	}
	want := c.fullN(nil, 2*hl+1)
	c.one(nil, want, 2*hl+1)
	c.one([]byte{}, want, 2*hl+1)
}

func seq(lo, hi int) []int {
	var s []int
	for i := lo; i <= hi; i++ {
		s = append(s, i)
	}
	return s
}

func hmacSection(x *h.X) {
	hash := h.Pick(x, "hash", hashes)
	path := h.Pick(x, "path", paths)
	ksizes := []int{16, 32, 64, 65, 129}
	if path == pathSubtle {
		ksizes = []int{1, 16, 32, 63, 64, 65, 127, 128, 129, 200}
	}
	ksize := h.Pick(x, "keysize", ksizes)
	kb := ref.KeyBytes(fmt.Sprintf("hmacprf-%s-%d", hash, ksize), ksize)
	cfg := fmt.Sprintf("HMAC-PRF %s key=%d via %s", hash, ksize, path)
	var p prf.PRF
	var scribble func()
	if path == pathSubtle {
		pp, err := prfsubtle.NewHMACPRF(hash, bytes.Clone(kb))
		if err != nil {
			x.Fail("construct", "%s: %v", cfg, err)
			return
		}
		p = pp
	} else {
		params, err := hmacprf.NewParameters(ksize, hmacHash[hash])
		if err != nil {
			x.Fail("construct", "%s: NewParameters: %v", cfg, err)
			return
		}
		k, err := hmacprf.NewKey(sd(kb), params)
		if err != nil {
			x.Fail("construct", "%s: NewKey: %v", cfg, err)
			return
		}
		p, err = fromKey(k, path, hmacprf.VerifPrimitive)
		if noSeam(x, err) {
			return
		}
		if err != nil {
			x.Fail("construct", "%s: %v", cfg, err)
			return
		}
		scribble = func() {
			b := k.KeyBytes().Data(insecuresecretdataaccess.Token{})
			for i := range b {
				b[i] ^= 0xA5
			}
		}
	}
	x.NonTrivial()
	x.Outcome("hmacprf/" + hash)
	c := &prfCase{x: x, p: p, max: digest[hash], hLen: digest[hash], cfg: cfg, big: true, scribble: scribble,
		full: func(in []byte) []byte { return ref.HMAC(hash, kb, in) }}
	maxIn := 2*blockSize[hash] + 4
	if x.Thorough() {
		maxIn = 5*blockSize[hash] + 4
	}
	c.allLengths(seq(0, maxIn))
}

func cmacSection(x *h.X) {
	path := h.Pick(x, "path", paths)
	sizes := []int{32}
	if path == pathSubtle {
		sizes = []int{16, 24, 32}
	}
	ksize := h.Pick(x, "keysize", sizes)
	ki := x.Choose("key(msbL,msbK1)", 4)
	x.Label(fmt.Sprintf("%02b", ki))
	kb := cmacKeys(ksize)[ki]
	cfg := fmt.Sprintf("AES-CMAC-PRF key=%d(msb %02b) via %s", ksize, ki, path)
	var p prf.PRF
	var scribble func()
	if path == pathSubtle {
		pp, err := prfsubtle.NewAESCMACPRF(bytes.Clone(kb))
		if err != nil {
			x.Fail("construct", "%s: %v", cfg, err)
			return
		}
		p = pp
	} else {
		k, err := aescmacprf.NewKey(sd(kb))
		if err != nil {
			x.Fail("construct", "%s: NewKey: %v", cfg, err)
			return
		}
		p, err = fromKey(k, path, aescmacprf.VerifPrimitive)
		if noSeam(x, err) {
			return
		}
		if err != nil {
			x.Fail("construct", "%s: %v", cfg, err)
			return
		}
		scribble = func() {
			b := k.KeyBytes().Data(insecuresecretdataaccess.Token{})
			for i := range b {
				b[i] ^= 0xA5
			}
		}
	}
	x.NonTrivial()
	x.Outcome(fmt.Sprintf("cmacprf/%d/msb%02b", ksize, ki))
	c := &prfCase{x: x, p: p, max: 16, hLen: 16, cfg: cfg, big: true, scribble: scribble,
		full: func(in []byte) []byte { return ref.CMAC(kb, in) }}
	// every input length over many AES blocks: strided processing of leading blocks shows only for length classes
	maxIn := 330
	if x.Thorough() {
		maxIn = 1100
	}
	c.allLengths(append(seq(0, maxIn), ref.LongLengths(13, 17)...))
}

// cmacKeys returns deterministic keys covering all four (msb L, msb K1) combinations.
func cmacKeys(size int) [][]byte {
	seen := map[[2]bool][]byte{}
	for i := 0; len(seen) < 4 && i < 1000; i++ {
		k := ref.KeyBytes(fmt.Sprintf("cmacprf-%d-%d", size, i), size)
		a, b := ref.CMACSubkeyMSBs(k)
		if _, ok := seen[[2]bool{a, b}]; !ok {
			seen[[2]bool{a, b}] = k
		}
	}
	return [][]byte{seen[[2]bool{false, false}], seen[[2]bool{false, true}], seen[[2]bool{true, false}], seen[[2]bool{true, true}]}
}

// salts: index 0 nil, 1 empty, 2 one byte, 3 hLen bytes, 4 block size + 1 bytes (longer than the HMAC block: hashed key), 5 200 bytes, 6.. zero shapes
func saltOf(i int, hash string) []byte {
	switch i {
	case 0:
		return nil
	case 1:
		return []byte{}
	case 2:
		return []byte{0x5a}
	case 3:
		return ref.KeyBytes("salt-hlen", digest[hash])
	case 4:
		return ref.KeyBytes("salt-block+1", blockSize[hash]+1)
	case 5:
		return ref.KeyBytes("salt-200", 200)
	// all-zero salts: up to the HMAC block size they equal the RFC 5869 default (HMAC zero-pads its key), beyond
	// it they do not (the key is hashed first) - no layer may normalise them away
	case 6:
		return make([]byte, digest[hash])
	case 7:
		return make([]byte, blockSize[hash])
	case 8:
		return make([]byte, blockSize[hash]+1)
	case 9:
		return make([]byte, 200)
	}
	// leading and trailing zero bytes around one non-zero byte
	b := make([]byte, blockSize[hash]+9)
	b[blockSize[hash]] = 0x80
	return b
}

var saltNames = []string{"nil", "empty", "1", "hLen", "block+1", "200", "zeros-hLen", "zeros-block", "zeros-block+1", "zeros-200", "zeros-0x80-zeros"}

func hkdfSection(x *h.X) {
	path := h.Pick(x, "path", paths)
	hs := []string{"SHA256", "SHA512"}
	ks := []int{32, 64}
	if path == pathSubtle {
		hs = hashes // prf/subtle does not restrict the hash
		ks = []int{16, 32, 64, 129}
	}
	hash := h.Pick(x, "hash", hs)
	ksize := h.Pick(x, "keysize", ks)
	si := x.Choose("salt", len(saltNames))
	x.Label(saltNames[si])
	salt := saltOf(si, hash)
	// mode 0: lattice of output lengths on every input length; mode k>0: every output length on one input length
	sweeps := []int{3}
	if x.Thorough() {
		sweeps = []int{0, 65}
	}
	mode := x.Choose("mode", 1+len(sweeps))
	if !x.Thorough() && mode > 0 && !(path == pathSet && ksize == 32 && (hash == "SHA256" || si == 0 || si == 4) || path == pathSubtle && ksize == 32 && si == 3) {
		return // quick: the every-output-length sweep runs per (hash, salt) on the keyset path (SHA512: salts nil and block+1), per hash on the subtle path
	}
	kb := ref.KeyBytes(fmt.Sprintf("hkdfprf-%s-%d", hash, ksize), ksize)
	cfg := fmt.Sprintf("HKDF-PRF %s key=%d salt=%s via %s", hash, ksize, saltNames[si], path)
	var p prf.PRF
	var scribble func()
	if path == pathSubtle {
		var s []byte
		if salt != nil {
			s = bytes.Clone(salt)
		}
		pp, err := prfsubtle.NewHKDFPRF(hash, bytes.Clone(kb), s)
		if err != nil {
			x.Fail("construct", "%s: %v", cfg, err)
			return
		}
		p = pp
	} else {
		var s []byte
		if salt != nil {
			s = bytes.Clone(salt)
		}
		params, err := hkdfprf.NewParameters(ksize, hkdfHash[hash], s)
		if err != nil {
			x.Fail("construct", "%s: NewParameters: %v", cfg, err)
			return
		}
		// the caller REUSES its salt buffer right after the constructor returned (the parameters must own a copy)
		for i := range s {
			s[i] ^= 0xA5
		}
		k, err := hkdfprf.NewKey(sd(kb), params)
		if err != nil {
			x.Fail("construct", "%s: NewKey: %v", cfg, err)
			return
		}
		p, err = fromKey(k, path, hkdfprf.VerifPrimitive)
		if noSeam(x, err) {
			return
		}
		if err != nil {
			x.Fail("construct", "%s: %v", cfg, err)
			return
		}
		scribble = func() {
			// increments, not XOR: two results aliasing ONE internal array must not cancel out
			for _, b := range [][]byte{params.Salt(), k.Parameters().(*hkdfprf.Parameters).Salt(), k.KeyBytes().Data(insecuresecretdataaccess.Token{})} {
				for i := range b {
					b[i] += 0x35
				}
			}
		}
	}
	x.NonTrivial()
	hl := digest[hash]
	c := &prfCase{x: x, p: p, max: 255 * hl, hLen: hl, cfg: cfg, big: false, scribble: scribble,
		full:  func(in []byte) []byte { return ref.HKDF(hash, kb, salt, in, 255*hl) },
		fullN: func(in []byte, n int) []byte { return ref.HKDF(hash, kb, salt, in, n) }}
	if mode == 0 {
		x.Outcome("hkdfprf/" + hash + "/lattice")
		c.lattice(seq(0, 80))
		return
	}
	x.Outcome("hkdfprf/" + hash + "/every-output-length")
	in := ref.Pattern(3, sweeps[mode-1])
	want := c.full(in)
	for n := 0; n <= c.max; n++ {
		if !c.one(in, want, n) {
			return
		}
	}
	for _, n := range c.beyond() {
		if !c.one(in, want, n) {
			return
		}
	}
}

// ---------------------------------------------------------------------------------------------
// subtle.ComputeHKDF

var hkdfKeyLens = []int{0, 1, 16, 64, 65, 129}

func infoOf(i int) []byte {
	switch i {
	case 0:
		return nil
	case 1:
		return []byte{}
	case 2:
		return []byte{0x01}
	case 3:
		return []byte{0x00, 0x01}
	case 4:
		return []byte{0xff, 0x00, 0x01}
	}
	return ref.KeyBytes("info-100", 100)
}

var infoNames = []string{"nil", "empty", "1", "2", "3", "100"}
var chSalts = []int{0, 1, 2, 3, 5, 7, 8} // nil, empty, 1, hLen, 200, zeros-block, zeros-block+1

func computeHKDFSection(x *h.X) {
	hash := h.Pick(x, "hash", hashes)
	ki := x.Choose("keylen", len(hkdfKeyLens))
	x.Label(fmt.Sprint(hkdfKeyLens[ki]))
	sj := x.Choose("salt", len(chSalts))
	si := chSalts[sj]
	x.Label(saltNames[si])
	ii := x.Choose("info", 6)
	x.Label(infoNames[ii])
	hl := digest[hash]
	max := 255 * hl
	kb := ref.KeyBytes(fmt.Sprintf("computehkdf-%s-%d", hash, hkdfKeyLens[ki]), hkdfKeyLens[ki])
	if ki == 0 {
		kb = nil
	}
	salt, info := saltOf(si, hash), infoOf(ii)
	cfg := fmt.Sprintf("subtle.ComputeHKDF(%s, key %d bytes, salt %s, info %s)", hash, len(kb), saltNames[si], infoNames[ii])
	// quick: every tag size on a slice of the (key, salt, info) cube that contains every value of every
	// dimension for each hash (SHA256: one sixth of the cube); the other cells get a lattice of tag sizes.
	// thorough: every tag size everywhere.
	every := x.Thorough() || (ki == ii && sj == ii%5) || (ki+sj+ii)%6 == 0 && hash == "SHA256"
	var sizes []int
	if every {
		sizes = seq(0, max+1)
		sizes = append(sizes, max+2, max+hl, 2*max, 1<<20)
	} else {
		sizes = []int{0, 1, 9, 10, 11, 16, hl - 1, hl, hl + 1, 2*hl - 1, 2 * hl, 2*hl + 1, 5*hl + 3, 128 * hl, 254 * hl, 254*hl + 1, max - 1, max, max + 1, max + 2, max + hl, 2 * max}
	}
	want := ref.HKDF(hash, kb, salt, info, max)
	returned, refused := 0, 0
	for _, n := range sizes {
		x.Eval(1)
		var out []byte
		var err error
		k, s, i := bytes.Clone(kb), bytes.Clone(salt), bytes.Clone(info)
		if salt == nil {
			s = nil
		}
		if info == nil {
			i = nil
		}
		if p, msg := h.Try(func() { out, err = subtle.ComputeHKDF(hash, k, s, i, uint32(n)) }); p {
			x.Fail("panic", "%s tag %d: panicked: %s", cfg, n, msg)
			return
		}
		if !bytes.Equal(k, kb) || !bytes.Equal(s, salt) || !bytes.Equal(i, info) {
			x.Fail("input-modified", "%s tag %d: inputs modified", cfg, n)
			return
		}
		if err != nil {
			refused++
			if out != nil {
				x.Fail("hkdf-output-with-error", "%s tag %d: error %v together with %d output bytes", cfg, n, err, len(out))
				return
			}
			continue
		}
		returned++
		if n > max {
			x.Fail("hkdf-overlong-output", "%s: returned %d bytes for tag size %d although RFC 5869 limits the output to 255*hLen = %d", cfg, len(out), n, max)
			return
		}
		if !bytes.Equal(out, want[:n]) {
			x.Fail("hkdf-wrong-output", "%s tag %d: returned %s (len %d), RFC 5869 gives %s", cfg, n, tk.Hex(out), len(out), tk.Hex(want[:n]))
			return
		}
	}
	if returned > 0 {
		x.NonTrivial()
	}
	x.OutcomeN("computehkdf/"+hash+"/returned=rfc5869", returned)
	x.OutcomeN("computehkdf/"+hash+"/refused(not judged)", refused)
	if every {
		x.Count("cells-with-every-tag-size", 1)
	}
}

// ---------------------------------------------------------------------------------------------
// PRF sets

type prfKind struct {
	name string
	key  func() (key.Key, error)
	full func(in []byte) []byte
	max  int
}

func prfKinds() []prfKind {
	k1 := ref.KeyBytes("set-hmac-sha256", 32)
	k2 := ref.KeyBytes("set-hkdf-sha256", 32)
	k3 := ref.KeyBytes("set-cmac", 32)
	k4 := ref.KeyBytes("set-hmac-sha512", 64)
	salt := []byte("set-salt")
	return []prfKind{
		{"HMAC-SHA256", func() (key.Key, error) {
			p, err := hmacprf.NewParameters(32, hmacprf.SHA256)
			if err != nil {
				return nil, err
			}
			return hmacprf.NewKey(sd(k1), p)
		}, func(in []byte) []byte { return ref.HMAC("SHA256", k1, in) }, 32},
		{"HKDF-SHA256", func() (key.Key, error) {
			p, err := hkdfprf.NewParameters(32, hkdfprf.SHA256, bytes.Clone(salt))
			if err != nil {
				return nil, err
			}
			return hkdfprf.NewKey(sd(k2), p)
		}, func(in []byte) []byte { return ref.HKDF("SHA256", k2, salt, in, 8160) }, 8160},
		{"AES-CMAC", func() (key.Key, error) { return aescmacprf.NewKey(sd(k3)) },
			func(in []byte) []byte { return ref.CMAC(k3, in) }, 16},
		{"HMAC-SHA512", func() (key.Key, error) {
			p, err := hmacprf.NewParameters(64, hmacprf.SHA512)
			if err != nil {
				return nil, err
			}
			return hmacprf.NewKey(sd(k4), p)
		}, func(in []byte) []byte { return ref.HMAC("SHA512", k4, in) }, 64},
	}
}

// unusableKinds: keys a PRF keyset can hold in disabled / destroyed entries although no PRF can be built from them.
func unusableKinds() []prfKind {
	return []prfKind{
		{"AES-CMAC-MAC-key(not a PRF)", func() (key.Key, error) {
			p, err := aescmac.NewParameters(aescmac.ParametersOpts{KeySizeInBytes: 32, TagSizeInBytes: 16, Variant: aescmac.VariantNoPrefix})
			if err != nil {
				return nil, err
			}
			return aescmac.NewKey(sd(ref.KeyBytes("set-foreign-cmac", 32)), p, 0)
		}, nil, 0},
		{"HMAC-MAC-key(not a PRF)", func() (key.Key, error) {
			p, err := hmac.NewParameters(hmac.ParametersOpts{KeySizeInBytes: 32, TagSizeInBytes: 16, HashType: hmac.SHA256, Variant: hmac.VariantNoPrefix})
			if err != nil {
				return nil, err
			}
			return hmac.NewKey(sd(ref.KeyBytes("set-foreign-hmac", 32)), p, 0)
		}, nil, 0},
	}
}

var statuses = []tinkpb.KeyStatusType{tinkpb.KeyStatusType_ENABLED, tinkpb.KeyStatusType_DISABLED, tinkpb.KeyStatusType_DESTROYED}
var statusNames = []string{"ENABLED", "DISABLED", "DESTROYED"}

// id assignments per keyset size (distinct IDs, extremes included, ascending / descending / mixed order)
var idSets = map[int][][]uint32{
	1: {{0x01020304}, {0}, {1}, {0x7FFFFFFF}, {0x80000000}, {0xFFFFFFFF}},
	2: {{1, 2}, {2, 1}, {0, 0xFFFFFFFF}, {0xFFFFFFFF, 0}, {0x80000000, 0x7FFFFFFF}, {0x01020304, 0x04030201}},
	3: {{1, 2, 3}, {3, 1, 2}, {0xFFFFFFFF, 0, 0x80000000}},
}

func setSection(x *h.X) {
	kinds := prfKinds()
	size := 1 + x.Choose("size", 3)
	nk := len(kinds)
	if size == 3 && !x.Thorough() {
		nk = 3
	}
	// two more kinds that can only sit in NON-ENABLED entries: keys from which no PRF can be built (a MAC key, an
	// HKDF-PRF key with a hash the primitive refuses). The set mirrors the ENABLED keys; what a disabled or destroyed
	// entry holds must not matter.
	kinds = append(kinds[:nk:nk], unusableKinds()...)
	var ks, st []int
	for i := 0; i < size; i++ {
		ks = append(ks, x.Choose(fmt.Sprintf("type[%d]", i), len(kinds)))
		x.Label(kinds[ks[i]].name)
		st = append(st, x.Choose(fmt.Sprintf("status[%d]", i), 3))
		x.Label(statusNames[st[i]])
		if ks[i] >= nk && st[i] == 0 {
			return // an ENABLED key without a PRF: the factory refuses the keyset, nothing to mirror
		}
	}
	primary := x.Choose("primary", size)
	if st[primary] != 0 {
		return // a keyset whose primary is not ENABLED is not a valid keyset
	}
	sets := idSets[size]
	idv := sets[x.Choose("ids", len(sets))]
	x.Label(fmt.Sprintf("%#x", idv))
	var es []tk.Entry
	for i := 0; i < size; i++ {
		k, err := kinds[ks[i]].key()
		if err != nil {
			x.Fail("construct", "PRF set: key %s: %v", kinds[ks[i]].name, err)
			return
		}
		es = append(es, tk.Entry{Key: k, ID: idv[i], Status: statuses[st[i]], Primary: i == primary})
	}
	cfg := fmt.Sprintf("PRF set size=%d types=%v statuses=%v primary=%d ids=%#x", size, ks, st, primary, idv)
	hd, err := tk.Handle(es)
	if err != nil {
		x.Fail("construct", "%s: handle: %v", cfg, err)
		return
	}
	s, err := prf.NewPRFSet(hd)
	if err != nil {
		x.Fail("construct", "%s: NewPRFSet: %v", cfg, err)
		return
	}
	x.NonTrivial()
	if s.PrimaryID != idv[primary] {
		x.Fail("set-primary-id", "%s: PrimaryID = %#x, want %#x", cfg, s.PrimaryID, idv[primary])
	}
	var want, got []uint32
	for i := 0; i < size; i++ {
		if st[i] == 0 {
			want = append(want, idv[i])
		}
	}
	for id := range s.PRFs {
		got = append(got, id)
	}
	sort.Slice(want, func(i, j int) bool { return want[i] < want[j] })
	sort.Slice(got, func(i, j int) bool { return got[i] < got[j] })
	if fmt.Sprint(want) != fmt.Sprint(got) {
		x.Fail("set-ids", "%s: keys of PRFs = %#x, enabled key IDs = %#x", cfg, got, want)
		return
	}
	x.Outcome(fmt.Sprintf("set/size%d/enabled%d", size, len(want)))
	inputs := [][]byte{nil, {0x00}, ref.Pattern(2, 17), ref.Pattern(3, 80)}
	for i := 0; i < size; i++ {
		if st[i] != 0 {
			continue
		}
		kd := kinds[ks[i]]
		p := s.PRFs[idv[i]]
		if p == nil {
			x.Fail("set-ids", "%s: PRFs[%#x] is nil", cfg, idv[i])
			continue
		}
		for _, in := range inputs {
			full := kd.full(in)
			for _, n := range []int{0, 1, 15, 16, 17, 32, kd.max - 1, kd.max, kd.max + 1} {
				if n < 0 {
					continue
				}
				x.Eval(1)
				out, err := p.ComputePRF(in, uint32(n))
				if n > kd.max {
					if err == nil {
						x.Fail("overlong-accepted", "%s: PRFs[%#x] (%s) returned %d bytes for outputLength %d > max %d", cfg, idv[i], kd.name, len(out), n, kd.max)
					}
					continue
				}
				if err != nil || !bytes.Equal(out, full[:n]) {
					x.Fail("set-wrong-prf", "%s: PRFs[%#x].ComputePRF(input %d bytes, %d) = %s (%v); reference %s of that key gives %s", cfg, idv[i], len(in), n, tk.Hex(out), err, kd.name, tk.Hex(full[:n]))
					return
				}
				if i == primary {
					o2, err := s.ComputePrimaryPRF(in, uint32(n))
					if err != nil || !bytes.Equal(o2, full[:n]) {
						x.Fail("set-wrong-primary", "%s: ComputePrimaryPRF(input %d bytes, %d) = %s (%v); reference %s of the primary gives %s", cfg, len(in), n, tk.Hex(o2), err, kd.name, tk.Hex(full[:n]))
						return
					}
				}
			}
		}
	}
}

func main() {
	h.Main("C15", "exploration",
		"product of (PRF type x hash x key size x salt x construction path) x every input length 0..80 x every output length 0..max (HKDF: every output length 0..255*hLen on selected inputs, a boundary lattice on every input): output = n-byte prefix of the reference maximum-length HMAC / HKDF / AES-CMAC value (equality with the RFC value and the prefix law at once); two calls agree; requests beyond max fail. subtle.ComputeHKDF over hash x key length x salt x info x every tag size 0..255*hLen+1: any returned output equals RFC 5869. PRF sets over keysets of 1..3 keys x types x statuses x admissible primary x ID vectors: PrimaryID and keys of PRFs mirror the enabled keys, every member equals its key's reference PRF. Non-trivial = a PRF / set was built and exercised (ComputeHKDF: at least one size returned output); distinct = distinct choice vectors.",
		[]h.Section{
			{Name: "hmacprf", Body: hmacSection, Bound: -1},
			{Name: "aescmacprf", Body: cmacSection, Bound: -1},
			{Name: "hkdfprf", Body: hkdfSection, Bound: -1},
			{Name: "compute-hkdf", Body: computeHKDFSection, Bound: -1},
			{Name: "prf-set", Body: setSection, Bound: -1},
		})
}
