// C11: keyset.Manager keeps keysets well-formed under any operation history.
// Engine E2: explicit-state BFS to a fixpoint over the REAL keyset.Manager. A state is the shortest
// operation history reaching it (replayed on a fresh manager); the canonical key is a reflective dump
// of the manager's complete private state (key objects abstracted to kind + aliasing label) plus the
// remaining add budget. Every transition is compared with a list/map reference model; the invariants
// of the property are evaluated directly on Handle() in every reached state; every handle obtained
// along the path is re-dumped after every later operation. Random key IDs are environment answers
// served by the entropy tape, so collisions with live, deleted and fixed IDs are forced.
package main

import (
	"encoding/binary"
	"fmt"
	"os"
	"reflect"
	"strings"
	"sync"

	"google.golang.org/protobuf/proto"

	"github.com/tink-crypto/tink-go/v2/aead"
	"github.com/tink-crypto/tink-go/v2/aead/aesgcm"
	"github.com/tink-crypto/tink-go/v2/core/registry"
	"github.com/tink-crypto/tink-go/v2/insecuresecretdataaccess"
	"github.com/tink-crypto/tink-go/v2/key"
	"github.com/tink-crypto/tink-go/v2/keyset"
	"github.com/tink-crypto/tink-go/v2/mac"
	tinkpb "github.com/tink-crypto/tink-go/v2/proto/tink_go_proto"
	"github.com/tink-crypto/tink-go/v2/secretdata"
	"github.com/tink-crypto/tink-go/v2/verifbridge/vb"
	"verif/dump"
	"verif/h"
	"verif/ref"
	"verif/space"
	"verif/tape"
	"verif/tk"
)

// ---- alphabet ---------------------------------------------------------------------------------

var domain = []uint32{0, 1, 2, 3, 0xFFFFFFFF} // 2 and 3 only in the deep (thorough) alphabet for id-consuming operations

const unknownID = 7
const freshBase = 0x21

type opKind int

const (
	opStart opKind = iota
	opAddTemplate
	opAddParams
	opAddKey
	opSetPrimary
	opEnable
	opDisable
	opDelete
	opFromHandle
)

type op struct {
	kind    opKind
	name    string
	tmpl    int      // template / params / key selector
	answers []uint32 // scripted random-ID answers (then fresh values)
	id      uint32
	deep    bool // only part of the thorough-tier alphabet
}

var (
	gcmTink, gcmRaw     *aesgcm.Parameters
	rawKey              key.Key
	tinkKeys            = map[uint32]key.Key{}
	templates           []*tinkpb.KeyTemplate
	templateNames       []string
	templateValid       []int // 0 = refused before any effect, 1 = refused after the ID draw (ID burnt), 2 = valid
	templateRaw         []bool
	startOps, normalOps []op
)

func mustParams(v aesgcm.Variant) *aesgcm.Parameters {
	p, err := aesgcm.NewParameters(aesgcm.ParametersOpts{KeySizeInBytes: 16, IVSizeInBytes: 12, TagSizeInBytes: 16, Variant: v})
	if err != nil {
		panic(err)
	}
	return p
}

const kmOnlyURL = "type.googleapis.com/verif.c11.KeyManagerOnlyKey"

type kmOnly struct{}

func (kmOnly) Primitive([]byte) (any, error)        { return nil, fmt.Errorf("no primitive") }
func (kmOnly) NewKey([]byte) (proto.Message, error) { return nil, fmt.Errorf("unsupported") }
func (kmOnly) DoesSupport(u string) bool            { return u == kmOnlyURL }
func (kmOnly) TypeURL() string                      { return kmOnlyURL }
func (kmOnly) NewKeyData([]byte) (*tinkpb.KeyData, error) {
	return &tinkpb.KeyData{TypeUrl: kmOnlyURL, Value: []byte{9, 8, 7, 6}, KeyMaterialType: tinkpb.KeyData_SYMMETRIC}, nil
}

func setup() {
	gcmTink, gcmRaw = mustParams(aesgcm.VariantTink), mustParams(aesgcm.VariantNoPrefix)
	kb := secretdata.NewBytesFromData(ref.KeyBytes("c11", 16), insecuresecretdataaccess.Token{})
	var err error
	if rawKey, err = aesgcm.NewKey(kb, 0, gcmRaw); err != nil {
		panic(err)
	}
	for _, d := range domain {
		if tinkKeys[d], err = aesgcm.NewKey(kb, d, gcmTink); err != nil {
			panic(err)
		}
	}
	unknownPrefix := aead.AES128GCMKeyTemplate()
	unknownPrefix.OutputPrefixType = tinkpb.OutputPrefixType_UNKNOWN_PREFIX
	unknownType := &tinkpb.KeyTemplate{TypeUrl: "type.googleapis.com/verif.NoSuchKey", Value: []byte{1, 2}, OutputPrefixType: tinkpb.OutputPrefixType_TINK}
	// a key type served only by a registry.KeyManager (no parameters parser / key creator): Manager.Add takes its
	// legacy route (registry.NewKeyData + fallback key object)
	if err := registry.RegisterKeyManager(kmOnly{}); err != nil {
		panic(err)
	}
	kmOnlyT := &tinkpb.KeyTemplate{TypeUrl: kmOnlyURL, OutputPrefixType: tinkpb.OutputPrefixType_TINK}
	templates = []*tinkpb.KeyTemplate{aead.AES128GCMKeyTemplate(), aead.AES256GCMNoPrefixKeyTemplate(), mac.HMACSHA256Tag128KeyTemplate(), nil, unknownPrefix, unknownType, kmOnlyT}
	templateNames = []string{"AES128GCM/TINK", "AES256GCM/RAW", "HMACSHA256/TINK", "nil", "unknown-prefix", "unknown-type-url", "KeyManagerOnly/TINK"}
	templateValid = []int{2, 2, 2, 0, 0, 1, 2}
	templateRaw = []bool{false, true, false, false, false, false, false}

	startOps = []op{{kind: opStart, name: "start:empty", tmpl: 0}, {kind: opStart, name: "start:parsed[1 EN* TINK,3 DESTROYED TINK]", tmpl: 1},
		{kind: opStart, name: "start:parsed[0xFFFFFFFF DIS TINK,2 EN* RAW]", tmpl: 2}}
	ansSets := [][]uint32{{0}, {1}, {2}, {3}, {0xFFFFFFFF}, {freshBase + 0x100}}
	// two consecutive scripted answers: forces the redraw loop to iterate twice (thorough tier)
	ansSets = append(ansSets, []uint32{1, 2}, []uint32{2, 1}, []uint32{1, 1}, []uint32{3, 0xFFFFFFFF})
	for t := range templates {
		if templateValid[t] == 0 {
			normalOps = append(normalOps, op{kind: opAddTemplate, name: "Add(" + templateNames[t] + ")", tmpl: t, answers: []uint32{1}})
			continue
		}
		for _, a := range ansSets {
			if (t == 2 || t == 6) && len(a) > 1 {
				continue
			}
			normalOps = append(normalOps, op{kind: opAddTemplate, name: fmt.Sprintf("Add(%s) rnd=%x", templateNames[t], a), tmpl: t, answers: a, deep: len(a) > 1 || a[0] == 3 || a[0] == 2 || t == 2 || (t == 5 && a[0] != 1 && a[0] < freshBase) || (t == 6 && a[0] != 1)})
		}
	}
	for pi, pn := range []string{"AES128GCM/TINK", "AES128GCM/RAW"} {
		for _, a := range ansSets[:4] {
			normalOps = append(normalOps, op{kind: opAddParams, name: fmt.Sprintf("AddNewKeyFromParameters(%s) rnd=%x", pn, a), tmpl: pi, answers: a, deep: a[0] == 3 || a[0] == 2 || (pi == 1 && a[0] != 1)})
		}
	}
	normalOps = append(normalOps, op{kind: opAddKey, name: "AddKey(nil)", tmpl: -1})
	for _, a := range ansSets {
		normalOps = append(normalOps, op{kind: opAddKey, name: fmt.Sprintf("AddKey(raw key) rnd=%x", a), tmpl: 0, answers: a, deep: len(a) > 1 || a[0] == 3 || a[0] == 2 || a[0] == 0xFFFFFFFF})
	}
	for _, d := range domain {
		normalOps = append(normalOps, op{kind: opAddKey, name: fmt.Sprintf("AddKey(key requiring id %#x)", d), tmpl: 1, id: d, deep: d == 3 || d == 2})
	}
	// internal entry point used by tink's own factories (key derivation, hybrid/subtle): a key WITHOUT id requirement
	// placed under a caller-chosen id; the id must be as reserved as any other
	for _, d := range domain {
		normalOps = append(normalOps, op{kind: opAddKey, name: fmt.Sprintf("AddKeyWithOpts(raw key, WithFixedID(%#x))", d), tmpl: 2, id: d, deep: d != 1})
	}
	ids := append(append([]uint32{}, domain...), unknownID, freshBase)
	for _, k := range []opKind{opSetPrimary, opEnable, opDisable, opDelete} {
		for _, d := range ids {
			normalOps = append(normalOps, op{kind: k, name: fmt.Sprintf("%s(%#x)", [...]string{"", "", "", "", "SetPrimary", "Enable", "Disable", "Delete"}[k], d), id: d})
		}
	}
	normalOps = append(normalOps, op{kind: opFromHandle, name: "m = NewManagerFromHandle(m.Handle())"})
}

// ---- reference model --------------------------------------------------------------------------

const (
	stEnabled   = 1
	stDisabled  = 2
	stDestroyed = 3
)

type mEntry struct {
	label   int // creation label (index of the creating operation; start keys: -1, -2, -3)
	id      uint32
	status  int
	primary bool
	idReq   bool    // key has an ID requirement
	key     key.Key // the key object (learned from the implementation for generated keys)
	kind    string
}

type model struct {
	entries []mEntry
	unavail map[uint32]bool
	adds    int
}

func (m *model) find(id uint32) int {
	for i, e := range m.entries {
		if e.id == id {
			return i
		}
	}
	return -1
}

func (m *model) fresh(skip int) uint32 {
	for f := uint32(freshBase); ; f++ {
		if !m.unavail[f] {
			if skip == 0 {
				return f
			}
			skip--
		}
	}
}

// draw models newRandomKeyID: returns the tape script (all answers that will be consumed) and the ID chosen.
func (m *model) draw(answers []uint32) (script []uint32, id uint32) {
	for _, a := range answers {
		script = append(script, a)
		if !m.unavail[a] {
			m.unavail[a] = true
			return script, a
		}
	}
	f := m.fresh(0)
	script = append(script, f)
	m.unavail[f] = true
	return script, f
}

func (m *model) hasPrimary() bool {
	for _, e := range m.entries {
		if e.primary {
			return true
		}
	}
	return false
}

// ---- system under test + model ----------------------------------------------------------------

type savedHandle struct {
	h    *keyset.Handle
	dump string
	at   int
}

type sys struct {
	km      *keyset.Manager
	mo      *model
	tp      *tape.Tape
	handles []savedHandle
	viol    func(key, format string, a ...any)
	trace   []string
}

func statusOf(s keyset.KeyStatus) int {
	switch s {
	case keyset.Enabled:
		return stEnabled
	case keyset.Disabled:
		return stDisabled
	case keyset.Destroyed:
		return stDestroyed
	}
	return 0
}

type implEntry struct {
	ptr     uintptr
	key     key.Key
	id      uint32
	status  int
	primary bool
}

// implEntries reads the manager's private entry list (a SEAM: field names of keyset.Manager). If a refactoring of
// the manager changed the layout, implEntriesOK reports false and the oracles fall back to what Handle() shows.
var seamLost sync.Once

func (s *sys) implEntriesOK() (out []implEntry, ok bool) {
	defer func() {
		if r := recover(); r != nil {
			out, ok = nil, false
		}
		if !ok {
			seamLost.Do(func() {
				h.Assume("keyset.Manager's private layout is not the one the entry-list seam knows (refactored): manager states are observed through Handle() only")
			})
		}
	}()
	if ev := dump.Field(s.km, "entries"); !ev.IsValid() || ev.Kind() != reflect.Slice {
		return nil, false
	}
	return s.implEntries(), true
}

func (s *sys) implEntries() []implEntry {
	ev := dump.Field(s.km, "entries")
	var out []implEntry
	for i := 0; i < ev.Len(); i++ {
		e := ev.Index(i)
		ie := implEntry{ptr: e.Pointer()}
		if k := dump.Field(e.Interface(), "key"); k.IsValid() && !k.IsNil() {
			ie.key = k.Interface().(key.Key)
		}
		ie.id = uint32(dump.Field(e.Interface(), "fixedID").Uint())
		ie.status = statusOf(keyset.KeyStatus(dump.Field(e.Interface(), "status").Int()))
		ie.primary = dump.Field(e.Interface(), "isPrimary").Bool()
		out = append(out, ie)
	}
	return out
}

func keyKind(k key.Key) string {
	if k == nil {
		return "nilkey"
	}
	id, req := k.IDRequirement()
	return fmt.Sprintf("%T/req=%v/%#x", k, req, id)
}

// canon is the canonical state key: complete reflective dump of the manager with key objects
// abstracted to (kind, aliasing label), plus the remaining add budget.
func (s *sys) canon() string {
	seen := map[key.Key]int{}
	keyT := reflect.TypeOf((*key.Key)(nil)).Elem()
	o := dump.Opts{Label: func(v reflect.Value) (string, bool) {
		if v.Kind() == reflect.Interface && v.Type() == keyT {
			if v.IsNil() {
				return "key(nil)", true
			}
			k := v.Interface().(key.Key)
			n, ok := seen[k]
			if !ok {
				n = len(seen)
				seen[k] = n
			}
			return fmt.Sprintf("key#%d<%s>", n, keyKind(k)), true
		}
		return "", false
	}}
	return dump.String(s.km, o) + fmt.Sprintf("|adds=%d", s.mo.adds)
}

func dumpHandle(hd *keyset.Handle) string {
	var sb strings.Builder
	fmt.Fprintf(&sb, "len=%d;", hd.Len())
	for i := 0; i < hd.Len(); i++ {
		e, err := hd.Entry(i)
		if err != nil {
			fmt.Fprintf(&sb, "entry%d:err;", i)
			continue
		}
		fmt.Fprintf(&sb, "[%p %s id=%#x st=%v prim=%v]", e.Key(), keyKind(e.Key()), e.KeyID(), e.KeyStatus(), e.IsPrimary())
	}
	if p, err := hd.Primary(); err == nil {
		fmt.Fprintf(&sb, "primary=%#x;", p.KeyID())
	} else {
		sb.WriteString("primary:err;")
	}
	return sb.String()
}

func be32(v uint32) []byte { b := make([]byte, 4); binary.BigEndian.PutUint32(b, v); return b }

func (s *sys) script(ids []uint32) {
	m := s.tp.Mark()
	for i, v := range ids {
		s.tp.Answer(m+i, be32(v))
	}
}

func parsedStart(which int) (*keyset.Handle, []mEntry) {
	kb := secretdata.NewBytesFromData(ref.KeyBytes("c11-start", 16), insecuresecretdataaccess.Token{})
	mk := func(id uint32, p *aesgcm.Parameters) key.Key {
		k, err := aesgcm.NewKey(kb, id, p)
		if err != nil {
			panic(err)
		}
		return k
	}
	var es []tk.Entry
	if which == 1 {
		es = []tk.Entry{{Key: mk(1, gcmTink), ID: 1, Status: tinkpb.KeyStatusType_ENABLED, Primary: true},
			{Key: mk(3, gcmTink), ID: 3, Status: tinkpb.KeyStatusType_DESTROYED}}
	} else {
		es = []tk.Entry{{Key: mk(0xFFFFFFFF, gcmTink), ID: 0xFFFFFFFF, Status: tinkpb.KeyStatusType_DISABLED},
			{Key: mk(0, gcmRaw), ID: 2, Status: tinkpb.KeyStatusType_ENABLED, Primary: true}}
	}
	hd, err := tk.Handle(es)
	if err != nil {
		panic(err)
	}
	var me []mEntry
	for i, e := range es {
		ent, _ := hd.Entry(i)
		_, req := ent.Key().IDRequirement()
		me = append(me, mEntry{label: -1 - i, id: e.ID, status: map[tinkpb.KeyStatusType]int{tinkpb.KeyStatusType_ENABLED: stEnabled, tinkpb.KeyStatusType_DISABLED: stDisabled, tinkpb.KeyStatusType_DESTROYED: stDestroyed}[e.Status],
			primary: e.Primary, idReq: req, key: ent.Key(), kind: keyKind(ent.Key())})
	}
	return hd, me
}

// Expectation classes. The property fixes SOME outcomes (the primary cannot be disabled or deleted, a
// non-enabled key cannot become primary, ...); where it leaves the policy open (which random id is picked,
// whether the id of a deleted key may be reused, whether a DESTROYED key can be re-enabled) both outcomes are
// accepted and the model simply follows the implementation's answer.
const (
	either = iota
	mustFail
	mustSucceed
)

// apply performs operation o on implementation and model. judge: evaluate oracles for this transition.
// Returns false if the operation is not applicable in this state (pruned).
func (s *sys) apply(o op, step int, judge bool, budget int) bool {
	mo := s.mo
	var before string
	if judge && o.kind != opStart {
		before = s.observe()
	}
	var gotID uint32
	var gotErr error
	expect := either
	newLabel := step
	isAdd := false
	var effect func() // model effect of a successful operation
	switch o.kind {
	case opStart:
		mo.unavail = map[uint32]bool{}
		if o.tmpl == 0 {
			s.km = keyset.NewManager()
		} else {
			hd, me := parsedStart(o.tmpl)
			s.km = keyset.NewManagerFromHandle(hd)
			mo.entries = me
			mo.adds = len(me)
			for _, e := range me {
				mo.unavail[e.id] = true
			}
		}
	case opAddTemplate, opAddParams:
		valid, raw := 2, false
		if o.kind == opAddTemplate {
			valid, raw = templateValid[o.tmpl], templateRaw[o.tmpl]
		} else {
			raw = o.tmpl == 1
		}
		if valid != 0 && mo.adds >= budget {
			return false
		}
		if valid == 2 {
			expect = mustSucceed
		} else {
			expect = mustFail
		}
		if valid != 0 {
			mo.adds++
			script, _ := mo.draw(o.answers) // mirror of the current id-reservation policy, only used to script the tape
			s.script(script)
		}
		isAdd = true
		effect = func() {
			mo.unavail[gotID] = true
			mo.entries = append(mo.entries, mEntry{label: newLabel, id: gotID, status: stEnabled, idReq: !raw})
		}
		if o.kind == opAddTemplate {
			gotID, gotErr = s.km.Add(templates[o.tmpl])
		} else {
			gotID, gotErr = s.km.AddNewKeyFromParameters([]key.Parameters{gcmTink, gcmRaw}[o.tmpl])
		}
	case opAddKey:
		isAdd = true
		switch o.tmpl {
		case -1:
			expect = mustFail
			gotID, gotErr = s.km.AddKey(nil)
		case 0:
			if mo.adds >= budget {
				return false
			}
			mo.adds++
			script, _ := mo.draw(o.answers)
			s.script(script)
			expect = mustSucceed
			effect = func() {
				mo.unavail[gotID] = true
				mo.entries = append(mo.entries, mEntry{label: newLabel, id: gotID, status: stEnabled, idReq: false, key: rawKey})
			}
			gotID, gotErr = s.km.AddKey(rawKey)
		case 1:
			switch {
			case mo.find(o.id) >= 0:
				expect = mustFail // would create a duplicate id
			case mo.unavail[o.id]:
				expect = either // id of a deleted key / burnt id: reuse policy is not part of the property
				if mo.adds >= budget {
					return false
				}
				mo.adds++
			default:
				if mo.adds >= budget {
					return false
				}
				mo.adds++
				expect = mustSucceed
			}
			effect = func() {
				mo.unavail[gotID] = true
				mo.entries = append(mo.entries, mEntry{label: newLabel, id: gotID, status: stEnabled, idReq: true, key: tinkKeys[o.id]})
			}
			gotID, gotErr = s.km.AddKey(tinkKeys[o.id])
			if gotErr == nil && gotID != o.id && judge {
				s.viol("id-requirement", "%s: key requiring id %#x was added under id %#x", o.name, o.id, gotID)
			}
		case 2:
			if mo.find(o.id) >= 0 {
				expect = mustFail // would create a duplicate id
			} else {
				expect = either // whether a fixed id is accepted is the implementation's policy
				if mo.adds >= budget {
					return false
				}
				mo.adds++
			}
			effect = func() {
				mo.unavail[gotID] = true
				mo.entries = append(mo.entries, mEntry{label: newLabel, id: gotID, status: stEnabled, idReq: false, key: rawKey})
			}
			gotID, gotErr = s.km.AddKeyWithOpts(rawKey, vb.Tok(), keyset.WithFixedID(o.id))
		}
	case opSetPrimary:
		i := mo.find(o.id)
		if i < 0 || mo.entries[i].status != stEnabled {
			expect = mustFail
		} else {
			expect = mustSucceed
		}
		effect = func() {
			for j := range mo.entries {
				mo.entries[j].primary = j == i
			}
		}
		gotErr = s.km.SetPrimary(o.id)
	case opEnable:
		i := mo.find(o.id)
		switch {
		case i < 0:
			expect = mustFail
		case mo.entries[i].status == stDestroyed:
			expect = either
		default:
			expect = mustSucceed
		}
		effect = func() { mo.entries[i].status = stEnabled }
		gotErr = s.km.Enable(o.id)
	case opDisable:
		i := mo.find(o.id)
		switch {
		case i < 0 || mo.entries[i].primary:
			expect = mustFail
		case mo.entries[i].status == stDestroyed:
			expect = either
		default:
			expect = mustSucceed
		}
		effect = func() { mo.entries[i].status = stDisabled }
		gotErr = s.km.Disable(o.id)
	case opDelete:
		i := mo.find(o.id)
		if i < 0 || mo.entries[i].primary {
			expect = mustFail
		} else {
			expect = mustSucceed
		}
		effect = func() { mo.entries = append(mo.entries[:i:i], mo.entries[i+1:]...) }
		gotErr = s.km.Delete(o.id)
	case opFromHandle:
		hd, err := s.km.Handle()
		if !mo.hasPrimary() {
			if err == nil && judge {
				s.viol("handle-without-primary", "Handle() succeeded although no primary was ever set")
			}
			return false
		}
		if err != nil {
			if judge {
				s.viol("handle-fails", "Handle() failed with a primary set: %v", err)
			}
			return false
		}
		s.km = keyset.NewManagerFromHandle(hd)
		mo.unavail = map[uint32]bool{}
		for _, e := range mo.entries {
			mo.unavail[e.id] = true
		}
	}
	s.trace = append(s.trace, fmt.Sprintf("%s -> id=%#x err=%v", o.name, gotID, gotErr))
	if isAdd && gotErr == nil && effect != nil && judge {
		if mo.find(gotID) >= 0 {
			s.viol("duplicate-id", "%s: returned id %#x which is already the id of a key in the keyset", o.name, gotID)
		}
	}
	if gotErr == nil && effect != nil {
		func() {
			defer func() { recover() }() // an index the model does not have (possible only after a flagged must-fail success)
			effect()
		}()
	}

	// learn generated key objects from the implementation (newest entry), for identity tracking
	ie, seamOK := s.implEntriesOK()
	if !seamOK {
		if hd, err := s.km.Handle(); err == nil {
			for i := 0; i < hd.Len(); i++ {
				e, _ := hd.Entry(i)
				ie = append(ie, implEntry{key: e.Key(), id: e.KeyID(), status: statusOf(e.KeyStatus()), primary: e.IsPrimary()})
			}
		}
	}
	if n := len(mo.entries); n > 0 && mo.entries[n-1].label == newLabel && mo.entries[n-1].key == nil && len(ie) > 0 && o.kind != opStart {
		mo.entries[n-1].key = ie[len(ie)-1].key
	}
	if !judge {
		s.saveHandle(step)
		return true
	}

	// (1) outcomes fixed by the property (or by plain functional correctness of a valid call)
	if expect == mustFail && gotErr == nil {
		s.viol("op-must-fail", "%s succeeded; the property / model requires an error here", o.name)
	} else if expect == mustSucceed && gotErr != nil {
		s.viol("op-must-succeed", "%s failed on valid arguments: %v", o.name, gotErr)
	}
	// (2) an operation that returns an error leaves the keyset unchanged
	if gotErr != nil && o.kind != opStart {
		if after := s.observe(); after != before {
			s.viol("error-changes-keyset", "%s returned error %v but changed the keyset: before %s after %s", o.name, gotErr, before, after)
		}
	}
	// (3) implementation entries == model entries (order, identity, id, status, primary)
	if !seamOK {
		// judged through Handle() in (4)
	} else if len(ie) != len(mo.entries) {
		s.viol("entries", "%s: implementation has %d entries, model %d", o.name, len(ie), len(mo.entries))
	} else {
		for i := range ie {
			me := mo.entries[i]
			if ie[i].id != me.id || ie[i].status != me.status || ie[i].primary != me.primary || (me.key != nil && ie[i].key != me.key) {
				s.viol("entries", "%s: entry %d is {id=%#x st=%d prim=%v key=%p}, model {id=%#x st=%d prim=%v key=%p}", o.name, i, ie[i].id, ie[i].status, ie[i].primary, ie[i].key, me.id, me.status, me.primary, me.key)
			}
			if id, req := ie[i].key.IDRequirement(); req && id != ie[i].id {
				s.viol("id-requirement", "%s: key requiring id %#x sits under id %#x", o.name, id, ie[i].id)
			}
		}
	}
	// (4) invariants of the property, evaluated on Handle() directly
	hd, err := s.km.Handle()
	if err != nil {
		if mo.hasPrimary() {
			s.viol("handle-fails", "%s: Handle() fails (%v) although a primary is set", o.name, err)
		}
	} else {
		if !mo.hasPrimary() {
			s.viol("handle-without-primary", "%s: Handle() succeeds although no primary was ever set", o.name)
		}
		ids := map[uint32]bool{}
		prim := 0
		for i := 0; i < hd.Len(); i++ {
			e, _ := hd.Entry(i)
			if ids[e.KeyID()] {
				s.viol("duplicate-id", "%s: Handle() has duplicate key id %#x", o.name, e.KeyID())
			}
			ids[e.KeyID()] = true
			if e.IsPrimary() {
				prim++
				if e.KeyStatus() != keyset.Enabled {
					s.viol("primary-not-enabled", "%s: primary key %#x has status %v", o.name, e.KeyID(), e.KeyStatus())
				}
				if p, err := hd.Primary(); err != nil || p.KeyID() != e.KeyID() || p != e {
					s.viol("primary-accessor", "%s: Primary() disagrees with the entry flagged primary", o.name)
				}
			}
			if id, req := e.Key().IDRequirement(); req && id != e.KeyID() {
				s.viol("id-requirement", "%s: handle entry with key requiring %#x has id %#x", o.name, id, e.KeyID())
			}
			if i < len(mo.entries) {
				me := mo.entries[i]
				if e.KeyID() != me.id || statusOf(e.KeyStatus()) != me.status || e.IsPrimary() != me.primary || (me.key != nil && e.Key() != me.key) {
					s.viol("handle-entries", "%s: handle entry %d {id=%#x st=%v prim=%v} differs from model {id=%#x st=%d prim=%v}", o.name, i, e.KeyID(), e.KeyStatus(), e.IsPrimary(), me.id, me.status, me.primary)
				}
			}
		}
		if hd.Len() != len(mo.entries) {
			s.viol("handle-entries", "%s: handle has %d entries, model %d", o.name, hd.Len(), len(mo.entries))
		}
		if prim != 1 {
			s.viol("primary-count", "%s: handle has %d primary keys", o.name, prim)
		}
		info := hd.KeysetInfo()
		if len(info.GetKeyInfo()) == len(mo.entries) {
			for i, ki := range info.GetKeyInfo() {
				me := mo.entries[i]
				wantSt := map[int]tinkpb.KeyStatusType{stEnabled: tinkpb.KeyStatusType_ENABLED, stDisabled: tinkpb.KeyStatusType_DISABLED, stDestroyed: tinkpb.KeyStatusType_DESTROYED}[me.status]
				wantPT := tinkpb.OutputPrefixType_RAW
				if me.idReq {
					wantPT = tinkpb.OutputPrefixType_TINK
				}
				if ki.GetKeyId() != me.id || ki.GetStatus() != wantSt || ki.GetOutputPrefixType() != wantPT {
					s.viol("keysetinfo", "%s: KeysetInfo key %d = %v, model {id=%#x st=%v pt=%v}", o.name, i, ki, me.id, wantSt, wantPT)
				}
				if me.primary && info.GetPrimaryKeyId() != me.id {
					s.viol("keysetinfo", "%s: KeysetInfo primary=%#x, model %#x", o.name, info.GetPrimaryKeyId(), me.id)
				}
			}
		} else {
			s.viol("keysetinfo", "%s: KeysetInfo has %d keys, model %d", o.name, len(info.GetKeyInfo()), len(mo.entries))
		}
	}
	// (5) handles obtained earlier are unaffected by this operation
	for _, sh := range s.handles {
		if d := dumpHandle(sh.h); d != sh.dump {
			s.viol("old-handle-changed", "%s changed a handle obtained after step %d:\n  then: %s\n  now:  %s", o.name, sh.at, sh.dump, d)
		}
	}
	s.saveHandle(step)
	return true
}

func (s *sys) saveHandle(step int) {
	if hd, err := s.km.Handle(); err == nil {
		s.handles = append(s.handles, savedHandle{hd, dumpHandle(hd), step})
	}
}

// observe: what an operation that fails must leave unchanged — the private entry list, or (seam lost) the handle.
func (s *sys) observe() string {
	if _, ok := s.implEntriesOK(); ok {
		return fmt.Sprint(s.implEntriesSummary())
	}
	hd, err := s.km.Handle()
	if err != nil {
		return "no-handle"
	}
	return dumpHandle(hd)
}

func (s *sys) implEntriesSummary() []string {
	var out []string
	for _, e := range s.implEntries() {
		out = append(out, fmt.Sprintf("{%p id=%#x st=%d prim=%v}", e.key, e.id, e.status, e.primary))
	}
	ua := dump.Field(s.km, "unavailableKeyIDs")
	_ = ua
	return out
}

func decode(hist []int) []op {
	ops := make([]op, len(hist))
	for i, c := range hist {
		if i == 0 {
			ops[i] = startOps[c]
		} else {
			ops[i] = normalOps[c]
		}
	}
	return ops
}

func runHistory(sec string, hist []int, budget int, deep, verbose bool) (string, bool, bool) {
	for _, o := range decode(hist) {
		if o.deep && !deep {
			return "", false, false
		}
	}
	tp := tape.NewTape(nil)
	tape.Bind(tp)
	defer tape.Unbind()
	s := &sys{mo: &model{unavail: map[uint32]bool{}}, tp: tp}
	if len(hist) == 0 {
		return "<init>", true, false
	}
	s.viol = func(key, format string, a ...any) {
		names := []string{}
		for _, o := range decode(hist) {
			names = append(names, o.name)
		}
		msg := fmt.Sprintf(format, a...) + "\n  history: " + strings.Join(names, " ; ") + "\n  trace: " + strings.Join(s.trace, " ; ")
		h.ReportExternal(sec, key, msg, hist, names)
	}
	ops := decode(hist)
	for i, o := range ops {
		var applicable bool
		panicked, pmsg := h.Try(func() { applicable = s.apply(o, i, i == len(ops)-1, budget) })
		if panicked {
			s.viol("panic", "panic in %s: %s", o.name, pmsg)
			return "", false, false
		}
		if !applicable {
			return "", false, false
		}
	}
	if verbose {
		for _, t := range s.trace {
			fmt.Println("   ", t)
		}
		fmt.Println("    state:", s.canon())
	}
	return s.canon(), true, false
}

// bfs runs one exploration: budget = number of id-consuming add operations per history; deep = include the
// thorough-only part of the alphabet (id 3 in adds, HMAC template, two scripted consecutive id answers).
func bfs(sec string, budget int, deep bool, maxStates int) func(x *h.X) {
	return func(x *h.X) { bfsSection(x, sec, budget, deep, maxStates) }
}

func bfsSection(x *h.X, sec string, budget int, deep bool, maxStates int) {
	if x.Replaying() {
		runHistory(sec, x.ReplayVector(), budget, deep, true)
		return
	}
	cfg := space.Config{NumOps: func(hist []int) int {
		if len(hist) == 0 {
			return len(startOps)
		}
		return len(normalOps)
	}, Deadline: h.Deadline(), MaxStates: maxStates, Stop: func() bool { return h.ViolationCount() >= 25 }, Progress: func(d, s, t, f int) {
		if os.Getenv("VERIF_PROGRESS") != "" {
			fmt.Fprintf(os.Stderr, "  depth=%d states=%d transitions=%d frontier=%d\n", d, s, t, f)
		}
	}}
	st := space.Explore(cfg, func(hist []int) (string, bool, bool) { return runHistory(sec, hist, budget, deep, false) })
	h.AddMC(st.States, st.Transitions-st.Pruned, st.Transitions-st.Pruned)
	x.Eval(int(st.Transitions))
	x.NonTrivial()
	x.Outcome(fmt.Sprintf("fixpoint=%v", st.Fixpoint))
	h.SetExtra("bfs:"+sec, map[string]any{"deep_alphabet": deep, "states": st.States, "transitions": st.Transitions, "pruned_not_applicable": st.Pruned, "depth": st.Depth, "fixpoint_reached": st.Fixpoint,
		"add_budget": budget, "alphabet_size": len(normalOps), "start_states": len(startOps), "id_domain": fmt.Sprintf("%x + fresh", domain), "capped": st.Capped})
	if !st.Fixpoint {
		h.NotExhaustive(sec + ": BFS stopped before fixpoint: " + st.Capped)
	}
	for _, sm := range st.Sample {
		var names []string
		for _, o := range decode(sm) {
			names = append(names, o.name)
		}
		h.MCSample(map[string]any{"history": names})
	}
	fmt.Printf("[C11] %s budget=%d deep=%v: BFS states=%d transitions=%d pruned=%d depth=%d fixpoint=%v\n", sec, budget, deep, st.States, st.Transitions, st.Pruned, st.Depth, st.Fixpoint)
}

func main() {
	setup()
	h.Main("C11", "model_checking",
		"explicit-state BFS to fixpoint over the real keyset.Manager: alphabet = Add(template: 3 valid + nil + unknown prefix + unknown type) x scripted random-ID answers, AddNewKeyFromParameters, AddKey(nil / key without ID requirement / key requiring each domain id), SetPrimary/Enable/Disable/Delete for every id in {1,2,3,0xFFFFFFFF,7,0x21}, NewManagerFromHandle(Handle()); start states: empty manager and two managers parsed from keysets with ENABLED/DISABLED/DESTROYED keys; bound: total number of id-consuming add operations per history. Every transition is compared with a list/map reference model and the property's invariants are evaluated on Handle() in every state; earlier handles are re-dumped after every operation.",
		[]h.Section{
			{Name: "manager-bfs", Body: bfs("manager-bfs", 3, false, 3000000), Bound: -1, Serial: true},
			{Name: "manager-bfs-deep-alphabet", Body: bfs("manager-bfs-deep-alphabet", 3, true, 3000000), Bound: -1, Serial: true, Tiers: "thorough"},
			{Name: "handles-from-keysets", Body: parsedKeysetsSection, Bound: -1},
			{Name: "manager-bfs-budget4", Body: bfs("manager-bfs-budget4", 4, false, 1500000), Bound: -1, Serial: true, Tiers: "thorough"},
		})
}
