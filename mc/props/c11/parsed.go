package main

// Section handles-from-keysets: "starting ... from any handle". Every small proto keyset (1..3 RAW AES-GCM keys,
// ids from a 2-element domain so that they collide, every status, every primary id incl. one that no key carries)
// is offered to the handle constructors. Whatever handle comes back — and the keyset a manager started from it
// hands out, immediately and after one more well-formed operation — must have pairwise distinct ids and exactly
// one primary, which is ENABLED. (Which ill-formed keysets are refused is C14's business; here only what is
// ACCEPTED is judged, so a validation gap shows as a violated manager invariant.)

import (
	"bytes"
	"fmt"

	"google.golang.org/protobuf/proto"

	"github.com/tink-crypto/tink-go/v2/insecurecleartextkeyset"
	"github.com/tink-crypto/tink-go/v2/keyset"
	gcmpb "github.com/tink-crypto/tink-go/v2/proto/aes_gcm_go_proto"
	tinkpb "github.com/tink-crypto/tink-go/v2/proto/tink_go_proto"
	"github.com/tink-crypto/tink-go/v2/testkeyset"
	"verif/h"
	"verif/ref"
)

func wellFormed(hd *keyset.Handle) string {
	seen := map[uint32]bool{}
	prim := 0
	for i := 0; i < hd.Len(); i++ {
		e, err := hd.Entry(i)
		if err != nil {
			return fmt.Sprintf("Entry(%d): %v", i, err)
		}
		if seen[e.KeyID()] {
			return fmt.Sprintf("key id %#x occurs twice", e.KeyID())
		}
		seen[e.KeyID()] = true
		if e.IsPrimary() {
			prim++
			if e.KeyStatus() != keyset.Enabled {
				return fmt.Sprintf("primary %#x is not ENABLED", e.KeyID())
			}
		}
	}
	if prim != 1 {
		return fmt.Sprintf("%d primary keys", prim)
	}
	ks := insecurecleartextkeyset.KeysetMaterial(hd)
	n := 0
	for _, k := range ks.Key {
		if k.KeyId == ks.PrimaryKeyId {
			n++
			if k.Status != tinkpb.KeyStatusType_ENABLED {
				return "exported keyset: primary not ENABLED"
			}
		}
	}
	if n != 1 {
		return fmt.Sprintf("exported keyset: %d keys carry the primary id", n)
	}
	return ""
}

func parsedKeysetsSection(x *h.X) {
	nkeys := 1 + x.Choose("keys", 3)
	ids := []uint32{1, 2}
	sts := []tinkpb.KeyStatusType{tinkpb.KeyStatusType_ENABLED, tinkpb.KeyStatusType_DISABLED, tinkpb.KeyStatusType_DESTROYED}
	stn := []string{"EN", "DIS", "DES"}
	ks := &tinkpb.Keyset{}
	desc := ""
	// key 0 additionally takes every output prefix type and, besides AES-GCM, a type that only has a key manager
	// (no proto parser: the fallback key path): "keys with an ID requirement keep that ID" is judged on what comes back
	pts := []tinkpb.OutputPrefixType{tinkpb.OutputPrefixType_RAW, tinkpb.OutputPrefixType_TINK, tinkpb.OutputPrefixType_CRUNCHY, tinkpb.OutputPrefixType_LEGACY}
	shape0 := x.Choose("key0-prefix/type", 2*len(pts))
	for i := 0; i < nkeys; i++ {
		id := ids[x.Choose(fmt.Sprintf("id%d", i), len(ids))]
		si := x.Choose(fmt.Sprintf("status%d", i), len(sts))
		val, _ := proto.Marshal(&gcmpb.AesGcmKey{Version: 0, KeyValue: ref.KeyBytes(fmt.Sprintf("c11-parsed-%d", i), 16)})
		kd := &tinkpb.KeyData{TypeUrl: "type.googleapis.com/google.crypto.tink.AesGcmKey", Value: val, KeyMaterialType: tinkpb.KeyData_SYMMETRIC}
		pt := tinkpb.OutputPrefixType_RAW
		if i == 0 {
			pt = pts[shape0%len(pts)]
			if shape0 >= len(pts) {
				kd = &tinkpb.KeyData{TypeUrl: kmOnlyURL, Value: []byte{9, 8, 7, 6}, KeyMaterialType: tinkpb.KeyData_SYMMETRIC}
			}
		}
		ks.Key = append(ks.Key, &tinkpb.Keyset_Key{KeyData: kd, Status: sts[si], KeyId: id, OutputPrefixType: pt})
		desc += fmt.Sprintf("[id=%d %s]", id, stn[si])
		if i == 0 && shape0 != 0 {
			desc += fmt.Sprintf("(%v %s)", pt, kd.TypeUrl[len("type.googleapis.com/"):])
		}
	}
	ks.PrimaryKeyId = []uint32{1, 2, 3}[x.Choose("primary-id", 3)]
	desc += fmt.Sprintf(" primary=%d", ks.PrimaryKeyId)
	path := x.Choose("path", 2)
	var hd *keyset.Handle
	var err error
	if path == 0 {
		hd, err = testkeyset.NewHandle(proto.Clone(ks).(*tinkpb.Keyset))
		desc += " via testkeyset.NewHandle"
	} else {
		b, _ := proto.Marshal(ks)
		hd, err = insecurecleartextkeyset.Read(keyset.NewBinaryReader(bytes.NewReader(b)))
		desc += " via insecurecleartextkeyset.Read(binary)"
	}
	x.Eval(1)
	if err != nil {
		x.Outcome("refused")
		return
	}
	x.NonTrivial()
	x.Outcome("accepted")
	if why := wellFormed(hd); why != "" {
		x.Fail("accepted-handle-ill-formed", "keyset %s: accepted, but the handle is ill-formed: %s", desc, why)
		return
	}
	// the ID-requirement law on what was accepted: a key under a TINK / CRUNCHY / LEGACY prefix requires exactly the
	// id of its entry, a RAW key requires none; added to another manager it keeps that id
	for i := 0; i < hd.Len(); i++ {
		e, _ := hd.Entry(i)
		k := e.Key()
		id, req := k.IDRequirement()
		wantReq := ks.Key[i].OutputPrefixType != tinkpb.OutputPrefixType_RAW
		if req != wantReq || (req && id != e.KeyID()) {
			x.Fail("id-requirement-lost", "keyset %s: entry %d (id %#x, prefix %v): its key reports IDRequirement() = (%#x, %v)", desc, i, e.KeyID(), ks.Key[i].OutputPrefixType, id, req)
			return
		}
		if req && e.KeyStatus() == keyset.Enabled {
			m2 := keyset.NewManager()
			got, err := m2.AddKey(k)
			x.Eval(1)
			if err != nil || got != e.KeyID() {
				x.Fail("id-requirement-lost", "keyset %s: entry %d (id %#x, prefix %v): AddKey of its key on an empty manager returns id %#x, %v", desc, i, e.KeyID(), ks.Key[i].OutputPrefixType, got, err)
				return
			}
		}
	}
	m := keyset.NewManagerFromHandle(hd)
	h2, err := m.Handle()
	x.Eval(1)
	if err != nil {
		x.Fail("manager-from-handle", "keyset %s: NewManagerFromHandle(h).Handle(): %v", desc, err)
		return
	}
	if why := wellFormed(h2); why != "" {
		x.Fail("duplicate-id", "keyset %s: NewManagerFromHandle(h).Handle() is ill-formed: %s", desc, why)
		return
	}
	// one more well-formed operation from that state
	for opi, op := range []func() error{
		func() error { _, err := m.AddKey(rawKey); return err },
		func() error { return m.Enable(ids[0]) },
		func() error { return m.Enable(ids[1]) },
		func() error { return m.SetPrimary(ids[0]) },
		func() error { return m.SetPrimary(ids[1]) },
		func() error { return m.Delete(ids[0]) },
		func() error { return m.Disable(ids[1]) },
	} {
		mm := keyset.NewManagerFromHandle(hd)
		m = mm
		_ = op()
		h3, err := mm.Handle()
		x.Eval(1)
		if err != nil {
			continue
		}
		if why := wellFormed(h3); why != "" {
			x.Fail("duplicate-id", "keyset %s: after operation #%d on a manager started from the handle, Handle() is ill-formed: %s", desc, opi, why)
			return
		}
	}
}
