// C10: ML-DSA-44/65/87 keys and signatures conform to FIPS 204 on every input; signatures made
// through the prehash (external-mu) path verify under the ordinary verifier; composite ML-DSA
// verifies iff both components do.
//
// Bounded-exhaustive enumeration (engine E1) on the real tink-go code:
//   - scalar arithmetic of internal/signature/mldsa/algebra.go over ALL of Z_q (export shim in overlay
//     group c10) against the `%` formulas of FIPS 204 in verif/ref/mldsa.go,
//   - NTT / packing / hint codec / samplers against direct evaluation and literal bit-string models,
//   - key generation, deterministic and hedged signing, verification of valid, bit-flipped, malformed
//     and crafted boundary signatures against TWO independent oracles: the Go standard library's
//     crypto/internal/fips140/mldsa (virtual std package crypto/mldsaref, overlay group mldsaref) and
//     the own FIPS 204 model (which can also keep rejected attempts to craft boundary signatures),
//   - public API paths, prehash path, composite ML-DSA.
//
// Don't care (not judged): which operand centeredMax returns on ties; zetas[0]; error texts; how
// many entropy bytes the hedged signer draws (if it is not exactly one 32-byte draw only validity is
// judged); the byte format of ComputePrehash beyond "the resulting signature verifies"; prehash with a
// TINK-prefixed key (the statement speaks of external-mu keys); behaviour of bit (un)packing on
// coefficients outside the ranges FIPS 204 allows Pack to see; DecodeSecretKey on malformed keys;
// strictness of the classical component's own encoding rules (tink's stand-alone classical verifier is
// the component oracle for the classical half of a composite signature); timing.
package main

import (
	"runtime/debug"

	"verif/h"
)

func main() {
	debug.SetGCPercent(400) // allocation-heavy enumeration (tink allocates k polynomials per decode)
	h.Main("C10", "exploration",
		"Scalar functions: every a in Z_q (reduceOnce on [0,2q)) x the listed second operands, compared with FIPS 204 `%` formulas; mul: every a in Z_q x every zeta (x negations in thorough), inv256 and boundary constants. NTT/intt: 768 scaled unit vectors + dense inputs vs direct evaluation at the roots; packing: every packed word at every byte-alignment class for all 8 (range, width) uses; hint codec: enumerated hint vectors and enumerated well-/mal-formed encodings vs Algorithm 21. Scheme: (parameter set x seed x context length x message length) deterministic signatures byte-compared with the Go stdlib and the own FIPS 204 model; hedged with chosen rnd and with rnd served from an entropy tape; every listed bit flip / malformed encoding / crafted boundary signature must get the same verdict from tink, the stdlib and the model. Non-trivial = an execution that compared at least one tink output with an oracle; distinct = distinct choice vectors.",
		[]h.Section{
			{Name: "scalar-reduce-add-sub", Body: sectionReduceAddSub, Bound: -1},
			{Name: "scalar-mul", Body: sectionMul, Bound: -1},
			{Name: "scalar-mul-windows", Body: sectionMulWindows, Bound: -1},
			{Name: "scalar-rounding-hints", Body: sectionRounding, Bound: -1},
			{Name: "coeff-from-half-byte", Body: sectionHalfByte, Bound: -1},
			{Name: "ntt-table", Body: sectionNTTTable, Bound: -1},
			{Name: "ntt", Body: sectionNTT, Bound: -1},
			{Name: "bit-packing", Body: sectionPacking, Bound: -1},
			{Name: "hint-pack", Body: sectionHintPack, Bound: -1},
			{Name: "hint-decode", Body: sectionHintDecode, Bound: -1},
			{Name: "sampling", Body: sectionSampling, Bound: -1},
			{Name: "keygen", Body: sectionKeygen, Bound: -1},
			{Name: "sign-deterministic", Body: sectionSignDet, Bound: -1},
			{Name: "context-too-long", Body: sectionCtxTooLong, Bound: -1},
			{Name: "sign-hedged", Body: sectionSignHedged, Bound: -1},
			{Name: "verify-bitflips", Body: sectionBitFlips, Bound: -1},
			{Name: "verify-malformed", Body: sectionMalformed, Bound: -1},
			{Name: "verify-crafted-boundary", Body: sectionCrafted, Bound: -1},
			{Name: "signer-boundary", Body: sectionSignerBoundary, Bound: -1},
			{Name: "public-api", Body: sectionPublicAPI, Bound: -1},
			{Name: "prehash-external-mu", Body: sectionPrehash, Bound: -1},
			{Name: "composite", Body: sectionComposite, Bound: -1},
			{Name: "jwt-mldsa", Body: sectionJWT, Bound: -1},
		})
}
