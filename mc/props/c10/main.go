// C10: ML-DSA-44/65/87 keys and signatures conform to FIPS 204 on every input; signatures made
// through the prehash (external-mu) path verify under the ordinary verifier; composite ML-DSA
// verifies iff both components do.
//
// Bounded-exhaustive enumeration (engine E1) on the real tink-go code:
//   - scalar arithmetic of internal/signature/mldsa/algebra.go over ALL of Z_q (export shim in overlay
//     group c10) against the `%` formulas of FIPS 204 in verif/ref/mldsa.go,
//   - NTT / packing / hint codec / samplers against direct evaluation and literal bit-string models,
//   - key generation, deterministic and hedged signing, verification of valid, bit-flipped, malformed
//     and crafted boundary signatures against TWO independent oracles: the Go standard library's
//     crypto/internal/fips140/mldsa (virtual std package crypto/mldsaref, overlay group mldsaref) and
//     the own FIPS 204 model (which can also keep rejected attempts to craft boundary signatures),
//   - public API paths, prehash path, composite ML-DSA.
//
// Don't care (not judged): which operand centeredMax returns on ties; zetas[0]; error texts; how
// many entropy bytes the hedged signer draws (if it is not exactly one 32-byte draw only validity is
// judged); the byte format of ComputePrehash beyond "the resulting signature verifies"; prehash with a
// TINK-prefixed key (the statement speaks of external-mu keys); behaviour of bit (un)packing on
// coefficients outside the ranges FIPS 204 allows Pack to see; DecodeSecretKey on malformed keys;
// strictness of the classical component's own encoding rules (tink's stand-alone classical verifier is
// the component oracle for the classical half of a composite signature); timing.
package main

import (
	"runtime/debug"
	"sync/atomic"
	"time"

	"verif/h"
)

// Liveness guard (not an oracle): ML-DSA signing is a rejection loop and the samplers are rejection
// samplers; with broken arithmetic or a broken acceptance test they may never return. Each guarded leaf
// runs in its own goroutine; if it has not finished after a limit that is three to four orders of
// magnitude above its normal duration (tink signs in < 10 ms, a leaf takes < 1 s), the leaf is reported
// as a violation ("no-termination") and the remaining guarded leaves are skipped (the stuck goroutine
// cannot be stopped). Never fires on a terminating implementation.
var hung atomic.Bool

func guard(body func(x *h.X)) func(x *h.X) {
	return func(x *h.X) {
		limit := 60 * time.Second
		if x.Thorough() {
			limit = 300 * time.Second
		}
		if hung.Load() {
			if !x.Replaying() {
				x.Outcome("skipped-after-non-termination")
				return
			}
			limit = 10 * time.Second
		}
		done := make(chan any, 1)
		go func() {
			defer func() { done <- recover() }()
			body(x)
		}()
		select {
		case r := <-done:
			if r != nil {
				panic(r)
			}
		case <-time.After(limit):
			hung.Store(true)
			x.Fail("no-termination", "a call into tink's ML-DSA code did not return within %v (key generation, signing and verification normally take < 10 ms): non-terminating rejection loop", limit)
		}
	}
}

func main() {
	debug.SetGCPercent(400) // allocation-heavy enumeration (tink allocates k polynomials per decode)
	h.Main("C10", "exploration",
		"Scalar functions: every a in Z_q (reduceOnce on [0,2q)) x the listed second operands, compared with FIPS 204 `%` formulas; mul: every a in Z_q x every zeta (x negations in thorough), inv256 and boundary constants. NTT/intt: 768 scaled unit vectors + dense inputs vs direct evaluation at the roots; packing: every packed word at every byte-alignment class for all 8 (range, width) uses; hint codec: enumerated hint vectors and enumerated well-/mal-formed encodings vs Algorithm 21. Scheme: (parameter set x seed x context length x message length) deterministic signatures byte-compared with the Go stdlib and the own FIPS 204 model; hedged with chosen rnd and with rnd served from an entropy tape; every listed bit flip / malformed encoding / crafted boundary signature must get the same verdict from tink, the stdlib and the model. Non-trivial = an execution that compared at least one tink output with an oracle; distinct = distinct choice vectors.",
		// Seam: the section drives unexported functions through the export shim (overlay group c10); when tink's
		// internals were refactored so that the shim no longer builds, these are skipped and the scheme / API
		// sections below (exported names only: mldsa.MLDSA44/65/87, PublicKey, SecretKey, the tink key layer) run.
		[]h.Section{
			{Name: "scalar-reduce-add-sub", Body: sectionReduceAddSub, Bound: -1, Seam: true},
			{Name: "scalar-mul", Body: sectionMul, Bound: -1, Seam: true},
			{Name: "scalar-mul-windows", Body: sectionMulWindows, Bound: -1, Seam: true},
			{Name: "scalar-rounding-hints", Body: sectionRounding, Bound: -1, Seam: true},
			{Name: "coeff-from-half-byte", Body: sectionHalfByte, Bound: -1, Seam: true},
			{Name: "ntt-table", Body: sectionNTTTable, Bound: -1, Seam: true},
			{Name: "ntt", Body: sectionNTT, Bound: -1, Seam: true},
			{Name: "bit-packing", Body: sectionPacking, Bound: -1, Seam: true},
			{Name: "hint-pack", Body: sectionHintPack, Bound: -1, Seam: true},
			{Name: "hint-decode", Body: sectionHintDecode, Bound: -1, Seam: true},
			{Name: "sampling", Body: guard(sectionSampling), Bound: -1, Seam: true},
			{Name: "keygen", Body: guard(sectionKeygen), Bound: -1},
			{Name: "sign-deterministic", Body: guard(sectionSignDet), Bound: -1},
			{Name: "context-too-long", Body: guard(sectionCtxTooLong), Bound: -1},
			{Name: "sign-hedged", Body: guard(sectionSignHedged), Bound: -1},
			{Name: "verify-bitflips", Body: guard(sectionBitFlips), Bound: -1},
			{Name: "verify-malformed", Body: guard(sectionMalformed), Bound: -1},
			{Name: "verify-crafted-boundary", Body: guard(sectionCrafted), Bound: -1},
			{Name: "signer-boundary", Body: guard(sectionSignerBoundary), Bound: -1},
			{Name: "public-api", Body: guard(sectionPublicAPI), Bound: -1},
			{Name: "prehash-external-mu", Body: guard(sectionPrehash), Bound: -1},
			{Name: "composite", Body: guard(sectionComposite), Bound: -1},
			{Name: "jwt-mldsa", Body: guard(sectionJWT), Bound: -1},
		})
}
