package main

// jwt/jwtmldsa: key generation from the seed and the signature part of a signed token are the
// FIPS 204 ones (the JWT layer itself belongs to other properties).

import (
	"bytes"
	"crypto/mldsaref"
	"encoding/base64"
	"fmt"
	"strings"

	"github.com/tink-crypto/tink-go/v2/jwt"
	"github.com/tink-crypto/tink-go/v2/jwt/jwtmldsa"
	"verif/h"
	"verif/tape"
	"verif/tk"
)

var jwtAlg = map[int]jwtmldsa.Algorithm{44: jwtmldsa.MLDSA44, 65: jwtmldsa.MLDSA65, 87: jwtmldsa.MLDSA87}

func sectionJWT(x *h.X) {
	inst := h.Pick(x, "set", insts)
	strat := h.Pick(x, "kid", []jwtmldsa.KIDStrategy{jwtmldsa.IgnoredKID, jwtmldsa.Base64EncodedKeyIDAsKID, jwtmldsa.CustomKID})
	k := getKP(inst, 5)
	what := fmt.Sprintf("jwtmldsa %s kid-strategy=%v", k, strat)
	params, err := jwtmldsa.NewParameters(strat, jwtAlg[inst])
	if err != nil {
		x.Fail("construct", "%s: %v", what, err)
		return
	}
	opts := jwtmldsa.PublicKeyOpts{KeyBytes: k.pk, Parameters: params}
	if strat == jwtmldsa.Base64EncodedKeyIDAsKID {
		opts.IDRequirement = 0x01020304
	}
	if strat == jwtmldsa.CustomKID {
		opts.CustomKID, opts.HasCustomKID = "kid-1", true
	}
	pub, err := jwtmldsa.NewPublicKey(opts)
	if err != nil {
		x.Fail("construct", "%s: NewPublicKey(FIPS 204 public key of the seed): %v", what, err)
		return
	}
	x.Eval(2)
	// the FIPS 204 public key of the seed must be recognised as matching, another seed's must not
	priv, err := jwtmldsa.NewPrivateKeyFromPublicKey(sec(k.seed), pub)
	if err != nil {
		x.Fail("keygen-public", "%s: NewPrivateKeyFromPublicKey(seed, FIPS 204 public key of that seed) refused: %v", what, err)
		return
	}
	if _, err := jwtmldsa.NewPrivateKeyFromPublicKey(sec(seedBytes(6)), pub); err == nil {
		x.Fail("keygen-public", "%s: NewPrivateKeyFromPublicKey accepted a seed that does not generate the public key", what)
	}
	hd, err := tk.Single(priv)
	if err != nil {
		x.Fail("construct", "%s: handle: %v", what, err)
		return
	}
	signer, err := jwt.NewSigner(hd)
	if err != nil {
		x.Fail("construct", "%s: jwt.NewSigner: %v", what, err)
		return
	}
	ph, err := hd.Public()
	if err != nil {
		x.Fail("construct", "%s: %v", what, err)
		return
	}
	verifier, err := jwt.NewVerifier(ph)
	if err != nil {
		x.Fail("construct", "%s: jwt.NewVerifier: %v", what, err)
		return
	}
	x.NonTrivial()
	x.Outcome(k.p.Name)
	sub := "subject"
	raw, err := jwt.NewRawJWT(&jwt.RawJWTOptions{Subject: &sub, WithoutExpiration: true})
	if err != nil {
		x.Fail("harness", "NewRawJWT: %v", err)
		return
	}
	t := tape.NewTape(nil)
	tape.Bind(t)
	defer tape.Unbind()
	mark := t.Mark()
	compact, err := signer.SignAndEncode(raw)
	draws := t.Since(mark)
	if err != nil {
		x.Fail("sign-error", "%s: SignAndEncode: %v", what, err)
		return
	}
	i := strings.LastIndexByte(compact, '.')
	sig, err := base64.RawURLEncoding.DecodeString(compact[i+1:])
	if i < 0 || err != nil {
		x.Fail("jwt-format", "%s: cannot split the compact token: %v", what, err)
		return
	}
	msg := []byte(compact[:i])
	checkHedged(x, k, draws, t, sig, what, func(r []byte) []byte {
		s, _ := mldsaref.SignWithRandom(k.std, msg, "", r)
		return s
	})
	if mldsaref.Verify(k.std.PublicKey(), msg, sig, "") != nil {
		x.Fail("produced-signature-invalid", "%s: the token's signature is rejected by the FIPS 204 reference (message = header.payload, empty context)", what)
	}
	val, err := jwt.NewValidator(&jwt.ValidatorOpts{AllowMissingExpiration: true})
	if err != nil {
		x.Fail("harness", "NewValidator: %v", err)
		return
	}
	if _, err := verifier.VerifyAndDecode(compact, val); err != nil {
		x.Fail("verify-valid", "%s: VerifyAndDecode rejects the signer's token: %v", what, err)
	}
	// a reference-made signature over the same signing input verifies; a bit-flipped one does not
	rs, _ := mldsaref.SignDeterministic(k.std, msg, "")
	if _, err := verifier.VerifyAndDecode(string(msg)+"."+base64.RawURLEncoding.EncodeToString(rs), val); err != nil {
		x.Fail("verify-valid", "%s: VerifyAndDecode rejects header.payload.<reference signature>: %v", what, err)
	}
	for _, b := range []int{0, 8 * k.p.Lambda / 4, 8*len(rs) - 1} {
		s := bytes.Clone(rs)
		s[b/8] ^= 1 << (b % 8)
		if _, err := verifier.VerifyAndDecode(string(msg)+"."+base64.RawURLEncoding.EncodeToString(s), val); err == nil {
			x.Fail("verify-verdict", "%s: token whose signature has bit %d flipped is accepted", what, b)
		}
	}
	x.Eval(5)
}
