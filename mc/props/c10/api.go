package main

// Public API paths: signature.NewSigner/NewVerifier(handle), signature/mldsa constructors,
// the prehash (external-mu) path and composite ML-DSA.

import (
	"bytes"
	"crypto"
	stdecdsa "crypto/ecdsa"
	stded25519 "crypto/ed25519"
	"crypto/elliptic"
	"crypto/mldsaref"
	stdrsa "crypto/rsa"
	"crypto/sha256"
	"crypto/sha512"
	"encoding/hex"
	"fmt"
	"math/big"
	"sync"

	"github.com/tink-crypto/tink-go/v2/insecuresecretdataaccess"
	"github.com/tink-crypto/tink-go/v2/key"
	"github.com/tink-crypto/tink-go/v2/keyset"
	"github.com/tink-crypto/tink-go/v2/secretdata"
	"github.com/tink-crypto/tink-go/v2/signature"
	"github.com/tink-crypto/tink-go/v2/signature/compositemldsa"
	"github.com/tink-crypto/tink-go/v2/signature/ecdsa"
	"github.com/tink-crypto/tink-go/v2/signature/ed25519"
	tmldsa "github.com/tink-crypto/tink-go/v2/signature/mldsa"
	"github.com/tink-crypto/tink-go/v2/signature/rsassapkcs1"
	"github.com/tink-crypto/tink-go/v2/signature/rsassapss"
	"github.com/tink-crypto/tink-go/v2/signprehash"
	phmldsa "github.com/tink-crypto/tink-go/v2/signprehash/mldsa"
	"github.com/tink-crypto/tink-go/v2/tink"
	"github.com/tink-crypto/tink-go/v2/verifbridge/vb"
	"verif/h"
	"verif/ref"
	"verif/tape"
	"verif/tk"
)

var tinkInst = map[int]tmldsa.Instance{44: tmldsa.MLDSA44, 65: tmldsa.MLDSA65, 87: tmldsa.MLDSA87}

func sec(b []byte) secretdata.Bytes {
	return secretdata.NewBytesFromData(bytes.Clone(b), insecuresecretdataaccess.Token{})
}

type apiVariant struct {
	name string
	v    tmldsa.Variant
	rv   ref.Variant // output prefix per the Tink wire format
}

var apiVariants = []apiVariant{
	{"TINK", tmldsa.VariantTink, ref.Tink},
	{"NO_PREFIX", tmldsa.VariantNoPrefix, ref.Raw},
	{"EXTERNAL_MU", tmldsa.VariantNoPrefixWithPrehashID, ref.Raw},
}

func apiIDs(x *h.X) []uint32 {
	if x.Thorough() {
		return tk.IDs
	}
	return []uint32{tk.IDs[0], 0, tk.IDs[5]} // 0 is an id like any other
}

func sectionPublicAPI(x *h.X) {
	inst := h.Pick(x, "set", insts)
	av := h.Pick(x, "variant", apiVariants)
	id := h.Pick(x, "id", apiIDs(x))
	path := h.Pick(x, "path", []string{"signature.New(manager-handle)", "signature.New(proto-handle)", "mldsa.NewSigner/NewVerifier"})
	if av.v == tmldsa.VariantNoPrefix && id != apiIDs(x)[0] {
		return
	}
	k := getKP(inst, 5)
	what := fmt.Sprintf("%s %s id=%#x via %s", k, av.name, id, path)
	params, err := tmldsa.NewParameters(tinkInst[inst], av.v)
	if err != nil {
		x.Fail("construct", "%s: NewParameters: %v", what, err)
		return
	}
	kid := id
	if av.v == tmldsa.VariantNoPrefix {
		kid = 0
	}
	priv, err := tmldsa.NewPrivateKey(sec(k.seed), kid, params)
	if err != nil {
		x.Fail("construct", "%s: NewPrivateKey: %v", what, err)
		return
	}
	pubK, _ := priv.PublicKey()
	pub := pubK.(*tmldsa.PublicKey)
	x.Eval(1)
	if !bytes.Equal(pub.KeyBytes(), k.pk) {
		x.Fail("keygen-public", "%s: PublicKey().KeyBytes() differs from the FIPS 204 public key of the seed at byte %d", what, diffAt(pub.KeyBytes(), k.pk))
	}
	prefix := ref.Prefix(av.rv, id)
	if !bytes.Equal(priv.OutputPrefix(), prefix) || !bytes.Equal(pub.OutputPrefix(), prefix) {
		x.Fail("prefix", "%s: OutputPrefix=%x want %x", what, priv.OutputPrefix(), prefix)
	}
	if _, err := tmldsa.NewPrivateKeyWithPublicKey(sec(k.seed), pub); err != nil {
		x.Fail("construct", "%s: NewPrivateKeyWithPublicKey(matching): %v", what, err)
	}
	if _, err := tmldsa.NewPrivateKeyWithPublicKey(sec(seedBytes(6)), pub); err == nil {
		x.Fail("construct", "%s: NewPrivateKeyWithPublicKey accepted a seed that does not generate the public key", what)
	}
	var signer tink.Signer
	var verifier tink.Verifier
	switch path {
	case "mldsa.NewSigner/NewVerifier":
		signer, err = tmldsa.NewSigner(priv, vb.Tok())
		if err == nil {
			verifier, err = tmldsa.NewVerifier(pub, vb.Tok())
		}
	default:
		var hd *keyset.Handle
		if path == "signature.New(manager-handle)" {
			hd, err = tk.Single(priv)
		} else {
			hd, err = tk.Handle([]tk.Entry{{Key: priv, ID: id, Primary: true}})
		}
		if err != nil && av.v == tmldsa.VariantNoPrefixWithPrehashID && path == "signature.New(proto-handle)" {
			// keyset.Validate does not admit OutputPrefixType WITH_ID_REQUIREMENT: a keyset-format matter, not judged here
			x.Outcome("proto-handle-refuses-WITH_ID_REQUIREMENT")
			return
		}
		if err != nil {
			x.Fail("construct", "%s: handle: %v", what, err)
			return
		}
		signer, err = signature.NewSigner(hd)
		if err == nil {
			var ph *keyset.Handle
			ph, err = hd.Public()
			if err == nil {
				verifier, err = signature.NewVerifier(ph)
			}
		}
	}
	if err != nil {
		x.Fail("construct", "%s: %v", what, err)
		return
	}
	x.NonTrivial()
	x.Outcome(av.name)
	t := tape.NewTape(nil)
	tape.Bind(t)
	defer tape.Unbind()
	for _, ml := range []int{0, 1, 137} {
		msg := ref.Pattern(3, ml)
		mark := t.Mark()
		sig, err := signer.Sign(msg)
		draws := t.Since(mark)
		if err != nil {
			x.Fail("sign-error", "%s: Sign: %v", what, err)
			return
		}
		if !bytes.HasPrefix(sig, prefix) {
			x.Fail("prefix", "%s: signature does not start with %x", what, prefix)
			return
		}
		raw := sig[len(prefix):]
		checkHedged(x, k, draws, t, raw, what, func(r []byte) []byte {
			s, _ := mldsaref.SignWithRandom(k.std, msg, "", r)
			return s
		})
		if mldsaref.Verify(k.std.PublicKey(), msg, raw, "") != nil {
			x.Fail("produced-signature-invalid", "%s msglen=%d: signature (after the prefix) is rejected by the FIPS 204 reference with empty context", what, ml)
		}
		if err := verifier.Verify(sig, msg); err != nil {
			x.Fail("verify-valid", "%s msglen=%d: Verify rejects the signer's output: %v", what, ml, err)
		}
		// a reference-made signature verifies; altered ones do not
		rs, _ := mldsaref.SignDeterministic(k.std, msg, "")
		full := append(bytes.Clone(prefix), rs...)
		if err := verifier.Verify(full, msg); err != nil {
			x.Fail("verify-valid", "%s msglen=%d: Verify rejects prefix||reference signature: %v", what, ml, err)
		}
		rej := func(s, m []byte, why string) {
			x.Eval(1)
			var e error
			if pan, pm := h.Try(func() { e = verifier.Verify(s, m) }); pan {
				x.Fail("verify-panic", "%s: Verify panicked on %s: %s", what, why, pm)
			} else if e == nil {
				x.Fail("verify-verdict", "%s msglen=%d: Verify accepted %s", what, ml, why)
			}
		}
		for _, b := range []int{0, 8*len(prefix) - 1, 8 * len(prefix), 8*len(prefix) + 8*k.p.Lambda/4, 8*len(full) - 1, 8*len(full) - 8*k.p.K} {
			if b < 0 {
				continue
			}
			s := bytes.Clone(full)
			s[b/8] ^= 1 << (b % 8)
			rej(s, msg, fmt.Sprintf("signature with bit %d flipped", b))
		}
		rej(full[:len(full)-1], msg, "truncated signature")
		rej(append(bytes.Clone(full), 0), msg, "extended signature")
		rej(full, append(bytes.Clone(msg), 0), "signature for message||00")
		rej(nil, msg, "nil signature")
		if len(prefix) > 0 {
			rej(rs, msg, "signature without its prefix")
			rej(append(bytes.Clone(prefix), full...), msg, "signature with doubled prefix")
		} else {
			rej(append(ref.Prefix(ref.Tink, id), rs...), msg, "signature with a TINK prefix under a prefix-less key")
		}
		// context separation: a signature made with a non-empty context is not valid for the API (empty context)
		cs, _ := mldsaref.SignDeterministic(k.std, msg, "ctx")
		rej(append(bytes.Clone(prefix), cs...), msg, "signature made with context \"ctx\"")
	}
}

// ---- prehash / external mu ------------------------------------------------------------------

func sectionPrehash(x *h.X) {
	inst := h.Pick(x, "set", insts)
	id := h.Pick(x, "id", apiIDs(x))
	path := h.Pick(x, "path", []string{"signprehash.New*(handle)", "signprehash/mldsa.New*"})
	k := getKP(inst, 5)
	what := fmt.Sprintf("%s EXTERNAL_MU id=%#x via %s", k, id, path)
	params, err := tmldsa.NewParameters(tinkInst[inst], tmldsa.VariantNoPrefixWithPrehashID)
	if err != nil {
		x.Fail("construct", "%s: %v", what, err)
		return
	}
	priv, err := tmldsa.NewPrivateKey(sec(k.seed), id, params)
	if err != nil {
		x.Fail("construct", "%s: %v", what, err)
		return
	}
	pubK, _ := priv.PublicKey()
	pub := pubK.(*tmldsa.PublicKey)
	var ph tink.Prehash
	var ps tink.PrehashSigner
	var ordinary []tink.Verifier
	if path == "signprehash/mldsa.New*" {
		ph, err = phmldsa.NewPrehash(pub, vb.Tok())
		if err == nil {
			ps, err = phmldsa.NewPrehashSigner(priv, vb.Tok())
		}
	} else {
		var hd, pubh *keyset.Handle
		hd, err = tk.Single(priv)
		if err == nil {
			pubh, err = hd.Public()
		}
		if err == nil {
			ph, err = signprehash.NewPrehash(pubh)
		}
		if err == nil {
			ps, err = signprehash.NewPrehashSigner(hd)
		}
		if err == nil {
			var v tink.Verifier
			v, err = signature.NewVerifier(pubh)
			ordinary = append(ordinary, v)
		}
	}
	if err == nil {
		var v tink.Verifier
		v, err = tmldsa.NewVerifier(pub, vb.Tok())
		ordinary = append(ordinary, v)
	}
	if err != nil {
		x.Fail("construct", "%s: %v", what, err)
		return
	}
	x.NonTrivial()
	x.Outcome(k.p.Name)
	t := tape.NewTape(nil)
	tape.Bind(t)
	defer tape.Unbind()
	for _, ml := range []int{0, 1, 64, 65, 200} {
		msg := ref.Pattern(3, ml)
		pre, err := ph.ComputePrehash(msg)
		if err != nil {
			x.Fail("prehash-error", "%s: ComputePrehash: %v", what, err)
			return
		}
		// HISTORY: a second message is pre-hashed on the SAME object before the first result is signed (two requests
		// in flight): the first result still belongs to the first message
		snapshot := bytes.Clone(pre)
		if _, err := ph.ComputePrehash(append(bytes.Clone(msg), 0x5a)); err != nil {
			x.Fail("prehash-error", "%s: ComputePrehash (second message): %v", what, err)
			return
		}
		if !bytes.Equal(pre, snapshot) {
			x.Fail("prehash-result-overwritten", "%s msglen=%d: the result of ComputePrehash changed when another message was pre-hashed on the same object", what, ml)
			return
		}
		mu := ref.MldsaMu(ref.MldsaTr(k.pk), msg, nil)
		wantPre := append([]byte{0xff, byte(id >> 24), byte(id >> 16), byte(id >> 8), byte(id)}, mu...)
		x.Eval(1)
		if !bytes.Equal(pre, wantPre) {
			// the statement is about verification; a different mu shows up below as a rejected signature
			x.Outcome("prehash-format-differs")
		}
		mark := t.Mark()
		sig, err := ps.SignPrehash(pre)
		draws := t.Since(mark)
		if err != nil {
			x.Fail("prehash-error", "%s: SignPrehash(ComputePrehash(msg)): %v", what, err)
			return
		}
		if bytes.Equal(pre, wantPre) {
			checkHedged(x, k, draws, t, sig, what+" SignPrehash", func(r []byte) []byte {
				s, _ := mldsaref.SignExternalMuWithRandom(k.std, mu, r)
				return s
			})
		}
		for i, v := range ordinary {
			if err := v.Verify(sig, msg); err != nil {
				x.Fail("prehash-not-verified", "%s msglen=%d: signature made through the prehash path is rejected by the key's ordinary verifier #%d: %v", what, ml, i, err)
			}
			if v.Verify(sig, append(bytes.Clone(msg), 1)) == nil {
				x.Fail("verify-verdict", "%s msglen=%d: prehash signature accepted for another message", what, ml)
			}
		}
		if mldsaref.Verify(k.std.PublicKey(), msg, sig, "") != nil {
			x.Fail("prehash-not-verified", "%s msglen=%d: signature made through the prehash path is rejected by the FIPS 204 reference verifier (message, empty context)", what, ml)
		}
		x.Eval(3)
	}
}

// ---- composite ML-DSA ---------------------------------------------------------------------

type pairing struct {
	name  string
	inst  int
	alg   compositemldsa.ClassicalAlgorithm
	label string // draft-ietf-lamps-pq-composite-sigs label (= ML-DSA context)
}

var pairings = []pairing{
	{"MLDSA65-Ed25519", 65, compositemldsa.Ed25519, "COMPSIG-MLDSA65-Ed25519-SHA512"},
	{"MLDSA65-ECDSA-P256", 65, compositemldsa.ECDSAP256, "COMPSIG-MLDSA65-ECDSA-P256-SHA512"},
	{"MLDSA65-ECDSA-P384", 65, compositemldsa.ECDSAP384, "COMPSIG-MLDSA65-ECDSA-P384-SHA512"},
	{"MLDSA65-RSA3072-PSS", 65, compositemldsa.RSA3072PSS, "COMPSIG-MLDSA65-RSA3072-PSS-SHA512"},
	{"MLDSA65-RSA4096-PSS", 65, compositemldsa.RSA4096PSS, "COMPSIG-MLDSA65-RSA4096-PSS-SHA512"},
	{"MLDSA65-RSA3072-PKCS15", 65, compositemldsa.RSA3072PKCS1, "COMPSIG-MLDSA65-RSA3072-PKCS15-SHA512"},
	{"MLDSA65-RSA4096-PKCS15", 65, compositemldsa.RSA4096PKCS1, "COMPSIG-MLDSA65-RSA4096-PKCS15-SHA512"},
	{"MLDSA87-ECDSA-P384", 87, compositemldsa.ECDSAP384, "COMPSIG-MLDSA87-ECDSA-P384-SHA512"},
	{"MLDSA87-ECDSA-P521", 87, compositemldsa.ECDSAP521, "COMPSIG-MLDSA87-ECDSA-P521-SHA512"},
	{"MLDSA87-RSA3072-PSS", 87, compositemldsa.RSA3072PSS, "COMPSIG-MLDSA87-RSA3072-PSS-SHA512"},
	{"MLDSA87-RSA4096-PSS", 87, compositemldsa.RSA4096PSS, "COMPSIG-MLDSA87-RSA4096-PSS-SHA512"},
}

func (p pairing) String() string { return p.name }

// classical is one classical component: tink key + stand-alone tink verifier + stdlib verifier.
type classical struct {
	priv      key.Key
	verifier  tink.Verifier // tink's own stand-alone verifier of the component key
	stdVerify func(msg, sig []byte) bool
	// ECDSA components only: the curve, the private scalar and the message hash, for signatures with a chosen nonce
	curve elliptic.Curve
	d     *big.Int
	hf    crypto.Hash
}

func mustHex(s string) []byte {
	if len(s)%2 == 1 {
		s = "0" + s
	}
	b, err := hex.DecodeString(s)
	if err != nil {
		panic(err)
	}
	return b
}

var classicalCache sync.Map

func getClassical(alg compositemldsa.ClassicalAlgorithm) (*classical, error) {
	if v, ok := classicalCache.Load(alg); ok {
		return v.(*classical), nil
	}
	c, err := newClassical(alg)
	if err != nil {
		return nil, err
	}
	v, _ := classicalCache.LoadOrStore(alg, c)
	return v.(*classical), nil
}

func newClassical(alg compositemldsa.ClassicalAlgorithm) (*classical, error) {
	c := &classical{}
	switch alg {
	case compositemldsa.Ed25519:
		params, err := ed25519.NewParameters(ed25519.VariantNoPrefix)
		if err != nil {
			return nil, err
		}
		seed := ref.KeyBytes("c10-ed25519", 32)
		priv, err := ed25519.NewPrivateKey(sec(seed), 0, params)
		if err != nil {
			return nil, err
		}
		pk, _ := priv.PublicKey()
		c.priv = priv
		c.verifier, err = ed25519.NewVerifier(pk.(*ed25519.PublicKey), vb.Tok())
		if err != nil {
			return nil, err
		}
		spub := stded25519.NewKeyFromSeed(seed).Public().(stded25519.PublicKey)
		c.stdVerify = func(msg, sig []byte) bool { return stded25519.Verify(spub, msg, sig) }
	case compositemldsa.ECDSAP256, compositemldsa.ECDSAP384, compositemldsa.ECDSAP521:
		var ct ecdsa.CurveType
		var ht ecdsa.HashType
		var curve elliptic.Curve
		var hf crypto.Hash
		switch alg {
		case compositemldsa.ECDSAP256:
			ct, ht, curve, hf = ecdsa.NistP256, ecdsa.SHA256, elliptic.P256(), crypto.SHA256
		case compositemldsa.ECDSAP384:
			ct, ht, curve, hf = ecdsa.NistP384, ecdsa.SHA384, elliptic.P384(), crypto.SHA384
		default:
			ct, ht, curve, hf = ecdsa.NistP521, ecdsa.SHA512, elliptic.P521(), crypto.SHA512
		}
		params, err := ecdsa.NewParameters(ct, ht, ecdsa.DER, ecdsa.VariantNoPrefix)
		if err != nil {
			return nil, err
		}
		n := (curve.Params().BitSize + 7) / 8
		d := ref.KeyBytes(fmt.Sprintf("c10-ecdsa-%d", n), n)
		d[0] = 0 // below the group order for all three curves
		d[1] |= 1
		priv, err := ecdsa.NewPrivateKey(sec(d), 0, params)
		if err != nil {
			return nil, err
		}
		pk, _ := priv.PublicKey()
		c.priv = priv
		c.verifier, err = ecdsa.NewVerifier(pk.(*ecdsa.PublicKey), vb.Tok())
		if err != nil {
			return nil, err
		}
		sk, err := stdecdsa.ParseRawPrivateKey(curve, d)
		if err != nil {
			return nil, err
		}
		c.curve, c.d, c.hf = curve, new(big.Int).SetBytes(d), hf
		c.stdVerify = func(msg, sig []byte) bool {
			hh := hf.New()
			hh.Write(msg)
			return stdecdsa.VerifyASN1(&sk.PublicKey, hh.Sum(nil), sig)
		}
	default:
		bits := 3072
		if alg == compositemldsa.RSA4096PSS || alg == compositemldsa.RSA4096PKCS1 {
			bits = 4096
		}
		var rk rsaHex
		for _, r := range rsaTestKeys {
			if r.bits == bits {
				rk = r
			}
		}
		n := mustHex(rk.n)
		spub := &stdrsa.PublicKey{N: new(big.Int).SetBytes(n), E: 65537}
		if alg == compositemldsa.RSA3072PSS || alg == compositemldsa.RSA4096PSS {
			ht, hf, salt := rsassapss.SHA256, crypto.SHA256, 32
			if bits == 4096 {
				ht, hf, salt = rsassapss.SHA384, crypto.SHA384, 48
			}
			params, err := rsassapss.NewParameters(rsassapss.ParametersValues{ModulusSizeBits: bits, SigHashType: ht, MGF1HashType: ht, PublicExponent: 65537, SaltLengthBytes: salt}, rsassapss.VariantNoPrefix)
			if err != nil {
				return nil, err
			}
			pub, err := rsassapss.NewPublicKey(n, 0, params)
			if err != nil {
				return nil, err
			}
			priv, err := rsassapss.NewPrivateKey(pub, rsassapss.PrivateKeyValues{P: sec(mustHex(rk.p)), Q: sec(mustHex(rk.q)), D: sec(mustHex(rk.d))})
			if err != nil {
				return nil, err
			}
			c.priv = priv
			c.verifier, err = rsassapss.NewVerifier(pub, vb.Tok())
			if err != nil {
				return nil, err
			}
			c.stdVerify = func(msg, sig []byte) bool {
				hh := hf.New()
				hh.Write(msg)
				return stdrsa.VerifyPSS(spub, hf, hh.Sum(nil), sig, &stdrsa.PSSOptions{SaltLength: salt, Hash: hf}) == nil
			}
		} else {
			ht, hf := rsassapkcs1.SHA256, crypto.SHA256
			if bits == 4096 {
				ht, hf = rsassapkcs1.SHA384, crypto.SHA384
			}
			params, err := rsassapkcs1.NewParameters(bits, ht, 65537, rsassapkcs1.VariantNoPrefix)
			if err != nil {
				return nil, err
			}
			pub, err := rsassapkcs1.NewPublicKey(n, 0, params)
			if err != nil {
				return nil, err
			}
			priv, err := rsassapkcs1.NewPrivateKey(pub, rsassapkcs1.PrivateKeyValues{P: sec(mustHex(rk.p)), Q: sec(mustHex(rk.q)), D: sec(mustHex(rk.d))})
			if err != nil {
				return nil, err
			}
			c.priv = priv
			c.verifier, err = rsassapkcs1.NewVerifier(pub, vb.Tok())
			if err != nil {
				return nil, err
			}
			c.stdVerify = func(msg, sig []byte) bool {
				hh := hf.New()
				hh.Write(msg)
				return stdrsa.VerifyPKCS1v15(spub, hf, hh.Sum(nil), sig) == nil
			}
		}
	}
	return c, nil
}

var _ = sha256.New

// messagePrime is M' of draft-ietf-lamps-pq-composite-sigs: Prefix || Label || len(ctx)=0 || SHA-512(M).
func messagePrime(label string, msg []byte) []byte {
	d := sha512.Sum512(msg)
	out := append([]byte("CompositeAlgorithmSignatures2025"), label...)
	out = append(out, 0)
	return append(out, d[:]...)
}

func sectionComposite(x *h.X) {
	pr := h.Pick(x, "pairing", pairings)
	variant := h.Pick(x, "variant", []string{"NO_PREFIX", "TINK"})
	path := h.Pick(x, "path", []string{"compositemldsa.NewSigner/NewVerifier", "signature.New*(handle)", "signature.New*(proto-handle)"})
	id := uint32(0)
	cv := compositemldsa.VariantNoPrefix
	var prefix []byte
	if variant == "TINK" {
		id = 0x01020304
		cv = compositemldsa.VariantTink
		prefix = ref.Prefix(ref.Tink, id)
	}
	what := fmt.Sprintf("composite %s %s via %s", pr, variant, path)
	k := getKP(pr.inst, 5)
	cl, err := getClassical(pr.alg)
	if err != nil {
		x.Fail("construct", "%s: classical key: %v", what, err)
		return
	}
	mlInst := compositemldsa.MLDSA65
	if pr.inst == 87 {
		mlInst = compositemldsa.MLDSA87
	}
	params, err := compositemldsa.NewParameters(pr.alg, mlInst, cv)
	if err != nil {
		x.Fail("construct", "%s: NewParameters: %v", what, err)
		return
	}
	mp, _ := tmldsa.NewParameters(tinkInst[pr.inst], tmldsa.VariantNoPrefix)
	mpriv, err := tmldsa.NewPrivateKey(sec(k.seed), 0, mp)
	if err != nil {
		x.Fail("construct", "%s: %v", what, err)
		return
	}
	priv, err := compositemldsa.NewPrivateKey(mpriv, cl.priv, id, params)
	if err != nil {
		x.Fail("construct", "%s: NewPrivateKey: %v", what, err)
		return
	}
	pubK, _ := priv.PublicKey()
	pub := pubK.(*compositemldsa.PublicKey)
	var signer tink.Signer
	var verifier tink.Verifier
	if path != "compositemldsa.NewSigner/NewVerifier" {
		var hd, phd *keyset.Handle
		if path == "signature.New*(handle)" {
			hd, err = tk.Single(priv)
		} else {
			hid := id
			if hid == 0 {
				hid = 0x55
			}
			hd, err = tk.Handle([]tk.Entry{{Key: priv, ID: hid, Primary: true}})
		}
		if err == nil {
			signer, err = signature.NewSigner(hd)
		}
		if err == nil {
			phd, err = hd.Public()
		}
		if err == nil {
			verifier, err = signature.NewVerifier(phd)
		}
	} else {
		signer, err = compositemldsa.NewSigner(priv, vb.Tok())
		if err == nil {
			verifier, err = compositemldsa.NewVerifier(pub, vb.Tok())
		}
	}
	if err != nil {
		x.Fail("construct", "%s: %v", what, err)
		return
	}
	x.NonTrivial()
	mlen := k.p.SigLen()
	msgs := [][]byte{ref.Pattern(3, 50), {}}
	var sigs [][]byte
	for _, m := range msgs {
		s, err := signer.Sign(m)
		if err != nil {
			x.Fail("sign-error", "%s: Sign: %v", what, err)
			return
		}
		sigs = append(sigs, s)
	}
	// component oracles: ML-DSA by the stdlib (context = label), classical by tink's stand-alone verifier of the component key
	expect := func(sig, msg []byte) (ml, cls, wellFormed bool) {
		if !bytes.HasPrefix(sig, prefix) || len(sig) < len(prefix)+mlen {
			return false, false, false
		}
		body := sig[len(prefix):]
		m := messagePrime(pr.label, msg)
		ml = mldsaref.Verify(k.std.PublicKey(), m, body[:mlen], pr.label) == nil
		cls = cl.verifier.Verify(body[mlen:], m) == nil
		return ml, cls, true
	}
	judge := func(sig, msg []byte, why string) {
		x.Eval(1)
		ml, cls, _ := expect(sig, msg)
		var e error
		if pan, pm := h.Try(func() { e = verifier.Verify(sig, msg) }); pan {
			x.Fail("verify-panic", "%s: Verify panicked on %s: %s", what, why, pm)
			return
		}
		got := e == nil
		if got != (ml && cls) {
			x.Fail("composite-verdict", "%s: %s: composite Verify accepted=%v but ML-DSA component verifies=%v and classical component verifies=%v", what, why, got, ml, cls)
		}
		x.Outcome(fmt.Sprintf("mldsa=%v classical=%v", ml, cls))
	}
	for i, m := range msgs {
		s := sigs[i]
		ml, cls, wf := expect(s, m)
		if !wf || !ml || !cls {
			x.Fail("composite-components", "%s: produced signature: well-formed=%v, ML-DSA component (FIPS 204 reference, M' and ctx per the composite draft) verifies=%v, classical component verifies=%v", what, wf, ml, cls)
			continue
		}
		body := s[len(prefix):]
		if !cl.stdVerify(messagePrime(pr.label, m), body[mlen:]) {
			x.Fail("composite-components", "%s: classical component of the produced signature is rejected by the Go standard library verifier", what)
		}
		judge(s, m, "produced signature")
		other := sigs[1-i]
		ob := other[len(prefix):]
		cat := func(parts ...[]byte) []byte { return bytes.Join(parts, nil) }
		// each component mutated in turn
		mlBits := []int{0, 1, 8*k.p.Lambda/4 - 1, 8 * k.p.Lambda / 4, 8*mlen/2 + 3, 8*(mlen-k.p.Omega-k.p.K) - 1, 8 * (mlen - k.p.Omega - k.p.K), 8*(mlen-k.p.K) - 1, 8 * (mlen - k.p.K), 8*mlen - 1}
		nml, ncl := 40, 48
		if x.Thorough() {
			nml, ncl = 400, 1024
		}
		for b := 17; b < 8*mlen; b += 8 * mlen / nml {
			mlBits = append(mlBits, b)
		}
		for _, b := range mlBits {
			t := bytes.Clone(s)
			t[len(prefix)+b/8] ^= 1 << (b % 8)
			judge(t, m, fmt.Sprintf("ML-DSA component bit %d flipped", b))
		}
		clen := len(body) - mlen
		step := max(1, 8*clen/ncl)
		for b := 0; b < 8*clen; b += step {
			t := bytes.Clone(s)
			t[len(prefix)+mlen+b/8] ^= 1 << (b % 8)
			judge(t, m, fmt.Sprintf("classical component bit %d flipped", b))
		}
		t := bytes.Clone(s)
		t[len(prefix)+5] ^= 4
		t[len(t)-2] ^= 4
		judge(t, m, "both components altered")
		judge(cat(prefix, ob[:mlen], body[mlen:]), m, "ML-DSA component taken from a signature of another message")
		judge(cat(prefix, body[:mlen], ob[mlen:]), m, "classical component taken from a signature of another message")
		judge(other, m, "signature of another message")
		judge(cat(prefix, body[mlen:], body[:mlen]), m, "components swapped")
		judge(cat(prefix, body[:mlen]), m, "classical component missing")
		judge(cat(prefix, body[mlen:]), m, "ML-DSA component missing")
		judge(s[:len(s)-1], m, "last byte missing")
		judge(cat(s, []byte{0}), m, "extra byte appended")
		judge(cat(prefix, body[:mlen-1], body[mlen:]), m, "ML-DSA component one byte short")
		judge(nil, m, "nil signature")
		judge(prefix, m, "prefix only")
		// ML-DSA component valid for the same M' but under another context / for the raw message
		mpm := messagePrime(pr.label, m)
		noCtx, _ := mldsaref.SignDeterministic(k.std, mpm, "")
		judge(cat(prefix, noCtx, body[mlen:]), m, "ML-DSA component signed with empty context")
		rawMsg, _ := mldsaref.SignDeterministic(k.std, m, pr.label)
		judge(cat(prefix, rawMsg, body[mlen:]), m, "ML-DSA component signed over the raw message")
		good, _ := mldsaref.SignDeterministic(k.std, mpm, pr.label)
		judge(cat(prefix, good, body[mlen:]), m, "ML-DSA component replaced by a reference-made signature over M' with the label as context")
		if len(prefix) > 0 {
			judge(body, m, "prefix removed")
			bp := bytes.Clone(s)
			bp[4] ^= 1
			judge(bp, m, "prefix altered")
		}
	}
	// DER-encoded classical components of every legal LENGTH: valid ECDSA signatures (chosen nonce) whose r, whose s,
	// or both are integers at least one byte shorter than the field size; a verifier must take the classical component
	// as "the rest", whatever its length.
	if cl.curve != nil {
		for _, sd := range shortDERFor(pr, cl, k) {
			if !cl.stdVerify(messagePrime(pr.label, sd.msg), sd.ecdsa) {
				continue // the crafted component is not a valid ECDSA signature: harness problem, nothing to judge
			}
			judge(bytes.Join([][]byte{prefix, sd.mldsa, sd.ecdsa}, nil), sd.msg, fmt.Sprintf("valid classical component with a short DER encoding (%s, %d bytes)", sd.shape, len(sd.ecdsa)))
			t := bytes.Join([][]byte{prefix, sd.mldsa, sd.ecdsa}, nil)
			t[len(t)-1] ^= 1
			judge(t, sd.msg, fmt.Sprintf("short DER classical component (%s) with its last bit flipped", sd.shape))
		}
	}
}

type shortDER struct {
	shape string
	msg   []byte
	mldsa []byte
	ecdsa []byte
}

var shortDERCache sync.Map

// shortDERFor crafts, per pairing, composite components for messages m_j such that the ECDSA signature over M'(m_j)
// made with a searched nonce has a short r, a short s, or both (bit length <= 8*(size-1)-1; for P-521 <= 8*(size-2)-1,
// whose top byte holds one bit only). Deterministic: nonces 1,2,3,... and messages "short-der-<j>".
func shortDERFor(pr pairing, cl *classical, k *kp) []shortDER {
	if v, ok := shortDERCache.Load(pr.name); ok {
		return v.([]shortDER)
	}
	cp := cl.curve.Params()
	n := cp.N
	size := (cp.BitSize + 7) / 8
	target := 8*(size-1) - 1
	if cp.BitSize%8 != 0 {
		target = 8*(size-2) - 1
	}
	hashOf := func(m []byte) *big.Int {
		hh := cl.hf.New()
		hh.Write(messagePrime(pr.label, m))
		z := new(big.Int).SetBytes(hh.Sum(nil))
		if ex := 8*cl.hf.Size() - n.BitLen(); ex > 0 {
			z.Rsh(z, uint(ex))
		}
		return z
	}
	sign := func(kk, r *big.Int, m []byte) *big.Int {
		sv := new(big.Int).Mul(r, cl.d)
		sv.Add(sv, hashOf(m))
		sv.Mul(sv, new(big.Int).ModInverse(kk, n))
		return sv.Mod(sv, n)
	}
	der := func(r, sv *big.Int) []byte {
		enc := func(v *big.Int) []byte {
			b := v.Bytes()
			if len(b) == 0 || b[0]&0x80 != 0 {
				b = append([]byte{0}, b...)
			}
			return append([]byte{2, byte(len(b))}, b...)
		}
		body := append(enc(r), enc(sv)...)
		if len(body) < 128 {
			return append([]byte{0x30, byte(len(body))}, body...)
		}
		return append([]byte{0x30, 0x81, byte(len(body))}, body...)
	}
	var shortK, longK, shortR, longR *big.Int
	for i := int64(2); i < 200000 && (shortK == nil || longK == nil); i++ {
		kk := big.NewInt(i)
		xx, _ := cl.curve.ScalarBaseMult(kk.Bytes())
		r := new(big.Int).Mod(xx, n)
		if r.Sign() == 0 {
			continue
		}
		if r.BitLen() <= target && shortK == nil {
			shortK, shortR = kk, r
		}
		if r.BitLen() == cp.BitSize && longK == nil {
			longK, longR = kk, r
		}
	}
	var out []shortDER
	if shortK != nil && longK != nil {
		for _, sh := range []struct {
			name   string
			kk, r  *big.Int
			shortS bool
		}{{"r short", shortK, shortR, false}, {"s short", longK, longR, true}, {"r and s short", shortK, shortR, true}} {
			for j := 0; j < 200000; j++ {
				m := []byte(fmt.Sprintf("short-der-%s-%d", sh.name, j))
				sv := sign(sh.kk, sh.r, m)
				if sv.Sign() == 0 || (sv.BitLen() <= target) != sh.shortS {
					continue
				}
				ml, err := mldsaref.SignDeterministic(k.std, messagePrime(pr.label, m), pr.label)
				if err != nil {
					break
				}
				out = append(out, shortDER{shape: sh.name, msg: m, mldsa: ml, ecdsa: der(sh.r, sv)})
				break
			}
		}
	}
	v, _ := shortDERCache.LoadOrStore(pr.name, out)
	return v.([]shortDER)
}
