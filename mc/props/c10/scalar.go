package main

// Scalar arithmetic of internal/signature/mldsa/algebra.go, exhaustively over Z_q, against
// the `%`-formulas of FIPS 204 in verif/ref (signed representatives mapped to [0,q)).

import (
	"fmt"
	"sort"

	"github.com/tink-crypto/tink-go/v2/verifbridge/mldsab"
	"verif/h"
	"verif/ref"
)

const q = ref.MldsaQ

var gamma2s = []uint32{(q - 1) / 88, (q - 1) / 32}

func modq(x int64) uint32 { return uint32(ref.MldsaMod(x, q)) }

// span returns the c-th of n nearly equal pieces of [0,total).
func span(c, n int, total uint32) (lo, hi uint32) {
	lo = uint32(uint64(total) * uint64(c) / uint64(n))
	hi = uint32(uint64(total) * uint64(c+1) / uint64(n))
	return
}

func uniq(v []uint32) []uint32 {
	sort.Slice(v, func(i, j int) bool { return v[i] < v[j] })
	out := v[:0]
	for i, e := range v {
		if i == 0 || e != v[i-1] {
			out = append(out, e)
		}
	}
	return out
}

// boundaryB: the second operands for add/sub/centeredMax: every constant the scheme branches on.
func boundaryB() []uint32 {
	var v []uint32
	add := func(xs ...int64) {
		for _, x := range xs {
			for _, d := range []int64{-1, 0, 1} {
				v = append(v, modq(x+d))
				v = append(v, modq(-(x + d)))
			}
		}
	}
	add(0, 1, (q-1)/2, 1<<12, 1<<13, 1<<17, 1<<19, 1<<22, (q-1)/88, (q-1)/32, 2*((q-1)/88), 2*((q-1)/32), 78, 120, 196,
		(1<<17)-78, (1<<19)-196, (1<<19)-120, (q-1)/88-78, (q-1)/32-196, (q-1)/32-120)
	z := mldsab.Zetas()
	v = append(v, z[1], z[128], z[255], mldsab.Inv256)
	return uniq(v)
}

// mulB: the fixed operands of mul. Every multiplication ntt/intt/inv256-scaling performs has one
// operand from {zetas, -zetas, inv256}.
func mulB(thorough bool) []uint32 {
	var v []uint32
	z := mldsab.Zetas()
	for k := 0; k < 256; k++ {
		v = append(v, uint32(ref.MldsaZetaBrv(k))) // reference table (tink's table itself is checked in ntt-table)
		if thorough {
			v = append(v, modq(-ref.MldsaZetaBrv(k)))
		}
	}
	v = append(v, z[:]...)
	v = append(v, 0, 1, 2, 3, q-1, q-2, q-3, (q-1)/2, (q+1)/2, (q-1)/2-1, (q+1)/2+1, mldsab.Inv256, q-mldsab.Inv256,
		1<<22, 1<<22+1, 1<<22-1, 1<<13, 1<<20, 1<<21, 4190209, 8380416, 8372225, 5, 4099, 65537, 1<<16, 1<<16-1)
	if thorough {
		for k := uint(0); k < 23; k++ {
			v = append(v, 1<<k, modq(-(1 << k)), modq(1<<k+1), modq(1<<k-1))
		}
		for i := uint32(0); i < 24; i++ {
			v = append(v, q-1-i*349183) // spread over the field
		}
		for i := uint32(0); i < 1024; i++ {
			v = append(v, i, q-1-i) // every t1 coefficient, small |b|
		}
	}
	return uniq(v)
}

var mulBCache = map[bool][]uint32{}

func init() {
	if !h.Seams() { // mulB reads tink's zeta table through the export shim; only the (skipped) seam sections use it
		return
	}
	mulBCache[false] = mulB(false)
	mulBCache[true] = mulB(true)
}

func sectionReduceAddSub(x *h.X) {
	const chunks = 32
	c := x.Choose("chunk", chunks)
	lo, hi := span(c, chunks, 2*q)
	bs := boundaryB()
	x.NonTrivial()
	x.Outcome("checked")
	okR, okA, okS, okM, okN := true, true, true, true, true
	for a := lo; a < hi; a++ {
		if got := mldsab.ReduceOnce(a); got != a%q && okR {
			x.Fail("reduceOnce", "reduceOnce(%d)=%d want %d", a, got, a%q)
			okR = false
		}
		if a >= q {
			continue
		}
		ai := int64(a)
		if got := mldsab.Neg(a); got != modq(-ai) && okN {
			x.Fail("neg", "neg(%d)=%d want %d", a, got, modq(-ai))
			okN = false
		}
		if got, want := mldsab.CenteredAbs(a), uint32(ref.MldsaAbsQ(ai)); got != want && okN {
			x.Fail("centeredAbs", "centeredAbs(%d)=%d want |%d mod± q|=%d", a, got, a, want)
			okN = false
		}
		if a < 1024 {
			if got, want := mldsab.ScalePower2(a), modq(ai<<ref.MldsaD); got != want {
				x.Fail("scalePower2", "scalePower2(%d)=%d want %d", a, got, want)
			}
		}
		for _, b := range bs {
			bi := int64(b)
			if got := mldsab.Add(a, b); got != modq(ai+bi) && okA {
				x.Fail("add", "add(%d,%d)=%d want %d", a, b, got, modq(ai+bi))
				okA = false
			}
			if got := mldsab.Sub(a, b); got != modq(ai-bi) && okS {
				x.Fail("sub", "sub(%d,%d)=%d want %d", a, b, got, modq(ai-bi))
				okS = false
			}
			// centeredMax is only used to fold the infinity norm: the result must be one of the
			// operands and have the larger centered absolute value (which one on ties: don't care).
			m := mldsab.CenteredMax(a, b)
			wa, wb := ref.MldsaAbsQ(ai), ref.MldsaAbsQ(bi)
			if (m != a && m != b || ref.MldsaAbsQ(int64(m)) != max(wa, wb)) && okM {
				x.Fail("centeredMax", "centeredMax(%d,%d)=%d: |.|=%d want max(%d,%d)", a, b, m, ref.MldsaAbsQ(int64(m)), wa, wb)
				okM = false
			}
		}
	}
	x.Eval(int(hi-lo) * (3 + 3*len(bs)))
}

func sectionMul(x *h.X) {
	bs := mulBCache[x.Thorough()]
	bi := x.Choose("b", len(bs))
	b := bs[bi]
	x.Label(fmt.Sprint(b))
	x.NonTrivial()
	x.Outcome("checked")
	bb := uint64(b)
	for a := uint32(0); a < q; a++ {
		if got, want := mldsab.Mul(a, b), uint32(uint64(a)*bb%q); got != want {
			x.Fail("mul", "mul(%d,%d)=%d want %d", a, b, got, want)
			break
		}
	}
	// symmetric use (b as the receiver) on a thinner sweep
	for a := uint32(0); a < q; a += 257 {
		if got, want := mldsab.Mul(b, a), uint32(uint64(a)*bb%q); got != want {
			x.Fail("mul", "mul(%d,%d)=%d want %d", b, a, got, want)
			break
		}
	}
	// products congruent to 0, ±1, ±2, ±3 (quotient estimate exactly at a multiple of q)
	if b != 0 {
		inv := ref.MldsaPowMod(int64(b), q-2, q)
		for s := int64(-3); s <= 3; s++ {
			a := modq(s * inv)
			if got := mldsab.Mul(a, b); got != modq(s) {
				x.Fail("mul", "mul(%d,%d)=%d want %d (product ≡ %d mod q)", a, b, got, modq(s), s)
			}
		}
	}
	x.Eval(q + q/257 + 7)
}

// sectionMulWindows: products next to multiples of 2^32 (carry paths of the split Barrett product).
func sectionMulWindows(x *h.X) {
	i := uint32(x.Choose("i", 127)) + 1
	x.NonTrivial()
	x.Outcome("checked")
	n := 0
	for j := uint32(1); j <= 127; j++ {
		for d := int64(-3); d <= 3; d++ {
			for e := int64(-3); e <= 3; e++ {
				a, b := uint32(int64(i<<16)+d), uint32(int64(j<<16)+e)
				if a >= q || b >= q {
					continue
				}
				n++
				if got, want := mldsab.Mul(a, b), uint32(uint64(a)*uint64(b)%q); got != want {
					x.Fail("mul", "mul(%d,%d)=%d want %d", a, b, got, want)
					return
				}
			}
		}
	}
	x.Eval(n)
}

// makeHintZ: the z operands of makeHint(z, r): every r in Z_q is combined with these.
func makeHintZ(g2 int64) []uint32 {
	var v []uint32
	for _, z := range []int64{0, 1, 2, g2 - 1, g2, g2 + 1, 2 * g2, 2*g2 - 1, 78, 120, 196, g2 - 78, g2 - 196, 4095, 4096, 1 << 17, 1 << 19} {
		v = append(v, modq(z), modq(-z))
	}
	return uniq(v)
}

func sectionRounding(x *h.X) {
	const chunks = 64
	c := x.Choose("chunk", chunks)
	lo, hi := span(c, chunks, q)
	x.NonTrivial()
	x.Outcome("checked")
	bad := map[string]bool{}
	fail := func(key, f string, a ...any) {
		if !bad[key] {
			bad[key] = true
			x.Fail(key, f, a...)
		}
	}
	zs := [][]uint32{makeHintZ(int64(gamma2s[0])), makeHintZ(int64(gamma2s[1]))}
	evals := 0
	for a := lo; a < hi; a++ {
		ai := int64(a)
		w1, w0 := ref.MldsaPower2Round(ai)
		if r1, r0 := mldsab.Power2Round(a); int64(r1) != w1 || r0 != modq(w0) {
			fail("power2Round", "power2Round(%d)=(%d,%d) want (%d,%d [=%d mod q])", a, r1, r0, w1, w0, modq(w0))
		}
		for gi, g2 := range gamma2s {
			g := int64(g2)
			d1, d0 := ref.MldsaDecompose(ai, g)
			if r1, r0 := mldsab.Decompose(a, g2); int64(r1) != d1 || r0 != modq(d0) {
				fail("decompose", "decompose(%d, gamma2=%d)=(%d,%d) want (%d,%d [=%d mod q])", a, g2, r1, r0, d1, d0, modq(d0))
			}
			if r1 := mldsab.HighBits(a, g2); int64(r1) != d1 {
				fail("highBits", "highBits(%d, gamma2=%d)=%d want %d", a, g2, r1, d1)
			}
			if r0 := mldsab.LowBits(a, g2); r0 != modq(d0) {
				fail("lowBits", "lowBits(%d, gamma2=%d)=%d want %d", a, g2, r0, modq(d0))
			}
			for hb := int64(0); hb <= 1; hb++ {
				if got, want := mldsab.UseHint(a, g2, uint32(hb)), ref.MldsaUseHint(hb, ai, g); int64(got) != want {
					fail("useHint", "useHint(r=%d, gamma2=%d, h=%d)=%d want %d", a, g2, hb, got, want)
				}
			}
			for _, z := range zs[gi] {
				if got, want := mldsab.MakeHint(z, g2, a), ref.MldsaMakeHint(int64(z), ai, g); int64(got) != want {
					fail("makeHint", "makeHint(z=%d, gamma2=%d, r=%d)=%d want %d", z, g2, a, got, want)
				}
			}
			evals += 5 + len(zs[gi])
		}
	}
	// divBy2Gamma2 on every argument decompose can hand it: [0, q+gamma2-1)
	for _, g2 := range gamma2s {
		l2, h2 := span(c, chunks, q+g2)
		for a := l2; a < h2; a++ {
			if got, want := mldsab.DivBy2Gamma2(a, g2), a/(2*g2); got != want {
				fail("divBy2Gamma2", "divBy2Gamma2(%d, %d)=%d want %d", a, g2, got, want)
			}
		}
		evals += int(h2 - l2)
	}
	x.Eval(evals + int(hi-lo))
}

func sectionHalfByte(x *h.X) {
	inst := h.Pick(x, "set", insts)
	p, par := ref.MldsaSet(inst), mldsab.Par(inst)
	x.NonTrivial()
	for b := 0; b < 16; b++ {
		got, ok := mldsab.CoeffFromHalfByte(par, byte(b))
		want, wok := ref.MldsaCoeffFromHalfByte(p.Eta, byte(b))
		x.Eval(1)
		if ok != wok || (ok && got != modq(want)) {
			x.Fail("coeffFromHalfByte", "%s coeffFromHalfByte(%d)=(%d,%v) want (%d,%v)", p.Name, b, got, ok, modq(want), wok)
		}
		x.Outcome(fmt.Sprintf("accept=%v", wok))
	}
}
