package main

// Polynomial level: NTT / inverse NTT, bit packing, hint packing, sampling.

import (
	"bytes"
	"fmt"

	"github.com/tink-crypto/tink-go/v2/verifbridge/mldsab"
	"verif/h"
	"verif/ref"
)

func toRef(p *mldsab.Poly) (r ref.MldsaPoly) {
	for i := range p {
		r[i] = int64(p[i])
	}
	return
}

func fromRef(p *ref.MldsaPoly) (r mldsab.Poly) {
	for i := range p {
		r[i] = modq(p[i])
	}
	return
}

func fromRefVec(v []ref.MldsaPoly) []mldsab.Poly {
	o := make([]mldsab.Poly, len(v))
	for i := range v {
		o[i] = fromRef(&v[i])
	}
	return o
}

func polyDiff(a, b *mldsab.Poly) int {
	for i := range a {
		if a[i] != b[i] {
			return i
		}
	}
	return -1
}

// densePoly returns a deterministic polynomial with coefficients spread over [0,q).
func densePoly(kind int) (p mldsab.Poly) {
	kb := ref.KeyBytes(fmt.Sprintf("c10-dense-%d", kind), 4*256)
	for i := range p {
		switch kind {
		case 0:
			p[i] = q - 1
		case 1:
			p[i] = (q - 1) / 2
		case 2:
			p[i] = uint32(i) * 32737 % q
		case 3:
			p[i] = q - 1 - uint32(i)
		default:
			p[i] = (uint32(kb[4*i]) | uint32(kb[4*i+1])<<8 | uint32(kb[4*i+2])<<16 | uint32(kb[4*i+3])<<24) % q
		}
	}
	return
}

func sectionNTTTable(x *h.X) {
	x.NonTrivial()
	z := mldsab.Zetas()
	for k := 1; k < 256; k++ {
		x.Eval(1)
		if int64(z[k]) != ref.MldsaZetaBrv(k) {
			x.Fail("zetas", "zetas[%d]=%d want 1753^brv8(%d) mod q = %d", k, z[k], k, ref.MldsaZetaBrv(k))
		}
	}
	// zetas[0] is never read by ntt/intt (m runs 1..255): don't care.
	if (uint64(mldsab.Inv256)*256)%q != 1 {
		x.Fail("inv256", "inv256=%d is not 256^-1 mod q", mldsab.Inv256)
	}
	x.Outcome("checked")
}

func sectionNTT(x *h.X) {
	ndense := 12
	if x.Thorough() {
		ndense = 64
	}
	scal := []uint32{1, q - 1, (q - 1) / 2}
	n := 256*len(scal) + ndense
	i := x.Choose("input", n)
	var p mldsab.Poly
	if i < 256*len(scal) {
		p[i%256] = scal[i/256]
		x.Label(fmt.Sprintf("%d*X^%d", scal[i/256], i%256))
		x.Outcome("unit")
	} else {
		p = densePoly(i - 256*len(scal))
		x.Label(fmt.Sprintf("dense%d", i-256*len(scal)))
		x.Outcome("dense")
	}
	x.NonTrivial()
	rp := toRef(&p)
	want := ref.MldsaNTTDirect(&rp)
	got := mldsab.NTT(&p)
	w := fromRef(&want)
	if d := polyDiff(&got, &w); d >= 0 {
		x.Fail("ntt", "ntt(input %d)[%d]=%d want w(root_%d)=%d", i, d, got[d], d, w[d])
	}
	back := mldsab.INTT(&got)
	if d := polyDiff(&back, &p); d >= 0 {
		x.Fail("intt-roundtrip", "intt(ntt(p))[%d]=%d want %d (input %d)", d, back[d], p[d], i)
	}
	// intt on p itself: evaluating the result at the roots must give p back
	ip := mldsab.INTT(&p)
	rip := toRef(&ip)
	ev := ref.MldsaNTTDirect(&rip)
	evp := fromRef(&ev)
	if d := polyDiff(&evp, &p); d >= 0 {
		x.Fail("intt", "intt(input %d) evaluated at root %d gives %d want %d", i, d, evp[d], p[d])
	}
	// multiplication in the NTT domain equals the negacyclic product (p * dense partner)
	if i%16 == 0 || i >= 256*len(scal) {
		o := densePoly(4 + i%7)
		ro := toRef(&o)
		prod := ref.MldsaNegacyclicMul(&rp, &ro)
		a, b := mldsab.NTT(&p), mldsab.NTT(&o)
		m := mldsab.MulNTT(&a, &b)
		g := mldsab.INTT(&m)
		wp := fromRef(&prod)
		if d := polyDiff(&g, &wp); d >= 0 {
			x.Fail("ntt-mul", "intt(ntt(p)∘ntt(o))[%d]=%d want (p*o mod X^256+1)[%d]=%d (input %d)", d, g[d], d, wp[d], i)
		}
		x.Eval(1)
	}
	// infinity norm of the same input
	if got, want := mldsab.InfinityNorm(&p), ref.MldsaNorm(&rp); int64(got) != want {
		x.Fail("infinityNorm", "infinityNorm(input %d)=%d want %d", i, got, want)
	}
	x.Eval(4)
}

// packCase is one use of (Simple)BitPack in the scheme: signed range [-a, b] (a < 0 => SimpleBitPack with max b).
type packCase struct {
	name string
	a, b int64
}

var packCases = []packCase{
	{"t1 (simple, 10 bits)", -1, 1023},
	{"w1/44 (simple, 6 bits)", -1, 43},
	{"w1/65,87 (simple, 4 bits)", -1, 15},
	{"s/eta=2 (3 bits)", 2, 2},
	{"s/eta=4 (4 bits)", 4, 4},
	{"t0 (13 bits)", 4095, 4096},
	{"z/gamma1=2^17 (18 bits)", 1<<17 - 1, 1 << 17},
	{"z/gamma1=2^19 (20 bits)", 1<<19 - 1, 1 << 19},
}

func bitlen(v int64) int {
	n := 0
	for ; v > 0; v >>= 1 {
		n++
	}
	return n
}

// sectionPacking: every packed word value u in [0,2^bits) at every position class modulo the
// byte-alignment period (and therefore at positions 0 and 255), all 256 coefficients distinct.
func sectionPacking(x *h.X) {
	pc := h.Pick(x, "use", packCases)
	simple := pc.a < 0
	bits := bitlen(pc.b)
	if !simple {
		bits = bitlen(pc.a + pc.b)
	}
	period := 8
	for period > 1 && (bits*(period/2))%8 == 0 {
		period /= 2
	}
	nvals := 1 << bits
	blocks := (nvals + 255) / 256
	maxDomain := pc.b // largest u the spec allows Pack to see
	if !simple {
		maxDomain = pc.a + pc.b
	}
	shift := x.Choose("shift", period)
	x.NonTrivial()
	x.Outcome(fmt.Sprintf("bits=%d", bits))
	for t := 0; t < blocks+3; t++ {
		var u [256]int64 // packed words
		inDomain := true
		for i := range u {
			switch {
			case t < blocks:
				u[i] = int64((256*t + (i+shift)%256) % nvals)
			case t == blocks: // all maximal
				u[i] = maxDomain
			case t == blocks+1: // all zero
				u[i] = 0
			default: // alternating extremes
				u[i] = int64(i%2) * maxDomain
			}
			if u[i] > maxDomain {
				inDomain = false
			}
		}
		var coef mldsab.Poly // tink's Z_q representation of the coefficient
		var sref ref.MldsaPoly
		for i := range u {
			if simple {
				coef[i] = uint32(u[i])
				sref[i] = u[i]
			} else {
				coef[i] = modq(pc.b - u[i])
				sref[i] = pc.b - u[i]
			}
		}
		var enc []byte
		if simple {
			enc = ref.MldsaSimpleBitPack(&sref, pc.b)
		} else {
			enc = ref.MldsaBitPack(&sref, pc.a, pc.b)
		}
		if !inDomain {
			// outside the domain of Pack (only Unpack can meet such words): build the bytes from the words directly
			enc = packWords(u[:], bits)
		}
		if len(enc) != 32*bits {
			x.Fail("harness", "reference encoding has %d bytes", len(enc))
			return
		}
		if inDomain {
			var got, gotN []byte
			if simple {
				got, gotN = mldsab.SimpleBitPack(&coef, bits), mldsab.SimpleBitPackNTT(&coef, bits)
			} else {
				got, gotN = mldsab.BitPack(&coef, uint32(pc.b), bits), mldsab.BitPackNTT(&coef, uint32(pc.b), bits)
			}
			if !bytes.Equal(got, enc) {
				x.Fail("bitPack", "%s block %d shift %d: pack = %x… want %x…", pc.name, t, shift, firstDiff(got, enc), firstDiff(enc, got))
			}
			if !bytes.Equal(gotN, enc) {
				x.Fail("bitPackNTT", "%s block %d shift %d: polyNTT pack differs from reference", pc.name, t, shift)
			}
			x.Eval(2)
		}
		var dec, decN mldsab.Poly
		var wantDec ref.MldsaPoly
		if simple {
			dec, decN = mldsab.SimpleBitUnpack(enc, bits), mldsab.SimpleBitUnpackNTT(enc, bits)
			wantDec = ref.MldsaSimpleBitUnpack(enc, pc.b)
		} else {
			dec, decN = mldsab.BitUnpack(enc, uint32(pc.b), bits), mldsab.BitUnpackNTT(enc, uint32(pc.b), bits)
			wantDec = ref.MldsaBitUnpack(enc, pc.a, pc.b)
		}
		w := fromRef(&wantDec)
		if d := polyDiff(&dec, &w); d >= 0 {
			x.Fail("bitUnpack", "%s block %d shift %d: unpack[%d]=%d want %d", pc.name, t, shift, d, dec[d], w[d])
		}
		if d := polyDiff(&decN, &w); d >= 0 {
			x.Fail("bitUnpackNTT", "%s block %d shift %d: polyNTT unpack[%d]=%d want %d", pc.name, t, shift, d, decN[d], w[d])
		}
		x.Eval(2)
	}
}

func packWords(u []int64, bits int) []byte {
	out := make([]byte, len(u)*bits/8)
	pos := 0
	for _, w := range u {
		for j := 0; j < bits; j++ {
			if (w>>j)&1 == 1 {
				out[pos/8] |= 1 << (pos % 8)
			}
			pos++
		}
	}
	return out
}

func firstDiff(a, b []byte) []byte {
	for i := range a {
		if i >= len(b) || a[i] != b[i] {
			return a[i:min(len(a), i+8)]
		}
	}
	return nil
}

var hintPos = []int{0, 1, 2, 254, 255}

// subsets of hintPos with at most 3 elements
var hintSubsets = func() (out [][]int) {
	for m := 0; m < 32; m++ {
		var s []int
		for i, p := range hintPos {
			if m>>i&1 == 1 {
				s = append(s, p)
			}
		}
		if len(s) <= 3 {
			out = append(out, s)
		}
	}
	return
}()

// sectionHintPack: hint vectors -> bytes -> hint vectors.
func sectionHintPack(x *h.X) {
	inst := h.Pick(x, "set", insts)
	p, par := ref.MldsaSet(inst), mldsab.Par(inst)
	// polynomial pair (i<=j) carrying subsets; i==j: every polynomial carries subset s1 (s2 ignored)
	i := x.Choose("poly-i", p.K)
	j := x.Choose("poly-j", p.K)
	if j < i {
		return
	}
	x.NonTrivial()
	for a, s1 := range hintSubsets {
		for b, s2 := range hintSubsets {
			if i == j && b != 0 {
				continue
			}
			hv := make([]ref.MldsaPoly, p.K)
			for k := 0; k < p.K; k++ {
				if i == j || k == i {
					for _, pos := range s1 {
						hv[k][pos] = 1
					}
				} else if k == j {
					for _, pos := range s2 {
						hv[k][pos] = 1
					}
				}
			}
			total := 0
			for k := range hv {
				for _, c := range hv[k] {
					total += int(c)
				}
			}
			if total > p.Omega {
				continue
			}
			checkHintVector(x, p, par, hv, fmt.Sprintf("%s polys(%d,%d) subsets(%d,%d)", p.Name, i, j, a, b))
		}
	}
	if i == 0 && j == 0 {
		// full vectors: exactly omega ones in one polynomial / spread / omega-1
		for _, tot := range []int{p.Omega, p.Omega - 1, 1} {
			for k := 0; k < p.K; k++ {
				hv := make([]ref.MldsaPoly, p.K)
				for n := 0; n < tot; n++ {
					hv[k][255-3*n] = 1
				}
				checkHintVector(x, p, par, hv, fmt.Sprintf("%s %d ones in poly %d", p.Name, tot, k))
			}
			hv := make([]ref.MldsaPoly, p.K)
			for n := 0; n < tot; n++ {
				hv[n%p.K][(n*37)%256] = 1
			}
			checkHintVector(x, p, par, hv, fmt.Sprintf("%s %d ones spread", p.Name, tot))
		}
	}
}

func checkHintVector(x *h.X, p *ref.MldsaParams, par *mldsab.Params, hv []ref.MldsaPoly, what string) {
	want := ref.MldsaHintBitPack(p, hv)
	th := fromRefVec(hv)
	got := mldsab.HintBitPack(par, th)
	x.Eval(2)
	x.Outcome("pack")
	if !bytes.Equal(got, want) {
		x.Fail("hintBitPack", "%s: hintBitPack=%x want %x", what, got, want)
		return
	}
	dec, err := mldsab.HintBitUnpack(par, want)
	if err != nil {
		x.Fail("hintBitUnpack-valid", "%s: canonical encoding %x refused: %v", what, want, err)
		return
	}
	for k := range dec {
		if d := polyDiff(&dec[k], &th[k]); d >= 0 {
			x.Fail("hintBitUnpack-value", "%s: decoded h[%d][%d]=%d want %d", what, k, d, dec[k][d], th[k][d])
			return
		}
	}
}

// sectionHintDecode: encodings (well-formed and malformed) -> verdict and value equal the reference.
func sectionHintDecode(x *h.X) {
	inst := h.Pick(x, "set", insts)
	p, par := ref.MldsaSet(inst), mldsab.Par(inst)
	om := p.Omega
	cvals := []int{0, 1, 2, 3, 4, om - 1, om, om + 1, 255}
	idx := []byte{0, 1, 255, 2}
	nidx := 3
	if x.Thorough() {
		nidx = 4
	}
	c0 := h.Pick(x, "c[0]", cvals)
	c1 := h.Pick(x, "c[1]", cvals)
	tail := x.Choose("tail", 4) // 0: zero padding, 1: y[omega-1]=1, 2: y[3]=7, 3: y[4]=200 and y[5]=100
	x.NonTrivial()
	midOpts := 1
	if p.K > 4 {
		midOpts = 2
	}
	y := make([]byte, om+p.K)
	nWell, nMal := 0, 0
	defer func() { x.Eval(nWell + nMal) }()
	defer func() { x.OutcomeN("well-formed", nWell); x.OutcomeN("malformed", nMal) }()
	for _, ck2 := range cvals {
		for _, ck1 := range cvals {
			for mid := 0; mid < midOpts; mid++ {
				for s := 0; s < nidx*nidx*nidx; s++ {
					for i := range y {
						y[i] = 0
					}
					y[0], y[1], y[2] = idx[s%nidx], idx[s/nidx%nidx], idx[s/nidx/nidx]
					switch tail {
					case 1:
						y[om-1] = 1
					case 2:
						y[3] = 7
					case 3:
						y[4], y[5] = 200, 100
					}
					y[om], y[om+1] = byte(c0), byte(c1)
					y[om+p.K-2], y[om+p.K-1] = byte(ck2), byte(ck1)
					for m := 2; m < p.K-2; m++ {
						if mid == 0 {
							y[om+m] = byte(c1)
						} else {
							y[om+m] = byte(ck2)
						}
					}
					want, wok := ref.MldsaHintBitUnpack(p, y)
					var got []mldsab.Poly
					var err error
					if pan, msg := h.Try(func() { got, err = mldsab.HintBitUnpack(par, y) }); pan {
						x.Fail("hintBitUnpack-panic", "%s: hintBitUnpackVector(%x) panicked: %s", p.Name, y, msg)
						return
					}
					if (err == nil) != wok {
						x.Fail("hintBitUnpack-verdict", "%s: hintBitUnpackVector(%x…counters %x) accepted=%v, FIPS 204 Algorithm 21 accepted=%v", p.Name, y[:8], y[om:], err == nil, wok)
						return
					}
					if wok {
						nWell++
						w := fromRefVec(want)
						for k := range w {
							if d := polyDiff(&got[k], &w[k]); d >= 0 {
								x.Fail("hintBitUnpack-value", "%s: %x…%x decoded h[%d][%d]=%d want %d", p.Name, y[:8], y[om:], k, d, got[k][d], w[k][d])
								return
							}
						}
						// a well-formed encoding is the canonical one of its hint vector
						if !bytes.Equal(ref.MldsaHintBitPack(p, want), y) {
							x.Fail("harness", "reference accepted a non-canonical encoding %x", y)
						}
					} else {
						nMal++
					}
				}
			}
		}
	}
}

func sectionSampling(x *h.X) {
	inst := h.Pick(x, "set", insts)
	p, par := ref.MldsaSet(inst), mldsab.Par(inst)
	n := 24
	if x.Thorough() {
		n = 200
	}
	si := x.Choose("seed", n)
	x.NonTrivial()
	x.Outcome("checked")
	sd := ref.KeyBytes(fmt.Sprintf("c10-sample-%d", si), 66)
	switch si {
	case 0:
		sd = make([]byte, 66)
	case 1:
		sd = bytes.Repeat([]byte{0xff}, 66)
	}
	// SampleInBall
	ct := sd[:p.Lambda/4]
	c := mldsab.SampleInBall(par, ct)
	wc := ref.MldsaSampleInBall(p, ct)
	w := fromRef(&wc)
	if d := polyDiff(&c, &w); d >= 0 {
		x.Fail("sampleInBall", "%s sampleInBall(%x)[%d]=%d want %d", p.Name, ct, d, c[d], w[d])
	}
	nz := 0
	for _, v := range wc {
		if v != 0 {
			nz++
		}
	}
	if nz != p.Tau {
		x.Fail("harness", "reference SampleInBall weight %d != tau", nz)
	}
	// RejNTTPoly
	var r34 [34]byte
	copy(r34[:], sd)
	a := mldsab.RejectNTTPoly(r34)
	wa := ref.MldsaRejNTTPoly(r34[:])
	w = fromRef(&wa)
	if d := polyDiff(&a, &w); d >= 0 {
		x.Fail("rejectNTTPoly", "rejectNTTPoly(%x)[%d]=%d want %d", r34, d, a[d], w[d])
	}
	// RejBoundedPoly
	var r66 [66]byte
	copy(r66[:], sd)
	b := mldsab.RejectBoundedPoly(par, r66)
	wb := ref.MldsaRejBoundedPoly(p, r66[:])
	w = fromRef(&wb)
	if d := polyDiff(&b, &w); d >= 0 {
		x.Fail("rejectBoundedPoly", "%s rejectBoundedPoly(%x)[%d]=%d want %d", p.Name, r66, d, b[d], w[d])
	}
	// ExpandMask incl. counters crossing the byte boundary
	var r64 [64]byte
	copy(r64[:], sd)
	for _, mu := range []int{0, p.L, 250, 255, 256, 65535 - p.L + 1 - 7} {
		y := mldsab.ExpandMask(par, r64, mu)
		wy := ref.MldsaExpandMask(p, r64[:], mu)
		for k := range wy {
			w = fromRef(&wy[k])
			if d := polyDiff(&y[k], &w); d >= 0 {
				x.Fail("expandMask", "%s expandMask(mu=%d)[%d][%d]=%d want %d", p.Name, mu, k, d, y[k][d], w[d])
				break
			}
		}
	}
	x.Eval(3 + 6)
}
