package main

// Scheme level: key generation, deterministic / hedged signing, verification on valid, mutated,
// malformed and crafted boundary signatures. Oracles: Go stdlib FIPS 204 implementation
// (crypto/mldsaref shim) and the own FIPS 204 model in verif/ref; the two must also agree with
// each other ("harness-oracles-disagree" otherwise).

import (
	"bytes"
	"fmt"
	"sync"

	"crypto/mldsaref"

	"github.com/tink-crypto/tink-go/v2/verifbridge/mldsab"
	"verif/h"
	"verif/ref"
	"verif/tape"
)

var insts = []int{44, 65, 87}

func seedBytes(si int) []byte {
	switch si {
	case 0:
		return make([]byte, 32)
	case 1:
		return bytes.Repeat([]byte{0xff}, 32)
	case 2:
		return ref.Pattern(2, 32)
	}
	return ref.KeyBytes(fmt.Sprintf("c10-seed-%d", si), 32)
}

// kp is one key pair in all three implementations.
type kp struct {
	inst int
	p    *ref.MldsaParams
	par  mldsab.API // exported method set of the parameter set (API level: works without the export shim)
	seed []byte
	pk   []byte // pkEncode per stdlib
	sk   []byte // skEncode per stdlib
	std  *mldsaref.PrivateKey
	tpk  *mldsab.PublicKey
	tsk  *mldsab.SecretKey
}

var kpCache sync.Map

func getKP(inst, si int) *kp {
	key := [2]int{inst, si}
	if v, ok := kpCache.Load(key); ok {
		return v.(*kp)
	}
	k := &kp{inst: inst, p: ref.MldsaSet(inst), par: mldsab.APIOf(inst), seed: seedBytes(si)}
	var err error
	k.std, err = mldsaref.NewPrivateKey(inst, k.seed)
	if err != nil {
		panic(err)
	}
	k.pk, k.sk = mldsaref.PublicBytes(k.std), mldsaref.ExpandedBytes(k.std)
	var sd [32]byte
	copy(sd[:], k.seed)
	k.tpk, k.tsk = k.par.KeyGenFromSeed(sd)
	v, _ := kpCache.LoadOrStore(key, k)
	return v.(*kp)
}

func (k *kp) String() string { return k.p.Name }

// verdicts evaluates one (message, signature, context) in the three implementations.
// Returns tink's, the stdlib's and the model's verdicts (true = accepted).
func (k *kp) verdicts(x *h.X, msg, sig, ctx []byte, what string) (vt, vs, vr bool) {
	var terr error
	if pan, pmsg := h.Try(func() { terr = k.tpk.Verify(msg, sig, ctx) }); pan {
		x.Fail("verify-panic", "%s %s: Verify panicked: %s", k, what, pmsg)
		terr = fmt.Errorf("panic")
	}
	vt = terr == nil
	vs = mldsaref.Verify(k.std.PublicKey(), msg, sig, string(ctx)) == nil
	vr = ref.MldsaVerify(k.p, k.pk, msg, sig, ctx)
	x.Eval(1)
	if vs != vr {
		x.Fail("harness-oracles-disagree", "%s %s: stdlib verdict %v, FIPS 204 model verdict %v (sig %s)", k, what, vs, vr, hexs(sig))
	}
	return
}

// sameVerdict requires tink == stdlib (== model).
func (k *kp) sameVerdict(x *h.X, key string, msg, sig, ctx []byte, what string) bool {
	vt, vs, _ := k.verdicts(x, msg, sig, ctx, what)
	if vt != vs {
		x.Fail(key, "%s %s: tink Verify accepted=%v but the FIPS 204 reference accepted=%v (msg %d bytes, ctx %d bytes, sig %s)", k, what, vt, vs, len(msg), len(ctx), hexs(sig))
		return false
	}
	if vs {
		x.Outcome("verdict=accept")
	} else {
		x.Outcome("verdict=reject")
	}
	return true
}

func hexs(b []byte) string {
	if len(b) > 40 {
		return fmt.Sprintf("%x…(%d bytes)", b[:40], len(b))
	}
	return fmt.Sprintf("%x", b)
}

func nseeds(x *h.X) int {
	if x.Thorough() {
		return 3 + 32
	}
	return 3 + 8
}

func sectionKeygen(x *h.X) {
	inst := h.Pick(x, "set", insts)
	si := x.Choose("seed", nseeds(x))
	k := getKP(inst, si)
	x.NonTrivial()
	x.Outcome(k.p.Name)
	var sd [32]byte
	copy(sd[:], k.seed)
	tpk, tsk := k.par.KeyGenFromSeed(sd)
	pkR, skR := ref.MldsaKeyGen(k.p, k.seed)
	if !bytes.Equal(pkR, k.pk) || !bytes.Equal(skR, k.sk) {
		x.Fail("harness-oracles-disagree", "%s seed %x: stdlib and model keys differ", k, k.seed)
	}
	if len(k.pk) != k.par.PublicKeyLength() || len(k.sk) != k.par.SecretKeyLength() {
		x.Fail("key-length", "%s: PublicKeyLength/SecretKeyLength = %d/%d want %d/%d", k, k.par.PublicKeyLength(), k.par.SecretKeyLength(), len(k.pk), len(k.sk))
	}
	if got := tpk.Encode(); !bytes.Equal(got, k.pk) {
		x.Fail("keygen-public", "%s seed %x: public key differs from FIPS 204 at byte %d: %s want %s", k, k.seed, diffAt(got, k.pk), hexs(got), hexs(k.pk))
	}
	if got := tsk.Encode(); !bytes.Equal(got, k.sk) {
		x.Fail("keygen-private", "%s seed %x: private key encoding differs from FIPS 204 at byte %d (rho|K|tr|s1|s2|t0)", k, k.seed, diffAt(got, k.sk))
	}
	if s := tsk.Seed(); s == nil || !bytes.Equal(s[:], k.seed) {
		x.Fail("keygen-seed", "%s: SecretKey.Seed() does not return the seed", k)
	}
	tr := tpk.TR()
	if !bytes.Equal(tr[:], ref.MldsaTr(k.pk)) {
		x.Fail("keygen-tr", "%s seed %x: cached tr differs from H(pk,64)", k, k.seed)
	}
	// decode / re-encode of the reference encodings
	dpk, err := k.par.DecodePublicKey(k.pk)
	if err != nil {
		x.Fail("decode-public", "%s: DecodePublicKey(valid): %v", k, err)
	} else {
		if !bytes.Equal(dpk.Encode(), k.pk) {
			x.Fail("decode-public", "%s: DecodePublicKey/Encode round trip differs", k)
		}
		dtr := dpk.TR()
		if !bytes.Equal(dtr[:], ref.MldsaTr(k.pk)) {
			x.Fail("keygen-tr", "%s: DecodePublicKey tr differs from H(pk,64)", k)
		}
	}
	dsk, err := k.par.DecodeSecretKey(k.sk)
	if err != nil {
		x.Fail("decode-private", "%s: DecodeSecretKey(valid): %v", k, err)
	} else if !bytes.Equal(dsk.Encode(), k.sk) {
		x.Fail("decode-private", "%s: DecodeSecretKey/Encode round trip differs at byte %d", k, diffAt(dsk.Encode(), k.sk))
	}
	for _, d := range []int{-1, 1} {
		bad := append(bytes.Clone(k.pk), 0)[:len(k.pk)+d]
		if _, err := k.par.DecodePublicKey(bad); err == nil {
			x.Fail("decode-length", "%s: DecodePublicKey accepted %d bytes", k, len(bad))
		}
		bad = append(bytes.Clone(k.sk), 0)[:len(k.sk)+d]
		if _, err := k.par.DecodeSecretKey(bad); err == nil {
			x.Fail("decode-length", "%s: DecodeSecretKey accepted %d bytes", k, len(bad))
		}
	}
	x.Eval(8)
}

func diffAt(a, b []byte) int {
	for i := range a {
		if i >= len(b) || a[i] != b[i] {
			return i
		}
	}
	if len(a) != len(b) {
		return len(a)
	}
	return -1
}

var msgLens = []int{0, 1, 2, 3, 4, 5, 6, 7, 8, 9, 10, 11, 12, 13, 14, 15, 16, 17, 135, 136, 137, 1000}
var ctxLens = []int{0, 1, 255}

func ctxBytes(n int) []byte {
	if n == 0 {
		return nil
	}
	return ref.KeyBytes("c10-ctx", n)
}

func sectionSignDet(x *h.X) {
	inst := h.Pick(x, "set", insts)
	seeds := []int{0, 3}
	if x.Thorough() {
		seeds = []int{0, 1, 2, 3, 4, 5}
	}
	si := h.Pick(x, "seed", seeds)
	cl := h.Pick(x, "ctxlen", ctxLens)
	ml := h.Pick(x, "msglen", msgLens)
	k := getKP(inst, si)
	ctx := ctxBytes(cl)
	msg := ref.Pattern(3, ml)
	what := fmt.Sprintf("seed#%d msglen=%d ctxlen=%d", si, ml, cl)
	x.NonTrivial()
	sigS, err := mldsaref.SignDeterministic(k.std, msg, string(ctx))
	if err != nil {
		x.Fail("harness", "stdlib SignDeterministic: %v", err)
		return
	}
	if sigR := ref.MldsaSign(k.p, k.sk, msg, ctx, make([]byte, 32)); !bytes.Equal(sigR, sigS) {
		x.Fail("harness-oracles-disagree", "%s %s: stdlib and model deterministic signatures differ", k, what)
	}
	sigT, err := k.tsk.SignDeterministic(msg, ctx)
	x.Eval(1)
	if err != nil {
		x.Fail("sign-error", "%s %s: SignDeterministic: %v", k, what, err)
		return
	}
	if !bytes.Equal(sigT, sigS) {
		x.Fail("det-signature", "%s %s: deterministic signature differs from FIPS 204 at byte %d of %d (c~ %d | z | h %d): %s want %s", k, what, diffAt(sigT, sigS), len(sigS), k.p.Lambda/4, k.p.Omega+k.p.K, hexs(sigT), hexs(sigS))
	}
	x.Outcome(fmt.Sprintf("hints=%d%%16", int(sigS[len(sigS)-1])/16*16))
	// the key object the public signer uses (decoded from the expanded encoding)
	if dsk, err := k.par.DecodeSecretKey(k.sk); err == nil {
		s2, err := dsk.SignDeterministic(msg, ctx)
		if err != nil || !bytes.Equal(s2, sigS) {
			x.Fail("det-signature-decoded-key", "%s %s: signature by DecodeSecretKey(skEncode) key differs from FIPS 204 (err=%v)", k, what, err)
		}
	}
	// external-mu entry points
	var mu [64]byte
	copy(mu[:], ref.MldsaMu(ref.MldsaTr(k.pk), msg, ctx))
	if s3 := k.tsk.SignDeterministicWithMu(mu); !bytes.Equal(s3, sigS) {
		x.Fail("det-signature-mu", "%s %s: SignDeterministicWithMu(H(tr||M')) differs from the ordinary deterministic signature per FIPS 204", k, what)
	}
	if err := k.tpk.VerifyWithMu(mu, sigS); err != nil {
		x.Fail("verify-valid", "%s %s: VerifyWithMu rejects the valid signature: %v", k, what, err)
	}
	// every produced signature verifies everywhere
	for _, s := range [][]byte{sigT, sigS} {
		vt, vs, _ := k.verdicts(x, msg, s, ctx, what)
		if !vs {
			if bytes.Equal(s, sigS) {
				x.Fail("harness", "stdlib rejects its own signature")
			} else {
				x.Fail("produced-signature-invalid", "%s %s: signature produced by tink is rejected by the FIPS 204 reference", k, what)
			}
		}
		if vs && !vt {
			x.Fail("verify-valid", "%s %s: tink rejects a valid signature %s", k, what, hexs(s))
		}
	}
	if dpk, err := k.par.DecodePublicKey(k.pk); err == nil {
		if err := dpk.Verify(msg, sigS, ctx); err != nil {
			x.Fail("verify-valid", "%s %s: verifier from DecodePublicKey rejects the valid signature: %v", k, what, err)
		}
	}
	// the same signature for other (message, context, key)
	k.sameVerdict(x, "verify-verdict", append(bytes.Clone(msg), 0), sigS, ctx, what+" msg||00")
	if ml > 0 {
		k.sameVerdict(x, "verify-verdict", msg[:ml-1], sigS, ctx, what+" msg truncated")
		m2 := bytes.Clone(msg)
		m2[ml/2] ^= 0x20
		k.sameVerdict(x, "verify-verdict", m2, sigS, ctx, what+" msg bit flipped")
	}
	if cl < 255 {
		k.sameVerdict(x, "verify-verdict", msg, sigS, append(bytes.Clone(ctx), 0), what+" ctx||00")
	}
	if cl > 0 {
		k.sameVerdict(x, "verify-verdict", msg, sigS, ctx[:cl-1], what+" ctx truncated")
		// context bytes moved into the message (domain separation of |ctx|)
		k.sameVerdict(x, "verify-verdict", append(bytes.Clone(ctx[cl-1:]), msg...), sigS, ctx[:cl-1], what+" last ctx byte moved to msg")
	}
	other := getKP(inst, 1)
	if si != 1 {
		other.sameVerdict(x, "verify-verdict", msg, sigS, ctx, what+" under another key")
	}
}

func sectionCtxTooLong(x *h.X) {
	inst := h.Pick(x, "set", insts)
	k := getKP(inst, 3)
	x.NonTrivial()
	msg := []byte("msg")
	for _, n := range []int{256, 257, 511, 512} {
		ctx := ref.KeyBytes("c10-ctx", n)
		if _, err := mldsaref.SignDeterministic(k.std, msg, string(ctx)); err == nil {
			x.Fail("harness", "stdlib signs with a %d byte context", n)
		}
		if s, err := k.tsk.SignDeterministic(msg, ctx); err == nil {
			x.Fail("ctx-too-long", "%s: SignDeterministic accepted a %d byte context (sig %s)", k, n, hexs(s))
		}
		if s, err := k.tsk.Sign(msg, ctx); err == nil {
			x.Fail("ctx-too-long", "%s: Sign accepted a %d byte context (sig %s)", k, n, hexs(s))
		}
		// a signature valid for the context truncated to len mod 256 must not verify under the long context
		short := ctx[:n%256]
		sig, _ := mldsaref.SignDeterministic(k.std, msg, string(short))
		sig2, _ := mldsaref.SignDeterministic(k.std, append(bytes.Clone(ctx[n%256:]), msg...), string(short))
		for _, s := range [][]byte{sig, sig2} {
			if err := k.tpk.Verify(msg, s, ctx); err == nil {
				x.Fail("ctx-too-long", "%s: Verify accepted a %d byte context", k, n)
			}
		}
		x.Eval(4)
		x.Outcome("refused")
	}
}

func rndBytes(ri int) []byte {
	switch ri {
	case 0:
		return bytes.Repeat([]byte{0xff}, 32)
	case 1:
		return ref.Pattern(2, 32)
	case 2:
		b := make([]byte, 32)
		b[31] = 1
		return b
	}
	return ref.KeyBytes(fmt.Sprintf("c10-rnd-%d", ri), 32)
}

func sectionSignHedged(x *h.X) {
	inst := h.Pick(x, "set", insts)
	nr := 6
	if x.Thorough() {
		nr = 19
	}
	ri := x.Choose("rnd", nr)
	ml := h.Pick(x, "msglen", []int{0, 1, 136, 1000})
	cl := h.Pick(x, "ctxlen", []int{0, 255})
	k := getKP(inst, 4)
	rnd := rndBytes(ri)
	msg, ctx := ref.Pattern(2, ml), ctxBytes(cl)
	what := fmt.Sprintf("rnd#%d msglen=%d ctxlen=%d", ri, ml, cl)
	if !h.Seams() && ri >= 3 { // these leaves only exercise Sign_internal with a chosen rnd (export shim)
		x.Outcome("needs-seam")
		return
	}
	x.NonTrivial()
	x.Outcome("given-rnd")
	sigS, err := mldsaref.SignWithRandom(k.std, msg, string(ctx), rnd)
	if err != nil {
		x.Fail("harness", "stdlib SignWithRandom: %v", err)
		return
	}
	if sigR := ref.MldsaSign(k.p, k.sk, msg, ctx, rnd); !bytes.Equal(sigR, sigS) {
		x.Fail("harness-oracles-disagree", "%s %s: stdlib and model hedged signatures differ", k, what)
	}
	if h.Seams() { // Sign_internal with a chosen rnd is only reachable through the export shim
		mp := append(append([]byte{0, byte(len(ctx))}, ctx...), msg...)
		var r32 [32]byte
		copy(r32[:], rnd)
		sigT := mldsab.SignInternal(k.tsk, mp, r32)
		x.Eval(1)
		if !bytes.Equal(sigT, sigS) {
			x.Fail("hedged-signature", "%s %s: Sign_internal(M', rnd=%x) differs from FIPS 204 at byte %d", k, what, rnd, diffAt(sigT, sigS))
		}
		vt, vs, _ := k.verdicts(x, msg, sigT, ctx, what)
		if !vs {
			x.Fail("produced-signature-invalid", "%s %s: hedged signature produced by tink is rejected by the FIPS 204 reference", k, what)
		}
		if vs && !vt {
			x.Fail("verify-valid", "%s %s: tink rejects its own hedged signature", k, what)
		}
	}
	if ri >= 3 {
		return
	}
	// The exported hedged entry points draw rnd from crypto/rand: serve it from a tape and predict the output.
	t := tape.NewTape(func(off int) byte { return byte(off*7+ri*31) ^ 0x5c })
	tape.Bind(t)
	defer tape.Unbind()
	mark := t.Mark()
	sigH, err := k.tsk.Sign(msg, ctx)
	draws := t.Since(mark)
	if err != nil {
		x.Fail("sign-error", "%s %s: Sign: %v", k, what, err)
		return
	}
	checkHedged(x, k, draws, t, sigH, what+" Sign", func(r []byte) []byte {
		s, _ := mldsaref.SignWithRandom(k.std, msg, string(ctx), r)
		return s
	})
	if vs := mldsaref.Verify(k.std.PublicKey(), msg, sigH, string(ctx)) == nil; !vs {
		x.Fail("produced-signature-invalid", "%s %s: Sign output rejected by the FIPS 204 reference", k, what)
	}
	if err := k.tpk.Verify(msg, sigH, ctx); err != nil {
		x.Fail("verify-valid", "%s %s: tink rejects its own Sign output: %v", k, what, err)
	}
	var mu [64]byte
	copy(mu[:], ref.MldsaMu(ref.MldsaTr(k.pk), msg, ctx))
	mark = t.Mark()
	sigM := k.tsk.SignWithMu(mu)
	draws = t.Since(mark)
	checkHedged(x, k, draws, t, sigM, what+" SignWithMu", func(r []byte) []byte {
		s, _ := mldsaref.SignExternalMuWithRandom(k.std, mu[:], r)
		return s
	})
	if mldsaref.VerifyExternalMu(k.std.PublicKey(), mu[:], sigM) != nil || mldsaref.Verify(k.std.PublicKey(), msg, sigM, string(ctx)) != nil {
		x.Fail("produced-signature-invalid", "%s %s: SignWithMu output rejected by the FIPS 204 reference", k, what)
	}
}

// checkHedged: with the entropy observed (one 32-byte draw), the hedged signature must be the
// FIPS 204 signature for exactly that rnd. If the implementation draws differently (don't care how
// much entropy it reads), only validity is judged by the caller.
func checkHedged(x *h.X, k *kp, draws []tape.Draw, t *tape.Tape, sig []byte, what string, want func(rnd []byte) []byte) {
	x.Eval(1)
	if len(draws) == 1 && draws[0].N == 32 {
		rnd := t.Bytes(draws[0].Off, 32)
		if w := want(rnd); !bytes.Equal(sig, w) {
			x.Fail("hedged-signature", "%s %s: with rnd=%x from the entropy source the signature differs from FIPS 204 at byte %d", k, what, rnd, diffAt(sig, w))
		}
		x.Outcome("tape-rnd")
	} else if len(draws) == 0 {
		x.Fail("hedged-no-entropy", "%s %s: the hedged signer drew no entropy from crypto/rand (FIPS 204 hedged signing needs a fresh 32-byte rnd)", k, what)
	} else {
		x.Outcome(fmt.Sprintf("entropy-draws=%d", len(draws)))
	}
}

// the signature all mutation sections start from
func baseSig(k *kp) (msg, ctx, sig []byte) {
	msg, ctx = ref.Pattern(2, 33), nil
	sig, _ = mldsaref.SignDeterministic(k.std, msg, "")
	return
}

func flipBits(x *h.X, p *ref.MldsaParams) []int {
	n := p.SigLen() * 8
	var bits []int
	if x.Thorough() {
		for b := 0; b < n; b++ {
			bits = append(bits, b)
		}
		return bits
	}
	step := 8
	if p.Inst != 44 {
		step = 32
	}
	hintStart := (p.SigLen() - p.Omega - p.K) * 8
	for b := 0; b < n; b++ {
		if b < p.Lambda/4*8 || b >= hintStart || b%step == (b/step/8)%8 { // c~, hint section, and a moving bit of every step-th position
			bits = append(bits, b)
		}
	}
	return bits
}

func sectionBitFlips(x *h.X) {
	inst := h.Pick(x, "set", insts)
	const chunks = 32
	c := x.Choose("chunk", chunks)
	seeds := []int{3}
	if x.Thorough() {
		seeds = []int{3, 0}
	}
	k := getKP(inst, h.Pick(x, "seed", seeds))
	msg, ctx, sig := baseSig(k)
	bits := flipBits(x, k.p)
	lo, hi := len(bits)*c/chunks, len(bits)*(c+1)/chunks
	x.NonTrivial()
	if c == 0 {
		if vt, vs, _ := k.verdicts(x, msg, sig, ctx, "base signature"); !vt || !vs {
			x.Fail("verify-valid", "%s: base signature accepted tink=%v stdlib=%v", k, vt, vs)
		}
	}
	for _, b := range bits[lo:hi] {
		s := bytes.Clone(sig)
		s[b/8] ^= 1 << (b % 8)
		if !k.sameVerdict(x, "verify-verdict-bitflip", msg, s, ctx, fmt.Sprintf("signature bit %d flipped", b)) {
			return
		}
	}
}

type sigCase struct {
	name string
	sig  []byte
}

// hintSegments parses the (well-formed) hint section into per-polynomial index lists.
func hintSegments(p *ref.MldsaParams, y []byte) [][]byte {
	segs := make([][]byte, p.K)
	prev := 0
	for i := 0; i < p.K; i++ {
		end := int(y[p.Omega+i])
		segs[i] = bytes.Clone(y[prev:end])
		prev = end
	}
	return segs
}

// encodeSegments writes index lists as given (no sorting, no deduplication) with running counters.
func encodeSegments(p *ref.MldsaParams, segs [][]byte) []byte {
	y := make([]byte, p.Omega+p.K)
	n := 0
	for i, s := range segs {
		for _, b := range s {
			if n < p.Omega {
				y[n] = b
			}
			n++
		}
		y[p.Omega+i] = byte(n)
	}
	if n > p.Omega {
		return nil
	}
	return y
}

// malformedCases: non-canonical or malformed encodings derived from a valid signature. Most of them
// describe the SAME hint vector as the valid signature, so a decoder that misses one of the
// well-formedness rules of Algorithm 21 would accept them.
func malformedCases(p *ref.MldsaParams, sig []byte) []sigCase {
	hs := p.SigLen() - p.Omega - p.K
	y := sig[hs:]
	segs := hintSegments(p, y)
	total := int(y[p.Omega+p.K-1])
	var out []sigCase
	add := func(name string, ny []byte) {
		if ny == nil {
			return
		}
		out = append(out, sigCase{name, append(bytes.Clone(sig[:hs]), ny...)})
	}
	clone := func() [][]byte {
		c := make([][]byte, len(segs))
		for i := range segs {
			c[i] = bytes.Clone(segs[i])
		}
		return c
	}
	for i := 0; i < p.K; i++ {
		if len(segs[i]) >= 2 {
			c := clone()
			c[i][0], c[i][1] = c[i][1], c[i][0]
			add(fmt.Sprintf("hint indices of polynomial %d unsorted (first two swapped)", i), encodeSegments(p, c))
			c = clone()
			n := len(c[i])
			c[i][n-1], c[i][n-2] = c[i][n-2], c[i][n-1]
			add(fmt.Sprintf("hint indices of polynomial %d unsorted (last two swapped)", i), encodeSegments(p, c))
			c = clone()
			for a, b := 0, n-1; a < b; a, b = a+1, b-1 {
				c[i][a], c[i][b] = c[i][b], c[i][a]
			}
			add(fmt.Sprintf("hint indices of polynomial %d in decreasing order", i), encodeSegments(p, c))
		}
		if len(segs[i]) >= 1 && total < p.Omega {
			for _, pos := range []int{0, len(segs[i]) - 1} {
				c := clone()
				c[i] = append(append(bytes.Clone(c[i][:pos+1]), c[i][pos]), c[i][pos+1:]...)
				add(fmt.Sprintf("hint index %d of polynomial %d repeated", pos, i), encodeSegments(p, c))
			}
		}
		if i > 0 {
			ny := bytes.Clone(y)
			ny[p.Omega+i] = y[p.Omega+i-1] - 1
			if y[p.Omega+i-1] > 0 {
				add(fmt.Sprintf("counter %d decreased below counter %d", i, i-1), ny)
			}
			ny = bytes.Clone(y)
			ny[p.Omega+i] = 0
			add(fmt.Sprintf("counter %d set to 0", i), ny)
		}
		for _, v := range []int{p.Omega + 1, p.Omega + 2, 128, 255} {
			ny := bytes.Clone(y)
			ny[p.Omega+i] = byte(v)
			add(fmt.Sprintf("counter %d = %d > omega", i, v), ny)
		}
		ny := bytes.Clone(y)
		ny[p.Omega+i] = byte(p.Omega)
		add(fmt.Sprintf("counter %d = omega", i), ny)
	}
	if total < p.Omega {
		for _, pos := range []int{total, p.Omega - 1} {
			for _, v := range []byte{1, 255, y[max(total-1, 0)] + 1} {
				ny := bytes.Clone(y)
				ny[pos] = v
				add(fmt.Sprintf("non-zero padding byte %d at hint position %d", v, pos), ny)
			}
		}
		// last counter raised by one: a padding zero becomes hint index 0 of the last polynomial
		ny := bytes.Clone(y)
		ny[p.Omega+p.K-1]++
		add("last counter +1 (padding byte read as index 0)", ny)
	}
	// all counters shifted: first polynomial loses its last index to the second
	if len(segs[0]) > 0 {
		ny := bytes.Clone(y)
		ny[p.Omega]--
		add("counter 0 -1 (index moves to polynomial 1)", ny)
	}
	// lengths
	out = append(out,
		sigCase{"signature truncated by 1 byte", bytes.Clone(sig[:len(sig)-1])},
		sigCase{"signature extended by 00", append(bytes.Clone(sig), 0)},
		sigCase{"signature extended by its last byte", append(bytes.Clone(sig), sig[len(sig)-1])},
		sigCase{"signature without c~", bytes.Clone(sig[p.Lambda/4:])},
		sigCase{"signature without hint section", bytes.Clone(sig[:hs])},
		sigCase{"empty signature", []byte{}},
		sigCase{"nil signature", nil},
		sigCase{"one byte", []byte{0}},
		sigCase{"all-zero signature", make([]byte, len(sig))},
		sigCase{"all-FF signature", bytes.Repeat([]byte{0xff}, len(sig))},
	)
	// z coefficient encodings at the extremes: field all zero (z = gamma1), all ones (z = -gamma1+1)
	zb := p.ZBits()
	for _, coef := range []int{0, 1, 255, 256, p.L*256 - 1} {
		for _, ones := range []bool{false, true} {
			s := bytes.Clone(sig)
			for b := 0; b < zb; b++ {
				pos := p.Lambda/4*8 + coef*zb + b
				if ones {
					s[pos/8] |= 1 << (pos % 8)
				} else {
					s[pos/8] &^= 1 << (pos % 8)
				}
			}
			out = append(out, sigCase{fmt.Sprintf("z coefficient %d field all %v", coef, map[bool]int{false: 0, true: 1}[ones]), s})
		}
	}
	return out
}

func sectionMalformed(x *h.X) {
	inst := h.Pick(x, "set", insts)
	si := h.Pick(x, "seed", []int{3, 0})
	k := getKP(inst, si)
	msg, ctx, sig := baseSig(k)
	x.NonTrivial()
	for _, c := range malformedCases(k.p, sig) {
		if bytes.Equal(c.sig, sig) {
			continue
		}
		vt, vs, _ := k.verdicts(x, msg, c.sig, ctx, c.name)
		if vs {
			x.Fail("harness", "%s: reference accepts the malformed case %q", k, c.name)
		}
		if vt != vs {
			x.Fail("verify-verdict-malformed", "%s: %s: tink Verify accepted=%v but the FIPS 204 reference accepted=%v (sig %s, hint section %x)", k, c.name, vt, vs, hexs(c.sig), c.sig[max(0, len(c.sig)-k.p.Omega-k.p.K):])
		}
		x.Outcome("rejected")
	}
	// public keys as byte strings: the same signature under altered public keys (rho and t1 parts)
	for _, bit := range []int{0, 255, 256, 257, 256 + 9, 256 + 10, len(k.pk)*8 - 1} {
		pk := bytes.Clone(k.pk)
		pk[bit/8] ^= 1 << (bit % 8)
		tp, err1 := k.par.DecodePublicKey(pk)
		sp, err2 := mldsaref.NewPublicKey(inst, pk)
		if err1 != nil || err2 != nil {
			if (err1 == nil) != (err2 == nil) {
				x.Fail("decode-public", "%s: public key with bit %d flipped: tink err=%v reference err=%v", k, bit, err1, err2)
			}
			continue
		}
		vt := tp.Verify(msg, sig, ctx) == nil
		vs := mldsaref.Verify(sp, msg, sig, "") == nil
		x.Eval(1)
		if vt != vs {
			x.Fail("verify-verdict", "%s: valid signature under public key with bit %d flipped: tink accepted=%v reference accepted=%v", k, bit, vt, vs)
		}
	}
}

// ---- crafted boundary signatures (own FIPS 204 signer keeps chosen attempts) -----------------

type craftKind struct {
	name string
	keep func(p *ref.MldsaParams, a *ref.MldsaAttempt) bool
	// want: +1 the reference must accept, -1 must reject, 0 whatever the references say
	want int
}

var craftKinds = []craftKind{
	{"|z|inf = gamma1-beta-1 (largest valid)", func(p *ref.MldsaParams, a *ref.MldsaAttempt) bool {
		return a.AllOK() && a.ZNorm == p.Gamma1-p.Beta-1
	}, +1},
	{"|z|inf = gamma1-beta (smallest invalid, all other rules satisfied)", func(p *ref.MldsaParams, a *ref.MldsaAttempt) bool {
		return a.ZNorm == p.Gamma1-p.Beta && a.R0OK && a.Ct0OK && a.HintsOK
	}, -1},
	{"|z|inf = gamma1-beta+1 (invalid, all other rules satisfied)", func(p *ref.MldsaParams, a *ref.MldsaAttempt) bool {
		return a.ZNorm == p.Gamma1-p.Beta+1 && a.R0OK && a.Ct0OK && a.HintsOK
	}, -1},
	{"|r0|inf = gamma2-beta-1 (largest the signer emits)", func(p *ref.MldsaParams, a *ref.MldsaAttempt) bool {
		return a.AllOK() && a.R0Norm == p.Gamma2-p.Beta-1
	}, +1},
	{"|r0|inf = gamma2-beta (signer would reject; verdict per Algorithm 8)", func(p *ref.MldsaParams, a *ref.MldsaAttempt) bool {
		return a.ZOK && a.R0Norm == p.Gamma2-p.Beta && a.Ct0OK && a.HintsOK
	}, 0},
	{"|r0|inf well above gamma2-beta (verdict per Algorithm 8)", func(p *ref.MldsaParams, a *ref.MldsaAttempt) bool {
		return a.ZOK && a.R0Norm >= p.Gamma2-p.Beta/2 && a.Ct0OK && a.HintsOK
	}, 0},
	{"hint count = omega (largest encodable)", func(p *ref.MldsaParams, a *ref.MldsaAttempt) bool {
		return a.AllOK() && a.Hints == p.Omega
	}, +1},
	{"hint count = omega-1", func(p *ref.MldsaParams, a *ref.MldsaAttempt) bool {
		return a.AllOK() && a.Hints == p.Omega-1
	}, +1},
}

func craftBudget(x *h.X) int {
	if x.Thorough() {
		return 60000
	}
	return 6000
}

func wantWitnesses(x *h.X) int {
	if x.Thorough() {
		return 4
	}
	return 1
}

func sectionCrafted(x *h.X) {
	inst := h.Pick(x, "set", insts)
	ci := x.Choose("kind", len(craftKinds))
	ck := craftKinds[ci]
	x.Label(ck.name)
	wkey := fmt.Sprintf("crafted/%d/%s", inst, ck.name)
	start := witnessStart[wkey]
	if x.Thorough() {
		start = 0
	}
	k := getKP(inst, 3)
	// Search (message number, attempt) for attempts with the wanted property. The search uses only the
	// reference model, so it does not depend on the code under test. witnessStart (found by an earlier
	// thorough run) only shortens the quick tier's search: the witness is re-derived and re-checked here.
	const window = 64
	found := 0
	for m, used := start, 0; used < craftBudget(x) && found < wantWitnesses(x); m, used = m+1, used+window {
		msg := []byte(fmt.Sprintf("crafted boundary signature %d", m))
		mu := ref.MldsaMu(ref.MldsaTr(k.pk), msg, nil)
		sig, att := ref.MldsaSignMu(k.p, k.sk, mu, make([]byte, 32), func(a *ref.MldsaAttempt) bool { return ck.keep(k.p, a) }, window)
		if sig == nil {
			continue
		}
		if found == 0 {
			x.Count("witness-msg/"+wkey, m)
		}
		found++
		x.NonTrivial()
		what := fmt.Sprintf("crafted %s [msg %q kappa=%d |z|=%d |r0|=%d |ct0|=%d hints=%d]", ck.name, msg, att.Kappa, att.ZNorm, att.R0Norm, att.Ct0Norm, att.Hints)
		vt, vs, vr := k.verdicts(x, msg, sig, nil, what)
		if ck.want != 0 && (vr != (ck.want > 0) || vs != vr) {
			x.Fail("harness", "%s: %s: references give stdlib=%v model=%v", k, what, vs, vr)
		}
		if vt != vs {
			x.Fail("verify-verdict-boundary", "%s: %s: tink Verify accepted=%v but the FIPS 204 reference accepted=%v (sig %s)", k, what, vt, vs, hexs(sig))
		}
		x.Outcome(fmt.Sprintf("%s => accept=%v", ck.name, vs))
		// a crafted signature's single-bit neighbours in c~ still get the same verdict everywhere
		for _, b := range []int{0, 7, k.p.Lambda/4*8 - 1} {
			s := bytes.Clone(sig)
			s[b/8] ^= 1 << (b % 8)
			k.sameVerdict(x, "verify-verdict-boundary", msg, s, nil, what+fmt.Sprintf(" with c~ bit %d flipped", b))
		}
	}
	if found == 0 {
		x.Outcome("witness-not-found:" + ck.name)
	}
}

// signer boundaries: messages whose rejection loop meets an attempt that violates exactly one rule
// at its boundary value. tink's deterministic signature must still be the FIPS 204 one.
type traceKind struct {
	name string
	hit  func(p *ref.MldsaParams, a *ref.MldsaAttempt) bool
}

var traceKinds = []traceKind{
	{"attempt with |z|inf = gamma1-beta and all else fine is skipped", func(p *ref.MldsaParams, a *ref.MldsaAttempt) bool {
		return a.ZNorm == p.Gamma1-p.Beta && a.R0OK && a.Ct0OK && a.HintsOK
	}},
	{"attempt with |r0|inf = gamma2-beta and all else fine is skipped", func(p *ref.MldsaParams, a *ref.MldsaAttempt) bool {
		return a.ZOK && a.R0Norm == p.Gamma2-p.Beta && a.Ct0OK && a.HintsOK
	}},
	{"attempt with more than omega hints only is skipped", func(p *ref.MldsaParams, a *ref.MldsaAttempt) bool {
		return a.ZOK && a.R0OK && a.Ct0OK && !a.HintsOK
	}},
	{"attempt with |z|inf = gamma1-beta-1 is emitted", func(p *ref.MldsaParams, a *ref.MldsaAttempt) bool {
		return a.AllOK() && a.ZNorm == p.Gamma1-p.Beta-1
	}},
	{"attempt with |r0|inf = gamma2-beta-1 is emitted", func(p *ref.MldsaParams, a *ref.MldsaAttempt) bool {
		return a.AllOK() && a.R0Norm == p.Gamma2-p.Beta-1
	}},
	{"attempt with exactly omega hints is emitted", func(p *ref.MldsaParams, a *ref.MldsaAttempt) bool {
		return a.AllOK() && a.Hints == p.Omega
	}},
	{"at least 12 attempts needed (kappa grows by l each time)", nil},
}

func sectionSignerBoundary(x *h.X) {
	inst := h.Pick(x, "set", insts)
	ti := x.Choose("kind", len(traceKinds))
	tk := traceKinds[ti]
	x.Label(tk.name)
	wkey := fmt.Sprintf("signer/%d/%s", inst, tk.name)
	start := witnessStart[wkey]
	if x.Thorough() {
		start = 0
	}
	k := getKP(inst, 3)
	zero := make([]byte, 32)
	found := 0
	for m, used := start, 0; used < craftBudget(x) && found < wantWitnesses(x); m++ {
		msg := []byte(fmt.Sprintf("signer boundary search %d", m))
		mu := ref.MldsaMu(ref.MldsaTr(k.pk), msg, nil)
		hit := false
		n := 0
		sig, _ := ref.MldsaSignMu(k.p, k.sk, mu, zero, func(a *ref.MldsaAttempt) bool {
			n++
			if tk.hit != nil && tk.hit(k.p, a) {
				hit = true
			}
			return a.AllOK()
		}, 0)
		used += n
		if tk.hit == nil {
			hit = n >= 12
		}
		if !hit {
			continue
		}
		if found == 0 {
			x.Count("witness-msg/"+wkey, m)
		}
		found++
		x.NonTrivial()
		what := fmt.Sprintf("msg %q (%s; %d attempts)", msg, tk.name, n)
		sigS, _ := mldsaref.SignDeterministic(k.std, msg, "")
		if !bytes.Equal(sig, sigS) {
			x.Fail("harness-oracles-disagree", "%s %s: stdlib and model signatures differ", k, what)
		}
		sigT, err := k.tsk.SignDeterministic(msg, nil)
		x.Eval(1)
		if err != nil || !bytes.Equal(sigT, sigS) {
			x.Fail("det-signature-boundary", "%s %s: deterministic signature differs from FIPS 204 at byte %d (err=%v)", k, what, diffAt(sigT, sigS), err)
		}
		if vt, vs, _ := k.verdicts(x, msg, sigS, nil, what); vt != vs {
			x.Fail("verify-verdict-boundary", "%s %s: tink accepted=%v reference accepted=%v", k, what, vt, vs)
		}
		x.Outcome("witness:" + tk.name)
	}
	if found == 0 {
		x.Outcome("witness-not-found:" + tk.name)
	}
}
