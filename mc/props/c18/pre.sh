#!/bin/bash
# C18 pre-build step: instrument the CURRENT sources of the packages under test (statement-level
# scheduling points) into $1/inst and print that directory as an extra (replacing) overlay group.
set -e
W=$1
here=$(cd "$(dirname "$0")" && pwd); root=$(cd "$here/../../.." && pwd)
. "$root/env.sh"
rm -rf "$W/inst"; mkdir -p "$W/inst"
( cd "$root/mc" && $GO build -o "$W/inst.bin" ./inst ) >&2
# Packages to instrument: the static list PACKAGES (as far as the directories still exist) plus every package of the
# tink module the harness REALLY depends on in the current tree (a refactoring may have moved shared state into a
# new package), minus generated protos and the verification runtime itself.
python3 "$root/mc/tools/mkoverlay.py" "$W/overlay_list.json" common rand c18 ${VERIF_EXTRA_OVERLAY:-} >&2 || true
deps=$( cd "$root/mc" && $GO list -overlay "$W/overlay_list.json" -deps ./props/c18 2>/dev/null | sed -n 's,^github.com/tink-crypto/tink-go/v2/,,p' \
        | grep -v -E '^(proto/|verifbridge/|verifrt/|internal$|internal/internalapi$|tink$|key$|monitoring$|insecuresecretdataaccess$)' || true )
pkgs=$( (cat $here/PACKAGES; echo "$deps") | sort -u | while read -r d; do [ -n "$d" ] && ls "$VERIF_REPO/$d"/*.go >/dev/null 2>&1 && echo "$d"; done )
echo "$pkgs" > "$W/packages.txt"
"$W/inst.bin" -repo "$VERIF_REPO" -out "$W/inst" -alt "${VERIF_EXTRA_OVERLAY:-}" -heavy "$(tr '\n' ',' < $here/HEAVY)" $pkgs >&2
echo "$W/inst"
