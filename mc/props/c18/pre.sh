#!/bin/bash
# C18 pre-build step: instrument the CURRENT sources of the packages under test (statement-level
# scheduling points) into $1/inst and print that directory as an extra (replacing) overlay group.
set -e
W=$1
here=$(cd "$(dirname "$0")" && pwd); root=$(cd "$here/../../.." && pwd)
. "$root/env.sh"
rm -rf "$W/inst"; mkdir -p "$W/inst"
( cd "$root/mc" && $GO build -o "$W/inst.bin" ./inst ) >&2
"$W/inst.bin" -repo "$VERIF_REPO" -out "$W/inst" -alt "${VERIF_EXTRA_OVERLAY:-}" -heavy "$(tr '\n' ',' < $here/HEAVY)" $(cat $here/PACKAGES) >&2
echo "$W/inst"
