#!/bin/bash
# Build the free-running race-detector binary of the C18 scenario bodies: -race, NOT instrumented
# (overlay without the generated tree; an externally supplied mutant tree is honoured).
set -e
W=$1
here=$(cd "$(dirname "$0")" && pwd); root=$(cd "$here/../../.." && pwd)
. "$root/env.sh"
python3 "$root/mc/tools"/mkoverlay.py "$W/overlay_race.json" common rand c18 ${VERIF_EXTRA_OVERLAY:-}
cd "$root/mc" && $GO build -race -overlay "$W/overlay_race.json" -o "$W/c18race.bin" ./props/c18
