// C18: primitives, handles, keys and registries are safe for concurrent use.
//
// Engine E3. The packages under test are source-instrumented at check time (a scheduling point before
// every statement, see verif/inst) and run under the cooperative scheduler verifrt/sched: the threads
// of a scenario are real goroutines of which exactly one runs at a time, and every interleaving with at
// most B preemptions (B = 1 or 2, iterative context bounding) is enumerated by engine E1's
// deviation-bounded choice-tree search: the scheduler's decision at a point where the running thread
// could continue is a Deviate() point (a non-default answer is a preemption), the decision at a thread
// end / blocking point is a free Choose().
//
// Oracle ("each concurrent call returns what the same call returns when executed alone"): every thread
// owns a deterministic entropy tape, so even randomized operations have ONE expected output – the one
// obtained by running that thread's calls alone on a fresh object. Every call of every schedule must
// reproduce it byte for byte; no thread may panic; no deadlock; after the join a fixed probe sequence
// on the shared object must equal the same probes on a fresh object (hidden state that survives).
// Registry scenarios (whose results legitimately depend on the order) are checked for linearizability
// by brute force: the result vector must equal that of SOME sequential order of the whole calls.
//
// Process model: the parent process runs one child process per scenario (16 at a time); the scheduler
// state is process-global. Evidence of the children is merged by the parent.
package main

import (
	"crypto/verifrand"
	"encoding/json"
	"fmt"
	"os"
	"os/exec"
	"path/filepath"
	"runtime"
	"sort"
	"strings"
	"sync"
	"time"

	"github.com/tink-crypto/tink-go/v2/verifrt/sched"
	"verif/h"
	"verif/tape"
)

// ---- per-thread entropy ---------------------------------------------------------------------------

type entropy struct {
	tapes  []*tape.Tape // index 0 = outside any thread, i+1 = thread i
	forced int          // when >= 0 and no execution is active: serve thread `forced` (sequential oracle runs)
}

var ent = &entropy{forced: -1}

func srcFor(i int) func(off int) byte {
	return func(off int) byte {
		w := uint32(off/4)*2654435761 + uint32(i+1)*0x9e3779b9
		w ^= w >> 15
		w *= 0x85ebca6b
		w ^= w >> 13
		return byte(w >> (8 * uint(off%4)))
	}
}

func (e *entropy) Read(p []byte) (int, error) {
	i := sched.Current()
	if i < 0 && e.forced >= 0 {
		i = e.forced
	}
	return e.tapes[i+1].Read(p)
}

func (e *entropy) rewind() {
	for _, t := range e.tapes {
		t.Rewind()
	}
}

func initEntropy() {
	for i := 0; i < 8; i++ {
		ent.tapes = append(ent.tapes, tape.NewTape(srcFor(i-1)))
	}
	verifrand.Set(ent)
}

// ---- scenarios ---------------------------------------------------------------------------------------

type call struct {
	name string
	do   func(sh any) string
}

type built struct {
	newShared func() any
	threads   [][]call
	probes    []call
	expected  [][]string // per thread, per call (sequential oracle)
	probeExp  []string
	linear    map[string]bool // linearizable scenarios: admissible result vectors
	stride    int
	points    int
	nondet    string
	unstable  string
}

type scenario struct {
	name         string
	linearizable bool
	small        bool // few points: bound 2 already in the quick tier
	setup        func() *built
	once         sync.Once
	b            *built
}

var scenarios []*scenario

func add(name string, setup func() *built) *scenario {
	s := &scenario{name: name, setup: setup}
	scenarios = append(scenarios, s)
	return s
}

func render(out []byte, err error) string {
	if err != nil {
		return "ERR:" + err.Error()
	}
	return fmt.Sprintf("%x", out)
}

const horizon = 400000

// runThreads executes the scenario once under the scheduler with the given decision function.
func runThreads(b *built, decide sched.Decision) (res [][]string, e *sched.Exec, sh any) {
	ent.rewind()
	ent.forced = -1
	resetInputs()
	sh = b.newShared()
	res = make([][]string, len(b.threads))
	fns := make([]func(), len(b.threads))
	for i := range b.threads {
		i := i
		res[i] = make([]string, len(b.threads[i]))
		fns[i] = func() {
			for j, c := range b.threads[i] {
				res[i][j] = c.do(sh)
			}
		}
	}
	e = sched.Run(fns, decide, horizon, b.stride)
	return
}

// sequential oracle: thread i's calls alone on a fresh object with thread i's tape.
func (b *built) computeExpected(linearizable bool) {
	if linearizable {
		// every interleaving of WHOLE calls that respects per-thread order
		b.linear = map[string]bool{}
		var rec func(pos []int, order [][2]int)
		total := 0
		for _, t := range b.threads {
			total += len(t)
		}
		rec = func(pos []int, order [][2]int) {
			if len(order) == total {
				ent.rewind()
				resetInputs()
				sh := b.newShared()
				res := make([][]string, len(b.threads))
				for i := range res {
					res[i] = make([]string, len(b.threads[i]))
				}
				for _, o := range order {
					ent.forced = o[0]
					res[o[0]][o[1]] = b.threads[o[0]][o[1]].do(sh)
				}
				ent.forced = -1
				var pr []string
				for _, p := range b.probes {
					pr = append(pr, p.do(sh))
				}
				b.linear[fmt.Sprint(res, pr)] = true
				return
			}
			for i := range b.threads {
				if pos[i] < len(b.threads[i]) {
					np := append([]int{}, pos...)
					np[i]++
					rec(np, append(append([][2]int{}, order...), [2]int{i, pos[i]}))
				}
			}
		}
		rec(make([]int, len(b.threads)), nil)
		return
	}
	b.expected = make([][]string, len(b.threads))
	for i, calls := range b.threads {
		ent.rewind()
		ent.forced = i
		resetInputs()
		sh := b.newShared()
		for _, c := range calls {
			b.expected[i] = append(b.expected[i], c.do(sh))
		}
	}
	ent.forced = -1
	ent.rewind()
	resetInputs()
	sh := b.newShared()
	for _, p := range b.probes {
		b.probeExp = append(b.probeExp, p.do(sh))
	}
}

func (s *scenario) get() *built {
	s.once.Do(func() {
		ent.rewind()
		b := s.setup()
		b.stride = 1
		b.computeExpected(s.linearizable)
		// measure the number of heavy points of the default schedule (huge stride: none of them is a real
		// point), then choose the stride so that one execution has about 300 of them
		b.stride = 1 << 40
		_, e, _ := runThreads(b, func(n int, re bool) int { return 0 })
		b.stride = e.RawH/300 + 1
		_, e, _ = runThreads(b, func(n int, re bool) int { return 0 })
		b.points = e.Points
		// determinism: the default schedule executed twice on fresh objects must give identical observations
		r1, _, _ := runThreads(b, func(n int, re bool) int { return 0 })
		r2, e2, _ := runThreads(b, func(n int, re bool) int { return 0 })
		if fmt.Sprint(r1) != fmt.Sprint(r2) {
			b.nondet = fmt.Sprintf("two executions of the default schedule differ: %v vs %v (points %d vs %d)", r1, r2, b.points, e2.Points)
		} else if e2.Points != b.points {
			// same results, another number of scheduling points: nondeterminism the scheduler does not own (map iteration
			// order, a lazily built process-wide table, ...). Not a property violation; the enumeration of this scenario
			// is then not claimed exhaustive.
			b.unstable = fmt.Sprintf("the default schedule passed %d scheduling points, then %d", b.points, e2.Points)
		}
		if os.Getenv("VERIF_C18_DEBUG") != "" {
			fmt.Fprintf(os.Stderr, "[C18] %s: points=%d rawHeavy=%d stride=%d\n", s.name, e.Points, e.RawH, b.stride)
		}
		s.b = b
	})
	return s.b
}

var unstableNote sync.Once

func trunc(s string) string {
	if len(s) > 120 {
		return s[:120] + "…"
	}
	return s
}

func (s *scenario) body(x *h.X) {
	b := s.get()
	if b.nondet != "" {
		x.Fail("nondeterministic-default-schedule", "%s: %s (state outside the shared object survives between executions)", s.name, b.nondet)
	}
	if b.unstable != "" {
		x.NotExhaustive()
		x.Outcome("scheduling-points-not-reproducible")
		unstableNote.Do(func() {
			h.Assume("scenario " + s.name + ": " + b.unstable + " with identical results (nondeterminism outside the scheduler): explored schedules are real executions, exhaustiveness of that scenario is not claimed")
		})
	}
	var decisions int
	res, e, sh := runThreads(b, func(n int, runningEnabled bool) int {
		decisions++
		if runningEnabled {
			return x.Deviate("preempt", n)
		}
		return x.Choose("next", n)
	})
	x.Eval(1)
	x.NonTrivial()
	h.AddMC(0, int64(e.Points), 1)
	for _, p := range e.Panics {
		x.Fail("panic", "%s: %s", s.name, p)
	}
	if e.Deadlock {
		x.Fail("deadlock", "%s: no enabled thread while some thread is unfinished", s.name)
		return
	}
	if e.Horizon {
		x.Fail("horizon", "%s: execution exceeded %d scheduling points (livelock?)", s.name, horizon)
		return
	}
	var pr []string
	ent.forced = -1
	ent.tapes[0].Rewind()
	for _, p := range b.probes {
		pr = append(pr, p.do(sh))
	}
	if s.linearizable {
		if !b.linear[fmt.Sprint(res, pr)] {
			x.Fail("not-linearizable", "%s: results %v / probes %v match no sequential order of the calls", s.name, res, pr)
		}
		x.Outcome(fmt.Sprintf("outcome#%d", len(fmt.Sprint(res, pr))%7))
		return
	}
	for i := range res {
		for j := range res[i] {
			if res[i][j] != b.expected[i][j] {
				x.Fail("concurrent-result-differs", "%s: thread %d call %s returned %s, alone it returns %s", s.name, i, b.threads[i][j].name, trunc(res[i][j]), trunc(b.expected[i][j]))
			}
		}
	}
	for k := range pr {
		if pr[k] != b.probeExp[k] {
			x.Fail("state-corrupted", "%s: after the concurrent calls, probe %s returns %s, on a fresh object %s", s.name, b.probes[k].name, trunc(pr[k]), trunc(b.probeExp[k]))
		}
	}
	x.Outcome(fmt.Sprintf("switches=%d", e.Switches))
}

// ---- parent / child ----------------------------------------------------------------------------------

func tierFromArgs() string {
	for i, a := range os.Args {
		if a == "-tier" && i+1 < len(os.Args) {
			return os.Args[i+1]
		}
		if strings.HasPrefix(a, "-tier=") {
			return strings.TrimPrefix(a, "-tier=")
		}
	}
	return "quick"
}

func hasArg(name string) bool {
	for _, a := range os.Args {
		if a == name || strings.HasPrefix(a, name+"=") {
			return true
		}
	}
	return false
}

func argVal(name string) string {
	for i, a := range os.Args {
		if a == name && i+1 < len(os.Args) {
			return os.Args[i+1]
		}
		if strings.HasPrefix(a, name+"=") {
			return strings.TrimPrefix(a, name+"=")
		}
	}
	return ""
}

const rule = "per scenario (2 threads x 2 calls or 3 threads x 1 call on ONE shared primitive / handle / registry, inputs of different block counts): every interleaving of the statement-level scheduling points of the instrumented tink packages with at most B preemptions (iterative context bounding; B reported per scenario) is executed under the controlled scheduler; each call's result must be byte-identical to the same call executed alone (per-thread deterministic entropy), no panic, no deadlock, post-join probes equal those of a fresh object; registry scenarios: result vector must equal that of some sequential order (brute-force linearizability). states = distinct schedules executed, transitions = scheduling points passed."

func childMain() {
	initEntropy()
	tier := tierFromArgs()
	var secs []h.Section
	sel := argVal("-section")
	for _, s := range scenarios {
		bound := 1
		if tier == "thorough" || s.small {
			bound = 2
		}
		if s.name == sel && !hasArg("-replay") {
			// bound 2 costs ~P^2/2 executions of ~P points each: affordable up to P ~ 700 (quick) / 1500 (thorough)
			p := s.get().points
			if bound == 2 && ((tier == "thorough" && p > 1500) || (tier != "thorough" && p > 700)) {
				bound = 1
			}
			if tier != "thorough" && p <= 220 {
				bound = 2
			}
			if tier == "thorough" && p <= 150 {
				bound = 3
			}
		}
		secs = append(secs, h.Section{Name: s.name, Body: s.body, Bound: bound, Serial: true})
	}
	h.Main("C18", "model_checking", rule, secs)
}

type childResult struct {
	name string
	rc   int
	out  string
	ev   map[string]any
	wall float64
}

func parentMain() {
	tier := tierFromArgs()
	evPath := argVal("-evidence")
	start := time.Now()
	work := os.Getenv("VERIF_WORK")
	if work == "" {
		work = "/verif/.work"
	}
	dir := filepath.Join(work, "C18", "children")
	os.RemoveAll(dir)
	os.MkdirAll(dir, 0o755)
	only := argVal("-section")
	var names []string
	for _, s := range scenarios {
		if only == "" || strings.HasPrefix(s.name, only) {
			names = append(names, s.name)
		}
	}
	results := make([]childResult, len(names))
	sem := make(chan struct{}, runtime.NumCPU())
	var wg sync.WaitGroup
	deadline := argVal("-deadline-min")
	if deadline == "" && tier == "thorough" {
		// per-scenario deadline of the thorough tier: a scenario that does not finish its largest preemption bound in
		// time reports the bound it completed (iterative bounding) and exhaustive:false - it never fails for that
		deadline = "30"
	}
	for i, n := range names {
		wg.Add(1)
		go func(i int, n string) {
			defer wg.Done()
			sem <- struct{}{}
			defer func() { <-sem }()
			t0 := time.Now()
			ev := filepath.Join(dir, n+".json")
			args := []string{"-child", "-tier", tier, "-section", n, "-evidence", ev, "-workers", "1"}
			if deadline != "" {
				args = append(args, "-deadline-min", deadline)
			}
			cmd := exec.Command(os.Args[0], args...)
			cmd.Env = append(os.Environ(), "GOMAXPROCS=2", "VERIF_REPLAY_TAG=-"+n)
			out, err := cmd.CombinedOutput()
			r := childResult{name: n, out: string(out), wall: time.Since(t0).Seconds()}
			if err != nil {
				r.rc = 2
				if ee, ok := err.(*exec.ExitError); ok {
					r.rc = ee.ExitCode()
				}
			}
			if b, err := os.ReadFile(ev); err == nil {
				json.Unmarshal(b, &r.ev)
			}
			results[i] = r
		}(i, n)
	}
	// free-running race-detector pass (separate -race binary built by build_extra.sh), concurrently with the children
	raceOut, raceRC, raceRan := "", 0, false
	raceBin := filepath.Join(filepath.Dir(os.Args[0]), "c18race.bin")
	var rwg sync.WaitGroup
	if _, err := os.Stat(raceBin); err == nil && os.Getenv("VERIF_C18_NORACE") == "" {
		raceRan = true
		rwg.Add(1)
		go func() {
			defer rwg.Done()
			args := []string{"-racepass", "-tier", tier}
			if only != "" {
				args = append(args, "-section", only)
			}
			cmd := exec.Command(raceBin, args...)
			cmd.Env = append(os.Environ(), "GORACE=halt_on_error=0 exitcode=66", "GOMAXPROCS=8")
			out, err := cmd.CombinedOutput()
			raceOut = string(out)
			if err != nil {
				raceRC = 2
				if ee, ok := err.(*exec.ExitError); ok {
					raceRC = ee.ExitCode()
				}
			}
		}()
	}
	wg.Wait()
	rwg.Wait()
	// merge
	var states, transitions, traces, evals int64
	var samples []any
	perScenario := map[string]any{}
	exhaustive := true
	violations, broken := 0, 0
	var known []string
	num := func(m map[string]any, k string) int64 {
		if v, ok := m[k].(float64); ok {
			return int64(v)
		}
		return 0
	}
	for _, r := range results {
		for _, line := range strings.Split(r.out, "\n") {
			if strings.HasPrefix(line, "VIOLATION ") || strings.HasPrefix(line, "KNOWN-FINDING:") || strings.Contains(line, "violation in section") || strings.Contains(line, "NOTE:") {
				fmt.Println(line)
			}
			if strings.HasPrefix(line, "KNOWN-FINDING:") {
				known = append(known, line)
			}
		}
		switch r.rc {
		case 0:
		case 1:
			violations++
		default:
			broken++
			fmt.Printf("[C18] scenario %s: child failed rc=%d\n%s\n", r.name, r.rc, lastLines(r.out, 15))
		}
		if r.ev == nil {
			continue
		}
		cov, _ := r.ev["coverage"].(map[string]any)
		if cov == nil {
			continue
		}
		ex := num(cov, "executions")
		states += ex
		transitions += num(cov, "transitions")
		traces += ex
		evals += ex
		if e, ok := cov["exhaustive"].(bool); ok && !e {
			exhaustive = false
		}
		secs, _ := cov["sections"].(map[string]any)
		if sm, ok := secs[r.name].(map[string]any); ok {
			perScenario[r.name] = map[string]any{"schedules": ex, "scheduling_points_passed": num(cov, "transitions"), "preemption_bound_completed": sm["deviation_bound_completed"],
				"distinct_outcomes": len(asMap(sm["outcome_classes"])), "max_decision_points": sm["max_choice_depth"], "capped": sm["capped"], "wall_s": r.wall}
		}
		if ss, ok := cov["samples"].([]any); ok && len(ss) > 0 && len(samples) < 12 {
			samples = append(samples, map[string]any{"scenario": r.name, "schedule": ss[len(ss)-1]})
		}
	}
	raceInfo := map[string]any{"ran": raceRan}
	if raceRan {
		races := strings.Count(raceOut, "WARNING: DATA RACE")
		panics := strings.Count(raceOut, "RACEPASS-PANIC")
		raceInfo["data_races_reported"] = races
		raceInfo["panics"] = panics
		for _, l := range strings.Split(raceOut, "\n") {
			if strings.HasPrefix(l, "RACEPASS-DONE") {
				raceInfo["summary"] = l
			}
		}
		if races > 0 || panics > 0 {
			root := os.Getenv("VERIF_ROOT")
			if root == "" {
				root = "/verif"
			}
			os.MkdirAll(filepath.Join(root, "replays"), 0o755)
			rp := filepath.Join(root, "replays", "C18-race-report.txt")
			os.WriteFile(rp, []byte(raceOut), 0o644)
			fmt.Printf("[C18] race-detector pass: %d data race report(s), %d panic(s); first report:\n%s\n", races, panics, firstRace(raceOut))
			fmt.Printf("VIOLATION property=C18 replay=%s\n", rp)
			violations++
		} else if raceRC != 0 {
			broken++
			fmt.Printf("[C18] race pass failed rc=%d\n%s\n", raceRC, lastLines(raceOut, 15))
		}
	}
	sort.Strings(known)
	fmt.Printf("[C18] scenarios=%d schedules=%d scheduling-points=%d violations(scenarios)=%d broken=%d wall=%.1fs\n", len(results), states, transitions, violations, broken, time.Since(start).Seconds())
	if evPath != "" {
		ev := map[string]any{"property_id": "C18", "tier": tier, "seed": 0, "level": "model_checking", "wall_s": time.Since(start).Seconds(), "violations": violations,
			"assumptions": []string{"sequential consistency (memory-model effects weaker than SC are not modelled by a cooperative scheduler)", "calls into the Go standard library and x/crypto are atomic steps (stdlib trusted)", "heavy numeric packages (ML-DSA, SLH-DSA, X-Wing) are preempted only at every stride-th statement so that one execution has ~300 such points", "concurrency is checked for 2 and 3 threads"},
			"coverage": map[string]any{"states": states, "transitions": transitions, "traces_validated_against_impl": traces, "samples": samples, "exhaustive": exhaustive && broken == 0,
				"evaluations": evals, "distinct_nontrivial": states, "rule": rule, "scenarios": perScenario, "known_findings_met": known, "race_detector_pass": raceInfo}}
		b, _ := json.MarshalIndent(ev, "", " ")
		os.WriteFile(evPath, b, 0o644)
	}
	if violations > 0 {
		os.Exit(1)
	}
	if broken > 0 {
		os.Exit(2)
	}
	fmt.Printf("[C18] OK tier=%s\n", tier)
}

func firstRace(out string) string {
	i := strings.Index(out, "WARNING: DATA RACE")
	if i < 0 {
		i = strings.Index(out, "RACEPASS-PANIC")
	}
	if i < 0 {
		return ""
	}
	l := strings.Split(out[i:], "\n")
	if len(l) > 28 {
		l = l[:28]
	}
	return strings.Join(l, "\n")
}

func asMap(v any) map[string]any { m, _ := v.(map[string]any); return m }

func lastLines(s string, n int) string {
	l := strings.Split(strings.TrimSpace(s), "\n")
	if len(l) > n {
		l = l[len(l)-n:]
	}
	return strings.Join(l, "\n")
}

// racePass: the SAME scenario bodies, uninstrumented, as free-running goroutines under the Go race
// detector (binary built with -race). Cooperative hand-offs are happens-before edges that blind the
// detector, hence this separate pass. It is observation (many iterations), not enumeration.
func racePass() {
	secs := 20.0
	if tierFromArgs() == "thorough" {
		secs = 120
	}
	only := argVal("-section")
	deadline := time.Now().Add(time.Duration(secs * float64(time.Second)))
	iters := 0
	var list []*scenario
	for _, s := range scenarios {
		if only == "" || strings.HasPrefix(s.name, only) {
			list = append(list, s)
		}
	}
	builts := make([]*built, len(list))
	for round := 0; time.Now().Before(deadline) || round < 2; round++ {
		for si, s := range list {
			if builts[si] == nil {
				builts[si] = s.setup()
			}
			b := builts[si]
			reps := 20
			if round == 0 {
				reps = 3
			}
			for k := 0; k < reps; k++ {
				resetInputs()
				sh := b.newShared()
				var wg sync.WaitGroup
				start := make(chan struct{})
				for i := range b.threads {
					wg.Add(1)
					go func(i int) {
						defer wg.Done()
						defer func() {
							if r := recover(); r != nil {
								fmt.Printf("RACEPASS-PANIC scenario=%s thread=%d: %v\n", s.name, i, r)
							}
						}()
						<-start
						for _, c := range b.threads[i] {
							c.do(sh)
						}
					}(i)
				}
				close(start)
				wg.Wait()
				iters++
			}
			if time.Now().After(deadline) && round >= 2 {
				break
			}
		}
	}
	fmt.Printf("RACEPASS-DONE scenarios=%d iterations=%d\n", len(list), iters)
}

func main() {
	registerScenarios()
	if hasArg("-racepass") {
		racePass()
		return
	}
	if hasArg("-child") {
		// strip the flag h.Main does not know
		var a []string
		for _, x := range os.Args {
			if x != "-child" {
				a = append(a, x)
			}
		}
		os.Args = a
		childMain()
		return
	}
	if hasArg("-replay") {
		childMain()
		return
	}
	if hasArg("-list") {
		for _, s := range scenarios {
			fmt.Println(s.name)
		}
		return
	}
	parentMain()
}
