package main

import (
	"bytes"
	"crypto/ed25519"
	"fmt"
	"io"
	"sync"
	"sync/atomic"
	"time"

	"google.golang.org/protobuf/proto"

	"github.com/tink-crypto/tink-go/v2/aead"
	"github.com/tink-crypto/tink-go/v2/core/registry"
	"github.com/tink-crypto/tink-go/v2/daead"
	"github.com/tink-crypto/tink-go/v2/hybrid"
	"github.com/tink-crypto/tink-go/v2/hybrid/hpke"
	"github.com/tink-crypto/tink-go/v2/insecurecleartextkeyset"
	"github.com/tink-crypto/tink-go/v2/jwt"
	"github.com/tink-crypto/tink-go/v2/key"
	"github.com/tink-crypto/tink-go/v2/keyderivation"
	"github.com/tink-crypto/tink-go/v2/keyset"
	"github.com/tink-crypto/tink-go/v2/mac"
	cmackey "github.com/tink-crypto/tink-go/v2/mac/aescmac"
	hmackey "github.com/tink-crypto/tink-go/v2/mac/hmac"
	macsubtle "github.com/tink-crypto/tink-go/v2/mac/subtle"
	"github.com/tink-crypto/tink-go/v2/monitoring"
	"github.com/tink-crypto/tink-go/v2/prf"
	tinkpb "github.com/tink-crypto/tink-go/v2/proto/tink_go_proto"
	"github.com/tink-crypto/tink-go/v2/signature"
	"github.com/tink-crypto/tink-go/v2/signature/compositemldsa"
	ecdsakey "github.com/tink-crypto/tink-go/v2/signature/ecdsa"
	ed25519key "github.com/tink-crypto/tink-go/v2/signature/ed25519"
	"github.com/tink-crypto/tink-go/v2/signature/mldsa"
	"github.com/tink-crypto/tink-go/v2/signature/slhdsa"
	sigsubtle "github.com/tink-crypto/tink-go/v2/signature/subtle"
	"github.com/tink-crypto/tink-go/v2/streamingaead"
	"github.com/tink-crypto/tink-go/v2/testing/fakekms"
	"github.com/tink-crypto/tink-go/v2/testkeyset"
	"github.com/tink-crypto/tink-go/v2/tink"
	"github.com/tink-crypto/tink-go/v2/verifbridge/vb"
	"verif/ref"
)

// Inputs are shared by all threads and live in buffers WITH SPARE CAPACITY: an operation that appends to a
// caller's slice (instead of copying) writes into memory another thread is reading – a race the free-running
// pass reports – and corrupts nothing visible only by luck.
func spare(b []byte) []byte { return append(make([]byte, 0, len(b)+48), b...) }

// The inputs of all threads are ADJACENT sub-slices of ONE shared buffer (the caller keeps header, messages and
// associated data in one allocation): the spare capacity of each slice IS the next input. An operation that appends
// to its argument writes into what another thread is reading. The buffer is restored before every execution and
// before every sequential reference call, so that such a write cannot hide by being idempotent.
var (
	inputMaster = bytes.Join([][]byte{ref.Pattern(2, 5), ref.Pattern(3, 40), ref.Pattern(2, 17), []byte("ad-A"), []byte("associated-data-B-longer"), make([]byte, 48)}, nil)
	inputShared = bytes.Clone(inputMaster)
	msgA        = inputShared[0:5]
	msgB        = inputShared[5:45]
	msgC        = inputShared[45:62]
	adA         = inputShared[62:66]
	adB         = inputShared[66:90]
)

func resetInputs() { copy(inputShared, inputMaster) }

func must[T any](v T, err error) T {
	if err != nil {
		panic(err)
	}
	return v
}

func handleFrom(t *tinkpb.KeyTemplate) *keyset.Handle { return must(keyset.NewHandle(t)) }

func handleFromParams(p key.Parameters) *keyset.Handle {
	m := keyset.NewManager()
	id := must(m.AddNewKeyFromParameters(p))
	if err := m.SetPrimary(id); err != nil {
		panic(err)
	}
	return must(m.Handle())
}

// twoKeyHandle: primary from t1 plus a second enabled key from t2 (prefix-map lookups with >1 entry).
func twoKeyHandle(t1, t2 *tinkpb.KeyTemplate) *keyset.Handle {
	m := keyset.NewManager()
	id := must(m.Add(t1))
	must(m.Add(t2))
	if err := m.SetPrimary(id); err != nil {
		panic(err)
	}
	return must(m.Handle())
}

// multiKeyHandle: keys from the given templates, all enabled, the LAST one primary – so that outputs of the
// primary and of older keys are matched by candidates that are not the first entry of the wrapper's list.
func multiKeyHandle(ts ...*tinkpb.KeyTemplate) *keyset.Handle {
	m := keyset.NewManager()
	var id uint32
	for _, t := range ts {
		id = must(m.Add(t))
	}
	if err := m.SetPrimary(id); err != nil {
		panic(err)
	}
	return must(m.Handle())
}

// singleKeyHandleOf returns a one-key handle holding the i-th key of hd (used to produce inputs made by a non-primary key).
func singleKeyHandleOf(hd *keyset.Handle, i int) *keyset.Handle {
	ks := insecurecleartextkeyset.KeysetMaterial(hd)
	k := proto.Clone(ks.Key[i]).(*tinkpb.Keyset_Key)
	return must(testkeyset.NewHandle(&tinkpb.Keyset{PrimaryKeyId: k.KeyId, Key: []*tinkpb.Keyset_Key{k}}))
}

func threads22(a1, a2, b1, b2 call) [][]call { return [][]call{{a1, a2}, {b1, b2}} }

// crossOf: TWO independently built instances of the scenario's primitive with DIFFERENT keys (the setup draws fresh
// keys every time it runs); thread 0 works on instance 0, thread 1 on instance 1. Nothing is shared between the
// threads but package-level state of tink – a keyed cache, a scratch buffer or a lazily built table hoisted to
// package scope – which is exactly what must not make one instance observe the other's key or data.
func crossOf(s *scenario) *scenario {
	return add("cross-instance-"+s.name, func() *built { return crossBuilt(s.setup(), s.setup()) })
}

func crossBuilt(b1, b2 *built) *built {
	{
		wrap := func(cs []call, i int) []call {
			var out []call
			for _, c := range cs {
				c := c
				out = append(out, call{fmt.Sprintf("#%d.%s", i, c.name), func(sh any) string { return c.do(sh.([2]any)[i]) }})
			}
			return out
		}
		return &built{newShared: func() any { return [2]any{b1.newShared(), b2.newShared()} },
			threads: [][]call{wrap(b1.threads[0], 0), wrap(b2.threads[1], 1)},
			probes:  append(wrap(b1.probes, 0), wrap(b2.probes, 1)...)}
	}
}

// ---- AEAD ---------------------------------------------------------------------------------------------

func aeadScen(name string, mk func() tink.AEAD) *scenario {
	return add("aead-"+name, func() *built { return aeadBuilt(mk) })
}

// aeadCross: two AEADs of the same type with different keys, one per thread (see crossOf).
func aeadCross(name string, t *tinkpb.KeyTemplate) *scenario {
	return add("cross-instance-aead-"+name, func() *built { return crossBuilt(aeadBuilt(aeadFromTemplate(t)), aeadBuilt(aeadFromTemplate(t))) })
}

func aeadBuilt(mk func() tink.AEAD) *built {
	{
		p := mk()
		cA := must(p.Encrypt(msgA, adA))
		cB := must(p.Encrypt(msgB, adB))
		enc := func(n string, m, ad []byte) call {
			return call{"Encrypt(" + n + ")", func(sh any) string { return render(sh.(tink.AEAD).Encrypt(m, ad)) }}
		}
		dec := func(n string, c, ad []byte) call {
			return call{"Decrypt(" + n + ")", func(sh any) string { return render(sh.(tink.AEAD).Decrypt(c, ad)) }}
		}
		return &built{newShared: func() any { return mk() },
			threads: threads22(enc("A", msgA, adA), dec("B", cB, adB), enc("B", msgB, adB), dec("A", cA, adA)),
			probes:  []call{dec("A", cA, adA), enc("C", msgC, nil), dec("B-wrong-ad", cB, adA)}}
	}
}

func aeadFromTemplate(t *tinkpb.KeyTemplate) func() tink.AEAD {
	var hd *keyset.Handle
	return func() tink.AEAD {
		if hd == nil {
			hd = handleFrom(t)
		}
		return must(aead.New(hd))
	}
}

// ---- DAEAD / MAC / PRF --------------------------------------------------------------------------------

func daeadScen(name string, hdf func() *keyset.Handle) *scenario {
	return add("daead-"+name, func() *built {
		hd := hdf()
		mk := func() tink.DeterministicAEAD { return must(daead.New(hd)) }
		p := mk()
		cA := must(p.EncryptDeterministically(msgA, adA))
		cB := must(p.EncryptDeterministically(msgB, adB))
		enc := func(n string, m, ad []byte) call {
			return call{"EncryptDeterministically(" + n + ")", func(sh any) string {
				return render(sh.(tink.DeterministicAEAD).EncryptDeterministically(m, ad))
			}}
		}
		dec := func(n string, c, ad []byte) call {
			return call{"DecryptDeterministically(" + n + ")", func(sh any) string {
				return render(sh.(tink.DeterministicAEAD).DecryptDeterministically(c, ad))
			}}
		}
		return &built{newShared: func() any { return mk() },
			threads: threads22(enc("A", msgA, adA), dec("B", cB, adB), enc("B", msgB, adB), dec("A", cA, adA)),
			probes:  []call{enc("C", msgC, nil), dec("A", cA, adA)}}
	})
}

func macScen(name string, hdf func() *keyset.Handle) *scenario {
	return add("mac-"+name, func() *built {
		hd := hdf()
		mk := func() tink.MAC { return must(mac.New(hd)) }
		p := mk()
		tA := must(p.ComputeMAC(msgA))
		tB := must(p.ComputeMAC(msgB))
		comp := func(n string, m []byte) call {
			return call{"ComputeMAC(" + n + ")", func(sh any) string { return render(sh.(tink.MAC).ComputeMAC(m)) }}
		}
		ver := func(n string, t, m []byte) call {
			return call{"VerifyMAC(" + n + ")", func(sh any) string { return render(nil, sh.(tink.MAC).VerifyMAC(t, m)) }}
		}
		return &built{newShared: func() any { return mk() },
			threads: threads22(comp("A", msgA), ver("B", tB, msgB), comp("B", msgB), ver("A", tA, msgA)),
			probes:  []call{comp("C", msgC), ver("A", tA, msgA), ver("A-vs-B", tA, msgB)}}
	})
}

func prfScen(name string, t *tinkpb.KeyTemplate) *scenario {
	return add("prf-"+name, func() *built {
		hd := handleFrom(t)
		mk := func() *prf.Set { return must(prf.NewPRFSet(hd)) }
		c := func(n string, m []byte, l uint32) call {
			return call{fmt.Sprintf("ComputePrimaryPRF(%s,%d)", n, l), func(sh any) string { return render(sh.(*prf.Set).ComputePrimaryPRF(m, l)) }}
		}
		return &built{newShared: func() any { return mk() },
			threads: threads22(c("A", msgA, 16), c("B", msgB, 5), c("B", msgB, 16), c("C", msgC, 1)),
			probes:  []call{c("C", msgC, 16)}}
	})
}

// ---- signatures ---------------------------------------------------------------------------------------

func sigScen(name string, hdf func() *keyset.Handle, withSign bool) *scenario {
	return add("signature-"+name, func() *built {
		priv := hdf()
		pub := must(priv.Public())
		type pair struct {
			s tink.Signer
			v tink.Verifier
		}
		mk := func() pair { return pair{must(signature.NewSigner(priv)), must(signature.NewVerifier(pub))} }
		p := mk()
		sA := must(p.s.Sign(msgA))
		sB := must(p.s.Sign(msgB))
		sign := func(n string, m []byte) call {
			return call{"Sign(" + n + ")", func(sh any) string { return render(sh.(pair).s.Sign(m)) }}
		}
		ver := func(n string, s, m []byte) call {
			return call{"Verify(" + n + ")", func(sh any) string { return render(nil, sh.(pair).v.Verify(s, m)) }}
		}
		b := &built{newShared: func() any { return mk() }, probes: []call{ver("A", sA, msgA), ver("A-vs-B", sA, msgB)}}
		if withSign {
			b.threads = threads22(sign("A", msgA), ver("B", sB, msgB), sign("B", msgB), ver("A", sA, msgA))
		} else {
			b.threads = threads22(ver("A", sA, msgA), ver("B", sB, msgB), ver("B", sB, msgB), ver("A-vs-B", sA, msgB))
		}
		return b
	})
}

// ---- hybrid -------------------------------------------------------------------------------------------

func hybridScen(name string, t *tinkpb.KeyTemplate) *scenario {
	return hybridScenH(name, func() *keyset.Handle { return handleFrom(t) })
}

func hybridScenH(name string, hdf func() *keyset.Handle) *scenario {
	return add("hybrid-"+name, func() *built {
		priv := hdf()
		pub := must(priv.Public())
		type pair struct {
			e tink.HybridEncrypt
			d tink.HybridDecrypt
		}
		mk := func() pair { return pair{must(hybrid.NewHybridEncrypt(pub)), must(hybrid.NewHybridDecrypt(priv))} }
		p := mk()
		cA := must(p.e.Encrypt(msgA, adA))
		cB := must(p.e.Encrypt(msgB, adB))
		enc := func(n string, m, ci []byte) call {
			return call{"Encrypt(" + n + ")", func(sh any) string { return render(sh.(pair).e.Encrypt(m, ci)) }}
		}
		dec := func(n string, c, ci []byte) call {
			return call{"Decrypt(" + n + ")", func(sh any) string { return render(sh.(pair).d.Decrypt(c, ci)) }}
		}
		return &built{newShared: func() any { return mk() },
			threads: threads22(enc("A", msgA, adA), dec("B", cB, adB), enc("B", msgB, adB), dec("A", cA, adA)),
			probes:  []call{dec("A", cA, adA), dec("A-wrong-info", cA, adB)}}
	})
}

// ---- streaming AEAD -----------------------------------------------------------------------------------

func streamScen(name string, t *tinkpb.KeyTemplate) *scenario {
	return add("streaming-"+name, func() *built {
		hd := handleFrom(t)
		mk := func() tink.StreamingAEAD { return must(streamingaead.New(hd)) }
		big := ref.Pattern(2, 300)
		encrypt := func(p tink.StreamingAEAD, m, ad []byte) ([]byte, error) {
			var buf bytes.Buffer
			w, err := p.NewEncryptingWriter(&buf, ad)
			if err != nil {
				return nil, err
			}
			if _, err := w.Write(m[:len(m)/2]); err != nil {
				return nil, err
			}
			if _, err := w.Write(m[len(m)/2:]); err != nil {
				return nil, err
			}
			if err := w.Close(); err != nil {
				return nil, err
			}
			return buf.Bytes(), nil
		}
		decrypt := func(p tink.StreamingAEAD, c, ad []byte) ([]byte, error) {
			r, err := p.NewDecryptingReader(bytes.NewReader(c), ad)
			if err != nil {
				return nil, err
			}
			return io.ReadAll(r)
		}
		p := mk()
		cA := must(encrypt(p, msgA, adA))
		cB := must(encrypt(p, big, adB))
		enc := func(n string, m, ad []byte) call {
			return call{"encrypt-stream(" + n + ")", func(sh any) string { return render(encrypt(sh.(tink.StreamingAEAD), m, ad)) }}
		}
		dec := func(n string, c, ad []byte) call {
			return call{"decrypt-stream(" + n + ")", func(sh any) string { return render(decrypt(sh.(tink.StreamingAEAD), c, ad)) }}
		}
		return &built{newShared: func() any { return mk() },
			threads: threads22(enc("A", msgA, adA), dec("B", cB, adB), enc("B", msgB, adB), dec("A", cA, adA)),
			probes:  []call{dec("A", cA, adA), dec("B-wrong-ad", cB, adA)}}
	})
}

// ---- JWT ----------------------------------------------------------------------------------------------

func jwtRaw(sub string) *jwt.RawJWT {
	return must(jwt.NewRawJWT(&jwt.RawJWTOptions{Subject: &sub, WithoutExpiration: true, CustomClaims: map[string]any{"n": 1.0, "l": []any{"x", sub}}}))
}

func jwtValidator() *jwt.Validator {
	return must(jwt.NewValidator(&jwt.ValidatorOpts{AllowMissingExpiration: true, FixedNow: time.Unix(1700000000, 0)}))
}

func renderJWT(v *jwt.VerifiedJWT, err error) string {
	if err != nil {
		return "ERR:" + err.Error()
	}
	p, err := v.JSONPayload()
	return render(p, err)
}

func jwtMACScen() {
	add("jwt-mac-hs256", func() *built {
		hd := handleFrom(jwt.HS256Template())
		mk := func() jwt.MAC { return must(jwt.NewMAC(hd)) }
		p := mk()
		tA := must(p.ComputeMACAndEncode(jwtRaw("alice")))
		tB := must(p.ComputeMACAndEncode(jwtRaw("bob-with-a-longer-subject-claim")))
		val := jwtValidator()
		comp := func(n string) call {
			return call{"ComputeMACAndEncode(" + n + ")", func(sh any) string {
				s, err := sh.(jwt.MAC).ComputeMACAndEncode(jwtRaw(n))
				return render([]byte(s), err)
			}}
		}
		ver := func(n, tok string) call {
			return call{"VerifyMACAndDecode(" + n + ")", func(sh any) string { return renderJWT(sh.(jwt.MAC).VerifyMACAndDecode(tok, val)) }}
		}
		return &built{newShared: func() any { return mk() },
			threads: threads22(comp("alice"), ver("B", tB), comp("bob-with-a-longer-subject-claim"), ver("A", tA)),
			probes:  []call{ver("A", tA), comp("carol")}}
	})
}

func jwtSigScen() {
	add("jwt-sig-es256", func() *built {
		priv := handleFrom(jwt.ES256Template())
		pub := must(priv.Public())
		type pair struct {
			s jwt.Signer
			v jwt.Verifier
		}
		mk := func() pair { return pair{must(jwt.NewSigner(priv)), must(jwt.NewVerifier(pub))} }
		p := mk()
		tA := must(p.s.SignAndEncode(jwtRaw("alice")))
		tB := must(p.s.SignAndEncode(jwtRaw("bob-with-a-longer-subject-claim")))
		val := jwtValidator()
		sign := func(n string) call {
			return call{"SignAndEncode(" + n + ")", func(sh any) string {
				s, err := sh.(pair).s.SignAndEncode(jwtRaw(n))
				return render([]byte(s), err)
			}}
		}
		ver := func(n, tok string) call {
			return call{"VerifyAndDecode(" + n + ")", func(sh any) string { return renderJWT(sh.(pair).v.VerifyAndDecode(tok, val)) }}
		}
		return &built{newShared: func() any { return mk() },
			threads: threads22(sign("alice"), ver("B", tB), sign("bob"), ver("A", tA)),
			probes:  []call{ver("A", tA)}}
	})
}

// Multi-key JWT keysets: tokens made by the OLDEST and by the NEWEST key are verified concurrently through one
// shared verifier (every candidate position is exercised; a wrapper that reorders / caches its candidates shows).
func jwtMultiKeyScen() {
	add("jwt-sig-three-keys", func() *built {
		priv := multiKeyHandle(jwt.ES256Template(), jwt.RawES256Template(), jwt.ES256Template())
		pub := must(priv.Public())
		mk := func() jwt.Verifier { return must(jwt.NewVerifier(pub)) }
		val := jwtValidator()
		tok := func(i int, sub string) string {
			return must(must(jwt.NewSigner(singleKeyHandleOf(priv, i))).SignAndEncode(jwtRaw(sub)))
		}
		t0, t1, t2 := tok(0, "by-key-0"), tok(1, "by-key-1"), tok(2, "by-key-2")
		ver := func(n, tk string) call {
			return call{"VerifyAndDecode(" + n + ")", func(sh any) string { return renderJWT(sh.(jwt.Verifier).VerifyAndDecode(tk, val)) }}
		}
		return &built{newShared: func() any { return mk() },
			threads: threads22(ver("key2", t2), ver("key0", t0), ver("key1", t1), ver("key2", t2)),
			probes:  []call{ver("key0", t0), ver("key1", t1), ver("key2", t2)}}
	})
	add("jwt-mac-three-keys", func() *built {
		hd := multiKeyHandle(jwt.HS256Template(), jwt.RawHS256Template(), jwt.HS256Template())
		mk := func() jwt.MAC { return must(jwt.NewMAC(hd)) }
		val := jwtValidator()
		tok := func(i int, sub string) string {
			return must(must(jwt.NewMAC(singleKeyHandleOf(hd, i))).ComputeMACAndEncode(jwtRaw(sub)))
		}
		t0, t1, t2 := tok(0, "by-key-0"), tok(1, "by-key-1"), tok(2, "by-key-2")
		ver := func(n, tk string) call {
			return call{"VerifyMACAndDecode(" + n + ")", func(sh any) string { return renderJWT(sh.(jwt.MAC).VerifyMACAndDecode(tk, val)) }}
		}
		return &built{newShared: func() any { return mk() },
			threads: threads22(ver("key2", t2), ver("key0", t0), ver("key1", t1), ver("key2", t2)),
			probes:  []call{ver("key0", t0), ver("key1", t1), ver("key2", t2)}}
	})
}

// multiKeyVerifyScen: signature verifier / hybrid decrypter / DAEAD / streaming over keysets of three keys where
// the inputs come from every key position.
func multiKeyClassScen() {
	add("signature-three-keys-verify", func() *built {
		priv := multiKeyHandle(signature.ED25519KeyTemplate(), signature.ED25519KeyWithoutPrefixTemplate(), signature.ECDSAP256KeyTemplate())
		pub := must(priv.Public())
		mk := func() tink.Verifier { return must(signature.NewVerifier(pub)) }
		sig := func(i int, m []byte) []byte {
			return must(must(signature.NewSigner(singleKeyHandleOf(priv, i))).Sign(m))
		}
		s0, s1, s2 := sig(0, msgA), sig(1, msgB), sig(2, msgC)
		ver := func(n string, s, m []byte) call {
			return call{"Verify(" + n + ")", func(sh any) string { return render(nil, sh.(tink.Verifier).Verify(s, m)) }}
		}
		return &built{newShared: func() any { return mk() },
			threads: threads22(ver("key2", s2, msgC), ver("key0", s0, msgA), ver("key1", s1, msgB), ver("key2", s2, msgC)),
			probes:  []call{ver("key0", s0, msgA), ver("key1", s1, msgB), ver("key1-wrong-msg", s1, msgA)}}
	})
	add("hybrid-three-keys-decrypt", func() *built {
		priv := multiKeyHandle(hybrid.DHKEM_X25519_HKDF_SHA256_HKDF_SHA256_AES_128_GCM_Key_Template(), hybrid.DHKEM_X25519_HKDF_SHA256_HKDF_SHA256_AES_128_GCM_Raw_Key_Template(), hybrid.ECIESHKDFAES128GCMKeyTemplate())
		mk := func() tink.HybridDecrypt { return must(hybrid.NewHybridDecrypt(priv)) }
		enc := func(i int, m []byte) []byte {
			return must(must(hybrid.NewHybridEncrypt(must(singleKeyHandleOf(priv, i).Public()))).Encrypt(m, adA))
		}
		c0, c1, c2 := enc(0, msgA), enc(1, msgB), enc(2, msgC)
		dec := func(n string, c []byte) call {
			return call{"Decrypt(" + n + ")", func(sh any) string { return render(sh.(tink.HybridDecrypt).Decrypt(c, adA)) }}
		}
		return &built{newShared: func() any { return mk() },
			threads: threads22(dec("key2", c2), dec("key0", c0), dec("key1", c1), dec("key2", c2)),
			probes:  []call{dec("key0", c0), dec("key1", c1)}}
	})
	add("streaming-two-keys-decrypt", func() *built {
		hd := multiKeyHandle(streamingaead.AES128GCMHKDF4KBKeyTemplate(), streamingaead.AES256CTRHMACSHA256Segment4KBKeyTemplate())
		mk := func() tink.StreamingAEAD { return must(streamingaead.New(hd)) }
		encrypt := func(i int, m []byte) []byte {
			var buf bytes.Buffer
			w := must(must(streamingaead.New(singleKeyHandleOf(hd, i))).NewEncryptingWriter(&buf, adA))
			must(w.Write(m))
			if err := w.Close(); err != nil {
				panic(err)
			}
			return buf.Bytes()
		}
		c0, c1 := encrypt(0, msgB), encrypt(1, ref.Pattern(2, 300))
		dec := func(n string, c []byte) call {
			return call{"decrypt-stream(" + n + ")", func(sh any) string {
				r, err := sh.(tink.StreamingAEAD).NewDecryptingReader(bytes.NewReader(c), adA)
				if err != nil {
					return "ERR:" + err.Error()
				}
				return render(io.ReadAll(r))
			}}
		}
		return &built{newShared: func() any { return mk() },
			threads: threads22(dec("key1", c1), dec("key0", c0), dec("key0", c0), dec("key1", c1)),
			probes:  []call{dec("key0", c0), dec("key1", c1)}}
	})
}

// ---- key derivation, handles, registries ---------------------------------------------------------------

func renderHandle(hd *keyset.Handle, err error) string {
	if err != nil {
		return "ERR:" + err.Error()
	}
	b, err := proto.MarshalOptions{Deterministic: true}.Marshal(insecurecleartextkeyset.KeysetMaterial(hd))
	return render(b, err)
}

func derivationScen() {
	add("keyderivation-derivekeyset", func() *built {
		t := must(keyderivation.CreatePRFBasedKeyTemplate(prf.HKDFSHA256PRFKeyTemplate(), aead.AES128GCMKeyTemplate()))
		hd := handleFrom(t)
		mk := func() keyderivation.KeysetDeriver { return must(keyderivation.New(hd)) }
		d := func(n string, salt []byte) call {
			return call{"DeriveKeyset(" + n + ")", func(sh any) string { return renderHandle(sh.(keyderivation.KeysetDeriver).DeriveKeyset(salt)) }}
		}
		return &built{newShared: func() any { return mk() },
			threads: threads22(d("A", msgA), d("B", msgB), d("B", msgB), d("C", msgC)),
			probes:  []call{d("A", msgA)}}
	})
}

// freshHandle parses a NEW handle object from the same keyset material (one per execution, so that
// lazily initialised state inside a handle is exercised by every schedule, not only the first one).
func freshHandle(ks *tinkpb.Keyset) *keyset.Handle {
	return must(insecurecleartextkeyset.Read(&keyset.MemReaderWriter{Keyset: proto.Clone(ks).(*tinkpb.Keyset)}))
}

func handleScen() {
	add("handle-reads-vs-primitive-construction", func() *built {
		hd := twoKeyHandle(aead.AES128GCMKeyTemplate(), aead.AES256GCMSIVKeyTemplate())
		ct := must(must(aead.New(hd)).Encrypt(msgA, adA))
		ks := insecurecleartextkeyset.KeysetMaterial(hd)
		info := call{"KeysetInfo+String+Entry+Primary", func(sh any) string {
			h := sh.(*keyset.Handle)
			p, err := h.Primary()
			if err != nil {
				return "ERR:" + err.Error()
			}
			e1, _ := h.Entry(1)
			return fmt.Sprintf("%v|%s|%d|%d|%v|%d", h.KeysetInfo(), h.String(), h.Len(), p.KeyID(), e1.KeyStatus(), e1.KeyID())
		}}
		write := call{"insecurecleartextkeyset.Write", func(sh any) string {
			var buf bytes.Buffer
			err := insecurecleartextkeyset.Write(sh.(*keyset.Handle), keyset.NewBinaryWriter(&buf))
			return render(buf.Bytes(), err)
		}}
		build := call{"aead.New+Decrypt", func(sh any) string {
			a, err := aead.New(sh.(*keyset.Handle))
			if err != nil {
				return "ERR:" + err.Error()
			}
			return render(a.Decrypt(ct, adA))
		}}
		mgr := call{"NewManagerFromHandle+Add+Handle", func(sh any) string {
			m := keyset.NewManagerFromHandle(sh.(*keyset.Handle))
			if _, err := m.Add(aead.AES128GCMKeyTemplate()); err != nil {
				return "ERR:" + err.Error()
			}
			h2, err := m.Handle()
			if err != nil {
				return "ERR:" + err.Error()
			}
			return fmt.Sprint(h2.Len())
		}}
		str := call{"String+KeysetInfo", func(sh any) string {
			h := sh.(*keyset.Handle)
			return h.String() + "|" + fmt.Sprint(h.KeysetInfo())
		}}
		return &built{newShared: func() any { return freshHandle(ks) }, threads: threads22(info, build, str, mgr), probes: []call{info, build, write}}
	})
	add("handle-public-vs-verify", func() *built {
		priv := handleFrom(signature.ED25519KeyTemplate())
		sig := must(must(signature.NewSigner(priv)).Sign(msgA))
		pubc := call{"Public()+NewVerifier+Verify", func(sh any) string {
			pub, err := sh.(*keyset.Handle).Public()
			if err != nil {
				return "ERR:" + err.Error()
			}
			v, err := signature.NewVerifier(pub)
			if err != nil {
				return "ERR:" + err.Error()
			}
			return render(nil, v.Verify(sig, msgA))
		}}
		signc := call{"NewSigner+Sign", func(sh any) string {
			s, err := signature.NewSigner(sh.(*keyset.Handle))
			if err != nil {
				return "ERR:" + err.Error()
			}
			return render(s.Sign(msgB))
		}}
		ws := call{"WriteWithNoSecrets(public)", func(sh any) string {
			pub, err := sh.(*keyset.Handle).Public()
			if err != nil {
				return "ERR:" + err.Error()
			}
			var buf bytes.Buffer
			err = pub.WriteWithNoSecrets(keyset.NewBinaryWriter(&buf))
			return render(buf.Bytes(), err)
		}}
		ks := insecurecleartextkeyset.KeysetMaterial(priv)
		return &built{newShared: func() any { return freshHandle(ks) }, threads: threads22(pubc, ws, signc, pubc), probes: []call{pubc, ws}}
	})
}

// recClient counts the events of its loggers (atomics: the harness side is not scheduled).
type recClient struct{ exports, logs, failures, loggers atomic.Int64 }

type recLogger struct{ c *recClient }

func (l recLogger) Log(uint32, int)     { l.c.logs.Add(1) }
func (l recLogger) LogFailure()         { l.c.failures.Add(1) }
func (l recLogger) LogKeyExport(uint32) { l.c.exports.Add(1) }
func (c *recClient) NewLogger(*monitoring.Context) (monitoring.Logger, error) {
	c.loggers.Add(1)
	return recLogger{c}, nil
}

type monShared struct {
	hd  *keyset.Handle
	rec *recClient
}

// monitoredHandleScen: read operations on a handle WITH monitoring annotations while a monitoring client is
// registered: key exports through Entry.Key() concurrent with the Write family (which must not report, nor
// disturb the reporting of others). Every key export is reported exactly once: the post-join probe (number of
// key-export events the client received) must be that of some sequential order of the calls.
func monitoredHandleScen() {
	type parts struct {
		shared                   func() any
		key0, key1, write, clear call
		exports, info            call
	}
	mk := func() parts {
		ks := insecurecleartextkeyset.KeysetMaterial(twoKeyHandle(aead.AES128GCMKeyTemplate(), aead.AES256GCMSIVKeyTemplate()))
		keyOf := func(i int) call {
			return call{fmt.Sprintf("Entry(%d).Key()", i), func(sh any) string {
				e, err := sh.(*monShared).hd.Entry(i)
				if err != nil {
					return "ERR:" + err.Error()
				}
				k := e.Key()
				id, _ := k.IDRequirement()
				return fmt.Sprintf("key id=%d", id)
			}}
		}
		kek := must(aead.New(handleFrom(aead.AES256GCMKeyTemplate())))
		var p parts
		p.key0, p.key1 = keyOf(0), keyOf(1)
		// the ENCRYPTED write (Handle.Write: serialises without reporting key exports) ...
		p.write = call{"Handle.Write(encrypted)", func(sh any) string {
			var buf bytes.Buffer
			err := sh.(*monShared).hd.Write(keyset.NewBinaryWriter(&buf), kek)
			return render([]byte(fmt.Sprint(buf.Len())), err)
		}}
		// ... and the cleartext export (reports one key export per key)
		p.clear = call{"insecurecleartextkeyset.Write", func(sh any) string {
			var buf bytes.Buffer
			err := insecurecleartextkeyset.Write(sh.(*monShared).hd, keyset.NewBinaryWriter(&buf))
			return render(buf.Bytes(), err)
		}}
		p.info = call{"KeysetInfo+String", func(sh any) string {
			h := sh.(*monShared).hd
			return h.String() + "|" + fmt.Sprint(h.KeysetInfo())
		}}
		p.exports = call{"key-export events received", func(sh any) string { return fmt.Sprint(sh.(*monShared).rec.exports.Load()) }}
		p.shared = func() any {
			rec := &recClient{}
			vb.ClearMonitoringClient()
			if err := vb.RegisterMonitoringClient(rec); err != nil {
				panic(err)
			}
			m := keyset.NewManagerFromHandle(freshHandle(ks))
			if err := m.SetAnnotations(map[string]string{"k": "v"}); err != nil {
				panic(err)
			}
			return &monShared{must(m.Handle()), rec}
		}
		return p
	}
	add("monitored-handle-key-export-vs-write", func() *built {
		p := mk()
		return &built{newShared: p.shared, threads: threads22(p.key0, p.write, p.write, p.key0), probes: []call{p.exports, p.info}}
	}).linearizable = true
	add("monitored-handle-cleartext-export-vs-write", func() *built {
		p := mk()
		return &built{newShared: p.shared, threads: threads22(p.clear, p.key1, p.write, p.write), probes: []call{p.exports, p.info}}
	}).linearizable = true
}

// keyAccessorScen: read operations on the KEY OBJECTS inside a shared handle (a lazily computed and cached public
// key, output prefix, encoding or comparison result would live there): PublicKey(), OutputPrefix(), Parameters(),
// IDRequirement(), Equal() against an equal key of another handle, and the key's serialisation.
func keyAccessorScen(name string, t *tinkpb.KeyTemplate) {
	add("key-accessors-"+name, func() *built {
		ks := insecurecleartextkeyset.KeysetMaterial(handleFrom(t))
		twin := must(freshHandle(ks).Entry(0)).Key()
		keyOf := func(sh any) key.Key { return must(sh.(*keyset.Handle).Entry(0)).Key() }
		describe := func(k key.Key) string {
			id, req := k.IDRequirement()
			out := fmt.Sprintf("%T id=%d/%v params=%v", k, id, req, k.Parameters().HasIDRequirement())
			if op, ok := k.(interface{ OutputPrefix() []byte }); ok {
				out += fmt.Sprintf(" prefix=%x", op.OutputPrefix())
			}
			if kk, ok := k.(interface{ KID() (string, bool) }); ok {
				kid, has := kk.KID()
				out += fmt.Sprintf(" kid=%q/%v", kid, has)
			}
			return out
		}
		acc := call{"PublicKey+OutputPrefix+Parameters", func(sh any) string {
			k := keyOf(sh)
			out := describe(k)
			if pk, ok := k.(interface{ PublicKey() (key.Key, error) }); ok {
				pub, err := pk.PublicKey()
				if err != nil {
					return "ERR:" + err.Error()
				}
				out += " | " + describe(pub)
				d, _, _, _, err := vb.SerializeKey(pub)
				if err != nil {
					return "ERR:" + err.Error()
				}
				out += fmt.Sprintf(" pub=%x", d.GetValue())
			}
			return out
		}}
		eq := call{"Equal(twin)+Parameters.Equal", func(sh any) string {
			k := keyOf(sh)
			return fmt.Sprint(k.Equal(twin), twin.Equal(k), k.Parameters().Equal(twin.Parameters()))
		}}
		ser := call{"SerializeKey", func(sh any) string {
			d, pt, id, _, err := vb.SerializeKey(keyOf(sh))
			if err != nil {
				return "ERR:" + err.Error()
			}
			return fmt.Sprintf("%x|%v|%d", d.GetValue(), pt, id)
		}}
		return &built{newShared: func() any { return freshHandle(ks) }, threads: threads22(acc, ser, eq, acc), probes: []call{acc, eq, ser}}
	})
}

// coldConstructScen: primitive CONSTRUCTION from one shared handle by two goroutines at once, on a COLD handle: every
// execution parses the keyset afresh (new handle, new key objects - nothing a previous execution warmed up), gives
// it monitoring annotations while a recording monitoring client is registered, and both threads build the primitive
// and use it once. Results must be those of the calls alone, and the monitoring events the client has received after
// the join (loggers created, operations logged, failures) must be those of some sequential order - a construction
// that raced on a lazily initialised key object, a per-handle cache or the logger set-up shows in one of them.
func coldConstructScen(name string, setup func() (ks *tinkpb.Keyset, use func(hd *keyset.Handle) string)) {
	add("cold-construct-"+name, func() *built {
		ks, use := setup()
		c := call{"New(handle)+use", func(sh any) string { return use(sh.(*monShared).hd) }}
		events := call{"monitoring events received", func(sh any) string {
			r := sh.(*monShared).rec
			return fmt.Sprintf("loggers=%d logs=%d failures=%d exports=%d", r.loggers.Load(), r.logs.Load(), r.failures.Load(), r.exports.Load())
		}}
		return &built{newShared: func() any {
			rec := &recClient{}
			vb.ClearMonitoringClient()
			if err := vb.RegisterMonitoringClient(rec); err != nil {
				panic(err)
			}
			m := keyset.NewManagerFromHandle(freshHandle(ks))
			if err := m.SetAnnotations(map[string]string{"k": "v"}); err != nil {
				panic(err)
			}
			return &monShared{must(m.Handle()), rec}
		}, threads: [][]call{{c}, {c}}, probes: []call{events, c}}
	}).linearizable = true
}

func coldConstructScens() {
	errs := func(err error) string { return "ERR:" + err.Error() }
	coldConstructScen("mac-hmac", func() (*tinkpb.Keyset, func(*keyset.Handle) string) {
		hd := handleFrom(mac.HMACSHA256Tag128KeyTemplate())
		return insecurecleartextkeyset.KeysetMaterial(hd), func(h *keyset.Handle) string {
			p, err := mac.New(h)
			if err != nil {
				return errs(err)
			}
			return render(p.ComputeMAC(msgA))
		}
	})
	coldConstructScen("aead-aesgcm", func() (*tinkpb.Keyset, func(*keyset.Handle) string) {
		hd := twoKeyHandle(aead.AES128GCMKeyTemplate(), aead.AES128CTRHMACSHA256KeyTemplate())
		ct := must(must(aead.New(hd)).Encrypt(msgA, adA))
		return insecurecleartextkeyset.KeysetMaterial(hd), func(h *keyset.Handle) string {
			p, err := aead.New(h)
			if err != nil {
				return errs(err)
			}
			return render(p.Decrypt(ct, adA))
		}
	})
	coldConstructScen("daead-aessiv", func() (*tinkpb.Keyset, func(*keyset.Handle) string) {
		hd := handleFrom(daead.AESSIVKeyTemplate())
		return insecurecleartextkeyset.KeysetMaterial(hd), func(h *keyset.Handle) string {
			p, err := daead.New(h)
			if err != nil {
				return errs(err)
			}
			return render(p.EncryptDeterministically(msgA, adA))
		}
	})
	coldConstructScen("verifier-ecdsa", func() (*tinkpb.Keyset, func(*keyset.Handle) string) {
		priv := handleFrom(signature.ECDSAP256KeyTemplate())
		sig := must(must(signature.NewSigner(priv)).Sign(msgA))
		return insecurecleartextkeyset.KeysetMaterial(must(priv.Public())), func(h *keyset.Handle) string {
			v, err := signature.NewVerifier(h)
			if err != nil {
				return errs(err)
			}
			return render(nil, v.Verify(sig, msgA))
		}
	})
	coldConstructScen("signer-ed25519", func() (*tinkpb.Keyset, func(*keyset.Handle) string) {
		priv := handleFrom(signature.ED25519KeyTemplate())
		return insecurecleartextkeyset.KeysetMaterial(priv), func(h *keyset.Handle) string {
			sg, err := signature.NewSigner(h)
			if err != nil {
				return errs(err)
			}
			return render(sg.Sign(msgA))
		}
	})
	coldConstructScen("hybrid-decrypt-hpke", func() (*tinkpb.Keyset, func(*keyset.Handle) string) {
		priv := handleFrom(hybrid.DHKEM_X25519_HKDF_SHA256_HKDF_SHA256_AES_256_GCM_Key_Template())
		ct := must(must(hybrid.NewHybridEncrypt(must(priv.Public()))).Encrypt(msgA, adA))
		return insecurecleartextkeyset.KeysetMaterial(priv), func(h *keyset.Handle) string {
			d, err := hybrid.NewHybridDecrypt(h)
			if err != nil {
				return errs(err)
			}
			return render(d.Decrypt(ct, adA))
		}
	})
	coldConstructScen("jwt-verifier-es256", func() (*tinkpb.Keyset, func(*keyset.Handle) string) {
		priv := handleFrom(jwt.ES256Template())
		tok := must(must(jwt.NewSigner(priv)).SignAndEncode(jwtRaw("alice")))
		val := jwtValidator()
		return insecurecleartextkeyset.KeysetMaterial(must(priv.Public())), func(h *keyset.Handle) string {
			v, err := jwt.NewVerifier(h)
			if err != nil {
				return errs(err)
			}
			return renderJWT(v.VerifyAndDecode(tok, val))
		}
	})
	coldConstructScen("jwt-mac-hs256", func() (*tinkpb.Keyset, func(*keyset.Handle) string) {
		hd := handleFrom(jwt.HS256Template())
		return insecurecleartextkeyset.KeysetMaterial(hd), func(h *keyset.Handle) string {
			p, err := jwt.NewMAC(h)
			if err != nil {
				return errs(err)
			}
			t, err := p.ComputeMACAndEncode(jwtRaw("alice"))
			return render([]byte(t), err)
		}
	})
	coldConstructScen("prf-hkdf", func() (*tinkpb.Keyset, func(*keyset.Handle) string) {
		hd := handleFrom(prf.HKDFSHA256PRFKeyTemplate())
		return insecurecleartextkeyset.KeysetMaterial(hd), func(h *keyset.Handle) string {
			ps, err := prf.NewPRFSet(h)
			if err != nil {
				return errs(err)
			}
			return render(ps.ComputePrimaryPRF(msgA, 40))
		}
	})
	coldConstructScen("keyderivation", func() (*tinkpb.Keyset, func(*keyset.Handle) string) {
		t := must(keyderivation.CreatePRFBasedKeyTemplate(prf.HKDFSHA256PRFKeyTemplate(), aead.AES128GCMKeyTemplate()))
		hd := handleFrom(t)
		return insecurecleartextkeyset.KeysetMaterial(hd), func(h *keyset.Handle) string {
			d, err := keyderivation.New(h)
			if err != nil {
				return errs(err)
			}
			return renderHandle(d.DeriveKeyset(msgA))
		}
	})
}

func registryScen() {
	add("registry-lookups", func() *built {
		kd := must(registry.NewKeyData(aead.AES128GCMKeyTemplate()))
		ct := must(must(registry.PrimitiveFromKeyData(kd)).(tink.AEAD).Encrypt(msgA, adA))
		get := call{"GetKeyManager(AesGcmKey)", func(any) string {
			km, err := registry.GetKeyManager("type.googleapis.com/google.crypto.tink.AesGcmKey")
			if err != nil {
				return "ERR:" + err.Error()
			}
			return km.TypeURL()
		}}
		getBad := call{"GetKeyManager(unknown)", func(any) string {
			_, err := registry.GetKeyManager("type.googleapis.com/verif.Nope")
			return render(nil, err)
		}}
		prim := call{"PrimitiveFromKeyData+Decrypt", func(any) string {
			p, err := registry.PrimitiveFromKeyData(kd)
			if err != nil {
				return "ERR:" + err.Error()
			}
			return render(p.(tink.AEAD).Decrypt(ct, adA))
		}}
		ser := call{"ParseKey+SerializeKey", func(any) string {
			k, err := vb.ParseKey(kd, tinkpb.OutputPrefixType_TINK, 7)
			if err != nil {
				return "ERR:" + err.Error()
			}
			d, pt, id, _, err := vb.SerializeKey(k)
			if err != nil {
				return "ERR:" + err.Error()
			}
			return fmt.Sprintf("%x|%v|%d", d.GetValue(), pt, id)
		}}
		newkd := call{"NewKeyData(HMAC)", func(any) string {
			d, err := registry.NewKeyData(mac.HMACSHA256Tag128KeyTemplate())
			if err != nil {
				return "ERR:" + err.Error()
			}
			return render(d.GetValue(), nil)
		}}
		return &built{newShared: func() any { return nil }, threads: threads22(get, prim, ser, newkd), probes: []call{getBad, prim, ser}}
	})
	add("registry-newhandle-and-jwk", func() *built {
		jpriv := handleFrom(jwt.ES256Template())
		jpub := must(jpriv.Public())
		nh := func(n string, t *tinkpb.KeyTemplate) call {
			return call{"keyset.NewHandle(" + n + ")", func(any) string {
				hd, err := keyset.NewHandle(t)
				if err != nil {
					return "ERR:" + err.Error()
				}
				return renderHandle(hd, nil)
			}}
		}
		jwk := call{"JWKSetFromPublicKeysetHandle", func(any) string { return render(jwt.JWKSetFromPublicKeysetHandle(jpub)) }}
		jwkBack := call{"JWKSetToPublicKeysetHandle", func(any) string {
			js, err := jwt.JWKSetFromPublicKeysetHandle(jpub)
			if err != nil {
				return "ERR:" + err.Error()
			}
			hd, err := jwt.JWKSetToPublicKeysetHandle(js)
			if err != nil {
				return "ERR:" + err.Error()
			}
			return fmt.Sprint(hd.Len())
		}}
		return &built{newShared: func() any { return nil },
			threads: threads22(nh("AES128GCM", aead.AES128GCMKeyTemplate()), jwk, nh("HMAC", mac.HMACSHA256Tag128KeyTemplate()), jwkBack),
			probes:  []call{jwk}}
	})
	s := add("registry-kms-clients", func() *built {
		c1 := must(fakekms.NewClient("fake-kms://a"))
		c2 := must(fakekms.NewClient("fake-kms://"))
		reg := func(n string, c registry.KMSClient) call {
			return call{"RegisterKMSClient(" + n + ")", func(any) string { registry.RegisterKMSClient(c); return "ok" }}
		}
		get := func(uri string) call {
			return call{"GetKMSClient(" + uri + ")", func(any) string {
				c, err := registry.GetKMSClient(uri)
				if err != nil {
					return "ERR"
				}
				switch c {
				case c1:
					return "client-a"
				case c2:
					return "client-any"
				}
				return "other"
			}}
		}
		clear := call{"ClearKMSClients", func(any) string { registry.ClearKMSClients(); return "ok" }}
		return &built{newShared: func() any { registry.ClearKMSClients(); return nil },
			threads: [][]call{{reg("a", c1), get("fake-kms://abc")}, {reg("any", c2), get("fake-kms://abc")}, {clear, get("fake-kms://zzz")}},
			probes:  []call{get("fake-kms://abc"), get("fake-kms://zzz")}}
	})
	s.linearizable = true
	s.small = true
	s2 := add("registry-monitoring-client", func() *built {
		reg := call{"RegisterMonitoringClient", func(any) string { return render(nil, vb.RegisterMonitoringClient(nopClient{})) }}
		clear := call{"ClearMonitoringClient", func(any) string { vb.ClearMonitoringClient(); return "ok" }}
		use := call{"mac.New(annotated handle)", func(sh any) string {
			_, err := mac.New(sh.(*keyset.Handle))
			return render(nil, err)
		}}
		m := keyset.NewManager()
		id := must(m.Add(mac.HMACSHA256Tag128KeyTemplate()))
		m.SetPrimary(id)
		m.SetAnnotations(map[string]string{"k": "v"})
		hd := must(m.Handle())
		return &built{newShared: func() any { vb.ClearMonitoringClient(); return hd },
			threads: [][]call{{reg, use}, {reg, clear}}, probes: []call{reg}}
	})
	s2.linearizable = true
	s2.small = true
}

func registerScenarios() {
	aeadScen("aesgcm", aeadFromTemplate(aead.AES128GCMKeyTemplate())).small = true
	aeadScen("aesgcmsiv", aeadFromTemplate(aead.AES256GCMSIVKeyTemplate()))
	aeadScen("aesctrhmac", aeadFromTemplate(aead.AES128CTRHMACSHA256KeyTemplate()))
	aeadScen("chacha20poly1305", aeadFromTemplate(aead.ChaCha20Poly1305KeyTemplate())).small = true
	aeadScen("xchacha20poly1305", aeadFromTemplate(aead.XChaCha20Poly1305KeyTemplate())).small = true
	aeadScen("xaesgcm", aeadFromTemplate(aead.XAES256GCM192BitNonceKeyTemplate()))
	{
		var hd *keyset.Handle
		aeadScen("two-key-keyset", func() tink.AEAD {
			if hd == nil {
				hd = twoKeyHandle(aead.AES256GCMSIVKeyTemplate(), aead.AES128GCMKeyTemplate())
			}
			return must(aead.New(hd))
		})
	}
	{
		var kek tink.AEAD
		aeadScen("kms-envelope", func() tink.AEAD {
			if kek == nil {
				kek = must(fakekms.NewAEAD(must(fakekms.NewKeyURI())))
			}
			return aead.NewKMSEnvelopeAEAD2(aead.AES128GCMKeyTemplate(), kek)
		})
	}
	crossOf(daeadScen("aessiv", func() *keyset.Handle { return handleFrom(daead.AESSIVKeyTemplate()) }))
	macScen("hmac-sha256", func() *keyset.Handle { return handleFrom(mac.HMACSHA256Tag128KeyTemplate()) }).small = true
	crossOf(macScen("hmac-sha512", func() *keyset.Handle { return handleFrom(mac.HMACSHA512Tag256KeyTemplate()) }))
	crossOf(macScen("aescmac", func() *keyset.Handle { return handleFrom(mac.AESCMACTag128KeyTemplate()) }))
	macScen("two-key-keyset", func() *keyset.Handle {
		return twoKeyHandle(mac.AESCMACTag128KeyTemplate(), mac.HMACSHA256Tag128KeyTemplate())
	})
	crossOf(prfScen("hmac", prf.HMACSHA256PRFKeyTemplate()))
	crossOf(prfScen("hkdf", prf.HKDFSHA256PRFKeyTemplate()))
	crossOf(prfScen("aescmac", prf.AESCMACPRFKeyTemplate()))
	crossOf(sigScen("ecdsa-p256", func() *keyset.Handle { return handleFrom(signature.ECDSAP256KeyTemplate()) }, true))
	crossOf(sigScen("ed25519", func() *keyset.Handle { return handleFrom(signature.ED25519KeyTemplate()) }, true))
	crossOf(sigScen("rsassapss-3072", func() *keyset.Handle { return handleFrom(signature.RSA_SSA_PSS_3072_SHA256_32_F4_Key_Template()) }, true))
	sigScen("rsassapkcs1-3072", func() *keyset.Handle { return handleFrom(signature.RSA_SSA_PKCS1_3072_SHA256_F4_Key_Template()) }, true)
	crossOf(sigScen("mldsa65", func() *keyset.Handle {
		return handleFromParams(must(mldsa.NewParameters(mldsa.MLDSA65, mldsa.VariantTink)))
	}, true))
	sigScen("composite-mldsa65-ed25519", func() *keyset.Handle {
		return handleFromParams(must(compositemldsa.NewParameters(compositemldsa.Ed25519, compositemldsa.MLDSA65, compositemldsa.VariantTink)))
	}, true)
	// LEGACY output prefix: sign / MAC over data || 0x00 (the inputs are shared slices with spare capacity)
	sigScen("ed25519-legacy-variant", func() *keyset.Handle {
		p := must(ed25519key.NewParameters(ed25519key.VariantLegacy))
		return handleFromParams(&p)
	}, true)
	sigScen("ecdsa-p256-legacy-variant", func() *keyset.Handle {
		return handleFromParams(must(ecdsakey.NewParameters(ecdsakey.NistP256, ecdsakey.SHA256, ecdsakey.DER, ecdsakey.VariantLegacy)))
	}, true)
	macScen("hmac-legacy-variant", func() *keyset.Handle {
		return handleFromParams(must(hmackey.NewParameters(hmackey.ParametersOpts{KeySizeInBytes: 32, TagSizeInBytes: 16, HashType: hmackey.SHA256, Variant: hmackey.VariantLegacy})))
	})
	macScen("aescmac-legacy-variant", func() *keyset.Handle {
		return handleFromParams(must(cmackey.NewParameters(cmackey.ParametersOpts{KeySizeInBytes: 32, TagSizeInBytes: 16, Variant: cmackey.VariantLegacy})))
	})
	sigScen("legacy-adapter-custom-keymanager", legacySigHandle, true)
	macScen("legacy-adapter-custom-keymanager", legacyMACHandle)
	crossOf(sigScen("slhdsa-sha2-128s-verify", func() *keyset.Handle {
		return handleFromParams(must(slhdsa.NewParameters(slhdsa.SHA2, 64, slhdsa.SmallSignature, slhdsa.VariantTink)))
	}, false))
	crossOf(hybridScen("hpke-x25519", hybrid.DHKEM_X25519_HKDF_SHA256_HKDF_SHA256_AES_128_GCM_Key_Template()))
	hybridScen("hpke-p256", hybrid.DHKEM_P256_HKDF_SHA256_HKDF_SHA256_AES_256_GCM_Raw_Key_Template())
	hybridScen("ecies-p256-gcm", hybrid.ECIESHKDFAES128GCMKeyTemplate())
	crossOf(hybridScen("ecies-p256-ctrhmac", hybrid.ECIESHKDFAES128CTRHMACSHA256KeyTemplate()))
	hybridScenH("hpke-xwing", func() *keyset.Handle {
		return handleFromParams(must(hpke.NewParameters(hpke.ParametersOpts{KEMID: hpke.X_WING, KDFID: hpke.HKDFSHA256, AEADID: hpke.AES256GCM, Variant: hpke.VariantTink})))
	})
	hybridScenH("hpke-mlkem768", func() *keyset.Handle {
		return handleFromParams(must(hpke.NewParameters(hpke.ParametersOpts{KEMID: hpke.ML_KEM768, KDFID: hpke.HKDFSHA256, AEADID: hpke.AES128GCM, Variant: hpke.VariantNoPrefix})))
	})
	crossOf(streamScen("aesgcmhkdf", streamingaead.AES128GCMHKDF4KBKeyTemplate()))
	crossOf(streamScen("aesctrhmac", streamingaead.AES128CTRHMACSHA256Segment4KBKeyTemplate()))
	aeadCross("aesgcm", aead.AES128GCMKeyTemplate())
	aeadCross("aesgcmsiv", aead.AES256GCMSIVKeyTemplate())
	aeadCross("aesctrhmac", aead.AES128CTRHMACSHA256KeyTemplate())
	aeadCross("xaesgcm", aead.XAES256GCM192BitNonceKeyTemplate())
	aeadCross("xchacha20poly1305", aead.XChaCha20Poly1305KeyTemplate())
	jwtMACScen()
	jwtSigScen()
	jwtMultiKeyScen()
	multiKeyClassScen()
	derivationScen()
	handleScen()
	monitoredHandleScen()
	coldConstructScens()
	keyAccessorScen("ecdsa-p256", signature.ECDSAP256KeyTemplate())
	keyAccessorScen("rsa-ssa-pkcs1-3072", signature.RSA_SSA_PKCS1_3072_SHA256_F4_Key_Template())
	keyAccessorScen("ed25519", signature.ED25519KeyTemplate())
	keyAccessorScen("hpke-x25519", hybrid.DHKEM_X25519_HKDF_SHA256_HKDF_SHA256_AES_256_GCM_Key_Template())
	keyAccessorScen("ecies-p256", hybrid.ECIESHKDFAES128GCMKeyTemplate())
	keyAccessorScen("aes-ctr-hmac", aead.AES128CTRHMACSHA256KeyTemplate())
	keyAccessorScen("jwt-es256", jwt.ES256Template())
	registryScen()
	// three threads, one call each, on the hand-written symmetric cores
	add("three-threads-aesgcmsiv", func() *built {
		mk := aeadFromTemplate(aead.AES256GCMSIVKeyTemplate())
		p := mk()
		cA := must(p.Encrypt(msgA, adA))
		return &built{newShared: func() any { return mk() },
			threads: [][]call{
				{{"Encrypt(B)", func(sh any) string { return render(sh.(tink.AEAD).Encrypt(msgB, adB)) }}},
				{{"Decrypt(A)", func(sh any) string { return render(sh.(tink.AEAD).Decrypt(cA, adA)) }}},
				{{"Encrypt(C)", func(sh any) string { return render(sh.(tink.AEAD).Encrypt(msgC, nil)) }}}},
			probes: []call{{"Decrypt(A)", func(sh any) string { return render(sh.(tink.AEAD).Decrypt(cA, adA)) }}}}
	})
	add("three-threads-aessiv-cmac", func() *built {
		hd := handleFrom(daead.AESSIVKeyTemplate())
		mk := func() tink.DeterministicAEAD { return must(daead.New(hd)) }
		cA := must(mk().EncryptDeterministically(msgA, adA))
		e := func(n string, m, ad []byte) call {
			return call{"EncryptDeterministically(" + n + ")", func(sh any) string {
				return render(sh.(tink.DeterministicAEAD).EncryptDeterministically(m, ad))
			}}
		}
		return &built{newShared: func() any { return mk() },
			threads: [][]call{{e("B", msgB, adB)}, {{"DecryptDeterministically(A)", func(sh any) string {
				return render(sh.(tink.DeterministicAEAD).DecryptDeterministically(cA, adA))
			}}}, {e("C", msgC, nil)}},
			probes: []call{e("A", msgA, adA)}}
	})
}

// ---- legacy (non-full) primitives behind the factory adapters: custom key managers ------------------------

const legacyMACURL = "type.googleapis.com/verif.c18.LegacyMacKey"
const legacySignURL = "type.googleapis.com/verif.c18.LegacyEd25519PrivateKey"
const legacyVerifyURL = "type.googleapis.com/verif.c18.LegacyEd25519PublicKey"

type legacyKM struct {
	url  string
	prim func(serializedKey []byte) (any, error)
	pub  func(serializedKey []byte) (*tinkpb.KeyData, error)
}

func (k *legacyKM) Primitive(b []byte) (any, error)      { return k.prim(b) }
func (k *legacyKM) NewKey([]byte) (proto.Message, error) { return nil, fmt.Errorf("not supported") }
func (k *legacyKM) DoesSupport(u string) bool            { return u == k.url }
func (k *legacyKM) TypeURL() string                      { return k.url }
func (k *legacyKM) NewKeyData([]byte) (*tinkpb.KeyData, error) {
	return nil, fmt.Errorf("not supported")
}

type legacyPrivKM struct{ legacyKM }

func (k *legacyPrivKM) PublicKeyData(b []byte) (*tinkpb.KeyData, error) { return k.pub(b) }

var legacyOnce sync.Once

func registerLegacy() {
	legacyOnce.Do(func() {
		must(0, registry.RegisterKeyManager(&legacyKM{url: legacyMACURL, prim: func(b []byte) (any, error) { return macsubtle.NewHMAC("SHA256", b, 16) }}))
		must(0, registry.RegisterKeyManager(&legacyPrivKM{legacyKM{url: legacySignURL,
			prim: func(b []byte) (any, error) { return sigsubtle.NewED25519Signer(b) },
			pub: func(b []byte) (*tinkpb.KeyData, error) {
				pub := ed25519.NewKeyFromSeed(b).Public().(ed25519.PublicKey)
				return &tinkpb.KeyData{TypeUrl: legacyVerifyURL, Value: pub, KeyMaterialType: tinkpb.KeyData_ASYMMETRIC_PUBLIC}, nil
			}}}))
		must(0, registry.RegisterKeyManager(&legacyKM{url: legacyVerifyURL, prim: func(b []byte) (any, error) { return sigsubtle.NewED25519Verifier(b) }}))
	})
}

func legacyHandle(url string, value []byte, mt tinkpb.KeyData_KeyMaterialType) *keyset.Handle {
	registerLegacy()
	ks := &tinkpb.Keyset{PrimaryKeyId: 0x01020304, Key: []*tinkpb.Keyset_Key{{KeyData: &tinkpb.KeyData{TypeUrl: url, Value: value, KeyMaterialType: mt},
		Status: tinkpb.KeyStatusType_ENABLED, KeyId: 0x01020304, OutputPrefixType: tinkpb.OutputPrefixType_LEGACY}}}
	return must(testkeyset.NewHandle(ks))
}

func legacyMACHandle() *keyset.Handle {
	return legacyHandle(legacyMACURL, ref.KeyBytes("c18-legacy-mac", 32), tinkpb.KeyData_SYMMETRIC)
}

func legacySigHandle() *keyset.Handle {
	return legacyHandle(legacySignURL, ref.KeyBytes("c18-legacy-sig", 32), tinkpb.KeyData_ASYMMETRIC_PRIVATE)
}

type nopLogger struct{}

func (nopLogger) Log(uint32, int)     {}
func (nopLogger) LogFailure()         {}
func (nopLogger) LogKeyExport(uint32) {}

type nopClient struct{}

func (nopClient) NewLogger(*monitoring.Context) (monitoring.Logger, error) { return nopLogger{}, nil }
