// C01: AEAD decrypts what it encrypts, in the documented standard wire format.
//
// Engine E1 (bounded exhaustive enumeration). For every configuration of the catalogue (verif/props/aeadcfg:
// key type x sizes x variant x id x construction path, plus the KMS envelope over testing/fakekms with every
// DEK template) and every (plaintext length, AD) of the message domain:
//   (1) Decrypt(Encrypt(p,ad),ad) = p; nil and empty AD interchangeable in both directions;
//   (2) the ciphertext is reference-prefix || nonce || body and body is BYTE-IDENTICAL to the independent
//       reference algorithm (verif/ref/aead.go) run with the nonce read from tink's ciphertext; the reference
//       decrypts it;
//   (3) reverse interop: the reference encrypts with reference-chosen nonces (all-00, all-FF, FF..FE, ..FFFFFFFF,
//       counter) and tink decrypts;
//   (4) two encryptions never share the nonce ("fresh nonce/salt").
// Section kms-envelope-odd-kek (oddkek.go): the envelope AEAD over key-encryption AEADs with odd-but-legal answers
// (results sharing memory with the arguments, cached results, failing calls), see there.
// Narrow seams (export shim, overlay group c01) are enumerated directly against the reference: polyvalDot,
// Polyval.Update, the RFC 8452 CTR, deriveKeys, XAES derivePerMessageKey.
// Fallback (shims do not compile against a refactored tree, see check.sh / Section.Seam): the CTR, deriveKeys and
// XAES sections are skipped; polyval-dot runs the same pairs through the exported Polyval of internal/aead and
// aead/subtle; polyval-update and every key-type section use exported API only and run unchanged.
//
// Don't care: which error text is returned; behaviour for invalid parameters (refusal of AES-192 etc. is not part
// of the statement); the distribution of nonces beyond "two consecutive ones differ"; timing.
package main

import (
	"bytes"
	"encoding/hex"
	"fmt"

	aeadsubtle "github.com/tink-crypto/tink-go/v2/aead/subtle"
	"github.com/tink-crypto/tink-go/v2/aead/xaesgcm"
	"github.com/tink-crypto/tink-go/v2/tink"
	"github.com/tink-crypto/tink-go/v2/verifbridge/c01b"
	"verif/h"
	cfgs "verif/props/aeadcfg"
	"verif/ref"
	"verif/tk"
)

type msg struct{ n, ad, pat int } // ad = -1: nil AD

func (m msg) pt() []byte { return ref.Pattern(m.pat, m.n) }
func (m msg) adBytes() []byte {
	if m.ad < 0 {
		return nil
	}
	return ref.Pattern((m.pat+1)%4, m.ad) // make([]byte,0) for ad == 0: empty but non-nil
}

func rng(a, b int) []int {
	var r []int
	for i := a; i <= b; i++ {
		r = append(r, i)
	}
	return r
}

func prod(out []msg, ns, ads []int, pat int) []msg {
	for _, n := range ns {
		for _, a := range ads {
			p := pat
			if p < 0 {
				p = (n + a + 3) % 4
			}
			out = append(out, msg{n, a, p})
		}
	}
	return out
}

// domain returns the message domain. level 0 = full (primitive constructor path, default id),
// 1 = medium (other construction paths), 2 = small (non-default ids: only the prefix differs).
func domain(thorough bool, level int) []msg {
	var d []msg
	if !thorough {
		switch level {
		case 0:
			d = prod(d, append(rng(0, 64), 255, 256, 257, 1023, 1024, 1025), []int{-1, 0, 1, 5, 16, 17, 40}, -1)
			d = prod(d, []int{0, 1, 16, 17, 33}, []int{255, 256, 257}, -1)
			d = prod(d, []int{4095, 4096, 4097, 65535, 65536, 65537}, []int{-1, 17}, -1)
			// every plaintext length (and, separately, every AD length) well beyond the first blocks: batched /
			// strided processing of leading blocks only shows for particular length classes
			d = prod(d, rng(65, 420), []int{5}, -1)
			d = prod(d, []int{17}, rng(41, 420), -1)
			// windows around powers of two up to 8 KiB (batch / chunk sizes): plaintext and AD separately
			d = prod(d, ref.LongLengths(13, 2), []int{5}, -1)
			d = prod(d, []int{17}, ref.LongLengths(13, 2), -1)
		case 1:
			d = prod(d, append(rng(0, 17), 31, 32, 33, 48, 64, 255, 256, 257), []int{-1, 0, 1, 17}, -1)
			d = prod(d, []int{0, 17}, []int{256}, -1)
		default:
			d = prod(d, []int{0, 1, 16, 17}, []int{-1, 1}, -1)
		}
		return d
	}
	switch level {
	case 0:
		d = prod(d, rng(0, 80), append([]int{-1}, rng(0, 40)...), -1)
		d = prod(d, []int{255, 256, 257, 1023, 1024, 1025, 4095, 4096, 4097}, []int{-1, 0, 1, 16, 17, 255, 256, 257}, -1)
		d = prod(d, []int{65535, 65536, 65537}, []int{-1, 17, 257}, -1)
		for pat := 0; pat < 4; pat++ {
			d = prod(d, []int{0, 1, 15, 16, 17, 31, 32, 33, 64}, []int{255, 256, 257}, pat)
			d = prod(d, rng(0, 80), []int{-1, 5}, pat)
		}
		d = prod(d, rng(81, 1300), []int{-1, 5}, -1)
		d = prod(d, []int{17, 64}, rng(41, 1300), -1)
		d = prod(d, ref.LongLengths(16, 17), []int{-1, 5}, -1)
		d = prod(d, []int{17}, ref.LongLengths(16, 17), -1)
	case 1:
		d = prod(d, append(rng(0, 33), 63, 64, 65, 255, 256, 257, 1023, 1024, 1025), []int{-1, 0, 1, 16, 17}, -1)
		d = prod(d, []int{65535, 65536, 65537}, []int{-1}, -1)
	default:
		d = prod(d, []int{0, 1, 15, 16, 17, 32}, []int{-1, 0, 1}, -1)
	}
	return d
}

func reverseDomain(level int) []msg {
	if level >= 2 {
		return prod(nil, []int{0, 17}, []int{-1}, -1)
	}
	return prod(nil, []int{0, 1, 15, 16, 17, 32, 33, 48, 80}, []int{-1, 0, 5}, -1)
}

// noPanic wraps a primitive so that a panic inside tink surfaces as an error (=> a round-trip failure).
type noPanic struct{ a tink.AEAD }

func (n noPanic) Encrypt(pt, ad []byte) (out []byte, err error) {
	if p, msg := h.Try(func() { out, err = n.a.Encrypt(pt, ad) }); p {
		return nil, fmt.Errorf("PANIC in Encrypt: %s", msg)
	}
	return
}

func (n noPanic) Decrypt(ct, ad []byte) (out []byte, err error) {
	if p, msg := h.Try(func() { out, err = n.a.Decrypt(ct, ad) }); p {
		return nil, fmt.Errorf("PANIC in Decrypt: %s", msg)
	}
	return
}

// exercise drives one primitive through the message domain.
func exercise(x *h.X, c *cfgs.Cfg, a tink.AEAD, level int) {
	cfg := c.String()
	a = noPanic{a}
	first := true
	for _, m := range domain(x.Thorough(), level) {
		pt, ad := m.pt(), m.adBytes()
		x.Eval(1)
		ct, err := a.Encrypt(pt, ad)
		if err != nil {
			x.Fail("encrypt-error", "%s: Encrypt(len %d, ad %d) failed: %v", cfg, m.n, m.ad, err)
			return
		}
		if k, why := c.CheckWire(ct, pt, ad); k != "" {
			x.Fail(k, "%s: plaintext len %d pattern %d, AD len %d: %s", cfg, m.n, m.pat, m.ad, why)
			return
		}
		got, err := a.Decrypt(ct, ad)
		if err != nil || !bytes.Equal(got, pt) {
			x.Fail("roundtrip", "%s: Decrypt(Encrypt(p,ad),ad) != p for plaintext len %d, AD len %d: err=%v got=%s", cfg, m.n, m.ad, err, tk.Hex(got))
			return
		}
		// one-buffer layouts: the caller keeps header (= associated data) and body in ONE buffer, so the AD slice has
		// spare capacity that IS the ciphertext / plaintext. Round trip must hold there too (an implementation that
		// builds its MAC / AEAD input with append(ad, ...) authenticates, or encrypts, bytes it has just overwritten).
		if m.ad > 0 {
			buf := append(append(make([]byte, 0, len(ad)+len(ct)+16), ad...), ct...)
			got, err := a.Decrypt(buf[len(ad):], buf[:len(ad)])
			if err != nil || !bytes.Equal(got, pt) {
				x.Fail("roundtrip-one-buffer", "%s: Decrypt(buf[h:], buf[:h]) with AD and ciphertext adjacent in one buffer fails for plaintext len %d, AD len %d: err=%v", cfg, m.n, m.ad, err)
				return
			}
			if !bytes.Equal(buf[:len(ad)], ad) || !bytes.Equal(buf[len(ad):], ct) {
				x.Fail("roundtrip-one-buffer", "%s: Decrypt changed the caller's AD||ciphertext buffer (plaintext len %d, AD len %d)", cfg, m.n, m.ad)
				return
			}
			pbuf := append(append(make([]byte, 0, len(ad)+len(pt)+64), ad...), pt...)
			ct3, err := a.Encrypt(pbuf[len(ad):], pbuf[:len(ad)])
			if err != nil {
				x.Fail("encrypt-error", "%s: Encrypt(buf[h:], buf[:h]) failed: %v", cfg, err)
				return
			}
			if k, why := c.CheckWire(ct3, pt, ad); k != "" {
				x.Fail(k, "%s: AD and plaintext adjacent in one buffer, plaintext len %d, AD len %d: %s", cfg, m.n, m.ad, why)
				return
			}
		}
		if m.ad <= 0 {
			// nil <-> empty AD
			var other []byte
			if m.ad < 0 {
				other = []byte{}
			}
			got, err := a.Decrypt(ct, other)
			if err != nil || !bytes.Equal(got, pt) {
				x.Fail("nil-empty-ad", "%s: ciphertext made with AD %v does not decrypt with AD %v (plaintext len %d): %v", cfg, ad == nil, other == nil, m.n, err)
				return
			}
		}
		if first {
			first = false
			ct2, err := a.Encrypt(pt, ad)
			if err != nil {
				x.Fail("encrypt-error", "%s: second Encrypt failed: %v", cfg, err)
				return
			}
			if bytes.Equal(ct, ct2) || (c.Kind != cfgs.ENVELOPE && bytes.Equal(c.SplitNonce(ct), c.SplitNonce(ct2))) {
				x.Fail("nonce-reuse", "%s: two encryptions used the same nonce/salt %x (not fresh)", cfg, c.SplitNonce(ct))
				return
			}
		}
	}
	// the caller REUSES its plaintext / AD buffers back to back (same slices, new contents): each call must work on the
	// contents at that call (an implementation keeping an argument, or something derived from it, by reference does not)
	{
		ptA, adA := ref.Pattern(2, 37), ref.Pattern(3, 21)
		ptB, adB := ref.KeyBytes("c01-reuse-pt", 37), ref.KeyBytes("c01-reuse-ad", 21)
		ptBuf, adBuf := bytes.Clone(ptA), bytes.Clone(adA)
		ct1, err1 := a.Encrypt(ptBuf, adBuf)
		copy(ptBuf, ptB)
		copy(adBuf, adB)
		ct2, err2 := a.Encrypt(ptBuf, adBuf)
		x.Eval(4)
		if err1 != nil || err2 != nil {
			x.Fail("encrypt-error", "%s: Encrypt on reused buffers: %v %v", cfg, err1, err2)
			return
		}
		if k, why := c.CheckWire(ct2, ptB, adB); k != "" {
			x.Fail("buffer-reuse", "%s: plaintext/AD buffers rewritten in place between two Encrypt calls: second ciphertext is not an encryption of the second contents (%s: %s)", cfg, k, why)
			return
		}
		ctBuf, adBuf2 := bytes.Clone(ct1), bytes.Clone(adA)
		if got, err := a.Decrypt(ctBuf, adBuf2); err != nil || !bytes.Equal(got, ptA) {
			x.Fail("roundtrip", "%s: Decrypt of the first ciphertext: %v", cfg, err)
			return
		}
		copy(adBuf2, adB)
		if _, err := a.Decrypt(ctBuf, adBuf2); err == nil {
			x.Fail("buffer-reuse", "%s: AD buffer rewritten in place between two Decrypt calls: the first ciphertext is still accepted under the second AD", cfg)
			return
		}
		if len(ct2) == len(ctBuf) {
			copy(ctBuf, ct2)
			if got, err := a.Decrypt(ctBuf, adBuf2); err != nil || !bytes.Equal(got, ptB) {
				x.Fail("buffer-reuse", "%s: ciphertext and AD buffers rewritten in place: the second ciphertext is not decrypted to the second plaintext: %v", cfg, err)
				return
			}
		}
	}
	// reverse interop
	for ni, nonce := range c.RefNonces() {
		for _, m := range reverseDomain(level) {
			pt, ad := m.pt(), m.adBytes()
			x.Eval(1)
			rc := c.RefEncrypt(nonce, pt, ad)
			got, err := a.Decrypt(rc, ad)
			if err != nil || !bytes.Equal(got, pt) {
				x.Fail("reverse-interop", "%s: tink does not decrypt the reference ciphertext (nonce #%d %x, plaintext len %d, AD len %d): err=%v got=%s ct=%s", cfg, ni, nonce, m.n, m.ad, err, tk.Hex(got), tk.Hex(rc))
				return
			}
			if m.ad <= 0 {
				var other []byte
				if m.ad < 0 {
					other = []byte{}
				}
				got, err := a.Decrypt(rc, other)
				if err != nil || !bytes.Equal(got, pt) {
					x.Fail("nil-empty-ad", "%s: reference ciphertext made with nil=%v AD does not decrypt with nil=%v AD: %v", cfg, ad == nil, other == nil, err)
					return
				}
			}
		}
	}
}

func kindSection(kind cfgs.Kind) func(x *h.X) {
	return func(x *h.X) {
		keys := 2
		if x.Thorough() {
			keys = 4
		}
		c, ok := cfgs.Choose(x, kind, cfgs.Opts{AllIDs: x.Thorough(), Keys: keys})
		if !ok {
			return
		}
		a, err := c.Build()
		if err != nil {
			x.Fail("construct", "%s: %v", c, err)
			return
		}
		level := 1
		if c.Path == cfgs.PathCtor || c.Path == cfgs.PathEnv2 || (x.Thorough() && kind != cfgs.CTRHMAC) {
			level = 0 // thorough: the cheap kinds get the full message domain on every construction path
		}
		if c.ID != tk.IDs[0] {
			level = 2
		}
		x.NonTrivial()
		x.Outcome(fmt.Sprintf("%v/%v/%s/level%d", kind, c.Variant, c.Path, level))
		exercise(x, c, a, level)
	}
}

// ---------- narrow seams ----------

func bitFE(i int) ref.AeadFE {
	if i < 64 {
		return ref.AeadFE{Lo: 1 << i}
	}
	return ref.AeadFE{Hi: 1 << (i - 64)}
}

func xorFE(a, b ref.AeadFE) ref.AeadFE { return ref.AeadFE{Lo: a.Lo ^ b.Lo, Hi: a.Hi ^ b.Hi} }

var lattice = []int{0, 1, 7, 15, 16, 31, 32, 33, 47, 48, 57, 62, 63, 64, 65, 95, 96, 97, 114, 120, 121, 124, 126, 127}

var words = []uint64{0, ^uint64(0), 0x1111111111111111, 0x2222222222222222, 0x4444444444444444, 0x8888888888888888,
	0x5555555555555555, 0xAAAAAAAAAAAAAAAA, 0x3333333333333333, 0x7777777777777777, 0xEEEEEEEEEEEEEEEE, 0xFFFFFFFF00000000,
	0x00000000FFFFFFFF, 0x8000000000000001, 0x0123456789ABCDEF, 0xFEDCBA9876543210}

func lowWeight() []ref.AeadFE {
	out := []ref.AeadFE{{}}
	for i, p := range lattice {
		out = append(out, bitFE(p))
		for _, q := range lattice[i+1:] {
			out = append(out, xorFE(bitFE(p), bitFE(q)))
		}
	}
	return out
}

func dense() []ref.AeadFE {
	var out []ref.AeadFE
	for _, lo := range words {
		for _, hi := range words {
			out = append(out, ref.AeadFE{Lo: lo, Hi: hi})
		}
	}
	return out
}

func checkDot(x *h.X, a, b ref.AeadFE, alsoSubtle bool) bool {
	x.Eval(1)
	want := ref.AeadPolyvalDot(a, b)
	if h.Seams() {
		lo, hi := c01b.PolyvalDot(a.Lo, a.Hi, b.Lo, b.Hi)
		if lo != want.Lo || hi != want.Hi {
			x.Fail("polyval-dot", "internal/aead polyvalDot(%016x%016x, %016x%016x) = %016x%016x, bitwise GF(2^128) reference %016x%016x (hi,lo)", a.Hi, a.Lo, b.Hi, b.Lo, hi, lo, want.Hi, want.Lo)
			return false
		}
	} else {
		// seam unavailable (tink internals refactored): the same product through the exported API of internal/aead -
		// one Update of block a under key b is dot(a,b) - and the public copy for every pair
		bb, ab := b.Bytes(), a.Bytes()
		got, err := c01b.Polyval(bb[:], ab[:])
		if wb := want.Bytes(); err != nil || got != wb {
			x.Fail("polyval-dot", "internal/aead Polyval key %x block %x = %x, bitwise GF(2^128) reference %x (err %v)", bb, ab, got, wb, err)
			return false
		}
		alsoSubtle = true
	}
	if alsoSubtle {
		// the public copy aead/subtle.NewPolyval: one Update of block a under key b is dot(a,b)
		bb, ab := b.Bytes(), a.Bytes()
		p, err := aeadsubtle.NewPolyval(bb[:])
		if err != nil {
			x.Fail("polyval-dot", "subtle.NewPolyval: %v", err)
			return false
		}
		p.Update(ab[:])
		got := p.Finish()
		if wb := want.Bytes(); got != wb {
			x.Fail("polyval-dot-subtle", "aead/subtle Polyval key %x block %x = %x, reference %x", bb, ab, got, wb)
			return false
		}
	}
	return true
}

func seamDot(x *h.X) {
	group := h.Pick(x, "group", []string{"basis", "weight<=2", "dense"})
	slice := x.Choose("slice", 16)
	x.NonTrivial()
	x.Outcome(group)
	switch group {
	case "basis":
		for i := slice; i < 128; i += 16 {
			for j := 0; j < 128; j++ {
				if !checkDot(x, bitFE(i), bitFE(j), true) {
					return
				}
			}
		}
	case "weight<=2":
		lw := lowWeight()
		for i := slice; i < len(lw); i += 16 {
			for j := range lw {
				if !checkDot(x, lw[i], lw[j], false) {
					return
				}
			}
		}
	default:
		d := dense()
		for i := slice; i < len(d); i += 16 {
			for j := range d {
				if !checkDot(x, d[i], d[j], (i+j)%8 == 0) {
					return
				}
			}
		}
	}
}

func seamUpdate(x *h.X) {
	ki := x.Choose("key", 3)
	key := [][]byte{ref.KeyBytes("polyval-key", 16), bytes.Repeat([]byte{0xff}, 16), hx("25629347589242761d31f826ba4b757b")}[ki]
	pat := x.Choose("pattern", 4)
	maxLen := 48
	if x.Thorough() {
		maxLen = 100
	}
	x.NonTrivial()
	x.Outcome("update")
	for n := 0; n <= maxLen; n++ {
		data := ref.Pattern(pat, n)
		want := ref.AeadPolyval(key, data)
		x.Eval(1)
		got, err := c01b.Polyval(key, data)
		if err != nil || got != want {
			x.Fail("polyval-update", "internal/aead Polyval key %x, one Update of %d bytes (pattern %d) = %x, reference %x (err %v)", key, n, pat, got, want, err)
			return
		}
		p, err := aeadsubtle.NewPolyval(key)
		if err != nil {
			x.Fail("polyval-update", "subtle.NewPolyval: %v", err)
			return
		}
		p.Update(data)
		if g := p.Finish(); g != want {
			x.Fail("polyval-update-subtle", "aead/subtle Polyval key %x, one Update of %d bytes = %x, reference %x", key, n, g, want)
			return
		}
		// two Updates: each is zero-padded separately (this is how AD and plaintext are fed)
		for _, cut := range []int{0, 1, n / 2, n - 1, n} {
			if cut < 0 || cut > n {
				continue
			}
			a, b := data[:cut], data[cut:]
			padded := append(append([]byte{}, a...), make([]byte, (16-cut%16)%16)...)
			padded = append(padded, b...)
			want2 := ref.AeadPolyval(key, padded)
			x.Eval(1)
			got2, err := c01b.Polyval(key, a, b)
			if err != nil || got2 != want2 {
				x.Fail("polyval-update", "internal/aead Polyval key %x, Update(%d bytes) then Update(%d bytes) = %x, reference %x", key, cut, n-cut, got2, want2)
				return
			}
		}
	}
}

func le32(n uint32) []byte { return []byte{byte(n), byte(n >> 8), byte(n >> 16), byte(n >> 24)} }

func seamCTR(x *h.X) {
	ks := h.Pick(x, "keysize", []int{16, 32})
	w := h.Pick(x, "counter-word", []uint32{0, 1, 0x7FFFFFFF, 0x80000000, 0xFFFFFFFD, 0xFFFFFFFE, 0xFFFFFFFF, 0x00FFFFFF, 0xFFFFFF00})
	rest := x.Choose("tag-rest", 3)
	key := ref.KeyBytes("gcmsiv-ctr", ks)
	tag := append(le32(w), [][]byte{make([]byte, 12), bytes.Repeat([]byte{0xff}, 12), ref.Pattern(2, 12)}[rest]...)
	maxLen := 80
	if x.Thorough() {
		maxLen = 200
	}
	x.NonTrivial()
	x.Outcome("ctr")
	for n := 0; n <= maxLen; n++ {
		in := ref.Pattern(3, n)
		want := ref.AeadGCMSIVCTR(key, tag, in)
		x.Eval(1)
		got, err := c01b.GCMSIVCTR(key, tag, in)
		if err != nil || !bytes.Equal(got, want) {
			x.Fail("gcmsiv-ctr", "internal/aead aesCTR(key %d bytes, tag %x, %d bytes) = %s, RFC 8452 reference %s (err %v)", ks, tag, n, tk.Hex(got), tk.Hex(want), err)
			return
		}
	}
}

func seamDerive(x *h.X) {
	ks := h.Pick(x, "keysize", []int{16, 32})
	ki := x.Choose("key", 3)
	key := [][]byte{ref.KeyBytes("gcmsiv-derive", ks), make([]byte, ks), bytes.Repeat([]byte{0xff}, ks)}[ki]
	x.NonTrivial()
	x.Outcome("derive")
	nonces := [][]byte{make([]byte, 12), bytes.Repeat([]byte{0xff}, 12), ref.Pattern(2, 12), ref.Pattern(3, 12), hx("030000000000000000000000")}
	for i := 0; i < 12; i++ {
		n := make([]byte, 12)
		n[i] = 0x80
		nonces = append(nonces, n)
	}
	for _, nonce := range nonces {
		wa, we := ref.AeadGCMSIVDeriveKeys(key, nonce)
		x.Eval(1)
		ga, ge, err := c01b.GCMSIVDeriveKeys(key, nonce)
		if err != nil || !bytes.Equal(ga, wa) || !bytes.Equal(ge, we) {
			x.Fail("gcmsiv-derivekeys", "internal/aead deriveKeys(key %x, nonce %x) = auth %x enc %x, RFC 8452 reference auth %x enc %x (err %v)", key, nonce, ga, ge, wa, we, err)
			return
		}
	}
}

func seamXAES(x *h.X) {
	ss := h.Pick(x, "saltsize", []int{8, 9, 10, 11, 12})
	v := h.Pick(x, "variant", []ref.Variant{ref.Tink, ref.Raw})
	msb := x.Choose("msb(L)", 2)
	// keys covering both branches of the CMAC subkey doubling
	var c *cfgs.Cfg
	for i := 0; i < 64; i++ {
		cc := &cfgs.Cfg{Kind: cfgs.XAES, Variant: v, ID: tk.IDs[0], Path: cfgs.PathCtor, KeySize: 32, SaltSize: ss, Salt: fmt.Sprintf("#seam%d", i)}
		if l, _ := ref.CMACSubkeyMSBs(cc.Key()); l == (msb == 1) {
			c = cc
			break
		}
	}
	if c == nil {
		x.Fail("harness", "no key with msb(L)=%d found", msb)
		return
	}
	a, err := c.Build()
	if err != nil {
		x.Fail("construct", "%s: %v", c, err)
		return
	}
	x.NonTrivial()
	x.Outcome("xaes-derive")
	salts := [][]byte{make([]byte, ss), bytes.Repeat([]byte{0xff}, ss), ref.Pattern(2, ss), ref.Pattern(3, ss)}
	for i := 0; i < ss; i++ {
		s := make([]byte, ss)
		s[i] = 1
		salts = append(salts, s)
	}
	for _, salt := range salts {
		want := ref.AeadXAESDeriveKey(c.Key(), salt)
		x.Eval(1)
		got, err := xaesgcm.VerifDerivePerMessageKey(a, salt)
		if err != nil || !bytes.Equal(got, want) {
			x.Fail("xaes-derive", "xaesgcm derivePerMessageKey(key %x, salt %x) = %x, C2SP reference %x (err %v)", c.Key(), salt, got, want, err)
			return
		}
	}
}

// ---------- known-answer self check of the reference (published vectors) ----------

func hx(s string) []byte {
	b, err := hex.DecodeString(s)
	if err != nil {
		panic(err)
	}
	return b
}

func refKAT(x *h.X) {
	x.NonTrivial()
	x.Outcome("kat")
	if !x.Replaying() {
		h.Assume("Go stdlib AES block cipher, crypto/cipher GCM, SHA-1/SHA-2 and golang.org/x/crypto/chacha20poly1305 are correct (trusted components used by tink and by the reference)")
		h.Assume("protobuf wire (un)marshalling of DEK key protos is correct (the reference reads DEKs with the generated proto types)")
	}
	eq := func(name string, got []byte, want string) {
		x.Eval(1)
		if hex.EncodeToString(got) != want {
			x.Fail("ref-kat", "reference model fails published vector %s: got %x want %s (harness error)", name, got, want)
		}
	}
	pv := ref.AeadPolyval(hx("25629347589242761d31f826ba4b757b"), hx("4f4f95668c83dfb6401762bb2d01a262d1a24ddd2721d006bbe45f20d3c9f362"))
	eq("RFC 8452 App. A POLYVAL", pv[:], "f7a3b47b846119fae5b7866cf5e5b77e")
	// RFC 8452 Appendix C (key, nonce, aad, msg, ct||tag)
	for i, v := range [][5]string{
		{"01000000000000000000000000000000", "030000000000000000000000", "", "01000000000000000000000000000000", "743f7c8077ab25f8624e2e948579cf77303aaf90f6fe21199c6068577437a0c4"},
		{"01000000000000000000000000000000", "030000000000000000000000", "0100000000000000000000000000000002000000", "030000000000000000000000000000000400", "44d0aaf6fb2f1f34add5e8064e83e12a2adabff9b2ef00fb47920cc72a0c0f13b9fd"},
		{"f901cfe8a69615a93fdf7a98cad48179", "6245709fb18853f68d833640", "7576f7028ec6eb5ea7e298342a94d4b202b370ef9768ec6561c4fe6b7e7296fa859c21", "e42a3c02c25b64869e146d7b233987bddfc240871d", "391cc328d484a4f46406181bcd62efd9b3ee197d052d15506c84a9edd65e13e9d24a2a6e70"},
		{"0100000000000000000000000000000000000000000000000000000000000000", "030000000000000000000000", "0100000000000000000000000000000002000000", "030000000000000000000000000000000400", "462401724b5ce6588d5a54aae5375513a075cfcdf5042112aa29685c912fc2056543"},
		{"3c535de192eaed3822a2fbbe2ca9dfc88255e14a661b8aa82cc54236093bbc23", "688089e55540db1872504e1c", "734320ccc9d9bbbb19cb81b2af4ecbc3e72834321f7aa0f70b7282b4f33df23f167541", "ced532ce4159b035277d4dfbb7db62968b13cd4eec", "626660c26ea6612fb17ad91e8e767639edd6c9faee9d6c7029675b89eaf4ba1ded1a286594"},
		// C.3 counter wrap
		{"0000000000000000000000000000000000000000000000000000000000000000", "000000000000000000000000", "", "000000000000000000000000000000004db923dc793ee6497c76dcc03a98e108", "f3f80f2cf0cb2dd9c5984fcda908456cc537703b5ba70324a6793a7bf218d3eaffffffff000000000000000000000000"},
		{"0000000000000000000000000000000000000000000000000000000000000000", "000000000000000000000000", "", "eb3640277c7ffd1303c7a542d02d3e4c0000000000000000", "18ce4f0b8cb4d0cac65fea8f79257b20888e53e72299e56dffffffff000000000000000000000000"},
	} {
		eq(fmt.Sprintf("RFC 8452 App. C #%d", i), ref.AeadGCMSIVSeal(hx(v[0]), hx(v[1]), hx(v[3]), hx(v[2])), v[4])
		pt, ok := ref.AeadGCMSIVOpen(hx(v[0]), hx(v[1]), hx(v[4]), hx(v[2]))
		if !ok {
			x.Fail("ref-kat", "reference GCM-SIV open rejects RFC vector %d", i)
		}
		eq(fmt.Sprintf("RFC 8452 App. C #%d open", i), pt, v[3])
	}
	n := []byte("ABCDEFGHIJKLMNOPQRSTUVWX")
	eq("C2SP XAES-256-GCM #1", ref.AeadXAESSeal(bytes.Repeat([]byte{1}, 32), n[:12], n[12:], []byte("XAES-256-GCM"), nil), "ce546ef63c9cc60765923609b33a9a1974e96e52daf2fcf7075e2271")
	eq("C2SP XAES-256-GCM #2", ref.AeadXAESSeal(bytes.Repeat([]byte{3}, 32), n[:12], n[12:], []byte("XAES-256-GCM"), []byte("c2sp.org/XAES-256-GCM")), "986ec1832593df5443a179437fd083bf3fdb41abd740a21f71eb769d")
	eq("SP 800-38A F.5.1 CTR-AES128", ref.AeadCTR(hx("2b7e151628aed2a6abf7158809cf4f3c"), hx("f0f1f2f3f4f5f6f7f8f9fafbfcfdfeff"),
		hx("6bc1bee22e409f96e93d7e117393172aae2d8a571e03ac9c9eb76fac45af8e5130c81c46a35ce411e5fbc1191a0a52eff69f2445df4f9b17ad2b417be66c3710")),
		"874d6191b620e3261bef6864990db6ce9806f66b7970fdff8617187bb9fffdff5ae4df3edbd5d35e5b4f09020db03eab1e031dda2fbe03d1792170a0f3009cee")
	eq("SP 800-38A F.5.5 CTR-AES256", ref.AeadCTR(hx("603deb1015ca71be2b73aef0857d77811f352c073b6108d72d9810a30914dff4"), hx("f0f1f2f3f4f5f6f7f8f9fafbfcfdfeff"),
		hx("6bc1bee22e409f96e93d7e117393172aae2d8a571e03ac9c9eb76fac45af8e51")), "601ec313775789a5b7a7f504bbf3d228f443e3ca4d62b59aca84e990cacaf5c5")
}

func main() {
	secs := []h.Section{{Name: "ref-kat", Body: refKAT, Bound: -1}}
	names := map[cfgs.Kind]string{cfgs.GCM: "aes-gcm", cfgs.CTRHMAC: "aes-ctr-hmac", cfgs.GCMSIV: "aes-gcm-siv", cfgs.CHACHA: "chacha20-poly1305",
		cfgs.XCHACHA: "xchacha20-poly1305", cfgs.XAES: "xaes-256-gcm", cfgs.ENVELOPE: "kms-envelope"}
	for _, k := range cfgs.Kinds {
		secs = append(secs, h.Section{Name: names[k], Body: kindSection(k), Bound: -1})
	}
	secs = append(secs, h.Section{Name: "kms-envelope-odd-kek", Body: oddKEK, Bound: -1})
	secs = append(secs,
		h.Section{Name: "seam-polyval-dot", Body: seamDot, Bound: -1},
		h.Section{Name: "seam-polyval-update", Body: seamUpdate, Bound: -1},
		h.Section{Name: "seam-gcmsiv-ctr", Body: seamCTR, Bound: -1, Seam: true},
		h.Section{Name: "seam-gcmsiv-derivekeys", Body: seamDerive, Bound: -1, Seam: true},
		h.Section{Name: "seam-xaes-derive", Body: seamXAES, Bound: -1, Seam: true})
	h.Main("C01", "exploration",
		"product of (AEAD key type x key/IV/tag/salt sizes x hash x variant x id x construction path; envelope: DEK template x KEK x path) x message domain (every plaintext length 0..64 quick / 0..80 thorough and block/KiB corners up to 65537 x AD nil/empty/lengths, patterns); per message: round trip, nil/empty AD interchange, ciphertext = reference prefix||nonce||body with body byte-identical to the independent reference run on the nonce parsed from tink's output, reference decrypts it; reverse interop for 5 reference-chosen nonces (00.., FF.., FF..FE, ..FFFFFFFF, counter); fresh nonce. Seams enumerated against the bitwise reference: polyvalDot on 128x128 basis pairs, 301^2 weight<=2 lattice pairs, 256^2 dense pairs; Polyval.Update every length; RFC 8452 CTR for wrapping counter words x every length; deriveKeys; XAES derivePerMessageKey. kms-envelope-odd-kek: KEK answer mode (fresh | Encrypt answers in the caller's buffer | Decrypt answers with a sub-slice | Decrypt answers from a cache) x DEK template x KEK keyset x constructor (NewKMSEnvelopeAEAD2 | WithContext) x fault (none | KEK Encrypt #0/#1 | KEK Decrypt #0/#1 fails) x message/AD domain, one envelope object and KEK per run: round trip, documented framing with the encrypted DEK unwrapping under the real KEK key and reference-identical payload, repeated / interleaved decryption of the same buffers, caller's buffers unchanged, an operation fails exactly when its KEK call failed and the next one works. A case is non-trivial when a primitive was built and driven through its message domain; distinct = distinct choice vectors.",
		secs)
}
