// C01, section kms-envelope-odd-kek: the KMS envelope AEAD over a key-encryption AEAD (KEK) with "odd but legal"
// answers (verif/env.OddAEAD, engine E4): results that SHARE MEMORY with what the KEK was handed (Encrypt answering
// in the caller's buffer, Decrypt answering with a sub-slice of a buffer that also holds the ciphertext, Decrypt
// answering from a cache and handing out the cached slice itself) and chosen KEK calls that FAIL.
//
// Space: KEK mode x DEK template x KEK keyset x constructor (NewKMSEnvelopeAEAD2 / NewKMSEnvelopeAEADWithContext) x
// fault (none | KEK Encrypt call #0/#1 fails | KEK Decrypt call #0/#1 fails) x message / AD domain (inner loop).
// Judged (statement: round trip + documented envelope framing; nothing else):
//   (1) Decrypt(Encrypt(p,ad),ad) = p;
//   (2) the envelope is be32(len)||encDEK||payload, encDEK decrypts under the REAL KEK key (independent reference
//       AES-GCM, key material known to the harness) to a DEK proto matching the template, payload is byte-identical
//       to the reference DEK algorithm on the nonce read from it (cfgs.CheckWire, the same oracle as kms-envelope);
//   (3) the SAME ciphertext buffer decrypted twice, and A, B, A again (and every ciphertext of the run once more at
//       the end, forwards and backwards: all served from the KEK's cache in cache mode) give the right plaintexts;
//       the caller's plaintext / AD / ciphertext buffers are not modified by Encrypt / Decrypt;
//   (4) an envelope operation fails (error, no output) exactly when its KEK call failed; the next operation on the
//       same envelope object works again, as does a retry of the failed one.
// Don't care: error texts; how many KEK calls one envelope operation makes (the rule is on the LAST KEK call of the
// operation: failed -> the operation must fail, succeeded / none -> it must succeed with the right result); what the
// KEK's own buffers look like afterwards; timing.
//
// encrypt-result-in-callers-buffer: an in-place KEK necessarily answers in (a prefix of) the buffer it was given. The
// wrapped KEK of that mode is therefore the length-preserving textbook fake KMS (see idKEK) so that answering in
// place does not destroy the DEK the library still holds (a KEK that overwrites its argument with something else is
// not a legal collaborator: no tink.AEAD may change the plaintext it is asked to encrypt). The other modes wrap the
// real AES-GCM KEK keysets of the catalogue.
package main

import (
	"bytes"
	"context"
	"fmt"

	"github.com/tink-crypto/tink-go/v2/aead"
	"github.com/tink-crypto/tink-go/v2/tink"
	"verif/env"
	"verif/h"
	cfgs "verif/props/aeadcfg"
	"verif/ref"
	"verif/tk"
)

// spyKEK sits between the envelope and the OddAEAD and records, per KEK call, whether it failed.
type spyKEK struct {
	o               *env.OddAEAD
	octx            env.OddAEADCtx
	calls           int
	lastFailed      bool
	encArg0, decArg []byte // copies of the last arguments (diagnostics only)
	// vacuity accounting: how often the KEK's answer really shared memory with its argument / with an earlier answer
	sharedWithArg, sameAsEarlier, failedCalls int
	handedOut                                 map[*byte]bool
}

func (s *spyKEK) note(arg, out []byte, err error) {
	s.calls++
	s.lastFailed = err != nil
	if err != nil {
		s.failedCalls++
		return
	}
	if len(arg) > 0 && len(out) > 0 {
		// same backing array: the answer starts inside the argument's capacity or vice versa
		a, o := arg[:cap(arg)], out[:cap(out)]
		if &a[cap(arg)-1] == &o[cap(out)-1] || &arg[0] == &out[0] {
			s.sharedWithArg++
		}
	}
	if len(out) > 0 {
		if s.handedOut == nil {
			s.handedOut = map[*byte]bool{}
		}
		if s.handedOut[&out[0]] {
			s.sameAsEarlier++
		}
		s.handedOut[&out[0]] = true
	}
}

func (s *spyKEK) Encrypt(pt, ad []byte) ([]byte, error) {
	s.encArg0 = bytes.Clone(pt)
	out, err := s.o.Encrypt(pt, ad)
	s.note(pt, out, err)
	return out, err
}

func (s *spyKEK) Decrypt(ct, ad []byte) ([]byte, error) {
	s.decArg = bytes.Clone(ct)
	out, err := s.o.Decrypt(ct, ad)
	s.note(ct, out, err)
	return out, err
}

// spyKEKCtx is the tink.AEADWithContext view (through env.OddAEADCtx).
type spyKEKCtx struct{ s *spyKEK }

func (c spyKEKCtx) EncryptWithContext(ctx context.Context, pt, ad []byte) ([]byte, error) {
	c.s.encArg0 = bytes.Clone(pt)
	out, err := c.s.octx.EncryptWithContext(ctx, pt, ad)
	c.s.note(pt, out, err)
	return out, err
}

func (c spyKEKCtx) DecryptWithContext(ctx context.Context, ct, ad []byte) ([]byte, error) {
	c.s.decArg = bytes.Clone(ct)
	out, err := c.s.octx.DecryptWithContext(ctx, ct, ad)
	c.s.note(ct, out, err)
	return out, err
}

type envCtxAdapter struct {
	a *aead.KMSEnvelopeAEADWithContext
}

func (c envCtxAdapter) Encrypt(pt, ad []byte) ([]byte, error) {
	return c.a.EncryptWithContext(context.Background(), pt, ad)
}
func (c envCtxAdapter) Decrypt(ct, ad []byte) ([]byte, error) {
	return c.a.DecryptWithContext(context.Background(), ct, ad)
}

func oddDomain(thorough bool) []msg {
	if thorough {
		d := prod(nil, append(rng(0, 33), 64, 255, 256, 257, 4096), []int{-1, 0, 1, 17}, -1)
		return prod(d, []int{0, 17}, []int{256}, -1)
	}
	return prod(nil, []int{0, 1, 16, 17, 33, 257}, []int{-1, 0, 5}, -1)
}

type oddCase struct {
	x    *h.X
	c    *cfgs.Cfg
	a    tink.AEAD
	spy  *spyKEK
	what string
	// identity: the wrapped KEK is idKEK (in-place mode)
	identity bool
}

// op runs one envelope operation and applies rule (4): it reports (output, ok). ok=false: the operation failed
// legitimately (its last KEK call failed) or a violation was recorded (bad=true).
func (o *oddCase) op(name string, f func() ([]byte, error)) (out []byte, ok, bad bool) {
	before := o.spy.calls
	o.spy.lastFailed = false
	out, err := f()
	kekFailed := o.spy.calls > before && o.spy.lastFailed
	o.x.Eval(1)
	switch {
	case kekFailed && err == nil:
		o.x.Fail("oddkek-kek-error-swallowed", "%s: %s: the KEK call of this operation failed, yet the envelope operation reports success (output %s)", o.what, name, tk.Hex(out))
		return nil, false, true
	case kekFailed && len(out) != 0:
		o.x.Fail("oddkek-output-with-error", "%s: %s: fails (%v) but also returns %d bytes of output", o.what, name, err, len(out))
		return nil, false, true
	case kekFailed:
		return nil, false, false
	case err != nil:
		o.x.Fail("oddkek-spurious-error", "%s: %s fails although no KEK call failed (KEK calls in this operation: %d): %v", o.what, name, o.spy.calls-before, err)
		return nil, false, true
	}
	return out, true, false
}

type oddCT struct {
	m      msg
	pt, ad []byte // pristine copies
	ct     []byte // the caller's buffer (handed to Decrypt again and again)
	ct0    []byte // pristine copy
}

// encrypt: Encrypt on caller-owned buffers, rule (2), buffers untouched. ok=false & bad=false: legitimate KEK failure.
func (o *oddCase) encrypt(m msg) (r *oddCT, ok, bad bool) {
	pt0, ad0 := m.pt(), m.adBytes()
	pt, ad := bytes.Clone(pt0), bytes.Clone(ad0)
	if m.ad < 0 {
		ad = nil
	} else if ad == nil {
		ad = []byte{}
	}
	name := fmt.Sprintf("Encrypt(plaintext len %d, AD len %d)", m.n, m.ad)
	ct, ok, bad := o.op(name, func() ([]byte, error) { return o.a.Encrypt(pt, ad) })
	if !bytes.Equal(pt, pt0) || !bytes.Equal(ad, ad0) {
		o.x.Fail("oddkek-caller-buffer-modified", "%s: %s modified the caller's plaintext / AD buffer", o.what, name)
		return nil, false, true
	}
	if !ok {
		return nil, false, bad
	}
	if k, why := o.checkWire(ct, pt0, ad0); k != "" {
		o.x.Fail("oddkek-"+k, "%s: %s: the envelope is not in the documented format / not decryptable by the reference: %s (KEK was handed DEK %x)", o.what, name, why, o.spy.encArg0)
		return nil, false, true
	}
	return &oddCT{m: m, pt: pt0, ad: ad0, ct: ct, ct0: bytes.Clone(ct)}, true, false
}

// decrypt: Decrypt of the caller's (reused) ciphertext buffer; right plaintext; buffers untouched.
func (o *oddCase) decrypt(r *oddCT, when string) (ok, bad bool) {
	ad := bytes.Clone(r.ad)
	if r.m.ad < 0 {
		ad = nil
	} else if ad == nil {
		ad = []byte{}
	}
	name := fmt.Sprintf("Decrypt %s (plaintext len %d, AD len %d)", when, r.m.n, r.m.ad)
	if !bytes.Equal(r.ct, r.ct0) {
		o.x.Fail("oddkek-caller-buffer-modified", "%s: before %s: the caller's ciphertext buffer was modified by an earlier operation", o.what, name)
		return false, true
	}
	got, ok, bad := o.op(name, func() ([]byte, error) { return o.a.Decrypt(r.ct, ad) })
	if !bytes.Equal(r.ct, r.ct0) || !bytes.Equal(ad, r.ad) {
		i := 0
		for i < len(r.ct) && r.ct[i] == r.ct0[i] {
			i++
		}
		o.x.Fail("oddkek-caller-buffer-modified", "%s: %s modified the caller's ciphertext / AD buffer (first changed ciphertext byte %d of %d)", o.what, name, i, len(r.ct))
		return false, true
	}
	if !ok {
		return false, bad
	}
	if !bytes.Equal(got, r.pt) {
		o.x.Fail("oddkek-roundtrip", "%s: %s returns %s, want %s", o.what, name, tk.Hex(got), tk.Hex(r.pt))
		return false, true
	}
	return true, false
}

// idKEK is the textbook key-less fake KMS ("wrapping" = identity), the wrapped KEK of the in-place mode. Being
// length- and content-preserving it is the only kind of KEK that can answer in exactly the buffer it was given
// without changing what the caller still holds there. Its Decrypt answers with (a slice of) the very buffer it was
// handed, i.e. with a piece of the envelope the library is working on: the classic "strip my header and return the
// rest" fake KMS.
type idKEK struct{}

func (idKEK) Encrypt(pt, _ []byte) ([]byte, error) { return bytes.Clone(pt), nil }
func (idKEK) Decrypt(ct, _ []byte) ([]byte, error) { return ct, nil }

// checkWire is rule (2). With the identity KEK the encrypted-DEK field IS the serialized DEK: it is re-wrapped by the
// reference under a catalogue KEK so that the very same oracle (cfgs.CheckWire: DEK proto matches the template,
// payload byte-identical to the reference DEK algorithm) judges it.
func (o *oddCase) checkWire(ct, pt, ad []byte) (string, string) {
	if !o.identity {
		return o.c.CheckWire(ct, pt, ad)
	}
	encDEK, payload, ok := ref.AeadEnvelopeParse(ct)
	if !ok || len(encDEK) == 0 {
		return "wire-envelope", fmt.Sprintf("envelope framing be32(len)||encDEK||payload invalid: %s", tk.Hex(ct))
	}
	rewrapped := o.c.KEK.RefEncrypt(make([]byte, o.c.KEK.NonceSize()), encDEK, []byte{})
	k, why := o.c.CheckWire(ref.AeadEnvelopeFrame(rewrapped, payload), pt, ad)
	if k != "" {
		why = fmt.Sprintf("(encrypted-DEK field %s, unwrapped by the identity KEK and re-wrapped for the reference) %s", tk.Hex(encDEK), why)
	}
	return k, why
}

var oddFaults = []string{"none", "kek-encrypt#0-fails", "kek-encrypt#1-fails", "kek-decrypt#0-fails", "kek-decrypt#1-fails"}

func oddKEK(x *h.X) {
	mode := x.Choose("kek-mode", env.AEADModes)
	x.Label(env.AEADModeNames[mode])
	c, ok := cfgs.Choose(x, cfgs.ENVELOPE, cfgs.Opts{OneID: true})
	if !ok || c.Path == cfgs.PathEnvKS {
		return // the keyset path resolves its KEK through the KMS client registry: no room for a collaborator
	}
	fault := h.Pick(x, "fault", oddFaults)
	var inner tink.AEAD
	var err error
	if mode == env.AEADAliasEncrypt {
		if c.KEK != cfgs.KEKs[0] {
			return // the in-place mode has one (key-less) wrapped KEK
		}
		inner = idKEK{}
	} else {
		inner, err = c.KEK.Build()
	}
	if err != nil {
		x.Fail("construct", "KEK %v: %v", c.KEK, err)
		return
	}
	kekName := fmt.Sprint(c.KEK)
	if mode == env.AEADAliasEncrypt {
		kekName = "identity fake KMS"
	}
	odd := env.NewOddAEAD(inner, mode)
	switch fault {
	case "kek-encrypt#0-fails":
		odd.FailEncryptAt = 0
	case "kek-encrypt#1-fails":
		odd.FailEncryptAt = 1
	case "kek-decrypt#0-fails":
		odd.FailDecryptAt = 0
	case "kek-decrypt#1-fails":
		odd.FailDecryptAt = 1
	}
	spy := &spyKEK{o: odd, octx: env.OddAEADCtx{O: odd}}
	var a tink.AEAD
	if c.Path == cfgs.PathEnv2 {
		a = aead.NewKMSEnvelopeAEAD2(c.DEKTemplate(), spy)
	} else {
		wc, err := aead.NewKMSEnvelopeAEADWithContext(c.DEKTemplate(), spyKEKCtx{spy})
		if err != nil {
			x.Fail("construct", "%s: %v", c, err)
			return
		}
		a = envCtxAdapter{wc}
	}
	o := &oddCase{x: x, c: c, a: noPanic{a}, spy: spy, identity: mode == env.AEADAliasEncrypt,
		what: fmt.Sprintf("envelope dek=%s via %s over KEK [%s] answering in mode %q, fault %s", c.DEKName, c.Path, kekName, env.AEADModeNames[mode], fault)}
	x.NonTrivial()
	x.Outcome(fmt.Sprintf("%s/%s/%s", env.AEADModeNames[mode], c.Path, fault))
	if fault == "none" {
		oddHistory(o)
	} else {
		oddFaulty(o, fault)
	}
	x.OutcomeN("kek-answers-sharing-memory-with-the-argument", spy.sharedWithArg)
	x.OutcomeN("kek-answers-identical-to-an-earlier-answer(cache)", spy.sameAsEarlier)
	x.OutcomeN("kek-calls-failed", spy.failedCalls)
	x.OutcomeN("kek-calls", spy.calls)
}

// oddHistory: rules (1)-(3) over the message domain on ONE envelope object and ONE KEK (whose cache fills up).
func oddHistory(o *oddCase) {
	dom := oddDomain(o.x.Thorough())
	var all []*oddCT
	var prev *oddCT
	for _, m := range dom {
		r, ok, _ := o.encrypt(m)
		if !ok {
			return
		}
		// the same buffer twice
		for _, when := range []string{"#1", "#2 of the same ciphertext buffer"} {
			if ok, _ := o.decrypt(r, when); !ok {
				return
			}
		}
		// A, B, A: B is the previous message's ciphertext (another DEK), or a second encryption of this message
		b := prev
		if b == nil {
			if b, ok, _ = o.encrypt(m); !ok {
				return
			}
			all = append(all, b)
		}
		if ok, _ := o.decrypt(b, "of another ciphertext in between"); !ok {
			return
		}
		if ok, _ := o.decrypt(r, "#3, after another ciphertext was decrypted"); !ok {
			return
		}
		all = append(all, r)
		prev = r
	}
	for _, r := range all {
		if ok, _ := o.decrypt(r, "again at the end (forwards)"); !ok {
			return
		}
	}
	for i := len(all) - 1; i >= 0; i-- {
		if ok, _ := o.decrypt(all[i], "again at the end (backwards)"); !ok {
			return
		}
	}
	// a ciphertext COPIED to a new buffer (same bytes, other memory) decrypts as well
	for _, r := range all[:min(4, len(all))] {
		cp := &oddCT{m: r.m, pt: r.pt, ad: r.ad, ct: bytes.Clone(r.ct0), ct0: r.ct0}
		if ok, _ := o.decrypt(cp, "of a copy of the ciphertext"); !ok {
			return
		}
	}
	o.x.OutcomeN("ciphertexts-decrypted-repeatedly", len(all))
}

// oddFaulty: rule (4). Three encryptions and, for each ciphertext obtained, decryptions; the KEK fails one call.
func oddFaulty(o *oddCase, fault string) {
	msgs := []msg{{17, 5, 2}, {0, -1, 3}, {33, 0, 2}}
	if o.x.Thorough() {
		msgs = append(msgs, msg{257, 17, 3})
	}
	var cts []*oddCT
	failedOps := 0
	for _, m := range msgs {
		r, ok, bad := o.encrypt(m)
		if bad {
			return
		}
		if !ok {
			failedOps++
			// the NEXT operation on the same object: a retry of the same message must work
			if r, ok, bad = o.encrypt(m); !ok {
				if !bad {
					o.x.Fail("oddkek-stuck-after-kek-error", "%s: Encrypt retried after the failed KEK call fails again", o.what)
				}
				return
			}
		}
		cts = append(cts, r)
	}
	for round := 0; round < 2; round++ {
		for _, r := range cts {
			ok, bad := o.decrypt(r, fmt.Sprintf("round %d", round))
			if bad {
				return
			}
			if !ok {
				failedOps++
				if ok, bad := o.decrypt(r, "retried after the failed KEK call"); !ok {
					if !bad {
						o.x.Fail("oddkek-stuck-after-kek-error", "%s: Decrypt retried after the failed KEK call fails again", o.what)
					}
					return
				}
			}
		}
	}
	if failedOps == 0 {
		// the scripted KEK call index was never reached (an implementation may need the KEK less often): nothing to judge
		o.x.Outcome("kek-fault-not-reached")
		return
	}
	o.x.Outcome("kek-failure-reported-and-recovered")
}
