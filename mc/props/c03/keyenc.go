// C03, section key-encodings: ONE mathematical key, MANY byte encodings of its numbers.
//
// Every constructor / parser that takes key material as bytes is driven with the encoding shapes of the same key:
// integers (ECDSA private scalar D, public coordinates x and y; RSA n, e, d, p, q, dP, dQ, qInv) as
//
//	fixed      the fixed-size big-endian form (curve-order size / natural size)
//	minimal    big.Int.Bytes(): shorter than `fixed` iff the value has leading zero octets
//	fixed+1    one extra leading 00 (the form tink's proto serialisation emits)
//	fixed+4    several extra leading 00
//	minimal+1  00 || minimal (still shorter than `fixed` when the value has >= 2 leading zero octets)
//
// for keys CHOSEN so that the shapes differ: D with exactly 0, 1, 2, 3 leading zero octets in the fixed-size form and
// a tiny D (0x0102); points whose x (resp. y) has 1 (thorough: 2) leading zero octets while the other coordinate has
// none (found by a deterministic walk d0, d0+1, ...); mixed x/y shape pairs (padding confusion between x and y).
// Ed25519 keys are octet strings, not integers: seeds beginning with 1..3 zero octets and a public key beginning with
// a zero octet are driven in their exact 32-octet form (judged); stripped / zero-prefixed forms are only recorded.
//
// Paths: signature/subtle NewECDSASigner / NewECDSASignerFromPrivateKey / NewECDSAVerifier(x, y) / ...FromPublicKey;
// signature/ecdsa NewPrivateKey / NewPrivateKeyFromPublicKey / NewPublicKey (+ NewSigner/NewVerifier, manager handle and
// serialise->parse handle of the accepted key objects); hand-written EcdsaPrivateKey / EcdsaPublicKey protos through
// testkeyset.NewHandle + signature.NewSigner/NewVerifier (key_value x (x, y) shape product); the same protos through
// registry.Primitive / PrimitiveFromKeyData (legacy key manager). RSA-SSA-PKCS1 / PSS: NewPublicKey(modulus shapes),
// NewPrivateKey(p, q, d shapes; d = e^-1 mod lcm and mod phi), hand-written protos (n, e, d, p, q, dp, dq, crt shapes).
//
// Oracle (only what the statement says): whatever a constructor ACCEPTS must behave as the mathematical key:
//   - Sign's output carries the prefix and verifies under the reference verifier with the public key the REFERENCE
//     derives (D*G; RFC 8032 public key of the seed; (n, e)); byte-exact for Ed25519 / PKCS1;
//   - the tink verifier decides the reference-made signature, bit flips, a truncation, a modified message and another
//     key's signature exactly like the reference verifier;
//   - a signature of a signer built from one encoding verifies under the verifiers built from the other encodings.
//
// Don't care (recorded as outcome classes only): which shapes a constructor REFUSES (the statement does not demand
// acceptance); non-standard SEC1 point strings and Ed25519 strings of a length other than 32 that a constructor accepts
// (no unambiguous mathematical key to compare with).
package main

import (
	"bytes"
	"crypto/ecdsa"
	"crypto/elliptic"
	"fmt"
	"math/big"

	"google.golang.org/protobuf/proto"

	"github.com/tink-crypto/tink-go/v2/core/registry"
	"github.com/tink-crypto/tink-go/v2/keyset"
	commonpb "github.com/tink-crypto/tink-go/v2/proto/common_go_proto"
	ecdsapb "github.com/tink-crypto/tink-go/v2/proto/ecdsa_go_proto"
	ed25519pb "github.com/tink-crypto/tink-go/v2/proto/ed25519_go_proto"
	pkcs1pb "github.com/tink-crypto/tink-go/v2/proto/rsa_ssa_pkcs1_go_proto"
	psspb "github.com/tink-crypto/tink-go/v2/proto/rsa_ssa_pss_go_proto"
	tinkpb "github.com/tink-crypto/tink-go/v2/proto/tink_go_proto"
	"github.com/tink-crypto/tink-go/v2/signature"
	tecdsa "github.com/tink-crypto/tink-go/v2/signature/ecdsa"
	ted "github.com/tink-crypto/tink-go/v2/signature/ed25519"
	tpkcs1 "github.com/tink-crypto/tink-go/v2/signature/rsassapkcs1"
	tpss "github.com/tink-crypto/tink-go/v2/signature/rsassapss"
	sigsubtle "github.com/tink-crypto/tink-go/v2/signature/subtle"
	"github.com/tink-crypto/tink-go/v2/testkeyset"
	"github.com/tink-crypto/tink-go/v2/tink"
	"github.com/tink-crypto/tink-go/v2/verifbridge/vb"
	"verif/h"
	"verif/ref"
	"verif/tk"
)

const (
	urlECDSAPriv = "type.googleapis.com/google.crypto.tink.EcdsaPrivateKey"
	urlECDSAPub  = "type.googleapis.com/google.crypto.tink.EcdsaPublicKey"
	urlEdPriv    = "type.googleapis.com/google.crypto.tink.Ed25519PrivateKey"
	urlEdPub     = "type.googleapis.com/google.crypto.tink.Ed25519PublicKey"
	urlPKCS1Priv = "type.googleapis.com/google.crypto.tink.RsaSsaPkcs1PrivateKey"
	urlPKCS1Pub  = "type.googleapis.com/google.crypto.tink.RsaSsaPkcs1PublicKey"
	urlPSSPriv   = "type.googleapis.com/google.crypto.tink.RsaSsaPssPrivateKey"
	urlPSSPub    = "type.googleapis.com/google.crypto.tink.RsaSsaPssPublicKey"
)

var protoPrefix = map[ref.Variant]tinkpb.OutputPrefixType{ref.Tink: tinkpb.OutputPrefixType_TINK, ref.Crunchy: tinkpb.OutputPrefixType_CRUNCHY,
	ref.Legacy: tinkpb.OutputPrefixType_LEGACY, ref.Raw: tinkpb.OutputPrefixType_RAW}
var protoHash = map[string]commonpb.HashType{"SHA256": commonpb.HashType_SHA256, "SHA384": commonpb.HashType_SHA384, "SHA512": commonpb.HashType_SHA512}

// ---------------------------------------------------------------------------------------------
// shapes

type encShape struct {
	name string
	b    []byte
}

// intShapes: the distinct encodings of v >= 0 around the fixed size (identical byte strings are merged, the first
// name wins; for a full-size value minimal == fixed).
func intShapes(v *big.Int, size int) []encShape {
	min := v.Bytes()
	if len(min) > size {
		size = len(min)
	}
	fixed := make([]byte, size)
	v.FillBytes(fixed)
	cands := []encShape{
		{"fixed", fixed},
		{"minimal", min},
		{"fixed+1", cat([]byte{0}, fixed)},
		{"fixed+4", cat(make([]byte, 4), fixed)},
		{"minimal+1", cat([]byte{0}, min)},
	}
	var out []encShape
	for _, c := range cands {
		dup := false
		for _, o := range out {
			dup = dup || bytes.Equal(o.b, c.b)
		}
		if !dup {
			out = append(out, c)
		}
	}
	return out
}

func shapeNamed(ss []encShape, name string) encShape {
	for _, s := range ss {
		if s.name == name {
			return s
		}
	}
	return ss[0] // merged into "fixed"
}

type xyShape struct {
	name string
	x, y []byte
}

// xyShapes: same-kind pairs plus mixed pairs (a padding confusion between x and y only shows when they differ).
func xyShapes(x, y *big.Int, size int) []xyShape {
	xs, ys := intShapes(x, size), intShapes(y, size)
	kinds := [][2]string{{"fixed", "fixed"}, {"minimal", "minimal"}, {"fixed+1", "fixed+1"}, {"fixed+4", "fixed+4"}, {"minimal+1", "minimal+1"},
		{"minimal", "fixed+1"}, {"fixed+1", "minimal"}, {"fixed", "fixed+4"}, {"fixed+4", "minimal"}, {"minimal", "fixed"}, {"fixed", "minimal"}}
	var out []xyShape
	for _, k := range kinds {
		a, b := shapeNamed(xs, k[0]), shapeNamed(ys, k[1])
		dup := false
		for _, o := range out {
			dup = dup || (bytes.Equal(o.x, a.b) && bytes.Equal(o.y, b.b))
		}
		if !dup {
			out = append(out, xyShape{"x:" + a.name + ",y:" + b.name, a.b, b.b})
		}
	}
	return out
}

// ---------------------------------------------------------------------------------------------
// generic judge

type kencS struct {
	name string
	s    tink.Signer
}
type kencV struct {
	name string
	v    tink.Verifier
}

type kencEnv struct {
	kp          string // finding-key prefix: "keyenc" (default) or "keygen"
	scheme, cfg string
	prefix      []byte
	variant     ref.Variant
	refVerify   func(raw, data []byte) bool // reference verifier under the reference-derived public key
	refSig      func(data []byte) []byte    // deterministic valid raw signature of the key
	refSigOther func(data []byte) []byte    // valid raw signature of ANOTHER key
	exact       bool                        // deterministic scheme: Sign == prefix || refSig
	full        bool                        // full signer x verifier interop matrix (else a star through the first of each)
}

func (e *kencEnv) signed(msg []byte) []byte {
	if e.variant == ref.Legacy {
		return append(bytes.Clone(msg), 0)
	}
	return msg
}

func (e *kencEnv) model(sig, msg []byte) bool {
	return bytes.HasPrefix(sig, e.prefix) && e.refVerify(sig[len(e.prefix):], e.signed(msg))
}

// kencJudge applies the oracle to everything that was accepted.
func kencJudge(x *h.X, e *kencEnv, signers []kencS, verifiers []kencV) {
	if len(signers)+len(verifiers) == 0 {
		return
	}
	x.NonTrivial()
	kp := e.kp
	if kp == "" {
		kp = "keyenc"
	}
	msgs := [][]byte{ref.Pattern(2, 33)}
	if e.full {
		msgs = append(msgs, []byte{})
	}
	// the reference decision on one (sig, msg) is computed once per execution (the same probes go to every verifier)
	decided := map[string]bool{}
	model := func(sig, msg []byte) bool {
		k := string(sig) + "|" + string(msg)
		if r, ok := decided[k]; ok {
			return r
		}
		r := e.model(sig, msg)
		decided[k] = r
		return r
	}
	sigs := make([][]byte, len(signers)) // signature over msgs[0], nil if unusable
	for si, s := range signers {
		for mi, msg := range msgs {
			if mi > 0 && si > 0 {
				break // the further messages only with the first signer
			}
			var sig []byte
			var err error
			if p, m := h.Try(func() { sig, err = s.s.Sign(msg) }); p {
				x.Fail(kp+"-"+e.scheme+"-panic", "%s: signer built from [%s]: Sign panicked: %s", e.cfg, s.name, m)
				break
			}
			x.Eval(1)
			if err != nil {
				x.Fail(kp+"-"+e.scheme+"-sign-error", "%s: the constructor accepted [%s] but Sign(len %d) fails: %v", e.cfg, s.name, len(msg), err)
				break
			}
			ok := model(sig, msg)
			if !ok {
				x.Fail(kp+"-"+e.scheme+"-sign-invalid", "%s: signer built from [%s]: Sign(%s) = %s is rejected by the reference verifier under the key's reference-derived public key (expected prefix %x)",
					e.cfg, s.name, tk.Hex(msg), tk.Hex(sig), e.prefix)
				x.Outcome(e.scheme + "/sign/ref-rejects")
				break
			}
			x.Outcome(e.scheme + "/sign/ref-accepts")
			if e.exact {
				if want := cat(e.prefix, e.refSig(e.signed(msg))); !bytes.Equal(sig, want) {
					x.Fail(kp+"-"+e.scheme+"-sign-mismatch", "%s: signer built from [%s]: deterministic scheme, Sign = %s, reference %s", e.cfg, s.name, tk.Hex(sig), tk.Hex(want))
				}
			}
			if mi == 0 {
				sigs[si] = sig
			}
		}
	}
	msg := msgs[0]
	raw := e.refSig(e.signed(msg))
	good := cat(e.prefix, raw)
	if !model(good, msg) {
		x.Fail("harness-refsig", "%s: harness error: reference signature rejected by the reference verifier", e.cfg)
		return
	}
	type probe struct {
		what string
		sig  []byte
		msg  []byte
	}
	flip := func(i int) []byte { b := bytes.Clone(good); b[i/8] ^= 1 << (i % 8); return b }
	probes := []probe{
		{"valid reference signature", good, msg},
		{"last bit flipped", flip(8*len(good) - 8), msg},
		{"middle bit flipped", flip(8 * (len(e.prefix) + len(raw)/2)), msg},
		{"a bit of the first quarter flipped", flip(8*(len(e.prefix)+len(raw)/4) + 3), msg},
		{"one byte shorter", good[:len(good)-1], msg},
		{"valid signature presented for message||01", good, append(bytes.Clone(msg), 1)},
		{"valid signature presented for message||00", good, append(bytes.Clone(msg), 0)},
		{"valid signature of another key", cat(e.prefix, e.refSigOther(e.signed(msg))), msg},
	}
	check := func(v kencV, p probe, key string) {
		var err error
		if pn, m := h.Try(func() { err = v.v.Verify(p.sig, p.msg) }); pn {
			x.Fail(kp+"-"+e.scheme+"-panic", "%s: verifier built from [%s]: Verify panicked: %s", e.cfg, v.name, m)
			return
		}
		x.Eval(1)
		want := model(p.sig, p.msg)
		x.Outcome(e.scheme + "/verify/" + map[bool]string{true: "accepted", false: "rejected"}[want])
		if (err == nil) != want {
			verdict := map[bool]string{true: "ACCEPTS", false: "REJECTS"}
			x.Fail(key, "%s: verifier built from [%s] %s but the reference verifier (reference-derived public key) %s: %s; msg=%s sig=%s",
				e.cfg, v.name, verdict[err == nil], verdict[want], p.what, tk.Hex(p.msg), tk.Hex(p.sig))
		}
	}
	for _, v := range verifiers {
		for _, p := range probes {
			k := kp + "-" + e.scheme + "-verifier-accepts-invalid"
			if p.what == "valid reference signature" {
				k = kp + "-" + e.scheme + "-verifier-rejects-valid"
			}
			check(v, p, k)
		}
	}
	// interoperability between encodings of the same key
	for si, s := range signers {
		if sigs[si] == nil {
			continue
		}
		for vi, v := range verifiers {
			// full matrix while it is small; else the star through the first signer / verifier plus a diagonal stripe
			if (!e.full || len(signers)*len(verifiers) > 400) && si != 0 && vi != 0 && (si+vi)%7 != 0 {
				continue
			}
			check(v, probe{"signature made by the signer built from [" + s.name + "]", sigs[si], msg}, kp+"-"+e.scheme+"-interop")
		}
	}
}

// accepted / refused accounting: one class per (constructor, verdict) and one per (shape, verdict)
func kencTally(x *h.X, scheme, what, shape string, err error) bool {
	verdict := "accepted"
	if err != nil {
		verdict = "refused"
	}
	x.Outcome(scheme + "/ctor/" + what + "/" + verdict)
	x.Outcome(scheme + "/shape/" + shape + "/" + verdict)
	return err == nil
}

func kencVariants(x *h.X) []ref.Variant {
	if x.Thorough() {
		return variants
	}
	return []ref.Variant{ref.Tink, ref.Raw}
}

func oneKeyHandle(url string, mt tinkpb.KeyData_KeyMaterialType, value []byte, v ref.Variant, id uint32) (*keyset.Handle, error) {
	ks := &tinkpb.Keyset{PrimaryKeyId: id, Key: []*tinkpb.Keyset_Key{{
		KeyData: &tinkpb.KeyData{TypeUrl: url, Value: value, KeyMaterialType: mt},
		Status:  tinkpb.KeyStatusType_ENABLED, KeyId: id, OutputPrefixType: protoPrefix[v]}}}
	return testkeyset.NewHandle(ks)
}

func mustMarshal(m proto.Message) []byte {
	b, err := proto.Marshal(m)
	if err != nil {
		panic(err)
	}
	return b
}

// signerFromHandle / verifierFromHandle: signature.NewSigner(h), signature.NewVerifier(h.Public()).
func signerAndPublicVerifier(hd *keyset.Handle) (tink.Signer, tink.Verifier, error) {
	s, err := signature.NewSigner(hd)
	if err != nil {
		return nil, nil, err
	}
	ph, err := hd.Public()
	if err != nil {
		return nil, nil, err
	}
	v, err := signature.NewVerifier(ph)
	return s, v, err
}

func asSigner(p any, err error) (tink.Signer, error) {
	if err != nil {
		return nil, err
	}
	s, ok := p.(tink.Signer)
	if !ok {
		return nil, fmt.Errorf("primitive of type %T is not a tink.Signer", p)
	}
	return s, nil
}

func asVerifier(p any, err error) (tink.Verifier, error) {
	if err != nil {
		return nil, err
	}
	v, ok := p.(tink.Verifier)
	if !ok {
		return nil, fmt.Errorf("primitive of type %T is not a tink.Verifier", p)
	}
	return v, nil
}

// ---------------------------------------------------------------------------------------------
// ECDSA

var kencECKeyNames = []string{"D-full", "D-lead1", "D-lead2", "D-lead3", "D-tiny(0x0102)", "x-lead1", "y-lead1", "x-lead2", "y-lead2"}

func lead(v *big.Int, size int) int { return size - len(v.Bytes()) }

func mkECKey(c *ref.ECCurve, d *big.Int) *ecKey {
	xx, yy, ok := c.BaseMult(d)
	if !ok {
		panic("ec key")
	}
	k := &ecKey{d: d, x: xx, y: yy, dBytes: make([]byte, c.Size)}
	d.FillBytes(k.dBytes)
	k.point = make([]byte, 1+2*c.Size)
	k.point[0] = 4
	xx.FillBytes(k.point[1 : 1+c.Size])
	yy.FillBytes(k.point[1+c.Size:])
	return k
}

// kencECKey: deterministic keys of the wanted shapes (see the header). nil if the bounded walk found no point.
func kencECKey(c *ref.ECCurve, idx int) *ecKey {
	return memoize(fmt.Sprintf("kenc-eckey|%s|%d", c.Name, idx), func() any {
		hb := ref.KeyBytes(fmt.Sprintf("c03-keyenc-%s-%d", c.Name, idx), c.Size)
		switch {
		case idx <= 3: // exactly idx leading zero octets in the fixed-size form
			for i := 0; i < idx; i++ {
				hb[i] = 0
			}
			if c.Size == 66 { // P-521: the first octet holds one bit
				if idx == 0 {
					hb[0], hb[1] = 1, hb[1]&0x7f
				}
			} else if idx == 0 {
				hb[0] = hb[0]&0x7f | 0x40
			}
			if hb[idx] == 0 {
				hb[idx] = 1
			}
			d := new(big.Int).SetBytes(hb)
			if d.Cmp(c.N) >= 0 || lead(d, c.Size) != idx {
				panic("kenc: D construction")
			}
			return mkECKey(c, d)
		case idx == 4:
			return mkECKey(c, big.NewInt(0x0102))
		}
		wantX, wantY := 0, 0
		switch idx {
		case 5:
			wantX = 1
		case 6:
			wantY = 1
		case 7:
			wantX = 2
		case 8:
			wantY = 2
		}
		hb[0] = hb[0]&0x3f | 0x40
		if c.Size == 66 {
			hb[0], hb[1] = 1, hb[1]&0x7f
		}
		var found *big.Int
		ref.ECPointWalk(c, new(big.Int).SetBytes(hb), 3000000, func(d, xx, yy *big.Int) bool {
			if lead(xx, c.Size) == wantX && lead(yy, c.Size) == wantY && lead(d, c.Size) == 0 {
				found = d
				return false
			}
			return true
		})
		if found == nil {
			return (*ecKey)(nil)
		}
		return mkECKey(c, found)
	}).(*ecKey)
}

var stdCurve = map[int]elliptic.Curve{32: elliptic.P256(), 48: elliptic.P384(), 66: elliptic.P521()}
var protoCurve = map[int]commonpb.EllipticCurveType{32: commonpb.EllipticCurveType_NIST_P256, 48: commonpb.EllipticCurveType_NIST_P384, 66: commonpb.EllipticCurveType_NIST_P521}

const (
	kpSubtle   = "signature/subtle constructors"
	kpKeyAPI   = "per-type key constructors"
	kpProto    = "hand-written proto -> testkeyset handle"
	kpRegistry = "hand-written proto -> registry.Primitive"
)

var kencPaths = []string{kpSubtle, kpKeyAPI, kpProto, kpRegistry}

func kencECDSA(x *h.X, ec ecCfg) {
	c := ec.curve
	nkeys := 7
	if x.Thorough() {
		nkeys = len(kencECKeyNames)
	}
	kidx := x.Choose("key", nkeys)
	x.Label(kencECKeyNames[kidx])
	path := h.Pick(x, "path", kencPaths)
	der := h.Pick(x, "encoding", []string{"DER", "IEEE_P1363"}) == "DER"
	v := h.Pick(x, "variant", kencVariants(x))
	if (path == kpSubtle || path == kpRegistry) && v != ref.Raw {
		return
	}
	if !x.Thorough() && c == ref.P256 && !der && kidx != 1 && kidx != 5 {
		return // quick: IEEE-P1363 with the minimal-encoding class and one point key (the key encoding does not depend on it)
	}
	if !x.Thorough() && c != ref.P256 {
		// quick: the larger curves with the minimal-encoding class of the private scalar and one point key, RAW, DER
		if !(kidx == 1 || kidx == 5) || !der || v != ref.Raw || ec.hash == "SHA512" && c == ref.P384 {
			return
		}
	}
	kA := kencECKey(c, kidx)
	if kA == nil {
		x.Outcome("ecdsa/key-not-found/" + kencECKeyNames[kidx])
		return
	}
	oidx := 0
	if kidx == 0 {
		oidx = 1
	}
	kO := kencECKey(c, oidx)
	id := tk.IDs[0]
	enc := map[bool]string{true: "DER", false: "IEEE_P1363"}[der]
	cfg := fmt.Sprintf("key-encodings ECDSA %s %s %v id=%#x key=%s (D=%x) via %s", ec.name, enc, v, id, kencECKeyNames[kidx], kA.d, path)
	e := &kencEnv{scheme: "ecdsa", cfg: cfg, prefix: ref.Prefix(v, id), variant: v, full: c == ref.P256 || x.Thorough()}
	e.refVerify = func(raw, data []byte) bool {
		r, s, ok := ecDecode(c, der, raw)
		return ok && ecVerifyInts(c, 100+kidx, kA, ref.HashSum(ec.hash, data), r, s, false)
	}
	e.refSig = func(data []byte) []byte {
		p := ecSig0(c, 100+kidx, kA, ref.HashSum(ec.hash, data))
		return ecEncode(c, der, p[0], p[1])
	}
	e.refSigOther = func(data []byte) []byte {
		p := ecSig0(c, 100+oidx, kO, ref.HashSum(ec.hash, data))
		return ecEncode(c, der, p[0], p[1])
	}
	dShapes := intShapes(kA.d, c.Size)
	xy := xyShapes(kA.x, kA.y, c.Size)
	var signers []kencS
	var verifiers []kencV
	addS := func(what, shape string, s tink.Signer, err error) {
		if kencTally(x, "ecdsa", what, shape, err) {
			signers = append(signers, kencS{what + " " + shape, s})
		}
	}
	addV := func(what, shape string, vv tink.Verifier, err error) {
		if kencTally(x, "ecdsa", what, shape, err) {
			verifiers = append(verifiers, kencV{what + " " + shape, vv})
		}
	}
	tenc := tecdsa.IEEEP1363
	penc := ecdsapb.EcdsaSignatureEncoding_IEEE_P1363
	if der {
		tenc, penc = tecdsa.DER, ecdsapb.EcdsaSignatureEncoding_DER
	}
	pubProto := func(s xyShape) *ecdsapb.EcdsaPublicKey {
		return &ecdsapb.EcdsaPublicKey{Params: &ecdsapb.EcdsaParams{HashType: protoHash[ec.hash], Curve: protoCurve[c.Size], Encoding: penc}, X: bytes.Clone(s.x), Y: bytes.Clone(s.y)}
	}
	privProto := func(d encShape, s xyShape) *ecdsapb.EcdsaPrivateKey {
		return &ecdsapb.EcdsaPrivateKey{PublicKey: pubProto(s), KeyValue: bytes.Clone(d.b)}
	}
	// the (private shape, public shape) pairs of the proto paths: thorough the full product, quick a star through the fixed forms
	type pp struct {
		d encShape
		s xyShape
	}
	var pairs []pp
	for di, d := range dShapes {
		for si, s := range xy {
			if x.Thorough() || di == 0 || si == 0 || (di == 1 && si == 1) {
				pairs = append(pairs, pp{d, s})
			}
		}
	}
	switch path {
	case kpSubtle:
		for _, d := range dShapes {
			s, err := sigsubtle.NewECDSASigner(ec.hash, ec.subtleCurve, enc, bytes.Clone(d.b))
			addS("NewECDSASigner", "D:"+d.name, s, err)
		}
		sk := &ecdsa.PrivateKey{PublicKey: ecdsa.PublicKey{Curve: stdCurve[c.Size], X: new(big.Int).Set(kA.x), Y: new(big.Int).Set(kA.y)}, D: new(big.Int).Set(kA.d)}
		s, err := sigsubtle.NewECDSASignerFromPrivateKey(ec.hash, enc, sk)
		addS("NewECDSASignerFromPrivateKey", "big.Int", s, err)
		for _, sh := range xy {
			vv, err := sigsubtle.NewECDSAVerifier(ec.hash, ec.subtleCurve, enc, bytes.Clone(sh.x), bytes.Clone(sh.y))
			addV("NewECDSAVerifier", sh.name, vv, err)
		}
		vv, err := sigsubtle.NewECDSAVerifierFromPublicKey(ec.hash, enc, &sk.PublicKey)
		addV("NewECDSAVerifierFromPublicKey", "big.Int", vv, err)
	case kpKeyAPI:
		params, err := tecdsa.NewParameters(ec.ct, ec.ht, tenc, ecVariant[v])
		if err != nil {
			x.Fail("ecdsa-construct", "%s: NewParameters: %v", cfg, err)
			return
		}
		kid := id
		if v == ref.Raw {
			kid = 0
		}
		// public key: the SEC1 uncompressed point is THE encoding; other strings are recorded only
		pub, err := tecdsa.NewPublicKey(bytes.Clone(kA.point), kid, params)
		if kencTally(x, "ecdsa", "NewPublicKey", "04||X||Y", err) {
			vv, err := tecdsa.NewVerifier(pub, vb.Tok())
			addV("NewPublicKey+NewVerifier", "04||X||Y", vv, err)
			if hd, err := tk.Handle([]tk.Entry{{Key: pub, ID: id, Primary: true}}); err == nil {
				vv, err := signature.NewVerifier(hd)
				addV("NewPublicKey+serialise/parse handle", "04||X||Y", vv, err)
			} else {
				kencTally(x, "ecdsa", "NewPublicKey+serialise/parse handle", "04||X||Y", err)
			}
		}
		for _, ns := range []encShape{
			{"04||min(X)||min(Y)", cat([]byte{4}, kA.x.Bytes(), kA.y.Bytes())},
			{"04||00X||00Y", cat([]byte{4, 0}, kA.point[1:1+c.Size], []byte{0}, kA.point[1+c.Size:])},
			{"0004||X||Y", cat([]byte{0}, kA.point)},
			{"compressed", cat([]byte{2 + byte(kA.y.Bit(0))}, kA.point[1:1+c.Size])},
			{"X||Y", kA.point[1:]},
		} {
			if bytes.Equal(ns.b, kA.point) {
				continue
			}
			_, err := tecdsa.NewPublicKey(ns.b, kid, params)
			if err == nil {
				x.Outcome("ecdsa/NewPublicKey/nonstandard " + ns.name + "/accepted(not judged)")
			} else {
				x.Outcome("ecdsa/NewPublicKey/nonstandard " + ns.name + "/refused")
			}
		}
		for _, ctor := range []string{"NewPrivateKey", "NewPrivateKeyFromPublicKey"} {
			for _, d := range dShapes {
				var priv *tecdsa.PrivateKey
				var err error
				if ctor == "NewPrivateKey" {
					priv, err = tecdsa.NewPrivateKey(secret(d.b), kid, params)
				} else if pub != nil {
					priv, err = tecdsa.NewPrivateKeyFromPublicKey(pub, secret(d.b))
				} else {
					continue
				}
				if !kencTally(x, "ecdsa", ctor, "D:"+d.name, err) {
					continue
				}
				pk, _ := priv.PublicKey()
				if pp, ok := pk.(*tecdsa.PublicKey); !ok || !bytes.Equal(pp.PublicPoint(), kA.point) {
					x.Fail("keyenc-ecdsa-pubkey", "%s: %s(D:%s = %x) accepted, but its public point is %x; reference D*G = %x", cfg, ctor, d.name, d.b, pk.(*tecdsa.PublicKey).PublicPoint(), kA.point)
				}
				s, err := tecdsa.NewSigner(priv, vb.Tok())
				addS(ctor+"+NewSigner", "D:"+d.name, s, err)
				if hd, err := tk.Single(priv); err == nil {
					s, vv, err := signerAndPublicVerifier(hd)
					// a manager handle draws a random key id: only usable for RAW (prefix-free) comparison
					if v == ref.Raw {
						addS(ctor+"+manager handle", "D:"+d.name, s, err)
						if err == nil {
							addV(ctor+"+manager handle Public()", "D:"+d.name, vv, nil)
						}
					}
				}
				if hd, err := tk.Handle([]tk.Entry{{Key: priv, ID: id, Primary: true}}); err == nil {
					s, vv, err := signerAndPublicVerifier(hd)
					addS(ctor+"+serialise/parse handle", "D:"+d.name, s, err)
					if err == nil {
						addV(ctor+"+serialise/parse handle Public()", "D:"+d.name, vv, nil)
					}
				} else {
					kencTally(x, "ecdsa", ctor+"+serialise/parse handle", "D:"+d.name, err)
				}
			}
		}
	case kpProto:
		for _, p := range pairs {
			name := "D:" + p.d.name + "," + p.s.name
			hd, err := oneKeyHandle(urlECDSAPriv, tinkpb.KeyData_ASYMMETRIC_PRIVATE, mustMarshal(privProto(p.d, p.s)), v, id)
			kencTally(x, "ecdsa", "EcdsaPrivateKey proto", "D:"+p.d.name, err)
			if !kencTally(x, "ecdsa", "EcdsaPrivateKey proto", p.s.name, err) {
				continue
			}
			s, vv, err := signerAndPublicVerifier(hd)
			if err != nil {
				kencTally(x, "ecdsa", "EcdsaPrivateKey proto handle", "primitives", err)
				continue
			}
			signers = append(signers, kencS{"EcdsaPrivateKey proto handle " + name, s})
			verifiers = append(verifiers, kencV{"EcdsaPrivateKey proto handle Public() " + name, vv})
		}
		for _, sh := range xy {
			hd, err := oneKeyHandle(urlECDSAPub, tinkpb.KeyData_ASYMMETRIC_PUBLIC, mustMarshal(pubProto(sh)), v, id)
			if !kencTally(x, "ecdsa", "EcdsaPublicKey proto", sh.name, err) {
				continue
			}
			vv, err := signature.NewVerifier(hd)
			addV("EcdsaPublicKey proto handle", sh.name, vv, err)
		}
	case kpRegistry:
		for i, p := range pairs {
			name := "D:" + p.d.name + "," + p.s.name
			ser := mustMarshal(privProto(p.d, p.s))
			var s tink.Signer
			var err error
			if i%2 == 0 {
				s, err = asSigner(registry.Primitive(urlECDSAPriv, ser))
			} else {
				s, err = asSigner(registry.PrimitiveFromKeyData(&tinkpb.KeyData{TypeUrl: urlECDSAPriv, Value: ser, KeyMaterialType: tinkpb.KeyData_ASYMMETRIC_PRIVATE}))
			}
			kencTally(x, "ecdsa", "registry.Primitive(EcdsaPrivateKey)", "D:"+p.d.name, err)
			if kencTally(x, "ecdsa", "registry.Primitive(EcdsaPrivateKey)", p.s.name, err) {
				signers = append(signers, kencS{"registry.Primitive(EcdsaPrivateKey) " + name, s})
			}
		}
		for _, sh := range xy {
			vv, err := asVerifier(registry.Primitive(urlECDSAPub, mustMarshal(pubProto(sh))))
			addV("registry.Primitive(EcdsaPublicKey)", sh.name, vv, err)
		}
	}
	x.Outcome("cfg/ecdsa/" + ec.name + "/" + kencECKeyNames[kidx])
	kencJudge(x, e, signers, verifiers)
}

// ---------------------------------------------------------------------------------------------
// Ed25519

var kencEdKeyNames = []string{"seed-lead1", "seed-lead2", "seed-lead3", "pub-lead1", "seed-lead1+last-zero"}

// kencEdSeed: seeds that begin with zero octets; a seed whose PUBLIC key begins with a zero octet (deterministic search).
func kencEdSeed(idx int) []byte {
	return memoize(fmt.Sprintf("kenc-edseed|%d", idx), func() any {
		s := ref.KeyBytes(fmt.Sprintf("c03-keyenc-ed25519-%d", idx), 32)
		switch idx {
		case 0, 1, 2:
			for i := 0; i <= idx; i++ {
				s[i] = 0
			}
			if s[idx+1] == 0 {
				s[idx+1] = 1
			}
		case 3:
			for i := 0; i < 20000; i++ {
				s[30], s[31] = byte(i>>8), byte(i)
				if ref.Ed25519Public(s)[0] == 0 {
					return s
				}
			}
			return []byte(nil)
		case 4:
			s[0], s[31] = 0, 0
		}
		return s
	}).([]byte)
}

func kencEd25519(x *h.X) {
	kidx := x.Choose("key", len(kencEdKeyNames))
	x.Label(kencEdKeyNames[kidx])
	path := h.Pick(x, "path", kencPaths)
	v := h.Pick(x, "variant", kencVariants(x))
	if (path == kpSubtle || path == kpRegistry) && v != ref.Raw {
		return
	}
	seed := kencEdSeed(kidx)
	if seed == nil {
		x.Outcome("ed25519/key-not-found/" + kencEdKeyNames[kidx])
		return
	}
	pubRef := memoize(fmt.Sprintf("kenc-edpub|%d", kidx), func() any { return ref.Ed25519Public(seed) }).([]byte)
	if kidx == 3 && pubRef[0] != 0 {
		panic("kenc: ed25519 public key search")
	}
	other := kencEdSeed((kidx + 1) % 3)
	id := tk.IDs[0]
	cfg := fmt.Sprintf("key-encodings Ed25519 %v id=%#x key=%s (seed=%x pub=%x) via %s", v, id, kencEdKeyNames[kidx], seed, pubRef, path)
	e := &kencEnv{scheme: "ed25519", cfg: cfg, prefix: ref.Prefix(v, id), variant: v, exact: true, full: true}
	e.refVerify = func(raw, data []byte) bool { return len(raw) == 64 && ref.Ed25519Verify(pubRef, data, raw) }
	e.refSig = func(data []byte) []byte {
		return memoize(fmt.Sprintf("kenc-eds|%d|%x", kidx, data), func() any { return ref.Ed25519Sign(seed, data) }).([]byte)
	}
	e.refSigOther = func(data []byte) []byte {
		return memoize(fmt.Sprintf("kenc-edso|%d|%x", kidx, data), func() any { return ref.Ed25519Sign(other, data) }).([]byte)
	}
	// octet strings: only the exact 32-octet form is THE key; the other forms are recorded
	strShapes := func(b []byte) []encShape {
		out := []encShape{{"exact32", b}}
		if t := bytes.TrimLeft(b, "\x00"); len(t) != len(b) {
			out = append(out, encShape{"stripped", t})
		}
		return append(out, encShape{"00-prefixed", cat([]byte{0}, b)}, encShape{"00-suffixed", cat(b, []byte{0})})
	}
	var signers []kencS
	var verifiers []kencV
	addS := func(what, shape string, s tink.Signer, err error) {
		if kencTally(x, "ed25519", what, shape, err) && shape == "exact32" {
			signers = append(signers, kencS{what + " " + shape, s})
		}
	}
	addV := func(what, shape string, vv tink.Verifier, err error) {
		if kencTally(x, "ed25519", what, shape, err) && shape == "exact32" {
			verifiers = append(verifiers, kencV{what + " " + shape, vv})
		}
	}
	kid := id
	if v == ref.Raw {
		kid = 0
	}
	switch path {
	case kpSubtle:
		for _, sh := range strShapes(seed) {
			s, err := sigsubtle.NewED25519Signer(bytes.Clone(sh.b))
			addS("NewED25519Signer", sh.name, s, err)
		}
		for _, sh := range strShapes(pubRef) {
			vv, err := sigsubtle.NewED25519Verifier(bytes.Clone(sh.b))
			addV("NewED25519Verifier", sh.name, vv, err)
		}
	case kpKeyAPI:
		params, err := ted.NewParameters(edVariant[v])
		if err != nil {
			x.Fail("ed25519-construct", "%s: %v", cfg, err)
			return
		}
		var pubStd *ted.PublicKey
		for _, sh := range strShapes(pubRef) {
			pub, err := ted.NewPublicKey(bytes.Clone(sh.b), kid, params)
			if !kencTally(x, "ed25519", "NewPublicKey", sh.name, err) {
				continue
			}
			if sh.name == "exact32" {
				pubStd = pub
			}
			vv, err := ted.NewVerifier(pub, vb.Tok())
			addV("NewPublicKey+NewVerifier", sh.name, vv, err)
			if hd, err := tk.Handle([]tk.Entry{{Key: pub, ID: id, Primary: true}}); err == nil {
				vv, err := signature.NewVerifier(hd)
				addV("NewPublicKey+serialise/parse handle", sh.name, vv, err)
			}
		}
		for _, ctor := range []string{"NewPrivateKey", "NewPrivateKeyWithPublicKey"} {
			for _, sh := range strShapes(seed) {
				var priv *ted.PrivateKey
				var err error
				if ctor == "NewPrivateKey" {
					priv, err = ted.NewPrivateKey(secret(sh.b), kid, params)
				} else if pubStd != nil {
					priv, err = ted.NewPrivateKeyWithPublicKey(secret(sh.b), pubStd)
				} else {
					continue
				}
				if !kencTally(x, "ed25519", ctor, sh.name, err) {
					continue
				}
				if sh.name == "exact32" {
					pk, _ := priv.PublicKey()
					if !bytes.Equal(pk.(*ted.PublicKey).KeyBytes(), pubRef) {
						x.Fail("keyenc-ed25519-pubkey", "%s: %s accepted, its public key is %x; RFC 8032 reference %x", cfg, ctor, pk.(*ted.PublicKey).KeyBytes(), pubRef)
					}
				}
				s, err := ted.NewSigner(priv, vb.Tok())
				addS(ctor+"+NewSigner", sh.name, s, err)
				if hd, err := tk.Handle([]tk.Entry{{Key: priv, ID: id, Primary: true}}); err == nil {
					s, vv, err := signerAndPublicVerifier(hd)
					addS(ctor+"+serialise/parse handle", sh.name, s, err)
					if err == nil {
						addV(ctor+"+serialise/parse handle Public()", sh.name, vv, nil)
					}
				}
			}
		}
	case kpProto, kpRegistry:
		for _, ss := range strShapes(seed) {
			for _, ps := range strShapes(pubRef) {
				if ss.name != "exact32" && ps.name != "exact32" {
					continue
				}
				shape := "exact32"
				if ss.name != "exact32" || ps.name != "exact32" {
					shape = "seed:" + ss.name + ",pub:" + ps.name
				}
				ser := mustMarshal(&ed25519pb.Ed25519PrivateKey{KeyValue: bytes.Clone(ss.b), PublicKey: &ed25519pb.Ed25519PublicKey{KeyValue: bytes.Clone(ps.b)}})
				if path == kpRegistry {
					s, err := asSigner(registry.Primitive(urlEdPriv, ser))
					addS("registry.Primitive(Ed25519PrivateKey)", shape, s, err)
					continue
				}
				hd, err := oneKeyHandle(urlEdPriv, tinkpb.KeyData_ASYMMETRIC_PRIVATE, ser, v, id)
				if !kencTally(x, "ed25519", "Ed25519PrivateKey proto", shape, err) {
					continue
				}
				s, vv, err := signerAndPublicVerifier(hd)
				addS("Ed25519PrivateKey proto handle", shape, s, err)
				if err == nil {
					addV("Ed25519PrivateKey proto handle Public()", shape, vv, nil)
				}
			}
		}
		for _, ps := range strShapes(pubRef) {
			ser := mustMarshal(&ed25519pb.Ed25519PublicKey{KeyValue: bytes.Clone(ps.b)})
			if path == kpRegistry {
				vv, err := asVerifier(registry.Primitive(urlEdPub, ser))
				addV("registry.Primitive(Ed25519PublicKey)", ps.name, vv, err)
				continue
			}
			hd, err := oneKeyHandle(urlEdPub, tinkpb.KeyData_ASYMMETRIC_PUBLIC, ser, v, id)
			if !kencTally(x, "ed25519", "Ed25519PublicKey proto", ps.name, err) {
				continue
			}
			vv, err := signature.NewVerifier(hd)
			addV("Ed25519PublicKey proto handle", ps.name, vv, err)
		}
	}
	x.Outcome("cfg/ed25519/" + kencEdKeyNames[kidx])
	kencJudge(x, e, signers, verifiers)
}

// ---------------------------------------------------------------------------------------------
// RSA

// rsaShapeSet: one assignment of shapes to the numbers of an RSA key.
type rsaShapeSet struct {
	name                       string
	n, e, d, p, q, dp, dq, crt []byte
}

func kencRSA(pss bool) func(x *h.X) {
	return func(x *h.X) {
		scheme := "rsassapkcs1"
		if pss {
			scheme = "rsassapss"
		}
		bits := h.Pick(x, "modulus", moduli(x))
		kidx := 0
		if x.Thorough() {
			kidx = x.Choose("key", 2)
		}
		path := h.Pick(x, "path", []string{kpKeyAPI, kpProto, kpRegistry})
		v := h.Pick(x, "variant", kencVariants(x))
		if path == kpRegistry && v != ref.Raw {
			return
		}
		hashes := []string{"SHA256"}
		if x.Thorough() {
			hashes = []string{"SHA256", "SHA384", "SHA512"}
		}
		hash := h.Pick(x, "hash", hashes)
		if bits != 2048 && (hash != "SHA256" || v != ref.Raw && v != ref.Tink) {
			return
		}
		sLen := 0
		if pss {
			sLen = 32
		}
		k := rsaKeyOf(bits, kidx)
		ko := rsaKeyOf(bits, 1-kidx)
		id := tk.IDs[0]
		cfg := fmt.Sprintf("key-encodings %s %d %s salt=%d %v id=%#x key=%d via %s", scheme, bits, hash, sLen, v, id, kidx, path)
		e := &kencEnv{scheme: scheme, cfg: cfg, prefix: ref.Prefix(v, id), variant: v, exact: !pss, full: true}
		e.refVerify = func(raw, data []byte) bool {
			if pss {
				return ref.RSAVerifyPSS(k.pub, hash, sLen, data, raw)
			}
			return ref.RSAVerifyPKCS1(k.pub, hash, data, raw)
		}
		sign := func(kk *rsaKey, data []byte) []byte {
			var em []byte
			if pss {
				em = ref.EMSAPSSEncode(hash, data, ref.KeyBytes("c03-salt", sLen), bits-1)
			} else {
				em = ref.EMSAPKCS1v15(hash, data, bits/8)
			}
			s := kk.signEM(em)
			if s == nil {
				panic("harness: reference RSA signing failed")
			}
			return s
		}
		e.refSig = func(data []byte) []byte { return sign(k, data) }
		e.refSigOther = func(data []byte) []byte { return sign(ko, data) }

		// the numbers of the key; d in both usual forms (mod lcm(p-1,q-1) and mod (p-1)(q-1)): the same key
		one := big.NewInt(1)
		pm, qm := new(big.Int).Sub(k.p, one), new(big.Int).Sub(k.q, one)
		phi := new(big.Int).Mul(pm, qm)
		lcm := new(big.Int).Div(phi, new(big.Int).GCD(nil, nil, pm, qm))
		eBig := big.NewInt(65537)
		dLcm := new(big.Int).ModInverse(eBig, lcm)
		dPhi := new(big.Int).ModInverse(eBig, phi)
		dp, dq := new(big.Int).Mod(k.d, pm), new(big.Int).Mod(k.d, qm)
		crt := new(big.Int).ModInverse(k.q, k.p)
		nsz, psz := bits/8, len(k.p.Bytes())
		sh := func(v *big.Int, size int, kind string) []byte { return shapeNamed(intShapes(v, size), kind).b }
		set := func(name, kn, ke, kd, kpq, kcrt string, d *big.Int) rsaShapeSet {
			return rsaShapeSet{name: name, n: sh(k.pub.N, nsz, kn), e: sh(eBig, 3, ke), d: sh(d, nsz, kd), p: sh(k.p, psz, kpq), q: sh(k.q, psz, kpq),
				dp: sh(new(big.Int).Mod(d, pm), psz, kcrt), dq: sh(new(big.Int).Mod(d, qm), psz, kcrt), crt: sh(crt, psz, kcrt)}
		}
		_, _ = dp, dq
		sets := []rsaShapeSet{
			set("all minimal", "minimal", "minimal", "minimal", "minimal", "minimal", k.d),
			set("all fixed", "fixed", "fixed", "fixed", "fixed", "fixed", k.d),
			set("all +1 zero", "fixed+1", "fixed+1", "fixed+1", "fixed+1", "fixed+1", k.d),
			set("all +4 zeros", "fixed+4", "fixed+4", "fixed+4", "fixed+4", "fixed+4", k.d),
			set("n +1 zero, rest minimal", "fixed+1", "minimal", "minimal", "minimal", "minimal", k.d),
			set("n +4 zeros, e +4 zeros, rest minimal", "fixed+4", "fixed+4", "minimal", "minimal", "minimal", k.d),
			set("d +1 zero, rest minimal", "minimal", "minimal", "fixed+1", "minimal", "minimal", k.d),
			set("p,q +1 zero, rest minimal", "minimal", "minimal", "minimal", "fixed+1", "minimal", k.d),
			set("p,q +4 zeros, crt values fixed", "minimal", "minimal", "minimal", "fixed+4", "fixed", k.d),
			set("dp,dq,crt +1 zero, rest minimal", "minimal", "minimal", "minimal", "minimal", "fixed+1", k.d),
			set("d = e^-1 mod lcm(p-1,q-1), minimal", "minimal", "minimal", "minimal", "minimal", "minimal", dLcm),
			set("d = e^-1 mod (p-1)(q-1), +1 zero", "minimal", "minimal", "fixed+1", "minimal", "minimal", dPhi),
		}
		var signers []kencS
		var verifiers []kencV
		addS := func(what, shape string, s tink.Signer, err error) {
			if kencTally(x, scheme, what, shape, err) {
				signers = append(signers, kencS{what + " " + shape, s})
			}
		}
		addV := func(what, shape string, vv tink.Verifier, err error) {
			if kencTally(x, scheme, what, shape, err) {
				verifiers = append(verifiers, kencV{what + " " + shape, vv})
			}
		}
		kid := id
		if v == ref.Raw {
			kid = 0
		}
		pubMsg := func(s rsaShapeSet) proto.Message {
			if pss {
				return &psspb.RsaSsaPssPublicKey{Params: &psspb.RsaSsaPssParams{SigHash: protoHash[hash], Mgf1Hash: protoHash[hash], SaltLength: int32(sLen)}, N: s.n, E: s.e}
			}
			return &pkcs1pb.RsaSsaPkcs1PublicKey{Params: &pkcs1pb.RsaSsaPkcs1Params{HashType: protoHash[hash]}, N: s.n, E: s.e}
		}
		privMsg := func(s rsaShapeSet) proto.Message {
			if pss {
				return &psspb.RsaSsaPssPrivateKey{PublicKey: pubMsg(s).(*psspb.RsaSsaPssPublicKey), D: s.d, P: s.p, Q: s.q, Dp: s.dp, Dq: s.dq, Crt: s.crt}
			}
			return &pkcs1pb.RsaSsaPkcs1PrivateKey{PublicKey: pubMsg(s).(*pkcs1pb.RsaSsaPkcs1PublicKey), D: s.d, P: s.p, Q: s.q, Dp: s.dp, Dq: s.dq, Crt: s.crt}
		}
		privURL, pubURL := urlPKCS1Priv, urlPKCS1Pub
		if pss {
			privURL, pubURL = urlPSSPriv, urlPSSPub
		}
		switch path {
		case kpKeyAPI:
			for _, s := range sets {
				var sg tink.Signer
				var vf tink.Verifier
				var err, hdErr error
				var hd *keyset.Handle
				if pss {
					var params *tpss.Parameters
					params, err = tpss.NewParameters(tpss.ParametersValues{ModulusSizeBits: bits, SigHashType: pssHash[hash], MGF1HashType: pssHash[hash], PublicExponent: 65537, SaltLengthBytes: sLen}, pssVariant[v])
					if err != nil {
						x.Fail(scheme+"-construct", "%s: NewParameters: %v", cfg, err)
						return
					}
					pub, err := tpss.NewPublicKey(bytes.Clone(s.n), kid, params)
					if !kencTally(x, scheme, "NewPublicKey", s.name, err) {
						continue
					}
					vf, err = tpss.NewVerifier(pub, vb.Tok())
					addV("NewPublicKey+NewVerifier", s.name, vf, err)
					priv, err := tpss.NewPrivateKey(pub, tpss.PrivateKeyValues{P: secret(s.p), Q: secret(s.q), D: secret(s.d)})
					if !kencTally(x, scheme, "NewPrivateKey", s.name, err) {
						continue
					}
					sg, err = tpss.NewSigner(priv, vb.Tok())
					addS("NewPrivateKey+NewSigner", s.name, sg, err)
					hd, hdErr = tk.Handle([]tk.Entry{{Key: priv, ID: id, Primary: true}})
				} else {
					var params *tpkcs1.Parameters
					params, err = tpkcs1.NewParameters(bits, pkcs1Hash[hash], 65537, pkcs1Variant[v])
					if err != nil {
						x.Fail(scheme+"-construct", "%s: NewParameters: %v", cfg, err)
						return
					}
					pub, err := tpkcs1.NewPublicKey(bytes.Clone(s.n), kid, params)
					if !kencTally(x, scheme, "NewPublicKey", s.name, err) {
						continue
					}
					vf, err = tpkcs1.NewVerifier(pub, vb.Tok())
					addV("NewPublicKey+NewVerifier", s.name, vf, err)
					priv, err := tpkcs1.NewPrivateKey(pub, tpkcs1.PrivateKeyValues{P: secret(s.p), Q: secret(s.q), D: secret(s.d)})
					if !kencTally(x, scheme, "NewPrivateKey", s.name, err) {
						continue
					}
					sg, err = tpkcs1.NewSigner(priv, vb.Tok())
					addS("NewPrivateKey+NewSigner", s.name, sg, err)
					hd, hdErr = tk.Handle([]tk.Entry{{Key: priv, ID: id, Primary: true}})
				}
				if kencTally(x, scheme, "NewPrivateKey+serialise/parse handle", s.name, hdErr) {
					sg, vf, err := signerAndPublicVerifier(hd)
					addS("NewPrivateKey+serialise/parse handle", s.name, sg, err)
					if err == nil {
						addV("NewPrivateKey+serialise/parse handle Public()", s.name, vf, nil)
					}
				}
			}
		case kpProto:
			for _, s := range sets {
				hd, err := oneKeyHandle(privURL, tinkpb.KeyData_ASYMMETRIC_PRIVATE, mustMarshal(privMsg(s)), v, id)
				if kencTally(x, scheme, "private key proto", s.name, err) {
					sg, vf, err := signerAndPublicVerifier(hd)
					addS("private key proto handle", s.name, sg, err)
					if err == nil {
						addV("private key proto handle Public()", s.name, vf, nil)
					}
				}
				hd, err = oneKeyHandle(pubURL, tinkpb.KeyData_ASYMMETRIC_PUBLIC, mustMarshal(pubMsg(s)), v, id)
				if kencTally(x, scheme, "public key proto", s.name, err) {
					vf, err := signature.NewVerifier(hd)
					addV("public key proto handle", s.name, vf, err)
				}
			}
		case kpRegistry:
			for _, s := range sets {
				sg, err := asSigner(registry.Primitive(privURL, mustMarshal(privMsg(s))))
				addS("registry.Primitive(private key)", s.name, sg, err)
				vf, err := asVerifier(registry.Primitive(pubURL, mustMarshal(pubMsg(s))))
				addV("registry.Primitive(public key)", s.name, vf, err)
			}
		}
		x.Outcome(fmt.Sprintf("cfg/%s/%d/%s", scheme, bits, hash))
		kencJudge(x, e, signers, verifiers)
	}
}

// ---------------------------------------------------------------------------------------------

func keyEncodingsSection(x *h.X) {
	schemes := []string{"ECDSA P256/SHA256", "ECDSA P384/SHA384", "ECDSA P384/SHA512", "ECDSA P521/SHA512", "Ed25519", "RSA-SSA-PKCS1", "RSA-SSA-PSS"}
	sc := x.Choose("scheme", len(schemes))
	x.Label(schemes[sc])
	switch {
	case sc < 4:
		kencECDSA(x, ecCfgs[sc])
	case sc == 4:
		kencEd25519(x)
	case sc == 5:
		kencRSA(false)(x)
	default:
		kencRSA(true)(x)
	}
}
