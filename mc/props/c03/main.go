// C03: classical signatures (ECDSA P-256/384/521 in DER and IEEE-P1363, Ed25519, RSA-SSA-PKCS1,
// RSA-SSA-PSS; all prefix variants): Sign's output verifies under tink and under an independent
// verifier of the standard algorithm (over message||0x00 for LEGACY), and Verify accepts exactly the
// (signature, message) pairs an independent STRICT verifier accepts.
//
// Engine E1: the product (scheme parameters x variant x key id x construction path x key) is enumerated;
// inside each execution every message of the length list is signed and a mutation catalogue (all bit
// flips, all truncations, extensions, r/s special values, ~45 DER re-encodings, wrong-length P1363,
// crafted RSA encodings, foreign salt lengths, prefix edits, LEGACY suffix confusion, other keys,
// modified messages) is applied to deterministic reference signatures; tink's accept/reject must equal
// the reference model's for every element.
//
// Reference model (verif/ref/sig.go, ed25519ref.go): accept(sig, msg) :=
//
//	sig starts with prefix(variant, id)  AND  V(pub, raw = sig minus prefix, msg [|| 0x00 if LEGACY])
//
// with V = strict DER / fixed-size P1363 decoding + integer ECDSA verification, RFC 8032 verification,
// RFC 8017 RSASSA-PKCS1-v1_5 / RSASSA-PSS verification with the key's explicit salt length.
// (r, n-s) is a valid ECDSA signature: the reference accepts it, so tink accepting it is not a violation.
//
// Further sections: key-encodings (keyenc.go: every byte-encoding shape of one mathematical key through every
// bytes-taking constructor / proto parser) and tink-generated-keys (keygen.go: the createPrivateKey hooks).
//
// Don't-care cells (not judged): which error value is returned; parameter combinations the constructors
// refuse (weak moduli, e != 65537, hash/curve mismatches); timing; what the monitoring logger sees;
// keysets with more than one key (C05; except section legacy-adapter, see legacy.go, where the factory adapters for
// key types without a full primitive are driven in single- and multi-key keysets); Ed25519 inputs that separate cofactored from cofactorless
// verification (not producible by the catalogue).
package main

import (
	"bytes"
	"crypto/rsa"
	"crypto/sha256"
	"fmt"
	"hash/fnv"
	"math/big"
	"slices"
	"sort"
	"sync"

	"github.com/tink-crypto/tink-go/v2/insecuresecretdataaccess"
	"github.com/tink-crypto/tink-go/v2/key"
	"github.com/tink-crypto/tink-go/v2/keyset"
	"github.com/tink-crypto/tink-go/v2/secretdata"
	"github.com/tink-crypto/tink-go/v2/signature"
	tecdsa "github.com/tink-crypto/tink-go/v2/signature/ecdsa"
	ted "github.com/tink-crypto/tink-go/v2/signature/ed25519"
	tpkcs1 "github.com/tink-crypto/tink-go/v2/signature/rsassapkcs1"
	tpss "github.com/tink-crypto/tink-go/v2/signature/rsassapss"
	sigsubtle "github.com/tink-crypto/tink-go/v2/signature/subtle"
	"github.com/tink-crypto/tink-go/v2/tink"
	"github.com/tink-crypto/tink-go/v2/verifbridge/c03b"
	"github.com/tink-crypto/tink-go/v2/verifbridge/vb"
	"verif/h"
	"verif/ref"
	"verif/tk"
)

var variants = []ref.Variant{ref.Tink, ref.Crunchy, ref.Legacy, ref.Raw}

const (
	pathManager = "signature.New*(manager-handle)"
	pathDirect  = "per-type NewSigner/NewVerifier"
	pathProto   = "signature.New*(proto-handle)"
	pathSubtle  = "subtle/raw constructors"
)

var paths = []string{pathManager, pathDirect, pathProto, pathSubtle}

func ids(x *h.X) []uint32 {
	if x.Thorough() {
		return tk.IDs
	}
	return tk.IDs[:2]
}

func secret(b []byte) secretdata.Bytes {
	return secretdata.NewBytesFromData(bytes.Clone(b), insecuresecretdataaccess.Token{})
}

// ---------------------------------------------------------------------------------------------
// memoisation of pure reference computations (shared by the 16 workers)

type onceVal struct {
	once sync.Once
	v    any
}

var memo sync.Map

func memoize(k string, f func() any) any {
	e, _ := memo.LoadOrStore(k, &onceVal{})
	ov := e.(*onceVal)
	ov.once.Do(func() { ov.v = f() })
	return ov.v
}

// ---------------------------------------------------------------------------------------------
// generic instance + driver

type mut struct {
	class, what string
	sig         []byte // RAW signature (without prefix)
}

type shapeCase struct {
	what string
	msg  []byte
	raw  []byte
	lead int // number of leading zero octets
}

type inst struct {
	scheme, cfg string
	signer      tink.Signer
	verifier    tink.Verifier
	verifierB   tink.Verifier // same parameters and prefix, other key
	prefix      []byte
	variant     ref.Variant
	id          uint32
	// reference model on (raw signature, exact signed data)
	refVerify  func(raw, data []byte, cache bool) bool
	refVerifyB func(raw, data []byte) bool
	refSig     func(data []byte) []byte   // THE deterministic valid raw signature of key A for data
	refSigs    func(data []byte) [][]byte // refSig(data) followed by further valid signatures of other "shapes"
	refSigB    func(data []byte) []byte   // a valid raw signature of key B
	rawMuts    func(data []byte, raw []byte, shape int) []mut
	exact      bool // Sign is deterministic: output must equal prefix || refSigs(data)[0]
	// Tier policy. For catalogue message lengths in flipLens the edge bytes and every flipStride-th bit
	// (1 = every bit) are flipped; for the other lengths edge bytes and every 11th bit.
	flipLens   []int
	flipStride int
	light      bool // reduced treatment (quick: large curves; thorough: the sweep over the non-first key ids): 3 messages, one catalogue length, edge-byte flips only
	// shapeCases: (message, valid raw signature of key A over signed(message)) pairs of special shapes
	// (fixed-width RSA signatures with one / two leading zero octets); nil if the scheme has none.
	shapeCases func() []shapeCase
	// classify may rename the finding key of a mismatch (PSS salt length 0)
	classify func(key string, tinkAccepts bool, raw, data []byte) string
	tally    map[string]int
}

func (in *inst) signed(msg []byte) []byte {
	if in.variant == ref.Legacy {
		return append(bytes.Clone(msg), 0)
	}
	return msg
}

func (in *inst) model(sig, msg []byte) bool {
	if !bytes.HasPrefix(sig, in.prefix) {
		return false
	}
	return in.refVerify(sig[len(in.prefix):], in.signed(msg), true)
}

func (in *inst) modelB(sig, msg []byte) bool {
	if !bytes.HasPrefix(sig, in.prefix) {
		return false
	}
	return in.refVerifyB(sig[len(in.prefix):], in.signed(msg))
}

func tinkVerify(x *h.X, in *inst, v tink.Verifier, sig, msg []byte) (accepted, ok bool) {
	var err error
	if p, m := h.Try(func() { err = v.Verify(sig, msg) }); p {
		x.Fail(in.scheme+"-panic", "%s: Verify panicked on sig=%s msg=%s: %s", in.cfg, tk.Hex(sig), tk.Hex(msg), m)
		return false, false
	}
	return err == nil, true
}

// cmp: tink's decision on (sig, msg) must equal the reference model's.
func (in *inst) cmp(x *h.X, class string, sig, msg []byte, what string) {
	in.cmpWith(x, in.verifier, in.model, class, sig, msg, what)
}

func (in *inst) cmpWith(x *h.X, v tink.Verifier, model func(sig, msg []byte) bool, class string, sig, msg []byte, what string) {
	t, ok := tinkVerify(x, in, v, sig, msg)
	if !ok {
		return
	}
	m := model(sig, msg)
	x.Eval(1)
	if m {
		in.tally[in.scheme+"/"+class+"/accepted"]++
	} else {
		in.tally[in.scheme+"/"+class+"/rejected"]++
	}
	if t != m {
		k := in.scheme + "-" + class
		if in.classify != nil && v == in.verifier && bytes.HasPrefix(sig, in.prefix) {
			k = in.classify(k, t, sig[len(in.prefix):], in.signed(msg))
		}
		verdict := map[bool]string{true: "ACCEPTS", false: "REJECTS"}
		x.Fail(k, "%s: tink %s but the strict reference verifier %s: %s; msg(len %d)=%s sig(len %d)=%s",
			in.cfg, verdict[t], verdict[m], what, len(msg), tk.Hex(msg), len(sig), tk.Hex(sig))
	}
}

func msgLens(x *h.X) ([]int, []int) {
	if x.Thorough() {
		return []int{0, 1, 55, 56, 63, 64, 65, 111, 112, 119, 120, 127, 128, 129, 1000}, []int{2, 3}
	}
	return []int{0, 1, 63, 64, 65, 127, 128, 129, 1000}, []int{2}
}

func otherPrefixes(v ref.Variant, id uint32) [][]byte {
	var out [][]byte
	self := ref.Prefix(v, id)
	for _, ov := range []ref.Variant{ref.Tink, ref.Crunchy} {
		for _, oid := range []uint32{id, id ^ 1, id ^ 0x80000000, id ^ 0x00010000} {
			p := ref.Prefix(ov, oid)
			if !bytes.Equal(p, self) {
				out = append(out, p)
			}
		}
	}
	out = append(out, []byte{2, byte(id >> 24), byte(id >> 16), byte(id >> 8), byte(id)})
	return out
}

func cat(parts ...[]byte) []byte { return bytes.Join(parts, nil) }

func exercise(x *h.X, in *inst) {
	in.tally = map[string]int{}
	defer func() {
		ks := make([]string, 0, len(in.tally))
		for k := range in.tally {
			ks = append(ks, k)
		}
		sort.Strings(ks)
		for _, k := range ks {
			x.OutcomeN(k, in.tally[k])
		}
	}()
	x.NonTrivial()
	lens, pats := msgLens(x)
	if in.light {
		lens = []int{0, 1, 129}
	}

	// (1) Sign's output verifies under tink and under the independent verifier.
	for _, n := range lens {
		for _, pk := range pats {
			msg := ref.Pattern(pk, n)
			var sig []byte
			var err error
			if p, m := h.Try(func() { sig, err = in.signer.Sign(msg) }); p {
				x.Fail(in.scheme+"-panic", "%s: Sign panicked on len %d: %s", in.cfg, n, m)
				return
			}
			x.Eval(1)
			if err != nil {
				x.Fail(in.scheme+"-sign-error", "%s: Sign(len %d) failed: %v", in.cfg, n, err)
				return
			}
			okModel := bytes.HasPrefix(sig, in.prefix) && in.refVerify(sig[len(in.prefix):], in.signed(msg), false)
			if !okModel {
				k := in.scheme + "-sign-invalid"
				if in.classify != nil && bytes.HasPrefix(sig, in.prefix) {
					k = in.classify(k, true, sig[len(in.prefix):], in.signed(msg))
				}
				x.Fail(k, "%s: Sign(msg len %d = %s) returned %s which the independent verifier rejects (expected prefix %x)",
					in.cfg, n, tk.Hex(msg), tk.Hex(sig), in.prefix)
			}
			in.tally[in.scheme+"/sign/"+map[bool]string{true: "ref-accepts", false: "ref-rejects"}[okModel]]++
			t, ok := tinkVerify(x, in, in.verifier, sig, msg)
			if !ok {
				return
			}
			if !t && okModel {
				x.Fail(in.scheme+"-verify-own", "%s: Verify rejects the signature Sign just produced (msg len %d) sig=%s", in.cfg, n, tk.Hex(sig))
			}
			if t && !okModel {
				k := in.scheme + "-verify-own-invalid"
				if in.classify != nil && bytes.HasPrefix(sig, in.prefix) {
					k = in.classify(k, true, sig[len(in.prefix):], in.signed(msg))
				}
				x.Fail(k, "%s: Verify accepts Sign's output although the strict reference verifier rejects it (msg len %d) sig=%s", in.cfg, n, tk.Hex(sig))
			}
			if in.exact {
				want := cat(in.prefix, in.refSig(in.signed(msg)))
				if !bytes.Equal(sig, want) {
					x.Fail(in.scheme+"-sign-mismatch", "%s: deterministic scheme: Sign(len %d)=%s, reference signature=%s", in.cfg, n, tk.Hex(sig), tk.Hex(want))
				}
			}
			// every valid reference signature must be accepted, and cheap negative probes at every length
			rs := cat(in.prefix, in.refSig(in.signed(msg)))
			in.cmp(x, "valid-ref", rs, msg, "valid reference signature")
			in.cmp(x, "msg", rs, append(bytes.Clone(msg), 0), "valid signature presented for message||00")
			if n > 0 {
				in.cmp(x, "msg", rs, msg[:n-1], "valid signature presented for the message minus its last byte")
			}
			bad := bytes.Clone(rs)
			bad[len(bad)-1] ^= 1
			in.cmp(x, "flip", bad, msg, "last bit flipped")
			in.cmp(x, "trunc", rs[:len(rs)-1], msg, "one byte shorter")
		}
	}

	// (2) full mutation catalogue on deterministic reference signatures
	catLens := []int{0, 64}
	if x.Thorough() {
		catLens = []int{0, 64, 129}
	}
	if in.light {
		catLens = []int{64}
	}
	// The flip loop starts at a configuration-dependent offset: concurrently running executions that share
	// memoised reference decisions then compute different ones first instead of waiting for each other.
	rot := fnv.New32a()
	rot.Write([]byte(in.cfg))
	rotation := int(rot.Sum32() % 4096)
	for _, n := range catLens {
		msg := ref.Pattern(2, n)
		if n > 0 {
			msg[n-1] = 0 // ends in 00: exercises the LEGACY suffix confusion in both directions
		}
		data := in.signed(msg)
		raws := in.refSigs(data)
		pre := in.prefix
		if in.light && len(raws) > 2 {
			raws = raws[:2]
		}
		for shape, raw := range raws {
			full := cat(pre, raw)
			if !in.model(full, msg) {
				x.Fail("harness-refsig", "%s: harness error: reference signature (shape %d) rejected by the reference verifier", in.cfg, shape)
				return
			}
			in.cmp(x, "valid-ref", full, msg, fmt.Sprintf("valid reference signature (shape %d)", shape))
			for _, m := range in.rawMuts(data, raw, shape) {
				in.cmp(x, m.class, cat(pre, m.sig), msg, m.what)
			}
		}
		raw := raws[0]
		full := cat(pre, raw)
		// bit flips
		for bit0 := 0; bit0 < 8*len(full); bit0++ {
			bit := (bit0 + rotation*8) % (8 * len(full))
			stride := 11
			if slices.Contains(in.flipLens, n) {
				stride = max(in.flipStride, 1)
			}
			if stride > 1 {
				by := bit / 8
				edge := by < len(pre)+3 || by >= len(full)-2 || by == len(pre)+len(raw)/2 || by == len(pre)+len(raw)/2-1
				if !edge && (bit%stride != 0 || in.light) {
					continue
				}
			}
			b := bytes.Clone(full)
			b[bit/8] ^= 1 << (bit % 8)
			in.cmp(x, "flip", b, msg, fmt.Sprintf("bit %d flipped", bit))
		}
		// truncations and extensions
		for cut := 0; cut < len(full); cut++ {
			in.cmp(x, "trunc", full[:cut], msg, fmt.Sprintf("truncated to %d bytes", cut))
		}
		for ext := 1; ext <= 3; ext++ {
			for _, bb := range []byte{0x00, 0xff} {
				in.cmp(x, "ext", append(bytes.Clone(full), bytes.Repeat([]byte{bb}, ext)...), msg, fmt.Sprintf("extended by %d x %02x", ext, bb))
				in.cmp(x, "ext", cat(pre, bytes.Repeat([]byte{bb}, ext), raw), msg, fmt.Sprintf("%d x %02x inserted after the prefix", ext, bb))
			}
		}
		in.cmp(x, "nil", nil, msg, "nil signature")
		in.cmp(x, "nil", []byte{}, msg, "empty signature")
		in.cmp(x, "nil", pre, msg, "prefix only")
		// prefixes
		for _, op := range otherPrefixes(in.variant, in.id) {
			in.cmp(x, "prefix", cat(op, raw), msg, fmt.Sprintf("signature under foreign prefix %x", op))
		}
		if len(pre) > 0 {
			in.cmp(x, "prefix", raw, msg, "prefix removed")
			in.cmp(x, "prefix", cat(pre, pre, raw), msg, "prefix doubled")
			in.cmp(x, "prefix", cat(pre[:4], raw), msg, "prefix one byte short")
			in.cmp(x, "prefix", cat(pre[1:], raw), msg, "prefix without its first byte")
			in.cmp(x, "prefix", cat(raw, pre), msg, "prefix moved to the end")
			in.cmp(x, "prefix", cat(raw[:1], pre, raw[1:]), msg, "prefix inside the signature")
		}
		// LEGACY suffix confusion: signatures over msg and over msg||00, presented for msg, msg||00, msg minus 00
		noSuffix := cat(pre, in.refSig(msg))
		withSuffix := cat(pre, in.refSig(append(bytes.Clone(msg), 0)))
		for i, s := range [][]byte{noSuffix, withSuffix} {
			nm := []string{"signature over msg", "signature over msg||00"}[i]
			in.cmp(x, "legacy", s, msg, nm+" presented for msg")
			in.cmp(x, "legacy", s, append(bytes.Clone(msg), 0), nm+" presented for msg||00")
			if n > 0 {
				in.cmp(x, "legacy", s, msg[:n-1], nm+" presented for msg minus trailing 00")
			}
		}
		// other keys
		sigB := cat(pre, in.refSigB(data))
		in.cmp(x, "other-key", sigB, msg, "valid signature of another key")
		in.cmpWith(x, in.verifierB, in.modelB, "other-key", full, msg, "signature of key A presented to the verifier of key B")
		in.cmpWith(x, in.verifierB, in.modelB, "other-key", sigB, msg, "signature of key B presented to the verifier of key B")
		// modified messages
		var mods [][]byte
		for _, i := range []int{0, 1, n / 2, n - 2, n - 1} {
			if i >= 0 && i < n {
				for _, bitv := range []byte{0x01, 0x80} {
					d := bytes.Clone(msg)
					d[i] ^= bitv
					mods = append(mods, d)
				}
			}
		}
		mods = append(mods, append(bytes.Clone(msg), 0), append(bytes.Clone(msg), 1), append([]byte{0}, msg...), nil, cat(msg, msg))
		if n > 0 {
			mods = append(mods, msg[:n-1], msg[1:])
		}
		for _, d := range mods {
			if bytes.Equal(d, msg) {
				continue
			}
			in.cmp(x, "msg", full, d, "valid signature presented for a modified message")
		}
	}
	// (3) special signature shapes
	shapeStage(x, in)
}

// shapeStage: fixed-width signatures that begin with zero octets. The genuine signature must verify; the
// forms with the zero octets stripped (k-1 / k-2 octets), with an extra 00 prepended (k+1 octets) and the usual
// prefix edits of those must be decided exactly like the strict reference verifier (len(sig) == k) decides.
// (The "s+n" equivalent never fits into k octets for these moduli: not applicable.)
func shapeStage(x *h.X, in *inst) {
	if in.shapeCases == nil {
		return
	}
	pre := in.prefix
	for _, sc := range in.shapeCases() {
		full := cat(pre, sc.raw)
		if !in.model(full, sc.msg) {
			x.Fail("harness-refsig", "%s: harness error: %s rejected by the reference verifier", in.cfg, sc.what)
			return
		}
		in.tally[in.scheme+fmt.Sprintf("/shape-lead%d/found", sc.lead)]++
		in.cmp(x, "shape-valid", full, sc.msg, "genuine "+sc.what)
		var forms []mut
		for z := 1; z <= sc.lead; z++ {
			forms = append(forms, mut{"shape-stripped", fmt.Sprintf("%s with %d leading zero octet(s) stripped (k-%d octets)", sc.what, z, z), sc.raw[z:]})
		}
		forms = append(forms, mut{"shape-repadded", sc.what + " with one extra 00 prepended (k+1 octets)", cat([]byte{0}, sc.raw)})
		forms = append(forms, mut{"shape-repadded", sc.what + " with two extra 00 prepended (k+2 octets)", cat([]byte{0, 0}, sc.raw)})
		forms = append(forms, mut{"shape-stripped", sc.what + " stripped and 00 appended (k octets, shifted)", cat(sc.raw[1:], []byte{0})})
		forms = append(forms, mut{"shape-stripped", sc.what + " minimal-length integer", bytes.TrimLeft(sc.raw, "\x00")})
		for _, f := range forms {
			in.cmp(x, f.class, cat(pre, f.sig), sc.msg, f.what)
			for _, op := range otherPrefixes(in.variant, in.id)[:3] {
				in.cmp(x, "prefix", cat(op, f.sig), sc.msg, fmt.Sprintf("%s under foreign prefix %x", f.what, op))
			}
			if len(pre) > 0 {
				in.cmp(x, "prefix", f.sig, sc.msg, f.what+", prefix removed")
				in.cmp(x, "prefix", cat(pre, pre, f.sig), sc.msg, f.what+", prefix doubled")
			}
		}
		for _, m := range in.rawMuts(in.signed(sc.msg), sc.raw, 0) {
			in.cmp(x, m.class, cat(pre, m.sig), sc.msg, m.what+" (on "+sc.what+")")
		}
		for cut := 0; cut < len(full); cut++ {
			in.cmp(x, "trunc", full[:cut], sc.msg, fmt.Sprintf("%s truncated to %d bytes", sc.what, cut))
		}
		in.cmp(x, "msg", full, append(bytes.Clone(sc.msg), 0), sc.what+" presented for message||00")
		in.cmpWith(x, in.verifierB, in.modelB, "other-key", full, sc.msg, sc.what+" presented to the verifier of key B")
	}
}

// buildHandles returns Signer/Verifier through signature.NewSigner/NewVerifier for priv, plus a verifier for pubB.
func build(path string, priv, pubB key.Key, id uint32) (tink.Signer, tink.Verifier, tink.Verifier, error) {
	mk := func(k key.Key) (*keyset.Handle, error) {
		if path == pathManager {
			return tk.Single(k)
		}
		return tk.Handle([]tk.Entry{{Key: k, ID: id, Primary: true}})
	}
	hd, err := mk(priv)
	if err != nil {
		return nil, nil, nil, err
	}
	s, err := signature.NewSigner(hd)
	if err != nil {
		return nil, nil, nil, err
	}
	ph, err := hd.Public()
	if err != nil {
		return nil, nil, nil, err
	}
	v, err := signature.NewVerifier(ph)
	if err != nil {
		return nil, nil, nil, err
	}
	hb, err := mk(pubB)
	if err != nil {
		return nil, nil, nil, err
	}
	vB, err := signature.NewVerifier(hb)
	if err != nil {
		return nil, nil, nil, err
	}
	return s, v, vB, nil
}

// ---------------------------------------------------------------------------------------------
// ECDSA

type ecCfg struct {
	name        string
	curve       *ref.ECCurve
	ct          tecdsa.CurveType
	hash        string
	ht          tecdsa.HashType
	subtleCurve string
}

var ecCfgs = []ecCfg{
	{"P256/SHA256", ref.P256, tecdsa.NistP256, "SHA256", tecdsa.SHA256, "NIST_P256"},
	{"P384/SHA384", ref.P384, tecdsa.NistP384, "SHA384", tecdsa.SHA384, "NIST_P384"},
	{"P384/SHA512", ref.P384, tecdsa.NistP384, "SHA512", tecdsa.SHA512, "NIST_P384"},
	{"P521/SHA512", ref.P521, tecdsa.NistP521, "SHA512", tecdsa.SHA512, "NIST_P521"},
}

var ecVariant = map[ref.Variant]tecdsa.Variant{ref.Tink: tecdsa.VariantTink, ref.Crunchy: tecdsa.VariantCrunchy, ref.Legacy: tecdsa.VariantLegacy, ref.Raw: tecdsa.VariantNoPrefix}

type ecKey struct {
	d, x, y *big.Int
	dBytes  []byte
	point   []byte // 04 || X || Y
}

var ecKeyNames = []string{"hashed-A", "hashed-B", "d=1", "d=n-1", "hashed-C"}

func ecKeyOf(c *ref.ECCurve, idx int) *ecKey {
	return memoize(fmt.Sprintf("eckey|%s|%d", c.Name, idx), func() any {
		var d *big.Int
		switch idx {
		case 2:
			d = big.NewInt(1)
		case 3:
			d = new(big.Int).Sub(c.N, big.NewInt(1))
		default:
			d = new(big.Int).SetBytes(ref.KeyBytes(fmt.Sprintf("c03-ec-%s-%d", c.Name, idx), c.Size+8))
			d.Mod(d, new(big.Int).Sub(c.N, big.NewInt(1)))
			d.Add(d, big.NewInt(1))
		}
		xx, yy, ok := c.BaseMult(d)
		if !ok {
			panic("ec key")
		}
		k := &ecKey{d: d, x: xx, y: yy, dBytes: make([]byte, c.Size)}
		d.FillBytes(k.dBytes)
		k.point = make([]byte, 1+2*c.Size)
		k.point[0] = 4
		xx.FillBytes(k.point[1 : 1+c.Size])
		yy.FillBytes(k.point[1+c.Size:])
		return k
	}).(*ecKey)
}

func ecVerifyInts(c *ref.ECCurve, kidx int, k *ecKey, digest []byte, r, s *big.Int, cache bool) bool {
	if r == nil || s == nil || r.Sign() <= 0 || s.Sign() <= 0 || r.Cmp(c.N) >= 0 || s.Cmp(c.N) >= 0 {
		return false
	}
	if !cache {
		return ref.ECDSAVerify(c, k.x, k.y, digest, r, s)
	}
	mk := fmt.Sprintf("ecv|%s|%d|%x|%s|%s", c.Name, kidx, digest, r.Text(62), s.Text(62))
	return memoize(mk, func() any { return ref.ECDSAVerify(c, k.x, k.y, digest, r, s) }).(bool)
}

func ecDecode(c *ref.ECCurve, der bool, raw []byte) (r, s *big.Int, ok bool) {
	if der {
		return ref.DERDecodeSig(raw)
	}
	return ref.P1363DecodeSig(raw, c.Size)
}

func ecEncode(c *ref.ECCurve, der bool, r, s *big.Int) []byte {
	if der {
		return ref.DEREncodeSig(r, s)
	}
	return ref.P1363EncodeSig(r, s, c.Size)
}

// ecSig0: THE deterministic reference signature (nonce counter 0).
func ecSig0(c *ref.ECCurve, kidx int, k *ecKey, digest []byte) [2]*big.Int {
	return memoize(fmt.Sprintf("ec0|%s|%d|%x", c.Name, kidx, digest), func() any {
		for ctr := 0; ; ctr++ {
			if r, s, ok := ref.ECDSASignWithNonce(c, k.d, digest, ref.ECDSANonce(c, k.d, digest, ctr)); ok {
				return [2]*big.Int{r, s}
			}
		}
	}).([2]*big.Int)
}

// ecShapes: deterministic valid (r, s) pairs: [0] = ecSig0; then, as far as found, pairs whose r and s
// (a) both need a DER 00 pad, (b) both need none, (c) r one octet shorter than the field size, (d) s one octet
// shorter, and - only if the bounded nonce walk meets them - (e)/(f) r / s two octets shorter.
func ecShapes(c *ref.ECCurve, kidx int, k *ecKey, digest []byte) [][2]*big.Int {
	return memoize(fmt.Sprintf("ecs|%s|%d|%x", c.Name, kidx, digest), func() any {
		out := [][2]*big.Int{ecSig0(c, kidx, k, digest)}
		pad := func(v *big.Int) bool { b := v.Bytes(); return b[0]&0x80 != 0 }
		short := func(v *big.Int) bool { return len(v.Bytes()) < c.Size }
		short2 := func(v *big.Int) bool { return len(v.Bytes()) < c.Size-1 }
		found := [6]bool{}
		if c.Size == 66 {
			found[0] = true // P-521: a full-length value (521 bits) never needs a pad
		}
		ref.ECDSASignWalk(c, k.d, digest, ref.ECDSANonce(c, k.d, digest, 1000), 6000, func(r, s *big.Int) bool {
			which := -1
			switch {
			case short2(r) && !found[4]: // two leading zero octets in the fixed-width form (opportunistic)
				which = 4
			case short2(s) && !short(r) && !found[5]:
				which = 5
			case short(r) && !short2(r) && !found[2]:
				which = 2
			case short(s) && !short2(s) && !short(r) && !found[3]:
				which = 3
			case pad(r) && pad(s) && !short(r) && !short(s) && !found[0]:
				which = 0
			case !pad(r) && !pad(s) && !short(r) && !short(s) && !found[1]:
				which = 1
			}
			if which >= 0 {
				found[which] = true
				out = append(out, [2]*big.Int{r, s})
			}
			base := found[0] && found[1] && found[2] && found[3]
			if h.IsThorough() {
				return !(base && found[4] && found[5]) // keep walking (bounded) for the two-zero shapes
			}
			return !base
		})
		return out
	}).([][2]*big.Int)
}

func derParts(r, s *big.Int) (R, S, body []byte) {
	R = ref.DERWrap(0x02, ref.DERIntContent(r))
	S = ref.DERWrap(0x02, ref.DERIntContent(s))
	return R, S, cat(R, S)
}

// derReencodings: non-canonical / malformed encodings built around a valid (r, s).
func derReencodings(r, s *big.Int) []mut {
	R, S, body := derParts(r, s)
	rc, sc := ref.DERIntContent(r), ref.DERIntContent(s)
	canon := ref.DERWrap(0x30, body)
	L := len(body)
	var out []mut
	add := func(what string, b ...[]byte) { out = append(out, mut{"der", what, cat(b...)}) }
	seq := func(b ...[]byte) []byte { return ref.DERWrap(0x30, cat(b...)) }
	if L < 0x80 {
		add("SEQUENCE length in long form 81 xx", []byte{0x30, 0x81, byte(L)}, body)
	}
	add("SEQUENCE length in long form 82 00 xx", []byte{0x30, 0x82, byte(L >> 8), byte(L)}, body)
	add("SEQUENCE length in long form 83 00 00 xx", []byte{0x30, 0x83, 0, byte(L >> 8), byte(L)}, body)
	add("SEQUENCE length in long form 84", []byte{0x30, 0x84, 0, 0, byte(L >> 8), byte(L)}, body)
	add("SEQUENCE length in long form 85", []byte{0x30, 0x85, 0, 0, 0, byte(L >> 8), byte(L)}, body)
	add("r length in long form", seq([]byte{0x02, 0x81, byte(len(rc))}, rc, S))
	add("s length in long form", seq(R, []byte{0x02, 0x81, byte(len(sc))}, sc))
	add("r length in long form 82", seq([]byte{0x02, 0x82, 0, byte(len(rc))}, rc, S))
	add("r with an extra leading 00", seq(ref.DERWrap(0x02, cat([]byte{0}, rc)), S))
	add("s with an extra leading 00", seq(R, ref.DERWrap(0x02, cat([]byte{0}, sc))))
	add("r with two extra leading 00", seq(ref.DERWrap(0x02, cat([]byte{0, 0}, rc)), S))
	add("r with a leading ff", seq(ref.DERWrap(0x02, cat([]byte{0xff}, rc)), S))
	add("s with a leading ff", seq(R, ref.DERWrap(0x02, cat([]byte{0xff}, sc))))
	if rc[0] == 0 && len(rc) > 1 {
		add("r without its 00 pad (negative)", seq(ref.DERWrap(0x02, rc[1:]), S))
	}
	if sc[0] == 0 && len(sc) > 1 {
		add("s without its 00 pad (negative)", seq(R, ref.DERWrap(0x02, sc[1:])))
	}
	add("BER indefinite length SEQUENCE", []byte{0x30, 0x80}, body, []byte{0, 0})
	add("BER indefinite length without end-of-contents", []byte{0x30, 0x80}, body)
	add("BER constructed/indefinite r", seq([]byte{0x22, 0x80}, R, []byte{0, 0}, S))
	for _, t := range []byte{0x31, 0x10, 0x70, 0xa0, 0x20, 0x00, 0xff} {
		add(fmt.Sprintf("outer tag %02x", t), ref.DERWrap(t, body))
	}
	for _, t := range []byte{0x03, 0x04, 0x22, 0x82, 0x0a, 0x01, 0x00} {
		add(fmt.Sprintf("r tag %02x", t), seq(ref.DERWrap(t, rc), S))
		add(fmt.Sprintf("s tag %02x", t), seq(R, ref.DERWrap(t, sc)))
	}
	add("high-tag-number SEQUENCE tag", []byte{0x3f, 0x10}, ref.DERLen(L), body)
	add("trailing 00 inside the SEQUENCE", seq(body, []byte{0}))
	add("trailing NULL inside the SEQUENCE", seq(body, []byte{5, 0}))
	add("third INTEGER inside the SEQUENCE", seq(body, []byte{2, 1, 0}))
	add("r repeated as third INTEGER", seq(body, R))
	add("trailing 00 after the SEQUENCE", canon, []byte{0})
	add("trailing 00 00 after the SEQUENCE", canon, []byte{0, 0})
	add("trailing NULL after the SEQUENCE", canon, []byte{5, 0})
	add("signature twice", canon, canon)
	add("SEQUENCE length one too large", []byte{0x30}, ref.DERLen(L+1), body)
	add("SEQUENCE length one too small", []byte{0x30}, ref.DERLen(L-1), body)
	add("SEQUENCE length one too large with filler", []byte{0x30}, ref.DERLen(L+1), body, []byte{0})
	add("r length one too large", seq([]byte{0x02, byte(len(rc) + 1)}, rc, S))
	add("r length one too small", seq([]byte{0x02, byte(len(rc) - 1)}, rc, S))
	add("s length one too large", seq(R, []byte{0x02, byte(len(sc) + 1)}, sc))
	add("s length one too small", seq(R, []byte{0x02, byte(len(sc) - 1)}, sc))
	add("s length one too large with filler", seq(R, []byte{0x02, byte(len(sc) + 1)}, sc, []byte{0}))
	add("r and s swapped", seq(S, R))
	add("empty INTEGER r", seq([]byte{2, 0}, S))
	add("empty INTEGER s", seq(R, []byte{2, 0}))
	add("only r", seq(R))
	add("only s", seq(S))
	add("empty SEQUENCE", []byte{0x30, 0})
	add("lone tag", []byte{0x30})
	add("lone tag and long length", []byte{0x30, 0x81})
	add("nested SEQUENCE", seq(seq(body)))
	add("r, s each wrapped in a SEQUENCE", seq(seq(R), seq(S)))
	add("leading 00 before the SEQUENCE", []byte{0}, canon)
	add("NULL for r", seq([]byte{5, 0}, S))
	add("BOOLEAN for s", seq(R, []byte{1, 1, 0xff}))
	add("r as OCTET STRING inside INTEGER position (bit string)", seq(ref.DERWrap(0x03, cat([]byte{0}, rc)), S))
	return out
}

func ecValueMuts(c *ref.ECCurve, der bool, r, s *big.Int) []mut {
	n := c.N
	z, one := big.NewInt(0), big.NewInt(1)
	ad := func(a, b *big.Int) *big.Int { return new(big.Int).Add(a, b) }
	sb := func(a, b *big.Int) *big.Int { return new(big.Int).Sub(a, b) }
	type pair struct {
		what string
		r, s *big.Int
	}
	ps := []pair{
		{"(r, n-s) [valid: must be ACCEPTED]", r, sb(n, s)},
		{"(0, s)", z, s}, {"(r, 0)", r, z}, {"(0, 0)", z, z},
		{"(n, s)", n, s}, {"(r, n)", r, n}, {"(n, n)", n, n},
		{"(r+n, s)", ad(r, n), s}, {"(r, s+n)", r, ad(s, n)}, {"(r+n, s+n)", ad(r, n), ad(s, n)},
		{"(n-r, s)", sb(n, r), s}, {"(n-r, n-s)", sb(n, r), sb(n, s)},
		{"(s, r)", s, r},
		{"(r+1, s)", ad(r, one), s}, {"(r, s+1)", r, ad(s, one)}, {"(r-1, s)", sb(r, one), s}, {"(r, s-1)", r, sb(s, one)},
		{"(-r, s)", new(big.Int).Neg(r), s}, {"(r, -s)", r, new(big.Int).Neg(s)},
		{"(r-n, s)", sb(r, n), s}, {"(r, s-n)", r, sb(s, n)},
		{"(1, 1)", one, one}, {"(1, s)", one, s}, {"(r, 1)", r, one},
		{"(n-1, n-1)", sb(n, one), sb(n, one)},
		{"(p, s)", c.P, s}, {"(r, 2n-s)", r, sb(ad(n, n), s)},
		{"(r + 2n, s)", ad(r, ad(n, n)), s},
	}
	var out []mut
	for _, p := range ps {
		var b []byte
		if der {
			b = ref.DEREncodeSig(p.r, p.s)
		} else {
			b = ref.P1363EncodeSig(p.r, p.s, c.Size) // nil if negative / does not fit
		}
		if b != nil {
			out = append(out, mut{"value", p.what, b})
		}
	}
	return out
}

func p1363Muts(c *ref.ECCurve, r, s *big.Int) []mut {
	var out []mut
	sz := c.Size
	canon := ref.P1363EncodeSig(r, s, sz)
	add := func(what string, b []byte) { out = append(out, mut{"p1363-len", what, b}) }
	rb, sbb := canon[:sz], canon[sz:]
	add("r and s each with an extra leading 00", cat([]byte{0}, rb, []byte{0}, sbb))
	add("r with an extra leading 00", cat([]byte{0}, rb, sbb))
	add("s with an extra leading 00", cat(rb, []byte{0}, sbb))
	add("two leading 00", cat([]byte{0, 0}, canon))
	add("two trailing 00", cat(canon, []byte{0, 0}))
	add("r, s each minus the first byte", cat(rb[1:], sbb[1:]))
	add("r, s each minus the last byte", cat(rb[:sz-1], sbb[:sz-1]))
	add("r minus first byte", cat(rb[1:], sbb))
	add("s minus first byte", cat(rb, sbb[1:]))
	add("r minus first two bytes", cat(rb[2:], sbb))
	add("s minus first two bytes", cat(rb, sbb[2:]))
	add("r, s each minus the first two bytes", cat(rb[2:], sbb[2:]))
	add("minimal-length r || fixed-width s", cat(r.Bytes(), sbb))
	add("fixed-width r || minimal-length s", cat(rb, s.Bytes()))
	add("minimal-length r || s", cat(r.Bytes(), s.Bytes()))
	for _, osz := range []int{32, 48, 66, 28, 33, 65, 67} {
		if osz == sz {
			continue
		}
		if osz > sz {
			add(fmt.Sprintf("r, s zero-extended to %d bytes each (another curve's size)", osz), ref.P1363EncodeSig(r, s, osz))
		} else {
			add(fmt.Sprintf("r, s cut to their low %d bytes each (another curve's size)", osz), cat(rb[sz-osz:], sbb[sz-osz:]))
			add(fmt.Sprintf("r, s cut to their high %d bytes each", osz), cat(rb[:osz], sbb[:osz]))
		}
	}
	for _, total := range []int{64, 96, 132} {
		if total != 2*sz && total > 2*sz {
			add(fmt.Sprintf("signature followed by zeros up to %d bytes", total), cat(canon, make([]byte, total-2*sz)))
			add(fmt.Sprintf("signature preceded by zeros up to %d bytes", total), cat(make([]byte, total-2*sz), canon))
		}
	}
	out = append(out, mut{"encoding-confusion", "DER encoding presented to an IEEE-P1363 key", ref.DEREncodeSig(r, s)})
	return out
}

func ecdsaSection(x *h.X) {
	path := h.Pick(x, "path", paths)
	v := h.Pick(x, "variant", variants)
	id := h.Pick(x, "id", ids(x))
	if path == pathSubtle && (v != ref.Raw || id != ids(x)[0]) {
		return
	}
	der := h.Pick(x, "encoding", []string{"DER", "IEEE_P1363"}) == "DER"
	ec := ecCfgs[x.Choose("curve/hash", len(ecCfgs))]
	x.Label(ec.name)
	kidxs := []int{0, 3}
	if x.Thorough() {
		kidxs = []int{0, 1, 2, 3, 4}
	}
	kidx := h.Pick(x, "key", kidxs)
	x.Label(ecKeyNames[kidx])
	c := ec.curve
	// quick: P-256 in full; the larger curves (tink verification 0.7-2 ms each) with the first id, the first
	// key and the reduced catalogue. thorough: first id in full for every key (keys other than the first
	// through the per-type and subtle constructors only); the other ids as a light sweep with the first key.
	first := id == ids(x)[0]
	light := (!x.Thorough() && c != ref.P256) || (x.Thorough() && !first)
	if !x.Thorough() && c != ref.P256 && (!first || kidx != kidxs[0]) {
		return
	}
	if x.Thorough() && kidx != 0 && (!first || (path != pathDirect && path != pathSubtle)) {
		return
	}
	kA := ecKeyOf(c, kidx)
	bidx := 1
	if kidx == 1 {
		bidx = 0
	}
	kB := ecKeyOf(c, bidx)
	enc := map[bool]string{true: "DER", false: "IEEE_P1363"}[der]
	cfg := fmt.Sprintf("ECDSA %s %s %v id=%#x key=%s via %s", ec.name, enc, v, id, ecKeyNames[kidx], path)
	in := &inst{scheme: "ecdsa", cfg: cfg, variant: v, id: id, prefix: ref.Prefix(v, id)}

	if path == pathSubtle {
		s, err := sigsubtle.NewECDSASigner(ec.hash, ec.subtleCurve, enc, bytes.Clone(kA.dBytes))
		if err != nil {
			x.Fail("ecdsa-construct", "%s: NewECDSASigner: %v", cfg, err)
			return
		}
		vv, err := sigsubtle.NewECDSAVerifier(ec.hash, ec.subtleCurve, enc, kA.x.Bytes(), kA.y.Bytes())
		if err != nil {
			x.Fail("ecdsa-construct", "%s: NewECDSAVerifier: %v", cfg, err)
			return
		}
		vB, err := sigsubtle.NewECDSAVerifier(ec.hash, ec.subtleCurve, enc, kB.x.Bytes(), kB.y.Bytes())
		if err != nil {
			x.Fail("ecdsa-construct", "%s: NewECDSAVerifier(B): %v", cfg, err)
			return
		}
		in.signer, in.verifier, in.verifierB = s, vv, vB
	} else {
		tenc := tecdsa.IEEEP1363
		if der {
			tenc = tecdsa.DER
		}
		params, err := tecdsa.NewParameters(ec.ct, ec.ht, tenc, ecVariant[v])
		if err != nil {
			x.Fail("ecdsa-construct", "%s: NewParameters: %v", cfg, err)
			return
		}
		kid := id
		if v == ref.Raw {
			kid = 0
		}
		priv, err := tecdsa.NewPrivateKey(secret(kA.dBytes), kid, params)
		if err != nil {
			x.Fail("ecdsa-construct", "%s: NewPrivateKey: %v", cfg, err)
			return
		}
		pubK, _ := priv.PublicKey()
		pub := pubK.(*tecdsa.PublicKey)
		if !bytes.Equal(pub.PublicPoint(), kA.point) {
			x.Fail("ecdsa-pubkey", "%s: public point %x, reference d*G = %x", cfg, pub.PublicPoint(), kA.point)
		}
		if !bytes.Equal(pub.OutputPrefix(), in.prefix) {
			x.Fail("ecdsa-prefix", "%s: OutputPrefix=%x want %x", cfg, pub.OutputPrefix(), in.prefix)
		}
		pubB, err := tecdsa.NewPublicKey(kB.point, kid, params)
		if err != nil {
			x.Fail("ecdsa-construct", "%s: NewPublicKey(B): %v", cfg, err)
			return
		}
		if path == pathDirect {
			in.signer, err = tecdsa.NewSigner(priv, vb.Tok())
			if err == nil {
				in.verifier, err = tecdsa.NewVerifier(pub, vb.Tok())
			}
			if err == nil {
				in.verifierB, err = tecdsa.NewVerifier(pubB, vb.Tok())
			}
		} else {
			in.signer, in.verifier, in.verifierB, err = build(path, priv, pubB, id)
		}
		if err != nil {
			x.Fail("ecdsa-construct", "%s: %v", cfg, err)
			return
		}
	}
	verify := func(kidx int, k *ecKey) func(raw, data []byte, cache bool) bool {
		return func(raw, data []byte, cache bool) bool {
			r, s, ok := ecDecode(c, der, raw)
			if !ok {
				return false
			}
			return ecVerifyInts(c, kidx, k, ref.HashSum(ec.hash, data), r, s, cache)
		}
	}
	in.refVerify = verify(kidx, kA)
	vbf := verify(bidx, kB)
	in.refVerifyB = func(raw, data []byte) bool { return vbf(raw, data, true) }
	in.refSig = func(data []byte) []byte {
		p := ecSig0(c, kidx, kA, ref.HashSum(ec.hash, data))
		return ecEncode(c, der, p[0], p[1])
	}
	in.refSigs = func(data []byte) [][]byte {
		var out [][]byte
		for _, p := range ecShapes(c, kidx, kA, ref.HashSum(ec.hash, data)) {
			out = append(out, ecEncode(c, der, p[0], p[1]))
		}
		return out
	}
	in.refSigB = func(data []byte) []byte {
		p := ecSig0(c, bidx, kB, ref.HashSum(ec.hash, data))
		return ecEncode(c, der, p[0], p[1])
	}
	in.rawMuts = func(data, raw []byte, shape int) []mut {
		r, s, ok := ecDecode(c, der, raw)
		if !ok {
			panic("harness: own signature does not decode")
		}
		out := ecValueMuts(c, der, r, s)
		if der {
			out = append(out, derReencodings(r, s)...)
			out = append(out, mut{"encoding-confusion", "IEEE-P1363 encoding presented to a DER key", ref.P1363EncodeSig(r, s, c.Size)})
		} else {
			out = append(out, p1363Muts(c, r, s)...)
		}
		return out
	}
	if first && !light {
		in.flipLens = []int{64}
		if x.Thorough() && kidx == 0 {
			in.flipLens = []int{0, 64}
		}
	}
	in.flipStride = 1
	in.light = light
	x.Outcome("cfg/ecdsa/" + ec.name + "/" + enc + "/" + v.String())
	exercise(x, in)
}

// codecSection: the public encode/decode helpers of signature/subtle (internal/signature/ecdsa/encoding.go)
// against the reference decoders over the same re-encoding catalogue.
func codecSection(x *h.X) {
	ec := ecCfgs[x.Choose("curve/hash", len(ecCfgs))]
	x.Label(ec.name)
	c := ec.curve
	k := ecKeyOf(c, 0)
	x.NonTrivial()
	digest := ref.HashSum(ec.hash, []byte("codec"))
	pairs := ecShapes(c, 0, k, digest)
	pairs = append(pairs, [2]*big.Int{big.NewInt(0), big.NewInt(0)}, [2]*big.Int{big.NewInt(1), big.NewInt(127)}, [2]*big.Int{big.NewInt(128), big.NewInt(255)},
		[2]*big.Int{big.NewInt(256), big.NewInt(65535)}, [2]*big.Int{big.NewInt(-1), big.NewInt(-128)}, [2]*big.Int{big.NewInt(-129), big.NewInt(-32768)},
		[2]*big.Int{new(big.Int).Sub(c.N, big.NewInt(1)), c.N}, [2]*big.Int{c.P, new(big.Int).Lsh(big.NewInt(1), uint(8*c.Size))},
		[2]*big.Int{new(big.Int).Lsh(big.NewInt(1), 1100), big.NewInt(5)})
	curveName := map[int]string{32: "P-256", 48: "P-384", 66: "P-521"}[c.Size]
	acc, rej := 0, 0
	for _, p := range pairs {
		r, s := p[0], p[1]
		// encode
		want := ref.DEREncodeSig(r, s)
		got, err := sigsubtle.NewECDSASignature(r, s).EncodeECDSASignature("DER", curveName)
		x.Eval(1)
		if err != nil || !bytes.Equal(got, want) {
			x.Fail("codec-der-encode", "EncodeECDSASignature(DER) r=%v s=%v: got %x err=%v, reference %x", r, s, got, err, want)
		}
		wantP := ref.P1363EncodeSig(r, s, c.Size)
		gotP, err := sigsubtle.NewECDSASignature(r, s).EncodeECDSASignature("IEEE_P1363", curveName)
		x.Eval(1)
		if r.Sign() >= 0 && s.Sign() >= 0 { // negative values: math/big FillBytes ignores the sign; not a signature, not judged
			if (wantP == nil) != (err != nil) || (wantP != nil && !bytes.Equal(gotP, wantP)) {
				x.Fail("codec-p1363-encode", "EncodeECDSASignature(IEEE_P1363,%s) r=%v s=%v: got %x err=%v, reference %x", curveName, r, s, gotP, err, wantP)
			}
		}
		// decode: DER catalogue
		cands := [][]byte{want}
		if r.Sign() > 0 && s.Sign() > 0 && r.BitLen() < 600 {
			for _, m := range derReencodings(r, s) {
				cands = append(cands, m.sig)
			}
			for _, m := range ecValueMuts(c, true, r, s) {
				cands = append(cands, m.sig)
			}
			for cut := 0; cut < len(want); cut++ {
				cands = append(cands, want[:cut])
			}
		}
		for _, b := range cands {
			rr, ss, ok := ref.DERDecodeSig(b)
			var d *sigsubtle.ECDSASignature
			var err error
			if pn, m := h.Try(func() { d, err = sigsubtle.DecodeECDSASignature(b, "DER") }); pn {
				x.Fail("codec-panic", "DecodeECDSASignature(DER) panicked on %x: %s", b, m)
				continue
			}
			x.Eval(1)
			if ok {
				acc++
			} else {
				rej++
			}
			if ok != (err == nil) {
				x.Fail("codec-der-decode", "DecodeECDSASignature(%x, DER): tink err=%v, strict reference decoder ok=%v", b, err, ok)
			} else if ok && (d.R.Cmp(rr) != 0 || d.S.Cmp(ss) != 0) {
				x.Fail("codec-der-decode", "DecodeECDSASignature(%x, DER) = (%v,%v), reference (%v,%v)", b, d.R, d.S, rr, ss)
			}
		}
		// decode: P1363 of every length 0..140 (curve-agnostic decoder: exactly 64, 96, 132 are admissible)
		if wantP != nil {
			for n := 0; n <= 140; n++ {
				b := make([]byte, n)
				copy(b, wantP)
				for i := len(wantP); i < n; i++ {
					b[i] = byte(i)
				}
				ok := n == 64 || n == 96 || n == 132
				d, err := sigsubtle.DecodeECDSASignature(b, "IEEE_P1363")
				x.Eval(1)
				if ok {
					acc++
				} else {
					rej++
				}
				if ok != (err == nil) {
					x.Fail("codec-p1363-decode", "DecodeECDSASignature(len %d, IEEE_P1363): err=%v, reference admissible=%v", n, err, ok)
				} else if ok {
					rr, ss, _ := ref.P1363DecodeSig(b, n/2)
					if d.R.Cmp(rr) != 0 || d.S.Cmp(ss) != 0 {
						x.Fail("codec-p1363-decode", "DecodeECDSASignature(len %d, IEEE_P1363) wrong values", n)
					}
				}
			}
		}
	}
	x.OutcomeN("codec/accepted", acc)
	x.OutcomeN("codec/rejected", rej)
}

// ---------------------------------------------------------------------------------------------
// Ed25519

var edVariant = map[ref.Variant]ted.Variant{ref.Tink: ted.VariantTink, ref.Crunchy: ted.VariantCrunchy, ref.Legacy: ted.VariantLegacy, ref.Raw: ted.VariantNoPrefix}

func edSeed(idx int) []byte {
	switch idx {
	case 1:
		return ref.KeyBytes("c03-ed25519-B", 32)
	case 2:
		return make([]byte, 32)
	case 3:
		return bytes.Repeat([]byte{0xff}, 32)
	}
	return ref.KeyBytes("c03-ed25519-A", 32)
}

func edPub(idx int) []byte {
	return memoize(fmt.Sprintf("edpub|%d", idx), func() any { return ref.Ed25519Public(edSeed(idx)) }).([]byte)
}

func edVerifyCached(idx int, raw, data []byte, cache bool) bool {
	if len(raw) != 64 {
		return false
	}
	if !cache {
		return ref.Ed25519Verify(edPub(idx), data, raw)
	}
	hsh := sha256.Sum256(data)
	return memoize(fmt.Sprintf("edv|%d|%x|%x", idx, hsh, raw), func() any { return ref.Ed25519Verify(edPub(idx), data, raw) }).(bool)
}

func edSign(idx int, data []byte) []byte {
	hsh := sha256.Sum256(data)
	return memoize(fmt.Sprintf("eds|%d|%x", idx, hsh), func() any { return ref.Ed25519Sign(edSeed(idx), data) }).([]byte)
}

func ed25519Section(x *h.X) {
	path := h.Pick(x, "path", paths)
	v := h.Pick(x, "variant", variants)
	id := h.Pick(x, "id", ids(x))
	if path == pathSubtle && (v != ref.Raw || id != ids(x)[0]) {
		return
	}
	kidxs := []int{0, 2}
	if x.Thorough() {
		kidxs = []int{0, 1, 2, 3}
	}
	kidx := h.Pick(x, "key", kidxs)
	bidx := 1
	if kidx == 1 {
		bidx = 0
	}
	cfg := fmt.Sprintf("Ed25519 %v id=%#x key=%d via %s", v, id, kidx, path)
	in := &inst{scheme: "ed25519", cfg: cfg, variant: v, id: id, prefix: ref.Prefix(v, id), exact: true}
	if path == pathSubtle {
		s, err := sigsubtle.NewED25519Signer(edSeed(kidx))
		if err != nil {
			x.Fail("ed25519-construct", "%s: %v", cfg, err)
			return
		}
		vv, err := sigsubtle.NewED25519Verifier(edPub(kidx))
		if err != nil {
			x.Fail("ed25519-construct", "%s: %v", cfg, err)
			return
		}
		vB, _ := sigsubtle.NewED25519Verifier(edPub(bidx))
		in.signer, in.verifier, in.verifierB = s, vv, vB
	} else {
		params, err := ted.NewParameters(edVariant[v])
		if err != nil {
			x.Fail("ed25519-construct", "%s: %v", cfg, err)
			return
		}
		kid := id
		if v == ref.Raw {
			kid = 0
		}
		priv, err := ted.NewPrivateKey(secret(edSeed(kidx)), kid, params)
		if err != nil {
			x.Fail("ed25519-construct", "%s: %v", cfg, err)
			return
		}
		pubK, _ := priv.PublicKey()
		pub := pubK.(*ted.PublicKey)
		if !bytes.Equal(pub.KeyBytes(), edPub(kidx)) {
			x.Fail("ed25519-pubkey", "%s: public key %x, RFC 8032 reference %x", cfg, pub.KeyBytes(), edPub(kidx))
		}
		if !bytes.Equal(pub.OutputPrefix(), in.prefix) {
			x.Fail("ed25519-prefix", "%s: OutputPrefix=%x want %x", cfg, pub.OutputPrefix(), in.prefix)
		}
		pubB, err := ted.NewPublicKey(edPub(bidx), kid, params)
		if err != nil {
			x.Fail("ed25519-construct", "%s: %v", cfg, err)
			return
		}
		if path == pathDirect {
			in.signer, err = ted.NewSigner(priv, vb.Tok())
			if err == nil {
				in.verifier, err = ted.NewVerifier(pub, vb.Tok())
			}
			if err == nil {
				in.verifierB, err = ted.NewVerifier(pubB, vb.Tok())
			}
		} else {
			in.signer, in.verifier, in.verifierB, err = build(path, priv, pubB, id)
		}
		if err != nil {
			x.Fail("ed25519-construct", "%s: %v", cfg, err)
			return
		}
	}
	in.refVerify = func(raw, data []byte, cache bool) bool { return edVerifyCached(kidx, raw, data, cache) }
	in.refVerifyB = func(raw, data []byte) bool { return edVerifyCached(bidx, raw, data, true) }
	in.refSig = func(data []byte) []byte { return edSign(kidx, data) }
	in.refSigs = func(data []byte) [][]byte { return [][]byte{edSign(kidx, data)} }
	in.refSigB = func(data []byte) []byte { return edSign(bidx, data) }
	in.rawMuts = func(data, raw []byte, shape int) []mut {
		var out []mut
		L := ref.Ed25519Order()
		sInt := new(big.Int).SetBytes(rev(raw[32:]))
		withS := func(what string, v *big.Int) {
			if v.Sign() < 0 || v.BitLen() > 256 {
				return
			}
			b := make([]byte, 32)
			v.FillBytes(b)
			out = append(out, mut{"ed-noncanonical", what, cat(raw[:32], rev(b))})
		}
		withS("S + L (non-canonical S)", new(big.Int).Add(sInt, L))
		withS("S + 2L", new(big.Int).Add(sInt, new(big.Int).Lsh(L, 1)))
		withS("S + 8L", new(big.Int).Add(sInt, new(big.Int).Lsh(L, 3)))
		withS("L - S", new(big.Int).Sub(L, sInt))
		withS("S = 0", big.NewInt(0))
		withS("S = L", L)
		withS("S = L-1", new(big.Int).Sub(L, big.NewInt(1)))
		out = append(out, mut{"value", "R and S swapped", cat(raw[32:], raw[:32])})
		out = append(out, mut{"value", "all-zero signature", make([]byte, 64)})
		ident := make([]byte, 64)
		ident[0] = 1
		out = append(out, mut{"value", "R = identity, S = 0", ident})
		out = append(out, mut{"value", "R = public key", cat(edPub(kidx), raw[32:])})
		out = append(out, mut{"value", "R of another message's signature", cat(edSign(kidx, append(bytes.Clone(data), 7))[:32], raw[32:])})
		out = append(out, mut{"value", "S of another message's signature", cat(raw[:32], edSign(kidx, append(bytes.Clone(data), 7))[32:])})
		return out
	}
	if id == ids(x)[0] {
		in.flipLens = []int{64}
		if x.Thorough() {
			in.flipLens = []int{0, 64, 129}
		}
	}
	in.flipStride = 1
	x.Outcome("cfg/ed25519/" + v.String())
	exercise(x, in)
}

func rev(b []byte) []byte {
	o := make([]byte, len(b))
	for i := range b {
		o[len(b)-1-i] = b[i]
	}
	return o
}

// ---------------------------------------------------------------------------------------------
// RSA

type rsaKey struct {
	bits, idx int
	pub       *ref.RSAPub
	d, p, q   *big.Int
	std       *rsa.PrivateKey // only as the argument type of tink's internal raw constructors
}

func rsaKeyOf(bits, idx int) *rsaKey {
	return memoize(fmt.Sprintf("rsakey|%d|%d", bits, idx), func() any {
		hx := ref.RSATestKeyHex[bits][idx]
		bi := func(s string) *big.Int {
			v, ok := new(big.Int).SetString(s, 16)
			if !ok {
				panic("rsa key hex")
			}
			return v
		}
		k := &rsaKey{bits: bits, idx: idx, pub: &ref.RSAPub{N: bi(hx[0]), E: 65537}, d: bi(hx[1]), p: bi(hx[2]), q: bi(hx[3])}
		if new(big.Int).Mul(k.p, k.q).Cmp(k.pub.N) != 0 || k.pub.N.BitLen() != bits {
			panic("rsa key inconsistent")
		}
		k.std = &rsa.PrivateKey{PublicKey: rsa.PublicKey{N: k.pub.N, E: 65537}, D: k.d, Primes: []*big.Int{k.p, k.q}}
		k.std.Precompute()
		return k
	}).(*rsaKey)
}

// signEM: memoised textbook private-key operation on an encoded message.
func (k *rsaKey) signEM(em []byte) []byte {
	if em == nil {
		return nil
	}
	hsh := sha256.Sum256(em)
	r := memoize(fmt.Sprintf("rsasp|%d|%d|%x", k.bits, k.idx, hsh), func() any { return ref.RSASignEMCRT(k.pub, k.d, k.p, k.q, em) })
	if r == nil {
		return nil
	}
	return r.([]byte)
}

func rsaValueMuts(k *rsaKey, raw []byte) []mut {
	n := k.pub.N
	sz := k.pub.Size()
	s := new(big.Int).SetBytes(raw)
	var out []mut
	add := func(what string, b []byte) {
		if b != nil {
			out = append(out, mut{"rsa-value", what, b})
		}
	}
	fixed := func(v *big.Int) []byte {
		if v.Sign() < 0 || v.BitLen() > 8*sz {
			return nil
		}
		b := make([]byte, sz)
		v.FillBytes(b)
		return b
	}
	add("s = 0", fixed(big.NewInt(0)))
	add("s = 1", fixed(big.NewInt(1)))
	add("s = n-1", fixed(new(big.Int).Sub(n, big.NewInt(1))))
	add("s = n", fixed(n))
	add("s + n", fixed(new(big.Int).Add(s, n)))
	add("n - s", fixed(new(big.Int).Sub(n, s)))
	add("s + 1", fixed(new(big.Int).Add(s, big.NewInt(1))))
	add("all ff", bytes.Repeat([]byte{0xff}, sz))
	add("00 || s (k+1 bytes)", cat([]byte{0}, raw))
	add("s || 00 (k+1 bytes)", cat(raw, []byte{0}))
	add("s minus first byte (k-1 bytes)", raw[1:])
	add("s minus first two bytes", raw[2:])
	return out
}

var otherHash = map[string]string{"SHA256": "SHA512", "SHA384": "SHA256", "SHA512": "SHA384"}
var digestInfo = map[string][]byte{
	"SHA256": {0x30, 0x31, 0x30, 0x0d, 0x06, 0x09, 0x60, 0x86, 0x48, 0x01, 0x65, 0x03, 0x04, 0x02, 0x01, 0x05, 0x00, 0x04, 0x20},
	"SHA384": {0x30, 0x41, 0x30, 0x0d, 0x06, 0x09, 0x60, 0x86, 0x48, 0x01, 0x65, 0x03, 0x04, 0x02, 0x02, 0x05, 0x00, 0x04, 0x30},
	"SHA512": {0x30, 0x51, 0x30, 0x0d, 0x06, 0x09, 0x60, 0x86, 0x48, 0x01, 0x65, 0x03, 0x04, 0x02, 0x03, 0x05, 0x00, 0x04, 0x40},
}

// pkcs1Crafted: signatures (made with the private key) over deliberately malformed EMSA-PKCS1-v1_5 blocks.
func pkcs1Crafted(k *rsaKey, hash string, data []byte) []mut {
	sz := k.pub.Size()
	hv := ref.HashSum(hash, data)
	t := cat(digestInfo[hash], hv)
	ff := func(n int) []byte { return bytes.Repeat([]byte{0xff}, n) }
	var out []mut
	add := func(what string, em []byte) {
		if len(em) != sz {
			panic("harness: crafted EM has wrong length: " + what)
		}
		if s := k.signEM(em); s != nil {
			out = append(out, mut{"pkcs1-craft", what, s})
		}
	}
	psLen := sz - 3 - len(t)
	add("block type 02", cat([]byte{0, 2}, ff(psLen), []byte{0}, t))
	add("block type 00", cat([]byte{0, 0}, ff(psLen), []byte{0}, t))
	add("PS of 8 bytes, garbage after the digest", cat([]byte{0, 1}, ff(8), []byte{0}, t, ff(psLen-8)))
	add("PS of 8 bytes, zeros after the digest", cat([]byte{0, 1}, ff(8), []byte{0}, t, make([]byte, psLen-8)))
	ps := ff(psLen)
	ps[psLen/2] = 0xfe
	add("PS with one byte fe", cat([]byte{0, 1}, ps, []byte{0}, t))
	ps2 := ff(psLen)
	ps2[3] = 0x00
	add("PS with an embedded 00", cat([]byte{0, 1}, ps2, []byte{0}, t))
	add("no 00 separator", cat([]byte{0, 1}, ff(psLen+1), t))
	// DigestInfo without the NULL parameters (a frequent lenient-verifier acceptance)
	di := bytes.Clone(digestInfo[hash])
	noNull := cat([]byte{0x30, di[1] - 2, 0x30, di[3] - 2}, di[4:15], di[17:], hv)
	add("DigestInfo without NULL parameters", cat([]byte{0, 1}, ff(sz-3-len(noNull)), []byte{0}, noNull))
	// digest OCTET STRING one byte longer
	long := cat(di[:1], []byte{di[1] + 1}, di[2:18], []byte{di[18] + 1}, hv, []byte{0})
	add("digest one byte longer", cat([]byte{0, 1}, ff(sz-3-len(long)), []byte{0}, long))
	// DigestInfo length in long form (BER)
	ber := cat([]byte{0x30, 0x81, di[1]}, di[2:], hv)
	add("DigestInfo with BER long-form length", cat([]byte{0, 1}, ff(sz-3-len(ber)), []byte{0}, ber))
	add("bare digest without DigestInfo", cat([]byte{0, 1}, ff(sz-3-len(hv)), []byte{0}, hv))
	oh := otherHash[hash]
	add("signed with another hash function ("+oh+")", ref.EMSAPKCS1v15(oh, data, sz))
	add("other hash's OID over this hash's digest", cat([]byte{0, 1}, ff(sz-3-len(digestInfo[oh])-len(hv)), []byte{0}, digestInfo[oh], hv))
	add("PSS-encoded block presented to a PKCS1 key", ref.EMSAPSSEncode(hash, data, ref.KeyBytes("x", 32), 8*sz-1))
	return out
}

// pssEncodeTweaked is EMSA-PSS-ENCODE with knobs for malformed blocks.
func pssEncodeTweaked(hash, mgfHash string, data, salt []byte, emBits int, tweak string) []byte {
	mHash := ref.HashSum(hash, data)
	hLen := len(mHash)
	emLen := (emBits + 7) / 8
	if emLen < hLen+len(salt)+2 {
		return nil
	}
	zeros := 8
	if tweak == "m-prime-7-zeros" {
		zeros = 7
	}
	hh := ref.HashSum(hash, make([]byte, zeros), mHash, salt)
	db := make([]byte, emLen-hLen-1)
	sep := len(db) - len(salt) - 1
	db[sep] = 0x01
	copy(db[sep+1:], salt)
	switch tweak {
	case "separator-02":
		db[sep] = 0x02
	case "separator-00":
		db[sep] = 0x00
	case "ps-nonzero":
		if sep < 2 {
			return nil
		}
		db[sep/2+1] = 0x01
	case "ps-nonzero-first":
		if sep < 1 {
			return nil
		}
		db[0] = 0x40
	}
	mask := ref.MGF1(mgfHash, hh, len(db))
	for i := range db {
		db[i] ^= mask[i]
	}
	db[0] &= byte(0xff >> uint(8*emLen-emBits))
	trailer := byte(0xbc)
	if tweak == "trailer-cc" {
		trailer = 0xcc
	}
	return append(append(db, hh...), trailer)
}

func pssCrafted(k *rsaKey, hash string, sLen int, data []byte) []mut {
	emBits := k.pub.N.BitLen() - 1
	emLen := (emBits + 7) / 8
	hLen := len(ref.HashSum(hash, nil))
	maxSalt := emLen - hLen - 2
	var out []mut
	seen := map[int]bool{sLen: true}
	for _, sl := range []int{0, 1, 2, sLen - 1, sLen + 1, 20, 32, 48, 64, hLen, maxSalt - 1, maxSalt} {
		if sl < 0 || sl > maxSalt || seen[sl] {
			continue
		}
		seen[sl] = true
		em := ref.EMSAPSSEncode(hash, data, ref.KeyBytes(fmt.Sprintf("c03-salt-%d", sl), sl), emBits)
		if s := k.signEM(em); s != nil {
			out = append(out, mut{"pss-saltlen", fmt.Sprintf("valid PSS signature with salt length %d (key specifies %d)", sl, sLen), s})
		}
	}
	salt := ref.KeyBytes("c03-salt", sLen)
	for _, tw := range []string{"separator-02", "separator-00", "ps-nonzero", "ps-nonzero-first", "trailer-cc", "m-prime-7-zeros"} {
		if s := k.signEM(pssEncodeTweaked(hash, hash, data, salt, emBits, tw)); s != nil {
			out = append(out, mut{"pss-craft", "malformed EMSA-PSS block: " + tw, s})
		}
	}
	oh := otherHash[hash]
	if s := k.signEM(pssEncodeTweaked(hash, oh, data, salt, emBits, "")); s != nil {
		out = append(out, mut{"pss-craft", "MGF1 with another hash (" + oh + ")", s})
	}
	if s := k.signEM(ref.EMSAPSSEncode(oh, data, salt, emBits)); s != nil {
		out = append(out, mut{"pss-craft", "signed with another hash function (" + oh + ")", s})
	}
	if s := k.signEM(ref.EMSAPKCS1v15(hash, data, emLen)); s != nil {
		out = append(out, mut{"pss-craft", "PKCS1-v1_5 block presented to a PSS key", s})
	}
	return out
}

var pkcs1Variant = map[ref.Variant]tpkcs1.Variant{ref.Tink: tpkcs1.VariantTink, ref.Crunchy: tpkcs1.VariantCrunchy, ref.Legacy: tpkcs1.VariantLegacy, ref.Raw: tpkcs1.VariantNoPrefix}
var pkcs1Hash = map[string]tpkcs1.HashType{"SHA256": tpkcs1.SHA256, "SHA384": tpkcs1.SHA384, "SHA512": tpkcs1.SHA512}
var pssVariant = map[ref.Variant]tpss.Variant{ref.Tink: tpss.VariantTink, ref.Crunchy: tpss.VariantCrunchy, ref.Legacy: tpss.VariantLegacy, ref.Raw: tpss.VariantNoPrefix}
var pssHash = map[string]tpss.HashType{"SHA256": tpss.SHA256, "SHA384": tpss.SHA384, "SHA512": tpss.SHA512}

func moduli(x *h.X) []int {
	if x.Thorough() {
		return []int{2048, 3072, 4096}
	}
	return []int{2048}
}

func rsaSection(pss bool) func(x *h.X) {
	return func(x *h.X) {
		path := h.Pick(x, "path", paths)
		v := h.Pick(x, "variant", variants)
		id := h.Pick(x, "id", ids(x))
		if path == pathSubtle && (v != ref.Raw || id != ids(x)[0]) {
			return
		}
		bits := h.Pick(x, "modulus", moduli(x))
		first := id == ids(x)[0]
		if bits != 2048 && !first {
			return // thorough: the id sweep runs with the 2048-bit key; larger moduli with the first id
		}
		hash := h.Pick(x, "hash", []string{"SHA256", "SHA384", "SHA512"})
		kA, kB := rsaKeyOf(bits, 0), rsaKeyOf(bits, 1)
		sLen := 0
		scheme := "rsassapkcs1"
		if pss {
			scheme = "rsassapss"
			hLen := len(ref.HashSum(hash, nil))
			maxSalt := bits/8 - hLen - 2
			var salts []int
			for _, s := range []int{0, 1, 32, hLen, maxSalt} {
				dup := false
				for _, o := range salts {
					dup = dup || o == s
				}
				if !dup {
					salts = append(salts, s)
				}
			}
			sLen = h.Pick(x, "saltlen", salts)
		}
		cfg := fmt.Sprintf("%s %d %s salt=%d %v id=%#x via %s", scheme, bits, hash, sLen, v, id, path)
		if pss && sLen == 0 && path == pathProto {
			// don't care: signature/rsassapss/protoserialization.go refuses to serialise or parse salt length 0
			// ("salt length zero cannot be serialized"), so such a key cannot exist in a proto keyset.
			x.Outcome("refused/rsassapss-salt0-proto-keyset")
			return
		}
		in := &inst{scheme: scheme, cfg: cfg, variant: v, id: id, prefix: ref.Prefix(v, id), exact: !pss}
		var err error
		fail := func(what string, err error) {
			x.Fail(scheme+"-construct", "%s: %s: %v", cfg, what, err)
		}
		kid := id
		if v == ref.Raw {
			kid = 0
		}
		switch {
		case path == pathSubtle && !pss:
			if in.signer, err = c03b.PKCS1Signer(hash, kA.std); err != nil {
				fail("New_RSA_SSA_PKCS1_Signer", err)
				return
			}
			if in.verifier, err = c03b.PKCS1Verifier(hash, &kA.std.PublicKey); err != nil {
				fail("New_RSA_SSA_PKCS1_Verifier", err)
				return
			}
			in.verifierB, _ = c03b.PKCS1Verifier(hash, &kB.std.PublicKey)
		case path == pathSubtle && pss:
			if in.signer, err = c03b.PSSSigner(hash, sLen, kA.std); err != nil {
				fail("New_RSA_SSA_PSS_Signer", err)
				return
			}
			if in.verifier, err = c03b.PSSVerifier(hash, sLen, &kA.std.PublicKey); err != nil {
				fail("New_RSA_SSA_PSS_Verifier", err)
				return
			}
			in.verifierB, _ = c03b.PSSVerifier(hash, sLen, &kB.std.PublicKey)
		case !pss:
			params, err := tpkcs1.NewParameters(bits, pkcs1Hash[hash], 65537, pkcs1Variant[v])
			if err != nil {
				fail("NewParameters", err)
				return
			}
			pub, err := tpkcs1.NewPublicKey(kA.pub.N.Bytes(), kid, params)
			if err != nil {
				fail("NewPublicKey", err)
				return
			}
			priv, err := tpkcs1.NewPrivateKey(pub, tpkcs1.PrivateKeyValues{P: secret(kA.p.Bytes()), Q: secret(kA.q.Bytes()), D: secret(kA.d.Bytes())})
			if err != nil {
				fail("NewPrivateKey", err)
				return
			}
			pubB, err := tpkcs1.NewPublicKey(kB.pub.N.Bytes(), kid, params)
			if err != nil {
				fail("NewPublicKey(B)", err)
				return
			}
			if !bytes.Equal(pub.OutputPrefix(), in.prefix) {
				x.Fail(scheme+"-prefix", "%s: OutputPrefix=%x want %x", cfg, pub.OutputPrefix(), in.prefix)
			}
			if path == pathDirect {
				in.signer, err = tpkcs1.NewSigner(priv, vb.Tok())
				if err == nil {
					in.verifier, err = tpkcs1.NewVerifier(pub, vb.Tok())
				}
				if err == nil {
					in.verifierB, err = tpkcs1.NewVerifier(pubB, vb.Tok())
				}
			} else {
				in.signer, in.verifier, in.verifierB, err = build(path, priv, pubB, id)
			}
			if err != nil {
				fail("primitive", err)
				return
			}
		default:
			params, err := tpss.NewParameters(tpss.ParametersValues{ModulusSizeBits: bits, SigHashType: pssHash[hash], MGF1HashType: pssHash[hash], PublicExponent: 65537, SaltLengthBytes: sLen}, pssVariant[v])
			if err != nil {
				fail("NewParameters", err)
				return
			}
			pub, err := tpss.NewPublicKey(kA.pub.N.Bytes(), kid, params)
			if err != nil {
				fail("NewPublicKey", err)
				return
			}
			priv, err := tpss.NewPrivateKey(pub, tpss.PrivateKeyValues{P: secret(kA.p.Bytes()), Q: secret(kA.q.Bytes()), D: secret(kA.d.Bytes())})
			if err != nil {
				fail("NewPrivateKey", err)
				return
			}
			pubB, err := tpss.NewPublicKey(kB.pub.N.Bytes(), kid, params)
			if err != nil {
				fail("NewPublicKey(B)", err)
				return
			}
			if !bytes.Equal(pub.OutputPrefix(), in.prefix) {
				x.Fail(scheme+"-prefix", "%s: OutputPrefix=%x want %x", cfg, pub.OutputPrefix(), in.prefix)
			}
			if path == pathDirect {
				in.signer, err = tpss.NewSigner(priv, vb.Tok())
				if err == nil {
					in.verifier, err = tpss.NewVerifier(pub, vb.Tok())
				}
				if err == nil {
					in.verifierB, err = tpss.NewVerifier(pubB, vb.Tok())
				}
			} else {
				in.signer, in.verifier, in.verifierB, err = build(path, priv, pubB, id)
			}
			if err != nil {
				fail("primitive", err)
				return
			}
		}
		rv := func(k *rsaKey) func(raw, data []byte) bool {
			return func(raw, data []byte) bool {
				if pss {
					return ref.RSAVerifyPSS(k.pub, hash, sLen, data, raw)
				}
				return ref.RSAVerifyPKCS1(k.pub, hash, data, raw)
			}
		}
		rvA := rv(kA)
		in.refVerify = func(raw, data []byte, _ bool) bool { return rvA(raw, data) }
		in.refVerifyB = rv(kB)
		sign := func(k *rsaKey, data []byte) []byte {
			var em []byte
			if pss {
				em = ref.EMSAPSSEncode(hash, data, ref.KeyBytes("c03-salt", sLen), bits-1)
			} else {
				em = ref.EMSAPKCS1v15(hash, data, bits/8)
			}
			s := k.signEM(em)
			if s == nil {
				panic("harness: reference RSA signing failed")
			}
			return s
		}
		in.refSig = func(data []byte) []byte { return sign(kA, data) }
		in.refSigs = func(data []byte) [][]byte { return [][]byte{sign(kA, data)} }
		in.refSigB = func(data []byte) []byte { return sign(kB, data) }
		in.rawMuts = func(data, raw []byte, shape int) []mut {
			out := rsaValueMuts(kA, raw)
			if pss {
				out = append(out, pssCrafted(kA, hash, sLen, data)...)
			} else {
				out = append(out, pkcs1Crafted(kA, hash, data)...)
			}
			return out
		}
		legacy := v == ref.Legacy
		in.shapeCases = func() []shapeCase {
			return memoize(fmt.Sprintf("rsashape|%s|%d|%s|%d|%v|%v", scheme, bits, hash, sLen, legacy, x.Thorough()), func() any {
				// messages "shape-search-<i>": the first whose reference signature starts with one zero octet, and
				// (bounded search) the first with two. quick: stop at the first hit; thorough: keep looking for a
				// two-zero signature up to the bound.
				bound := 0
				if x.Thorough() {
					bound = 600
					if !pss {
						bound = 3000
					}
					if bits > 2048 {
						bound /= 3
					}
				}
				var one, two *shapeCase
				for i := 0; i < 4000 && (one == nil || (two == nil && i < bound)); i++ {
					m := []byte(fmt.Sprintf("shape-search-%d", i))
					d := m
					if legacy {
						d = append(bytes.Clone(m), 0)
					}
					raw := sign(kA, d)
					if raw[0] != 0 {
						continue
					}
					if raw[1] == 0 && two == nil {
						two = &shapeCase{fmt.Sprintf("signature with two leading zero octets (message %q)", m), m, raw, 2}
					} else if one == nil {
						one = &shapeCase{fmt.Sprintf("signature with a leading zero octet (message %q)", m), m, raw, 1}
					}
				}
				var out []shapeCase
				if one != nil {
					out = append(out, *one)
				}
				if two != nil {
					out = append(out, *two)
				}
				return out
			}).([]shapeCase)
		}
		if pss && sLen == 0 {
			// KNOWN DEFECT classification: with SaltLengthBytes = 0 tink hands rsa.PSSOptions{SaltLength: 0} =
			// PSSSaltLengthAuto to the standard library. A mismatch is filed under the salt-length-0 keys only
			// if it is explained by exactly that: the signature is a valid PSS signature with ANOTHER salt
			// length. Every other mismatch keeps its ordinary key.
			in.classify = func(k string, tinkAccepts bool, raw, data []byte) string {
				if tinkAccepts && !ref.RSAVerifyPSS(kA.pub, hash, 0, data, raw) && ref.RSAVerifyPSS(kA.pub, hash, -1, data, raw) {
					if k == scheme+"-sign-invalid" {
						return "rsassapss-saltlen0-sign"
					}
					return "rsassapss-saltlen0-verify-accepts-other-saltlen"
				}
				return k
			}
		}
		// RSA bit flips all turn the signature representative into garbage alike: every bit is flipped in the
		// thorough tier through the per-type / raw constructors, every 3rd bit (plus edge bytes) otherwise.
		in.light = x.Thorough() && !first
		if first {
			in.flipLens = []int{64}
		}
		in.flipStride = 3
		if x.Thorough() && (path == pathDirect || path == pathSubtle) {
			in.flipStride = 1
		}
		x.Outcome(fmt.Sprintf("cfg/%s/%d/%s/salt%d/%v", scheme, bits, hash, sLen, v))
		exercise(x, in)
	}
}

func main() {
	h.Main("C03", "exploration",
		"product of (scheme parameters: curve x hash x encoding | Ed25519 | modulus x hash [x salt length]) x variant x key id x construction path x key; "+
			"inside each execution every message length of the list is signed (Sign output checked by the independent verifier, byte-exact for deterministic schemes) "+
			"and the mutation catalogue (all bit flips, all truncations, extensions, r/s values, DER re-encodings, wrong-length P1363, crafted RSA encodings, foreign salt lengths, "+
			"prefix edits, LEGACY suffix confusion, other keys, modified messages) is decided by tink and by the strict reference verifier; decisions must be equal. "+
			"Section legacy-adapter: keyset shape (single | primary at position 0..5 among 5 heterogeneous keys | forced RAW/prefix collision) x prefix type x key id for a custom key manager whose primitive is a raw stdlib Ed25519 signer/verifier "+
			"(the factories' legacy-primitive adapters): byte-exact Sign oracle and union-of-keys Verify model over every message length 0..70 + long ones with the truncation / bit-flip / prefix / LEGACY-suffix / other-key catalogue. "+
			"Section key-encodings: scheme x key of a chosen shape (private scalar with 0..3 leading zero octets / tiny, point with a short x or y; Ed25519 seeds / public keys beginning with zero octets; RSA numbers) x constructor path x encoding x variant; "+
			"inside, every encoding shape (fixed, minimal, +1 zero, +4 zeros, minimal+1; mixed x/y pairs) of the SAME key is handed to every bytes-taking constructor / proto parser; whatever is accepted must sign, verify and interoperate as the mathematical key (reference-derived public key). "+
			"Section tink-generated-keys: scheme x parameter point x variant x generation route; private/public pairing by the reference, Sign/Verify behaviour, requested parameters. "+
			"An execution is non-trivial when Signer and Verifier were built and exercised; distinct = distinct choice vectors; evaluations = tink decisions compared.",
		[]h.Section{
			{Name: "ecdsa", Body: ecdsaSection, Bound: -1},
			{Name: "ecdsa-codec", Body: codecSection, Bound: -1},
			{Name: "ed25519", Body: ed25519Section, Bound: -1},
			{Name: "rsassapkcs1", Body: rsaSection(false), Bound: -1},
			{Name: "rsassapss", Body: rsaSection(true), Bound: -1},
			{Name: "legacy-adapter", Body: legacyAdapterSection, Bound: -1},
			{Name: "key-encodings", Body: keyEncodingsSection, Bound: -1},
			{Name: "tink-generated-keys", Body: generatedKeysSection, Bound: -1},
		})
}
