package main

// Section legacy-adapter: the "legacy primitive" route of signature/signer_factory.go and
// signature/verifier_factory.go (fullSignerAdapter / fullVerifierAdapter and the isLegacyPrimitive branch of
// NewSignerWithConfig / NewVerifierWithConfig).
//
// A custom key manager pair is registered for two made-up type URLs (a private and a public key). Its
// Primitive() returns a RAW, prefix-less Ed25519 signer / verifier built on the Go standard library
// (crypto/ed25519) - no tink code. Keys of these types have no full primitive, so the factories must wrap
// them: prepend / check / strip the output prefix of the keyset key and append 0x00 to the message iff the
// prefix type is LEGACY.
//
// Enumerated: keyset shape (single key | the key as primary at every position 0..5 among five heterogeneous
// other keys | forced RAW/prefix collisions) x prefix type (TINK, CRUNCHY, LEGACY, RAW) x key id (tk.IDs).
// Inside an execution every message length 0..70 (0..260 thorough) plus long ones (127..129, 255..257, 1000, 4097;
// thorough: the +-1 windows around 2^10..2^14 and more) is signed and verified; thorough also reverses the other keys.
//
// Oracle. Sign(msg) must equal  ref.Prefix(variant,id) || RFC8032-reference-signature(seed, msg [|| 00 iff LEGACY])
// (Ed25519 is deterministic; the reference is verif/ref/ed25519ref.go on math/big). Verify(sig, msg) must equal
//
//	OR over the enabled keys k of the public keyset:  sig starts with prefix(k)  AND
//	     V_k(sig minus prefix(k), msg [|| 00 iff k is LEGACY])
//
// with V_k = crypto/ed25519.Verify on the reference-derived public key (every accepting decision and a
// content-selected sample of the rejecting ones is cross-checked with the math/big RFC 8032 verifier), and for
// the one ECDSA key of the multi-key keysets the strict DER decoder + integer ECDSA verifier of verif/ref.
//
// Don't care: error values; what the monitoring logger sees; the order in which candidates are tried (only
// the final decision is judged); whether the message buffer handed to Sign/Verify is left untouched.

import (
	"bytes"
	stded "crypto/ed25519"
	"crypto/sha256"
	"encoding/binary"
	"errors"
	"fmt"
	"hash/fnv"
	"sort"
	"sync"

	"google.golang.org/protobuf/proto"

	"github.com/tink-crypto/tink-go/v2/core/registry"
	"github.com/tink-crypto/tink-go/v2/key"
	tinkpb "github.com/tink-crypto/tink-go/v2/proto/tink_go_proto"
	"github.com/tink-crypto/tink-go/v2/signature"
	tecdsa "github.com/tink-crypto/tink-go/v2/signature/ecdsa"
	ted "github.com/tink-crypto/tink-go/v2/signature/ed25519"
	"github.com/tink-crypto/tink-go/v2/tink"
	"github.com/tink-crypto/tink-go/v2/verifbridge/vb"
	"verif/h"
	"verif/ref"
	"verif/tk"
)

const (
	lgPrivURL = "type.googleapis.com/verif.c03.RawEd25519PrivateKey"
	lgPubURL  = "type.googleapis.com/verif.c03.RawEd25519PublicKey"
	lgMagic   = 0xC3
)

func lgSeed(mat int) []byte { return ref.KeyBytes(fmt.Sprintf("c03-legacy-ed25519-mat%d", mat), 32) }

// lgPub: public key by the RFC 8032 reference (not by crypto/ed25519).
func lgPub(mat int) []byte {
	return memoize(fmt.Sprintf("lgpub|%d", mat), func() any { return ref.Ed25519Public(lgSeed(mat)) }).([]byte)
}

// lgRefSig: THE reference signature of key mat over exactly data.
func lgRefSig(mat int, data []byte) []byte {
	hsh := sha256.Sum256(data)
	return memoize(fmt.Sprintf("lgs|%d|%x", mat, hsh), func() any { return ref.Ed25519Sign(lgSeed(mat), data) }).([]byte)
}

// lgStdSig: a signature by the standard library (used for probes whose fate the model decides).
func lgStdSig(mat int, data []byte) []byte {
	hsh := sha256.Sum256(data)
	return memoize(fmt.Sprintf("lgstd|%d|%x", mat, hsh), func() any { return stded.Sign(stded.NewKeyFromSeed(lgSeed(mat)), data) }).([]byte)
}

// ---- the raw primitives behind the custom key managers ------------------------------------------------

type lgSigner struct{ priv stded.PrivateKey }

func (s lgSigner) Sign(data []byte) ([]byte, error) { return stded.Sign(s.priv, data), nil }

// lgStdVerify is crypto/ed25519.Verify, memoised on (key, signature, data): it is a pure function and the same
// triples recur in most executions (raw signatures depend on neither the key id nor the keyset shape).
var lgVerifyMemo sync.Map

func lgStdVerify(pub stded.PublicKey, sig, data []byte) bool {
	if len(sig) != stded.SignatureSize {
		return false
	}
	hs := sha256.New()
	hs.Write(pub)
	hs.Write(sig)
	hs.Write(data)
	var k [sha256.Size]byte
	hs.Sum(k[:0])
	if v, ok := lgVerifyMemo.Load(k); ok {
		return v.(bool)
	}
	r := stded.Verify(pub, data, sig)
	lgVerifyMemo.Store(k, r)
	return r
}

type lgVerifier struct{ pub stded.PublicKey }

func (v lgVerifier) Verify(sig, data []byte) error {
	if !lgStdVerify(v.pub, sig, data) {
		return errors.New("c03 raw ed25519: invalid signature")
	}
	return nil
}

type lgKM struct{ private bool }

func (m lgKM) TypeURL() string {
	if m.private {
		return lgPrivURL
	}
	return lgPubURL
}
func (m lgKM) DoesSupport(u string) bool                  { return u == m.TypeURL() }
func (m lgKM) NewKey([]byte) (proto.Message, error)       { return nil, errors.New("not supported") }
func (m lgKM) NewKeyData([]byte) (*tinkpb.KeyData, error) { return nil, errors.New("not supported") }
func (m lgKM) Primitive(b []byte) (any, error) {
	if len(b) != 2 || b[0] != lgMagic {
		return nil, errors.New("c03 custom key manager: invalid key")
	}
	seed := lgSeed(int(b[1]))
	if m.private {
		return lgSigner{stded.NewKeyFromSeed(seed)}, nil
	}
	return lgVerifier{stded.PublicKey(bytes.Clone(lgPub(int(b[1]))))}, nil
}

var lgOnce sync.Once

func lgRegister() {
	lgOnce.Do(func() {
		for _, km := range []lgKM{{true}, {false}} {
			if err := registry.RegisterKeyManager(km); err != nil {
				panic(err)
			}
		}
	})
}

var lgProtoPrefix = map[ref.Variant]tinkpb.OutputPrefixType{ref.Tink: tinkpb.OutputPrefixType_TINK, ref.Crunchy: tinkpb.OutputPrefixType_CRUNCHY,
	ref.Legacy: tinkpb.OutputPrefixType_LEGACY, ref.Raw: tinkpb.OutputPrefixType_RAW}

// ---- keys and the keyset model --------------------------------------------------------------------------

// mkey is one key of the reference model of a public keyset.
type mkey struct {
	name   string
	prefix []byte
	legacy bool
	verify func(raw, data []byte) bool
}

func (k *mkey) signed(msg []byte) []byte {
	if k.legacy {
		return append(bytes.Clone(msg), 0)
	}
	return msg
}

type lgKey struct {
	name      string
	kind      string
	mat       int
	variant   ref.Variant
	id        uint32 // id inside the keyset
	priv, pub key.Key
	m         mkey
	validRaw  func(data []byte) []byte // a valid raw signature over exactly data
}

// lgEdModel: V_k for an Ed25519 public key. Decision by crypto/ed25519; every acceptance and the rejections
// selected by a content hash are confirmed by the math/big RFC 8032 verifier (memoised: the same
// (key, data, signature) triples recur in many executions).
func lgEdModel(x *h.X, mat int) func(raw, data []byte) bool {
	pub := lgPub(mat)
	return func(raw, data []byte) bool {
		if len(raw) != stded.SignatureSize {
			return false
		}
		ok := lgStdVerify(stded.PublicKey(pub), raw, data)
		hs := sha256.New()
		hs.Write(raw)
		hs.Write(data)
		sum := hs.Sum(nil)
		if ok || sum[0]%32 == 0 {
			r := memoize(fmt.Sprintf("lgv|%d|%x", mat, sum), func() any { return ref.Ed25519Verify(pub, data, raw) }).(bool)
			if r != ok {
				x.Fail("harness-oracle", "legacy-adapter: crypto/ed25519 says %v, the RFC 8032 reference says %v for key mat%d data=%s sig=%s", ok, r, mat, tk.Hex(data), tk.Hex(raw))
			}
		}
		return ok
	}
}

const lgECKeyIdx = 4 // "hashed-C" of the ECDSA section

func lgBuildKey(x *h.X, kind string, mat int, v ref.Variant, id uint32) (*lgKey, error) {
	k := &lgKey{name: fmt.Sprintf("%s/mat%d/%v/id=%#x", kind, mat, v, id), kind: kind, mat: mat, variant: v, id: id}
	kid := id
	if v == ref.Raw {
		kid = 0
	}
	k.m = mkey{name: k.name, prefix: ref.Prefix(v, id), legacy: v == ref.Legacy}
	var err error
	switch kind {
	case "legacy":
		val := []byte{lgMagic, byte(mat)}
		if k.priv, err = vb.ParseKey(&tinkpb.KeyData{TypeUrl: lgPrivURL, Value: val, KeyMaterialType: tinkpb.KeyData_ASYMMETRIC_PRIVATE}, lgProtoPrefix[v], kid); err != nil {
			return nil, err
		}
		if k.pub, err = vb.ParseKey(&tinkpb.KeyData{TypeUrl: lgPubURL, Value: val, KeyMaterialType: tinkpb.KeyData_ASYMMETRIC_PUBLIC}, lgProtoPrefix[v], kid); err != nil {
			return nil, err
		}
		k.m.verify = lgEdModel(x, mat)
		k.validRaw = func(data []byte) []byte { return lgStdSig(mat, data) }
	case "tink-ed25519":
		params, err := ted.NewParameters(edVariant[v])
		if err != nil {
			return nil, err
		}
		priv, err := ted.NewPrivateKey(secret(lgSeed(mat)), kid, params)
		if err != nil {
			return nil, err
		}
		k.priv = priv
		if k.pub, err = priv.PublicKey(); err != nil {
			return nil, err
		}
		k.m.verify = lgEdModel(x, mat)
		k.validRaw = func(data []byte) []byte { return lgStdSig(mat, data) }
	case "tink-ecdsa-p256-der":
		params, err := tecdsa.NewParameters(tecdsa.NistP256, tecdsa.SHA256, tecdsa.DER, ecVariant[v])
		if err != nil {
			return nil, err
		}
		ek := ecKeyOf(ref.P256, lgECKeyIdx)
		priv, err := tecdsa.NewPrivateKey(secret(ek.dBytes), kid, params)
		if err != nil {
			return nil, err
		}
		k.priv = priv
		if k.pub, err = priv.PublicKey(); err != nil {
			return nil, err
		}
		k.m.verify = func(raw, data []byte) bool {
			r, s, ok := ref.DERDecodeSig(raw)
			if !ok {
				return false
			}
			return ecVerifyInts(ref.P256, lgECKeyIdx, ek, ref.HashSum("SHA256", data), r, s, true)
		}
		k.validRaw = func(data []byte) []byte {
			rs := ecSig0(ref.P256, lgECKeyIdx, ek, ref.HashSum("SHA256", data))
			return ref.DEREncodeSig(rs[0], rs[1])
		}
	default:
		return nil, fmt.Errorf("unknown key kind %q", kind)
	}
	return k, nil
}

// lgFactories builds signature.NewSigner over the private keyset (primary = keys[prim]) and signature.NewVerifier
// over the public keyset, both through the proto path (exact ids, order).
func lgFactories(keys []*lgKey, prim int) (tink.Signer, tink.Verifier, error) {
	var pe, ve []tk.Entry
	for i, k := range keys {
		pe = append(pe, tk.Entry{Key: k.priv, ID: k.id, Primary: i == prim})
		ve = append(ve, tk.Entry{Key: k.pub, ID: k.id, Primary: i == prim})
	}
	ph, err := tk.Handle(pe)
	if err != nil {
		return nil, nil, fmt.Errorf("private keyset: %v", err)
	}
	vh, err := tk.Handle(ve)
	if err != nil {
		return nil, nil, fmt.Errorf("public keyset: %v", err)
	}
	s, err := signature.NewSigner(ph)
	if err != nil {
		return nil, nil, fmt.Errorf("NewSigner: %v", err)
	}
	v, err := signature.NewVerifier(vh)
	if err != nil {
		return nil, nil, fmt.Errorf("NewVerifier: %v", err)
	}
	return s, v, nil
}

// ---- driver ---------------------------------------------------------------------------------------------

type lgRun struct {
	x        *h.X
	cfg, tag string
	signer   tink.Signer
	verifier tink.Verifier
	keys     []*lgKey
	prim     *lgKey
	tally    map[string]int
}

func (r *lgRun) model(sig, msg []byte) bool {
	for _, k := range r.keys {
		if bytes.HasPrefix(sig, k.m.prefix) && k.m.verify(sig[len(k.m.prefix):], k.m.signed(msg)) {
			return true
		}
	}
	return false
}

func (r *lgRun) flush() {
	ks := make([]string, 0, len(r.tally))
	for k := range r.tally {
		ks = append(ks, k)
	}
	sort.Strings(ks)
	for _, k := range ks {
		r.x.OutcomeN(k, r.tally[k])
	}
}

// cmp: tink's decision on (sig, msg) must equal the keyset model's. Returns the model's decision.
func (r *lgRun) cmp(class string, sig, msg []byte, what string) bool {
	var err error
	if p, m := h.Try(func() { err = r.verifier.Verify(sig, msg) }); p {
		r.x.Fail("legacy-adapter-panic", "%s: Verify panicked (%s) sig=%s msg=%s: %s", r.cfg, what, tk.Hex(sig), tk.Hex(msg), m)
		return false
	}
	t := err == nil
	m := r.model(sig, msg)
	r.x.Eval(1)
	r.tally[r.tag+"/"+class+"/"+map[bool]string{true: "accepted", false: "rejected"}[m]]++
	if t != m {
		verdict := map[bool]string{true: "ACCEPTS", false: "REJECTS"}
		r.x.Fail("legacy-adapter-"+class, "%s: tink %s but the reference keyset model %s: %s; msg(len %d)=%s sig(len %d)=%s",
			r.cfg, verdict[t], verdict[m], what, len(msg), tk.Hex(msg), len(sig), tk.Hex(sig))
	}
	return m
}

// want: the one signature the primary (a legacy-adapter key) must produce for msg.
func (r *lgRun) want(msg []byte) []byte {
	return cat(r.prim.m.prefix, lgRefSig(r.prim.mat, r.prim.m.signed(msg)))
}

// perMessage: Sign exactness, acceptance of the genuine signature, and a fixed set of rejections.
func (r *lgRun) perMessage(msg []byte) bool {
	x, n, pre := r.x, len(msg), r.prim.m.prefix
	var sig []byte
	var err error
	if p, m := h.Try(func() { sig, err = r.signer.Sign(bytes.Clone(msg)) }); p {
		x.Fail("legacy-adapter-panic", "%s: Sign panicked on len %d: %s", r.cfg, n, m)
		return false
	}
	x.Eval(1)
	if err != nil {
		x.Fail("legacy-adapter-sign-error", "%s: Sign(len %d) failed: %v", r.cfg, n, err)
		return false
	}
	want := r.want(msg)
	if !bytes.Equal(sig, want) {
		r.tally[r.tag+"/sign/mismatch"]++
		x.Fail("legacy-adapter-sign-mismatch", "%s: Sign(msg len %d = %s) = %s, want prefix %x || reference Ed25519 signature over msg%s = %s",
			r.cfg, n, tk.Hex(msg), tk.Hex(sig), pre, map[bool]string{true: "||00", false: ""}[r.prim.m.legacy], tk.Hex(want))
	} else {
		r.tally[r.tag+"/sign/exact"]++
	}
	if !r.cmp("valid", want, msg, "the genuine signature of the primary key") {
		x.Fail("harness-refsig", "%s: harness error: the reference signature is rejected by the reference model (msg len %d)", r.cfg, n)
		return false
	}
	raw := want[len(pre):]
	bad := bytes.Clone(want)
	bad[len(bad)-1] ^= 0x01
	r.cmp("flip", bad, msg, "last bit flipped")
	r.cmp("msg", want, append(bytes.Clone(msg), 0), "valid signature presented for msg||00")
	// LEGACY suffix confusion: the signature over the other form of the signed data
	var other []byte
	if r.prim.m.legacy {
		other = lgRefSig(r.prim.mat, msg)
	} else {
		other = lgRefSig(r.prim.mat, append(bytes.Clone(msg), 0))
	}
	r.cmp("legacy-suffix", cat(pre, other), msg, map[bool]string{true: "LEGACY key: signature made over msg WITHOUT the 00 suffix", false: "non-LEGACY key: signature made over msg||00"}[r.prim.m.legacy])
	if len(pre) > 0 {
		r.cmp("prefix", raw, msg, "prefix removed")
	}
	r.cmp("trunc", want[:len(want)-1], msg, "last byte dropped")
	r.cmp("trunc", want[1:], msg, "first byte dropped")
	r.cmp("ext", append(bytes.Clone(want), 0), msg, "00 appended")
	for _, pos := range []int{0, len(pre)} {
		b := bytes.Clone(want)
		b[pos] ^= 0x01
		r.cmp("flip", b, msg, fmt.Sprintf("low bit of byte %d flipped", pos))
	}
	if n > 0 {
		r.cmp("msg", want, msg[:n-1], "valid signature presented for msg minus its last byte")
		d := bytes.Clone(msg)
		d[n/2] ^= 0x80
		r.cmp("msg", want, d, "valid signature presented for msg with one bit flipped")
	}
	for _, op := range otherPrefixes(r.prim.variant, r.prim.id) {
		r.cmp("prefix", cat(op, raw), msg, fmt.Sprintf("signature under foreign prefix %x", op))
	}
	// another key under the primary's prefix
	r.cmp("other-key", cat(pre, lgStdSig(9, r.prim.m.signed(msg))), msg, "signature of a key outside the keyset under the primary's prefix")
	return true
}

// catalogue: every truncation, every prefix bit, a dense sample of body bits, prefix edits, on the genuine signature of msg.
func (r *lgRun) catalogue(msg []byte) {
	pre := r.prim.m.prefix
	want := r.want(msg)
	raw := want[len(pre):]
	for cut := 0; cut < len(want); cut++ {
		r.cmp("trunc", want[:cut], msg, fmt.Sprintf("truncated to %d bytes", cut))
	}
	for cut := 2; cut <= 8; cut++ {
		r.cmp("trunc", want[cut:], msg, fmt.Sprintf("first %d bytes dropped", cut))
	}
	r.cmp("nil", nil, msg, "nil signature")
	for ext := 1; ext <= 5; ext++ {
		r.cmp("ext", cat(want, make([]byte, ext)), msg, fmt.Sprintf("extended by %d x 00", ext))
		r.cmp("ext", cat(pre, make([]byte, ext), raw), msg, fmt.Sprintf("%d x 00 inserted after the prefix", ext))
	}
	for bit := 0; bit < 8*len(want); bit++ {
		by := bit/8 - len(pre)
		if by >= 0 && !r.x.Thorough() {
			dense := by < 2 || by == 31 || by == 32 || by >= 62
			if !dense && bit%8 != by%8 {
				continue
			}
		}
		b := bytes.Clone(want)
		b[bit/8] ^= 1 << (bit % 8)
		cl := "flip-body"
		if by < 0 {
			cl = "flip-prefix"
		}
		r.cmp(cl, b, msg, fmt.Sprintf("bit %d flipped", bit))
	}
	if len(pre) > 0 {
		r.cmp("prefix", cat(pre, pre, raw), msg, "prefix doubled")
		r.cmp("prefix", cat(pre[:4], raw), msg, "prefix one byte short")
		r.cmp("prefix", cat(pre[1:], raw), msg, "prefix without its first byte")
		r.cmp("prefix", cat(raw, pre), msg, "prefix moved to the end")
		r.cmp("prefix", cat(pre, raw[:59]), msg, "prefix kept, body five bytes short (total length = raw signature length)")
	} else {
		for _, id := range tk.IDs[:3] {
			for _, ov := range []ref.Variant{ref.Tink, ref.Crunchy} {
				r.cmp("prefix", cat(ref.Prefix(ov, id), raw), msg, fmt.Sprintf("RAW key: signature with a %v prefix of id %#x prepended", ov, id))
			}
		}
	}
	// both suffix forms x three messages
	n := len(msg)
	for i, d := range [][]byte{msg, append(bytes.Clone(msg), 0)} {
		s := cat(pre, lgRefSig(r.prim.mat, d))
		nm := []string{"signature over msg", "signature over msg||00"}[i]
		r.cmp("legacy-suffix", s, msg, nm+" presented for msg")
		r.cmp("legacy-suffix", s, append(bytes.Clone(msg), 0), nm+" presented for msg||00")
		r.cmp("legacy-suffix", s, append(bytes.Clone(msg), 0, 0), nm+" presented for msg||0000")
		if n > 0 {
			r.cmp("legacy-suffix", s, msg[:n-1], nm+" presented for msg minus its last byte")
		}
	}
}

// others: every key of the keyset other than the primary must be found (wherever it stands), its signatures
// accepted only in its own format.
func (r *lgRun) others(msgs [][]byte) {
	for _, k := range r.keys {
		if k == r.prim {
			continue
		}
		for _, msg := range msgs {
			raw := k.validRaw(k.m.signed(msg))
			good := cat(k.m.prefix, raw)
			if !r.cmp("other-valid", good, msg, "valid signature of the non-primary key "+k.name) {
				r.x.Fail("harness-refsig", "%s: harness error: a valid signature of %s is rejected by the reference model", r.cfg, k.name)
			}
			bad := bytes.Clone(good)
			bad[len(bad)-1] ^= 1
			r.cmp("other-flip", bad, msg, "last bit flipped in a valid signature of "+k.name)
			r.cmp("other-msg", good, append(bytes.Clone(msg), 0), "valid signature of "+k.name+" presented for msg||00")
			r.cmp("other-prefix", cat(r.prim.m.prefix, raw), msg, "raw signature of "+k.name+" under the primary's prefix")
			if len(k.m.prefix) > 0 {
				r.cmp("other-prefix", raw, msg, "valid signature of "+k.name+" without its prefix")
			}
			// the other form of the signed data
			var od []byte
			if k.m.legacy {
				od = msg
			} else {
				od = append(bytes.Clone(msg), 0)
			}
			r.cmp("other-legacy-suffix", cat(k.m.prefix, k.validRaw(od)), msg, "signature of "+k.name+" over the other suffix form")
		}
	}
}

func lgLengths(x *h.X) (all []int, full []int) {
	top := 70
	long := []int{127, 128, 129, 255, 256, 257, 1000, 4097}
	full = []int{0, 1, 64}
	if x.Thorough() {
		top = 260
		long = append([]int{1000}, ref.LongLengths(14, 1)...)
		full = []int{0, 1, 2, 31, 32, 33, 64, 70, 129, 1000}
	}
	seen := map[int]bool{}
	for n := 0; n <= top; n++ {
		all = append(all, n)
		seen[n] = true
	}
	for _, n := range long {
		if !seen[n] {
			all = append(all, n)
			seen[n] = true
		}
	}
	return all, full
}

func lgMessages(x *h.X) (all [][]byte, full [][]byte) {
	lens, fl := lgLengths(x)
	for _, n := range lens {
		all = append(all, ref.Pattern(2, n))
		if n >= 1 && n <= 8 {
			all = append(all, ref.Pattern(0, n)) // all-zero: msg||00 is again a message of the domain
		}
	}
	for _, n := range fl {
		full = append(full, ref.Pattern(2, n))
	}
	full = append(full, ref.Pattern(0, 3))
	return all, full
}

// distinct non-zero masks: the ids of the other keys of a keyset are id^mask (unique, some one bit away from the primary's)
var lgMasks = []uint32{0x00010000, 0x01000000, 0x00000100, 0x80000001, 0x00000001}

// lgCollision: a message whose RAW signature by key mat starts with byte b, and the key id spelled by its bytes 1..4.
func lgCollision(mat int, b byte) (msg []byte, id uint32) {
	type res struct {
		msg []byte
		id  uint32
	}
	r := memoize(fmt.Sprintf("lgcoll|%d|%d", mat, b), func() any {
		for i := 0; ; i++ {
			m := []byte(fmt.Sprintf("c03 legacy-adapter collision search #%d", i))
			s := lgStdSig(mat, m)
			if s[0] == b {
				return res{m, binary.BigEndian.Uint32(s[1:5])}
			}
		}
	}).(res)
	return r.msg, r.id
}

var lgShapes = []string{"single", "multi/pos0", "multi/pos1", "multi/pos2", "multi/pos3", "multi/pos4", "multi/pos5", "collision"}

func legacyAdapterSection(x *h.X) {
	lgRegister()
	shape := h.Pick(x, "keyset", lgShapes)
	if shape == "collision" {
		lgCollisionCase(x)
		return
	}
	v := h.Pick(x, "prefix-type", variants)
	id := h.Pick(x, "id", tk.IDs)
	cfg := fmt.Sprintf("raw Ed25519 primitive of a custom key manager behind the factory adapters, %v id=%#x, keyset %s", v, id, shape)
	fail := func(err error) { x.Fail("legacy-adapter-construct", "%s: %v", cfg, err) }
	prim, err := lgBuildKey(x, "legacy", 0, v, id)
	if err != nil {
		fail(err)
		return
	}
	keys := []*lgKey{prim}
	pos := 0
	if shape != "single" {
		fmt.Sscanf(shape, "multi/pos%d", &pos)
		// heterogeneous others; a LEGACY legacy-primitive key first, RAW keys of two kinds in the middle
		specs := []struct {
			kind string
			mat  int
			v    ref.Variant
		}{{"legacy", 2, ref.Legacy}, {"tink-ed25519", 4, ref.Tink}, {"legacy", 1, ref.Raw}, {"tink-ecdsa-p256-der", 0, ref.Raw}, {"legacy", 3, ref.Crunchy}}
		var others []*lgKey
		for i, s := range specs {
			k, err := lgBuildKey(x, s.kind, s.mat, s.v, id^lgMasks[i])
			if err != nil {
				fail(err)
				return
			}
			others = append(others, k)
		}
		if x.Thorough() && h.Pick(x, "others-order", []string{"as-listed", "reversed"}) == "reversed" {
			for i, j := 0, len(others)-1; i < j; i, j = i+1, j-1 {
				others[i], others[j] = others[j], others[i]
			}
			cfg += " (others reversed)"
		}
		keys = append(append(append([]*lgKey{}, others[:pos]...), prim), others[pos:]...)
	}
	signer, verifier, err := lgFactories(keys, pos)
	if err != nil {
		fail(err)
		return
	}
	kind := "single"
	if shape != "single" {
		kind = "multi"
	}
	r := &lgRun{x: x, cfg: cfg, tag: v.String() + "/" + kind, signer: signer, verifier: verifier, keys: keys, prim: prim, tally: map[string]int{}}
	defer r.flush()
	x.NonTrivial()
	all, full := lgMessages(x)
	// start at a configuration-dependent offset: concurrent executions then fill the memoised reference
	// signatures in parallel instead of waiting for one another
	rot := fnv.New32a()
	rot.Write([]byte(cfg))
	off := int(rot.Sum32() % uint32(len(all)))
	for i := range all {
		if !r.perMessage(all[(i+off)%len(all)]) {
			return
		}
	}
	// the complete catalogue: single-key keysets and the multi-key keysets of the first id (the adapters do not
	// depend on the id beyond the prefix bytes, which the per-message probes cover for every id)
	if shape == "single" || id == tk.IDs[0] || x.Thorough() {
		for _, m := range full {
			r.catalogue(m)
		}
	}
	if shape != "single" {
		r.others([][]byte{{}, ref.Pattern(2, 3), ref.Pattern(0, 64)})
	}
}

// lgCollisionCase: a RAW legacy-primitive key P and a prefixed legacy-primitive key C whose 5-byte prefix equals
// the first five bytes of a RAW signature of P: the verifier meets C first (prefix lookup), C's adapter strips the
// prefix and fails, and the RAW key must still be tried. Both orders, either key as primary.
func lgCollisionCase(x *h.X) {
	cv := h.Pick(x, "collider-prefix-type", []ref.Variant{ref.Tink, ref.Crunchy, ref.Legacy})
	order := h.Pick(x, "order", []string{"collider-first", "raw-first"})
	primIs := h.Pick(x, "primary", []string{"raw", "collider"})
	first := byte(0)
	if cv == ref.Tink {
		first = 1
	}
	cmsg, cid := lgCollision(0, first)
	cfg := fmt.Sprintf("RAW legacy-primitive key + %v legacy-primitive key id=%#x whose prefix equals the start of the RAW signature of %q; %s, primary=%s", cv, cid, cmsg, order, primIs)
	fail := func(err error) { x.Fail("legacy-adapter-construct", "%s: %v", cfg, err) }
	p, err := lgBuildKey(x, "legacy", 0, ref.Raw, cid^1)
	if err != nil {
		fail(err)
		return
	}
	c, err := lgBuildKey(x, "legacy", 1, cv, cid)
	if err != nil {
		fail(err)
		return
	}
	keys := []*lgKey{c, p}
	if order == "raw-first" {
		keys = []*lgKey{p, c}
	}
	prim := p
	if primIs == "collider" {
		prim = c
	}
	pi := 0
	if keys[1] == prim {
		pi = 1
	}
	signer, verifier, err := lgFactories(keys, pi)
	if err != nil {
		fail(err)
		return
	}
	r := &lgRun{x: x, cfg: cfg, tag: "collision/" + cv.String(), signer: signer, verifier: verifier, keys: keys, prim: prim, tally: map[string]int{}}
	defer r.flush()
	x.NonTrivial()
	rawSig := lgRefSig(0, cmsg)
	if !bytes.HasPrefix(rawSig, c.m.prefix) {
		x.Fail("harness-collision", "%s: harness error: the reference RAW signature %x does not start with the collider's prefix %x", cfg, rawSig, c.m.prefix)
		return
	}
	if !r.cmp("colliding-raw-valid", rawSig, cmsg, "valid RAW signature whose first five bytes equal the other key's prefix") {
		x.Fail("harness-refsig", "%s: harness error: the colliding RAW signature is rejected by the reference model", cfg)
		return
	}
	for _, pos := range []int{0, 4, 5, 63} {
		b := bytes.Clone(rawSig)
		b[pos] ^= 0x40
		r.cmp("colliding-raw-flip", b, cmsg, fmt.Sprintf("colliding RAW signature with a bit of byte %d flipped", pos))
	}
	r.cmp("colliding-raw-msg", rawSig, append(bytes.Clone(cmsg), 0), "colliding RAW signature presented for msg||00")
	r.cmp("colliding-raw-trunc", rawSig[5:], cmsg, "colliding RAW signature with the prefix-like five bytes stripped")
	r.cmp("colliding-raw-ext", cat(c.m.prefix, rawSig), cmsg, "colliding RAW signature with the collider's prefix prepended")
	for _, m := range [][]byte{cmsg, {}, ref.Pattern(2, 1), ref.Pattern(2, 64)} {
		if !r.perMessage(m) {
			return
		}
	}
	r.catalogue(cmsg)
	r.others([][]byte{cmsg, {}})
}
