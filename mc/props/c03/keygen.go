// C03, section tink-generated-keys: keys that TINK ITSELF generates (the createPrivateKey hooks of signature/ecdsa,
// ed25519, rsassapkcs1, rsassapss behind keygenregistry) must be keys in the sense of the statement: the private and the
// public half belong together and Sign / Verify of such a key behave like the standard algorithm under that key.
//
// Product: scheme x parameter point (ECDSA: 4 curve/hash points x DER/P1363; Ed25519; RSA-SSA-PKCS1 / PSS: modulus
// {2048, 2304 | thorough + 3072, 4096} x hash [x salt length], e = 65537 and the refused e = 65539) x prefix variant x
// generation route:
//
//	Manager.AddNewKeyFromParameters(params)              keyset.NewHandle(template serialised from params)
//	Manager.Add(template)                                registry.NewKeyData(template) -> proto keyset
//	registry.NewKey(template) -> proto keyset            keyset.NewHandle(published signature.*Template()) where one exists
//
// Judged for every generated key:
//  1. pairing: the public key inside the private key object and the one in handle.Public() are the ones the REFERENCE
//     derives from the private material (D*G; RFC 8032 public key of the seed; n = p*q with p, q prime, e as requested,
//     e*d = 1 mod lcm(p-1,q-1), dP, dQ, qInv consistent: RFC 8017 3.2);
//  2. behaviour: signatures of signature.NewSigner(handle) (and of the per-type NewSigner) verify under the reference
//     verifier with the reference-derived public key (byte-exact for Ed25519 / PKCS1) and under
//     signature.NewVerifier(handle.Public()); reference-made signatures are accepted, mutated ones / other keys'
//     rejected (same judge as section key-encodings);
//  3. the key's parameters, id requirement and output prefix are the requested ones.
//
// Don't care: parameter points the generator refuses (e = 65539: crypto/rsa only generates e = 65537; recorded). The
// keys come from the real crypto/rand: the verdict must hold for every key, so a replay draws a fresh key.
package main

import (
	"bytes"
	"fmt"
	"math/big"

	"google.golang.org/protobuf/proto"

	"github.com/tink-crypto/tink-go/v2/core/registry"
	"github.com/tink-crypto/tink-go/v2/insecuresecretdataaccess"
	"github.com/tink-crypto/tink-go/v2/key"
	"github.com/tink-crypto/tink-go/v2/keyset"
	tinkpb "github.com/tink-crypto/tink-go/v2/proto/tink_go_proto"
	"github.com/tink-crypto/tink-go/v2/secretdata"
	"github.com/tink-crypto/tink-go/v2/signature"
	tecdsa "github.com/tink-crypto/tink-go/v2/signature/ecdsa"
	ted "github.com/tink-crypto/tink-go/v2/signature/ed25519"
	tpkcs1 "github.com/tink-crypto/tink-go/v2/signature/rsassapkcs1"
	tpss "github.com/tink-crypto/tink-go/v2/signature/rsassapss"
	"github.com/tink-crypto/tink-go/v2/tink"
	"github.com/tink-crypto/tink-go/v2/verifbridge/vb"
	"verif/h"
	"verif/ref"
	"verif/tk"
)

const (
	grParams    = "Manager.AddNewKeyFromParameters"
	grNewHandle = "keyset.NewHandle(template of the parameters)"
	grAdd       = "Manager.Add(template of the parameters)"
	grKeyData   = "registry.NewKeyData(template)"
	grNewKey    = "registry.NewKey(template)"
	grPublished = "keyset.NewHandle(published template)"
)

var genRoutes = []string{grParams, grNewHandle, grAdd, grKeyData, grNewKey, grPublished}

// publishedTemplates: signature.*Template() by the parameter point its documentation promises.
var publishedTemplates = map[string]func() *tinkpb.KeyTemplate{
	"ecdsa/P256/SHA256/DER/TINK":          signature.ECDSAP256KeyTemplate,
	"ecdsa/P256/SHA256/DER/RAW":           signature.ECDSAP256KeyWithoutPrefixTemplate,
	"ecdsa/P256/SHA256/IEEE_P1363/RAW":    signature.ECDSAP256RawKeyTemplate,
	"ecdsa/P384/SHA384/DER/TINK":          signature.ECDSAP384SHA384KeyTemplate,
	"ecdsa/P384/SHA384/DER/RAW":           signature.ECDSAP384SHA384KeyWithoutPrefixTemplate,
	"ecdsa/P384/SHA512/DER/TINK":          signature.ECDSAP384SHA512KeyTemplate,
	"ecdsa/P384/SHA512/DER/RAW":           signature.ECDSAP384KeyWithoutPrefixTemplate,
	"ecdsa/P521/SHA512/DER/TINK":          signature.ECDSAP521KeyTemplate,
	"ecdsa/P521/SHA512/DER/RAW":           signature.ECDSAP521KeyWithoutPrefixTemplate,
	"ed25519/TINK":                        signature.ED25519KeyTemplate,
	"ed25519/RAW":                         signature.ED25519KeyWithoutPrefixTemplate,
	"rsassapkcs1/3072/SHA256/65537/TINK":  signature.RSA_SSA_PKCS1_3072_SHA256_F4_Key_Template,
	"rsassapkcs1/3072/SHA256/65537/RAW":   signature.RSA_SSA_PKCS1_3072_SHA256_F4_RAW_Key_Template,
	"rsassapkcs1/4096/SHA512/65537/TINK":  signature.RSA_SSA_PKCS1_4096_SHA512_F4_Key_Template,
	"rsassapkcs1/4096/SHA512/65537/RAW":   signature.RSA_SSA_PKCS1_4096_SHA512_F4_RAW_Key_Template,
	"rsassapss/3072/SHA256/32/65537/TINK": signature.RSA_SSA_PSS_3072_SHA256_32_F4_Key_Template,
	"rsassapss/3072/SHA256/32/65537/RAW":  signature.RSA_SSA_PSS_3072_SHA256_32_F4_Raw_Key_Template,
	"rsassapss/4096/SHA512/64/65537/TINK": signature.RSA_SSA_PSS_4096_SHA512_64_F4_Key_Template,
	"rsassapss/4096/SHA512/64/65537/RAW":  signature.RSA_SSA_PSS_4096_SHA512_64_F4_Raw_Key_Template,
}

func sdata(b secretdata.Bytes) []byte { return b.Data(insecuresecretdataaccess.Token{}) }

// generate runs one generation route and returns the private handle.
func generate(route, point string, params key.Parameters, v ref.Variant) (hd *keyset.Handle, skipped bool, err error) {
	tmpl := func() (*tinkpb.KeyTemplate, error) { return vb.SerializeParameters(params) }
	fromKeyData := func(kd *tinkpb.KeyData) (*keyset.Handle, error) {
		return oneKeyHandle(kd.GetTypeUrl(), kd.GetKeyMaterialType(), kd.GetValue(), v, tk.IDs[0])
	}
	switch route {
	case grParams:
		m := keyset.NewManager()
		id, err := m.AddNewKeyFromParameters(params)
		if err != nil {
			return nil, false, err
		}
		if err := m.SetPrimary(id); err != nil {
			return nil, false, err
		}
		hd, err := m.Handle()
		return hd, false, err
	case grNewHandle:
		t, err := tmpl()
		if err != nil {
			return nil, false, err
		}
		hd, err := keyset.NewHandle(t)
		return hd, false, err
	case grAdd:
		t, err := tmpl()
		if err != nil {
			return nil, false, err
		}
		m := keyset.NewManager()
		id, err := m.Add(t)
		if err != nil {
			return nil, false, err
		}
		if err := m.SetPrimary(id); err != nil {
			return nil, false, err
		}
		hd, err := m.Handle()
		return hd, false, err
	case grKeyData:
		t, err := tmpl()
		if err != nil {
			return nil, false, err
		}
		kd, err := registry.NewKeyData(t)
		if err != nil {
			return nil, false, err
		}
		hd, err := fromKeyData(kd)
		return hd, false, err
	case grNewKey:
		t, err := tmpl()
		if err != nil {
			return nil, false, err
		}
		msg, err := registry.NewKey(t)
		if err != nil {
			return nil, false, err
		}
		b, err := proto.Marshal(msg)
		if err != nil {
			return nil, false, err
		}
		hd, err := fromKeyData(&tinkpb.KeyData{TypeUrl: t.GetTypeUrl(), Value: b, KeyMaterialType: tinkpb.KeyData_ASYMMETRIC_PRIVATE})
		return hd, false, err
	case grPublished:
		f, ok := publishedTemplates[point]
		if !ok {
			return nil, true, nil
		}
		hd, err := keyset.NewHandle(f())
		return hd, false, err
	}
	panic("route")
}

func generatedKeysSection(x *h.X) {
	schemes := []string{"ecdsa", "ed25519", "rsassapkcs1", "rsassapss"}
	scheme := h.Pick(x, "scheme", schemes)
	v := h.Pick(x, "variant", variants)
	route := h.Pick(x, "route", genRoutes)
	vname := v.String()

	var params key.Parameters
	var point string
	var err error
	// scheme-specific description of the requested point
	var ec ecCfg
	der := false
	bits, hash, sLen, exp := 0, "", 0, 65537
	switch scheme {
	case "ecdsa":
		ec = ecCfgs[x.Choose("curve/hash", len(ecCfgs))]
		x.Label(ec.name)
		der = h.Pick(x, "encoding", []string{"DER", "IEEE_P1363"}) == "DER"
		tenc, enc := tecdsa.IEEEP1363, "IEEE_P1363"
		if der {
			tenc, enc = tecdsa.DER, "DER"
		}
		params, err = tecdsa.NewParameters(ec.ct, ec.ht, tenc, ecVariant[v])
		point = "ecdsa/" + ec.name + "/" + enc + "/" + vname
	case "ed25519":
		var p ted.Parameters
		p, err = ted.NewParameters(edVariant[v])
		params = &p
		point = "ed25519/" + vname
	default:
		mods := []int{2048, 2304}
		hashes := []string{"SHA256"}
		if x.Thorough() {
			mods = []int{2048, 2304, 3072, 4096}
			hashes = []string{"SHA256", "SHA384", "SHA512"}
		}
		bits = h.Pick(x, "modulus", mods)
		hash = h.Pick(x, "hash", hashes)
		exp = h.Pick(x, "exponent", []int{65537, 65539})
		if bits > 2304 && hash == "SHA384" {
			return
		}
		if exp != 65537 && (bits != 2048 || hash != "SHA256") {
			return
		}
		if scheme == "rsassapkcs1" {
			params, err = tpkcs1.NewParameters(bits, pkcs1Hash[hash], exp, pkcs1Variant[v])
			point = fmt.Sprintf("rsassapkcs1/%d/%s/%d/%s", bits, hash, exp, vname)
		} else {
			salts := []int{32}
			if x.Thorough() {
				salts = []int{32, 64, 1}
			}
			sLen = h.Pick(x, "saltlen", salts)
			if bits > 2304 && sLen == 1 {
				return
			}
			params, err = tpss.NewParameters(tpss.ParametersValues{ModulusSizeBits: bits, SigHashType: pssHash[hash], MGF1HashType: pssHash[hash], PublicExponent: exp, SaltLengthBytes: sLen}, pssVariant[v])
			point = fmt.Sprintf("rsassapss/%d/%s/%d/%d/%s", bits, hash, sLen, exp, vname)
		}
	}
	// quick: the cheap schemes (P-256, Ed25519) with the full variant x route product; the others (big-integer reference
	// arithmetic on large curves, RSA key generation) with every variant through AddNewKeyFromParameters and every other
	// route with one variant (rotating); the 2304-bit modulus through two routes. thorough: the full product.
	if !x.Thorough() && !(scheme == "ed25519" || scheme == "ecdsa" && ec.curve == ref.P256) {
		rot := map[string]ref.Variant{grNewHandle: ref.Tink, grAdd: ref.Raw, grKeyData: ref.Crunchy, grNewKey: ref.Legacy, grPublished: ref.Raw}
		if route != grParams && v != rot[route] {
			return
		}
		if bits == 2304 && !(route == grParams && v == ref.Raw || route == grKeyData) {
			return
		}
	}
	cfg := fmt.Sprintf("tink-generated-keys %s via %s", point, route)
	if err != nil {
		x.Fail("keygen-"+scheme+"-construct", "%s: NewParameters: %v", cfg, err)
		return
	}
	hd, skipped, err := generate(route, point, params, v)
	if skipped {
		return
	}
	if exp != 65537 {
		if err != nil {
			x.Outcome("refused/" + scheme + "/e=65539")
			return
		}
		x.Outcome("generated/" + scheme + "/e=65539")
	} else if err != nil {
		x.Fail("keygen-"+scheme+"-generate", "%s: key generation failed: %v", cfg, err)
		return
	}
	x.NonTrivial()
	x.Outcome("generated/" + point[:len(point)-len(vname)-1])
	x.Outcome("route/" + route)
	entry, err := hd.Primary()
	if err != nil {
		x.Fail("keygen-"+scheme+"-generate", "%s: generated handle has no primary: %v", cfg, err)
		return
	}
	k := entry.Key()
	id := entry.KeyID()
	prefix := ref.Prefix(v, id)

	// (3) parameters, id requirement, prefix
	if !k.Parameters().Equal(params) || !params.Equal(k.Parameters()) {
		x.Fail("keygen-"+scheme+"-params", "%s: the generated key's parameters %+v differ from the requested %+v", cfg, k.Parameters(), params)
	}
	if rid, req := k.IDRequirement(); req != (v != ref.Raw) || (req && rid != id) {
		x.Fail("keygen-"+scheme+"-id", "%s: IDRequirement() = (%#x, %v) for keyset key id %#x", cfg, rid, req, id)
	}
	ph, err := hd.Public()
	if err != nil {
		x.Fail("keygen-"+scheme+"-public", "%s: handle.Public(): %v", cfg, err)
		return
	}
	pe, err := ph.Primary()
	if err != nil {
		x.Fail("keygen-"+scheme+"-public", "%s: handle.Public() has no primary: %v", cfg, err)
		return
	}
	pubK := pe.Key()
	if !pubK.Parameters().Equal(params) {
		x.Fail("keygen-"+scheme+"-params", "%s: the public key's parameters %+v differ from the requested %+v", cfg, pubK.Parameters(), params)
	}
	type prefixed interface{ OutputPrefix() []byte }
	for _, kk := range []key.Key{k, pubK} {
		if p, ok := kk.(prefixed); ok && !bytes.Equal(p.OutputPrefix(), prefix) {
			x.Fail("keygen-"+scheme+"-prefix", "%s: OutputPrefix() = %x of %T, want %x", cfg, p.OutputPrefix(), kk, prefix)
		}
	}

	e := &kencEnv{kp: "keygen", scheme: scheme, cfg: cfg, prefix: prefix, variant: v, full: true}
	var direct tink.Signer
	var directV tink.Verifier
	switch scheme {
	case "ecdsa":
		c := ec.curve
		priv, ok := k.(*tecdsa.PrivateKey)
		pub, ok2 := pubK.(*tecdsa.PublicKey)
		if !ok || !ok2 {
			x.Fail("keygen-ecdsa-type", "%s: generated key types %T / %T", cfg, k, pubK)
			return
		}
		pp := priv.Parameters().(*tecdsa.Parameters)
		if pp.CurveType() != ec.ct || pp.HashType() != ec.ht || pp.Variant() != ecVariant[v] || (pp.SignatureEncoding() == tecdsa.DER) != der {
			x.Fail("keygen-ecdsa-params", "%s: generated key has curve=%v hash=%v encoding=%v variant=%v", cfg, pp.CurveType(), pp.HashType(), pp.SignatureEncoding(), pp.Variant())
		}
		db := sdata(priv.PrivateKeyValue())
		d := new(big.Int).SetBytes(db)
		if d.Sign() == 0 || d.Cmp(c.N) >= 0 {
			x.Fail("keygen-ecdsa-pairing", "%s: generated private scalar %x is outside [1, n-1]", cfg, db)
			return
		}
		gk := mkECKey(c, d)
		inner, _ := priv.PublicKey()
		if ip, ok := inner.(*tecdsa.PublicKey); !ok || !bytes.Equal(ip.PublicPoint(), gk.point) {
			x.Fail("keygen-ecdsa-pairing", "%s: the generated private key (D=%x) carries the public point %x; reference D*G = %x", cfg, db, inner.(*tecdsa.PublicKey).PublicPoint(), gk.point)
		}
		if !bytes.Equal(pub.PublicPoint(), gk.point) {
			x.Fail("keygen-ecdsa-pairing", "%s: handle.Public() holds the point %x; reference D*G = %x (D=%x)", cfg, pub.PublicPoint(), gk.point, db)
		}
		ko := kencECKey(c, 0)
		e.refVerify = func(raw, data []byte) bool {
			r, s, ok := ecDecode(c, der, raw)
			return ok && ecVerifyInts(c, -1, gk, ref.HashSum(ec.hash, data), r, s, false)
		}
		e.refSig = func(data []byte) []byte {
			dg := ref.HashSum(ec.hash, data)
			for ctr := 0; ; ctr++ {
				if r, s, ok := ref.ECDSASignWithNonce(c, d, dg, ref.ECDSANonce(c, d, dg, ctr)); ok {
					return ecEncode(c, der, r, s)
				}
			}
		}
		e.refSigOther = func(data []byte) []byte {
			p := ecSig0(c, 100, ko, ref.HashSum(ec.hash, data))
			return ecEncode(c, der, p[0], p[1])
		}
		direct, _ = tecdsa.NewSigner(priv, vb.Tok())
		directV, _ = tecdsa.NewVerifier(pub, vb.Tok())
	case "ed25519":
		priv, ok := k.(*ted.PrivateKey)
		pub, ok2 := pubK.(*ted.PublicKey)
		if !ok || !ok2 {
			x.Fail("keygen-ed25519-type", "%s: generated key types %T / %T", cfg, k, pubK)
			return
		}
		if priv.Parameters().(*ted.Parameters).Variant() != edVariant[v] {
			x.Fail("keygen-ed25519-params", "%s: generated key has variant %v", cfg, priv.Parameters().(*ted.Parameters).Variant())
		}
		seed := bytes.Clone(sdata(priv.PrivateKeyBytes()))
		if len(seed) != 32 {
			x.Fail("keygen-ed25519-pairing", "%s: generated seed has %d bytes", cfg, len(seed))
			return
		}
		pubRef := ref.Ed25519Public(seed)
		inner, _ := priv.PublicKey()
		if ip, ok := inner.(*ted.PublicKey); !ok || !bytes.Equal(ip.KeyBytes(), pubRef) {
			x.Fail("keygen-ed25519-pairing", "%s: the generated private key (seed %x) carries the public key %x; RFC 8032 reference %x", cfg, seed, inner.(*ted.PublicKey).KeyBytes(), pubRef)
		}
		if !bytes.Equal(pub.KeyBytes(), pubRef) {
			x.Fail("keygen-ed25519-pairing", "%s: handle.Public() holds %x; RFC 8032 public key of the seed %x is %x", cfg, pub.KeyBytes(), seed, pubRef)
		}
		other := kencEdSeed(0)
		e.exact = true
		e.refVerify = func(raw, data []byte) bool { return len(raw) == 64 && ref.Ed25519Verify(pubRef, data, raw) }
		e.refSig = func(data []byte) []byte { return ref.Ed25519Sign(seed, data) }
		e.refSigOther = func(data []byte) []byte { return ref.Ed25519Sign(other, data) }
		direct, _ = ted.NewSigner(priv, vb.Tok())
		directV, _ = ted.NewVerifier(pub, vb.Tok())
	default:
		var n, dd, p, q, dp, dq, qinv *big.Int
		var pubN []byte
		bi := func(b secretdata.Bytes) *big.Int { return new(big.Int).SetBytes(sdata(b)) }
		gotBits, gotExp, gotHash, gotSalt := 0, 0, "", 0
		if scheme == "rsassapkcs1" {
			priv, ok := k.(*tpkcs1.PrivateKey)
			pub, ok2 := pubK.(*tpkcs1.PublicKey)
			if !ok || !ok2 {
				x.Fail("keygen-"+scheme+"-type", "%s: generated key types %T / %T", cfg, k, pubK)
				return
			}
			inner, _ := priv.PublicKey()
			n = new(big.Int).SetBytes(inner.(*tpkcs1.PublicKey).Modulus())
			pubN = pub.Modulus()
			dd, p, q, dp, dq, qinv = bi(priv.D()), bi(priv.P()), bi(priv.Q()), bi(priv.DP()), bi(priv.DQ()), bi(priv.QInv())
			pp := priv.Parameters().(*tpkcs1.Parameters)
			gotBits, gotExp, gotHash = pp.ModulusSizeBits(), pp.PublicExponent(), pp.HashType().String()
			if pp.Variant() != pkcs1Variant[v] {
				x.Fail("keygen-"+scheme+"-params", "%s: generated key has variant %v", cfg, pp.Variant())
			}
			direct, _ = tpkcs1.NewSigner(priv, vb.Tok())
			directV, _ = tpkcs1.NewVerifier(pub, vb.Tok())
		} else {
			priv, ok := k.(*tpss.PrivateKey)
			pub, ok2 := pubK.(*tpss.PublicKey)
			if !ok || !ok2 {
				x.Fail("keygen-"+scheme+"-type", "%s: generated key types %T / %T", cfg, k, pubK)
				return
			}
			inner, _ := priv.PublicKey()
			n = new(big.Int).SetBytes(inner.(*tpss.PublicKey).Modulus())
			pubN = pub.Modulus()
			dd, p, q, dp, dq, qinv = bi(priv.D()), bi(priv.P()), bi(priv.Q()), bi(priv.DP()), bi(priv.DQ()), bi(priv.QInv())
			pp := priv.Parameters().(*tpss.Parameters)
			gotBits, gotExp, gotHash, gotSalt = pp.ModulusSizeBits(), pp.PublicExponent(), pp.SigHashType().String(), pp.SaltLengthBytes()
			if pp.Variant() != pssVariant[v] || pp.MGF1HashType() != pp.SigHashType() {
				x.Fail("keygen-"+scheme+"-params", "%s: generated key has variant %v, MGF1 hash %v", cfg, pp.Variant(), pp.MGF1HashType())
			}
			direct, _ = tpss.NewSigner(priv, vb.Tok())
			directV, _ = tpss.NewVerifier(pub, vb.Tok())
		}
		if gotBits != bits || gotExp != exp || gotHash != hash || gotSalt != sLen {
			x.Fail("keygen-"+scheme+"-params", "%s: generated key has modulus bits=%d e=%d hash=%s salt=%d; requested %d / %d / %s / %d", cfg, gotBits, gotExp, gotHash, gotSalt, bits, exp, hash, sLen)
		}
		if n.BitLen() != bits {
			x.Fail("keygen-"+scheme+"-params", "%s: the generated modulus has %d bits, requested %d", cfg, n.BitLen(), bits)
		}
		if why := ref.RSAKeyConsistent(n, exp, dd, p, q, dp, dq, qinv); why != "" {
			x.Fail("keygen-"+scheme+"-pairing", "%s: the generated private key is not a consistent RSA key for the requested exponent: %s", cfg, why)
			return
		}
		if new(big.Int).SetBytes(pubN).Cmp(n) != 0 {
			x.Fail("keygen-"+scheme+"-pairing", "%s: handle.Public() holds a modulus different from p*q of the private key", cfg)
		}
		pubRef := &ref.RSAPub{N: new(big.Int).Mul(p, q), E: exp}
		pss := scheme == "rsassapss"
		e.exact = !pss
		e.refVerify = func(raw, data []byte) bool {
			if pss {
				return ref.RSAVerifyPSS(pubRef, hash, sLen, data, raw)
			}
			return ref.RSAVerifyPKCS1(pubRef, hash, data, raw)
		}
		em := func(pk *ref.RSAPub, data []byte) []byte {
			if pss {
				return ref.EMSAPSSEncode(hash, data, ref.KeyBytes("c03-salt", sLen), pk.N.BitLen()-1)
			}
			return ref.EMSAPKCS1v15(hash, data, pk.Size())
		}
		e.refSig = func(data []byte) []byte {
			s := ref.RSASignEMCRT(pubRef, dd, p, q, em(pubRef, data))
			if s == nil {
				panic("harness: reference RSA signing failed")
			}
			return s
		}
		e.refSigOther = func(data []byte) []byte {
			// another key of the SAME modulus size where the fixed test keys have one; else a different message's signature
			if _, ok := ref.RSATestKeyHex[bits]; ok {
				ko := rsaKeyOf(bits, 0)
				return ko.signEM(em(ko.pub, data))
			}
			return ref.RSASignEMCRT(pubRef, dd, p, q, em(pubRef, append(bytes.Clone(data), 0x55)))
		}
	}
	s, vv, err := signerAndPublicVerifier(hd)
	if err != nil {
		x.Fail("keygen-"+scheme+"-construct", "%s: signature.NewSigner / NewVerifier(Public()) on the generated keyset: %v", cfg, err)
		return
	}
	signers := []kencS{{"signature.NewSigner(generated handle)", s}}
	verifiers := []kencV{{"signature.NewVerifier(generated handle.Public())", vv}}
	if direct != nil {
		signers = append(signers, kencS{"per-type NewSigner(generated key)", direct})
	}
	if directV != nil {
		verifiers = append(verifiers, kencV{"per-type NewVerifier(generated public key)", directV})
	}
	kencJudge(x, e, signers, verifiers)
}
