package main

// Section many-segments: streams with MORE THAN 256 (thorough: more than 65536) segments. The segment counter is a
// 32-bit big-endian field of the per-segment nonce; every one of its bytes has to carry: tink's stream must be read
// by the independent decoder and vice versa, and exchanging two segments whose counters differ only in a higher byte
// (i and i+256, i and i+65536) must be rejected - with a counter byte lost both would carry one nonce and the
// exchange would go through as a clean, reordered plaintext.

import (
	"bytes"
	"fmt"
	"io"

	"verif/h"
)

func manySegmentsSection(x *h.X) {
	bases := []cfg{
		mk("GCMHKDF", 16, 16, "SHA256", "", 16, 7, 0, "subtle"),
		mk("CTRHMAC", 16, 16, "SHA256", "SHA256", 16, 7, 0, "subtle"),
		mk("GCMHKDF", 32, 32, "SHA256", "", 16, 3, 0, "keyset"),
		mk("CTRHMAC", 32, 32, "SHA256", "SHA256", 32, 3, 0, "keyset"),
	}
	c := bases[x.Choose("config", len(bases))]
	x.Label(fmt.Sprintf("%s/%s seg=%d", c.Scheme, c.Path, c.SegmentSize))
	counts := []int{258}
	if x.Thorough() {
		counts = []int{258, 513, 65538}
	}
	nseg := h.Pick(x, "segments", counts)
	F, S := c.FirstPlain(), c.OtherPlain()
	L := F + (nseg-2)*S + 1 // nseg segments, the last one carrying one byte
	desc := fmt.Sprintf("%s %s main=%d seg=%d segments=%d", c.Scheme, c.Path, len(c.MainKey), c.SegmentSize, nseg)
	p, err := build(c, 0, 0)
	if err != nil {
		x.Fail("construct", "%s: %v", desc, err)
		return
	}
	x.NonTrivial()
	pt := plain(L)
	aad := []byte("aad-5")
	var sink bytes.Buffer
	w, err := p.NewEncryptingWriter(&sink, aad)
	if err != nil {
		x.Fail("construct", "%s: NewEncryptingWriter: %v", desc, err)
		return
	}
	if m, err := w.Write(pt); err != nil || m != L {
		x.Fail("write-result", "%s: Write(%d) = (%d, %v)", desc, L, m, err)
		return
	}
	if err := w.Close(); err != nil {
		x.Fail("close-error", "%s: %v", desc, err)
		return
	}
	mine := sink.Bytes()
	x.Eval(1)
	if got, err := c.StreamDecrypt(aad, mine); err != nil || !bytes.Equal(got, pt) {
		x.Fail("format", "%s: the independent decoder fails on tink's stream of %d segments: %v", desc, nseg, err)
	}
	salt, prefix := fixedSalt(c)
	refct := c.StreamEncrypt(salt, prefix, aad, pt)
	read := func(stream []byte) ([]byte, error) {
		r, err := p.NewDecryptingReader(bytes.NewReader(stream), aad)
		if err != nil {
			return nil, err
		}
		return io.ReadAll(r)
	}
	for i, stream := range [][]byte{refct, mine} {
		out, err := read(stream)
		x.Eval(1)
		if err != nil || !bytes.Equal(out, pt) {
			x.Fail("wrong-plaintext", "%s: reading valid stream %d (0 = reference, 1 = tink's own) gives %d bytes, err=%v", desc, i, len(out), err)
			return
		}
	}
	// exchange segments a and b (both full-size middle segments) of the reference stream
	segs := c.StreamSegments(L)
	swap := func(a, b int) []byte {
		out := bytes.Clone(refct)
		sa, sb := segs[a], segs[b]
		copy(out[sa[0]:sa[1]], refct[sb[0]:sb[1]])
		copy(out[sb[0]:sb[1]], refct[sa[0]:sa[1]])
		return out
	}
	pairs := [][2]int{{1, 257}, {1, 2}, {0 + 1, 256}}
	if nseg > 65537 {
		pairs = append(pairs, [2]int{1, 65537}, [2]int{256, 65536}, [2]int{257, 65537 - 256})
	}
	for _, pr := range pairs {
		a, b := pr[0], pr[1]
		if b >= len(segs)-1 || segs[a][1]-segs[a][0] != segs[b][1]-segs[b][0] {
			continue
		}
		bad := swap(a, b)
		if _, rerr := c.StreamDecrypt(aad, bad); rerr == nil {
			x.Fail("harness", "%s: the reference accepts a stream with segments %d and %d exchanged", desc, a, b)
			return
		}
		out, err := read(bad)
		x.Eval(1)
		if err == nil {
			x.Fail("clean-eof-on-manipulated-stream", "%s: segments %d and %d exchanged: read to a clean EOF (%d bytes, equal to the plaintext: %v)", desc, a, b, len(out), bytes.Equal(out, pt))
			return
		}
		// what was released before the error is a prefix of the plaintext
		if !bytes.HasPrefix(pt, out) {
			x.Fail("foreign-plaintext", "%s: segments %d and %d exchanged: %d bytes released that are not a prefix of the plaintext", desc, a, b, len(out))
			return
		}
	}
	x.Outcome(fmt.Sprintf("many-segments/%s/%d", c.Scheme, nseg))
}
