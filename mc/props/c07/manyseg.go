package main

// Section many-segments: streams with MORE THAN 256 (thorough: more than 65536) segments. The segment counter is a
// 32-bit big-endian field of the per-segment nonce; every one of its bytes has to carry: tink's stream must be read
// by the independent decoder and vice versa, and exchanging two segments whose counters differ only in a higher byte
// (i and i+256, i and i+65536) must be rejected - with a counter byte lost both would carry one nonce and the
// exchange would go through as a clean, reordered plaintext.

import (
	"bytes"
	"fmt"
	"io"

	"github.com/tink-crypto/tink-go/v2/streamingaead"
	"verif/h"
	"verif/ref"
	"verif/tk"
)

func manySegmentsSection(x *h.X) {
	bases := []cfg{
		mk("GCMHKDF", 16, 16, "SHA256", "", 16, 7, 0, "subtle"),
		mk("CTRHMAC", 16, 16, "SHA256", "SHA256", 16, 7, 0, "subtle"),
		mk("GCMHKDF", 32, 32, "SHA256", "", 16, 3, 0, "keyset"),
		mk("CTRHMAC", 32, 32, "SHA256", "SHA256", 32, 3, 0, "keyset"),
	}
	c := bases[x.Choose("config", len(bases))]
	x.Label(fmt.Sprintf("%s/%s seg=%d", c.Scheme, c.Path, c.SegmentSize))
	counts := []int{258}
	if x.Thorough() {
		counts = []int{258, 513, 65538}
	}
	nseg := h.Pick(x, "segments", counts)
	F, S := c.FirstPlain(), c.OtherPlain()
	L := F + (nseg-2)*S + 1 // nseg segments, the last one carrying one byte
	desc := fmt.Sprintf("%s %s main=%d seg=%d segments=%d", c.Scheme, c.Path, len(c.MainKey), c.SegmentSize, nseg)
	p, err := build(c, 0, 0)
	if err != nil {
		x.Fail("construct", "%s: %v", desc, err)
		return
	}
	x.NonTrivial()
	pt := plain(L)
	aad := []byte("aad-5")
	var sink bytes.Buffer
	w, err := p.NewEncryptingWriter(&sink, aad)
	if err != nil {
		x.Fail("construct", "%s: NewEncryptingWriter: %v", desc, err)
		return
	}
	if m, err := w.Write(pt); err != nil || m != L {
		x.Fail("write-result", "%s: Write(%d) = (%d, %v)", desc, L, m, err)
		return
	}
	if err := w.Close(); err != nil {
		x.Fail("close-error", "%s: %v", desc, err)
		return
	}
	mine := sink.Bytes()
	x.Eval(1)
	if got, err := c.StreamDecrypt(aad, mine); err != nil || !bytes.Equal(got, pt) {
		x.Fail("format", "%s: the independent decoder fails on tink's stream of %d segments: %v", desc, nseg, err)
	}
	salt, prefix := fixedSalt(c)
	refct := c.StreamEncrypt(salt, prefix, aad, pt)
	read := func(stream []byte) ([]byte, error) {
		r, err := p.NewDecryptingReader(bytes.NewReader(stream), aad)
		if err != nil {
			return nil, err
		}
		return io.ReadAll(r)
	}
	for i, stream := range [][]byte{refct, mine} {
		out, err := read(stream)
		x.Eval(1)
		if err != nil || !bytes.Equal(out, pt) {
			x.Fail("wrong-plaintext", "%s: reading valid stream %d (0 = reference, 1 = tink's own) gives %d bytes, err=%v", desc, i, len(out), err)
			return
		}
	}
	// exchange segments a and b (both full-size middle segments) of the reference stream
	segs := c.StreamSegments(L)
	swap := func(a, b int) []byte {
		out := bytes.Clone(refct)
		sa, sb := segs[a], segs[b]
		copy(out[sa[0]:sa[1]], refct[sb[0]:sb[1]])
		copy(out[sb[0]:sb[1]], refct[sa[0]:sa[1]])
		return out
	}
	pairs := [][2]int{{1, 257}, {1, 2}, {0 + 1, 256}}
	if nseg > 65537 {
		pairs = append(pairs, [2]int{1, 65537}, [2]int{256, 65536}, [2]int{257, 65537 - 256})
	}
	for _, pr := range pairs {
		a, b := pr[0], pr[1]
		if b >= len(segs)-1 || segs[a][1]-segs[a][0] != segs[b][1]-segs[b][0] {
			continue
		}
		bad := swap(a, b)
		if _, rerr := c.StreamDecrypt(aad, bad); rerr == nil {
			x.Fail("harness", "%s: the reference accepts a stream with segments %d and %d exchanged", desc, a, b)
			return
		}
		out, err := read(bad)
		x.Eval(1)
		if err == nil {
			x.Fail("clean-eof-on-manipulated-stream", "%s: segments %d and %d exchanged: read to a clean EOF (%d bytes, equal to the plaintext: %v)", desc, a, b, len(out), bytes.Equal(out, pt))
			return
		}
		// what was released before the error is a prefix of the plaintext
		if !bytes.HasPrefix(pt, out) {
			x.Fail("foreign-plaintext", "%s: segments %d and %d exchanged: %d bytes released that are not a prefix of the plaintext", desc, a, b, len(out))
			return
		}
	}
	x.Outcome(fmt.Sprintf("many-segments/%s/%d", c.Scheme, nseg))
}

// Section keyset-mixed-segment-sizes: a keyset whose keys share scheme, derived key size (hence header length) and
// hash but differ in SEGMENT SIZE. The matching key is tried after a key with (much) larger segments that consumed
// more of the stream than the matching key's first segments hold; the stream is several segments of the matching
// key long and is read in large and small pieces. Whatever the earlier candidates consumed is replayed in full.
func mixedSegmentsSection(x *h.X) {
	scheme := h.Pick(x, "scheme", []string{"GCMHKDF", "CTRHMAC"})
	sizes := h.Pick(x, "segment-sizes(other,matching)", [][2]int{{1 << 20, 4096}, {8192, 256}, {4096, 4097}, {256, 1 << 16}})
	order := h.Pick(x, "matching-key-position", []int{1, 0, 2})
	rchunk := h.Pick(x, "read-chunk", []int{0, 1 << 16, 4096, 100}) // 0 = io.ReadAll
	mkc := func(label string, seg int) (cfg, []byte) {
		c := mk(scheme, 32, 32, "SHA256", map[string]string{"GCMHKDF": "", "CTRHMAC": "SHA256"}[scheme], map[string]int{"GCMHKDF": 16, "CTRHMAC": 32}[scheme], 0, 0, "keyset")
		c.SegmentSize = seg
		return c, ref.KeyBytes("c07-mixed-"+label, 32)
	}
	cm, kbm := mkc("matching", sizes[1])
	cm.MainKey = kbm
	co, kbo := mkc("other", sizes[0])
	co2, kbo2 := mkc("other2", sizes[0]*2)
	km, err := streamKey(cm, kbm)
	if err != nil {
		x.Fail("construct", "%v", err)
		return
	}
	ko, err := streamKey(co, kbo)
	if err != nil {
		x.Fail("construct", "%v", err)
		return
	}
	ko2, err := streamKey(co2, kbo2)
	if err != nil {
		x.Fail("construct", "%v", err)
		return
	}
	es := []tk.Entry{{Key: ko, ID: 101}, {Key: ko2, ID: 102}}
	me := tk.Entry{Key: km, ID: 100, Primary: true}
	switch order {
	case 0:
		es = append([]tk.Entry{me}, es...)
	case 1:
		es = []tk.Entry{es[0], me, es[1]}
	default:
		es = append(es, me)
	}
	hd, err := tk.Handle(es)
	if err != nil {
		x.Fail("construct", "%v", err)
		return
	}
	p, err := streamingaead.New(hd)
	if err != nil {
		x.Fail("construct", "%v", err)
		return
	}
	x.NonTrivial()
	desc := fmt.Sprintf("%s keyset: matching key (segments of %d) at position %d among keys with segments of %d and %d, read chunk %d", scheme, sizes[1], order, sizes[0], sizes[0]*2, rchunk)
	aad := []byte("aad-5")
	for _, nseg := range []int{1, 3, 5} {
		L := cm.FirstPlain() + (nseg-1)*cm.OtherPlain() - 7
		pt := plain(L)
		salt, prefix := fixedSalt(cm)
		ct := cm.StreamEncrypt(salt, prefix, aad, pt)
		r, err := p.NewDecryptingReader(bytes.NewReader(ct), aad)
		if err != nil {
			x.Fail("construct", "%s: NewDecryptingReader: %v", desc, err)
			return
		}
		var out []byte
		if rchunk == 0 {
			out, err = io.ReadAll(r)
		} else {
			buf := make([]byte, rchunk)
			for {
				n, e := r.Read(buf)
				out = append(out, buf[:n]...)
				if e == io.EOF {
					break
				}
				if e != nil {
					err = e
					break
				}
			}
		}
		x.Eval(1)
		if err != nil || !bytes.Equal(out, pt) {
			x.Fail("error-on-valid-stream", "%s: a valid stream of %d segments (%d plaintext bytes) made for the matching key reads as %d bytes, err=%v", desc, nseg, L, len(out), err)
			return
		}
	}
	x.Outcome("mixed-segments/" + scheme)
}
