package main

// Section interleaved-streams: ONE StreamingAEAD object serves several streams whose calls interleave (writer 1
// opened, writer 2 opened, writes alternate, closes in either order; likewise two readers over two different
// ciphertexts). Per-stream state (derived key, nonce prefix, segment buffers, counters) kept in the primitive
// instead of the writer / reader shows as a stream the independent decoder rejects or a reader returning the other
// stream's bytes. Also the same object is used again afterwards (a USED primitive must behave like a fresh one).

import (
	"bytes"
	"fmt"
	"io"

	"verif/h"
)

func interleavedSection(x *h.X) {
	cs := configs(x.Thorough())
	c := cs[x.Choose("config", len(cs))]
	x.Label(c.String())
	keys := 1
	if c.Path == "keyset" {
		keys = 1 + x.Choose("extra-keys", 2)
	}
	p, err := build(c, keys-1, keys-1)
	if err != nil {
		x.Fail("construct", "%v: %v", c, err)
		return
	}
	F, S := c.FirstPlain(), c.OtherPlain()
	order := x.Choose("close-order", 2)
	lens := [][2]int{{0, F + S + 1}, {F, F + 1}, {F + 2*S, 1}}
	ll := lens[x.Choose("lengths", len(lens))]
	x.NonTrivial()
	aad1, aad2 := []byte("stream-one"), []byte("stream-2")
	pt1, pt2 := plain(ll[0]), bytes.Repeat([]byte{0x5a}, ll[1])
	var s1, s2 bytes.Buffer
	w1, err := p.NewEncryptingWriter(&s1, aad1)
	if err != nil {
		x.Fail("construct", "%v: NewEncryptingWriter: %v", c, err)
		return
	}
	w2, err := p.NewEncryptingWriter(&s2, aad2)
	if err != nil {
		x.Fail("construct", "%v: second NewEncryptingWriter: %v", c, err)
		return
	}
	step := S/2 + 1
	for o1, o2 := 0, 0; o1 < len(pt1) || o2 < len(pt2); {
		if o1 < len(pt1) {
			n := min(step, len(pt1)-o1)
			if m, err := w1.Write(pt1[o1 : o1+n]); m != n || err != nil {
				x.Fail("write-result", "%v: interleaved Write on stream 1 = (%d, %v)", c, m, err)
				return
			}
			o1 += n
		}
		if o2 < len(pt2) {
			n := min(step+1, len(pt2)-o2)
			if m, err := w2.Write(pt2[o2 : o2+n]); m != n || err != nil {
				x.Fail("write-result", "%v: interleaved Write on stream 2 = (%d, %v)", c, m, err)
				return
			}
			o2 += n
		}
	}
	ws := []io.Closer{w1, w2}
	if order == 1 {
		ws = []io.Closer{w2, w1}
	}
	for _, w := range ws {
		if err := w.Close(); err != nil {
			x.Fail("close-error", "%v: %v", c, err)
			return
		}
	}
	x.Eval(2)
	cfg := fmt.Sprintf("%v keys=%d lengths=%v close-order=%d", c, keys, ll, order)
	if got, err := c.StreamDecrypt(aad1, s1.Bytes()); err != nil || !bytes.Equal(got, pt1) {
		x.Fail("interleaved-streams", "%s: the independent decoder fails on stream 1 written interleaved with stream 2: %v", cfg, err)
		return
	}
	if got, err := c.StreamDecrypt(aad2, s2.Bytes()); err != nil || !bytes.Equal(got, pt2) {
		x.Fail("interleaved-streams", "%s: the independent decoder fails on stream 2 written interleaved with stream 1: %v", cfg, err)
		return
	}
	// two readers, reads alternate
	r1, err1 := p.NewDecryptingReader(bytes.NewReader(s1.Bytes()), aad1)
	r2, err2 := p.NewDecryptingReader(bytes.NewReader(s2.Bytes()), aad2)
	if err1 != nil || err2 != nil {
		x.Fail("error-on-valid-stream", "%s: NewDecryptingReader: %v %v", cfg, err1, err2)
		return
	}
	var g1, g2 []byte
	b1, b2 := make([]byte, step), make([]byte, step+2)
	d1, d2 := false, false
	for i := 0; i < 1<<14 && !(d1 && d2); i++ {
		if !d1 {
			n, err := r1.Read(b1)
			g1 = append(g1, b1[:n]...)
			if err == io.EOF {
				d1 = true
			} else if err != nil {
				x.Fail("error-on-valid-stream", "%s: interleaved Read on stream 1: %v", cfg, err)
				return
			}
		}
		if !d2 {
			n, err := r2.Read(b2)
			g2 = append(g2, b2[:n]...)
			if err == io.EOF {
				d2 = true
			} else if err != nil {
				x.Fail("error-on-valid-stream", "%s: interleaved Read on stream 2: %v", cfg, err)
				return
			}
		}
	}
	x.Eval(2)
	if !d1 || !d2 || !bytes.Equal(g1, pt1) || !bytes.Equal(g2, pt2) {
		x.Fail("wrong-plaintext", "%s: interleaved readers returned %d / %d bytes (eof %v / %v), want %d / %d", cfg, len(g1), len(g2), d1, d2, len(pt1), len(pt2))
		return
	}
	// the used primitive once more, and the first stream under the second stream's AD must fail
	var s3 bytes.Buffer
	w3, err := p.NewEncryptingWriter(&s3, aad1)
	if err == nil {
		_, err = w3.Write(pt2)
	}
	if err == nil {
		err = w3.Close()
	}
	x.Eval(2)
	if got, derr := c.StreamDecrypt(aad1, s3.Bytes()); err != nil || derr != nil || !bytes.Equal(got, pt2) {
		x.Fail("interleaved-streams", "%s: third stream from the used primitive: write %v, independent decoder %v", cfg, err, derr)
		return
	}
	if r, err := p.NewDecryptingReader(bytes.NewReader(s1.Bytes()), aad2); err == nil {
		if out, err := io.ReadAll(r); err == nil && (len(pt1) > 0 || len(out) > 0 || true) {
			x.Fail("clean-eof-on-manipulated-stream", "%s: stream 1 read under stream 2's associated data reaches a clean EOF (%d bytes)", cfg, len(out))
		}
	}
	x.Outcome("interleaved/" + c.Path)
}
