package main

// Section noncebased-custom: the public segmenting layer streamingaead/subtle/noncebased driven directly with a
// recording reference segment cipher, through BOTH dispatch paths of Writer / Reader (a SegmentEncrypter that
// only has EncryptSegment, and one that also offers the EncryptSegmentWithDst fast path). The mock cipher binds
// every segment to its nonce (tag = SHA-256(nonce || segment)[:4]), so that the checks are exact:
//   - the sequence of (segment, nonce) pairs handed to the cipher is the reference segmentation of the plaintext
//     (first segment shortened by the offset, nonce = prefix || be32(i) || last-flag), for every write chunking;
//   - the emitted stream is the concatenation of the segment ciphertexts;
//   - the reader returns exactly the plaintext for every read chunking and never more, on both paths;
//   - every truncation, every altered byte and segment drop / swap / duplication ends in an error, never a clean EOF,
//     and only plaintext-prefix bytes are handed out before it.

import (
	"bytes"
	"crypto/sha256"
	"encoding/binary"
	"errors"
	"fmt"
	"io"

	"github.com/tink-crypto/tink-go/v2/streamingaead/subtle/noncebased"
	"verif/h"
)

const nbTag = 4

type nbCall struct {
	seg, nonce []byte
}

// nbCipher is the recording reference segment cipher (plain path only).
type nbCipher struct {
	calls []nbCall
}

func nbSeal(seg, nonce []byte) []byte {
	t := sha256.Sum256(append(bytes.Clone(nonce), seg...))
	return append(bytes.Clone(seg), t[:nbTag]...)
}

func nbOpen(ct, nonce []byte) ([]byte, error) {
	if len(ct) < nbTag {
		return nil, errors.New("mock: segment too short")
	}
	seg := ct[:len(ct)-nbTag]
	t := sha256.Sum256(append(bytes.Clone(nonce), seg...))
	if !bytes.Equal(t[:nbTag], ct[len(ct)-nbTag:]) {
		return nil, errors.New("mock: tag mismatch")
	}
	return bytes.Clone(seg), nil
}

func (c *nbCipher) EncryptSegment(seg, nonce []byte) ([]byte, error) {
	c.calls = append(c.calls, nbCall{bytes.Clone(seg), bytes.Clone(nonce)})
	return nbSeal(seg, nonce), nil
}

func (c *nbCipher) DecryptSegment(ct, nonce []byte) ([]byte, error) {
	c.calls = append(c.calls, nbCall{bytes.Clone(ct), bytes.Clone(nonce)})
	return nbOpen(ct, nonce)
}

// nbCipherDst additionally offers the WithDst methods the Writer / Reader prefer when present.
type nbCipherDst struct {
	nbCipher
	dstCalls int
	badDst   bool
}

func (c *nbCipherDst) EncryptSegmentWithDst(dst, seg, nonce []byte) ([]byte, error) {
	c.dstCalls++
	if len(dst) != 0 {
		c.badDst = true
	}
	c.calls = append(c.calls, nbCall{bytes.Clone(seg), bytes.Clone(nonce)})
	return append(dst, nbSeal(seg, nonce)...), nil
}

func (c *nbCipherDst) DecryptSegmentWithDst(dst, ct, nonce []byte) ([]byte, error) {
	c.dstCalls++
	if len(dst) != 0 {
		c.badDst = true
	}
	c.calls = append(c.calls, nbCall{bytes.Clone(ct), bytes.Clone(nonce)})
	p, err := nbOpen(ct, nonce)
	if err != nil {
		return nil, err
	}
	return append(dst, p...), nil
}

type nbCfg struct {
	prefixLen, nonceExtra, ps, off int
	dst                            bool
}

func (c nbCfg) String() string {
	return fmt.Sprintf("noncebased prefix=%d nonce=%d plaintext-segment=%d first-offset=%d withDst=%v", c.prefixLen, c.prefixLen+5+c.nonceExtra, c.ps, c.off, c.dst)
}

func nbCfgs(thorough bool) []nbCfg {
	var out []nbCfg
	pls := []int{0, 7}
	pss := []int{3, 5}
	if thorough {
		pls = []int{0, 3, 7}
		pss = []int{2, 3, 5, 8}
	}
	for _, pl := range pls {
		for _, ne := range []int{0, 2} {
			for _, ps := range pss {
				for _, off := range []int{0, 1, ps - 1} {
					if off >= ps || (off == ps-1 && off <= 1) {
						continue
					}
					for _, d := range []bool{false, true} {
						out = append(out, nbCfg{pl, ne, ps, off, d})
					}
				}
			}
		}
	}
	return out
}

// nbReference: the documented segmentation and nonces.
func nbReference(c nbCfg, prefix, pt []byte) (calls []nbCall, stream []byte, bounds [][2]int) {
	rest := pt
	for i := 0; ; i++ {
		lim := c.ps
		if i == 0 {
			lim -= c.off
		}
		last := len(rest) <= lim
		n := lim
		if last {
			n = len(rest)
		}
		nonce := make([]byte, c.prefixLen+5+c.nonceExtra)
		copy(nonce, prefix)
		binary.BigEndian.PutUint32(nonce[c.prefixLen:], uint32(i))
		if last {
			nonce[c.prefixLen+4] = 1
		}
		calls = append(calls, nbCall{bytes.Clone(rest[:n]), nonce})
		ct := nbSeal(rest[:n], nonce)
		bounds = append(bounds, [2]int{len(stream), len(stream) + len(ct)})
		stream = append(stream, ct...)
		rest = rest[n:]
		if last {
			return
		}
	}
}

func nbReadAll(r io.Reader, chunk int) ([]byte, error) {
	if chunk == 0 {
		return io.ReadAll(r)
	}
	var out []byte
	buf := make([]byte, chunk)
	for i := 0; i < 1<<16; i++ {
		n, err := r.Read(buf)
		out = append(out, buf[:n]...)
		if err == io.EOF {
			return out, nil
		}
		if err != nil {
			return out, err
		}
	}
	return out, errors.New("reader never reached EOF")
}

func nonceBasedSection(x *h.X) {
	c := h.Pick(x, "config", nbCfgs(x.Thorough()))
	x.Label(c.String())
	maxL := 3*c.ps + 2
	L := x.Choose("plaintext-length", maxL+1)
	wchunks := []int{0, 1, 2, c.ps - 1, c.ps, c.ps + 1, 2*c.ps + 1} // 0 = a single Write
	wchunk := h.Pick(x, "write-chunk", wchunks)
	if wchunk < 0 {
		return
	}
	emptyWrites := x.Choose("interleave-empty-writes", 2) == 1
	prefix := []byte("PREFIXX")[:c.prefixLen]
	pt := plain(L)
	cfgs := fmt.Sprintf("%v len=%d write-chunk=%d empty-writes=%v", c, L, wchunk, emptyWrites)

	var enc noncebased.SegmentEncrypter
	var plainC *nbCipher
	var dstC *nbCipherDst
	if c.dst {
		dstC = &nbCipherDst{}
		plainC = &dstC.nbCipher
		enc = dstC
	} else {
		plainC = &nbCipher{}
		enc = plainC
	}
	var sink bytes.Buffer
	w, err := noncebased.NewWriter(noncebased.WriterParams{W: &sink, SegmentEncrypter: enc, NonceSize: c.prefixLen + 5 + c.nonceExtra,
		NoncePrefix: bytes.Clone(prefix), PlaintextSegmentSize: c.ps, FirstCiphertextSegmentOffset: c.off})
	if err != nil {
		x.Fail("construct", "%s: NewWriter: %v", cfgs, err)
		return
	}
	x.NonTrivial()
	for off := 0; ; {
		if emptyWrites {
			if n, err := w.Write(nil); n != 0 || err != nil {
				x.Fail("write-result", "%s: Write(nil) = (%d, %v)", cfgs, n, err)
				return
			}
		}
		if off >= L {
			break
		}
		n := L - off
		if wchunk > 0 && wchunk < n {
			n = wchunk
		}
		if m, err := w.Write(pt[off : off+n]); m != n || err != nil {
			x.Fail("write-result", "%s: Write(%d bytes at %d) = (%d, %v)", cfgs, n, off, m, err)
			return
		}
		off += n
	}
	if err := w.Close(); err != nil {
		x.Fail("close-error", "%s: %v", cfgs, err)
		return
	}
	wantCalls, wantStream, bounds := nbReference(c, prefix, pt)
	x.Eval(1)
	if c.dst && (dstC.dstCalls != len(dstC.calls) || dstC.badDst) {
		x.Fail("dst-contract", "%s: WithDst path: %d of %d segment calls used it, non-empty dst passed: %v", cfgs, dstC.dstCalls, len(dstC.calls), dstC.badDst)
	}
	if len(plainC.calls) != len(wantCalls) {
		x.Fail("segmentation", "%s: %d segments encrypted, the format has %d", cfgs, len(plainC.calls), len(wantCalls))
		return
	}
	for i := range wantCalls {
		g, wnt := plainC.calls[i], wantCalls[i]
		if !bytes.Equal(g.seg, wnt.seg) {
			x.Fail("segmentation", "%s: segment %d is %x, the format has %x", cfgs, i, g.seg, wnt.seg)
			return
		}
		k := c.prefixLen + 5
		if len(g.nonce) != len(wnt.nonce) || !bytes.Equal(g.nonce[:k], wnt.nonce[:k]) {
			x.Fail("segment-nonce", "%s: segment %d encrypted under nonce %x, want prefix||be32(%d)||last = %x", cfgs, i, g.nonce, i, wnt.nonce)
			return
		}
	}
	// the stream: concatenation of what the cipher returned for the nonces actually used
	var gotWant []byte
	for _, cl := range plainC.calls {
		gotWant = append(gotWant, nbSeal(cl.seg, cl.nonce)...)
	}
	if !bytes.Equal(sink.Bytes(), gotWant) {
		x.Fail("stream", "%s: emitted stream %x is not the concatenation of the segment ciphertexts %x", cfgs, sink.Bytes(), gotWant)
		return
	}
	stream := bytes.Clone(sink.Bytes())
	_ = wantStream
	x.Outcome(fmt.Sprintf("segments=%d/dst=%v", len(wantCalls), c.dst))

	// ---- reader, both dispatch paths, every read chunking
	mkReader := func(src []byte, dst bool) (*noncebased.Reader, *nbCipher, *nbCipherDst, error) {
		var dec noncebased.SegmentDecrypter
		var pc *nbCipher
		var dc *nbCipherDst
		if dst {
			dc = &nbCipherDst{}
			pc = &dc.nbCipher
			dec = dc
		} else {
			pc = &nbCipher{}
			dec = pc
		}
		r, err := noncebased.NewReader(noncebased.ReaderParams{R: bytes.NewReader(src), SegmentDecrypter: dec, NonceSize: c.prefixLen + 5 + c.nonceExtra,
			NoncePrefix: bytes.Clone(prefix), CiphertextSegmentSize: c.ps + nbTag, FirstCiphertextSegmentOffset: c.off})
		return r, pc, dc, err
	}
	rchunks := []int{0, 1, 2, c.ps, c.ps + 1, 3*c.ps + 7}
	for _, dst := range []bool{false, true} {
		for _, rc := range rchunks {
			r, _, dc, err := mkReader(stream, dst)
			if err != nil {
				x.Fail("construct", "%s: NewReader: %v", cfgs, err)
				return
			}
			out, err := nbReadAll(r, rc)
			x.Eval(1)
			if err != nil || !bytes.Equal(out, pt) {
				x.Fail("wrong-plaintext", "%s read-chunk=%d withDst=%v: got %x err=%v, want %x", cfgs, rc, dst, out, err, pt)
				return
			}
			if dst && (dc.badDst || dc.dstCalls != len(dc.calls)) {
				x.Fail("dst-contract", "%s: reader WithDst path: %d of %d calls, non-empty dst: %v", cfgs, dc.dstCalls, len(dc.calls), dc.badDst)
			}
			// reading on after EOF keeps saying EOF
			if n, err := r.Read(make([]byte, 4)); n != 0 || err != io.EOF {
				x.Fail("eof-not-sticky", "%s: Read after EOF = (%d, %v)", cfgs, n, err)
			}
		}
	}

	// ---- manipulations
	type manip struct {
		name string
		b    []byte
	}
	var ms []manip
	for i := 0; i < len(stream); i++ {
		ms = append(ms, manip{fmt.Sprintf("truncate-to-%d", i), bytes.Clone(stream[:i])})
		b := bytes.Clone(stream)
		b[i] ^= 0x01
		ms = append(ms, manip{fmt.Sprintf("flip-byte-%d", i), b})
	}
	ms = append(ms, manip{"append-byte", append(bytes.Clone(stream), 0)})
	ms = append(ms, manip{"append-empty-last-segment", append(bytes.Clone(stream), nbSeal(nil, wantCalls[len(wantCalls)-1].nonce)...)})
	for i := range bounds {
		s := bounds[i]
		drop := append(bytes.Clone(stream[:s[0]]), stream[s[1]:]...)
		ms = append(ms, manip{fmt.Sprintf("drop-segment-%d", i), drop})
		dup := append(bytes.Clone(stream[:s[1]]), stream[s[0]:]...)
		ms = append(ms, manip{fmt.Sprintf("duplicate-segment-%d", i), dup})
		if i+1 < len(bounds) {
			t := bounds[i+1]
			sw := append(bytes.Clone(stream[:s[0]]), stream[t[0]:t[1]]...)
			sw = append(sw, stream[s[0]:s[1]]...)
			sw = append(sw, stream[t[1]:]...)
			ms = append(ms, manip{fmt.Sprintf("swap-segments-%d-%d", i, i+1), sw})
		}
	}
	for _, m := range ms {
		if bytes.Equal(m.b, stream) {
			continue
		}
		for _, dst := range []bool{false, true} {
			for _, rc := range []int{0, 1, c.ps + 1} {
				r, _, _, err := mkReader(m.b, dst)
				if err != nil {
					continue
				}
				out, err := nbReadAll(r, rc)
				x.Eval(1)
				if err == nil {
					x.Fail("clean-eof-on-manipulated-stream", "%s %s read-chunk=%d withDst=%v: read to a clean EOF with %x", cfgs, m.name, rc, dst, out)
					return
				}
				if len(out) > len(pt) || !bytes.Equal(out, pt[:len(out)]) {
					x.Fail("unauthentic-plaintext", "%s %s read-chunk=%d withDst=%v: delivered %x, not a prefix of %x", cfgs, m.name, rc, dst, out, pt)
					return
				}
			}
		}
	}
}
