// C07: streaming AEAD is chunking-independent, follows the documented format, detects any stream
// manipulation and surfaces persistent I/O errors.
//
// Engines: E2 (explicit-state BFS to fixpoint over the REAL writer / reader objects; state key =
// reflective dump of the complete private state + environment position), E1 (manipulation catalogue),
// E4 (scripted io.Reader / io.Writer: short reads, n>0 together with io.EOF, persistent faults at every
// position). Reference model: verif/ref/streaming.go.
//
// Don't-care cells: what Write / Close return after a first Close (only "the emitted stream does not
// change any more" is judged); behaviour of Read after a first non-nil error.
package main

import (
	"bytes"
	"crypto/sha256"
	"errors"
	"fmt"
	"io"
	"os"
	"strings"

	"github.com/tink-crypto/tink-go/v2/insecuresecretdataaccess"
	"github.com/tink-crypto/tink-go/v2/key"
	tinkpb "github.com/tink-crypto/tink-go/v2/proto/tink_go_proto"
	"github.com/tink-crypto/tink-go/v2/secretdata"
	"github.com/tink-crypto/tink-go/v2/streamingaead"
	"github.com/tink-crypto/tink-go/v2/streamingaead/aesctrhmac"
	"github.com/tink-crypto/tink-go/v2/streamingaead/aesgcmhkdf"
	"github.com/tink-crypto/tink-go/v2/streamingaead/subtle"
	"github.com/tink-crypto/tink-go/v2/tink"
	"verif/dump"
	"verif/env"
	"verif/h"
	"verif/ref"
	"verif/space"
	"verif/tape"
	"verif/tk"
)

// ---- configurations -----------------------------------------------------------------------------

type cfg struct {
	ref.StreamCfg
	Path string // "subtle" | "keyset"
}

func (c cfg) String() string {
	if c.Scheme == "GCMHKDF" {
		return fmt.Sprintf("AES-GCM-HKDF main=%d derived=%d hkdf=%s seg=%d off=%d via %s", len(c.MainKey), c.KeySize, c.HKDFHash, c.SegmentSize, c.FirstOffset, c.Path)
	}
	return fmt.Sprintf("AES-CTR-HMAC main=%d derived=%d hkdf=%s tag=%s/%d seg=%d off=%d via %s", len(c.MainKey), c.KeySize, c.HKDFHash, c.TagAlg, c.TagSize, c.SegmentSize, c.FirstOffset, c.Path)
}

func mk(scheme string, mainLen, keySize int, hkdf, tagAlg string, tagSize, segExtra, off int, path string) cfg {
	c := cfg{StreamCfg: ref.StreamCfg{Scheme: scheme, MainKey: ref.KeyBytes(fmt.Sprintf("c07-%s-%d", scheme, mainLen), mainLen), HKDFHash: hkdf, KeySize: keySize, TagAlg: tagAlg, TagSize: tagSize, FirstOffset: off}, Path: path}
	c.SegmentSize = off + c.HeaderLen() + c.Tag() + 1 + segExtra // segExtra = 0: the first segment carries ONE plaintext byte
	return c
}

func configs(thorough bool) []cfg {
	cs := []cfg{
		mk("GCMHKDF", 16, 16, "SHA256", "", 16, 0, 0, "subtle"),
		mk("GCMHKDF", 32, 32, "SHA512", "", 16, 1, 0, "keyset"),
		mk("GCMHKDF", 32, 16, "SHA1", "", 16, 15, 5, "subtle"),
		mk("CTRHMAC", 16, 16, "SHA256", "SHA256", 16, 0, 0, "subtle"),
		mk("CTRHMAC", 32, 32, "SHA512", "SHA512", 10, 1, 1, "subtle"),
		mk("CTRHMAC", 32, 32, "SHA256", "SHA256", 32, 2, 0, "keyset"),
		// main key LONGER than the derived keys (the HKDF output is sized by the derived key size, not by the main key)
		mk("CTRHMAC", 32, 16, "SHA256", "SHA256", 16, 3, 0, "subtle"),
		mk("CTRHMAC", 32, 16, "SHA512", "SHA256", 20, 1, 0, "keyset"),
	}
	if thorough {
		// Every value of every dimension appears, and the dimensions that drive the hand-written cursor logic
		// (segment size, first-segment offset) are crossed fully with scheme and derived key size; hash / tag
		// choices rotate (they only parameterise stdlib calls).
		hks := []string{"SHA1", "SHA256", "SHA512"}
		ctrTags := [][2]any{{"SHA1", 10}, {"SHA1", 20}, {"SHA256", 16}, {"SHA256", 32}, {"SHA512", 64}, {"SHA512", 33}}
		n := 0
		for _, scheme := range []string{"GCMHKDF", "CTRHMAC"} {
			for _, ks := range []int{16, 32} {
				for _, extra := range []int{0, 1, 15, 24} {
					for _, off := range []int{0, 1, 5} {
						n++
						tagAlg, tagSize := "", 16
						if scheme == "CTRHMAC" {
							t := ctrTags[n%len(ctrTags)]
							tagAlg, tagSize = t[0].(string), t[1].(int)
						}
						cs = append(cs, mk(scheme, 32, ks, hks[n%3], tagAlg, tagSize, extra, off, "subtle"))
					}
				}
			}
		}
		for i, t := range ctrTags {
			cs = append(cs, mk("CTRHMAC", 32, 16+16*(i%2), hks[i%3], t[0].(string), t[1].(int), i%3, 0, "subtle"))
		}
		cs = append(cs, mk("GCMHKDF", 16, 16, "SHA256", "", 16, 200, 0, "keyset"), mk("CTRHMAC", 32, 16, "SHA1", "SHA1", 20, 0, 0, "keyset"),
			mk("CTRHMAC", 32, 32, "SHA512", "SHA512", 64, 100, 0, "keyset"))
	}
	return cs
}

var gcmHash = map[string]aesgcmhkdf.HashType{"SHA1": aesgcmhkdf.SHA1, "SHA256": aesgcmhkdf.SHA256, "SHA512": aesgcmhkdf.SHA512}
var ctrHash = map[string]aesctrhmac.HashType{"SHA1": aesctrhmac.SHA1, "SHA256": aesctrhmac.SHA256, "SHA512": aesctrhmac.SHA512}

// build returns the tink primitive for c; for the keyset path, extraKeys other keys of the same
// parameters are added and the real key sits at position pos (it is primary).
func build(c cfg, extraKeys, pos int) (tink.StreamingAEAD, error) {
	if c.Path == "subtle" {
		if c.Scheme == "GCMHKDF" {
			return subtle.NewAESGCMHKDF(bytes.Clone(c.MainKey), c.HKDFHash, c.KeySize, c.SegmentSize, c.FirstOffset)
		}
		return subtle.NewAESCTRHMAC(bytes.Clone(c.MainKey), c.HKDFHash, c.KeySize, c.TagAlg, c.TagSize, c.SegmentSize, c.FirstOffset)
	}
	if c.FirstOffset != 0 {
		return nil, errors.New("keyset path has no first-segment offset")
	}
	var es []tk.Entry
	for i := 0; i <= extraKeys; i++ {
		kc := c
		kb := c.MainKey
		if i != pos {
			// foreign candidate keys differ from the real one in key material AND, by position, in header length
			// (other derived key size) or in scheme, so that a failed attempt consumes a different amount of the
			// stream before the next candidate is tried
			kb = ref.KeyBytes(fmt.Sprintf("c07-other-%d", i), 32)
			switch (i + 1) % 3 {
			case 1:
				kc.KeySize = 48 - c.KeySize // 16 <-> 32
			case 2:
				if c.Scheme == "GCMHKDF" {
					kc.Scheme, kc.TagAlg, kc.TagSize = "CTRHMAC", "SHA256", 16
				} else {
					kc.Scheme, kc.TagAlg, kc.TagSize = "GCMHKDF", "", 16
				}
			}
			kc.SegmentSize = kc.HeaderLen() + kc.Tag() + 1 + (c.SegmentSize - c.HeaderLen() - c.Tag() - 1)
		}
		k, err := streamKey(kc, kb)
		if err != nil {
			return nil, err
		}
		es = append(es, tk.Entry{Key: k, ID: uint32(100 + i), Status: tinkpb.KeyStatusType_ENABLED, Primary: i == pos})
	}
	hd, err := tk.Handle(es)
	if err != nil {
		return nil, err
	}
	return streamingaead.New(hd)
}

// streamKey builds the key object for configuration c with main key kb.
func streamKey(c cfg, kb []byte) (key.Key, error) {
	sd := secretdata.NewBytesFromData(bytes.Clone(kb), insecuresecretdataaccess.Token{})
	if c.Scheme == "GCMHKDF" {
		p, err := aesgcmhkdf.NewParameters(aesgcmhkdf.ParametersOpts{KeySizeInBytes: len(kb), DerivedKeySizeInBytes: c.KeySize, HKDFHashType: gcmHash[c.HKDFHash], SegmentSizeInBytes: int32(c.SegmentSize)})
		if err != nil {
			return nil, err
		}
		return aesgcmhkdf.NewKey(p, sd)
	}
	p, err := aesctrhmac.NewParameters(aesctrhmac.ParametersOpts{KeySizeInBytes: len(kb), DerivedKeySizeInBytes: c.KeySize, HkdfHashType: ctrHash[c.HKDFHash], HmacHashType: ctrHash[c.TagAlg], HmacTagSizeInBytes: c.TagSize, SegmentSizeInBytes: int32(c.SegmentSize)})
	if err != nil {
		return nil, err
	}
	return aesctrhmac.NewKey(p, sd)
}

func plain(n int) []byte {
	b := make([]byte, n)
	for i := range b {
		b[i] = byte(i*7 + 3)
	}
	return b
}

var aads = [][]byte{nil, []byte("aad-5"), {}}

func fixedSalt(c cfg) ([]byte, []byte) {
	return ref.KeyBytes("c07-salt", c.KeySize), ref.KeyBytes("c07-prefix", 7)
}

var dumpOpts = dump.Opts{SkipTypes: map[string]bool{"verif/env.ScriptReader": true, "verif/env.ScriptWriter": true}}

func sha(b []byte) string { s := sha256.Sum256(b); return fmt.Sprintf("%x", s[:8]) }

// ---- writer search --------------------------------------------------------------------------------

type wop struct {
	close bool
	n     int
}

func writerOps(c cfg) []wop {
	S := c.OtherPlain()
	ops := []wop{{close: true}}
	for n := 0; n <= S+2; n++ {
		ops = append(ops, wop{n: n})
	}
	return append(ops, wop{n: 2 * S}, wop{n: 2*S + 1}, wop{n: 3*S + 1})
}

func wopName(o wop) string {
	if o.close {
		return "Close"
	}
	return fmt.Sprintf("Write(%d)", o.n)
}

func writerRun(c cfg, aad []byte, ops []wop, hist []int, report func(key, msg string)) (string, bool, bool) {
	tp := tape.NewTape(nil)
	tape.Bind(tp)
	defer tape.Unbind()
	viol := func(key, format string, a ...any) {
		var names []string
		for _, i := range hist {
			names = append(names, wopName(ops[i]))
		}
		report(key, fmt.Sprintf("%v aad=%q: ", c, aad)+fmt.Sprintf(format, a...)+" | history: "+strings.Join(names, " "))
	}
	p, err := build(c, 0, 0)
	if err != nil {
		viol("construct", "constructor: %v", err)
		return "", false, false
	}
	sink := env.NewScriptWriter()
	w, err := p.NewEncryptingWriter(sink, aad)
	if err != nil {
		viol("construct", "NewEncryptingWriter: %v", err)
		return "", false, false
	}
	maxTotal := c.FirstPlain() + 3*c.OtherPlain() + 1
	total, closed := 0, false
	var atClose []byte
	for step, oi := range hist {
		o := ops[oi]
		last := step == len(hist)-1
		if o.close {
			err := w.Close()
			if !closed {
				closed = true
				atClose = bytes.Clone(sink.Buf)
				if last {
					if err != nil {
						viol("close-error", "Close returned %v", err)
					}
					// Oracle: an independent decoder of the documented format recovers exactly the plaintext.
					// (Byte-identity with one particular segmentation is NOT demanded: e.g. a full segment followed by
					// an empty last segment is also a valid encoding of the same plaintext.)
					if pt, err := c.StreamDecrypt(aad, sink.Buf); err != nil || !bytes.Equal(pt, plain(total)) {
						viol("format", "independent decoder fails on tink's stream of %d plaintext bytes: err=%v, stream=%x", total, err, sink.Buf)
					}
				}
			} else if last && !bytes.Equal(sink.Buf, atClose) {
				viol("after-close", "second Close changed the emitted stream")
			}
			continue
		}
		if closed {
			w.Write(plain(total + o.n)[total:])
			if last && !bytes.Equal(sink.Buf, atClose) {
				viol("after-close", "Write after Close changed the emitted stream")
			}
			continue
		}
		if total+o.n > maxTotal {
			return "", false, false
		}
		n, err := w.Write(plain(total + o.n)[total:])
		if last && (err != nil || n != o.n) {
			viol("write-result", "Write(%d) returned (%d, %v)", o.n, n, err)
		}
		total += o.n
	}
	key := fmt.Sprintf("%s|out=%d:%s|total=%d|closed=%v", dump.String(w, dumpOpts), len(sink.Buf), sha(sink.Buf), total, closed)
	return key, true, false
}

func writerSection(x *h.X) {
	cs := configs(x.Thorough())
	ci := x.Choose("config", len(cs))
	c := cs[ci]
	x.Label(c.String())
	ai := x.Choose("aad", 2)
	aad := aads[ai]
	ops := writerOps(c)
	if x.Replaying() {
		v := x.ReplayVector()
		writerRun(c, aad, ops, v[2:], func(key, msg string) { x.Fail(key, "%s", msg) })
		return
	}
	st := space.Explore(space.Config{NumOps: func([]int) int { return len(ops) }, Deadline: h.Deadline(), Workers: 1, MaxStates: 200000,
		Stop: func() bool { return h.ViolationCount() >= 25 }},
		func(hist []int) (string, bool, bool) {
			return writerRun(c, aad, ops, hist, func(key, msg string) {
				h.ReportExternal("writer-bfs", key, msg, append([]int{ci, ai}, hist...), nil)
			})
		})
	h.AddMC(st.States, st.Transitions-st.Pruned, st.Transitions-st.Pruned)
	x.Eval(int(st.Transitions))
	x.NonTrivial()
	x.Outcome(fmt.Sprintf("fixpoint=%v", st.Fixpoint))
	x.Count("states", int(st.States))
	x.Count("transitions", int(st.Transitions))
	if !st.Fixpoint {
		h.NotExhaustive("writer BFS for " + c.String() + ": " + st.Capped)
	}
	if len(st.Sample) > 0 && ci == 0 {
		var names []string
		for _, i := range st.Sample[len(st.Sample)-1] {
			names = append(names, wopName(ops[i]))
		}
		h.MCSample(map[string]any{"writer_history": names, "config": c.String()})
	}
}

// ---- reader search --------------------------------------------------------------------------------

var policies = []string{"all", "1-byte", "2-byte", "half", "all+EOF-with-data"}

func setPolicy(src *env.ScriptReader, p int) {
	src.EOFWithData = p == 4
	switch p {
	case 0, 4:
		src.Answer = nil
	case 1:
		src.Answer = func(rem, buf int) int { return 1 }
	case 2:
		src.Answer = func(rem, buf int) int { return 2 }
	case 3:
		src.Answer = func(rem, buf int) int { return (buf + 1) / 2 }
	}
}

type rop struct{ n, pol int }

func readerOps(c cfg, thorough bool) []rop {
	S := c.OtherPlain()
	lens := []int{0, 1, 2, S - 1, S, S + 1, 2 * S}
	if thorough {
		lens = []int{0, 1, 2, 3, S / 2, S - 1, S, S + 1, S + 2, 2*S - 1, 2 * S, 2*S + 1, 3*S + 7}
	}
	var ops []rop
	for _, n := range lens {
		if n < 0 {
			continue
		}
		for p := range policies {
			ops = append(ops, rop{n, p})
		}
	}
	return ops
}

func ropName(o rop) string { return fmt.Sprintf("Read(%d)/src:%s", o.n, policies[o.pol]) }

// readerRun replays hist = [constructor policy, op...] on a fresh reader over the reference ciphertext of L bytes.
func readerRun(c cfg, aad []byte, L, extraKeys, pos int, ops []rop, hist []int, report func(key, msg string)) (string, bool, bool) {
	viol := func(key, format string, a ...any) {
		names := []string{}
		for i, hi := range hist {
			if i == 0 {
				names = append(names, "New(src:"+policies[hi]+")")
			} else {
				names = append(names, ropName(ops[hi]))
			}
		}
		report(key, fmt.Sprintf("%v aad=%q len=%d keys=%d pos=%d: ", c, aad, L, extraKeys+1, pos)+fmt.Sprintf(format, a...)+" | history: "+strings.Join(names, " "))
	}
	if len(hist) == 0 {
		return "<init>", true, false
	}
	pt := plain(L)
	salt, prefix := fixedSalt(c)
	ct := c.StreamEncrypt(salt, prefix, aad, pt)
	p, err := build(c, extraKeys, pos)
	if err != nil {
		viol("construct", "constructor: %v", err)
		return "", false, false
	}
	src := env.NewScriptReader(ct)
	setPolicy(src, hist[0])
	r, err := p.NewDecryptingReader(src, aad)
	if err != nil {
		viol("construct", "NewDecryptingReader on a valid stream: %v", err)
		return "", false, false
	}
	out := 0
	eof := false
	S := c.OtherPlain()
	for step, oi := range hist[1:] {
		o := ops[oi]
		last := step == len(hist)-2
		setPolicy(src, o.pol)
		buf := make([]byte, o.n+3)
		for i := range buf {
			buf[i] = 0xEE
		}
		n, err := r.Read(buf[:o.n])
		if !last {
			if err == nil || err == io.EOF {
				out += n
				eof = eof || err == io.EOF
			}
			continue
		}
		if n < 0 || n > o.n {
			viol("read-count", "Read(%d) returned n=%d", o.n, n)
			return "", false, false
		}
		if !bytes.Equal(buf[o.n:], []byte{0xEE, 0xEE, 0xEE}) {
			viol("read-overflow", "Read(%d) wrote past len(p)", o.n)
		}
		if out+n > L || !bytes.Equal(buf[:n], pt[out:out+n]) {
			viol("wrong-plaintext", "Read(%d) at plaintext offset %d delivered %x, want prefix continuation %x", o.n, out, buf[:n], pt[min(out, L):min(out+n, L)])
			return "", false, false
		}
		out += n
		if err != nil && err != io.EOF {
			viol("error-on-valid-stream", "Read(%d) at plaintext offset %d returned error %v on an unmodified stream", o.n, out, err)
			return "", false, false
		}
		if eof && (n != 0 || err != io.EOF) {
			viol("after-eof", "Read after io.EOF returned (%d, %v)", n, err)
		}
		if err == io.EOF {
			eof = true
			if out != L {
				viol("early-eof", "io.EOF after %d of %d plaintext bytes", out, L)
			}
		}
	}
	key := fmt.Sprintf("%s|src=%d|out=%d|eof=%v", dump.String(r, dumpOpts), src.Pos, out, eof)
	// liveness / completion probe from this state: keep reading with a benign source; must end in io.EOF with exactly the plaintext
	if len(hist) >= 1 {
		setPolicy(src, 0)
		buf := make([]byte, S+1)
		o2, steps := out, 0
		for ; steps < L+8; steps++ {
			n, err := r.Read(buf)
			if n > 0 && (o2+n > L || !bytes.Equal(buf[:n], pt[o2:o2+n])) {
				viol("wrong-plaintext", "continuation from this state delivers wrong bytes at plaintext offset %d", o2)
				break
			}
			o2 += n
			if err == io.EOF {
				if o2 != L {
					viol("early-eof", "continuation from this state ends with io.EOF after %d of %d plaintext bytes", o2, L)
				}
				break
			}
			if err != nil {
				viol("error-on-valid-stream", "continuation from this state fails at plaintext offset %d: %v", o2, err)
				break
			}
		}
		if steps >= L+8 {
			viol("no-progress", "continuation from this state did not reach io.EOF within %d reads (livelock)", L+8)
		}
	}
	return key, true, eof && false
}

func lengths(c cfg, thorough bool) []int {
	F, S := c.FirstPlain(), c.OtherPlain()
	if thorough {
		var ls []int
		for n := 0; n <= F+3*S+1; n++ {
			ls = append(ls, n)
		}
		return ls
	}
	set := map[int]bool{}
	var ls []int
	for _, n := range []int{0, 1, F - 1, F, F + 1, F + S - 1, F + S, F + S + 1, F + 2*S, F + 2*S + 1} {
		if n >= 0 && !set[n] {
			set[n] = true
			ls = append(ls, n)
		}
	}
	return ls
}

func readerSection(x *h.X) {
	cs := configs(x.Thorough())
	ci := x.Choose("config", len(cs))
	c := cs[ci]
	x.Label(c.String())
	// thorough: EVERY plaintext length for the first 14 configurations (both schemes, all offsets, 1-byte first
	// segment) and the boundary set for the others
	ls := lengths(c, x.Thorough() && ci < 14)
	li := x.Choose("plaintext-length", len(ls))
	L := ls[li]
	x.Label(fmt.Sprint(L))
	// keyset shape: subtle path has a single key; keyset path: 1..3 candidate keys, real key at every position
	shapes := [][2]int{{0, 0}}
	if c.Path == "keyset" {
		shapes = [][2]int{{0, 0}, {1, 0}, {1, 1}, {2, 0}, {2, 1}, {2, 2}}
	}
	si := x.Choose("keyset-shape", len(shapes))
	extra, pos := shapes[si][0], shapes[si][1]
	x.Label(fmt.Sprintf("%d keys, real key at %d", extra+1, pos))
	ai := x.Choose("aad", 2)
	aad := aads[ai]
	ops := readerOps(c, x.Thorough())
	if x.Replaying() {
		readerRun(c, aad, L, extra, pos, ops, x.ReplayVector()[4:], func(key, msg string) { x.Fail(key, "%s", msg) })
		return
	}
	st := space.Explore(space.Config{NumOps: func(hist []int) int {
		if len(hist) == 0 {
			return len(policies)
		}
		return len(ops)
	}, Deadline: h.Deadline(), Workers: 1, MaxStates: 300000, Stop: func() bool { return h.ViolationCount() >= 25 }},
		func(hist []int) (string, bool, bool) {
			return readerRun(c, aad, L, extra, pos, ops, hist, func(key, msg string) {
				h.ReportExternal("reader-bfs", key, msg, append([]int{ci, li, si, ai}, hist...), nil)
			})
		})
	h.AddMC(st.States, st.Transitions-st.Pruned, st.Transitions-st.Pruned)
	x.Eval(int(st.Transitions))
	x.NonTrivial()
	x.Outcome(fmt.Sprintf("fixpoint=%v", st.Fixpoint))
	x.Count("states", int(st.States))
	x.Count("transitions", int(st.Transitions))
	if !st.Fixpoint {
		h.NotExhaustive(fmt.Sprintf("reader BFS for %v len=%d: %s", c, L, st.Capped))
	}
	if ci == 0 && li == 3 && len(st.Sample) > 0 {
		var names []string
		for i, hi := range st.Sample[len(st.Sample)-1] {
			if i == 0 {
				names = append(names, "New(src:"+policies[hi]+")")
			} else {
				names = append(names, ropName(ops[hi]))
			}
		}
		h.MCSample(map[string]any{"reader_history": names, "config": c.String(), "plaintext_len": L})
	}
}

// ---- manipulation catalogue (E1) ---------------------------------------------------------------

type manip struct {
	name string
	ct   []byte
	aad  []byte
}

func catalogue(c cfg, aad []byte, L int, thorough bool) []manip {
	pt := plain(L)
	salt, prefix := fixedSalt(c)
	ct := c.StreamEncrypt(salt, prefix, aad, pt)
	segs := c.StreamSegments(L)
	var ms []manip
	add := func(name string, b []byte) {
		if !bytes.Equal(b, ct) {
			ms = append(ms, manip{name, b, aad})
		}
	}
	for cut := 0; cut < len(ct); cut++ {
		add(fmt.Sprintf("truncated to %d bytes", cut), bytes.Clone(ct[:cut]))
	}
	for i := 0; i < len(ct); i++ {
		b := bytes.Clone(ct)
		b[i] ^= 0x01
		add(fmt.Sprintf("byte %d ^= 01", i), b)
		if thorough {
			b = bytes.Clone(ct)
			b[i] ^= 0x80
			add(fmt.Sprintf("byte %d ^= 80", i), b)
		}
	}
	seg := func(i int) []byte { return ct[segs[i][0]:segs[i][1]] }
	join := func(parts ...[]byte) []byte { return bytes.Join(parts, nil) }
	head := ct[:c.HeaderLen()]
	for i := range segs {
		// dropped
		var parts [][]byte
		parts = append(parts, head)
		for j := range segs {
			if j != i {
				parts = append(parts, seg(j))
			}
		}
		add(fmt.Sprintf("segment %d dropped", i), join(parts...))
		// duplicated
		parts = [][]byte{head}
		for j := range segs {
			parts = append(parts, seg(j))
			if j == i {
				parts = append(parts, seg(j))
			}
		}
		add(fmt.Sprintf("segment %d duplicated", i), join(parts...))
		for k := i + 1; k < len(segs); k++ {
			parts = [][]byte{head}
			for j := range segs {
				switch j {
				case i:
					parts = append(parts, seg(k))
				case k:
					parts = append(parts, seg(i))
				default:
					parts = append(parts, seg(j))
				}
			}
			add(fmt.Sprintf("segments %d and %d swapped", i, k), join(parts...))
		}
	}
	// same-index segment of another stream (other salt / nonce prefix, same key and plaintext)
	other := c.StreamEncrypt(ref.KeyBytes("c07-salt2", c.KeySize), ref.KeyBytes("c07-prefix2", 7), aad, pt)
	for i := range segs {
		b := bytes.Clone(ct)
		copy(b[segs[i][0]:segs[i][1]], other[segs[i][0]:segs[i][1]])
		add(fmt.Sprintf("segment %d taken from another stream", i), b)
	}
	// same-index segment from a stream with the same salt/prefix but other plaintext length (last-flag confusion)
	longer := c.StreamEncrypt(salt, prefix, aad, plain(L+c.OtherPlain()+1))
	if len(longer) > segs[len(segs)-1][1] {
		// the longer stream's segment at the last index is a NON-last full segment: cut the longer stream there
		ls := c.StreamSegments(L + c.OtherPlain() + 1)
		add("longer stream cut after a full non-last segment", bytes.Clone(longer[:ls[len(segs)-1][1]]))
	}
	// header replaced
	add("header of another stream", join(other[:c.HeaderLen()], ct[c.HeaderLen():]))
	b := bytes.Clone(ct)
	b[0]++
	add("header length byte +1", b)
	// appended data
	S := c.OtherPlain()
	for n := 1; n <= S+1; n++ {
		if !thorough && n > 3 && n < S-1 {
			continue
		}
		add(fmt.Sprintf("%d zero bytes appended", n), join(ct, make([]byte, n)))
	}
	add("whole stream appended again", join(ct, ct))
	add("last segment appended again", join(ct, seg(len(segs)-1)))
	add("stream of the empty plaintext appended", join(ct, c.StreamEncrypt(salt, prefix, aad, nil)[c.HeaderLen():]))
	// other associated data / other key
	for _, a := range [][]byte{[]byte("aad-6"), []byte("aad-5x"), {}, []byte("x")} {
		if !bytes.Equal(a, aad) {
			ms = append(ms, manip{fmt.Sprintf("read with associated data %q", a), ct, a})
		}
	}
	c2 := c
	c2.MainKey = ref.KeyBytes("c07-foreign", len(c.MainKey))
	add("stream made with another key", c2.StreamEncrypt(salt, prefix, aad, pt))
	return ms
}

func manipSection(x *h.X) {
	cs := configs(x.Thorough())
	ci := x.Choose("config", len(cs))
	c := cs[ci]
	x.Label(c.String())
	F, S := c.FirstPlain(), c.OtherPlain()
	base := []int{0, 1, F, F + 1, F + S, F + S + 1}
	if x.Thorough() {
		base = []int{0, 1, F - 1, F, F + 1, F + S - 1, F + S, F + S + 1, F + 2*S, F + 2*S + 1}
	}
	L := h.Pick(x, "plaintext-length", base)
	if L < 0 {
		return
	}
	aad := aads[x.Choose("aad", 2)]
	keys := 0
	if c.Path == "keyset" {
		keys = x.Choose("extra-keys", 2)
	}
	p, err := build(c, keys, keys)
	if err != nil {
		x.Fail("construct", "%v: %v", c, err)
		return
	}
	pt := plain(L)
	ms := catalogue(c, aad, L, x.Thorough())
	x.NonTrivial()
	readSizes := []int{1, S, L + S + 10}
	for _, m := range ms {
		for _, rs := range readSizes {
			for pol := 0; pol < 2; pol++ {
				src := env.NewScriptReader(m.ct)
				setPolicy(src, pol)
				x.Eval(1)
				panicked, pmsg := h.Try(func() {
					r, err := p.NewDecryptingReader(src, m.aad)
					if err != nil {
						// any constructor error is a rejection (the caller never obtains a reader); which error value
						// it is (io.EOF for an empty stream) is not constrained by the property
						x.Outcome("rejected-by-constructor")
						return
					}
					out := 0
					buf := make([]byte, rs)
					for steps := 0; ; steps++ {
						n, err := r.Read(buf)
						if n > 0 && (out+n > L || !bytes.Equal(buf[:n], pt[out:out+n])) {
							x.Fail("unauthentic-plaintext", "%v len=%d [%s] read=%d src=%s: delivered bytes that are not a prefix of the original plaintext at offset %d: %x", c, L, m.name, rs, policies[pol], out, buf[:n])
							return
						}
						out += n
						if err == io.EOF {
							x.Fail("clean-eof-on-manipulated-stream", "%v len=%d [%s] read=%d src=%s: clean io.EOF after %d plaintext bytes", c, L, m.name, rs, policies[pol], out)
							return
						}
						if err != nil {
							x.Outcome("rejected-after-prefix")
							return
						}
						if steps > L+len(m.ct)+16 {
							x.Fail("no-progress", "%v len=%d [%s]: neither error nor EOF within the horizon", c, L, m.name)
							return
						}
					}
				})
				if panicked {
					x.Fail("panic", "%v len=%d [%s]: panic: %s", c, L, m.name, pmsg)
				}
			}
		}
	}
}

// ---- fault enumeration (E4) ---------------------------------------------------------------------

func writerFaultSection(x *h.X) {
	cs := configs(x.Thorough())
	c := cs[x.Choose("config", len(cs))]
	x.Label(c.String())
	F, S := c.FirstPlain(), c.OtherPlain()
	L := h.Pick(x, "plaintext-length", []int{0, 1, F, F + 1, F + S, F + 2*S + 1})
	parts := h.Pick(x, "write-partition", []string{"one Write", "1-byte Writes", "S+1-byte Writes", "F then rest", "no Write"})
	if parts == "no Write" && L != 0 {
		return
	}
	p, err := build(c, 0, 0)
	if err != nil {
		x.Fail("construct", "%v", err)
		return
	}
	pt := plain(L)
	var chunks [][]byte
	switch parts {
	case "one Write":
		chunks = [][]byte{pt}
	case "1-byte Writes":
		for i := range pt {
			chunks = append(chunks, pt[i:i+1])
		}
	case "S+1-byte Writes":
		for i := 0; i < L; i += S + 1 {
			chunks = append(chunks, pt[i:min(L, i+S+1)])
		}
	case "F then rest":
		chunks = [][]byte{pt[:min(F, L)], pt[min(F, L):]}
	}
	x.NonTrivial()
	// number of underlying Write calls in the fault-free run
	probe := env.NewScriptWriter()
	w, err := p.NewEncryptingWriter(probe, nil)
	if err != nil {
		x.Fail("construct", "%v", err)
		return
	}
	for _, ch := range chunks {
		w.Write(ch)
	}
	w.Close()
	calls := probe.Calls
	for kk := 0; kk < 2*calls; kk++ {
		k := kk % calls
		x.Eval(1)
		sink := env.NewScriptWriter()
		sink.FailFrom = k
		sink.FullCount = kk >= calls // second pass: the failing writer reports the full count together with its error
		surfaced := ""
		panicked, pmsg := h.Try(func() {
			w, err := p.NewEncryptingWriter(sink, nil)
			if err != nil {
				surfaced = "constructor"
				return
			}
			for _, ch := range chunks {
				if _, err := w.Write(ch); err != nil {
					surfaced = "Write"
					return
				}
			}
			if err := w.Close(); err != nil {
				surfaced = "Close"
			}
		})
		if panicked {
			x.Fail("panic", "%v: panic with the underlying writer failing from call %d: %s", c, k, pmsg)
			continue
		}
		if sink.Failed == 0 {
			x.Fail("harness", "fault at call %d was never reached (calls=%d)", k, calls)
			continue
		}
		if surfaced == "" {
			x.Fail("writer-fault-swallowed", "%v len=%d partition=%q: underlying writer failed persistently from its call %d (of %d) but constructor, every Write and Close reported success", c, L, parts, k, calls)
		}
		x.Outcome("surfaced-by-" + surfaced)
	}
}

func readerFaultSection(x *h.X) {
	cs := configs(x.Thorough())
	c := cs[x.Choose("config", len(cs))]
	x.Label(c.String())
	F, S := c.FirstPlain(), c.OtherPlain()
	L := h.Pick(x, "plaintext-length", []int{0, 1, F, F + 1, F + S, F + 2*S + 1})
	rs := h.Pick(x, "read-size", []int{1, S + 1, L + S + 10})
	pol := x.Choose("source-policy", 2)
	keys := 0
	if c.Path == "keyset" {
		keys = x.Choose("extra-keys", 2)
	}
	p, err := build(c, keys, keys)
	if err != nil {
		x.Fail("construct", "%v", err)
		return
	}
	pt := plain(L)
	salt, prefix := fixedSalt(c)
	ct := c.StreamEncrypt(salt, prefix, nil, pt)
	x.NonTrivial()
	for k := 0; k <= len(ct); k++ {
		x.Eval(1)
		src := env.NewScriptReader(ct)
		src.FailAt = k
		setPolicy(src, pol)
		panicked, pmsg := h.Try(func() {
			r, err := p.NewDecryptingReader(src, nil)
			if err != nil {
				x.Outcome("surfaced-by-constructor")
				return
			}
			out := 0
			buf := make([]byte, rs)
			for steps := 0; steps < L+len(ct)+16; steps++ {
				n, err := r.Read(buf)
				if n > 0 && (out+n > L || !bytes.Equal(buf[:n], pt[out:out+n])) {
					x.Fail("wrong-plaintext", "%v len=%d source failing at offset %d: wrong bytes delivered at plaintext offset %d", c, L, k, out)
					return
				}
				out += n
				if err == io.EOF {
					x.Fail("reader-fault-swallowed", "%v len=%d read=%d src=%s: source failed persistently at byte offset %d (of %d) but the reader ended with a clean io.EOF after %d plaintext bytes", c, L, rs, policies[pol], k, len(ct), out)
					return
				}
				if err != nil {
					x.Outcome("surfaced-by-Read")
					return
				}
			}
			x.Fail("no-progress", "%v len=%d source failing at %d: neither error nor EOF within the horizon", c, L, k)
		})
		if panicked {
			x.Fail("panic", "%v: panic with the source failing at offset %d: %s", c, k, pmsg)
		}
	}
}

// ---- production-size segments (E1): 4 KiB and 1 MiB, the sizes of the key templates -------------------------
// The BFS sections use tiny segments so that the state graph closes; this section runs the real template sizes
// over write / read partitions around the segment boundaries, against the reference codec in both directions.
func largeSegmentSection(x *h.X) {
	type big struct {
		name string
		c    cfg
	}
	mkBig := func(scheme string, ks int, seg int, tagAlg string, tag int) cfg {
		c := mk(scheme, ks, ks, "SHA256", tagAlg, tag, 0, 0, "keyset")
		c.SegmentSize = seg
		return c
	}
	bigs := []big{{"AES128-GCM-HKDF-4KB", mkBig("GCMHKDF", 16, 4096, "", 16)}, {"AES256-CTR-HMAC-SHA256-4KB", mkBig("CTRHMAC", 32, 4096, "SHA256", 32)},
		{"AES256-GCM-HKDF-1MB", mkBig("GCMHKDF", 32, 1<<20, "", 16)}, {"AES128-CTR-HMAC-SHA256-1MB", mkBig("CTRHMAC", 16, 1<<20, "SHA256", 32)}}
	b := bigs[x.Choose("config", len(bigs))]
	c := b.c
	x.Label(b.name)
	F, S := c.FirstPlain(), c.OtherPlain()
	lens := []int{F - 1, F, F + 1, F + S, F + S + 1, F + 2*S + 17}
	if c.SegmentSize > 1<<16 {
		lens = []int{F + 1}
		if x.Thorough() {
			lens = []int{F, F + 1, F + S + 1}
		}
	}
	L := h.Pick(x, "plaintext-length", lens)
	wpart := h.Pick(x, "write-chunk", []int{0, S - 1, S + 1, 1000, F}) // 0 = one Write
	rpart := h.Pick(x, "read-chunk", []int{0, S + 1, 1000, 4096})      // 0 = io.ReadAll
	p, err := build(c, 1, 1)
	if err != nil {
		x.Fail("construct", "%s: %v", b.name, err)
		return
	}
	x.NonTrivial()
	pt := plain(L)
	aad := []byte("aad-5")
	var sink bytes.Buffer
	w, err := p.NewEncryptingWriter(&sink, aad)
	if err != nil {
		x.Fail("construct", "%s: NewEncryptingWriter: %v", b.name, err)
		return
	}
	for off := 0; off < L || (L == 0 && off == 0); {
		n := L - off
		if wpart > 0 && wpart < n {
			n = wpart
		}
		if m, err := w.Write(pt[off : off+n]); err != nil || m != n {
			x.Fail("write-result", "%s len=%d: Write(%d) = (%d, %v)", b.name, L, n, m, err)
			return
		}
		off += n
		if L == 0 {
			break
		}
	}
	if err := w.Close(); err != nil {
		x.Fail("close-error", "%s len=%d: %v", b.name, L, err)
		return
	}
	x.Eval(1)
	if got, err := c.StreamDecrypt(aad, sink.Bytes()); err != nil || !bytes.Equal(got, pt) {
		x.Fail("format", "%s len=%d write-chunk=%d: independent decoder fails on tink's stream: %v", b.name, L, wpart, err)
	}
	// tink decodes the reference stream, read in chunks
	salt, prefix := fixedSalt(c)
	ct := c.StreamEncrypt(salt, prefix, aad, pt)
	for _, stream := range [][]byte{ct, sink.Bytes()} {
		r, err := p.NewDecryptingReader(bytes.NewReader(stream), aad)
		if err != nil {
			x.Fail("construct", "%s: NewDecryptingReader: %v", b.name, err)
			return
		}
		var out []byte
		if rpart == 0 {
			out, err = io.ReadAll(r)
		} else {
			buf := make([]byte, rpart)
			for {
				n, e := r.Read(buf)
				out = append(out, buf[:n]...)
				if e == io.EOF {
					break
				}
				if e != nil {
					err = e
					break
				}
			}
		}
		x.Eval(1)
		if err != nil || !bytes.Equal(out, pt) {
			x.Fail("wrong-plaintext", "%s len=%d read-chunk=%d: reading a valid stream gives %d bytes, err=%v", b.name, L, rpart, len(out), err)
		}
	}
	// truncation at the last segment boundary and one flipped byte in the middle must not end in clean EOF
	segs := c.StreamSegments(L)
	for _, bad := range [][]byte{ct[:segs[len(segs)-1][0]], func() []byte { b := bytes.Clone(ct); b[len(b)/2] ^= 1; return b }()} {
		r, err := p.NewDecryptingReader(bytes.NewReader(bad), aad)
		if err != nil {
			continue
		}
		out, err := io.ReadAll(r)
		x.Eval(1)
		if err == nil {
			x.Fail("clean-eof-on-manipulated-stream", "%s len=%d: manipulated stream read to a clean EOF (%d bytes)", b.name, L, len(out))
		} else if len(out) > L || !bytes.Equal(out, pt[:len(out)]) {
			x.Fail("unauthentic-plaintext", "%s len=%d: bytes delivered before the error are not a plaintext prefix", b.name, L)
		}
	}
}

func main() {
	if os.Getenv("VERIF_C07_DEBUG") != "" {
		fmt.Println(len(configs(false)), len(configs(true)))
	}
	h.Main("C07", "model_checking",
		"per configuration (scheme x derived key size x HKDF hash x tag alg/size x segment size with a 1-byte first segment x first-segment offset x subtle/keyset path): (1) writer BFS to fixpoint over Write(n) for every n in 0..S+2 and {2S,2S+1,3S+1} and Close, state = reflective dump of the writer + emitted bytes, emitted stream byte-identical to the reference encoding and decoded by the reference; (2) reader BFS to fixpoint per plaintext length over Read(len) x source answer policy {all, 1 byte, 2 bytes, half, n>0 with io.EOF} (and constructor policy), single key and keysets of 1..3 keys with the real key at every position, state = dump of the reader (incl. decryptReader/unreader) + source offset, output always a plaintext prefix, EOF exactly at the end, completion probe from every state; (3) manipulation catalogue (every truncation, every byte altered, segments dropped/duplicated/swapped/foreign, last-flag confusion, appended data, header edits, other AD, other key) x read sizes x source policies: error instead of clean EOF and only plaintext-prefix bytes before it; (4) persistent fault of the underlying writer from every call index and of the underlying reader at every byte offset must surface; (5) the public segmenting layer subtle/noncebased driven directly with a recording reference segment cipher through both dispatch paths (with / without the WithDst fast path): segment boundaries and nonces prefix||be32(i)||last exact for every write chunking, plaintext exact for every read chunking, every truncation / byte flip / segment drop, swap, duplication rejected.",
		[]h.Section{
			{Name: "writer-bfs", Body: writerSection, Bound: -1},
			{Name: "reader-bfs", Body: readerSection, Bound: -1},
			{Name: "manipulation", Body: manipSection, Bound: -1},
			{Name: "writer-faults", Body: writerFaultSection, Bound: -1},
			{Name: "reader-faults", Body: readerFaultSection, Bound: -1},
			{Name: "template-size-segments", Body: largeSegmentSection, Bound: -1},
			{Name: "many-segments", Body: manySegmentsSection, Bound: -1},
			{Name: "keyset-mixed-segment-sizes", Body: mixedSegmentsSection, Bound: -1},
			{Name: "noncebased-custom", Body: nonceBasedSection, Bound: -1},
			{Name: "interleaved-streams", Body: interleavedSection, Bound: -1},
		})
}
