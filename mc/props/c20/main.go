// C20: randomized operations draw fresh, full-length randomness on every call.
//
// The statement is distributional (never repeat, uniform in every byte position). Under the single recorded
// assumption "the OS CSPRNG behind crypto/rand is uniform and non-repeating" it is implied by the DATAFLOW LAW,
// which is decidable and is decided here exhaustively with the deterministic entropy tape (engine E4: fault /
// answer enumeration over the entropy source, package verif/tape installed underneath crypto/rand):
//
//	L1 identity fields   the IV / nonce / salt / nonce-prefix field of every output, every generated symmetric
//	                     key, seed and key id is EXACTLY the bytes served by the entropy source during that very
//	                     call: the fields tile the drawn stream (in order, full length, every position, nothing
//	                     drawn that is not used, nothing used that was not drawn) - for the tape contents counter
//	                     stream, all-00, all-FF and, for every field position p, a stream carrying a distinguished
//	                     value only at the offset that feeds p
//	L2 disjointness      successive calls (histories of 1..4 calls, same and different plaintexts, two primitives
//	                     interleaved on one tape) consume disjoint, consecutive tape ranges; with a counter tape all
//	                     fields of a history are pairwise distinct
//	L3 no draw elsewhere Decrypt / Verify / reading draw nothing
//	L4 injective images  where the output is a function of the draw (ephemeral KEM keys, EC / ML-DSA / SLH-DSA key
//	                     pairs, randomized signatures): same tape => same output; a tape differing in any ONE
//	                     drawn byte (in a bit the scheme does not discard by specification) => different output;
//	                     where a public derandomized function exists (X25519 base mult, ML-KEM Encaps_internal,
//	                     ML-DSA Sign_internal via stdlib, EMSA-PSS salt recovery) the output equals that
//	                     function of the drawn bytes
//
// Don't care: how many Read calls a field is assembled from; the order in which the fields of one call are
// drawn; bits a scheme discards by specification (X25519 clamping, P-521 excess bits, RSA prime top/low bits);
// draws made while BUILDING a primitive or key object (not part of an operation's output).
package main

import (
	"bytes"
	"fmt"
	"sync"

	"verif/h"
	"verif/tape"
)

const assumption = "the OS CSPRNG behind crypto/rand is uniform and non-repeating (the distributional half of C20 is reduced to the dataflow law under this assumption); the Go standard library's wiring of crypto/rand, ecdh/ecdsa/rsa/mlkem key generation and hedged ECDSA signing onto that source (crypto/internal/fips140/drbg.Read) is trusted, with godebug cryptocustomrand=0"

// ---------------------------------------------------------------------------------------------------
// tape contents

type content struct {
	name string
	src  func(off int) byte
}

func (c content) String() string { return c.name }

func counterSrc(off int) byte { return tape.CounterSrc(off) }

var (
	cCounter = content{"counter", counterSrc}
	cZero    = content{"all-00", func(off int) byte { return finite(off, 0) }}
	cOnes    = content{"all-FF", func(off int) byte { return finite(off, 0xff) }}
)

// finite: constant backgrounds hold for the first 16 KiB of a tape only, then the counter stream takes over — an
// implementation that rejects degenerate draws (a zero id, a scalar out of range) and draws again must terminate.
func finite(off int, bg byte) byte {
	if off >= 1<<14 {
		return tape.CounterSrc(off)
	}
	return bg
}

// distinguished: background bg everywhere, value v at absolute offset target.
func distinguished(target int, v, bg byte) content {
	return content{fmt.Sprintf("dist@%d=%02x/bg%02x", target, v, bg), func(off int) byte {
		if off == target {
			return v
		}
		return finite(off, bg)
	}}
}

// flipped: the counter stream with one byte (absolute offset target) XOR mask.
func flipped(target int, mask byte) content {
	return content{fmt.Sprintf("counter^%02x@%d", mask, target), func(off int) byte {
		b := tape.CounterSrc(off)
		if off == target {
			b ^= mask
		}
		return b
	}}
}

// identityContents: counter, all-00, all-FF and one distinguished stream per position of the first `span`
// tape bytes (values: quick one value per position and background, thorough four).
func identityContents(span int, thorough bool) []content {
	out := []content{cCounter, cZero, cOnes}
	vals := []byte{0xD7}
	if thorough {
		vals = []byte{0x01, 0x80, 0xD7, 0xFF}
	}
	for t := 0; t < span; t++ {
		for _, v := range vals {
			out = append(out, distinguished(t, v, 0x00))
		}
		out = append(out, distinguished(t, 0x00, 0xFF))
	}
	return out
}

// ---------------------------------------------------------------------------------------------------
// the bound tape of one section body

type env struct {
	x  *h.X
	tp *tape.Tape
}

// begin binds a fresh tape to the calling goroutine; the caller must `defer tape.Unbind()`.
func begin(x *h.X) *env {
	note()
	tp := tape.NewTape(nil)
	tape.Bind(tp)
	return &env{x: x, tp: tp}
}

// load rewinds the tape and installs the content.
func (e *env) load(c content) {
	e.tp.Rewind()
	e.tp.Src = c.src
}

// call runs f and returns the draws it made and the bytes they served (concatenated in order).
func (e *env) call(f func()) ([]tape.Draw, []byte) {
	m := e.tp.Mark()
	f()
	ds := e.tp.Since(m)
	var stream []byte
	for _, d := range ds {
		stream = append(stream, e.tp.Bytes(d.Off, d.N)...)
	}
	return ds, stream
}

// quiet runs f and requires that it draws nothing (L3).
func (e *env) quiet(what, cfg string, f func()) {
	ds, _ := e.call(f)
	if len(ds) != 0 {
		e.x.Fail("draw-outside-randomized-op", "%s: %s drew from the entropy source: %v", cfg, what, ds)
	}
}

type field struct {
	name string
	b    []byte
}

// tile decides L1 for one call: every field is a contiguous run of the bytes drawn in this call, and the runs of
// different fields are pairwise disjoint (each field position is fed by its own drawn byte). Drawn bytes that end
// up in no field are allowed: drawing more entropy than is used is harmless and not constrained by the property.
// Decision procedure: some ORDER of the fields can be laid out left to right, each field at the leftmost matching
// offset after the previous one (leftmost placement is optimal for a fixed order); all orders are tried for up to
// 7 fields, the given order and its reverse beyond that.
func tile(stream []byte, fields []field) (bool, string) {
	var fs []field
	for _, f := range fields {
		if len(f.b) > 0 {
			fs = append(fs, f)
		}
	}
	try := func(order []int) bool {
		pos := 0
		for _, fi := range order {
			f := fs[fi]
			i := bytes.Index(stream[pos:], f.b)
			if i < 0 {
				return false
			}
			pos += i + len(f.b)
		}
		return true
	}
	n := len(fs)
	order := make([]int, n)
	for i := range order {
		order[i] = i
	}
	if n > 7 {
		rev := make([]int, n)
		for i := range rev {
			rev[i] = n - 1 - i
		}
		if try(order) || try(rev) {
			return true, ""
		}
	} else {
		var perm func(k int) bool
		perm = func(k int) bool {
			if k == n {
				return try(order)
			}
			for i := k; i < n; i++ {
				order[k], order[i] = order[i], order[k]
				if perm(k + 1) {
					return true
				}
				order[k], order[i] = order[i], order[k]
			}
			return false
		}
		if perm(0) {
			return true, ""
		}
	}
	var desc []string
	for _, f := range fs {
		desc = append(desc, fmt.Sprintf("%s=%x", f.name, f.b))
	}
	return false, fmt.Sprintf("the fields %v cannot be laid out as pairwise disjoint runs of the bytes drawn in this call (drawn=%x)", desc, stream)
}

// consecutive decides the range half of L2: the draws of a history start where the previous call ended.
func consecutive(x *h.X, cfg string, prevEnd int, ds []tape.Draw) int {
	for _, d := range ds {
		if d.Off != prevEnd {
			x.Fail("tape-range", "%s: draw %v does not continue the tape at offset %d", cfg, d, prevEnd)
		}
		prevEnd = d.Off + d.N
	}
	return prevEnd
}

func total(ds []tape.Draw) int {
	n := 0
	for _, d := range ds {
		n += d.N
	}
	return n
}

// distinct requires pairwise different byte strings.
func distinct(x *h.X, key, cfg, what string, vals [][]byte) {
	for i := range vals {
		for j := i + 1; j < len(vals); j++ {
			if bytes.Equal(vals[i], vals[j]) {
				x.Fail(key, "%s: %s of calls %d and %d are equal: %x", cfg, what, i, j, vals[i])
				return
			}
		}
	}
}

func main() {
	h.Main("C20", "exploration",
		"for every randomized operation (AEAD Encrypt of every key type, variant and construction path incl. aead/subtle and the three KMS-envelope constructions; NewEncryptingWriter of both streaming schemes via keyset and subtle; HPKE encapsulation for X25519, P-256/384/521, ML-KEM-768/1024, X-Wing; ECIES ephemeral key + DEM IV; keyset.Manager.Add key ids incl. forced collisions; key generation through keyset.NewHandle(template) and Manager.AddNewKeyFromParameters for every key type with secret material; ML-DSA, SLH-DSA, ECDSA, RSA-PSS signing) x entropy-tape contents (counter, all-00, all-FF, one distinguished stream per field position and value set) x call histories (1..4 calls, same/different plaintexts, two primitives interleaved): the random fields tile the bytes drawn in that call, calls use consecutive disjoint tape ranges, inverse operations draw nothing, function-type outputs are reproducible and change with every single drawn byte. Non-trivial = at least one randomized call was judged; distinct = distinct choice vectors.",
		sections())
}

var assumeOnce sync.Once

// note records the assumption in the evidence (h.Assume needs the run created by h.Main).
func note() { assumeOnce.Do(func() { h.Assume(assumption) }) }

func sections() []h.Section {
	return []h.Section{
		{Name: "aead-nonce", Body: aeadSection, Bound: -1},
		{Name: "kms-envelope", Body: envelopeSection, Bound: -1},
		{Name: "streaming-header", Body: streamSection, Bound: -1},
		{Name: "hpke-encapsulation", Body: hpkeSection, Bound: -1},
		{Name: "ecies-ephemeral", Body: eciesSection, Bound: -1},
		{Name: "key-ids", Body: keyIDSection, Bound: -1},
		{Name: "key-ids-imported-manager", Body: keyIDImportedSection, Bound: -1},
		{Name: "key-generation", Body: keygenSection, Bound: -1},
		{Name: "signatures", Body: signSection, Bound: -1},
		{Name: "entropy-source-short-reads", Body: shortReadsSection, Bound: -1, Serial: true},
	}
}
