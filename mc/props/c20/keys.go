package main

import (
	"bytes"
	"encoding/binary"
	"fmt"
	"strings"
	"sync"

	"google.golang.org/protobuf/proto"

	"github.com/tink-crypto/tink-go/v2/core/registry"

	"github.com/tink-crypto/tink-go/v2/aead"
	aeadctrhmac "github.com/tink-crypto/tink-go/v2/aead/aesctrhmac"
	"github.com/tink-crypto/tink-go/v2/aead/aesgcm"
	"github.com/tink-crypto/tink-go/v2/aead/aesgcmsiv"
	"github.com/tink-crypto/tink-go/v2/aead/chacha20poly1305"
	"github.com/tink-crypto/tink-go/v2/aead/xaesgcm"
	"github.com/tink-crypto/tink-go/v2/aead/xchacha20poly1305"
	"github.com/tink-crypto/tink-go/v2/daead"
	"github.com/tink-crypto/tink-go/v2/daead/aessiv"
	"github.com/tink-crypto/tink-go/v2/hybrid"
	"github.com/tink-crypto/tink-go/v2/hybrid/ecies"
	"github.com/tink-crypto/tink-go/v2/hybrid/hpke"
	"github.com/tink-crypto/tink-go/v2/insecuresecretdataaccess"
	"github.com/tink-crypto/tink-go/v2/jwt"
	"github.com/tink-crypto/tink-go/v2/jwt/jwtecdsa"
	"github.com/tink-crypto/tink-go/v2/jwt/jwthmac"
	"github.com/tink-crypto/tink-go/v2/jwt/jwtmldsa"
	"github.com/tink-crypto/tink-go/v2/jwt/jwtrsassapkcs1"
	"github.com/tink-crypto/tink-go/v2/jwt/jwtrsassapss"
	"github.com/tink-crypto/tink-go/v2/key"
	"github.com/tink-crypto/tink-go/v2/keyderivation"
	"github.com/tink-crypto/tink-go/v2/keyderivation/prfbasedkeyderivation"
	"github.com/tink-crypto/tink-go/v2/keyset"
	"github.com/tink-crypto/tink-go/v2/mac"
	"github.com/tink-crypto/tink-go/v2/mac/aescmac"
	"github.com/tink-crypto/tink-go/v2/mac/hmac"
	"github.com/tink-crypto/tink-go/v2/prf"
	"github.com/tink-crypto/tink-go/v2/prf/aescmacprf"
	"github.com/tink-crypto/tink-go/v2/prf/hkdfprf"
	"github.com/tink-crypto/tink-go/v2/prf/hmacprf"
	tinkpb "github.com/tink-crypto/tink-go/v2/proto/tink_go_proto"
	"github.com/tink-crypto/tink-go/v2/secretdata"
	"github.com/tink-crypto/tink-go/v2/signature"
	"github.com/tink-crypto/tink-go/v2/signature/compositemldsa"
	"github.com/tink-crypto/tink-go/v2/signature/ecdsa"
	"github.com/tink-crypto/tink-go/v2/signature/ed25519"
	"github.com/tink-crypto/tink-go/v2/signature/mldsa"
	"github.com/tink-crypto/tink-go/v2/signature/rsassapkcs1"
	"github.com/tink-crypto/tink-go/v2/signature/rsassapss"
	"github.com/tink-crypto/tink-go/v2/signature/slhdsa"
	"github.com/tink-crypto/tink-go/v2/streamingaead"
	sctrhmac "github.com/tink-crypto/tink-go/v2/streamingaead/aesctrhmac"
	sgcmhkdf "github.com/tink-crypto/tink-go/v2/streamingaead/aesgcmhkdf"
	"github.com/tink-crypto/tink-go/v2/verifbridge/vb"
	"verif/h"
	"verif/tape"
	"verif/tk"
)

var tok = insecuresecretdataaccess.Token{}

func idBytes(v uint32, le bool) []byte {
	if le {
		var b [4]byte
		binary.LittleEndian.PutUint32(b[:], v)
		return b[:]
	}
	return be32(v)
}

func be32(v uint32) []byte { var b [4]byte; binary.BigEndian.PutUint32(b[:], v); return b[:] }

// ---------------------------------------------------------------------------------------------------
// key ids

const (
	legacyEntry = "Manager.Add(template of a key-manager-only key type)"
	legacyURL   = "type.googleapis.com/verif.c20.KeyManagerOnlyKey"
)

type legacyKM struct{}

func (legacyKM) Primitive([]byte) (any, error)        { return nil, fmt.Errorf("no primitive") }
func (legacyKM) NewKey([]byte) (proto.Message, error) { return nil, fmt.Errorf("unsupported") }
func (legacyKM) DoesSupport(u string) bool            { return u == legacyURL }
func (legacyKM) TypeURL() string                      { return legacyURL }
func (legacyKM) NewKeyData([]byte) (*tinkpb.KeyData, error) {
	return &tinkpb.KeyData{TypeUrl: legacyURL, Value: []byte{1, 2, 3, 4, 5, 6, 7, 8}, KeyMaterialType: tinkpb.KeyData_SYMMETRIC}, nil
}

var legacyKMOnce sync.Once

func registerLegacyKM() {
	legacyKMOnce.Do(func() {
		if err := registry.RegisterKeyManager(legacyKM{}); err != nil {
			panic(err)
		}
	})
}

func keyIDSection(x *h.X) {
	entry := h.Pick(x, "entry-point", []string{"Manager.Add", "Manager.AddNewKeyFromParameters", "keyset.NewHandle", "Manager.AddKey(key without id requirement)", legacyEntry})
	variant := h.Pick(x, "template", []string{"AES128GCM(TINK)", "AES256GCM(RAW)"})
	e := begin(x)
	defer tape.Unbind()
	kt := aead.AES128GCMKeyTemplate()
	ksize := 16
	if variant == "AES256GCM(RAW)" {
		kt, ksize = aead.AES256GCMNoPrefixKeyTemplate(), 32
	}
	params, err := vb.ParseParameters(kt)
	if err != nil {
		x.Fail("setup", "%v", err)
		return
	}
	if entry == "Manager.AddKey(key without id requirement)" && variant != "AES256GCM(RAW)" {
		return
	}
	if entry == legacyEntry {
		// a key type served only by a registry.KeyManager (no parameters parser): Manager.Add takes its legacy route
		if variant != "AES128GCM(TINK)" {
			return
		}
		registerLegacyKM()
	}
	rawParams, _ := aesgcm.NewParameters(aesgcm.ParametersOpts{KeySizeInBytes: 32, IVSizeInBytes: 12, TagSizeInBytes: 16, Variant: aesgcm.VariantNoPrefix})
	fixedKey, _ := aesgcm.NewKey(secretdata.NewBytesFromData(bytes.Repeat([]byte{7}, 32), tok), 0, rawParams)
	// add performs one id-consuming operation on km (nil: a fresh keyset through keyset.NewHandle) and returns
	// the id and the resulting key object.
	add := func(km *keyset.Manager) (uint32, key.Key, error) {
		var id uint32
		var err error
		switch entry {
		case "Manager.Add":
			id, err = km.Add(kt)
		case legacyEntry:
			id, err = km.Add(&tinkpb.KeyTemplate{TypeUrl: legacyURL, OutputPrefixType: tinkpb.OutputPrefixType_TINK})
		case "Manager.AddNewKeyFromParameters":
			id, err = km.AddNewKeyFromParameters(params)
		case "Manager.AddKey(key without id requirement)":
			id, err = km.AddKey(fixedKey)
		case "keyset.NewHandle":
			hd, err := keyset.NewHandle(kt)
			if err != nil {
				return 0, nil, err
			}
			p, err := hd.Primary()
			if err != nil {
				return 0, nil, err
			}
			return p.KeyID(), p.Key(), nil
		}
		if err != nil {
			return 0, nil, err
		}
		hd, err := km.Handle()
		if err != nil {
			// no primary yet: set it
			if err2 := km.SetPrimary(id); err2 != nil {
				return 0, nil, err2
			}
			if hd, err = km.Handle(); err != nil {
				return 0, nil, err
			}
		}
		for i := 0; i < hd.Len(); i++ {
			en, _ := hd.Entry(i)
			if en.KeyID() == id {
				return id, en.Key(), nil
			}
		}
		return 0, nil, fmt.Errorf("id %#x not in the handle", id)
	}
	fieldsOf := func(id uint32, k key.Key, le bool) []field {
		fs := []field{{"key id", idBytes(id, le)}}
		if entry != "Manager.AddKey(key without id requirement)" && entry != legacyEntry {
			fs = append(fs, field{"key material", k.(*aesgcm.Key).KeyBytes().Data(tok)})
		}
		return fs
	}
	x.NonTrivial()
	x.Outcome(entry)
	span := 4 + ksize
	// L1/L2: the id is the big-endian value of four drawn bytes for every tape content (every position
	// distinguished; all-00 gives id 0, all-FF gives 0xFFFFFFFF), the key material the other drawn bytes
	for _, tc := range identityContents(span, x.Thorough()) {
		cfg := fmt.Sprintf("%s %s tape=%v", entry, variant, tc)
		e.load(tc)
		km := keyset.NewManager()
		var id uint32
		var k key.Key
		var err error
		ds, stream := e.call(func() { id, k, err = add(km) })
		x.Eval(1)
		if err != nil {
			x.Fail("keygen-error", "%s: %v", cfg, err)
			return
		}
		// byte order of the id is not part of the property (any bijection of the 4 drawn bytes spreads uniformly):
		// big- and little-endian readings are both accepted
		ok, why := tile(stream, fieldsOf(id, k, false))
		if !ok {
			ok, _ = tile(stream, fieldsOf(id, k, true))
		}
		if !ok {
			x.Fail("id-not-drawn-bytes", "%s: id %#x / key material are not the entropy drawn in this call (draws %v): %s", cfg, id, ds, why)
			return
		}
		if idr, req := k.IDRequirement(); req && idr != id {
			x.Fail("id-requirement", "%s: key requires id %#x but got keyset id %#x", cfg, idr, id)
		}
	}
	// every byte value at every id position (the id draw is located on a counter run, then scripted)
	e.load(cCounter)
	var idDraw = -1
	{
		km := keyset.NewManager()
		m := e.tp.Mark()
		id, _, err := add(km)
		if err != nil {
			x.Fail("keygen-error", "%s: %v", entry, err)
			return
		}
		for i, d := range e.tp.Since(m) {
			if d.N == 4 && (bytes.Equal(e.tp.Bytes(d.Off, 4), be32(id)) || bytes.Equal(e.tp.Bytes(d.Off, 4), idBytes(id, true))) {
				idDraw = i
			}
		}
		if idDraw < 0 {
			x.Fail("id-not-drawn-bytes", "%s: no 4-byte draw carries the id %#x", entry, id)
			return
		}
	}
	vals := []int{0, 1, 0x7f, 0x80, 0xfe, 0xff}
	if x.Thorough() {
		vals = nil
		for v := 0; v < 256; v++ {
			vals = append(vals, v)
		}
	}
	// The id must be an INJECTIVE image of the four drawn bytes that uses all 32 bits (then a uniform draw gives a
	// uniform id): distinct draws give distinct ids, and every id bit takes both values over the enumerated draws.
	seenDraw := map[uint32]uint32{} // id -> draw
	var orBits, andBits uint32 = 0, 0xFFFFFFFF
	for pos := 0; pos < 4; pos++ {
		for _, v := range vals {
			e.load(cCounter)
			b := []byte{0x11, 0x22, 0x33, 0x44}
			b[pos] = byte(v)
			e.tp.Answer(idDraw, b)
			id, _, err := add(keyset.NewManager())
			x.Eval(1)
			if err != nil {
				x.Fail("keygen-error", "%s %s: %v", entry, variant, err)
				return
			}
			draw := binary.BigEndian.Uint32(b)
			if prev, dup := seenDraw[id]; dup && prev != draw {
				x.Fail("id-not-drawn-bytes", "%s %s: entropy answers %08x and %08x for the id draw give the SAME id %#x: the id does not use all drawn bytes", entry, variant, prev, draw, id)
				return
			}
			seenDraw[id] = draw
			orBits |= id
			andBits &= id
		}
	}
	if orBits != 0xFFFFFFFF || andBits != 0 {
		x.Fail("id-not-drawn-bytes", "%s %s: over all enumerated id draws some id bits never change (or=%#x and=%#x): ids do not cover the 32-bit range", entry, variant, orBits, andBits)
		return
	}
	if entry == "keyset.NewHandle" {
		return
	}
	// one manager: ids of a history are pairwise distinct, also when the entropy source repeats earlier ids
	// k = 1..3 times in a row (forced collisions): a colliding draw is discarded and a fresh 4 bytes are drawn
	for k := 0; k <= 3; k++ {
		e.load(cCounter)
		km := keyset.NewManager()
		var ids []uint32
		var raws [][]byte // the four bytes whose draw produced each id (replayed verbatim to force a collision, whatever the byte order)
		m0 := e.tp.Mark()
		id0, _, err := add(km)
		if err != nil {
			x.Fail("keygen-error", "%s: %v", entry, err)
			return
		}
		ids = append(ids, id0)
		if d0 := e.tp.Since(m0); len(d0) > idDraw {
			raws = append(raws, e.tp.Bytes(d0[idDraw].Off, 4))
		} else {
			raws = append(raws, be32(id0))
		}
		for round := 0; round < 3; round++ {
			m := e.tp.Mark()
			// script: the id draw and the k-1 following draws repeat the bytes that produced ids already handed out
			for j := 0; j < k; j++ {
				e.tp.Answer(m+idDraw+j, raws[j%len(raws)])
			}
			id, _, err := add(km)
			x.Eval(1)
			if err != nil {
				x.Fail("keygen-error", "%s after %d forced collisions: %v", entry, k, err)
				return
			}
			for _, o := range ids {
				if o == id {
					x.Fail("id-repeats", "%s: manager handed out id %#x twice (entropy source repeating an earlier id %d times; ids so far %x)", entry, id, k, ids)
					return
				}
			}
			ds := e.tp.Since(m)
			n4 := 0
			for _, d := range ds {
				if d.N == 4 {
					n4++
				}
			}
			if n4 != k+1 {
				x.Fail("id-redraw", "%s: %d forced collisions must lead to %d four-byte id draws, saw %v", entry, k, k+1, ds)
			}
			// the accepted id is the big-endian value of the LAST four-byte id draw (unscripted: tape bytes)
			last := ds[idDraw+k]
			if last.N != 4 || !(bytes.Equal(e.tp.Bytes(last.Off, 4), be32(id)) || bytes.Equal(e.tp.Bytes(last.Off, 4), idBytes(id, true))) {
				x.Fail("id-not-drawn-bytes", "%s: after %d collisions id %#x is not the value of the fresh draw %v", entry, k, id, last)
			}
			ids = append(ids, id)
			raws = append(raws, e.tp.Bytes(last.Off, 4))
		}
	}
}

// ---------------------------------------------------------------------------------------------------
// key generation

// composite ML-DSA parameter sets without RSA components (3072/4096-bit RSA generation is covered by the plain RSA entries).
var compositeSets = []struct {
	name string
	alg  compositemldsa.ClassicalAlgorithm
	inst compositemldsa.MLDSAInstance
	draw int // entropy of one signature: ML-DSA rnd (32) + hedged ECDSA Z
}{
	{"ML_DSA_65_ED25519", compositemldsa.Ed25519, compositemldsa.MLDSA65, 32},
	{"ML_DSA_65_ECDSA_P256", compositemldsa.ECDSAP256, compositemldsa.MLDSA65, 32 + 32},
	{"ML_DSA_65_ECDSA_P384", compositemldsa.ECDSAP384, compositemldsa.MLDSA65, 32 + 48},
	{"ML_DSA_87_ECDSA_P384", compositemldsa.ECDSAP384, compositemldsa.MLDSA87, 32 + 48},
	{"ML_DSA_87_ECDSA_P521", compositemldsa.ECDSAP521, compositemldsa.MLDSA87, 32 + 66},
}

type genDef struct {
	name   string
	params func() (key.Parameters, error)
	slow   bool // thorough tier only
}

// heavy: expensive key generation (SLH-DSA): one distinguished value per position also in the thorough tier.
func (g genDef) heavy() bool { return strings.HasPrefix(g.name, "SLH_DSA") }

func (g genDef) String() string { return g.name }

func tmpl(f func() *tinkpb.KeyTemplate) func() (key.Parameters, error) {
	return func() (key.Parameters, error) { return vb.ParseParameters(f()) }
}

func slhName(ht slhdsa.HashType, ks int, st slhdsa.SignatureType) string {
	return fmt.Sprintf("SLH_DSA_%s_%d%s", map[slhdsa.HashType]string{slhdsa.SHA2: "SHA2", slhdsa.SHAKE: "SHAKE"}[ht], ks/4*8,
		map[slhdsa.SignatureType]string{slhdsa.FastSigning: "f", slhdsa.SmallSignature: "s"}[st])
}

func gens() []genDef {
	out := []genDef{
		{"AES128_GCM", tmpl(aead.AES128GCMKeyTemplate), false},
		{"AES256_GCM", tmpl(aead.AES256GCMKeyTemplate), false},
		{"AES256_GCM_RAW", tmpl(aead.AES256GCMNoPrefixKeyTemplate), false},
		{"AES128_GCM_SIV", tmpl(aead.AES128GCMSIVKeyTemplate), false},
		{"AES256_GCM_SIV", tmpl(aead.AES256GCMSIVKeyTemplate), false},
		{"AES128_CTR_HMAC_SHA256", tmpl(aead.AES128CTRHMACSHA256KeyTemplate), false},
		{"AES256_CTR_HMAC_SHA256", tmpl(aead.AES256CTRHMACSHA256KeyTemplate), false},
		{"CHACHA20_POLY1305", tmpl(aead.ChaCha20Poly1305KeyTemplate), false},
		{"XCHACHA20_POLY1305", tmpl(aead.XChaCha20Poly1305KeyTemplate), false},
		{"XAES_256_GCM_192", tmpl(aead.XAES256GCM192BitNonceKeyTemplate), false},
		{"XAES_256_GCM_160_RAW", tmpl(aead.XAES256GCM160BitNonceNoPrefixKeyTemplate), false},
		{"AES256_SIV", tmpl(daead.AESSIVKeyTemplate), false},
		{"HMAC_SHA256_128", tmpl(mac.HMACSHA256Tag128KeyTemplate), false},
		{"HMAC_SHA512_512", tmpl(mac.HMACSHA512Tag512KeyTemplate), false},
		{"AES_CMAC", tmpl(mac.AESCMACTag128KeyTemplate), false},
		{"HMAC_SHA256_PRF", tmpl(prf.HMACSHA256PRFKeyTemplate), false},
		{"HMAC_SHA512_PRF", tmpl(prf.HMACSHA512PRFKeyTemplate), false},
		{"HKDF_SHA256_PRF", tmpl(prf.HKDFSHA256PRFKeyTemplate), false},
		{"AES_CMAC_PRF", tmpl(prf.AESCMACPRFKeyTemplate), false},
		{"AES128_GCM_HKDF_4KB", tmpl(streamingaead.AES128GCMHKDF4KBKeyTemplate), false},
		{"AES256_GCM_HKDF_1MB", tmpl(streamingaead.AES256GCMHKDF1MBKeyTemplate), false},
		{"AES128_CTR_HMAC_SHA256_4KB", tmpl(streamingaead.AES128CTRHMACSHA256Segment4KBKeyTemplate), false},
		{"AES256_CTR_HMAC_SHA256_1MB", tmpl(streamingaead.AES256CTRHMACSHA256Segment1MBKeyTemplate), false},
		{"JWT_HS256", tmpl(jwt.HS256Template), false},
		{"JWT_HS512_RAW", tmpl(jwt.RawHS512Template), false},
		{"ED25519", tmpl(signature.ED25519KeyTemplate), false},
		{"ED25519_RAW", tmpl(signature.ED25519KeyWithoutPrefixTemplate), false},
		{"ECDSA_P256", tmpl(signature.ECDSAP256KeyTemplate), false},
		{"ECDSA_P384_SHA512", tmpl(signature.ECDSAP384SHA512KeyTemplate), false},
		{"ECDSA_P521", tmpl(signature.ECDSAP521KeyTemplate), false},
		{"JWT_ES256", tmpl(jwt.ES256Template), false},
		{"JWT_ES384", tmpl(jwt.ES384Template), true},
		{"JWT_ES512_RAW", tmpl(jwt.RawES512Template), false},
		{"ECIES_P256_AES128_GCM", tmpl(hybrid.ECIESHKDFAES128GCMKeyTemplate), false},
		{"ECIES_P256_AES128_CTR_HMAC", tmpl(hybrid.ECIESHKDFAES128CTRHMACSHA256KeyTemplate), true},
		{"PRF_BASED_DERIVER(HKDF_SHA256 -> AES128_GCM)", func() (key.Parameters, error) {
			t, err := keyderivation.CreatePRFBasedKeyTemplate(prf.HKDFSHA256PRFKeyTemplate(), aead.AES128GCMKeyTemplate())
			if err != nil {
				return nil, err
			}
			return vb.ParseParameters(t)
		}, false},
	}
	for _, d := range []struct {
		n string
		c ecies.CurveType
	}{{"P384", ecies.NISTP384}, {"P521", ecies.NISTP521}, {"X25519", ecies.X25519}} {
		d := d
		out = append(out, genDef{"ECIES_" + d.n + "_AES256_GCM", func() (key.Parameters, error) {
			dp, err := eciesDEMs[1].params()
			if err != nil {
				return nil, err
			}
			pf := ecies.UncompressedPointFormat
			if d.c == ecies.X25519 {
				pf = ecies.UnspecifiedPointFormat
			}
			return ecies.NewParameters(ecies.ParametersOpts{CurveType: d.c, HashType: ecies.SHA256, NISTCurvePointFormat: pf, DEMParameters: dp, Variant: ecies.VariantTink})
		}, false})
	}
	for _, k := range kems {
		k := k
		out = append(out, genDef{"HPKE_" + k.name, func() (key.Parameters, error) {
			return hpke.NewParameters(hpke.ParametersOpts{KEMID: k.id, KDFID: hpke.HKDFSHA256, AEADID: hpke.AES128GCM, Variant: hpke.VariantTink})
		}, false})
	}
	for _, inst := range []struct {
		n string
		i mldsa.Instance
		j jwtmldsa.Algorithm
	}{{"44", mldsa.MLDSA44, jwtmldsa.MLDSA44}, {"65", mldsa.MLDSA65, jwtmldsa.MLDSA65}, {"87", mldsa.MLDSA87, jwtmldsa.MLDSA87}} {
		inst := inst
		out = append(out, genDef{"ML_DSA_" + inst.n, func() (key.Parameters, error) { return mldsa.NewParameters(inst.i, mldsa.VariantTink) }, false})
		out = append(out, genDef{"JWT_ML_DSA_" + inst.n, func() (key.Parameters, error) { return jwtmldsa.NewParameters(jwtmldsa.IgnoredKID, inst.j) }, inst.n != "44"})
	}
	for _, c := range compositeSets {
		c := c
		out = append(out, genDef{"COMPOSITE_" + c.name, func() (key.Parameters, error) {
			return compositemldsa.NewParameters(c.alg, c.inst, compositemldsa.VariantTink)
		}, false})
	}
	for _, ht := range []slhdsa.HashType{slhdsa.SHA2, slhdsa.SHAKE} {
		for _, ks := range []int{64, 96, 128} {
			for _, st := range []slhdsa.SignatureType{slhdsa.FastSigning, slhdsa.SmallSignature} {
				ht, ks, st := ht, ks, st
				slow := !(ks == 64 && st == slhdsa.FastSigning) && !(ht == slhdsa.SHA2 && ks == 96 && st == slhdsa.FastSigning)
				out = append(out, genDef{slhName(ht, ks, st), func() (key.Parameters, error) {
					return slhdsa.NewParameters(ht, ks, st, slhdsa.VariantTink)
				}, slow})
			}
		}
	}
	out = append(out,
		genDef{"RSA_SSA_PSS_2048_SHA256", func() (key.Parameters, error) {
			return rsassapss.NewParameters(rsassapss.ParametersValues{ModulusSizeBits: 2048, SigHashType: rsassapss.SHA256, MGF1HashType: rsassapss.SHA256, PublicExponent: 65537, SaltLengthBytes: 32}, rsassapss.VariantTink)
		}, false},
		genDef{"RSA_SSA_PKCS1_2048_SHA256", func() (key.Parameters, error) {
			return rsassapkcs1.NewParameters(2048, rsassapkcs1.SHA256, 65537, rsassapkcs1.VariantTink)
		}, true},
		genDef{"RSA_SSA_PSS_3072_SHA256", tmpl(signature.RSA_SSA_PSS_3072_SHA256_32_F4_Key_Template), true},
		genDef{"JWT_RS256_2048", tmpl(jwt.RS256_2048_F4_Key_Template), true},
		genDef{"JWT_PS256_2048", tmpl(jwt.PS256_2048_F4_Key_Template), true},
	)
	return out
}

// keyMaterial classifies the secret material of a freshly generated key.
//
//	identity: fields that must be exactly drawn bytes (symmetric keys, seeds)
//	image:    for key pairs whose private value is a function of the draw: private value bytes and a public image
//	rsa:      the two primes
type keyMaterial struct {
	identity []field
	private  []byte
	public   []byte
	p, q     []byte
	scalar   int  // size of one private-scalar candidate draw
	mask     byte // see kemDef.mask
}

// privImage: all secret components (identity fields, then the private value).
func (m keyMaterial) privImage() []byte {
	var out []byte
	for _, f := range m.identity {
		out = append(out, f.b...)
	}
	return append(out, m.private...)
}

func publicImage(k key.Key) []byte {
	pk, ok := k.(interface{ PublicKey() (key.Key, error) })
	if !ok {
		return nil
	}
	pub, err := pk.PublicKey()
	if err != nil {
		return nil
	}
	kd, _, _, _, err := vb.SerializeKey(pub)
	if err != nil {
		return nil
	}
	return kd.GetValue()
}

func d(b secretdata.Bytes) []byte { return b.Data(tok) }

func materialOfKey(k key.Key) (km keyMaterial, ok bool) {
	one := func(name string, b secretdata.Bytes) (keyMaterial, bool) {
		return keyMaterial{identity: []field{{name, d(b)}}}, true
	}
	switch kk := k.(type) {
	case *aesgcm.Key:
		return one("AES-GCM key", kk.KeyBytes())
	case *aesgcmsiv.Key:
		return one("AES-GCM-SIV key", kk.KeyBytes())
	case *aeadctrhmac.Key:
		return keyMaterial{identity: []field{{"AES-CTR key", d(kk.AESKeyBytes())}, {"HMAC key", d(kk.HMACKeyBytes())}}}, true
	case *chacha20poly1305.Key:
		return one("ChaCha20-Poly1305 key", kk.KeyBytes())
	case *xchacha20poly1305.Key:
		return one("XChaCha20-Poly1305 key", kk.KeyBytes())
	case *xaesgcm.Key:
		return one("XAES-256-GCM key", kk.KeyBytes())
	case *aessiv.Key:
		return one("AES-SIV key", kk.KeyBytes())
	case *hmac.Key:
		return one("HMAC key", kk.KeyBytes())
	case *aescmac.Key:
		return one("AES-CMAC key", kk.KeyBytes())
	case *hmacprf.Key:
		return one("HMAC-PRF key", kk.KeyBytes())
	case *hkdfprf.Key:
		return one("HKDF-PRF key", kk.KeyBytes())
	case *aescmacprf.Key:
		return one("AES-CMAC-PRF key", kk.KeyBytes())
	case *sgcmhkdf.Key:
		return one("AES-GCM-HKDF streaming key", kk.KeyBytes())
	case *sctrhmac.Key:
		return one("AES-CTR-HMAC streaming key", kk.KeyBytes())
	case *jwthmac.Key:
		return one("JWT HMAC key", kk.KeyBytes())
	case *prfbasedkeyderivation.Key:
		pk, ok := kk.PRFKey().(*hkdfprf.Key)
		if !ok {
			return km, false
		}
		return one("PRF key of the deriver", pk.KeyBytes())
	case *ed25519.PrivateKey:
		m, _ := one("Ed25519 seed", kk.PrivateKeyBytes())
		m.public = publicImage(k)
		return m, true
	case *mldsa.PrivateKey:
		m, _ := one("ML-DSA seed", kk.PrivateKeyBytes())
		m.public = publicImage(k)
		return m, true
	case *jwtmldsa.PrivateKey:
		m, _ := one("ML-DSA seed", kk.PrivateKeyValue())
		m.public = publicImage(k)
		return m, true
	case *slhdsa.PrivateKey:
		b := d(kk.PrivateKeyBytes())
		n := len(b) / 4
		return keyMaterial{identity: []field{{"SK.seed", b[:n]}, {"SK.prf", b[n : 2*n]}, {"PK.seed", b[2*n : 3*n]}}, public: publicImage(k)}, true
	case *hpke.PrivateKey:
		kem := kk.Parameters().(*hpke.Parameters).KEMID()
		switch kem {
		case hpke.DHKEM_X25519_HKDF_SHA256, hpke.ML_KEM768, hpke.ML_KEM1024, hpke.X_WING:
			m, _ := one("HPKE private key / seed", kk.PrivateKeyBytes())
			m.public = publicImage(k)
			return m, true
		}
		b := d(kk.PrivateKeyBytes())
		return keyMaterial{private: b, public: publicImage(k), scalar: len(b), mask: 0x01}, true
	case *ecies.PrivateKey:
		b := d(kk.PrivateKeyBytes())
		if kk.Parameters().(*ecies.Parameters).CurveType() == ecies.X25519 {
			return keyMaterial{identity: []field{{"X25519 private key", b}}, public: publicImage(k)}, true
		}
		return keyMaterial{private: b, public: publicImage(k), scalar: len(b), mask: 0x01}, true
	case *ecdsa.PrivateKey:
		b := d(kk.PrivateKeyValue())
		return keyMaterial{private: b, public: publicImage(k), scalar: len(b), mask: 0x01}, true
	case *jwtecdsa.PrivateKey:
		b := d(kk.PrivateKeyValue())
		return keyMaterial{private: b, public: publicImage(k), scalar: len(b), mask: 0x01}, true
	case *compositemldsa.PrivateKey:
		a, ok1 := materialOfKey(kk.MLDSAPrivateKey())
		b, ok2 := materialOfKey(kk.ClassicalPrivateKey())
		if !ok1 || !ok2 || b.p != nil {
			return km, false
		}
		b.identity = append(a.identity, b.identity...)
		b.public = publicImage(k)
		return b, true
	case *rsassapss.PrivateKey:
		return keyMaterial{p: d(kk.P()), q: d(kk.Q()), public: publicImage(k)}, true
	case *rsassapkcs1.PrivateKey:
		return keyMaterial{p: d(kk.P()), q: d(kk.Q()), public: publicImage(k)}, true
	case *jwtrsassapss.PrivateKey:
		return keyMaterial{p: d(kk.P()), q: d(kk.Q()), public: publicImage(k)}, true
	case *jwtrsassapkcs1.PrivateKey:
		return keyMaterial{p: d(kk.P()), q: d(kk.Q()), public: publicImage(k)}, true
	}
	return km, false
}

// generated is one key generation observed on the tape.
type generated struct {
	id     uint32
	key    key.Key
	km     keyMaterial
	ds     []tape.Draw
	stream []byte
	idDraw int // index in ds of the id draw
}

func generate(e *env, entry string, params key.Parameters, kt *tinkpb.KeyTemplate, cfg string) (*generated, bool) {
	x := e.x
	g := &generated{idDraw: -1}
	var err error
	g.ds, g.stream = e.call(func() {
		if entry == "keyset.NewHandle" {
			var hd *keyset.Handle
			if hd, err = keyset.NewHandle(kt); err == nil {
				p, _ := hd.Primary()
				g.id, g.key = p.KeyID(), p.Key()
			}
			return
		}
		m := keyset.NewManager()
		if g.id, err = m.AddNewKeyFromParameters(params); err != nil {
			return
		}
		if err = m.SetPrimary(g.id); err != nil {
			return
		}
		var hd *keyset.Handle
		if hd, err = m.Handle(); err == nil {
			p, _ := hd.Primary()
			g.key = p.Key()
		}
	})
	x.Eval(1)
	if err != nil {
		x.Fail("keygen-error", "%s: %v", cfg, err)
		return nil, false
	}
	var ok bool
	if g.km, ok = materialOfKey(g.key); !ok {
		x.Fail("harness-unknown-key-type", "%s: no material extractor for %T", cfg, g.key)
		return nil, false
	}
	for i, dd := range g.ds {
		if dd.N == 4 && (bytes.Equal(e.tp.Bytes(dd.Off, 4), be32(g.id)) || bytes.Equal(e.tp.Bytes(dd.Off, 4), idBytes(g.id, true))) && g.idDraw < 0 {
			g.idDraw = i
		}
	}
	if g.idDraw < 0 {
		x.Fail("id-not-drawn-bytes", "%s: no 4-byte draw carries the key id %#x (draws %v)", cfg, g.id, g.ds)
		return nil, false
	}
	return g, true
}

// materialTargets: absolute tape offsets of all drawn bytes of the generation except the id draw.
func (g *generated) materialTargets() []int {
	var out []int
	for i, dd := range g.ds {
		if i == g.idDraw {
			continue
		}
		for j := 0; j < dd.N; j++ {
			out = append(out, dd.Off+j)
		}
	}
	return out
}

func rsaPrimeFromDraw(b []byte) []byte {
	c := bytes.Clone(b)
	c[0] |= 0xC0     // FIPS 186-5 A.1.3 / stdlib: the two top bits are set ...
	c[len(c)-1] |= 1 // ... and the candidate is made odd
	return c
}

func keygenSection(x *h.X) {
	all := gens()
	var gs []genDef
	for _, g := range all {
		if !g.slow || x.Thorough() {
			gs = append(gs, g)
		}
	}
	gd := h.Pick(x, "key-type", gs)
	entry := h.Pick(x, "entry-point", []string{"keyset.NewHandle", "Manager.AddNewKeyFromParameters"})
	e := begin(x)
	defer tape.Unbind()
	params, err := gd.params()
	if err != nil {
		x.Fail("setup", "%v: %v", gd, err)
		return
	}
	kt, err := vb.SerializeParameters(params)
	if err != nil {
		x.Fail("setup", "%v: %v", gd, err)
		return
	}
	desc := fmt.Sprintf("key generation %v via %s", gd, entry)
	e.load(cCounter)
	start := e.tp.Offset()
	g0, ok := generate(e, entry, params, kt, desc)
	if !ok {
		return
	}
	x.NonTrivial()
	km := g0.km
	switch {
	case km.identity != nil && km.private == nil && km.p == nil:
		x.Outcome("identity/" + fmt.Sprintf("%T", g0.key))
		// L1 for every tape content; L2: two generations on one tape
		span := total(g0.ds)
		for _, tc := range identityContents(span, x.Thorough() && !gd.heavy()) {
			cfg := fmt.Sprintf("%s tape=%v", desc, tc)
			e.load(tc)
			end := 0
			var mats [][]byte
			for gen := 0; gen < 2; gen++ {
				g, ok := generate(e, entry, params, kt, cfg)
				if !ok {
					return
				}
				fs := append([]field{{"key id", be32(g.id)}}, g.km.identity...)
				ok, why := tile(g.stream, fs)
				if !ok { // the id's byte order is not part of the property
					ok, _ = tile(g.stream, append([]field{{"key id", idBytes(g.id, true)}}, g.km.identity...))
				}
				if !ok {
					x.Fail("key-not-drawn-bytes", "%s generation %d: key material is not the entropy drawn in this call (draws %v): %s", cfg, gen, g.ds, why)
					return
				}
				end = consecutive(x, cfg, end, g.ds)
				var all []byte
				for _, f := range g.km.identity {
					all = append(all, f.b...)
				}
				mats = append(mats, all)
				if tc.name != "counter" {
					break
				}
			}
			if tc.name == "counter" {
				distinct(x, "key-repeats", cfg, "key material of two generations", mats)
			}
		}
	case km.private != nil:
		x.Outcome("ec-scalar/" + fmt.Sprintf("%T", g0.key))
		// (composite keys: the identity components (ML-DSA seed) must each be exactly one draw)
		explained := map[int]bool{g0.idDraw: true}
		for _, f := range km.identity {
			found := false
			for i, dd := range g0.ds {
				if !explained[i] && dd.N == len(f.b) && bytes.Equal(e.tp.Bytes(dd.Off, dd.N), f.b) {
					explained[i], found = true, true
					break
				}
			}
			if !found {
				x.Fail("key-not-drawn-bytes", "%s: %s %x is not a draw of this call (draws %v)", desc, f.name, f.b, g0.ds)
			}
		}
		for i, dd := range g0.ds {
			if !explained[i] && dd.N != km.scalar {
				x.Fail("unexplained-draw", "%s: draw %v is neither the key id, an identity component nor a %d-byte private-scalar candidate", desc, dd, km.scalar)
			}
		}
		if len(g0.ds) < 2+len(km.identity) {
			x.Fail("short-draw", "%s: no draw for the private key (draws %v)", desc, g0.ds)
		}
		// L2: a second generation continues the tape and gives a different key
		g1, ok := generate(e, entry, params, kt, desc+" (second generation)")
		if !ok {
			return
		}
		consecutive(x, desc, consecutive(x, desc, start, g0.ds), g1.ds)
		if bytes.Equal(g1.km.privImage(), km.privImage()) || bytes.Equal(g1.km.public, km.public) {
			x.Fail("key-repeats", "%s: two generations on one tape give the same key", desc)
		}
		// L4: same tape => same key; every drawn scalar byte matters
		e.load(cCounter)
		if g, ok := generate(e, entry, params, kt, desc+" replay"); ok && !g.key.Equal(g0.key) {
			x.Fail("not-reproducible", "%s: the same tape gives a different key", desc)
		}
		privs, pubs := [][]byte{km.privImage()}, [][]byte{km.public}
		targets := g0.materialTargets()
		if !x.Thorough() {
			var t2 []int
			for i, t := range targets {
				if i%4 == 0 || i == len(targets)-1 {
					t2 = append(t2, t)
				}
			}
			targets = t2
		}
		for _, t := range targets {
			e.load(flipped(t, km.mask))
			g, ok := generate(e, entry, params, kt, fmt.Sprintf("%s tape=counter with byte %d ^ %02x", desc, t-start, km.mask))
			if !ok {
				return
			}
			privs, pubs = append(privs, g.km.privImage()), append(pubs, g.km.public)
		}
		distinct(x, "key-ignores-drawn-byte", desc, "private keys under tapes differing in one drawn byte (index 0 = unmodified tape)", privs)
		distinct(x, "key-ignores-drawn-byte", desc, "public keys under tapes differing in one drawn byte (index 0 = unmodified tape)", pubs)
	case km.p != nil:
		x.Outcome("rsa/" + fmt.Sprintf("%T", g0.key))
		// L4 (exact): each prime is a drawn candidate with the two top bits and the low bit forced
		check := func(g *generated, cfg string) {
			for _, pr := range []struct {
				n string
				b []byte
			}{{"p", g.km.p}, {"q", g.km.q}} {
				found := false
				for i, dd := range g.ds {
					if i != g.idDraw && dd.N == len(pr.b) && bytes.Equal(rsaPrimeFromDraw(e.tp.Bytes(dd.Off, dd.N)), pr.b) {
						found = true
					}
				}
				if !found {
					x.Fail("key-not-drawn-bytes", "%s: RSA prime %s = %s is not one of the %d drawn candidates (top two bits and low bit set)", cfg, pr.n, tk.Hex(pr.b), len(g.ds)-1)
				}
			}
		}
		check(g0, desc)
		g1, ok := generate(e, entry, params, kt, desc+" (second generation)")
		if !ok {
			return
		}
		check(g1, desc+" (second generation)")
		consecutive(x, desc, consecutive(x, desc, start, g0.ds), g1.ds)
		if bytes.Equal(g1.km.public, km.public) || bytes.Equal(g1.km.p, km.p) || bytes.Equal(g1.km.q, km.q) || bytes.Equal(g1.km.p, km.q) {
			x.Fail("key-repeats", "%s: two generations on one tape share a prime / modulus", desc)
		}
		e.load(cCounter)
		if g, ok := generate(e, entry, params, kt, desc+" replay"); ok && !g.key.Equal(g0.key) {
			x.Fail("not-reproducible", "%s: the same tape gives a different key", desc)
		}
	}
}
