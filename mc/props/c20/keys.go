package main

import (
	"bytes"
	"encoding/binary"
	"fmt"
	"strings"
	"sync"

	"google.golang.org/protobuf/proto"

	"github.com/tink-crypto/tink-go/v2/core/registry"

	"github.com/tink-crypto/tink-go/v2/aead"
	aeadctrhmac "github.com/tink-crypto/tink-go/v2/aead/aesctrhmac"
	"github.com/tink-crypto/tink-go/v2/aead/aesgcm"
	"github.com/tink-crypto/tink-go/v2/aead/aesgcmsiv"
	"github.com/tink-crypto/tink-go/v2/aead/chacha20poly1305"
	"github.com/tink-crypto/tink-go/v2/aead/xaesgcm"
	"github.com/tink-crypto/tink-go/v2/aead/xchacha20poly1305"
	"github.com/tink-crypto/tink-go/v2/daead"
	"github.com/tink-crypto/tink-go/v2/daead/aessiv"
	"github.com/tink-crypto/tink-go/v2/hybrid"
	"github.com/tink-crypto/tink-go/v2/hybrid/ecies"
	"github.com/tink-crypto/tink-go/v2/hybrid/hpke"
	"github.com/tink-crypto/tink-go/v2/insecuresecretdataaccess"
	"github.com/tink-crypto/tink-go/v2/jwt"
	"github.com/tink-crypto/tink-go/v2/jwt/jwtecdsa"
	"github.com/tink-crypto/tink-go/v2/jwt/jwthmac"
	"github.com/tink-crypto/tink-go/v2/jwt/jwtmldsa"
	"github.com/tink-crypto/tink-go/v2/jwt/jwtrsassapkcs1"
	"github.com/tink-crypto/tink-go/v2/jwt/jwtrsassapss"
	"github.com/tink-crypto/tink-go/v2/key"
	"github.com/tink-crypto/tink-go/v2/keyderivation"
	"github.com/tink-crypto/tink-go/v2/keyderivation/prfbasedkeyderivation"
	"github.com/tink-crypto/tink-go/v2/keyset"
	"github.com/tink-crypto/tink-go/v2/mac"
	"github.com/tink-crypto/tink-go/v2/mac/aescmac"
	"github.com/tink-crypto/tink-go/v2/mac/hmac"
	"github.com/tink-crypto/tink-go/v2/prf"
	"github.com/tink-crypto/tink-go/v2/prf/aescmacprf"
	"github.com/tink-crypto/tink-go/v2/prf/hkdfprf"
	"github.com/tink-crypto/tink-go/v2/prf/hmacprf"
	tinkpb "github.com/tink-crypto/tink-go/v2/proto/tink_go_proto"
	"github.com/tink-crypto/tink-go/v2/secretdata"
	"github.com/tink-crypto/tink-go/v2/signature"
	"github.com/tink-crypto/tink-go/v2/signature/compositemldsa"
	"github.com/tink-crypto/tink-go/v2/signature/ecdsa"
	"github.com/tink-crypto/tink-go/v2/signature/ed25519"
	"github.com/tink-crypto/tink-go/v2/signature/mldsa"
	"github.com/tink-crypto/tink-go/v2/signature/rsassapkcs1"
	"github.com/tink-crypto/tink-go/v2/signature/rsassapss"
	"github.com/tink-crypto/tink-go/v2/signature/slhdsa"
	"github.com/tink-crypto/tink-go/v2/streamingaead"
	sctrhmac "github.com/tink-crypto/tink-go/v2/streamingaead/aesctrhmac"
	sgcmhkdf "github.com/tink-crypto/tink-go/v2/streamingaead/aesgcmhkdf"
	"github.com/tink-crypto/tink-go/v2/verifbridge/vb"
	"verif/h"
	"verif/tape"
)

var tok = insecuresecretdataaccess.Token{}

func idBytes(v uint32, le bool) []byte {
	if le {
		var b [4]byte
		binary.LittleEndian.PutUint32(b[:], v)
		return b[:]
	}
	return be32(v)
}

func be32(v uint32) []byte { var b [4]byte; binary.BigEndian.PutUint32(b[:], v); return b[:] }

// ---------------------------------------------------------------------------------------------------
// key ids

const (
	legacyEntry = "Manager.Add(template of a key-manager-only key type)"
	legacyURL   = "type.googleapis.com/verif.c20.KeyManagerOnlyKey"
)

type legacyKM struct{}

func (legacyKM) Primitive([]byte) (any, error)        { return nil, fmt.Errorf("no primitive") }
func (legacyKM) NewKey([]byte) (proto.Message, error) { return nil, fmt.Errorf("unsupported") }
func (legacyKM) DoesSupport(u string) bool            { return u == legacyURL }
func (legacyKM) TypeURL() string                      { return legacyURL }
func (legacyKM) NewKeyData([]byte) (*tinkpb.KeyData, error) {
	return &tinkpb.KeyData{TypeUrl: legacyURL, Value: []byte{1, 2, 3, 4, 5, 6, 7, 8}, KeyMaterialType: tinkpb.KeyData_SYMMETRIC}, nil
}

var legacyKMOnce sync.Once

func registerLegacyKM() {
	legacyKMOnce.Do(func() {
		if err := registry.RegisterKeyManager(legacyKM{}); err != nil {
			panic(err)
		}
	})
}

func keyIDSection(x *h.X) {
	entry := h.Pick(x, "entry-point", []string{"Manager.Add", "Manager.AddNewKeyFromParameters", "keyset.NewHandle", "Manager.AddKey(key without id requirement)", legacyEntry})
	variant := h.Pick(x, "template", []string{"AES128GCM(TINK)", "AES256GCM(RAW)"})
	e := begin(x)
	defer tape.Unbind()
	kt := aead.AES128GCMKeyTemplate()
	ksize := 16
	if variant == "AES256GCM(RAW)" {
		kt, ksize = aead.AES256GCMNoPrefixKeyTemplate(), 32
	}
	params, err := vb.ParseParameters(kt)
	if err != nil {
		x.Fail("setup", "%v", err)
		return
	}
	if entry == "Manager.AddKey(key without id requirement)" && variant != "AES256GCM(RAW)" {
		return
	}
	if entry == legacyEntry {
		// a key type served only by a registry.KeyManager (no parameters parser): Manager.Add takes its legacy route
		if variant != "AES128GCM(TINK)" {
			return
		}
		registerLegacyKM()
	}
	rawParams, _ := aesgcm.NewParameters(aesgcm.ParametersOpts{KeySizeInBytes: 32, IVSizeInBytes: 12, TagSizeInBytes: 16, Variant: aesgcm.VariantNoPrefix})
	fixedKey, _ := aesgcm.NewKey(secretdata.NewBytesFromData(bytes.Repeat([]byte{7}, 32), tok), 0, rawParams)
	// add performs one id-consuming operation on km (nil: a fresh keyset through keyset.NewHandle) and returns
	// the id and the resulting key object.
	add := func(km *keyset.Manager) (uint32, key.Key, error) {
		var id uint32
		var err error
		switch entry {
		case "Manager.Add":
			id, err = km.Add(kt)
		case legacyEntry:
			id, err = km.Add(&tinkpb.KeyTemplate{TypeUrl: legacyURL, OutputPrefixType: tinkpb.OutputPrefixType_TINK})
		case "Manager.AddNewKeyFromParameters":
			id, err = km.AddNewKeyFromParameters(params)
		case "Manager.AddKey(key without id requirement)":
			id, err = km.AddKey(fixedKey)
		case "keyset.NewHandle":
			hd, err := keyset.NewHandle(kt)
			if err != nil {
				return 0, nil, err
			}
			p, err := hd.Primary()
			if err != nil {
				return 0, nil, err
			}
			return p.KeyID(), p.Key(), nil
		}
		if err != nil {
			return 0, nil, err
		}
		hd, err := km.Handle()
		if err != nil {
			// no primary yet: set it
			if err2 := km.SetPrimary(id); err2 != nil {
				return 0, nil, err2
			}
			if hd, err = km.Handle(); err != nil {
				return 0, nil, err
			}
		}
		for i := 0; i < hd.Len(); i++ {
			en, _ := hd.Entry(i)
			if en.KeyID() == id {
				return id, en.Key(), nil
			}
		}
		return 0, nil, fmt.Errorf("id %#x not in the handle", id)
	}
	fieldsOf := func(id uint32, k key.Key, le bool) []field {
		var fs []field
		_ = le
		if entry != "Manager.AddKey(key without id requirement)" && entry != legacyEntry {
			fs = append(fs, field{"key material", k.(*aesgcm.Key).KeyBytes().Data(tok)})
		}
		return fs
	}
	x.NonTrivial()
	x.Outcome(entry)
	span := 4 + ksize
	// L1/L2: the id is the big-endian value of four drawn bytes for every tape content (every position
	// distinguished; all-00 gives id 0, all-FF gives 0xFFFFFFFF), the key material the other drawn bytes
	for _, tc := range identityContents(span, x.Thorough()) {
		cfg := fmt.Sprintf("%s %s tape=%v", entry, variant, tc)
		e.load(tc)
		km := keyset.NewManager()
		var id uint32
		var k key.Key
		var err error
		ds, stream := e.call(func() { id, k, err = add(km) })
		x.Eval(1)
		if err != nil {
			x.Fail("keygen-error", "%s: %v", cfg, err)
			return
		}
		// byte order of the id is not part of the property (any bijection of the 4 drawn bytes spreads uniformly):
		// big- and little-endian readings are both accepted
		ok, why := tile(stream, fieldsOf(id, k, false))
		if !ok {
			ok, _ = tile(stream, fieldsOf(id, k, true))
		}
		if !ok {
			x.Fail("id-not-drawn-bytes", "%s: id %#x / key material are not the entropy drawn in this call (draws %v): %s", cfg, id, ds, why)
			return
		}
		if idr, req := k.IDRequirement(); req && idr != id {
			x.Fail("id-requirement", "%s: key requires id %#x but got keyset id %#x", cfg, idr, id)
		}
	}
	// Which of the draws of one call does the id come from? The property does not say HOW an id is made from entropy
	// (verbatim 4 bytes, little/big endian, 8 bytes folded to 4, ...), so the id source is found by perturbation: a draw
	// is an id source when answering it with other bytes changes the id.
	gen := func() (uint32, error) { id, _, err := add(keyset.NewManager()); return id, err }
	src, ok := idSources(e, gen)
	if !ok {
		x.Fail("keygen-error", "%s %s: generation on the counter tape failed", entry, variant)
		return
	}
	if len(src.idx) == 0 {
		x.Fail("id-not-drawn-bytes", "%s %s: the key id %#x does not depend on any entropy drawn in the call (draws %v)", entry, variant, src.id, src.ds)
		return
	}
	vals := []int{0, 1, 0x7f, 0x80, 0xfe, 0xff}
	if x.Thorough() {
		vals = nil
		for v := 0; v < 256; v++ {
			vals = append(vals, v)
		}
	}
	// Full range / uniform spread: with all other entropy fixed, the id is an INJECTIVE function of every byte of its
	// source draws (then a uniform byte gives a uniform contribution), and over the enumerated answers every one of the
	// 32 id bits takes both values.
	var orBits, andBits uint32 = 0, 0xFFFFFFFF
	sensitive := 0
	for _, di := range src.idx {
		base := src.bytes[di]
		for pos := range base {
			seen := map[uint32]int{}
			for _, v := range vals {
				e.load(cCounter)
				b := bytes.Clone(base)
				b[pos] = byte(v)
				e.tp.Answer(di, b)
				id, err := gen()
				x.Eval(1)
				if err != nil {
					x.Fail("keygen-error", "%s %s: %v", entry, variant, err)
					return
				}
				seen[id] = v
				orBits |= id
				andBits &= id
			}
			// a byte of the source draw is either surplus (no answer changes the id) or used WHOLE (every answer gives
			// another id); a byte of which only some bits reach the id loses entropy
			if len(seen) > 1 && len(seen) < len(vals) {
				x.Fail("id-not-drawn-bytes", "%s %s: byte %d of id source draw #%d: %d answers give only %d different ids: the id does not use the whole drawn byte", entry, variant, pos, di, len(vals), len(seen))
				return
			}
			if len(seen) > 1 {
				sensitive++
			}
		}
	}
	if sensitive < 4 {
		x.Fail("id-not-drawn-bytes", "%s %s: only %d drawn byte positions influence the id: fewer than 32 bits of entropy", entry, variant, sensitive)
		return
	}
	if orBits != 0xFFFFFFFF || andBits != 0 {
		x.Fail("id-not-drawn-bytes", "%s %s: over all enumerated answers of the id source draws some id bits never change (or=%#x and=%#x): ids do not cover the 32-bit range", entry, variant, orBits, andBits)
		return
	}
	if entry == "keyset.NewHandle" {
		return
	}
	// one manager: ids of a history are pairwise distinct, also when the entropy source REPEATS the bytes that produced
	// earlier ids k = 1..3 times in a row (forced collisions)
	S := len(src.idx)
	contiguous := true
	for t := 1; t < S; t++ {
		contiguous = contiguous && src.idx[t] == src.idx[0]+t
	}
	if !contiguous {
		x.Outcome("id-source-draws-not-contiguous")
		return
	}
	idx0 := src.idx[0]
	stepBytes := func(ds []tape.Draw, step int) [][]byte {
		var out [][]byte
		for t := 0; t < S; t++ {
			i := idx0 + step*S + t
			if i >= len(ds) {
				return nil
			}
			out = append(out, e.tp.Bytes(ds[i].Off, ds[i].N))
		}
		return out
	}
	for k := 0; k <= 3; k++ {
		e.load(cCounter)
		km := keyset.NewManager()
		var ids []uint32
		var raws [][][]byte // per id handed out: the bytes of its source draws (replayed verbatim to force a collision)
		m0 := e.tp.Mark()
		id0, _, err := add(km)
		if err != nil {
			x.Fail("keygen-error", "%s: %v", entry, err)
			return
		}
		ids = append(ids, id0)
		if sb := stepBytes(e.tp.Since(m0), 0); sb != nil {
			raws = append(raws, sb)
		}
		// refused operations on the live primary must not release its id for later draws
		if km.SetPrimary(id0) == nil {
			km.Delete(id0)
			km.Disable(id0)
		}
		for round := 0; round < 3 && len(raws) > 0; round++ {
			m := e.tp.Mark()
			for j := 0; j < k; j++ {
				r := raws[j%len(raws)]
				for t := 0; t < S; t++ {
					e.tp.Answer(m+idx0+j*S+t, r[t])
				}
			}
			id, _, err := add(km)
			x.Eval(1)
			if err != nil {
				x.Fail("keygen-error", "%s after %d forced collisions: %v", entry, k, err)
				return
			}
			for _, o := range ids {
				if o == id {
					x.Fail("id-repeats", "%s: manager handed out id %#x twice (entropy source repeating the bytes of earlier ids %d times; ids so far %x)", entry, id, k, ids)
					return
				}
			}
			ids = append(ids, id)
			if sb := stepBytes(e.tp.Since(m), k); sb != nil {
				raws = append(raws, sb)
			}
		}
	}
	// an id PLACED in the manager by tink's own factories (Manager.AddKeyWithOpts + WithFixedID, the route of key
	// derivation and hybrid/subtle; with and without id requirement) is as taken as a drawn one: the entropy that would
	// produce it again must not hand it out a second time
	e.load(cCounter)
	idA, _, err := add(keyset.NewManager())
	if err != nil {
		return
	}
	tinkParams, _ := aesgcm.NewParameters(aesgcm.ParametersOpts{KeySizeInBytes: 32, IVSizeInBytes: 12, TagSizeInBytes: 16, Variant: aesgcm.VariantTink})
	reqKey, _ := aesgcm.NewKey(secretdata.NewBytesFromData(bytes.Repeat([]byte{7}, 32), tok), idA, tinkParams)
	for _, placed := range []struct {
		name string
		k    key.Key
	}{{"key without id requirement", fixedKey}, {"key requiring that id", reqKey}} {
		for _, status := range []keyset.KeyStatus{keyset.Enabled, keyset.Disabled} {
			km := keyset.NewManager()
			if _, err := km.AddKeyWithOpts(placed.k, vb.Tok(), keyset.WithFixedID(idA), keyset.WithStatus(status)); err != nil {
				continue // refusing a fixed id is the implementation's policy
			}
			e.load(cCounter)
			id, _, err := add(km)
			x.Eval(1)
			if err != nil {
				continue
			}
			if id == idA {
				x.Fail("id-repeats", "%s: manager holding a %s (status %v) placed under id %#x by AddKeyWithOpts(WithFixedID) handed out the same id again", entry, placed.name, status, idA)
				return
			}
		}
	}
}

// idSources runs gen on the counter tape and finds, by perturbation, the draws the id depends on.
type idSrc struct {
	id    uint32
	ds    []tape.Draw
	bytes map[int][]byte // draw index -> bytes served on the counter tape
	idx   []int          // indices of the draws that influence the id
}

func idSources(e *env, gen func() (uint32, error)) (*idSrc, bool) {
	e.load(cCounter)
	m := e.tp.Mark()
	id0, err := gen()
	if err != nil {
		return nil, false
	}
	src := &idSrc{id: id0, ds: e.tp.Since(m), bytes: map[int][]byte{}}
	for i, d := range src.ds {
		src.bytes[i] = e.tp.Bytes(d.Off, d.N)
	}
	for i := range src.ds {
		changed := false
		// perturbations that differ from byte to byte: a uniform mask cancels in any value that FOLDS the draw
		// (id = hi XOR lo of eight drawn bytes)
		for _, mask := range []byte{0xFF, 0x55, 0x01} {
			e.load(cCounter)
			b := bytes.Clone(src.bytes[i])
			for j := range b {
				b[j] ^= perturbByte(mask, j)
			}
			e.tp.Answer(i, b)
			id, err := gen()
			if err == nil && id != id0 {
				changed = true
			}
		}
		if changed {
			src.idx = append(src.idx, i)
		}
	}
	return src, true
}

// perturbByte is the XOR applied to byte j of a perturbed draw: never zero, different for neighbouring bytes and for
// bytes 4 / 8 / 16 / 32 positions apart (so that XOR-folding halves, quarters ... of a draw cannot cancel it).
func perturbByte(mask byte, j int) byte {
	v := mask ^ byte(j*29+j/4*7+j/8*13+j/16*17+j/32*19)
	if v == 0 {
		v = mask | 0x80
	}
	return v
}

// ---------------------------------------------------------------------------------------------------
// key generation

// composite ML-DSA parameter sets without RSA components (3072/4096-bit RSA generation is covered by the plain RSA entries).
var compositeSets = []struct {
	name string
	alg  compositemldsa.ClassicalAlgorithm
	inst compositemldsa.MLDSAInstance
	draw int // entropy of one signature: ML-DSA rnd (32) + hedged ECDSA Z
}{
	{"ML_DSA_65_ED25519", compositemldsa.Ed25519, compositemldsa.MLDSA65, 32},
	{"ML_DSA_65_ECDSA_P256", compositemldsa.ECDSAP256, compositemldsa.MLDSA65, 32 + 32},
	{"ML_DSA_65_ECDSA_P384", compositemldsa.ECDSAP384, compositemldsa.MLDSA65, 32 + 48},
	{"ML_DSA_87_ECDSA_P384", compositemldsa.ECDSAP384, compositemldsa.MLDSA87, 32 + 48},
	{"ML_DSA_87_ECDSA_P521", compositemldsa.ECDSAP521, compositemldsa.MLDSA87, 32 + 66},
}

type genDef struct {
	name   string
	params func() (key.Parameters, error)
	slow   bool // thorough tier only
}

// heavy: expensive key generation (SLH-DSA): one distinguished value per position also in the thorough tier.
func (g genDef) heavy() bool { return strings.HasPrefix(g.name, "SLH_DSA") }

func (g genDef) String() string { return g.name }

func tmpl(f func() *tinkpb.KeyTemplate) func() (key.Parameters, error) {
	return func() (key.Parameters, error) { return vb.ParseParameters(f()) }
}

func slhName(ht slhdsa.HashType, ks int, st slhdsa.SignatureType) string {
	return fmt.Sprintf("SLH_DSA_%s_%d%s", map[slhdsa.HashType]string{slhdsa.SHA2: "SHA2", slhdsa.SHAKE: "SHAKE"}[ht], ks/4*8,
		map[slhdsa.SignatureType]string{slhdsa.FastSigning: "f", slhdsa.SmallSignature: "s"}[st])
}

func gens() []genDef {
	out := []genDef{
		{"AES128_GCM", tmpl(aead.AES128GCMKeyTemplate), false},
		{"AES256_GCM", tmpl(aead.AES256GCMKeyTemplate), false},
		{"AES256_GCM_RAW", tmpl(aead.AES256GCMNoPrefixKeyTemplate), false},
		{"AES128_GCM_SIV", tmpl(aead.AES128GCMSIVKeyTemplate), false},
		{"AES256_GCM_SIV", tmpl(aead.AES256GCMSIVKeyTemplate), false},
		{"AES128_CTR_HMAC_SHA256", tmpl(aead.AES128CTRHMACSHA256KeyTemplate), false},
		{"AES256_CTR_HMAC_SHA256", tmpl(aead.AES256CTRHMACSHA256KeyTemplate), false},
		{"CHACHA20_POLY1305", tmpl(aead.ChaCha20Poly1305KeyTemplate), false},
		{"XCHACHA20_POLY1305", tmpl(aead.XChaCha20Poly1305KeyTemplate), false},
		{"XAES_256_GCM_192", tmpl(aead.XAES256GCM192BitNonceKeyTemplate), false},
		{"XAES_256_GCM_160_RAW", tmpl(aead.XAES256GCM160BitNonceNoPrefixKeyTemplate), false},
		{"AES256_SIV", tmpl(daead.AESSIVKeyTemplate), false},
		{"HMAC_SHA256_128", tmpl(mac.HMACSHA256Tag128KeyTemplate), false},
		{"HMAC_SHA512_512", tmpl(mac.HMACSHA512Tag512KeyTemplate), false},
		{"AES_CMAC", tmpl(mac.AESCMACTag128KeyTemplate), false},
		{"HMAC_SHA256_PRF", tmpl(prf.HMACSHA256PRFKeyTemplate), false},
		{"HMAC_SHA512_PRF", tmpl(prf.HMACSHA512PRFKeyTemplate), false},
		{"HKDF_SHA256_PRF", tmpl(prf.HKDFSHA256PRFKeyTemplate), false},
		{"AES_CMAC_PRF", tmpl(prf.AESCMACPRFKeyTemplate), false},
		{"AES128_GCM_HKDF_4KB", tmpl(streamingaead.AES128GCMHKDF4KBKeyTemplate), false},
		{"AES256_GCM_HKDF_1MB", tmpl(streamingaead.AES256GCMHKDF1MBKeyTemplate), false},
		{"AES128_CTR_HMAC_SHA256_4KB", tmpl(streamingaead.AES128CTRHMACSHA256Segment4KBKeyTemplate), false},
		{"AES256_CTR_HMAC_SHA256_1MB", tmpl(streamingaead.AES256CTRHMACSHA256Segment1MBKeyTemplate), false},
		{"JWT_HS256", tmpl(jwt.HS256Template), false},
		{"JWT_HS512_RAW", tmpl(jwt.RawHS512Template), false},
		{"ED25519", tmpl(signature.ED25519KeyTemplate), false},
		{"ED25519_RAW", tmpl(signature.ED25519KeyWithoutPrefixTemplate), false},
		{"ECDSA_P256", tmpl(signature.ECDSAP256KeyTemplate), false},
		{"ECDSA_P384_SHA512", tmpl(signature.ECDSAP384SHA512KeyTemplate), false},
		{"ECDSA_P521", tmpl(signature.ECDSAP521KeyTemplate), false},
		{"JWT_ES256", tmpl(jwt.ES256Template), false},
		{"JWT_ES384", tmpl(jwt.ES384Template), true},
		{"JWT_ES512_RAW", tmpl(jwt.RawES512Template), false},
		{"ECIES_P256_AES128_GCM", tmpl(hybrid.ECIESHKDFAES128GCMKeyTemplate), false},
		{"ECIES_P256_AES128_CTR_HMAC", tmpl(hybrid.ECIESHKDFAES128CTRHMACSHA256KeyTemplate), true},
		{"PRF_BASED_DERIVER(HKDF_SHA256 -> AES128_GCM)", func() (key.Parameters, error) {
			t, err := keyderivation.CreatePRFBasedKeyTemplate(prf.HKDFSHA256PRFKeyTemplate(), aead.AES128GCMKeyTemplate())
			if err != nil {
				return nil, err
			}
			return vb.ParseParameters(t)
		}, false},
	}
	for _, d := range []struct {
		n string
		c ecies.CurveType
	}{{"P384", ecies.NISTP384}, {"P521", ecies.NISTP521}, {"X25519", ecies.X25519}} {
		d := d
		out = append(out, genDef{"ECIES_" + d.n + "_AES256_GCM", func() (key.Parameters, error) {
			dp, err := eciesDEMs[1].params()
			if err != nil {
				return nil, err
			}
			pf := ecies.UncompressedPointFormat
			if d.c == ecies.X25519 {
				pf = ecies.UnspecifiedPointFormat
			}
			return ecies.NewParameters(ecies.ParametersOpts{CurveType: d.c, HashType: ecies.SHA256, NISTCurvePointFormat: pf, DEMParameters: dp, Variant: ecies.VariantTink})
		}, false})
	}
	for _, k := range kems {
		k := k
		out = append(out, genDef{"HPKE_" + k.name, func() (key.Parameters, error) {
			return hpke.NewParameters(hpke.ParametersOpts{KEMID: k.id, KDFID: hpke.HKDFSHA256, AEADID: hpke.AES128GCM, Variant: hpke.VariantTink})
		}, false})
	}
	for _, inst := range []struct {
		n string
		i mldsa.Instance
		j jwtmldsa.Algorithm
	}{{"44", mldsa.MLDSA44, jwtmldsa.MLDSA44}, {"65", mldsa.MLDSA65, jwtmldsa.MLDSA65}, {"87", mldsa.MLDSA87, jwtmldsa.MLDSA87}} {
		inst := inst
		out = append(out, genDef{"ML_DSA_" + inst.n, func() (key.Parameters, error) { return mldsa.NewParameters(inst.i, mldsa.VariantTink) }, false})
		out = append(out, genDef{"JWT_ML_DSA_" + inst.n, func() (key.Parameters, error) { return jwtmldsa.NewParameters(jwtmldsa.IgnoredKID, inst.j) }, inst.n != "44"})
	}
	for _, c := range compositeSets {
		c := c
		out = append(out, genDef{"COMPOSITE_" + c.name, func() (key.Parameters, error) {
			return compositemldsa.NewParameters(c.alg, c.inst, compositemldsa.VariantTink)
		}, false})
	}
	for _, ht := range []slhdsa.HashType{slhdsa.SHA2, slhdsa.SHAKE} {
		for _, ks := range []int{64, 96, 128} {
			for _, st := range []slhdsa.SignatureType{slhdsa.FastSigning, slhdsa.SmallSignature} {
				ht, ks, st := ht, ks, st
				slow := !(ks == 64 && st == slhdsa.FastSigning) && !(ht == slhdsa.SHA2 && ks == 96 && st == slhdsa.FastSigning)
				out = append(out, genDef{slhName(ht, ks, st), func() (key.Parameters, error) {
					return slhdsa.NewParameters(ht, ks, st, slhdsa.VariantTink)
				}, slow})
			}
		}
	}
	out = append(out,
		genDef{"RSA_SSA_PSS_2048_SHA256", func() (key.Parameters, error) {
			return rsassapss.NewParameters(rsassapss.ParametersValues{ModulusSizeBits: 2048, SigHashType: rsassapss.SHA256, MGF1HashType: rsassapss.SHA256, PublicExponent: 65537, SaltLengthBytes: 32}, rsassapss.VariantTink)
		}, false},
		genDef{"RSA_SSA_PKCS1_2048_SHA256", func() (key.Parameters, error) {
			return rsassapkcs1.NewParameters(2048, rsassapkcs1.SHA256, 65537, rsassapkcs1.VariantTink)
		}, true},
		genDef{"RSA_SSA_PSS_3072_SHA256", tmpl(signature.RSA_SSA_PSS_3072_SHA256_32_F4_Key_Template), true},
		genDef{"JWT_RS256_2048", tmpl(jwt.RS256_2048_F4_Key_Template), true},
		genDef{"JWT_PS256_2048", tmpl(jwt.PS256_2048_F4_Key_Template), true},
	)
	return out
}

// keyMaterial classifies the secret material of a freshly generated key.
//
//	identity: fields that must be exactly drawn bytes (symmetric keys, seeds)
//	image:    for key pairs whose private value is a function of the draw: private value bytes and a public image
//	rsa:      the two primes
type keyMaterial struct {
	identity []field
	private  []byte
	public   []byte
	p, q     []byte
	scalar   int  // size of one private-scalar candidate draw
	mask     byte // see kemDef.mask
}

// privImage: all secret components (identity fields, then the private value).
func (m keyMaterial) privImage() []byte {
	var out []byte
	for _, f := range m.identity {
		out = append(out, f.b...)
	}
	return append(out, m.private...)
}

func publicImage(k key.Key) []byte {
	pk, ok := k.(interface{ PublicKey() (key.Key, error) })
	if !ok {
		return nil
	}
	pub, err := pk.PublicKey()
	if err != nil {
		return nil
	}
	kd, _, _, _, err := vb.SerializeKey(pub)
	if err != nil {
		return nil
	}
	return kd.GetValue()
}

func d(b secretdata.Bytes) []byte { return b.Data(tok) }

func materialOfKey(k key.Key) (km keyMaterial, ok bool) {
	one := func(name string, b secretdata.Bytes) (keyMaterial, bool) {
		return keyMaterial{identity: []field{{name, d(b)}}}, true
	}
	switch kk := k.(type) {
	case *aesgcm.Key:
		return one("AES-GCM key", kk.KeyBytes())
	case *aesgcmsiv.Key:
		return one("AES-GCM-SIV key", kk.KeyBytes())
	case *aeadctrhmac.Key:
		return keyMaterial{identity: []field{{"AES-CTR key", d(kk.AESKeyBytes())}, {"HMAC key", d(kk.HMACKeyBytes())}}}, true
	case *chacha20poly1305.Key:
		return one("ChaCha20-Poly1305 key", kk.KeyBytes())
	case *xchacha20poly1305.Key:
		return one("XChaCha20-Poly1305 key", kk.KeyBytes())
	case *xaesgcm.Key:
		return one("XAES-256-GCM key", kk.KeyBytes())
	case *aessiv.Key:
		return one("AES-SIV key", kk.KeyBytes())
	case *hmac.Key:
		return one("HMAC key", kk.KeyBytes())
	case *aescmac.Key:
		return one("AES-CMAC key", kk.KeyBytes())
	case *hmacprf.Key:
		return one("HMAC-PRF key", kk.KeyBytes())
	case *hkdfprf.Key:
		return one("HKDF-PRF key", kk.KeyBytes())
	case *aescmacprf.Key:
		return one("AES-CMAC-PRF key", kk.KeyBytes())
	case *sgcmhkdf.Key:
		return one("AES-GCM-HKDF streaming key", kk.KeyBytes())
	case *sctrhmac.Key:
		return one("AES-CTR-HMAC streaming key", kk.KeyBytes())
	case *jwthmac.Key:
		return one("JWT HMAC key", kk.KeyBytes())
	case *prfbasedkeyderivation.Key:
		pk, ok := kk.PRFKey().(*hkdfprf.Key)
		if !ok {
			return km, false
		}
		return one("PRF key of the deriver", pk.KeyBytes())
	case *ed25519.PrivateKey:
		m, _ := one("Ed25519 seed", kk.PrivateKeyBytes())
		m.public = publicImage(k)
		return m, true
	case *mldsa.PrivateKey:
		m, _ := one("ML-DSA seed", kk.PrivateKeyBytes())
		m.public = publicImage(k)
		return m, true
	case *jwtmldsa.PrivateKey:
		m, _ := one("ML-DSA seed", kk.PrivateKeyValue())
		m.public = publicImage(k)
		return m, true
	case *slhdsa.PrivateKey:
		b := d(kk.PrivateKeyBytes())
		n := len(b) / 4
		return keyMaterial{identity: []field{{"SK.seed", b[:n]}, {"SK.prf", b[n : 2*n]}, {"PK.seed", b[2*n : 3*n]}}, public: publicImage(k)}, true
	case *hpke.PrivateKey:
		kem := kk.Parameters().(*hpke.Parameters).KEMID()
		switch kem {
		case hpke.DHKEM_X25519_HKDF_SHA256, hpke.ML_KEM768, hpke.ML_KEM1024, hpke.X_WING:
			m, _ := one("HPKE private key / seed", kk.PrivateKeyBytes())
			m.public = publicImage(k)
			return m, true
		}
		b := d(kk.PrivateKeyBytes())
		return keyMaterial{private: b, public: publicImage(k), scalar: len(b), mask: 0x01}, true
	case *ecies.PrivateKey:
		b := d(kk.PrivateKeyBytes())
		if kk.Parameters().(*ecies.Parameters).CurveType() == ecies.X25519 {
			return keyMaterial{identity: []field{{"X25519 private key", b}}, public: publicImage(k)}, true
		}
		return keyMaterial{private: b, public: publicImage(k), scalar: len(b), mask: 0x01}, true
	case *ecdsa.PrivateKey:
		b := d(kk.PrivateKeyValue())
		return keyMaterial{private: b, public: publicImage(k), scalar: len(b), mask: 0x01}, true
	case *jwtecdsa.PrivateKey:
		b := d(kk.PrivateKeyValue())
		return keyMaterial{private: b, public: publicImage(k), scalar: len(b), mask: 0x01}, true
	case *compositemldsa.PrivateKey:
		a, ok1 := materialOfKey(kk.MLDSAPrivateKey())
		b, ok2 := materialOfKey(kk.ClassicalPrivateKey())
		if !ok1 || !ok2 || b.p != nil {
			return km, false
		}
		b.identity = append(a.identity, b.identity...)
		b.public = publicImage(k)
		return b, true
	case *rsassapss.PrivateKey:
		return keyMaterial{p: d(kk.P()), q: d(kk.Q()), public: publicImage(k)}, true
	case *rsassapkcs1.PrivateKey:
		return keyMaterial{p: d(kk.P()), q: d(kk.Q()), public: publicImage(k)}, true
	case *jwtrsassapss.PrivateKey:
		return keyMaterial{p: d(kk.P()), q: d(kk.Q()), public: publicImage(k)}, true
	case *jwtrsassapkcs1.PrivateKey:
		return keyMaterial{p: d(kk.P()), q: d(kk.Q()), public: publicImage(k)}, true
	}
	return km, false
}

// generated is one key generation observed on the tape.
type generated struct {
	id     uint32
	key    key.Key
	km     keyMaterial
	ds     []tape.Draw
	stream []byte
}

func generate(e *env, entry string, params key.Parameters, kt *tinkpb.KeyTemplate, cfg string) (*generated, bool) {
	x := e.x
	g := &generated{}
	var err error
	g.ds, g.stream = e.call(func() {
		if entry == "keyset.NewHandle" {
			var hd *keyset.Handle
			if hd, err = keyset.NewHandle(kt); err == nil {
				p, _ := hd.Primary()
				g.id, g.key = p.KeyID(), p.Key()
			}
			return
		}
		m := keyset.NewManager()
		if g.id, err = m.AddNewKeyFromParameters(params); err != nil {
			return
		}
		if err = m.SetPrimary(g.id); err != nil {
			return
		}
		var hd *keyset.Handle
		if hd, err = m.Handle(); err == nil {
			p, _ := hd.Primary()
			g.key = p.Key()
		}
	})
	x.Eval(1)
	if err != nil {
		x.Fail("keygen-error", "%s: %v", cfg, err)
		return nil, false
	}
	var ok bool
	if g.km, ok = materialOfKey(g.key); !ok {
		x.Fail("harness-unknown-key-type", "%s: no material extractor for %T", cfg, g.key)
		return nil, false
	}
	return g, true
}

func rsaPrimeFromDraw(b []byte) []byte {
	c := bytes.Clone(b)
	c[0] |= 0xC0     // FIPS 186-5 A.1.3 / stdlib: the two top bits are set ...
	c[len(c)-1] |= 1 // ... and the candidate is made odd
	return c
}

func keygenSection(x *h.X) {
	all := gens()
	var gs []genDef
	for _, g := range all {
		if !g.slow || x.Thorough() {
			gs = append(gs, g)
		}
	}
	gd := h.Pick(x, "key-type", gs)
	entry := h.Pick(x, "entry-point", []string{"keyset.NewHandle", "Manager.AddNewKeyFromParameters"})
	e := begin(x)
	defer tape.Unbind()
	params, err := gd.params()
	if err != nil {
		x.Fail("setup", "%v: %v", gd, err)
		return
	}
	kt, err := vb.SerializeParameters(params)
	if err != nil {
		x.Fail("setup", "%v: %v", gd, err)
		return
	}
	desc := fmt.Sprintf("key generation %v via %s", gd, entry)
	e.load(cCounter)
	start := e.tp.Offset()
	g0, ok := generate(e, entry, params, kt, desc)
	if !ok {
		return
	}
	x.NonTrivial()
	km := g0.km
	class := "identity"
	need := 0 // bytes of entropy the key must depend on
	for _, f := range km.identity {
		need += len(f.b)
	}
	switch {
	case km.private != nil:
		class = "ec-scalar"
		need += len(km.private)
	case km.p != nil:
		class = "rsa"
		need = len(km.p) + len(km.q) - 4
	}
	x.Outcome(class + "/" + fmt.Sprintf("%T", g0.key))
	image := func(g *generated) []byte {
		out := append(g.km.privImage(), g.km.p...)
		out = append(out, g.km.q...)
		return append(out, g.km.public...)
	}
	img0 := image(g0)
	// The property constrains the RESULT (new keys differ; ids spread uniformly), not how entropy is turned into a key:
	// verbatim bytes, XOR of two reads, modular reduction of a longer read, rejection sampling, extra guard bytes are
	// all fine. Judged, in a form every such implementation satisfies:
	// G1 fresh: a second generation continues the tape (disjoint entropy) and gives a different key
	g1, ok := generate(e, entry, params, kt, desc+" (second generation)")
	if !ok {
		return
	}
	consecutive(x, desc, consecutive(x, desc, start, g0.ds), g1.ds)
	if bytes.Equal(image(g1), img0) || (len(km.public) > 0 && bytes.Equal(g1.km.public, km.public)) || (km.p != nil && (bytes.Equal(g1.km.p, km.p) || bytes.Equal(g1.km.q, km.q) || bytes.Equal(g1.km.p, km.q))) {
		x.Fail("key-repeats", "%s: two generations on one tape give the same key material", desc)
		return
	}
	// G2 a function of the entropy: the same tape gives the same key
	e.load(cCounter)
	if g, ok := generate(e, entry, params, kt, desc+" replay"); !ok {
		return
	} else if !bytes.Equal(image(g), img0) || g.id != g0.id {
		x.Fail("not-reproducible", "%s: the same tape gives a different key / id", desc)
		return
	}
	// which draws feed the id, which the key (by perturbation of whole draws)
	var idSrc, keySrc []int
	many := len(g0.ds) > 12 // prime search: hundreds of candidate draws, one key generation per perturbation is too dear
	for i, dd := range g0.ds {
		if many && dd.N > 8 {
			// locate the accepted candidates directly (stdlib: top two bits and low bit forced); other draws of that
			// size are rejected candidates. If no draw is recognised, G3 is skipped below (tolerant).
			if c := rsaPrimeFromDraw(e.tp.Bytes(dd.Off, dd.N)); bytes.Equal(c, km.p) || bytes.Equal(c, km.q) {
				keySrc = append(keySrc, i)
			}
			continue
		}
		idCh, keyCh := false, false
		for _, mask := range []byte{0x10} {
			e.load(cCounter)
			b := e.tp.Bytes(dd.Off, dd.N)
			for j := range b {
				b[j] ^= perturbByte(mask, j) // position dependent: does not cancel in folded values
			}
			e.tp.Answer(i, b)
			g, ok := generate(e, entry, params, kt, desc+" (perturbed draw)")
			if !ok {
				return
			}
			idCh = idCh || g.id != g0.id
			keyCh = keyCh || !bytes.Equal(image(g), img0)
		}
		if idCh {
			idSrc = append(idSrc, i)
		}
		if keyCh {
			keySrc = append(keySrc, i)
		}
	}
	if len(idSrc) == 0 {
		x.Fail("id-not-drawn-bytes", "%s: the key id %#x does not depend on any entropy drawn in the call (draws %v)", desc, g0.id, g0.ds)
		return
	}
	if len(keySrc) == 0 && many {
		x.Outcome("g3-skipped:key-source-draws-not-located")
		return
	}
	if len(keySrc) == 0 {
		x.Fail("key-not-drawn-bytes", "%s: the key does not depend on any entropy drawn in the call (draws %v)", desc, g0.ds)
		return
	}
	// G3 full length: at least `need` drawn BYTES influence the key (each one alone: flipping a bit in it changes the
	// key). Bytes of the key's source draws that do not matter (guards, discarded surplus) are tolerated beyond that.
	var targets []int
	for _, i := range keySrc {
		for j := 0; j < g0.ds[i].N; j++ {
			targets = append(targets, g0.ds[i].Off+j)
		}
	}
	surplus := len(targets) - need
	if surplus < 0 {
		x.Fail("short-draw", "%s: the draws the key depends on hold %d bytes, the key needs %d bytes of entropy (draws %v)", desc, len(targets), need, g0.ds)
		return
	}
	stride := 1
	if !x.Thorough() || gd.heavy() || class == "rsa" {
		stride = 1 + len(targets)/24
	}
	mask := km.mask
	if mask == 0 {
		mask = 0x10
	}
	tested, insensitive := 0, 0
	var dead []int
	for ti := 0; ti < len(targets); ti += stride {
		t := targets[ti]
		e.load(flipped(t, mask))
		g, ok := generate(e, entry, params, kt, fmt.Sprintf("%s tape=counter with byte %d ^ %02x", desc, t-start, mask))
		if !ok {
			return
		}
		tested++
		if bytes.Equal(image(g), img0) {
			insensitive++
			dead = append(dead, t-start)
		}
	}
	if insensitive > surplus {
		x.Fail("key-ignores-drawn-byte", "%s: %d of %d tested bytes of the key's source draws do not influence the key (offsets %v) although only %d bytes are surplus: the key uses less than %d bytes of entropy", desc, insensitive, tested, dead, surplus, need)
	}
}
